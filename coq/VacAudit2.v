(* VacAudit2.v — TASK A2: vacuity audit, second pass (the Prop theorems added after VacuityAudit.v).
   Same conventions as VacuityAudit.v:
     <thm>_inst                       the Prop theorem applied to concrete data, ALL premises discharged
     <thm>_premises_satisfiable       exists witnesses, all premises
     <thm>_other_premises_satisfiable all premises except TornProofs.no_zero_collision, with the
                                      REAL CRC-32 (for which that premise is false: VacCrc.v)
   The important check of this pass: the theorems of the crash setting assume no_zero_collision
   TOGETHER with Inv, hist_wf, stream_bound, CB / crash bounds.  Module SatCrash instantiates them
   with P := NzcVacuous.P_sat 32 2 (the witness checksum) on a history with roll-overs, buffering
   (PDelay), two GC passes with unlinks and a persist point in the middle.
   The coverage table is at the end of the file. *)
From Coq Require Import Lia ZArith ZifyN ZifyNat ZifyBool List.
From MRL Require Import Bytes BytesProofs Params Names Frame Record Mem Spec Rolling Log Driver Hist
  WriterProofs SpecRefine RecordProofs StreamProofs ResyncProofs GhostLog ReplaySpec QueueIso
  PersistProofs TornProofs RestartInv RestartWrite RestartStep OpenReplay RestartFinal
  RestartCorollaries CrashTrace NzcVacuous CrashAtomic DamageAtomic PersistRecover PersistSurvive
  PersistShape PersistImage CrashCorollaries PowerLoss PanicFree TornFile VacBase VacCrash VacDamage VacCrc.
From MRL Require VacStream VacFiles.
From MRL Require PropC02 PropC02x PropC03 PropC04 PropC10 PropC12 PropC18.
Import ListNotations.

Arguments N.add : simpl never.
Arguments N.sub : simpl never.
Arguments N.mul : simpl never.
Arguments N.eqb : simpl never.
Arguments N.ltb : simpl never.
Arguments N.leb : simpl never.
Arguments N.div : simpl never.
Arguments N.modulo : simpl never.

(* ====================================================================== *)
(* 0. the crash setting from computations                                  *)
(* ====================================================================== *)
Section Setting.
Variable P : params.
Hypothesis HBS_lo : 7 < BS P.
Hypothesis HBS_hi : BS P <= 65542.
Hypothesis HNB : 1 <= NB P.
Hypothesis Hcrc : forall t p, crcf P t p < 2 ^ 32.
Hypothesis HGC : L_GC P = false.

Local Notation stN st h m := (fst (run P st (firstn m h))).
Local Notation absq st := (abs_qs (s_qs st)).
Local Notation MAXB := (FILE_BYTES P * (U64_MAX + 1)).

Lemma calls_log_run_log h : forall st, calls_log P st h = run_log P st h.
Proof.
  induction h as [|[o t] h IH]; intros st; cbn [calls_log run_log]; [reflexivity|].
  now rewrite IH.
Qed.

(* CB by computation: K bounds the encoding of a position entry of every queue of every state
   along the history, and from one block after every writer position there is room for one such
   entry per queue *)
Definition cb_check (K : N) (st : state) (h : list (op * bool)) : bool :=
  forallb (fun m2 =>
    enc_len_ok P K (map pos_ser (map fst (absq (stN st h m2)))) &&
    forallb (fun m1 =>
      wabs P (s_wr (stN st h m1)) + BS P + K * N.of_nat (length (absq (stN st h m2))) <=? MAXB)
      (seq 0 (S (length h))))
    (seq 0 (S (length h))).

Lemma CB_by K st h : cb_check K st h = true -> CB P st h.
Proof.
  intros Hc m1 m2 a extra Hm1 Hm2 Ha Hx.
  unfold cb_check in Hc. rewrite forallb_forall in Hc.
  specialize (Hc m2 ltac:(apply in_seq; lia)). cbn beta in Hc.
  apply andb_true_iff in Hc. destruct Hc as [HK Hc].
  rewrite forallb_forall in Hc. specialize (Hc m1 ltac:(apply in_seq; lia)). cbn beta in Hc.
  apply N.leb_le in Hc.
  pose proof (pos_extra_bound P HBS_lo HBS_hi HNB Hcrc _ K a extra HK Hx) as Hb.
  unfold PersistGc.wabs in Ha. unfold wabs in Hc.
  set (M := MAXB) in *. set (KK := K * _) in *. lia.
Qed.

(* a persist point reached from a fresh directory by the calls h_pre, with its ghost state, and
   the stream bound of a further history h by computation on the (then known) ghost log *)
Lemma persist_point pol st0 h_pre stp h :
  open P [] None pol [] = OpenOk st0 ->
  hist_ok P st0 (hcalls_of h_pre) ->
  fst (run P st0 h_pre) = stp ->
  cursor_after P 0 (map entry_ser (map snd (run_log P st0 h_pre) ++ map snd (run_log P stp h))) <= MAXB ->
  exists G0, Inv P stp G0 /\ gh_base G0 = 0 /\ gh_dropped G0 = [] /\
             gh_log G0 = run_log P st0 h_pre /\
             RestartWrite.stream_bound P G0 (map snd (run_log P stp h)).
Proof.
  intros Ho Hok Es Hb.
  pose proof (inv_fresh P HBS_lo HBS_hi HNB pol st0 Ho) as HI0.
  destruct (calls_inv_log P HBS_lo HBS_hi HNB Hcrc HGC h_pre st0 gh_fresh HI0 Hok)
    as (G & HI & Eb & Ed & El & _).
  rewrite Es in HI. change (gh_log gh_fresh) with (@nil (N * entry)) in El.
  rewrite app_nil_l, calls_log_run_log in El.
  change (gh_base gh_fresh) with 0 in Eb. change (gh_dropped gh_fresh) with (@nil entry) in Ed.
  exists G. split; [exact HI|]. split; [exact Eb|]. split; [exact Ed|]. split; [exact El|].
  unfold RestartWrite.stream_bound, gh_ALL. rewrite Eb, Ed, El, app_nil_l, N.mul_0_r, N.add_0_l.
  exact Hb.
Qed.

Lemma run_fst_firstn_all st h : fst (run P st (firstn (length h) h)) = fst (run P st h).
Proof. now rewrite firstn_all. Qed.
End Setting.

Lemma hist_wf_cons P st o t r s1 o1 :
  step P st o t = (s1, o1) -> op_wf_strict (s_qs st) o -> hist_wf P s1 r -> hist_wf P st ((o, t) :: r).
Proof. intros E H1 H2. cbn [hist_wf]. rewrite E. cbn [fst]. auto. Qed.

Ltac wfh_tac := eapply hist_wf_cons; [vm_compute; reflexivity | wf_tac | ].

(* the events a history added, in chronological order *)
Definition new_evs (st st' : state) : list event :=
  rev (firstn (length (c_ev (w_ctx (s_wr st'))) - length (c_ev (w_ctx (s_wr st))))
              (c_ev (w_ctx (s_wr st')))).

(* the I/O discipline of PowerLoss.disc, as a boolean *)
Fixpoint disc_b (cur : N) (dirty : bool) (evs : list event) : bool :=
  match evs with
  | [] => true
  | EvWrite n _ _ :: r => bytes_eqb n (filename cur) && disc_b cur true r
  | EvSyncData n :: r => bytes_eqb n (filename cur) && disc_b cur false r
  | EvFlush _ :: r => disc_b cur dirty r
  | EvSyncDir :: r => disc_b cur dirty r
  | EvCreate _ :: r => negb dirty && disc_b (cur + 1) false r
  | EvSetLen _ _ :: r => negb dirty && disc_b cur false r
  | EvUnlink _ :: r => negb dirty && disc_b cur false r
  | _ :: _ => false
  end.

Lemma disc_b_ok evs : forall cur d, disc_b cur d evs = true -> disc cur d evs.
Proof.
  induction evs as [|e r IH]; intros cur d H; [exact I|].
  destruct e; cbn [disc_b disc] in *; try discriminate H;
    try (apply andb_true_iff in H; destruct H as [H1 H2]);
    try (apply bytes_eqb_eq in H1); try (apply negb_true_iff in H1); auto.
Qed.

Definition qa : bytes := ["a"%byte].
Definition qb : bytes := ["b"%byte].
Definition pay (c : byte) : bytes := [c; c; c; c; c; c; c; c; c; c].
Definition st_dummy : state := mkSt (mkWr (ctx_init [] None) [] 0 0 []) [] PNothing.

(* from a fresh directory to a persist point (under PDelay true: appends are buffered unless the
   timer ticks; create_queue always persists): two roll-overs *)
Definition h_pre : list (op * bool) :=
  [(OCreate qa, false); (OAppend qa None [pay "x"; pay "y"], false);
   (OAppend qa None [pay "z"], true); (OCreate qb, false)].
(* the further history: buffered appends
   (one of them a batch of three records over two roll-overs, on which the timer ticks), an
   explicit persist with fsync after a buffered append (a persist point in the middle, i = 4), a
   truncate that empties qa, whose GC logs a position entry and unlinks files 0-2, a buffered
   append, two truncates (the second one's GC unlinks files 3-5), a last append left in the buffer *)
Definition h_cr : list (op * bool) :=
  [(OAppend qa None [pay "u"], false);
   (OAppend qb None [pay "p"; pay "q"; pay "r"], true);
   (OAppend qa None [pay "t"], false);
   (OPersist true, false);
   (OTruncate qa 4 [qb], false);
   (OAppend qa None [pay "v"], false);
   (OTruncate qb 1 [], true);
   (OAppend qb None [pay "w"], false);
   (OTruncate qb 2 [qa], false);
   (OAppend qa None [pay "s"], false)].

(* ====================================================================== *)
(* 1. the crash setting WITH no_zero_collision: P := NzcVacuous.P_sat 32 2 *)
(* ====================================================================== *)
Module SatCrash.
Definition Ps : params := P_sat 32 2.
Lemma Ps_BS_lo : 7 < BS Ps. Proof. reflexivity. Qed.
Lemma Ps_BS_hi : BS Ps <= 65542. Proof. intros H; discriminate H. Qed.
Lemma Ps_NB : 1 <= NB Ps. Proof. intros H; discriminate H. Qed.
Lemma Ps_crc : forall t p, crcf Ps t p < 2 ^ 32. Proof. exact crc_sat_lt. Qed.
Lemma Ps_nzc : no_zero_collision Ps. Proof. apply nzc_P_sat. intros H; discriminate H. Qed.

Definition st0 : state :=
  Eval vm_compute in match open Ps [] None (PDelay true) [] with OpenOk s => s | _ => st_dummy end.
Lemma open_st0 : open Ps [] None (PDelay true) [] = OpenOk st0.
Proof. vm_compute. reflexivity. Qed.
Definition stp : state := Eval vm_compute in fst (run Ps st0 h_pre).
Lemma run_pre : fst (run Ps st0 h_pre) = stp.
Proof. vm_compute. reflexivity. Qed.
Definition st_end : state := Eval vm_compute in fst (run Ps stp h_cr).
Lemma run_cr : fst (run Ps stp h_cr) = st_end.
Proof. vm_compute. reflexivity. Qed.
Definition evs_cr : list event := Eval vm_compute in new_evs stp st_end.

(* files, offset, buffered bytes, queues (positions, next) along h_pre and h_cr *)
Definition show (s : state) :=
  (w_files (s_wr s), w_off (s_wr s), lenN (w_pending (s_wr s)),
   map (fun '(q, (r, n)) => (q, map fst r, n)) (abs_qs (s_qs s))).
Example trace_s :
  map (fun k => show (fst (run Ps st0 (firstn k h_pre)))) [2; 3; 4]%nat =
    [([0; 1], 32, 0, [(qa, [0; 1], 2)]);
     ([0; 1; 2], 16, 0, [(qa, [0; 1; 2], 3)]);
     ([0; 1; 2], 42, 0, [(qa, [0; 1; 2], 3); (qb, [], 0)])] /\
  map (fun k => show (fst (run Ps stp (firstn k h_cr)))) [1; 2; 3; 4; 5; 6; 7; 8; 9; 10]%nat =
    [([0; 1; 2; 3], 26, 26, [(qa, [0; 1; 2; 3], 4); (qb, [], 0)]);
     ([0; 1; 2; 3; 4; 5], 10, 0, [(qa, [0; 1; 2; 3], 4); (qb, [0; 1; 2], 3)]);
     ([0; 1; 2; 3; 4; 5], 58, 26, [(qa, [0; 1; 2; 3; 4], 5); (qb, [0; 1; 2], 3)]);
     ([0; 1; 2; 3; 4; 5], 58, 0, [(qa, [0; 1; 2; 3; 4], 5); (qb, [0; 1; 2], 3)]);
     ([3; 4; 5; 6], 45, 0, [(qa, [], 5); (qb, [0; 1; 2], 3)]);
     ([3; 4; 5; 6; 7], 29, 29, [(qa, [5], 6); (qb, [0; 1; 2], 3)]);
     ([3; 4; 5; 6; 7], 51, 0, [(qa, [5], 6); (qb, [2], 3)]);
     ([3; 4; 5; 6; 7; 8], 42, 10, [(qa, [5], 6); (qb, [2; 3], 4)]);
     ([6; 7; 8], 61, 0, [(qa, [5], 6); (qb, [3], 4)]);
     ([6; 7; 8; 9], 48, 16, [(qa, [5; 6], 7); (qb, [3], 4)])] /\
  length evs_cr = 75%nat /\
  length (filter (fun e => match e with EvUnlink _ => true | _ => false end) evs_cr) = 6%nat /\
  snd (run Ps stp h_cr) =
    [OutAppend (Some 3) 48; OutAppend (Some 2) 112; OutAppend (Some 4) 48; OutPersist;
     OutTruncate 5 51; OutAppend (Some 5) 48; OutTruncate 2 22; OutAppend (Some 3) 55;
     OutTruncate 1 19; OutAppend (Some 6) 51].
Proof. vm_compute. repeat split; reflexivity. Qed.

Lemma hist_ok_pre : hist_ok Ps st0 (hcalls_of h_pre).
Proof. unfold h_pre, hcalls_of. cbn [map fst snd]. call_tac. call_tac. call_tac. call_tac. exact I. Qed.

Lemma hist_wf_cr : hist_wf Ps stp h_cr.
Proof.
  unfold h_cr. wfh_tac. wfh_tac. wfh_tac. wfh_tac. wfh_tac. wfh_tac. wfh_tac. wfh_tac. wfh_tac. wfh_tac.
  exact I.
Qed.

Lemma CB_cr : CB Ps stp h_cr.
Proof.
  apply (CB_by Ps Ps_BS_lo Ps_BS_hi Ps_NB Ps_crc 64). vm_compute. reflexivity.
Qed.

Lemma evs_cr_ok : c_ev (w_ctx (s_wr (fst (run Ps stp h_cr)))) = rev evs_cr ++ c_ev (w_ctx (s_wr stp)).
Proof. vm_compute. reflexivity. Qed.

(* ALL premises of the crash setting (C03_process_crash, C03_power_loss, C04_crash_next_positions,
   C18_crash_projection, C12_batch_crash ...) hold together, no_zero_collision included *)
Lemma crash_setting_premises_satisfiable :
  7 < BS Ps /\ BS Ps <= 65542 /\ 1 <= NB Ps /\ (forall t p, crcf Ps t p < 2 ^ 32) /\
  L_GC Ps = false /\ L_IO Ps = false /\ L_SHORT Ps = false /\ no_zero_collision Ps /\
  exists G0,
    Inv Ps stp G0 /\ w_pending (s_wr stp) = [] /\ hist_wf Ps stp h_cr /\
    RestartWrite.stream_bound Ps G0 (map snd (run_log Ps stp h_cr)) /\ CB Ps stp h_cr /\
    c_ev (w_ctx (s_wr (fst (run Ps stp h_cr)))) = rev evs_cr ++ c_ev (w_ctx (s_wr stp)).
Proof.
  split; [exact Ps_BS_lo|]. split; [exact Ps_BS_hi|]. split; [exact Ps_NB|]. split; [exact Ps_crc|].
  split; [reflexivity|]. split; [reflexivity|]. split; [reflexivity|]. split; [exact Ps_nzc|].
  destruct (persist_point Ps Ps_BS_lo Ps_BS_hi Ps_NB Ps_crc eq_refl (PDelay true) st0 h_pre stp h_cr
              open_st0 hist_ok_pre run_pre) as (G0 & HI & _ & _ & _ & Hsb).
  { vm_compute. intros H; discriminate H. }
  exists G0. split; [exact HI|]. split; [reflexivity|]. split; [exact hist_wf_cr|].
  split; [exact Hsb|]. split; [exact CB_cr|exact evs_cr_ok].
Qed.

Ltac setting G0 HI Hp Hwf Hsb Hcb Hev :=
  destruct crash_setting_premises_satisfiable
    as (_ & _ & _ & _ & _ & _ & _ & _ & G0 & HI & Hp & Hwf & Hsb & Hcb & Hev).
Local Notation TH f := (f Ps Ps_BS_lo Ps_BS_hi Ps_NB Ps_crc eq_refl eq_refl eq_refl Ps_nzc) (only parsing).

(* ---------- PropC03 ---------- *)
Lemma C03_process_crash_inst : forall cut k pol hint,
  exists m st_r, (m <= length h_cr)%nat /\
    open Ps (fold_left apply_event (crash_events evs_cr cut k) (c_fs (w_ctx (s_wr stp)))) None pol hint =
      OpenOk st_r /\
    (forall q, s_get (abs_qs (s_qs st_r)) q = s_get (abs_qs (s_qs (fst (run Ps stp (firstn m h_cr))))) q).
Proof.
  setting G0 HI Hp Hwf Hsb Hcb Hev.
  exact (TH PropC03.C03_process_crash stp G0 HI Hp h_cr Hwf Hsb Hcb evs_cr Hev).
Qed.

(* call i = 4 (the explicit persist, after a buffered append): 29 events up to its return *)
Definition st_i : state := Eval vm_compute in fst (run Ps stp (firstn 4 h_cr)).
Definition evs_i : list event := Eval vm_compute in new_evs stp st_i.
Lemma run_i : fst (run Ps stp (firstn 4 h_cr)) = st_i.
Proof. vm_compute. reflexivity. Qed.
Lemma evs_i_ok : c_ev (w_ctx (s_wr (fst (run Ps stp (firstn 4 h_cr))))) = rev evs_i ++ c_ev (w_ctx (s_wr stp)).
Proof. vm_compute. reflexivity. Qed.
Lemma pend_i : w_pending (s_wr (fst (run Ps stp (firstn 4 h_cr)))) = [].
Proof. vm_compute. reflexivity. Qed.
Example evs_i_len : lenN evs_i = 29 /\ (4 <= length h_cr)%nat.
Proof. vm_compute. split; [reflexivity|]. repeat constructor. Qed.

Lemma C03_persisted_survives_inst : forall cut k pol hint, 29 <= cut ->
  exists m st_r, (4 <= m)%nat /\ (m <= length h_cr)%nat /\
    open Ps (fold_left apply_event (crash_events evs_cr cut k) (c_fs (w_ctx (s_wr stp)))) None pol hint =
      OpenOk st_r /\
    (forall q, s_get (abs_qs (s_qs st_r)) q = s_get (abs_qs (s_qs (fst (run Ps stp (firstn m h_cr))))) q).
Proof.
  setting G0 HI Hp Hwf Hsb Hcb Hev. intros cut k pol hint Hcut.
  refine (TH PropC03.C03_persisted_survives stp G0 h_cr evs_cr 4%nat evs_i HI Hp Hwf Hsb Hcb Hev
            (proj2 evs_i_len) pend_i evs_i_ok cut k pol hint _).
  rewrite (proj1 evs_i_len). exact Hcut.
Qed.

Lemma C03_power_loss_inst : forall cut pol hint,
  exists m st_r, (m <= length h_cr)%nat /\
    open Ps (fold_left apply_event (power_events evs_cr cut) (c_fs (w_ctx (s_wr stp)))) None pol hint =
      OpenOk st_r /\
    (forall q, s_get (abs_qs (s_qs st_r)) q = s_get (abs_qs (s_qs (fst (run Ps stp (firstn m h_cr))))) q).
Proof.
  setting G0 HI Hp Hwf Hsb Hcb Hev.
  exact (TH PropC03.C03_power_loss stp G0 HI Hp h_cr Hwf Hsb evs_cr Hev Hcb).
Qed.

(* wr_all_synced at the two persist points: others_synced is an invariant from open on, and a
   call that persists with fsync leaves every file synced (C03_fsync_durable) *)
Lemma run_others_synced P h : forall st,
  others_synced (s_wr st) -> others_synced (s_wr (fst (run P st h))).
Proof.
  induction h as [|[o t] h IH]; intros st Hs; [exact Hs|].
  cbn [run]. pose proof (PropC03.C03_other_files_synced P st o t Hs) as H1.
  destruct (step P st o t) as [st1 out]. cbn [fst] in *. specialize (IH st1 H1).
  destruct (run P st1 h) as [st2 outs]. exact IH.
Qed.

Lemma others_st0 : others_synced (s_wr st0).
Proof. exact (proj1 (PropC03.C03_open_establishes Ps [] None (PDelay true) [] st0 open_st0)). Qed.

Definition st_p3 : state := Eval vm_compute in fst (run Ps st0 (firstn 3 h_pre)).
Lemma synced_stp : wr_all_synced (s_wr stp).
Proof.
  assert (Ho : others_synced (s_wr st_p3)).
  { replace st_p3 with (fst (run Ps st0 (firstn 3 h_pre))) by (vm_compute; reflexivity).
    apply run_others_synced, others_st0. }
  refine (proj1 (PropC03.C03_fsync_durable Ps st_p3 (OCreate qb) false stp (OutCreate 26) _ _ _ Ho)).
  - vm_compute. reflexivity.
  - reflexivity.
  - reflexivity.
Qed.

Definition st_3 : state := Eval vm_compute in fst (run Ps stp (firstn 3 h_cr)).
Lemma synced_i : wr_all_synced (s_wr (fst (run Ps stp (firstn 4 h_cr)))).
Proof.
  rewrite run_i.
  assert (Ho : others_synced (s_wr st_3)).
  { replace st_3 with (fst (run Ps stp (firstn 3 h_cr))) by (vm_compute; reflexivity).
    apply run_others_synced, wr_all_synced_others, synced_stp. }
  refine (proj1 (PropC03.C03_fsync_durable Ps st_3 (OPersist true) false st_i OutPersist _ _ _ Ho)).
  - vm_compute. reflexivity.
  - reflexivity.
  - reflexivity.
Qed.

Lemma C03_fsynced_survives_power_loss_inst : forall cut pol hint, 29 <= cut ->
  exists m st_r, (4 <= m)%nat /\ (m <= length h_cr)%nat /\
    open Ps (fold_left apply_event (power_events evs_cr cut) (c_fs (w_ctx (s_wr stp)))) None pol hint =
      OpenOk st_r /\
    (forall q, s_get (abs_qs (s_qs st_r)) q = s_get (abs_qs (s_qs (fst (run Ps stp (firstn m h_cr))))) q).
Proof.
  setting G0 HI Hp Hwf Hsb Hcb Hev. intros cut pol hint Hcut.
  refine (TH PropC03.C03_fsynced_survives_power_loss stp G0 h_cr evs_cr 4%nat evs_i HI Hp Hwf Hsb Hcb Hev
            (proj2 evs_i_len) pend_i synced_i evs_i_ok cut pol hint _).
  rewrite (proj1 evs_i_len). exact Hcut.
Qed.

(* the whole trace from the fresh (empty) directory: 31 events up to the persist point *)
Lemma fs_stp : c_fs (w_ctx (s_wr stp)) = replay_events [] (chrono (w_ctx (s_wr stp))).
Proof. vm_compute. reflexivity. Qed.
Example chrono_stp_len : lenN (chrono (w_ctx (s_wr stp))) = 31.
Proof. vm_compute. reflexivity. Qed.

Lemma C03_power_loss_total_inst : forall cut pol hint, 31 <= cut ->
  exists m st_r, (m <= length h_cr)%nat /\
    open Ps (replay_events [] (power_events (chrono (w_ctx (s_wr (fst (run Ps stp h_cr))))) cut)) None pol hint =
      OpenOk st_r /\
    (forall q, s_get (abs_qs (s_qs st_r)) q = s_get (abs_qs (s_qs (fst (run Ps stp (firstn m h_cr))))) q).
Proof.
  setting G0 HI Hp Hwf Hsb Hcb Hev. intros cut pol hint Hcut.
  refine (TH PropC03.C03_power_loss_total stp G0 HI Hp h_cr Hwf Hsb evs_cr Hev Hcb [] synced_stp fs_stp
            cut pol hint _).
  rewrite chrono_stp_len. exact Hcut.
Qed.

(* C03_power_is_crash: the 75 events of h_cr have the discipline (file 2 current, possibly dirty) *)
Lemma disc_cr : disc 2 true evs_cr.
Proof. apply disc_b_ok. vm_compute. reflexivity. Qed.

Lemma C03_power_is_crash_inst : forall cut,
  exists cut', cut' <= cut /\
    (forall fs, fold_left apply_event (power_events evs_cr cut) fs =
                fold_left apply_event (crash_events evs_cr cut' 0) fs) /\
    CrashTrace.ev_data (power_events evs_cr cut) = CrashTrace.ev_data (crash_events evs_cr cut' 0) /\
    Forall (fun e => ~ meta_ev e) (dropN cut' (takeN cut evs_cr)).
Proof. intros cut. exact (PropC03.C03_power_is_crash evs_cr 2 true cut disc_cr). Qed.

(* a cut at which the power-loss image differs from the process-crash image at the same cut:
   after the first (buffered, then flushed at the roll-over) write but before its sync *)
Example power_differs : power_events evs_cr 1 <> crash_events evs_cr 1 0.
Proof. vm_compute. discriminate. Qed.

(* C03_trace_shape / C03_image_shape (no no_zero_collision needed; same instance) *)
Lemma C03_trace_shape_inst :
  exists Dos,
    Dos ++ w_pending (s_wr (fst (run Ps stp h_cr))) =
      ResyncProofs.encs_of Ps (PersistGc.wabs Ps (s_wr stp))
        (map entry_ser (map snd (run_log Ps stp h_cr))) /\
    CrashTrace.ev_data evs_cr = Dos /\ lenN (w_pending (s_wr (fst (run Ps stp h_cr)))) = 16.
Proof.
  setting G0 HI Hp Hwf Hsb Hcb Hev.
  destruct (PropC03.C03_trace_shape Ps Ps_BS_lo Ps_BS_hi Ps_NB Ps_crc eq_refl stp G0 h_cr evs_cr
              HI Hp Hwf Hsb Hev) as (Dos & _ & H2 & H3).
  exists Dos. split; [exact H2|]. split; [exact H3|]. vm_compute. reflexivity.
Qed.

Lemma C03_image_shape_inst : forall cut k,
  let img := fold_left apply_event (crash_events evs_cr cut k) (c_fs (w_ctx (s_wr stp))) in
  exists lo' hi,
    FileStream.wlo (s_wr stp) <= lo' /\ lo' <= hi /\ GcProofs.nodup_keys img /\
    list_wal_numbers img = CrashTrace.nfiles lo' hi.
Proof.
  setting G0 HI Hp Hwf Hsb Hcb Hev. intros cut k.
  destruct (PropC03.C03_image_shape Ps Ps_BS_lo Ps_BS_hi Ps_NB Ps_crc eq_refl stp G0 h_cr evs_cr
              HI Hp Hwf Hsb Hev cut k)
    as (lo' & hi & short & z & j & g & H1 & H2 & _ & H4 & _ & H6 & _).
  exists lo', hi. auto.
Qed.

(* ---------- PropC04 / PropC18 (crash halves) ---------- *)
Lemma C04_crash_next_positions_inst : forall cut k pol hint,
  exists m st_r, (m <= length h_cr)%nat /\
    open Ps (fold_left apply_event (crash_events evs_cr cut k) (c_fs (w_ctx (s_wr stp)))) None pol hint =
      OpenOk st_r /\
    (forall q, log_next st_r q = log_next (fst (run Ps stp (firstn m h_cr))) q) /\
    (* neither queue is deleted in h_cr: their next positions never fall below 3 and 0 *)
    3 <= log_next st_r qa /\ qs_get (s_qs st_r) qb <> None.
Proof.
  setting G0 HI Hp Hwf Hsb Hcb Hev. intros cut k pol hint.
  destruct (TH PropC04.C04_crash_next_positions stp G0 HI Hp h_cr Hwf Hsb Hcb evs_cr Hev cut k pol hint)
    as (m & st_r & Hm & Ho & _ & H2 & H3).
  exists m, st_r. split; [exact Hm|]. split; [exact Ho|]. split; [intros q; apply (H2 q)|].
  split.
  - destruct (H3 qa) as [Hn _]; [vm_compute; repeat split; reflexivity|].
    replace (log_next stp qa) with 3 in Hn by (vm_compute; reflexivity). exact Hn.
  - destruct (H3 qb) as [_ Hn]; [vm_compute; repeat split; reflexivity|].
    apply Hn. vm_compute. discriminate.
Qed.

Lemma C04_crash_next_after_persist_inst : forall cut k pol hint, 29 <= cut ->
  exists m st_r, (4 <= m)%nat /\ (m <= length h_cr)%nat /\
    open Ps (fold_left apply_event (crash_events evs_cr cut k) (c_fs (w_ctx (s_wr stp)))) None pol hint =
      OpenOk st_r /\
    (forall q, log_next st_r q = log_next (fst (run Ps stp (firstn m h_cr))) q) /\
    5 <= log_next st_r qa /\ 3 <= log_next st_r qb.
Proof.
  setting G0 HI Hp Hwf Hsb Hcb Hev. intros cut k pol hint Hcut.
  destruct (TH PropC04.C04_crash_next_after_persist stp G0 HI Hp h_cr Hwf Hsb Hcb evs_cr Hev
              4%nat evs_i (proj2 evs_i_len) pend_i evs_i_ok cut k pol hint
              ltac:(rewrite (proj1 evs_i_len); exact Hcut))
    as (m & st_r & Hm1 & Hm2 & Ho & _ & H2 & H3).
  exists m, st_r. split; [exact Hm1|]. split; [exact Hm2|]. split; [exact Ho|]. split; [exact H2|].
  split.
  - destruct (H3 qa) as [Hn _]; [vm_compute; repeat split; reflexivity|].
    replace (log_next (fst (run Ps stp (firstn 4 h_cr))) qa) with 5 in Hn by (vm_compute; reflexivity).
    exact Hn.
  - destruct (H3 qb) as [Hn _]; [vm_compute; repeat split; reflexivity|].
    replace (log_next (fst (run Ps stp (firstn 4 h_cr))) qb) with 3 in Hn by (vm_compute; reflexivity).
    exact Hn.
Qed.

Lemma C18_crash_projection_inst : forall cut k pol hint,
  exists m st_r, (m <= length h_cr)%nat /\
    open Ps (fold_left apply_event (crash_events evs_cr cut k) (c_fs (w_ctx (s_wr stp)))) None pol hint =
      OpenOk st_r /\
    (forall q m0, s_get m0 q = s_get (abs_qs (s_qs stp)) q ->
       let mq := fst (s_run m0 (filter (addressed q) (firstn m (sops h_cr)))) in
       s_get (abs_qs (s_qs st_r)) q = s_get mq q /\
       (forall lo hi, log_range st_r q lo hi = s_range mq q lo hi) /\
       log_last_position st_r q = s_last_position mq q /\
       log_last_record st_r q = s_last_record mq q /\ log_next st_r q = next_or0 (s_get mq q)).
Proof.
  setting G0 HI Hp Hwf Hsb Hcb Hev.
  exact (TH PropC18.C18_crash_projection stp G0 HI Hp h_cr Hwf Hsb Hcb evs_cr Hev).
Qed.

(* ---------- PropC12 (crash halves): the batch is the append of three records to qb ---------- *)
Definition h1_b : list (op * bool) := [(OAppend qa None [pay "u"], false)].
Definition pl_b : list bytes := [pay "p"; pay "q"; pay "r"].
Definition h2_b : list (op * bool) := skipn 2 h_cr.
Lemma h_cr_split : h_cr = h1_b ++ (OAppend qb None pl_b, true) :: h2_b.
Proof. reflexivity. Qed.
Lemma out_b : snd (step Ps (fst (run Ps stp h1_b)) (OAppend qb None pl_b) true) = OutAppend (Some 2) 112.
Proof. vm_compute. reflexivity. Qed.

Lemma C12_batch_crash_inst : forall cut k pol hint,
  exists m st_r, (m <= length h_cr)%nat /\
    open Ps (fold_left apply_event (crash_events evs_cr cut k) (c_fs (w_ctx (s_wr stp)))) None pol hint =
      OpenOk st_r /\
    (forall q', Spec.s_get (abs_qs (s_qs st_r)) q' =
                Spec.s_get (abs_qs (s_qs (fst (Hist.run Ps stp (firstn m h_cr))))) q') /\
    batch_at Ps stp h1_b qb pl_b h2_b
      (fst (step Ps (fst (Hist.run Ps stp h1_b)) (OAppend qb None pl_b) true)) 2 m
      (Spec.s_get (abs_qs (s_qs st_r)) qb).
Proof.
  setting G0 HI Hp Hwf Hsb Hcb Hev.
  exact (TH PropC12.C12_batch_crash stp G0 HI Hp h_cr Hwf Hsb Hcb evs_cr Hev h1_b qb None pl_b true
           h2_b 2 112 h_cr_split out_b).
Qed.


(* the timer ticks on the batch append: it leaves nothing buffered; 24 events up to its return *)
Definition st_b : state := Eval vm_compute in fst (step Ps (fst (run Ps stp h1_b)) (OAppend qb None pl_b) true).
Definition evs_b : list event := Eval vm_compute in new_evs stp st_b.
Lemma pend_b : w_pending (s_wr (fst (step Ps (fst (run Ps stp h1_b)) (OAppend qb None pl_b) true))) = [].
Proof. vm_compute. reflexivity. Qed.
Lemma evs_b_ok :
  c_ev (w_ctx (s_wr (fst (step Ps (fst (run Ps stp h1_b)) (OAppend qb None pl_b) true)))) =
  rev evs_b ++ c_ev (w_ctx (s_wr stp)).
Proof. vm_compute. reflexivity. Qed.
Example evs_b_len : lenN evs_b = 24.
Proof. vm_compute. reflexivity. Qed.

Lemma C12_batch_crash_persisted_inst : forall cut k pol hint, 24 <= cut ->
  exists m st_r, (length h1_b < m)%nat /\ (m <= length h_cr)%nat /\
    open Ps (fold_left apply_event (crash_events evs_cr cut k) (c_fs (w_ctx (s_wr stp)))) None pol hint =
      OpenOk st_r /\
    (* qb is never deleted: what is recovered of the batch is a suffix of it *)
    exists recs next j,
      Spec.s_get (abs_qs (s_qs st_r)) qb = Some (recs, next) /\ 2 < next /\
      filter (in_span (2 + 1 - lenN pl_b) (2 + 1)) recs = skipn j (Spec.s_number (2 + 1 - lenN pl_b) pl_b).
Proof.
  setting G0 HI Hp Hwf Hsb Hcb Hev. intros cut k pol hint Hcut.
  destruct (TH PropC12.C12_batch_crash_persisted stp G0 HI Hp h_cr Hwf Hsb Hcb evs_cr Hev h1_b qb None pl_b
              true h2_b 2 112 evs_b h_cr_split out_b pend_b evs_b_ok cut k pol hint
              ltac:(rewrite evs_b_len; exact Hcut))
    as (m & st_r & Hm1 & Hm2 & Ho & Hb).
  exists m, st_r. split; [exact Hm1|]. split; [exact Hm2|]. split; [exact Ho|].
  apply Hb. unfold log_never_deleted.
  (* no call of h_cr is a delete_queue *)
  assert (Hnd : forall n, forallb (fun x => negb (l_deleted qb (fst x) (snd x)))
                           (combine (firstn n h2_b) (snd (run Ps st_b (firstn n h2_b)))) = true).
  { intros n. do 9 (destruct n as [|n]; [vm_compute; reflexivity|]). vm_compute. reflexivity. }
  replace (fst (step Ps (fst (run Ps stp h1_b)) (OAppend qb None pl_b) true)) with st_b
    by (vm_compute; reflexivity).
  apply Hnd.
Qed.

(* independent check by computation (not via the theorems): EVERY process-crash image of the 75
   events (every cut, every number of bytes of every write: 495 images) is opened, and the
   recovered abstract state is compared with the states after the prefixes of h_cr: the list
   gives, for m = 0 .. 10, the number of images recovered to the state after m calls (the first
   matching m: call 4, the explicit persist, does not change the abstract state; call 10, the last
   append, never leaves the buffer); none fails *)
Definition verdict (ck : N * N) : option nat :=
  let img := fold_left apply_event (crash_events evs_cr (fst ck) (snd ck)) (c_fs (w_ctx (s_wr stp))) in
  match open Ps img None PNothing [] with
  | OpenOk st_r =>
      find (fun m => CrashExample.smap_ext_eqb (abs_qs (s_qs st_r))
                       (abs_qs (s_qs (fst (run Ps stp (firstn m h_cr))))))
           (seq 0 11)
  | _ => None
  end.
Definition census : list nat * nat :=
  let vs := map verdict (CrashExample.crash_points evs_cr) in
  (map (fun m => length (filter (fun v => match v with Some m' => Nat.eqb m m' | None => false end) vs))
       (seq 0 11),
   length (filter (fun v => match v with None => true | _ => false end) vs)).
Example census_cr : census = ([53; 122; 51; 33; 0; 85; 22; 63; 19; 47; 0]%nat, 0%nat).
Proof. vm_compute. reflexivity. Qed.
End SatCrash.

(* ====================================================================== *)
(* 2. the same setting with the REAL CRC-32: every premise except          *)
(*    no_zero_collision (which is false for it: VacCrc.crc32_refutes_nzc)  *)
(* ====================================================================== *)
Module RealCrash.
Import CrashAtomic.CrashExample.
Definition st0 : state :=
  Eval vm_compute in match open Pe [] None (PDelay true) [] with OpenOk s => s | _ => st_dummy end.
Lemma open_st0 : open Pe [] None (PDelay true) [] = OpenOk st0.
Proof. vm_compute. reflexivity. Qed.
Definition stp : state := Eval vm_compute in fst (run Pe st0 h_pre).
Lemma run_pre : fst (run Pe st0 h_pre) = stp.
Proof. vm_compute. reflexivity. Qed.
Definition st_end : state := Eval vm_compute in fst (run Pe stp h_cr).
Definition evs_cr : list event := Eval vm_compute in new_evs stp st_end.
Definition st_i : state := Eval vm_compute in fst (run Pe stp (firstn 4 h_cr)).
Definition evs_i : list event := Eval vm_compute in new_evs stp st_i.
Definition st_p3 : state := Eval vm_compute in fst (run Pe st0 (firstn 3 h_pre)).
Definition st_3 : state := Eval vm_compute in fst (run Pe stp (firstn 3 h_cr)).
Definition st_b : state :=
  Eval vm_compute in fst (step Pe (fst (run Pe stp SatCrash.h1_b)) (OAppend qb None SatCrash.pl_b) true).
Definition evs_b : list event := Eval vm_compute in new_evs stp st_b.

(* the checksum does not change lengths: same files, offsets, buffered bytes and events as with
   the witness checksum *)
Example same_shape_as_sat :
  map (fun k => SatCrash.show (fst (run Pe stp (firstn k h_cr)))) (seq 0 11) =
  map (fun k => SatCrash.show (fst (run SatCrash.Ps SatCrash.stp (firstn k h_cr)))) (seq 0 11) /\
  length evs_cr = 75%nat.
Proof. vm_compute. split; reflexivity. Qed.

Lemma hist_ok_pre : hist_ok Pe st0 (hcalls_of h_pre).
Proof. unfold h_pre, hcalls_of. cbn [map fst snd]. call_tac. call_tac. call_tac. call_tac. exact I. Qed.

Lemma hist_wf_cr : hist_wf Pe stp h_cr.
Proof.
  unfold h_cr. wfh_tac. wfh_tac. wfh_tac. wfh_tac. wfh_tac. wfh_tac. wfh_tac. wfh_tac. wfh_tac. wfh_tac.
  exact I.
Qed.

Lemma others_st0 : others_synced (s_wr st0).
Proof. exact (proj1 (PropC03.C03_open_establishes Pe [] None (PDelay true) [] st0 open_st0)). Qed.

Lemma synced_stp : wr_all_synced (s_wr stp).
Proof.
  assert (Ho : others_synced (s_wr st_p3)).
  { replace st_p3 with (fst (run Pe st0 (firstn 3 h_pre))) by (vm_compute; reflexivity).
    apply SatCrash.run_others_synced, others_st0. }
  refine (proj1 (PropC03.C03_fsync_durable Pe st_p3 (OCreate qb) false stp (OutCreate 26) _ _ _ Ho)).
  - vm_compute. reflexivity.
  - reflexivity.
  - reflexivity.
Qed.

Lemma synced_i : wr_all_synced (s_wr (fst (run Pe stp (firstn 4 h_cr)))).
Proof.
  replace (fst (run Pe stp (firstn 4 h_cr))) with st_i by (vm_compute; reflexivity).
  assert (Ho : others_synced (s_wr st_3)).
  { replace st_3 with (fst (run Pe stp (firstn 3 h_cr))) by (vm_compute; reflexivity).
    apply SatCrash.run_others_synced, wr_all_synced_others, synced_stp. }
  refine (proj1 (PropC03.C03_fsync_durable Pe st_3 (OPersist true) false st_i OutPersist _ _ _ Ho)).
  - vm_compute. reflexivity.
  - reflexivity.
  - reflexivity.
Qed.

(* the premises of C03_process_crash, C03_power_loss, C04_crash_next_positions,
   C18_crash_projection (first block), with those added by C03_persisted_survives /
   C04_crash_next_after_persist (i = 4), C03_fsynced_survives_power_loss, C03_power_loss_total and
   C12_batch_crash / C12_batch_crash_persisted (the batch) *)
Lemma crash_setting_other_premises_satisfiable :
  7 < BS Pe /\ BS Pe <= 65542 /\ 1 <= NB Pe /\ (forall t p, crcf Pe t p < 2 ^ 32) /\
  L_GC Pe = false /\ L_IO Pe = false /\ L_SHORT Pe = false /\
  exists G0,
    (Inv Pe stp G0 /\ w_pending (s_wr stp) = [] /\ hist_wf Pe stp h_cr /\
     RestartWrite.stream_bound Pe G0 (map snd (run_log Pe stp h_cr)) /\ CB Pe stp h_cr /\
     c_ev (w_ctx (s_wr (fst (run Pe stp h_cr)))) = rev evs_cr ++ c_ev (w_ctx (s_wr stp))) /\
    ((4 <= length h_cr)%nat /\
     w_pending (s_wr (fst (run Pe stp (firstn 4 h_cr)))) = [] /\
     c_ev (w_ctx (s_wr (fst (run Pe stp (firstn 4 h_cr))))) = rev evs_i ++ c_ev (w_ctx (s_wr stp)) /\
     lenN evs_i <= 29) /\
    wr_all_synced (s_wr (fst (run Pe stp (firstn 4 h_cr)))) /\
    (wr_all_synced (s_wr stp) /\
     c_fs (w_ctx (s_wr stp)) = replay_events [] (chrono (w_ctx (s_wr stp))) /\
     lenN (chrono (w_ctx (s_wr stp))) <= 31) /\
    (h_cr = SatCrash.h1_b ++ (OAppend qb None SatCrash.pl_b, true) :: SatCrash.h2_b /\
     snd (step Pe (fst (run Pe stp SatCrash.h1_b)) (OAppend qb None SatCrash.pl_b) true) =
       OutAppend (Some 2) 112 /\
     w_pending (s_wr (fst (step Pe (fst (run Pe stp SatCrash.h1_b)) (OAppend qb None SatCrash.pl_b) true))) = [] /\
     c_ev (w_ctx (s_wr (fst (step Pe (fst (run Pe stp SatCrash.h1_b)) (OAppend qb None SatCrash.pl_b) true)))) =
       rev evs_b ++ c_ev (w_ctx (s_wr stp)) /\
     lenN evs_b <= 24).
Proof.
  split; [exact Pe_BS_lo|]. split; [exact Pe_BS_hi|]. split; [exact Pe_NB|]. split; [exact Pe_crc|].
  split; [reflexivity|]. split; [reflexivity|]. split; [reflexivity|].
  destruct (persist_point Pe Pe_BS_lo Pe_BS_hi Pe_NB Pe_crc eq_refl (PDelay true) st0 h_pre stp h_cr
              open_st0 hist_ok_pre run_pre) as (G0 & HI & _ & _ & _ & Hsb).
  { vm_compute. intros H; discriminate H. }
  exists G0. split.
  { split; [exact HI|]. split; [reflexivity|]. split; [exact hist_wf_cr|]. split; [exact Hsb|].
    split; [|vm_compute; reflexivity].
    apply (CB_by Pe Pe_BS_lo Pe_BS_hi Pe_NB Pe_crc 64). vm_compute. reflexivity. }
  split.
  { split; [vm_compute; repeat constructor|]. split; [vm_compute; reflexivity|].
    split; [vm_compute; reflexivity|]. vm_compute. intros H; discriminate H. }
  split; [exact synced_i|]. split.
  { split; [exact synced_stp|]. split; [vm_compute; reflexivity|]. vm_compute. intros H; discriminate H. }
  split; [reflexivity|]. split; [vm_compute; reflexivity|]. split; [vm_compute; reflexivity|].
  split; [vm_compute; reflexivity|]. vm_compute. intros H; discriminate H.
Qed.

(* C03_trace_shape and C03_image_shape do not assume no_zero_collision: instances with the real CRC *)
Lemma C03_trace_shape_real_inst :
  exists Dos,
    Dos ++ w_pending (s_wr (fst (run Pe stp h_cr))) =
      ResyncProofs.encs_of Pe (PersistGc.wabs Pe (s_wr stp))
        (map entry_ser (map snd (run_log Pe stp h_cr))) /\
    CrashTrace.ev_data evs_cr = Dos.
Proof.
  destruct crash_setting_other_premises_satisfiable
    as (_ & _ & _ & _ & _ & _ & _ & G0 & (HI & Hp & Hwf & Hsb & Hcb & Hev) & _).
  destruct (PropC03.C03_trace_shape Pe Pe_BS_lo Pe_BS_hi Pe_NB Pe_crc eq_refl stp G0 h_cr evs_cr
              HI Hp Hwf Hsb Hev) as (Dos & _ & H2 & H3).
  exists Dos. split; [exact H2|exact H3].
Qed.

Lemma C03_image_shape_real_inst : forall cut k,
  let img := fold_left apply_event (crash_events evs_cr cut k) (c_fs (w_ctx (s_wr stp))) in
  exists lo' hi,
    FileStream.wlo (s_wr stp) <= lo' /\ lo' <= hi /\ GcProofs.nodup_keys img /\
    list_wal_numbers img = CrashTrace.nfiles lo' hi.
Proof.
  destruct crash_setting_other_premises_satisfiable
    as (_ & _ & _ & _ & _ & _ & _ & G0 & (HI & Hp & Hwf & Hsb & Hcb & Hev) & _).
  intros cut k.
  destruct (PropC03.C03_image_shape Pe Pe_BS_lo Pe_BS_hi Pe_NB Pe_crc eq_refl stp G0 h_cr evs_cr
              HI Hp Hwf Hsb Hev cut k)
    as (lo' & hi & short & z & j & g & H1 & H2 & _ & H4 & _ & H6 & _).
  exists lo', hi. auto.
Qed.
End RealCrash.

(* ====================================================================== *)
(* 3. the "Always policies from a fresh directory" variants, WITH          *)
(*    no_zero_collision: C04_crash_next_always, C18_crash_projection_always,*)
(*    C12_batch_crash_always (and C02_crash_atomic / C02_history, which the *)
(*    first audit could only show satisfiable without that premise)        *)
(* ====================================================================== *)
Module SatAlways.
Import SatCrash.
Import CrashAtomic.CrashExample.
(* CrashExample.h_ex: create a, append [x;y] (a batch), append, create b, append at 5, RESTART,
   append; then the call in flight: truncate(a, ..=6) with GC hint [b] *)
Definition s0 : state :=
  Eval vm_compute in match open Ps [] None (PAlways true) [] with OpenOk s => s | _ => st_dummy end.
Lemma open_s0 : open Ps [] None (PAlways true) [] = OpenOk s0.
Proof. vm_compute. reflexivity. Qed.
Definition s_ex : state :=
  Eval vm_compute in match hrun Ps s0 h_ex with Some (s, _) => s | None => st_dummy end.
Definition outs_s : list outcome :=
  Eval vm_compute in match hrun Ps s0 h_ex with Some (_, o) => o | None => [] end.
Lemma hrun_s : hrun Ps s0 h_ex = Some (s_ex, outs_s).
Proof. vm_compute. reflexivity. Qed.

Lemma hist_ok_s : hist_ok Ps s0 h_ex.
Proof.
  unfold h_ex.
  call_tac. call_tac. call_tac. call_tac. call_tac.
  eapply hist_ok_restart; [vm_compute; reflexivity| |].
  { apply (restart_bound_by Ps Ps_BS_lo Ps_BS_hi Ps_NB Ps_crc 64); [vm_compute; reflexivity|le_tac]. }
  call_tac. exact I.
Qed.

Definition s_cr : state := Eval vm_compute in fst (step Ps s_ex o_cr false).
Definition out_s : outcome := Eval vm_compute in snd (step Ps s_ex o_cr false).
Lemma step_s : step Ps s_ex o_cr false = (s_cr, out_s).
Proof. vm_compute. reflexivity. Qed.

Example s_shape :
  out_s = OutTruncate 5 67 /\ w_files (s_wr s_ex) = [0; 1; 2; 3; 4] /\ w_files (s_wr s_cr) = [4; 5] /\
  map snd (step_log Ps s_ex o_cr) = [ETruncate qa 6; EPosition qb 0; EPosition qa 7] /\
  abs_qs (s_qs s_cr) = [(qa, ([], 7)); (qb, ([], 0))] /\
  outs_s = [OutCreate 19; OutAppend (Some 1) 77; OutAppend (Some 2) 48; OutCreate 26;
            OutAppend (Some 5) 48; OutAppend (Some 6) 48].
Proof. vm_compute. repeat split; reflexivity. Qed.

Lemma op_wf_s : op_wf_strict (s_qs s_ex) o_cr.
Proof. unfold o_cr. wf_tac. Qed.
Lemma cpb_before : crash_phys_bound Ps (s_wr s_ex) (map snd (step_log Ps s_ex o_cr)) (abs_qs (s_qs s_ex)).
Proof.
  apply (crash_phys_bound_by Ps Ps_BS_lo Ps_BS_hi Ps_NB Ps_crc 64); [vm_compute; reflexivity|le_tac].
Qed.
Lemma cpb_after : crash_phys_bound Ps (s_wr s_ex) (map snd (step_log Ps s_ex o_cr)) (abs_qs (s_qs s_cr)).
Proof.
  apply (crash_phys_bound_by Ps Ps_BS_lo Ps_BS_hi Ps_NB Ps_crc 64); [vm_compute; reflexivity|le_tac].
Qed.

Lemma always_premises_satisfiable :
  7 < BS Ps /\ BS Ps <= 65542 /\ 1 <= NB Ps /\ (forall t p, crcf Ps t p < 2 ^ 32) /\
  L_GC Ps = false /\ L_IO Ps = false /\ L_SHORT Ps = false /\ no_zero_collision Ps /\
  open Ps [] None (PAlways true) [] = OpenOk s0 /\
  hrun Ps s0 h_ex = Some (s_ex, outs_s) /\ hist_ok Ps s0 h_ex /\ always_hist true h_ex /\
  op_wf_strict (s_qs s_ex) o_cr /\
  crash_phys_bound Ps (s_wr s_ex) (map snd (step_log Ps s_ex o_cr)) (abs_qs (s_qs s_ex)) /\
  crash_phys_bound Ps (s_wr s_ex) (map snd (step_log Ps s_ex o_cr)) (abs_qs (s_qs s_cr)) /\
  step Ps s_ex o_cr false = (s_cr, out_s) /\
  (* C12_batch_crash_always: the batch is call 1 of h_ex *)
  hcalls h_ex = [OCreate qa] ++ OAppend qa None [pay "x"; pay "y"] :: skipn 2 (hcalls h_ex) /\
  nth_error outs_s (length [OCreate qa]) = Some (OutAppend (Some 1) 77) /\
  log_never_deleted qa (RestartCorollaries.hcalls_t h_ex) outs_s.
Proof.
  split; [exact Ps_BS_lo|]. split; [exact Ps_BS_hi|]. split; [exact Ps_NB|]. split; [exact Ps_crc|].
  split; [reflexivity|]. split; [reflexivity|]. split; [reflexivity|]. split; [exact Ps_nzc|].
  split; [exact open_s0|]. split; [exact hrun_s|]. split; [exact hist_ok_s|].
  split; [exact always_ex|]. split; [exact op_wf_s|]. split; [exact cpb_before|].
  split; [exact cpb_after|]. split; [exact step_s|]. split; [reflexivity|].
  split; [reflexivity|]. vm_compute. reflexivity.
Qed.

Ltac always_prem Ho Hr Hok Ha Hwf Hb1 Hb2 Hs Hc Hn Hd :=
  destruct always_premises_satisfiable
    as (_ & _ & _ & _ & _ & _ & _ & _ & Ho & Hr & Hok & Ha & Hwf & Hb1 & Hb2 & Hs & Hc & Hn & Hd).
Local Notation TH f := (f Ps Ps_BS_lo Ps_BS_hi Ps_NB Ps_crc eq_refl eq_refl eq_refl Ps_nzc) (only parsing).

Lemma C04_crash_next_always_inst :
  exists evs,
    c_ev (w_ctx (s_wr s_cr)) = rev evs ++ c_ev (w_ctx (s_wr s_ex)) /\
    forall cut k pol hint, exists st_r,
      open Ps (fold_left Driver.apply_event (Driver.crash_events evs cut k) (c_fs (w_ctx (s_wr s_ex))))
        None pol hint = OpenOk st_r /\
      ((forall q, log_next st_r q = log_next s_ex q /\ log_last_position st_r q = log_last_position s_ex q) \/
       (forall q, log_next st_r q = log_next s_cr q /\ log_last_position st_r q = log_last_position s_cr q)) /\
      (forall q, l_deleted q (o_cr, false) out_s = false -> log_next s_ex q <= log_next st_r q).
Proof.
  always_prem Ho Hr Hok Ha Hwf Hb1 Hb2 Hs Hc Hn Hd.
  exact (TH PropC04.C04_crash_next_always true s0 h_ex s_ex outs_s o_cr false s_cr out_s
           Ho Hr Hok Ha Hwf Hb1 Hb2 Hs).
Qed.

Lemma C18_crash_projection_always_inst :
  exists evs,
    c_ev (w_ctx (s_wr s_cr)) = rev evs ++ c_ev (w_ctx (s_wr s_ex)) /\
    forall cut k pol hint, exists st_r calls_r,
      open Ps (fold_left Driver.apply_event (Driver.crash_events evs cut k) (c_fs (w_ctx (s_wr s_ex))))
        None pol hint = OpenOk st_r /\
      (calls_r = map sop_of (hcalls h_ex) \/ calls_r = map sop_of (hcalls h_ex) ++ [sop_of o_cr]) /\
      forall q, s_get (abs_qs (s_qs st_r)) q = s_get (fst (s_run [] (filter (addressed q) calls_r))) q.
Proof.
  always_prem Ho Hr Hok Ha Hwf Hb1 Hb2 Hs Hc Hn Hd.
  destruct (TH PropC18.C18_crash_projection_always true s0 h_ex s_ex outs_s o_cr false s_cr out_s
              Ho Hr Hok Ha Hwf Hb1 Hb2 Hs) as (evs & He & Hall).
  exists evs. split; [exact He|]. intros cut k pol hint.
  destruct (Hall cut k pol hint) as (st_r & calls_r & H1 & H2 & H3).
  exists st_r, calls_r. split; [exact H1|]. split; [exact H2|]. intros q. exact (proj1 (H3 q)).
Qed.

Lemma C12_batch_crash_always_inst :
  exists evs,
    c_ev (w_ctx (s_wr s_cr)) = rev evs ++ c_ev (w_ctx (s_wr s_ex)) /\
    forall cut k pol hint, exists st_r,
      open Ps (fold_left apply_event (crash_events evs cut k) (c_fs (w_ctx (s_wr s_ex)))) None pol hint =
        OpenOk st_r /\
      exists recs next j,
        Spec.s_get (abs_qs (s_qs st_r)) qa = Some (recs, next) /\ 1 < next /\
        filter (in_span (1 + 1 - lenN [pay "x"; pay "y"]) (1 + 1)) recs =
          skipn j (Spec.s_number (1 + 1 - lenN [pay "x"; pay "y"]) [pay "x"; pay "y"]).
Proof.
  always_prem Ho Hr Hok Ha Hwf Hb1 Hb2 Hs Hc Hn Hd.
  destruct (TH PropC12.C12_batch_crash_always true s0 h_ex s_ex outs_s o_cr false s_cr out_s
              Ho Hr Hok Ha Hwf Hb1 Hb2 Hs [OCreate qa] qa None [pay "x"; pay "y"]
              (skipn 2 (hcalls h_ex)) 1 77 Hc Hn Hd) as (evs & He & Hall).
  exists evs. split; [exact He|]. intros cut k pol hint.
  destruct (Hall cut k pol hint) as (st_r & H1 & [[H2 _]|H2]).
  - vm_compute in H2. discriminate H2.
  - exists st_r. split; [exact H1|exact H2].
Qed.

(* the two theorems of PropC02 that the first audit had to leave at "other premises" *)
Lemma C02_history_inst :
  exists m_before souts m_after so evs,
    s_run [] (map sop_of (hcalls h_ex)) = (m_before, souts) /\
    s_step m_before (sop_of o_cr) = (m_after, so) /\
    c_ev (w_ctx (s_wr s_cr)) = rev evs ++ c_ev (w_ctx (s_wr s_ex)) /\
    forall cut k pol hint, exists st_r,
      open Ps (fold_left apply_event (crash_events evs cut k) (c_fs (w_ctx (s_wr s_ex)))) None pol hint =
        OpenOk st_r /\
      ((forall q, s_get (abs_qs (s_qs st_r)) q = s_get m_before q) \/
       (forall q, s_get (abs_qs (s_qs st_r)) q = s_get m_after q)).
Proof.
  always_prem Ho Hr Hok Ha Hwf Hb1 Hb2 Hs Hc Hn Hd.
  destruct (TH PropC02.C02_history true s0 h_ex s_ex outs_s o_cr false s_cr out_s
              Ho Hr Hok Ha Hwf Hb1 Hb2 Hs) as (mb & souts & ma & so & evs & H1 & H2 & _ & H4 & H5).
  exists mb, souts, ma, so, evs. auto.
Qed.

Lemma C02_crash_atomic_premises_satisfiable :
  exists G,
    Inv Ps s_ex G /\ w_pending (s_wr s_ex) = [] /\ s_pol s_ex = PAlways true /\
    op_wf_strict (s_qs s_ex) o_cr /\
    RestartWrite.stream_bound Ps G (map snd (step_log Ps s_ex o_cr)) /\
    crash_bound Ps G (map snd (step_log Ps s_ex o_cr)) (abs_qs (s_qs s_ex)) /\
    crash_bound Ps G (map snd (step_log Ps s_ex o_cr)) (abs_qs (s_qs s_cr)) /\
    step Ps s_ex o_cr false = (s_cr, out_s) /\ (forall e, out_s <> OutIo e) /\ no_zero_collision Ps.
Proof.
  pose proof (inv_fresh Ps Ps_BS_lo Ps_BS_hi Ps_NB (PAlways true) s0 open_s0) as HI0.
  destruct (hrun_inv Ps Ps_BS_lo Ps_BS_hi Ps_NB Ps_crc eq_refl eq_refl h_ex s0 gh_fresh
              HI0 hist_ok_s) as (st' & outs & G & Er & HI & Eb & _).
  rewrite hrun_s in Er. injection Er as <- <-. exists G.
  pose proof (crash_phys_bound_ghost Ps Ps_BS_lo Ps_BS_hi Ps_NB Ps_crc _ G _ _ (proj1 HI) cpb_before) as Hb1.
  pose proof (crash_phys_bound_ghost Ps Ps_BS_lo Ps_BS_hi Ps_NB Ps_crc _ G _ _ (proj1 HI) cpb_after) as Hb2.
  split; [exact HI|]. split; [reflexivity|]. split; [reflexivity|]. split; [exact op_wf_s|].
  split; [exact (crash_bound_stream_bound Ps Ps_BS_lo Ps_BS_hi Ps_NB Ps_crc _ _ _ Hb1)|].
  split; [exact Hb1|]. split; [exact Hb2|]. split; [exact step_s|].
  split; [intros e H; discriminate H|exact Ps_nzc].
Qed.

Lemma C02_crash_atomic_inst :
  exists evs,
    c_ev (w_ctx (s_wr s_cr)) = rev evs ++ c_ev (w_ctx (s_wr s_ex)) /\
    forall cut k pol hint, exists st_r,
      open Ps (fold_left apply_event (crash_events evs cut k) (c_fs (w_ctx (s_wr s_ex)))) None pol hint =
        OpenOk st_r /\
      ((forall q, s_get (abs_qs (s_qs st_r)) q = s_get (abs_qs (s_qs s_ex)) q) \/
       (forall q, s_get (abs_qs (s_qs st_r)) q = s_get (abs_qs (s_qs s_cr)) q)).
Proof.
  destruct C02_crash_atomic_premises_satisfiable
    as (G & HI & Hp & Hpol & Hwf & Hsb & Hb1 & Hb2 & Hs & Hno & _).
  exact (TH PropC02.C02_crash_atomic s_ex G true o_cr false s_cr out_s HI Hp Hpol Hwf Hsb Hb1 Hb2 Hs Hno).
Qed.
End SatAlways.

(* the extra premises of C12_batch_crash_always with the real CRC (the common ones are
   VacCrash.C02_history_other_premises_satisfiable) *)
Lemma C12_batch_crash_always_other_premises_satisfiable :
  (open CrashExample.Pe [] None (PAlways true) [] = OpenOk CrashExample.st0 /\
   hrun CrashExample.Pe CrashExample.st0 CrashExample.h_ex = Some (CrashExample.st_ex, outs_ex) /\
   hist_ok CrashExample.Pe CrashExample.st0 CrashExample.h_ex /\ always_hist true CrashExample.h_ex /\
   op_wf_strict (s_qs CrashExample.st_ex) o_cr /\
   crash_phys_bound CrashExample.Pe (s_wr CrashExample.st_ex)
     (map snd (step_log CrashExample.Pe CrashExample.st_ex o_cr)) (abs_qs (s_qs CrashExample.st_ex)) /\
   crash_phys_bound CrashExample.Pe (s_wr CrashExample.st_ex)
     (map snd (step_log CrashExample.Pe CrashExample.st_ex o_cr)) (abs_qs (s_qs st_cr)) /\
   step CrashExample.Pe CrashExample.st_ex o_cr false = (st_cr, out_cr)) /\
  hcalls CrashExample.h_ex =
    [OCreate CrashExample.qa] ++
    OAppend CrashExample.qa None [CrashExample.pay "x"; CrashExample.pay "y"] ::
    skipn 2 (hcalls CrashExample.h_ex) /\
  nth_error outs_ex (length [OCreate CrashExample.qa]) = Some (OutAppend (Some 1) 77) /\
  log_never_deleted CrashExample.qa (RestartCorollaries.hcalls_t CrashExample.h_ex) outs_ex.
Proof.
  split; [exact C02_history_other_premises_satisfiable|]. split; [reflexivity|].
  split; [reflexivity|]. vm_compute. reflexivity.
Qed.

(* ====================================================================== *)
(* 4. C12, damage: C12_batch_damage_self / C12_batch_damage_other          *)
(*    (no no_zero_collision; DamageAtomic.Example, real CRC-32)            *)
(* ====================================================================== *)
Module Damage.
Import DamageAtomic.Example.
Definition log_ex : glog := Eval vm_compute in calls_log Pc st0 calls_ex.

Lemma app_skipn {A} (a b l : list A) : a ++ b = l -> b = skipn (length a) l.
Proof. intros <-. rewrite skipn_app, Nat.sub_diag, skipn_all. reflexivity. Qed.

(* the ghost state of VacDamage.ghost_ex: which entries are in the kept files is not given, but the
   invariant forces the last two entries of the log (two batch appends) to be among them *)
Lemma ghost_two : exists G i j fA fB,
  Inv Pc st_ex G /\ gh_log G = log_ex /\ gh_dropped G = [] /\
  nth_error (gh_E G) i = Some (fA, EAppend qb 1 [(1, pay "w")]) /\
  nth_error (gh_E G) j = Some (fB, EAppend qa 3 [(3, pay "v"); (4, pay "t")]) /\ j <> i.
Proof.
  destruct ghost_ex as (G & HI & _ & Ed & El). exists G.
  replace (calls_log Pc st0 calls_ex) with log_ex in El by (vm_compute; reflexivity).
  pose proof (app_skipn _ _ _ El) as EE. fold (gh_log G) in EE.
  assert (Hlen : (length (gh_pre G) <= 9)%nat).
  { apply (f_equal (@length _)) in El. unfold gh_log in El. rewrite app_length in El.
    change (length log_ex) with 9%nat in El. lia. }
  destruct (inv_restart_equal Pc st_ex G HI (repeat 0 (length (gh_E G))) (repeat_length _ _))
    as (qs' & Hr & _ & _ & Heq).
  pose proof (Heq qa) as Ha. pose proof (Heq qb) as Hb.
  replace (s_get (abs_qs (s_qs st_ex)) qa)
    with (Some ([(2, pay "u"); (3, pay "v"); (4, pay "t")], 5)) in Ha by (vm_compute; reflexivity).
  replace (s_get (abs_qs (s_qs st_ex)) qb)
    with (Some ([(0, pay "z"); (1, pay "w")], 2)) in Hb by (vm_compute; reflexivity).
  unfold gh_log in EE. remember (length (gh_pre G)) as n0 eqn:En in *. clear En.
  destruct n0 as [|[|[|[|[|[|[|[|[|[|n]]]]]]]]]]; [| | | | | | | | | |lia];
    unfold log_ex in EE; cbn [skipn] in EE; rewrite EE in Hr |- *; clear EE.
  - exists 8%nat, 7%nat. eexists _, _. split; [exact HI|]. split; [exact El|]. split; [exact Ed|]. split; [reflexivity|]. split; [reflexivity|lia].
  - exists 7%nat, 6%nat. eexists _, _. split; [exact HI|]. split; [exact El|]. split; [exact Ed|]. split; [reflexivity|]. split; [reflexivity|lia].
  - exists 6%nat, 5%nat. eexists _, _. split; [exact HI|]. split; [exact El|]. split; [exact Ed|]. split; [reflexivity|]. split; [reflexivity|lia].
  - exists 5%nat, 4%nat. eexists _, _. split; [exact HI|]. split; [exact El|]. split; [exact Ed|]. split; [reflexivity|]. split; [reflexivity|lia].
  - exists 4%nat, 3%nat. eexists _, _. split; [exact HI|]. split; [exact El|]. split; [exact Ed|]. split; [reflexivity|]. split; [reflexivity|lia].
  - exists 3%nat, 2%nat. eexists _, _. split; [exact HI|]. split; [exact El|]. split; [exact Ed|]. split; [reflexivity|]. split; [reflexivity|lia].
  - exists 2%nat, 1%nat. eexists _, _. split; [exact HI|]. split; [exact El|]. split; [exact Ed|]. split; [reflexivity|]. split; [reflexivity|lia].
  - exists 1%nat, 0%nat. eexists _, _. split; [exact HI|]. split; [exact El|]. split; [exact Ed|]. split; [reflexivity|]. split; [reflexivity|lia].
  - exfalso. vm_compute in Hr. injection Hr as <-. vm_compute in Ha. discriminate Ha.
  - exfalso. vm_compute in Hr. injection Hr as <-. vm_compute in Ha. discriminate Ha.
Qed.

Lemma dmg_bound_ex G : gh_log G = log_ex -> dmg_bound Pc st_ex G.
Proof.
  intros El. apply (dmg_bound_by Pc Pc_BS_lo Pc_BS_hi Pc_NB Pc_crc 64 st_ex G [qa; qb]).
  - intros q Hq. apply gh_E_names in Hq. rewrite El in Hq.
    vm_compute in Hq. vm_compute. intuition.
  - vm_compute. reflexivity.
  - vm_compute. intros H; discriminate H.
Qed.

(* all premises of both theorems: the damaged entry is the batch EAppend qb 1 [(1, w)] (entry 8 of
   the log); the other batch is EAppend qa 3 [(3, v); (4, t)] *)
Lemma C12_batch_damage_premises_satisfiable :
  exists G i ex0 ed k fs_d j fB,
    Inv Pc st_ex G /\
    damaged_dir Pc st_ex G i (EAppend qb 1 [(1, pay "w")]) ex0 ed k fs_d /\
    dmg_bound Pc st_ex G /\
    nth_error (gh_E G) j = Some (fB, EAppend qa 3 [(3, pay "v"); (4, pay "t")]) /\ j <> i /\
    gh_ALL G = map snd log_ex /\ (gh_k G + i)%nat = 8%nat /\ (gh_k G + j)%nat = 7%nat.
Proof.
  destruct ghost_two as (G & i & j & fA & fB & HI & El & Ed & Hi & Hj & Hne).
  destruct (PropC09.C09_damaged_dir_exists Pc Pc_BS_lo Pc_BS_hi Pc_NB Pc_crc st_ex G i _ fA HI Hi)
    as (ex0 & ed & k & fs_d & Hd).
  assert (EA : gh_ALL G = map snd log_ex) by (unfold gh_ALL; rewrite Ed, El; reflexivity).
  exists G, i, ex0, ed, k, fs_d, j, fB. split; [exact HI|]. split; [exact Hd|].
  split; [exact (dmg_bound_ex G El)|]. split; [exact Hj|]. split; [exact Hne|]. split; [exact EA|].
  split.
  - pose proof (dmg_nth Pc Pc_BS_lo Pc_BS_hi Pc_NB G i _ fA Hi) as Hn. rewrite EA in Hn.
    remember (gh_k G + i)%nat as n eqn:En. clear En.
    do 8 (destruct n as [|n]; [vm_compute in Hn; discriminate Hn|]).
    destruct n as [|n]; [reflexivity|]. vm_compute in Hn. destruct n; discriminate Hn.
  - pose proof (dmg_nth Pc Pc_BS_lo Pc_BS_hi Pc_NB G j _ fB Hj) as Hn. rewrite EA in Hn.
    remember (gh_k G + j)%nat as n eqn:En. clear En.
    do 7 (destruct n as [|n]; [vm_compute in Hn; discriminate Hn|]).
    destruct n as [|n]; [reflexivity|]. vm_compute in Hn.
    destruct n as [|n]; [discriminate Hn|]. destruct n; discriminate Hn.
Qed.

Lemma C12_batch_damage_self_inst :
  exists fs_d, forall pol hint, exists st_r,
    open Pc fs_d None pol hint = OpenOk st_r /\
    (* the damaged batch is lost as a whole *)
    (forall m, qs_get (s_qs st_r) qb = Some m -> ~ In (1, pay "w") (records_of (q_buf m) (q_metas m))) /\
    (* every recovered record was appended by another entry *)
    (forall q' m rec, qs_get (s_qs st_r) q' = Some m -> In rec (records_of (q_buf m) (q_metas m)) ->
       exists idx pos recs', idx <> 8%nat /\
         nth_error (map snd log_ex) idx = Some (EAppend q' pos recs') /\ In rec recs').
Proof.
  destruct C12_batch_damage_premises_satisfiable
    as (G & i & ex0 & ed & k & fs_d & j & fB & HI & Hd & Hb & Hj & Hne & EA & Ek & Ej).
  exists fs_d. intros pol hint.
  destruct (PropC12.C12_batch_damage_self Pc Pc_BS_lo Pc_BS_hi Pc_NB Pc_crc eq_refl eq_refl
              st_ex G i ex0 ed k fs_d qb 1 [(1, pay "w")] HI Hd Hb pol hint)
    as (st_r & F & Ho & _ & _ & H2 & H3).
  rewrite EA, Ek in H2, H3.
  exists st_r. split; [exact Ho|]. split; [|exact H2].
  intros m Hm. refine (H3 _ m (1, pay "w") Hm (or_introl eq_refl)).
  intros idx pos recs' Hidx Hn rec [<-|[]] Hin.
  do 9 (destruct idx as [|idx]; [vm_compute in Hn; try discriminate Hn;
                                 try (injection Hn as <- <-; vm_compute in Hin; intuition discriminate);
                                 try (now apply Hidx)|]).
  vm_compute in Hn. destruct idx; discriminate Hn.
Qed.

Lemma C12_batch_damage_other_inst :
  exists fs_d, forall pol hint, exists st_r m,
    open Pc fs_d None pol hint = OpenOk st_r /\
    (* the OTHER batch is recovered whole *)
    qs_get (s_qs st_r) qa = Some m /\
    In (3, pay "v") (records_of (q_buf m) (q_metas m)) /\
    In (4, pay "t") (records_of (q_buf m) (q_metas m)).
Proof.
  destruct C12_batch_damage_premises_satisfiable
    as (G & i & ex0 & ed & k & fs_d & j & fB & HI & Hd & Hb & Hj & Hne & EA & Ek & Ej).
  exists fs_d. intros pol hint.
  destruct (PropC12.C12_batch_damage_other Pc Pc_BS_lo Pc_BS_hi Pc_NB Pc_crc eq_refl eq_refl
              st_ex G i _ ex0 ed k fs_d j fB qa 3 [(3, pay "v"); (4, pay "t")] HI Hd Hb Hj Hne pol hint)
    as (st_r & F & Ho & HF & H).
  rewrite EA in HF. vm_compute in HF. injection HF as <-. rewrite Ej in H.
  specialize (H [(3%nat, (2, pay "u")); (7%nat, (3, pay "v")); (7%nat, (4, pay "t"))] 5 eq_refl).
  destruct (H (7%nat, (3, pay "v")) ltac:(right; left; reflexivity) eq_refl) as (_ & m & Hm & H3).
  destruct (H (7%nat, (4, pay "t")) ltac:(right; right; left; reflexivity) eq_refl) as (_ & m' & Hm' & H4).
  rewrite Hm in Hm'. injection Hm' as <-.
  exists st_r, m. split; [exact Ho|]. split; [exact Hm|]. split; [exact H3|exact H4].
Qed.
End Damage.

(* ====================================================================== *)
(* 5. the torn-write theorems at stream and file level WITH                *)
(*    no_zero_collision: P := P_sat 16 2 (the data of VacStream / VacFiles) *)
(* ====================================================================== *)
Module SatTorn.
Import TornFile.
Definition Pt : params := P_sat 16 2.
Lemma Pt_BS_lo : 7 < BS Pt. Proof. reflexivity. Qed.
Lemma Pt_BS_hi : BS Pt <= 65542. Proof. intros H; discriminate H. Qed.
Lemma Pt_NB : 1 <= NB Pt. Proof. intros H; discriminate H. Qed.
Lemma Pt_crc : forall t p, crcf Pt t p < 2 ^ 32. Proof. exact crc_sat_lt. Qed.
Lemma Pt_nzc : no_zero_collision Pt. Proof. apply nzc_P_sat. intros H; discriminate H. Qed.

(* ---------- stream level: C02_torn_read_nocoll = C12_torn_entry_all_or_nothing ---------- *)
Definition es1 := VacStream.es1.
Definition x_t := VacStream.x_t.
Definition t1 : bytes := Eval vm_compute in ResyncProofs.encs_of Pt 0 es1.
Definition ex : bytes := Eval vm_compute in enc_of Pt (lenN t1) x_t.
Definition S0 : bytes := Eval vm_compute in mem_stream Pt (t1 ++ takeN 30 ex).

Lemma torn_read_nocoll_premises_satisfiable :
  exists k, no_zero_collision Pt /\ encs_rel Pt 0 es1 t1 /\ enc_rel Pt (lenN t1) true x_t ex k /\
            30 < lenN ex /\ S0 = mem_stream Pt (t1 ++ takeN 30 ex) /\ (length es1 + 3 <= 5)%nat /\
            lenN S0 <= 7 * N.of_nat 20.
Proof.
  destruct (enc_of_rel Pt Pt_BS_lo Pt_BS_hi Pt_crc (lenN t1) x_t) as [k Hk].
  exists k. split; [exact Pt_nzc|]. split.
  { replace t1 with (ResyncProofs.encs_of Pt 0 es1) by (vm_compute; reflexivity).
    apply (encs_of_rel Pt Pt_BS_lo Pt_BS_hi Pt_crc). }
  split; [exact Hk|]. split; [reflexivity|]. split; [vm_compute; reflexivity|].
  split; [cbn; lia|]. vm_compute. intros H; discriminate H.
Qed.

Lemma C12_torn_entry_all_or_nothing_inst :
  exists tail, mem_read_all Pt 5 20 (rr_start Pt S0) = map MrEntry es1 ++ tail /\
    (tail = [MrEnd] \/ tail = [MrCorrupt; MrEnd] \/
     tail = [MrEntry x_t; MrEnd] /\ all_zero (dropN 30 ex) = true).
Proof.
  destruct torn_read_nocoll_premises_satisfiable as (k & H0 & H1 & H2 & H3 & H4 & H5 & H6).
  exact (PropC12.C12_torn_entry_all_or_nothing Pt Pt_BS_lo Pt_BS_hi Pt_crc es1 t1 x_t ex k 30 5 20 S0
           H0 H1 H2 H3 H4 H5 H6).
Qed.

Lemma C02_torn_read_nocoll_inst :
  exists tail, mem_read_all Pt 5 20 (rr_start Pt S0) = map MrEntry es1 ++ tail /\
    (tail = [MrEnd] \/ tail = [MrCorrupt; MrEnd] \/
     tail = [MrEntry x_t; MrEnd] /\ all_zero (dropN 30 ex) = true).
Proof.
  destruct torn_read_nocoll_premises_satisfiable as (k & H0 & H1 & H2 & H3 & H4 & H5 & H6).
  exact (PropC02.C02_torn_read_nocoll Pt Pt_BS_lo Pt_BS_hi Pt_crc es1 t1 x_t ex k 30 5 20 S0
           H0 H1 H2 H3 H4 H5 H6).
Qed.

(* ---------- file level: C02_open_torn = C12_open_torn ---------- *)
(* base 0, lo 1 (file 0 deleted); E_all = E1 ++ [X] written from 0 (106 bytes); the call in flight
   logs the three entries of E2 from c0 = 106, cut after j = 50 of their 112 bytes (inside the
   third frame of the first entry); the last file (4) is SHORT: 28 bytes instead of 32 *)
Definition E1 := VacFiles.E1.
Definition X := VacFiles.X.
Definition E2 := VacFiles.E2.
Definition T_t : bytes := Eval vm_compute in ResyncProofs.encs_of Pt 0 (map entry_ser (E1 ++ [X])).
Definition S_t : bytes :=
  Eval vm_compute in T_t ++ zerosN (106 - lenN T_t) ++
                     takeN 50 (ResyncProofs.encs_of Pt 106 (map entry_ser E2)) ++ zerosN 4.
Definition fs_t : fsT :=
  Eval vm_compute in
    [(filename 1, FFile (sliceN 32 64 S_t)); (filename 2, FFile (sliceN 64 96 S_t));
     (filename 3, FFile (sliceN 96 128 S_t)); (filename 4, FFile (sliceN 128 156 S_t))].

Lemma open_torn_premises_satisfiable :
  no_zero_collision Pt /\
  list_wal_numbers fs_t = GcProofs.iota 1 4 /\
  (forall f, In f (GcProofs.iota 1 4) ->
     exists b, fs_get fs_t (filename f) = Some (FFile b) /\
               lenN b <= FILE_BYTES Pt /\ (f <> 1 + N.of_nat 3 -> lenN b = FILE_BYTES Pt)) /\
  0 <= 1 /\ L_IO Pt = false /\ L_SHORT Pt = false /\
  Forall wf_entry (E1 ++ [X]) /\ Forall wf_entry E2 /\
  encs_rel Pt 0 (map entry_ser (E1 ++ [X])) T_t /\
  lenN T_t <= 106 /\ 106 <= ResyncProofs.first_frame_pos Pt (lenN T_t) /\ (1 - 0) * FILE_BYTES Pt <= 106 /\
  50 <= lenN (ResyncProofs.encs_of Pt 106 (map entry_ser E2)) /\
  FileStream.stream_of (fs_ext Pt fs_t 1 3) (GcProofs.iota 1 4) =
    dropN ((1 - 0) * FILE_BYTES Pt)
          (T_t ++ zerosN (106 - lenN T_t) ++ takeN 50 (ResyncProofs.encs_of Pt 106 (map entry_ser E2)) ++ zerosN 4) /\
  lenN (T_t ++ zerosN (106 - lenN T_t) ++ takeN 50 (ResyncProofs.encs_of Pt 106 (map entry_ser E2)) ++ zerosN 4) =
    (1 + N.of_nat 3 - 0 + 1) * FILE_BYTES Pt.
Proof.
  split; [exact Pt_nzc|].
  split; [vm_compute; reflexivity|]. split.
  { intros f Hf. cbn in Hf.
    destruct Hf as [<-|[<-|[<-|[<-|[]]]]]; eexists;
      (split; [vm_compute; reflexivity|]);
      (split; [vm_compute; intros H; discriminate H|]); intros Hne;
      first [vm_compute; reflexivity | exfalso; apply Hne; reflexivity]. }
  split; [lia|]. split; [reflexivity|]. split; [reflexivity|].
  split; [exact VacFiles.wf_E1X|]. split; [exact VacFiles.wf_E2|]. split.
  { replace T_t with (ResyncProofs.encs_of Pt 0 (map entry_ser (E1 ++ [X]))) by (vm_compute; reflexivity).
    apply (encs_of_rel Pt Pt_BS_lo Pt_BS_hi Pt_crc). }
  split; [vm_compute; intros H; discriminate H|]. split; [vm_compute; intros H; discriminate H|].
  split; [vm_compute; intros H; discriminate H|]. split; [vm_compute; intros H; discriminate H|].
  split; vm_compute; reflexivity.
Qed.

Lemma C12_open_torn_inst : forall pol hint,
  exists w0 tags E_suf Xd,
    (Xd = [] \/ Xd = [EAppend VacStream.qa 1 [(1, ["z"%byte])]]) /\
    match replay_entries [] (combine tags (E_suf ++ Xd)) with
    | Some qs => open Pt fs_t None pol hint = open_finish Pt w0 qs pol hint
    | None => exists c', open Pt fs_t None pol hint = OpenCorruption c'
    end.
Proof.
  intros pol hint.
  destruct open_torn_premises_satisfiable
    as (H0 & H1 & H2 & H3 & H4 & H5 & H6 & H7 & H8 & H9 & H10 & H11 & H12 & H13 & H14).
  destruct (PropC12.C12_open_torn Pt Pt_BS_lo Pt_BS_hi Pt_NB Pt_crc H0 fs_t 1 3%nat H1 H2 0 H3
              (E1 ++ [X]) E2 T_t 106 50 4 pol hint H4 H5 H6 H7 H8 H9 H10 H11 H12 H13 H14)
    as (w0 & tags & E_pre & E_suf & X1 & Xr & Xd & pf & _ & _ & _ & EX & HX1 & HXr & HXd & _ & _ & _ & _ & _ & _ & Hres).
  exists w0, tags, E_suf, Xd. split; [|exact Hres].
  (* X1 = [] : the first entry of E2 takes more than 50 bytes *)
  destruct X1 as [|x1 X1].
  - destruct HXd as [->|(x & X2 & EXr & -> & _)]; [now left|right].
    cbn [app] in EX. rewrite EXr in EX. unfold E2, VacFiles.E2 in EX. injection EX as <- _. reflexivity.
  - exfalso. unfold E2, VacFiles.E2 in EX. cbn [app] in EX. injection EX as <- EX.
    assert (Hmono : lenN (ResyncProofs.encs_of Pt 106 (map entry_ser [EAppend VacStream.qa 1 [(1, ["z"%byte])]]))
                    <= lenN (ResyncProofs.encs_of Pt 106 (map entry_ser (EAppend VacStream.qa 1 [(1, ["z"%byte])] :: X1)))).
    { change (EAppend VacStream.qa 1 [(1, ["z"%byte])] :: X1) with ([EAppend VacStream.qa 1 [(1, ["z"%byte])]] ++ X1).
      rewrite map_app, (ResyncProofs.encs_of_app Pt Pt_BS_lo Pt_BS_hi Pt_crc), lenN_app. lia. }
    assert (Hlen : lenN (ResyncProofs.encs_of Pt 106 (map entry_ser [EAppend VacStream.qa 1 [(1, ["z"%byte])]])) = 52)
      by (vm_compute; reflexivity).
    lia.
Qed.

Lemma C02_open_torn_inst : forall pol hint,
  exists w0 tags E_suf Xd,
    match replay_entries [] (combine tags (E_suf ++ Xd)) with
    | Some qs => open Pt fs_t None pol hint = open_finish Pt w0 qs pol hint
    | None => exists c', open Pt fs_t None pol hint = OpenCorruption c'
    end.
Proof.
  intros pol hint.
  destruct open_torn_premises_satisfiable
    as (H0 & H1 & H2 & H3 & H4 & H5 & H6 & H7 & H8 & H9 & H10 & H11 & H12 & H13 & H14).
  destruct (PropC02.C02_open_torn Pt Pt_BS_lo Pt_BS_hi Pt_NB Pt_crc H0 fs_t 1 3%nat H1 H2 0 H3
              (E1 ++ [X]) E2 T_t 106 50 4 pol hint H4 H5 H6 H7 H8 H9 H10 H11 H12 H13 H14)
    as (w0 & tags & E_pre & E_suf & X1 & Xr & Xd & pf & _ & _ & _ & _ & _ & _ & _ & _ & _ & _ & _ & _ & _ & Hres).
  exists w0, tags, E_suf, Xd. exact Hres.
Qed.
End SatTorn.

(* ====================================================================== *)
(* 6. PropC10: panic freedom                                               *)
(* ====================================================================== *)
Module Panic.
Import SatTorn.

(* fs_bounded by computation on the entries of the directory *)
Lemma fs_bounded_by P fs :
  forallb (fun kv => match snd kv with FFile b => lenN b <=? FILE_BYTES P | _ => true end) fs = true ->
  fs_bounded P fs.
Proof.
  intros H n. unfold OpenTerm.fcontent.
  induction fs as [|[name e] r IH]; cbn [fs_get].
  - rewrite (@lenN_nil byte). lia.
  - cbn [forallb fst snd] in H. apply andb_true_iff in H. destruct H as [H1 H2].
    destruct (bytes_eqb name (filename n)).
    + destruct e as [b| | ]; [apply N.leb_le in H1; exact H1|rewrite (@lenN_nil byte); lia|rewrite (@lenN_nil byte); lia].
    + apply IH. exact H2.
Qed.

(* open_small (the hypothesis of the debug profile) as a boolean *)
Definition entry_small_b (e : entry) : bool :=
  match e with
  | EAppend _ _ recs => forallb (fun r => fst r + 1 <? U64) recs
  | ETruncate _ p => p + 1 <? U64
  | _ => true
  end.

Lemma entry_small_b_ok e : entry_small_b e = true -> entry_small e.
Proof.
  destruct e as [q p recs|q p|q p|q p]; cbn [entry_small_b entry_small]; try (intros _; exact I).
  - intros H r Hr. rewrite forallb_forall in H. specialize (H r Hr). cbn beta in H.
    apply N.ltb_lt in H. exact H.
  - intros H. apply N.ltb_lt in H. exact H.
Qed.

Fixpoint replay_small_b (P : params) (fuel gofuel : nat) (rr : rreader_t) (qs : queues) : bool :=
  match fuel with
  | O => true
  | S fuel' =>
      let file := rd_file (fr_rd (rr_fr rr)) in
      match go_next P rreaderS (rd_next P) rd_block gofuel rr with
      | (rr', RRecord) =>
          match entry_deser (rr_buf rr') with
          | None => replay_small_b P fuel' gofuel rr' qs
          | Some e =>
              entry_small_b e &&
              match apply_entry qs file e with
              | Some qs' => replay_small_b P fuel' gofuel rr' qs'
              | None => true
              end
          end
      | (rr', REnd) => true
      | (rr', RCorrupt) => replay_small_b P fuel' gofuel rr' qs
      | (rr', RIo e) => if L_IO P then replay_small_b P fuel' gofuel rr' qs else true
      | (rr', RFuel) => true
      end
  end.

Lemma replay_small_b_ok P gofuel : forall fuel rr qs,
  replay_small_b P fuel gofuel rr qs = true -> replay_small P fuel gofuel rr qs.
Proof.
  induction fuel as [|fuel IH]; intros rr qs H; [exact I|].
  cbn [replay_small_b replay_small] in *.
  destruct (go_next P rreaderS (rd_next P) rd_block gofuel rr) as [rr' [ | | |e| ]]; try exact I.
  - destruct (entry_deser (rr_buf rr')) as [e|]; [|now apply IH].
    apply andb_true_iff in H. destruct H as [H1 H2]. split; [now apply entry_small_b_ok|].
    destruct (apply_entry qs _ e) as [qs'|]; [now apply IH|exact I].
  - now apply IH.
  - destruct (L_IO P); [now apply IH|exact I].
Qed.

Definition open_small_b (P : params) (fuel : nat) (fs : fsT) (plan : option fplan) (pol : policy)
           (hint : list bytes) : bool :=
  match rd_open P (ctx_init fs plan) with
  | (_, Err _) => true
  | (_, Ok rd) =>
      replay_small_b P fuel fuel (rr_open rreaderS rd) [] &&
      match replay_loop P fuel fuel (rr_open rreaderS rd) [] with
      | (rr, RpDone qs) =>
          let fr := rr_fr rr in
          let st := mkSt (rd_into_writer P (fr_rd fr) (fr_cursor fr)) qs pol in
          forallb (fun f => f + gc_budget P st hint <? U64) (rd_files (fr_rd fr))
      | _ => true
      end
  end.

Lemma open_small_b_ok P fuel fs plan pol hint :
  open_small_b P fuel fs plan pol hint = true -> open_small P fuel fs plan pol hint.
Proof.
  unfold open_small_b, open_small.
  destruct (rd_open P (ctx_init fs plan)) as [c [rd|e]]; [|intros _; exact I].
  intros H. apply andb_true_iff in H. destruct H as [H1 H2].
  split; [now apply replay_small_b_ok|].
  destruct (replay_loop P fuel fuel (rr_open rreaderS rd) []) as [rr [qs| |e|]]; try exact I.
  cbn zeta in *. intros f Hf. rewrite forallb_forall in H2. specialize (H2 f Hf). cbn beta in H2.
  apply N.ltb_lt in H2. exact H2.
Qed.

(* the directory: the crash image of SatCrash after 20 events and 3 bytes of the next write
   (BS = 32, NB = 2; files 0-5 of 64 bytes, the batch append to qb torn) *)
Definition fs_img : fsT :=
  Eval vm_compute in
    fold_left apply_event (crash_events SatCrash.evs_cr 20 3) (c_fs (w_ctx (s_wr SatCrash.stp))).
Definition st_img : state :=
  Eval vm_compute in
    match open SatCrash.Ps fs_img None (PAlways true) [] with OpenOk s => s | _ => st_dummy end.
Lemma open_img : open SatCrash.Ps fs_img None (PAlways true) [] = OpenOk st_img.
Proof. vm_compute. reflexivity. Qed.
Example img_shape :
  map (fun kv => match snd kv with FFile b => lenN b | _ => 0 end) fs_img = [64; 64; 64; 64; 64; 64] /\
  SatCrash.show st_img = ([0; 1; 2; 3; 4; 5], 32, 0, [(qa, [0; 1; 2; 3], 4); (qb, [], 0)]).
Proof. vm_compute. split; reflexivity. Qed.

Lemma fs_img_bounded : fs_bounded SatCrash.Ps fs_img.
Proof. apply fs_bounded_by. vm_compute. reflexivity. Qed.

Lemma C10_open_read_panic_free_inst : forall plan,
  open_read_guards SatCrash.Ps false (open_fuel SatCrash.Ps fs_img) fs_img plan.
Proof.
  intros plan. apply PropC10.C10_open_read_panic_free. intros H; discriminate H.
Qed.

Lemma C10_open_panic_free_inst : forall plan pol hint, open_guards SatCrash.Ps false fs_img plan pol hint.
Proof.
  intros plan pol hint.
  apply PropC10.C10_open_panic_free; [intros H; discriminate H|reflexivity|exact fs_img_bounded].
Qed.

Lemma C10_accessors_after_open_inst : forall q lo hi,
  log_range_guards st_img q lo hi /\ log_last_record_guards st_img q /\
  log_last_position_guards false st_img q /\ log_summary_guards false st_img.
Proof. exact (PropC10.C10_accessors_after_open SatCrash.Ps fs_img None (PAlways true) [] st_img open_img). Qed.

Lemma C10_accessors_panic_free_inst : forall q lo hi,
  log_range_guards SatCrash.st_end q lo hi /\ log_last_record_guards SatCrash.st_end q /\
  log_last_position_guards false SatCrash.st_end q /\ log_summary_guards false SatCrash.st_end.
Proof.
  apply PropC10.C10_accessors_panic_free.
  destruct SatCrash.crash_setting_premises_satisfiable
    as (_ & _ & _ & _ & _ & _ & _ & _ & G0 & HI & Hp & Hwf & Hsb & Hcb & Hev).
  destruct (PersistSurvive.run_inv SatCrash.Ps SatCrash.Ps_BS_lo SatCrash.Ps_BS_hi SatCrash.Ps_NB
              SatCrash.Ps_crc eq_refl h_cr SatCrash.stp G0 HI Hwf Hsb) as (G' & HI' & _).
  rewrite SatCrash.run_cr in HI'. exact (Inv_qs_inv SatCrash.Ps _ _ HI').
Qed.

(* the debug profile: all premises, open_small by computation of its boolean form *)
Lemma C10_open_debug_panic_free_premises_satisfiable :
  7 <= BS SatCrash.Ps /\ 0 < NB SatCrash.Ps /\
  FILE_BYTES SatCrash.Ps + BS SatCrash.Ps + 65536 <= U64 /\ fs_bounded SatCrash.Ps fs_img /\
  open_small SatCrash.Ps (open_fuel SatCrash.Ps fs_img) fs_img None (PAlways true) [qb].
Proof.
  split; [intros H; discriminate H|]. split; [reflexivity|].
  split; [vm_compute; intros H; discriminate H|]. split; [exact fs_img_bounded|].
  apply open_small_b_ok. vm_compute. reflexivity.
Qed.

Lemma C10_open_debug_panic_free_inst : open_guards SatCrash.Ps true fs_img None (PAlways true) [qb].
Proof.
  destruct C10_open_debug_panic_free_premises_satisfiable as (H1 & H2 & H3 & H4 & H5).
  exact (PropC10.C10_open_debug_panic_free SatCrash.Ps fs_img None (PAlways true) [qb] H1 H2 H3 H4 H5).
Qed.
End Panic.

(* ====================================================================== *)
(* 7. PropC12 (specification level), PropC02 (the two meta-theorems),      *)
(*    PropC02x                                                             *)
(* ====================================================================== *)
Module Misc.
Import CrashCorollaries.ExampleBatch.

(* C12_batch_all_or_nothing_spec on CrashCorollaries.ExampleBatch: queue a holds positions 0,1; the
   batch of three gets 2,3,4; then truncate(a, ..=2) and one more append *)
Lemma C12_batch_all_or_nothing_spec_premises_satisfiable :
  QueueIso.s_inv [] /\
  snd (Spec.s_step (fst (s_run [] h1)) (Spec.SAppend qa None pl)) = Spec.SAppended (Some 4).
Proof. split; [exact s_inv_nil|]. vm_compute. reflexivity. Qed.

(* after the whole history (k = 5) what is left of the batch is its suffix from position 3 on *)
Lemma C12_batch_all_or_nothing_spec_inst :
  exists recs next j,
    Spec.s_get (fst (s_run [] (h1 ++ Spec.SAppend qa None pl :: h2))) qa = Some (recs, next) /\
    4 < next /\ filter (in_span 2 5) recs = skipn j (Spec.s_number 2 pl) /\
    map fst (filter (in_span 2 5) recs) = [3; 4].
Proof.
  destruct C12_batch_all_or_nothing_spec_premises_satisfiable as [H1 H2].
  destruct (PropC12.C12_batch_all_or_nothing_spec [] h1 qa None pl h2 4 H1 H2 5%nat)
    as [[Hk _]|[_ H]]; [vm_compute; repeat constructor|vm_compute in Hk; lia|].
  cbn zeta in H. destruct H as [Hm H].
  destruct H as (recs & next & j & Hg & Hn & Hf); [vm_compute; reflexivity|].
  exists recs, next, j.
  replace (firstn 5 (h1 ++ Spec.SAppend qa None pl :: h2)) with (h1 ++ Spec.SAppend qa None pl :: h2)
    in Hg by reflexivity.
  split; [exact Hg|]. split; [exact Hn|]. split; [exact Hf|].
  vm_compute in Hg. injection Hg as <- <-. vm_compute. reflexivity.
Qed.

(* ---------- C02_hypotheses_satisfiable: its two premises at the production sizes ---------- *)
Lemma C02_hypotheses_satisfiable_inst :
  exists P, BS P = 32768 /\ NB P = 4096 /\ (forall t p, crcf P t p < 2 ^ 32) /\ no_zero_collision P /\
            L_GC P = false /\ L_IO P = false /\ L_SHORT P = false.
Proof.
  destruct (PropC02.C02_hypotheses_satisfiable 32768 4096 ltac:(reflexivity) ltac:(intros H; discriminate H))
    as (P & H1 & H2 & _ & _ & H5 & H6 & H7 & H8 & H9).
  exists P. auto 10.
Qed.

(* ---------- C02_unbounded_hypothesis_inconsistent ----------
   Its conclusion is False: its two premises are JOINTLY UNSATISFIABLE by design (that is what the
   theorem says).  It is not vacuous in the harmful sense, because each premise alone is
   satisfiable: the 32-bit bound by any real checksum (VacCrash.Pe_crc), the unbounded
   no-collision formula by an injective "checksum" (below) *)
Fixpoint inj (p : bytes) : N :=
  match p with [] => 1 | b :: r => N.of_nat (Byte.to_nat b) + 256 * inj r end.

Lemma inj_pos p : 1 <= inj p.
Proof. induction p as [|b r IH]; cbn [inj]; lia. Qed.

Lemma inj_inj : forall p q, inj p = inj q -> p = q.
Proof.
  induction p as [|b r IH]; intros [|b' r'] H; cbn [inj] in H.
  - reflexivity.
  - pose proof (inj_pos r'). lia.
  - pose proof (inj_pos r). lia.
  - pose proof (Byte.to_nat_bounded b). pose proof (Byte.to_nat_bounded b').
    assert (E1 : Byte.to_nat b = Byte.to_nat b') by lia.
    assert (E2 : inj r = inj r') by lia.
    f_equal; [|now apply IH].
    pose proof (Byte.of_to_nat b) as B1. pose proof (Byte.of_to_nat b') as B2.
    rewrite E1 in B1. rewrite B1 in B2. now injection B2.
Qed.

Lemma C02_unbounded_each_premise_satisfiable :
  (exists P, forall t p, crcf P t p < 2 ^ 32) /\
  (exists P, forall (ty : byte) (fp : list byte) (n : N), n < lenN fp ->
     crcf P ty (takeN n fp ++ zerosN (lenN fp - n)) = crcf P ty fp ->
     takeN n fp ++ zerosN (lenN fp - n) = fp).
Proof.
  split; [exists CrashExample.Pe; exact Pe_crc|].
  exists (mkParams 32 2 (fun _ p => inj p) 24 false false false).
  intros ty fp n _ E. cbn [crcf] in E. now apply inj_inj.
Qed.

(* ---------- PropC02x ---------- *)
Lemma C02_refuted_crc32_collision_inst : crc_collision CrashExample.Pe /\ crc_collision P_prod.
Proof.
  split; apply PropC02x.C02_refuted_crc32_collision; try reflexivity; intros H; discriminate H.
Qed.

Lemma C02_refuted_premise_false_inst : ~ no_zero_collision CrashExample.Pe /\ ~ no_zero_collision P_prod.
Proof.
  split; apply PropC02x.C02_refuted_premise_false; try reflexivity; intros H; discriminate H.
Qed.
End Misc.

(* ====================================================================== *)
(* Print Assumptions (all `Closed under the global context`)               *)
(* ====================================================================== *)
Print Assumptions SatCrash.crash_setting_premises_satisfiable.
Print Assumptions SatCrash.C03_process_crash_inst.
Print Assumptions SatCrash.C03_persisted_survives_inst.
Print Assumptions SatCrash.C03_power_loss_inst.
Print Assumptions SatCrash.C03_fsynced_survives_power_loss_inst.
Print Assumptions SatCrash.C03_power_loss_total_inst.
Print Assumptions SatCrash.C03_power_is_crash_inst.
Print Assumptions SatCrash.C03_trace_shape_inst.
Print Assumptions SatCrash.C03_image_shape_inst.
Print Assumptions SatCrash.C04_crash_next_positions_inst.
Print Assumptions SatCrash.C04_crash_next_after_persist_inst.
Print Assumptions SatCrash.C18_crash_projection_inst.
Print Assumptions SatCrash.C12_batch_crash_inst.
Print Assumptions SatCrash.C12_batch_crash_persisted_inst.
Print Assumptions SatCrash.census_cr.
Print Assumptions RealCrash.crash_setting_other_premises_satisfiable.
Print Assumptions RealCrash.C03_trace_shape_real_inst.
Print Assumptions RealCrash.C03_image_shape_real_inst.
Print Assumptions SatAlways.always_premises_satisfiable.
Print Assumptions SatAlways.C04_crash_next_always_inst.
Print Assumptions SatAlways.C18_crash_projection_always_inst.
Print Assumptions SatAlways.C12_batch_crash_always_inst.
Print Assumptions SatAlways.C02_history_inst.
Print Assumptions SatAlways.C02_crash_atomic_premises_satisfiable.
Print Assumptions SatAlways.C02_crash_atomic_inst.
Print Assumptions C12_batch_crash_always_other_premises_satisfiable.
Print Assumptions Damage.C12_batch_damage_premises_satisfiable.
Print Assumptions Damage.C12_batch_damage_self_inst.
Print Assumptions Damage.C12_batch_damage_other_inst.
Print Assumptions SatTorn.torn_read_nocoll_premises_satisfiable.
Print Assumptions SatTorn.C12_torn_entry_all_or_nothing_inst.
Print Assumptions SatTorn.C02_torn_read_nocoll_inst.
Print Assumptions SatTorn.open_torn_premises_satisfiable.
Print Assumptions SatTorn.C12_open_torn_inst.
Print Assumptions SatTorn.C02_open_torn_inst.
Print Assumptions Panic.C10_open_read_panic_free_inst.
Print Assumptions Panic.C10_open_panic_free_inst.
Print Assumptions Panic.C10_accessors_after_open_inst.
Print Assumptions Panic.C10_accessors_panic_free_inst.
Print Assumptions Panic.C10_open_debug_panic_free_premises_satisfiable.
Print Assumptions Panic.C10_open_debug_panic_free_inst.
Print Assumptions Misc.C12_batch_all_or_nothing_spec_premises_satisfiable.
Print Assumptions Misc.C12_batch_all_or_nothing_spec_inst.
Print Assumptions Misc.C02_hypotheses_satisfiable_inst.
Print Assumptions Misc.C02_unbounded_each_premise_satisfiable.
Print Assumptions Misc.C02_refuted_crc32_collision_inst.
Print Assumptions Misc.C02_refuted_premise_false_inst.

(* ======================================================================================
   COVERAGE TABLE (second pass)   theorem -> covering instance in this file
   Ps  = NzcVacuous.P_sat 32 2  (witness checksum: no_zero_collision HOLDS, NzcVacuous.nzc_P_sat)
   Pt  = NzcVacuous.P_sat 16 2
   Pe  = CrashAtomic.CrashExample.Pe (BS 32, NB 2, the REAL CRC-32: no_zero_collision is FALSE)
   "nzc" = the theorem assumes TornProofs.no_zero_collision: vacuous for the real CRC-32
           (VacCrc.crc32_refutes_nzc); covered twice: all premises with Ps/Pt, all other premises
           with the real CRC.
   --------------------------------------------------------------------------------------
   The crash setting (Inv, w_pending = [], hist_wf, stream_bound, CB, the events), data: from a
   fresh directory under PDelay true, h_pre (2 roll-overs) to a persist point, then h_cr (10
   calls, 75 events, 5 roll-overs, buffering, 2 GC passes with 6 unlinks, a persist point at
   i = 4, a last append that never leaves the buffer):
     ALL premises incl. nzc, Ps   SatCrash.crash_setting_premises_satisfiable
     all other premises, Pe       RealCrash.crash_setting_other_premises_satisfiable
                                  (with the extra premises of the theorems below)
     independent computation      SatCrash.census_cr: all 495 crash images open and recover the
                                  state after a prefix of h_cr (first matching prefix: 0-3 and 5-9 all occur)
   PropC03
    C03_process_crash (nzc)                SatCrash.C03_process_crash_inst
    C03_persisted_survives (nzc)           SatCrash.C03_persisted_survives_inst (i = 4, cut >= 29)
    C03_power_loss (nzc)                   SatCrash.C03_power_loss_inst
    C03_fsynced_survives_power_loss (nzc)  SatCrash.C03_fsynced_survives_power_loss_inst
                                           (wr_all_synced at i = 4 from C03_fsync_durable)
    C03_power_is_crash                     SatCrash.C03_power_is_crash_inst (disc 2 true evs_cr by
                                           computation; power_differs: the two images differ)
    C03_power_loss_total (nzc)             SatCrash.C03_power_loss_total_inst (seeds = [], cut >= 31)
    C03_trace_shape                        SatCrash.C03_trace_shape_inst, RealCrash.C03_trace_shape_real_inst
    C03_image_shape                        SatCrash.C03_image_shape_inst, RealCrash.C03_image_shape_real_inst
   PropC04
    C04_crash_next_positions (nzc)         SatCrash.C04_crash_next_positions_inst
    C04_crash_next_after_persist (nzc)     SatCrash.C04_crash_next_after_persist_inst
    C04_crash_next_always (nzc)            SatAlways.C04_crash_next_always_inst
                                           (other premises, Pe: VacCrash.C02_history_other_premises_satisfiable)
   PropC18
    C18_crash_projection (nzc)             SatCrash.C18_crash_projection_inst
    C18_crash_projection_always (nzc)      SatAlways.C18_crash_projection_always_inst (other premises: idem)
   PropC12
    C12_batch_all_or_nothing_spec          Misc.C12_batch_all_or_nothing_spec_premises_satisfiable, _inst
                                           (CrashCorollaries.ExampleBatch)
    C12_batch_crash (nzc)                  SatCrash.C12_batch_crash_inst (batch = call 1 of h_cr)
    C12_batch_crash_persisted (nzc)        SatCrash.C12_batch_crash_persisted_inst (cut >= 24)
    C12_batch_crash_always (nzc)           SatAlways.C12_batch_crash_always_inst; other premises, Pe:
                                           C12_batch_crash_always_other_premises_satisfiable
    C12_batch_damage_self                  Damage.C12_batch_damage_premises_satisfiable, _self_inst
    C12_batch_damage_other                 Damage.C12_batch_damage_premises_satisfiable, _other_inst
                                           (DamageAtomic.Example, real CRC; the damaged entry and the
                                           other batch are the last two entries of the ghost log)
    C12_open_torn (nzc)                    SatTorn.open_torn_premises_satisfiable, C12_open_torn_inst
                                           (other premises, real CRC: VacFiles.open_torn_other_premises_satisfiable)
    C12_open_damaged                       VacFiles.C12_open_damaged_inst (first audit; no nzc)
    (also, left vacuous by the first audit: C12_torn_entry_all_or_nothing, C02_torn_read_nocoll,
     C02_open_torn, C02_history, C02_crash_atomic: the _inst lemmas of SatTorn, SatAlways.C02_history_inst,
     SatAlways.C02_crash_atomic_premises_satisfiable, C02_crash_atomic_inst)
   PropC10
    C10_open_read_panic_free               Panic.C10_open_read_panic_free_inst (any fault plan; also
                                           PanicFree.overlong_read_ok)
    C10_open_panic_free                    Panic.C10_open_panic_free_inst (fs_bounded by computation;
                                           also PanicFree.f6_release_ok)
    C10_open_panic_free_needs_bounded_files  - (closed negative statement: the PanicFree.overlong examples)
    C10_accessors_after_open               Panic.C10_accessors_after_open_inst
    C10_accessors_panic_free               Panic.C10_accessors_panic_free_inst (qs_inv from Inv)
    C10_open_debug_panic_free              Panic.C10_open_debug_panic_free_premises_satisfiable, _inst
                                           (open_small through its boolean form open_small_b)
    C10_f6_shape                           - (closed statement)
   PropC02
    C02_hypotheses_satisfiable             Misc.C02_hypotheses_satisfiable_inst (32768 x 4096)
    C02_unbounded_hypothesis_inconsistent  premises JOINTLY UNSATISFIABLE BY DESIGN (the conclusion is
                                           False); each one alone is satisfiable:
                                           Misc.C02_unbounded_each_premise_satisfiable
   PropC02x
    C02_refuted_crc32_collision            Misc.C02_refuted_crc32_collision_inst (Pe and P_prod)
    C02_refuted_premise_false              Misc.C02_refuted_premise_false_inst (Pe and P_prod)
    C02_refuted_production, C02_refuted_counterexample, C02_refuted   - (closed statements)
   --------------------------------------------------------------------------------------
   FINDINGS
   1. No new unsatisfiable or only-trivially-satisfiable premise set.  In particular Inv, hist_wf,
      stream_bound, CB, crash_phys_bound, hist_ok, always_hist ARE jointly satisfiable with
      no_zero_collision on non-trivial data (SatCrash, SatAlways, SatTorn).
   2. (known, unchanged) every "nzc" theorem is vacuous for the production checksum: for
      crcf P = Crc.crc32 and BS P >= 15 the premise no_zero_collision P is false, and the
      end-to-end conclusion itself fails (PropC02x).  The only checksums for which these
      theorems say anything are artificial ones such as NzcVacuous.crc_sat.
   3. C02_unbounded_hypothesis_inconsistent has contradictory premises on purpose.
   ====================================================================================== *)
