(* JRecoverS4.v — TASK T14 follow-up (2): JRecoverS3.crash_stream_preK2 where the junk left by a torn
   entry may be entered at interior block boundaries (KJunk.pre_cont_junk2): the admissible set of
   block boundaries does not change, and every block boundary at or below the end of the cut is
   at or below the first-frame position of the end of the new prefix.  (copy of JRecoverS3.v, itself a copy of JRecoverS2.v: the stream of a crash image of a call issued from a state
   whose ghost stream already has a prefix PRE0 (junk-tolerant invariant): generalisation of
   JRecoverS.crash_stream_pre from the empty prefix to any prefix with pre_cont. *)
From Coq Require Import Lia ZArith ZifyN ZifyNat ZifyBool List Sorted.
From MRL Require Import Bytes BytesProofs Params Frame Driver StreamProofs DamageProofs TornProofs
  ResyncProofs OpenTerm OpenReplay TornFile JunkStream JRecoverS JRecoverS2 KTail KWalk KJunk.

Arguments N.add : simpl never.
Arguments N.sub : simpl never.
Arguments N.mul : simpl never.
Arguments N.eqb : simpl never.
Arguments N.ltb : simpl never.
Arguments N.leb : simpl never.
Arguments N.div : simpl never.
Arguments N.modulo : simpl never.
Arguments N.min : simpl never.
Arguments N.max : simpl never.

Section RecoverS4.
Variable P : params.
Hypothesis HBS_lo : 7 < BS P.
Hypothesis HBS_hi : BS P <= 65542.
Hypothesis Hcrc : forall t p, crcf P t p < 2 ^ 32.
Hypothesis Hnc : no_zero_collision P.

Local Notation B := (BS P).
Local Notation ffp := (first_frame_pos P).
Local Notation encof := (enc_of P).
Local Notation encsof := (encs_of P).
Local Notation starts := (starts P).
Local Notation H3 f := (f P HBS_lo HBS_hi Hcrc) (only parsing).
Local Notation H2 f := (f P HBS_lo HBS_hi) (only parsing).
Local Notation pre_cont := (pre_cont P).

Theorem crash_stream_preK2 PRE0 ops0 opos0 adm0 cmax0 rm0 (es_new : list bytes) c0 xs j z (S_all : bytes) :
  pre_cont PRE0 ops0 opos0 adm0 cmax0 rm0 -> rm0 <= 7 ->
  let a0 := lenN PRE0 in
  let T := PRE0 ++ encsof a0 es_new in
  lenN T <= c0 -> c0 <= ffp (lenN T) -> j <= lenN (encsof c0 xs) ->
  S_all = T ++ zerosN (c0 - lenN T) ++ takeN j (encsof c0 xs) ++ zerosN z ->
  stream_ok P S_all ->
  c0 + j + B <= lenN S_all ->
  exists xs_d xs_r PRE cmax rm zz,
    xs = xs_d ++ xs_r /\
    pre_cont PRE (ops0 ++ es_new ++ xs_d) (opos0 ++ starts a0 (es_new ++ xs_d)) adm0 cmax rm /\
    S_all = PRE ++ zerosN zz /\ lenN PRE + rm <= lenN S_all /\
    (cmax <= Datatypes.S cmax0)%nat /\ rm <= 7 /\
    (forall m, m * B <= c0 + j -> m * B <= ffp (lenN PRE)) /\
    lenN T <= lenN PRE /\ c0 <= ffp (lenN PRE) /\
    a0 + lenN (encsof a0 (es_new ++ xs_d)) <= lenN PRE /\
    lenN PRE <= a0 + lenN (encsof a0 (es_new ++ xs)) + B /\
    (xs_r <> [] -> j < lenN (encsof c0 xs)).
Proof.
  intros Hpc0 Hrm0 a0 T Hlo Hhi Hj HS Hok Hfit.
  set (t0 := encsof a0 es_new) in *.
  assert (HlT : lenN T = a0 + lenN t0) by (unfold T; rewrite lenN_app; reflexivity).
  rewrite HlT in *.
  assert (HSb : S_all = PRE0 ++ (t0 ++ zerosN (c0 - (a0 + lenN t0)) ++ takeN j (encsof c0 xs)) ++ zerosN z).
  { rewrite HS. unfold T. rewrite <- !app_assoc. reflexivity. }
  assert (Etot : xs <> [] -> a0 + lenN (encsof a0 (es_new ++ xs)) = c0 + lenN (encsof c0 xs)).
  { intros Hne. rewrite (H3 encs_of_app). fold t0.
    rewrite (encs_of_shift P HBS_lo HBS_hi Hcrc (a0 + lenN t0) c0 xs Hlo Hhi Hne).
    rewrite !lenN_app, lenN_zerosN. lia. }
  assert (Hclean : forall es, pre_cont (PRE0 ++ encsof a0 es) (ops0 ++ es) (opos0 ++ starts a0 es)
                                 adm0 cmax0 rm0).
  { intros es.
    exact (pre_cont_clean P HBS_lo HBS_hi Hcrc PRE0 ops0 opos0 adm0 cmax0 rm0 es (encsof a0 es) rm0
             Hpc0 (H3 encs_of_rel es a0) ltac:(lia)). }
  destruct (torn_normal_from P HBS_lo HBS_hi Hcrc a0 t0 c0 es_new xs j (H3 encs_of_rel es_new a0) Hlo Hhi Hj)
    as [(Hend & z0 & Hbody & Hne & Hnil')
       | (xs1 & x & xs2 & j' & Hxs & Hj' & Hbody & Hcj & Hle & Hlt & Hlen & HTt & Htc & Hct)].
  - (* nothing is torn *)
    set (t := encsof a0 (es_new ++ xs)) in *.
    assert (HS' : S_all = (PRE0 ++ t) ++ zerosN (z0 + z)).
    { rewrite HSb, Hbody, <- !app_assoc, (FileStream.zerosN_app z0 z). reflexivity. }
    assert (Hlt_le : lenN t0 <= lenN t /\ a0 + lenN t <= c0 + lenN (encsof c0 xs)).
    { destruct xs as [|x0 X0].
      - specialize (Hnil' eq_refl). unfold t. rewrite app_nil_r. fold t0.
        cbn [ResyncProofs.encs_of]. rewrite (@lenN_nil byte). lia.
      - destruct (Hne ltac:(discriminate)) as [_ Hl]. fold t in Hl.
        split; [|lia]. unfold t. rewrite (H3 encs_of_app), lenN_app. fold t0. lia. }
    exists xs, [], (PRE0 ++ t), cmax0, rm0, (z0 + z).
    split; [now rewrite app_nil_r|]. split; [apply Hclean|]. split; [exact HS'|].
    rewrite lenN_app. fold a0.
    pose proof (ffp_mono P HBS_lo HBS_hi (a0 + lenN t0) (a0 + lenN t) ltac:(lia)) as Hm0.
    pose proof (H2 ffp_ge (a0 + lenN t)) as Hge0.
    split; [lia|]. split; [lia|]. split; [lia|].
    split.
    { intros m Hm. destruct xs as [|x0 X0].
      - cbn [ResyncProofs.encs_of] in Hend. rewrite (@lenN_nil byte) in Hend. lia.
      - destruct (Hne ltac:(discriminate)) as [_ Hl]. fold t in Hl. lia. }
    split; [lia|].
    split; [pose proof (ffp_mono P HBS_lo HBS_hi (a0 + lenN t0) (a0 + lenN t) ltac:(lia)); lia|].
    split; [fold t; lia|]. split; [fold t; lia|]. intros H; now destruct H.
  - cbv zeta in *.
    set (t := encsof a0 (es_new ++ xs1)) in *.
    set (a := a0 + lenN t) in *.
    set (e := encof a x) in *.
    set (ex := encof (c0 + lenN (encsof c0 xs1)) x) in *.
    assert (HS' : S_all = (PRE0 ++ t) ++ takeN j' e ++ zerosN z).
    { rewrite HSb, Hbody, <- !app_assoc. reflexivity. }
    assert (HlP : lenN (PRE0 ++ t) = a) by (rewrite lenN_app; reflexivity).
    assert (HlS : lenN S_all = a + j' + z).
    { rewrite HS', !lenN_app, lenN_takeN, lenN_zerosN. fold a0. unfold a. lia. }
    assert (Hxslen : lenN (encsof c0 xs) =
              lenN (encsof c0 xs1) + lenN ex + lenN (encsof (c0 + lenN (encsof c0 xs1) + lenN ex) xs2)).
    { rewrite Hxs, (H3 encs_of_app), lenN_app. cbn [ResyncProofs.encs_of]. rewrite lenN_app.
      fold ex. lia. }
    assert (HzB : B <= z) by lia.
    assert (Hxne : xs <> []) by (rewrite Hxs; destruct xs1; discriminate).
    specialize (Etot Hxne).
    pose proof (ffp_mono P HBS_lo HBS_hi (a0 + lenN t0) a ltac:(unfold a; lia)) as Hmono.
    destruct (all_zero (dropN j' e)) eqn:Hz.
    + (* the missing bytes are zeros: the entry is completely there *)
      destruct (H3 enc_of_rel a x) as [k0 Hk0]. fold e in Hk0.
      pose proof (zero_tail_short P HBS_lo HBS_hi Hcrc a true x e k0 Hk0 j' ltac:(lia) Hz) as Htail.
      assert (He : takeN j' e ++ zerosN (lenN e - j') = e)
        by (apply (TornProofs.all_zero_drop_iff e j'); [lia|exact Hz]).
      assert (Ete : t ++ e = encsof a0 (es_new ++ xs1 ++ [x])).
      { rewrite app_assoc, (H3 encs_of_app). fold t. cbn [ResyncProofs.encs_of].
        rewrite app_nil_r. reflexivity. }
      assert (HS'' : S_all = (PRE0 ++ encsof a0 (es_new ++ xs1 ++ [x])) ++ zerosN (z - (lenN e - j'))).
      { rewrite HS'. rewrite (TornProofs.zerosN_split z (lenN e - j')) by lia.
        rewrite <- Ete, <- !app_assoc. do 2 f_equal. rewrite app_assoc, He. reflexivity. }
      exists (xs1 ++ [x]), xs2, (PRE0 ++ encsof a0 (es_new ++ xs1 ++ [x])), cmax0, rm0,
             (z - (lenN e - j')).
      split; [rewrite Hxs, <- app_assoc; reflexivity|].
      split; [apply Hclean|]. split; [exact HS''|].
      rewrite lenN_app, <- Ete, lenN_app. fold a0.
      replace (a0 + (lenN t + lenN e)) with (a + lenN e) by (unfold a; lia).
      split; [unfold a in *; lia|]. split; [lia|]. split; [lia|].
      split; [intros m Hm; pose proof (H2 ffp_ge (a + lenN e)); unfold a in *; lia|].
      split; [unfold a in *; lia|].
      split; [pose proof (ffp_mono P HBS_lo HBS_hi a (a + lenN e) ltac:(lia)); lia|].
      split; [lia|]. split; [unfold a in *; lia|].
      intros _. lia.
    + (* junk *)
      destruct (H3 enc_of_rel a x) as [k Hk]. fold e in Hk.
      destruct (junk_of_torn2 P HBS_lo HBS_hi Hcrc a x e k j' Hnc Hk Hj' Hz)
        as (r & W & Hjunk & Hspec & Hup & Hlow).
      destruct (ceil_blockS P HBS_lo HBS_hi (a + j')) as (mb & Hmb1 & Hmb2).
      assert (Hr1 : r <= mb * B) by (apply Hup; exact Hmb1).
      destruct Hok as [ms Hms].
      assert (Hmbs : mb * B + B <= lenN S_all).
      { rewrite Hms in *. assert (mb * B < ms * B) by (unfold a in *; lia).
        apply (H2 TornProofs.mulB_lt_inv) in H. nia. }
      assert (Hroom : r + 7 <= lenN S_all) by lia.
      assert (HS'' : S_all = ((PRE0 ++ t) ++ W) ++ zerosN (a + j' + z - r)).
      { rewrite HS', <- !app_assoc. do 2 f_equal. apply Hspec. lia. }
      pose proof Hjunk as ((Har & HlW & _) & _).
      assert (HlPRE : lenN ((PRE0 ++ t) ++ W) = r) by (rewrite lenN_app, HlP; lia).
      rewrite <- HlP in Hjunk.
      pose proof (pre_cont_junk2 P HBS_lo HBS_hi Hcrc (PRE0 ++ t) (ops0 ++ es_new ++ xs1)
                    (opos0 ++ starts a0 (es_new ++ xs1)) adm0 cmax0 rm0 r W
                    (Hclean (es_new ++ xs1)) Hjunk ltac:(rewrite HlP; lia)) as Hpc.
      exists xs1, (x :: xs2), ((PRE0 ++ t) ++ W), (Datatypes.S cmax0), 7,
             (a + j' + z - r).
      split; [exact Hxs|]. split; [exact Hpc|]. split; [exact HS''|].
      rewrite HlPRE.
      split; [lia|]. split; [lia|]. split; [lia|].
      split.
      { intros m Hm. pose proof (H2 ffp_ge r). assert (m * B <= r) by (apply Hlow; unfold a in *; lia). lia. }
      split; [unfold a in *; lia|].
      split; [pose proof (ffp_mono P HBS_lo HBS_hi a r Har); lia|].
      split; [fold t; fold a; lia|]. split; [unfold a in *; lia|].
      intros _. lia.
Qed.

End RecoverS4.

Print Assumptions crash_stream_preK2.
