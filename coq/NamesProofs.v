(* NamesProofs.v — property C17: exactly the names `wal-<20 decimal digits>` (value <= u64::MAX)
   are WAL files; printing and parsing are mutually inverse. *)
From Coq Require Import Lia ZArith ZifyN ZifyNat ZifyBool.
From MRL Require Import Bytes BytesProofs Names.
Ltac Zify.zify_post_hook ::= Z.div_mod_to_equations.

Arguments N.add : simpl never.
Arguments N.sub : simpl never.
Arguments N.mul : simpl never.
Arguments N.div : simpl never.
Arguments N.modulo : simpl never.
Arguments N.eqb : simpl never.
Arguments N.ltb : simpl never.
Arguments N.leb : simpl never.
Arguments N.pred : simpl never.
Arguments N.succ : simpl never.
Arguments N.pow : simpl never.

(* ---------- single digits ---------- *)
Lemma b2n_digit d : b2n (digit d) = 48 + d mod 10.
Proof. unfold digit. rewrite b2n_n2b. lia. Qed.

Lemma is_digit_digit d : is_digit (digit d) = true.
Proof. unfold is_digit. rewrite b2n_digit. lia. Qed.

Lemma is_digit_spec b : is_digit b = true <-> 48 <= b2n b <= 57.
Proof. unfold is_digit. lia. Qed.

Lemma digit_of_is_digit b m :
  is_digit b = true -> digit (m * 10 + (b2n b - 48)) = b.
Proof.
  intros Hb. apply is_digit_spec in Hb. unfold digit.
  replace (48 + (m * 10 + (b2n b - 48)) mod 10) with (b2n b) by lia.
  apply n2b_b2n.
Qed.

(* ---------- dec_digits: shape ---------- *)
Lemma length_dec_digits k n : length (dec_digits k n) = k.
Proof.
  revert n; induction k as [|k IH]; intros n; cbn [dec_digits]; [reflexivity|].
  rewrite app_length, IH. cbn [length]. lia.
Qed.

Lemma lenN_dec_digits k n : lenN (dec_digits k n) = N.of_nat k.
Proof. now rewrite lenN_length, length_dec_digits. Qed.

Lemma forallb_is_digit_dec_digits k n : forallb is_digit (dec_digits k n) = true.
Proof.
  revert n; induction k as [|k IH]; intros n; cbn [dec_digits]; [reflexivity|].
  rewrite forallb_app, IH. cbn [forallb]. now rewrite is_digit_digit.
Qed.

(* ---------- parse_dec ---------- *)
Lemma parse_dec_app a b acc : parse_dec (a ++ b) acc = parse_dec b (parse_dec a acc).
Proof.
  revert acc; induction a as [|x a IH]; intros acc; cbn [app parse_dec]; [reflexivity|].
  apply IH.
Qed.

Lemma pow10_succ k : 10 ^ N.of_nat (S k) = 10 * 10 ^ N.of_nat k.
Proof.
  replace (N.of_nat (S k)) with (N.succ (N.of_nat k)) by lia. apply N.pow_succ_r'.
Qed.

Lemma pow10_pos k : 0 < 10 ^ N.of_nat k.
Proof. pose proof (N.pow_nonzero 10 (N.of_nat k)). lia. Qed.

Lemma parse_dec_dec_digits k n acc :
  parse_dec (dec_digits k n) acc = acc * 10 ^ N.of_nat k + n mod 10 ^ N.of_nat k.
Proof.
  revert n acc; induction k as [|k IH]; intros n acc; cbn [dec_digits].
  - cbn [parse_dec]. change (10 ^ N.of_nat 0) with 1. rewrite N.mod_1_r. lia.
  - rewrite parse_dec_app, IH. cbn [parse_dec]. rewrite b2n_digit, pow10_succ.
    pose proof (pow10_pos k) as Hp.
    rewrite (N.mod_mul_r n 10 (10 ^ N.of_nat k)) by lia.
    set (p := 10 ^ N.of_nat k) in *.
    set (q := (n / 10) mod p).
    set (r := n mod 10).
    replace (48 + r - 48) with r by lia. lia.
Qed.

Lemma parse_dec_bound ds :
  forallb is_digit ds = true -> parse_dec ds 0 < 10 ^ N.of_nat (length ds).
Proof.
  induction ds as [|x l IH] using rev_ind; intros Hd.
  - cbn. lia.
  - rewrite forallb_app in Hd. apply andb_true_iff in Hd as [Hl Hx].
    cbn [forallb] in Hx. rewrite andb_true_r in Hx. apply is_digit_spec in Hx.
    specialize (IH Hl).
    rewrite parse_dec_app. cbn [parse_dec].
    rewrite app_length. cbn [length]. rewrite Nat.add_1_r, pow10_succ.
    set (p := 10 ^ N.of_nat (length l)) in *. lia.
Qed.

Lemma dec_digits_parse_dec ds :
  forallb is_digit ds = true -> dec_digits (length ds) (parse_dec ds 0) = ds.
Proof.
  induction ds as [|x l IH] using rev_ind; intros Hd.
  - reflexivity.
  - rewrite forallb_app in Hd. apply andb_true_iff in Hd as [Hl Hx].
    cbn [forallb] in Hx. rewrite andb_true_r in Hx.
    specialize (IH Hl).
    rewrite parse_dec_app. cbn [parse_dec].
    rewrite app_length. cbn [length]. rewrite Nat.add_1_r. cbn [dec_digits].
    rewrite (digit_of_is_digit x _ Hx). f_equal.
    apply is_digit_spec in Hx.
    replace ((parse_dec l 0 * 10 + (b2n x - 48)) / 10) with (parse_dec l 0) by lia.
    exact IH.
Qed.

(* ---------- file names ---------- *)
Lemma lenN_wal_prefix : lenN wal_prefix = 4.
Proof. reflexivity. Qed.

Lemma U64_MAX_lt_pow : U64_MAX < 10 ^ N.of_nat 20.
Proof. now vm_compute. Qed.

Lemma filename_length : forall n, lenN (filename n) = 24.
Proof.
  intros n. unfold filename. rewrite lenN_app, lenN_wal_prefix, lenN_dec_digits. lia.
Qed.

Theorem parse_print : forall n, n <= U64_MAX -> filename_to_position (filename n) = Some n.
Proof.
  intros n Hn. unfold filename_to_position.
  rewrite filename_length. rewrite N.eqb_refl. cbn [negb].
  unfold filename.
  cbv zeta.
  pose proof (takeN_app_exact wal_prefix (dec_digits 20 n)) as Ht.
  pose proof (dropN_app_exact wal_prefix (dec_digits 20 n)) as Hd.
  rewrite lenN_wal_prefix in Ht, Hd. rewrite Ht, !Hd, bytes_eqb_refl. cbn [negb].
  rewrite forallb_is_digit_dec_digits. cbn [negb].
  rewrite parse_dec_dec_digits.
  pose proof U64_MAX_lt_pow as Hu.
  rewrite N.mod_small by lia. rewrite N.mul_0_l, N.add_0_l.
  destruct (N.leb_spec n U64_MAX) as [_|Hc]; [reflexivity|lia].
Qed.

Theorem parse_exact : forall s n, filename_to_position s = Some n -> s = filename n /\ n <= U64_MAX.
Proof.
  intros s n H. unfold filename_to_position in H.
  destruct (N.eqb_spec (lenN s) 24) as [Hlen|Hlen]; cbn [negb] in H; [|discriminate].
  destruct (bytes_eqb (takeN 4 s) wal_prefix) eqn:Hpre; cbn [negb] in H; [|discriminate].
  destruct (forallb is_digit (dropN 4 s)) eqn:Hdig; cbn [negb] in H; [|discriminate].
  destruct (N.leb_spec (parse_dec (dropN 4 s) 0) U64_MAX) as [Hle|Hgt]; [|discriminate].
  injection H as Hv. subst n. split; [|exact Hle].
  apply bytes_eqb_eq in Hpre.
  unfold filename.
  assert (Hl : length (dropN 4 s) = 20%nat).
  { pose proof (lenN_dropN 4 s) as Hd. rewrite lenN_length in Hd. lia. }
  rewrite <- Hl, (dec_digits_parse_dec _ Hdig), <- Hpre.
  symmetry. apply takeN_dropN.
Qed.

Corollary filename_inj : forall a b, a <= U64_MAX -> b <= U64_MAX -> filename a = filename b -> a = b.
Proof.
  intros a b Ha Hb E.
  pose proof (parse_print a Ha) as Pa. pose proof (parse_print b Hb) as Pb.
  rewrite E in Pa. congruence.
Qed.

Corollary parse_none_not_filename :
  forall s, filename_to_position s = None -> forall n, n <= U64_MAX -> s <> filename n.
Proof.
  intros s Hs n Hn E. subst s. rewrite (parse_print n Hn) in Hs. discriminate.
Qed.

(* Summary form of C17: a name is accepted iff it is the printed form of a u64. *)
Corollary parse_some_iff :
  forall s n, filename_to_position s = Some n <-> (s = filename n /\ n <= U64_MAX).
Proof.
  intros s n. split; [apply parse_exact|]. intros [-> Hn]. now apply parse_print.
Qed.

(* ---------- examples ---------- *)
Local Open Scope byte_scope.

Example ex_filename_1 :
  filename 1 = ["w";"a";"l";"-";"0";"0";"0";"0";"0";"0";"0";"0";"0";"0";"0";"0";"0";"0";"0";"0";"0";"0";"0";"1"].
Proof. now vm_compute. Qed.

Example ex_roundtrip_max : filename_to_position (filename U64_MAX) = Some U64_MAX.
Proof. now vm_compute. Qed.

(* wal-18446744073709551616 : 20 digits, u64::MAX + 1 *)
Example ex_above_u64_rejected :
  filename_to_position (wal_prefix ++ dec_digits 20 (U64_MAX + 1)) = None.
Proof. now vm_compute. Qed.

(* wal-99999999999999999999 *)
Example ex_all_nines_rejected :
  filename_to_position (wal_prefix ++ dec_digits 20 99999999999999999999) = None.
Proof. now vm_compute. Qed.

(* 23 bytes: 19 digits *)
Example ex_23_bytes_rejected :
  filename_to_position (wal_prefix ++ dec_digits 19 7) = None.
Proof. now vm_compute. Qed.

(* 25 bytes: 21 digits *)
Example ex_25_bytes_rejected :
  filename_to_position (wal_prefix ++ dec_digits 21 7) = None.
Proof. now vm_compute. Qed.

(* wal_00000000000000000001 *)
Example ex_underscore_prefix_rejected :
  filename_to_position (["w";"a";"l";"_"] ++ dec_digits 20 1) = None.
Proof. now vm_compute. Qed.

(* a non-digit among the 20 *)
Example ex_non_digit_rejected :
  filename_to_position (wal_prefix ++ dec_digits 19 1 ++ ["a"]) = None.
Proof. now vm_compute. Qed.
