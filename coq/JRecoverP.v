(* JRecoverP.v — TASK T14, stage 2: `open` of a (crash) image whose stream is PRE ++ zeros
   establishes the junk-tolerant invariant InvJ PRE OLD opos, given
   - the description of the image directory (as CrashTrace.crash_image_shape gives it),
   - pre_reads for PRE (what a reader delivers out of it),
   - a logical ghost Glog for the delivered entries (LInv qs_log lo_log Glog, gh_ALL Glog = OLD).
   The recovered queues are abstractly those of qs_log. *)
From Coq Require Import Lia ZArith ZifyN ZifyNat ZifyBool List Sorted.
From MRL Require Import Bytes BytesProofs Params Names NamesProofs Frame Record Mem Spec Rolling Log
  Driver Hist NoopProofs SpecRefine RecordProofs StreamProofs PolicyProofs GcProofs GhostLog ReplaySpec
  HandleProofs FileStream ResyncProofs QueueIso RestartInv RestartWrite RestartGc RestartStep
  OpenReplay RestartFinal TornProofs TornFile CrashTrace CrashAtomic
  JInv JGc JStep JunkStream JReopen JRecoverL.

Arguments N.add : simpl never.
Arguments N.sub : simpl never.
Arguments N.mul : simpl never.
Arguments N.eqb : simpl never.
Arguments N.ltb : simpl never.
Arguments N.leb : simpl never.
Arguments N.div : simpl never.
Arguments N.modulo : simpl never.
Arguments N.min : simpl never.
Arguments N.max : simpl never.
Arguments N.pow : simpl never.

(* ---------- list facts ---------- *)
Lemma skipn_map' {A C} (f : A -> C) : forall n l, skipn n (map f l) = map f (skipn n l).
Proof. induction n as [|n IH]; intros [|x l]; cbn [skipn map]; try reflexivity. apply IH. Qed.

Lemma split_index_le (l : list (N * N)) b m k :
  (m <= length l)%nat ->
  Forall (fun s => snd s < b) (firstn m l) -> Forall (fun s => b <= snd s) (skipn k l) -> (m <= k)%nat.
Proof.
  intros Hm H1 H2. destruct (Nat.le_gt_cases m k) as [|Hgt]; [assumption|exfalso].
  destruct (nth_error l k) as [s|] eqn:E.
  2:{ apply nth_error_None in E. lia. }
  assert (Hin1 : In s (firstn m l)).
  { apply (nth_error_In _ k). rewrite nth_error_firstn_lt by lia. exact E. }
  assert (Hin2 : In s (skipn k l)).
  { apply (nth_error_In _ 0). rewrite nth_error_skipn'. now rewrite Nat.add_0_r. }
  rewrite Forall_forall in H1, H2. specialize (H1 s Hin1). specialize (H2 s Hin2). lia.
Qed.

Section RecoverCore.
Variable P : params.
Hypothesis HBS_lo : 7 < BS P.
Hypothesis HBS_hi : BS P <= 65542.
Hypothesis HNB : 1 <= NB P.
Hypothesis Hcrc : forall t p, crcf P t p < 2 ^ 32.
Hypothesis HGC : L_GC P = false.
Hypothesis HIO : L_IO P = false.
Hypothesis HSHORT : L_SHORT P = false.

Local Notation B := (BS P).
Local Notation FB := (FILE_BYTES P).
Local Notation ffp := (first_frame_pos P).
Local Notation cursor_after := (cursor_after P).
Local Notation starts := (starts P).
Local Notation ser := (map entry_ser).
Local Notation H3 f := (f P HBS_lo HBS_hi Hcrc) (only parsing).
Local Notation H2 f := (f P HBS_lo HBS_hi) (only parsing).
Local Notation HW f := (f P HBS_lo HBS_hi HNB Hcrc) (only parsing).
Local Notation HN f := (f P HBS_lo HBS_hi HNB) (only parsing).

Variable PRE : bytes.
Variable OLD : list entry.
Variable opos : list (N * N).
Variable adm : N -> Prop.
Variable cmax : nat.
Variable rm : N.
Hypothesis Hpre : pre_ok PRE OLD opos.
Hypothesis Hrd : pre_reads P PRE (ser OLD) opos adm cmax rm.

Local Notation PInvJ := (PInvJ P PRE OLD opos).
Local Notation InvJ := (InvJ P PRE OLD opos).
Local Notation jT := (jT P PRE OLD).
Local Notation jpos := (jpos P PRE OLD opos).

(* the image directory *)
Variable img : fsT.
Variable lo' : N.
Variable n : nat.
Variable base : N.
Local Notation files := (iota lo' (Datatypes.S n)).
Local Notation hi := (lo' + N.of_nat n).
Hypothesis Hlistx : list_wal_numbers img = files.
Hypothesis Hfilesx : forall f, In f files ->
  exists b, fs_get img (filename f) = Some (FFile b) /\ lenN b <= FB /\ (f <> hi -> lenN b = FB).
Hypothesis Hbase : base <= lo'.
Hypothesis Hhimax : hi <= U64_MAX.
Hypothesis Hndk : nodup_keys img.
Hypothesis Hdir : dir_of img files.
Hypothesis Htop : forall x, hi < x -> x <= U64_MAX -> fs_get img (filename x) = None.

Local Notation b' := ((lo' - base) * FB).
Local Notation kb := ((lo' - base) * NB P).
Local Notation fsx := (fs_ext P img lo' n).

(* the stream *)
Variable zz : N.
Local Notation S_all := (PRE ++ zerosN zz).
Hypothesis HSt : stream_of fsx files = dropN b' S_all.
Hypothesis HlenS : lenN S_all = (hi - base + 1) * FB.
Hypothesis Hadm : adm kb.
Hypothesis Hroom : lenN PRE + rm <= lenN S_all.
Hypothesis HwfO : Forall wf_entry OLD.
Hypothesis Hhi : (hi - base) * FB <= ffp (lenN PRE).
Hypothesis Hbffp : b' <= ffp (lenN PRE).

(* the logical ghost of the delivered entries *)
Variable qs_log : queues.
Variable lo_log : N.
Variable Glog : ghost.
Hypothesis HLlog : LInv qs_log lo_log Glog.
Hypothesis HALL : gh_ALL Glog = OLD.
Hypothesis Hbaselog_eq : gh_base Glog = base.
Hypothesis Hklog : Forall (fun s => b' <= snd s) (skipn (gh_k Glog) opos).
Hypothesis Hgcb : forall extra, pos_extra (abs_qs qs_log) extra ->
  FB * base + cursor_after (lenN PRE) (ser extra) <= FB * (U64_MAX + 1).

Lemma FBeq : FB = NB P * B. Proof. unfold FILE_BYTES. lia. Qed.
Lemma Hkb' : kb * B = b'. Proof. rewrite FBeq. lia. Qed.

Lemma dfilter_split b (es : list bytes) (pos : list (N * N)) m :
  length es = length pos ->
  Forall (fun s => snd s < b) (firstn m pos) -> Forall (fun s => b <= snd s) (skipn m pos) ->
  dfilter b es pos = combine (skipn m es) (skipn m pos).
Proof.
  intros Hl H1 H2'.
  rewrite <- (firstn_skipn m es) at 1. rewrite <- (firstn_skipn m pos) at 1.
  rewrite dfilter_app by (rewrite !firstn_length, Hl; reflexivity).
  rewrite (H3 dfilter_none _ _ _ H1). cbn [app]. apply (H3 dfilter_all _ _ _ H2').
Qed.

Theorem recover_core pol hint :
  exists st_r G_r,
    open P img None pol hint = OpenOk st_r /\ InvJ st_r G_r /\
    (forall q, s_get (abs_qs (s_qs st_r)) q = s_get (abs_qs qs_log) q) /\
    gh_base G_r = gh_base Glog /\ hi <= w_file (s_wr st_r) /\ s_pol st_r = pol /\
    w_pending (s_wr st_r) = [].
Proof.
  pose proof Hkb' as Hkb.
  pose proof Hpre as (Hol & Hob & Hos).
  assert (HFBpos : 0 < FB) by (rewrite FBeq; nia).
  assert (Hok : stream_ok P S_all).
  { exists ((hi - base + 1) * NB P). rewrite HlenS, FBeq. lia. }
  assert (Hblk : (kb + 1) * B <= lenN S_all).
  { rewrite HlenS, FBeq.
    replace (hi - base + 1) with ((lo' - base) + (N.of_nat n + 1)) by lia. nia. }
  set (F := (N.to_nat (lenN S_all + 22) + length OLD + cmax)%nat).
  destruct (Hrd kb [] [] zz S_all [] F (ES_nil P (lenN PRE)) eq_refl Hok Hblk Hadm Hroom
              ltac:(unfold F; lia)) as (rrs & c & rrf & HD).
  cbv zeta in HD. cbn [ResyncProofs.starts] in HD. rewrite !app_nil_r, (@lenN_nil byte), N.add_0_r in HD.
  rewrite Hkb in HD.
  (* the split of OLD at the boundary *)
  destruct (sorted_split_at opos b' Hos) as (m & Hm & Hlt & Hge).
  assert (Hlser : length (ser OLD) = length opos) by (rewrite map_length; lia).
  rewrite (dfilter_split b' (ser OLD) opos m Hlser Hlt Hge) in HD.
  assert (Hl2 : length (skipn m (ser OLD)) = length (skipn m opos)) by (rewrite !skipn_length; lia).
  rewrite (map_fst_combine _ _ Hl2), (map_snd_combine _ _ Hl2), combine_length, <- Hl2, Nat.min_id in HD.
  destruct HD as (Hlen & HrdV & Hc & Htr & Hend).
  rewrite skipn_map' in *.
  set (E_pre := firstn m OLD). set (E_suf := skipn m OLD) in *.
  assert (HEsplit : OLD = E_pre ++ E_suf) by (symmetry; apply firstn_skipn).
  assert (HlEpre : length E_pre = m) by (unfold E_pre; rewrite firstn_length; lia).
  assert (Hmk : (m <= gh_k Glog)%nat) by (exact (split_index_le opos b' m _ Hm Hlt Hklog)).
  (* the final reader *)
  set (e := N.max b' (lenN PRE)) in *.
  destruct (at_end_fin_x P HBS_lo HBS_hi S_all (rr_fr rrf) e Hend)
    as (pf & Hfin & Hpf1 & Hpf2 & Hpfcase).
  assert (Hpf3 : pf <= ffp (lenN PRE)).
  { unfold e in *. destruct (N.le_gt_cases b' (lenN PRE)) as [Hle|Hgt].
    - replace (N.max b' (lenN PRE)) with (lenN PRE) in Hpf2 by lia. exact Hpf2.
    - replace (N.max b' (lenN PRE)) with b' in Hpf2 by lia.
      rewrite <- Hkb, (H2 ffp_aligned), Hkb in Hpf2. lia. }
  (* open *)
  destruct (rd_open_short P HBS_lo HBS_hi HNB Hcrc img lo' n Hlistx Hfilesx HSHORT)
    as (c0 & rd & Hopen & Hrel).
  assert (HwfS : Forall wf_entry E_suf).
  { rewrite HEsplit in HwfO. apply Forall_app in HwfO. apply HwfO. }
  destruct (open_of_trace_x P HBS_lo HBS_hi HNB Hcrc fsx lo' n
              (Hfull_ext P HBS_lo HBS_hi HNB img lo' n Hlistx Hfilesx) base S_all Hbase HSt HlenS
              F img c0 rd rrs (ser E_suf) (skipn m opos) c rrf pf E_suf pol hint
              HIO Hopen Hrel Hlen HrdV Htr Hfin eq_refl HwfS)
    as (w0 & tags & Hspec & Hx & Hres).
  { rewrite map_length. unfold E_suf. rewrite skipn_length. unfold F. lia. }
  destruct Hspec as (Htl & HF2 & Hsorted & Hrange & Hfl & Hlo & Hcur & Hoff & Hpos & Hpend & Hfs & Hplan).
  assert (HtlE : length tags = length E_suf).
  { rewrite Htl. unfold E_suf. rewrite !skipn_length. lia. }
  (* the logical half *)
  destruct (linv_suffix_equal qs_log lo_log Glog E_pre E_suf HLlog ltac:(rewrite HALL; exact HEsplit)
              ltac:(lia) (combine tags E_suf) (map_snd_combine_len _ _ HtlE))
    as (qs' & Hrep & Hqi & Hndq & Heq).
  rewrite Hrep in Hres.
  set (G0 := gh_resplit Glog E_pre E_suf tags).
  assert (HL0 : LInv qs' lo' G0).
  { apply (linv_reopen_suffix qs_log lo_log); try assumption.
    - rewrite HALL. exact HEsplit.
    - lia.
    - eapply Forall_impl; [|exact Hrange]. intros f [Hf _]. exact Hf.
    - exact (qs_wf_ext _ _ (LInv_qs_wf _ _ _ HLlog) Hndq Heq). }
  assert (EALL0 : gh_ALL G0 = OLD).
  { unfold G0. rewrite (gh_resplit_ALL Glog E_pre E_suf tags HtlE). now symmetry. }
  assert (Ek0 : gh_k G0 = m).
  { unfold G0, gh_k, gh_resplit. cbn [gh_dropped gh_pre length]. lia. }
  (* the writer's file *)
  assert (Hwf0 : w_file w0 = hi).
  { destruct (N.eq_dec (w_file w0) hi) as [E|Hne]; [exact E|exfalso].
    assert (Hle1 : (w_file w0 - base) * FB + FB <= (hi - base) * FB).
    { replace ((w_file w0 - base) * FB + FB) with ((w_file w0 - base + 1) * FB) by lia.
      apply N.mul_le_mono_r. lia. }
    destruct Hpfcase as [(Epf & Hc7) | (Epf & kk & cc & Ekc & Hcc & Hlast)].
    - (* the final reader is normalised: its offset is below the file size *)
      assert (Hoff' : w_off w0 < FB).
      { destruct (N.eq_dec (w_off w0) FB) as [E|E]; [|lia]. specialize (Hx E). lia. }
      pose proof (ffp_mono P HBS_lo HBS_hi (lenN PRE) e ltac:(unfold e; lia)) as Hmono.
      clear - Hle1 Hoff' Hmono Epf Hpos Hhi. lia.
    - (* the final reader is in the last block of the stream *)
      rewrite HlenS in Hlast.
      assert (Hk1 : (hi - base + 1) * NB P < kk + 2).
      { apply (H2 TornProofs.mulB_lt_inv). rewrite <- N.mul_assoc, <- FBeq. exact Hlast. }
      assert (Hk2 : (hi - base) * FB + FB <= (kk + 1) * B).
      { replace ((hi - base) * FB + FB) with ((hi - base + 1) * NB P * B)
          by (rewrite FBeq; lia).
        apply N.mul_le_mono_r. lia. }
      assert (HFBB : B <= FB) by (rewrite FBeq; clear - HNB HBS_lo; nia).
      clear - Hle1 Hk2 HFBB Ekc Hcc Epf Hpos Hoff Hpf1 HBS_lo. lia. }
  assert (Hv : vfs w0 = fsx) by (rewrite (vfs_nil _ Hpend); exact Hfs).
  assert (Hok0 : wr_ok w0).
  { split.
    - rewrite Hfl. apply contiguous_iota. now exists lo', n.
    - rewrite Hfl, (HN iota_last), Hwf0. reflexivity. }
  assert (Hnf0 : lenN (w_files w0) = N.of_nat n + 1) by (rewrite Hfl, lenN_iota; lia).
  assert (Elo0 : wlo w0 = lo') by (unfold wlo; rewrite Hnf0, Hwf0; lia).
  assert (Hin_hi : In hi files) by (apply iota_In; lia).
  assert (Hw0 : winv P w0).
  { split; [exact Hok0|]. split; [apply wf_nil; exact Hpend|]. split; [exact Hoff|].
    split; [exact Hplan|]. split; [rewrite Hwf0; exact Hhimax|]. rewrite Hv, Hfl, Hwf0.
    split.
    - exact (Hfull_ext P HBS_lo HBS_hi HNB img lo' n Hlistx Hfilesx).
    - intros x Hx1 Hx2. unfold TornFile.fs_ext. rewrite fs_get_put_other; [now apply Htop|].
      apply filename_neq; lia. }
  assert (Hwd0 : wd_ok w0).
  { split; [exact Hok0|]. intros _. unfold dir_ok. rewrite Hfs, Hfl.
    unfold TornFile.fs_ext. apply dir_of_put_in; [exact Hdir|exact Hhimax|exact Hin_hi]. }
  assert (Hnd0 : nd w0).
  { unfold nd. rewrite Hfs. unfold TornFile.fs_ext. now apply nodup_keys_put. }
  assert (Hwpos0 : wpos P w0 = N.of_nat n * FB + w_off w0).
  { unfold wpos. rewrite Hnf0. f_equal. f_equal. lia. }
  assert (Ecur : (lo' - base) * FB + wpos P w0 = pf).
  { rewrite Hwpos0, <- Hpos, Hwf0. replace (hi - base) with ((lo' - base) + N.of_nat n) by lia. lia. }
  assert (HP0 : PInvJ w0 G0).
  { unfold JInv.PInvJ. cbn zeta.
    assert (EjN : jNEW OLD G0 = []).
    { unfold JInv.jNEW. rewrite EALL0. apply skipn_all. }
    assert (EjT : jT G0 = PRE).
    { unfold JInv.jT, JInv.jser. rewrite EjN. cbn [map ResyncProofs.encs_of]. apply app_nil_r. }
    assert (Ejp : jpos G0 = opos).
    { unfold JInv.jpos, JInv.jser. rewrite EjN. cbn [map ResyncProofs.starts]. apply app_nil_r. }
    rewrite EjT, Ejp, EALL0, Ek0, Elo0. change (gh_base G0) with (gh_base Glog).
    split; [exact Hw0|]. split; [exact Hwd0|]. split; [exact Hnd0|].
    split; [rewrite Hbaselog_eq; exact Hbase|].
    rewrite Hbaselog_eq, Ecur.
    split; [lia|]. split; [exact Hpf3|].
    split.
    { unfold wstream. rewrite Hnf0, Hv, Hfl, HSt. f_equal. f_equal. f_equal.
      rewrite lenN_app, lenN_zerosN in HlenS.
      replace (lo' - base + (N.of_nat n + 1)) with (hi - base + 1) by lia. lia. }
    split; [exact HwfO|]. split; [apply firstn_all|].
    split; [exact Hlt|].
    split.
    { cbn [G0 gh_resplit gh_E].
      assert (H1 : Forall2 (fun (fe : N * entry) s => (fst fe - base) * FB <= snd s)
                     (combine tags E_suf) (skipn m opos)).
      { apply (Forall2_combine_l (fun f s => (f - base) * FB <= snd s)); [exact HtlE|exact HF2]. }
      pose proof (Forall2_Forall_r _ _ _ _ H1 Hge) as H12.
      eapply Forall2_impl'; [|exact H12]. cbn beta. intros fe s [Hx' Hy]. split; assumption. }
    change (gh_log G0) with (combine tags E_suf).
    apply tags_mono_combine.
    - exact HtlE.
    - exact Hsorted.
    - eapply Forall_impl; [|exact Hrange]. cbn beta. intros f [Hf1 Hf2]. lia.
    - lia. }
  (* the recovery GC *)
  set (st0 := mkSt w0 qs' pol).
  assert (HI0 : InvJ st0 G0).
  { split; cbn [st0 s_wr s_qs]; [exact HP0|]. rewrite Elo0. exact HL0. }
  assert (Hb0 : stream_boundJ P PRE OLD G0 (map snd (gc_log P st0 hint))).
  { unfold JInv.stream_boundJ. unfold JInv.jNEW. rewrite EALL0, skipn_all. cbn [app].
    change (gh_base G0) with (gh_base Glog). rewrite Hbaselog_eq. apply Hgcb.
    apply (pos_extra_ext (abs_qs qs')); [intros q; now rewrite Heq|].
    exact (gc_log_pos_extra P st0 hint Hndq). }
  rewrite Hres. unfold open_finish. fold st0.
  destruct (run_gc_if_necessary P st0 hint) as [st1 r] eqn:Egc.
  destruct (gcJ_no_err P HBS_lo HBS_hi HNB Hcrc HGC PRE OLD opos Hpre st0 G0 hint st1 r HI0 Hb0 Egc)
    as (k & ->).
  destruct (invJ_gc P HBS_lo HBS_hi HNB Hcrc HGC PRE OLD opos Hpre st0 G0 hint st1 k HI0 Hb0 Egc)
    as (G' & HI' & Eqs & Epol & Eb & _ & _).
  destruct (run_gc_step P st0 hint st1 (Ok k) Egc Hok0) as (_ & Hfile1 & _).
  exists st1, G'. split; [reflexivity|]. split; [exact HI'|].
  split; [intros q; rewrite Eqs; exact (Heq q)|]. split; [exact Eb|].
  split; [cbn [st0 s_wr] in Hfile1; lia|]. split; [exact Epol|].
  exact (run_gc_pending P HGC st0 hint st1 k Hpend Egc).
Qed.

End RecoverCore.

Print Assumptions recover_core.
