(* CrashCorollaries.v — the crash halves of C04 (positions never regress) and C18 (queue isolation),
   and C12 (a batch append is all-or-nothing), as corollaries of the end-to-end crash theorems
   (CrashAtomic.C02_history, PersistSurvive.C03_process_crash / C03_persisted_survives) and of the
   end-to-end damage theorem (DamageAtomic.C09_damage_tagged).

   A. facts on the specification alone (Spec.v):
        s_append_batch, batch_later / batch_earlier / batch_all_or_nothing_spec (A1),
        next_monotone_prefix (A2).
   B. C04, crash half:  crash_next_positions (any policy), crash_next_after_persist,
        crash_next_always (PAlways, C02_history).
   C. C18, crash half:  crash_projection (any policy), crash_projection_always.
   D. C12:  batch_crash (D1, any policy), batch_crash_persisted, batch_crash_always;
        batch_damage_other / batch_damage_self (D2). *)
From Coq Require Import Lia ZArith ZifyN ZifyNat ZifyBool List Sorted.
From MRL Require Import Bytes BytesProofs Params Names NamesProofs Frame Record Mem Spec Rolling Log
  Driver Hist NoopProofs WriterProofs SpecRefine GhostLog ReplaySpec DeletionSim QueueIso
  RestartInv RestartWrite RestartGc RestartStep OpenReplay RestartFinal RestartCorollaries
  RecordProofs StreamProofs PolicyProofs GcProofs HandleProofs FileStream ResyncProofs
  TornProofs CrashTrace CrashAtomic PersistLogic PersistRecover PersistSurvive
  DamageProofs DamageFile DamageAtomic.
Import ListNotations.

Arguments N.add : simpl never.
Arguments N.sub : simpl never.
Arguments N.mul : simpl never.
Arguments N.eqb : simpl never.
Arguments N.ltb : simpl never.
Arguments N.leb : simpl never.
Arguments N.div : simpl never.
Arguments N.modulo : simpl never.

(* ====================================================================== *)
(* A. the specification alone                                             *)
(* ====================================================================== *)

(* ---------- small list facts ---------- *)

Lemma never_deleted_app q h1 h2 m :
  never_deleted q (h1 ++ h2) (snd (s_run m (h1 ++ h2))) <->
  never_deleted q h1 (snd (s_run m h1)) /\
  never_deleted q h2 (snd (s_run (fst (s_run m h1)) h2)).
Proof.
  rewrite s_run_app. cbn [snd]. unfold never_deleted.
  rewrite CrashAtomic.combine_app_l by (now rewrite s_run_length).
  rewrite forallb_app, andb_true_iff. tauto.
Qed.

Lemma s_run_fst_app m h1 h2 : fst (s_run m (h1 ++ h2)) = fst (s_run (fst (s_run m h1)) h2).
Proof. now rewrite s_run_app. Qed.

(* ---------- A2: the next position of q along a run that does not delete q ---------- *)

(* between any two points i <= j of a run in which no call successfully deletes q, the next
   position of q does not decrease, and q stays there if it was there *)
Theorem next_monotone_prefix h m q i j :
  never_deleted q h (snd (s_run m h)) -> (i <= j)%nat ->
  next_or0 (s_get (fst (s_run m (firstn i h))) q) <= next_or0 (s_get (fst (s_run m (firstn j h))) q) /\
  (s_get (fst (s_run m (firstn i h))) q <> None -> s_get (fst (s_run m (firstn j h))) q <> None).
Proof.
  intros Hnd Hij.
  rewrite <- (firstn_skipn j h) in Hnd. apply never_deleted_app in Hnd as (Hnd & _).
  assert (E : firstn j h = firstn i h ++ firstn (j - i) (skipn i h)).
  { rewrite <- (firstn_skipn i h) at 1. rewrite firstn_app, firstn_firstn, firstn_length.
    replace (Nat.min j i) with i by lia.
    destruct (Nat.le_gt_cases i (length h)) as [Hl|Hl].
    - replace (Nat.min i (length h)) with i by lia. reflexivity.
    - rewrite !(skipn_all2 h) by lia. rewrite !firstn_nil. reflexivity. }
  rewrite E in Hnd |- *. apply never_deleted_app in Hnd as (_ & Hnd).
  rewrite s_run_fst_app.
  destruct (s_run_next_monotone _ _ q Hnd) as (H1 & H2).
  split; [eapply incr_between_le; exact H2|exact H1].
Qed.

(* ---------- A1: a batch append is all-or-nothing, and stays so ---------- *)

(* the positions b <= . < e *)
Definition in_span (b e : N) (r : N * bytes) : bool := (b <=? fst r) && (fst r <? e).

(* a successful, effective append of payloads pl: the batch receives the consecutive positions
   b .. b + |pl| - 1 = last, at or above the previous next position *)
Theorem s_append_batch m q pos pl last :
  snd (s_step m (SAppend q pos pl)) = SAppended (Some last) ->
  exists recs next b,
    s_get m q = Some (recs, next) /\ next <= b /\ pl <> [] /\ b + lenN pl = last + 1 /\
    (pos = Some b \/ pos = None /\ b = next) /\
    s_get (fst (s_step m (SAppend q pos pl))) q = Some (recs ++ s_number b pl, b + lenN pl).
Proof.
  destruct (s_step_q_step m (SAppend q pos pl) q eq_refl) as (A & B). rewrite A, B. clear A B.
  destruct (s_get m q) as [[recs next]|]; [|discriminate]. cbn [q_step].
  assert (Hl : forall a r, 1 <= lenN (a :: r : list bytes)) by (intros; rewrite lenN_cons; lia).
  destruct pos as [p|].
  - destruct (N.eqb_spec (p + 1) next); [discriminate|].
    destruct (N.ltb_spec p next); [discriminate|].
    destruct pl as [|a r]; [discriminate|]. cbn [fst snd]. intros E. injection E as E.
    pose proof (Hl a r). exists recs, next, p. repeat split; try lia; try discriminate; auto.
  - destruct pl as [|a r]; [discriminate|]. cbn [fst snd]. intros E. injection E as E.
    pose proof (Hl a r). exists recs, next, next. repeat split; try lia; try discriminate; auto.
Qed.

(* what is left of the batch s_number b pl in the content v of q: q is there, its next position is
   past the batch, and the records of v with a position of the batch are the records of the batch
   at or above some position t, i.e. (filter_ge_suffix below) a SUFFIX of the batch *)
Definition batch_inv (b : N) (pl : list bytes) (v : option squeue) : Prop :=
  exists recs next t,
    v = Some (recs, next) /\ b + lenN pl <= next /\
    filter (in_span b (b + lenN pl)) recs = filter (fun r => t <=? fst r) (s_number b pl).

Lemma filter_span_number b e p l : e <= p -> filter (in_span b e) (s_number p l) = [].
Proof.
  intros H. apply filter_all_false. intros x Hx. apply s_number_pos in Hx. unfold in_span.
  apply andb_false_iff. right. lia.
Qed.

Lemma filter_ge_ge {A} (f : A -> N) a b l :
  filter (fun r => a <=? f r) (filter (fun r => b <=? f r) l) = filter (fun r => N.max a b <=? f r) l.
Proof.
  rewrite <- filter_andb. apply filter_ext. intros r.
  destruct (N.leb_spec b (f r)), (N.leb_spec a (f r)), (N.leb_spec (N.max a b) (f r));
    cbn [andb]; try reflexivity; lia.
Qed.

Lemma q_step_batch b pl v o v' out :
  q_step v o = (v', out) -> (forall q', o = SDelete q' -> out <> SOk) ->
  batch_inv b pl v -> batch_inv b pl v'.
Proof.
  intros E Hnd (recs & next & t & -> & Hn & Hf).
  assert (Hid : forall out0, (Some (recs, next), out0) = (v', out) -> batch_inv b pl v').
  { intros out0 E0. injection E0 as <- _. exists recs, next, t. auto. }
  assert (Happ : forall p l out0, next <= p ->
            (Some (recs ++ s_number p l, p + lenN l), out0) = (v', out) -> batch_inv b pl v').
  { intros p l out0 Hp E0. injection E0 as <- _. exists (recs ++ s_number p l), (p + lenN l), t.
    split; [reflexivity|]. split; [lia|].
    rewrite filter_app, (filter_span_number _ _ p l) by lia. now rewrite app_nil_r. }
  destruct o as [q|q|q pos l|q p|]; cbn [q_step] in E.
  - exact (Hid _ E).
  - injection E as <- <-. exfalso. exact (Hnd q eq_refl eq_refl).
  - destruct pos as [p|].
    + destruct (N.eqb_spec (p + 1) next); [exact (Hid _ E)|].
      destruct (N.ltb_spec p next); [exact (Hid _ E)|].
      destruct l as [|a l]; [exact (Hid _ E)|]. exact (Happ p _ _ ltac:(lia) E).
    + destruct l as [|a l]; [exact (Hid _ E)|]. exact (Happ next _ _ ltac:(lia) E).
  - cbn zeta in E. injection E as <- _.
    eexists _, _, (N.max (p + 1) t). split; [reflexivity|]. split.
    + destruct (isnil _ && (next <=? p + 1)) eqn:C; [|exact Hn].
      apply andb_true_iff in C as (_ & C). lia.
    + rewrite (filter_ext (fun r => p <? fst r) (fun r => p + 1 <=? fst r)).
      2:{ intros r. destruct (N.ltb_spec p (fst r)), (N.leb_spec (p + 1) (fst r)); try reflexivity; lia. }
      rewrite filter_comm, Hf. apply (filter_ge_ge fst).
  - exact (Hid _ E).
Qed.

Lemma s_step_batch b pl m o q :
  s_deleted q o (snd (s_step m o)) = false ->
  batch_inv b pl (s_get m q) -> batch_inv b pl (s_get (fst (s_step m o)) q).
Proof.
  intros Hd Hb. destruct (addressed q o) eqn:Ea.
  - apply addressed_true in Ea. destruct (s_step_q_step m o q Ea) as (A & B).
    rewrite A. rewrite B in Hd.
    destruct (q_step (s_get m q) o) as [v' out] eqn:E. cbn [fst snd] in *.
    apply (q_step_batch b pl _ _ _ _ E); [|exact Hb].
    intros q' -> ->. cbn [sop_queue] in Ea. injection Ea as ->.
    cbn [s_deleted] in Hd. rewrite bytes_eqb_refl in Hd. discriminate Hd.
  - apply addressed_false in Ea. now rewrite (s_step_other _ _ _ Ea).
Qed.

Lemma s_run_batch b pl q : forall h m,
  never_deleted q h (snd (s_run m h)) ->
  batch_inv b pl (s_get m q) -> batch_inv b pl (s_get (fst (s_run m h)) q).
Proof.
  induction h as [|o h IH]; intros m Hnd Hb; [exact Hb|].
  rewrite s_run_cons in *. cbn [fst snd] in *. apply never_deleted_cons in Hnd as (Hd & Hnd).
  apply IH; [exact Hnd|]. now apply s_step_batch.
Qed.

(* the records at or above a position form a suffix of consecutively numbered records *)
Lemma filter_ge_suffix t : forall l b,
  exists j, filter (fun r : N * bytes => t <=? fst r) (s_number b l) = skipn j (s_number b l).
Proof.
  induction l as [|x l IH]; intros b; [exists 0%nat; reflexivity|].
  cbn [s_number filter fst]. destruct (N.leb_spec t b) as [Hle|Hgt].
  - exists 0%nat. cbn [skipn]. f_equal. apply filter_all_true. intros y Hy.
    apply s_number_pos in Hy. lia.
  - destruct (IH (b + 1)) as (j & Ej). exists (S j). cbn [skipn]. exact Ej.
Qed.

(* (A1, later states)  Right after the append the whole batch is there; in every later state of
   the same incarnation of q (no successful delete of q since the append), q is there, its next
   position is past the batch, and what q holds of the batch is a suffix of the batch (the batch
   minus a leading part removed by truncation): never a hole, never a missing tail. *)
Theorem batch_later m q pos pl last h2 :
  s_inv m ->
  snd (s_step m (SAppend q pos pl)) = SAppended (Some last) ->
  let b := last + 1 - lenN pl in
  let m2 := fst (s_step m (SAppend q pos pl)) in
  forall k, never_deleted q (firstn k h2) (snd (s_run m2 (firstn k h2))) ->
    exists recs next,
      s_get (fst (s_run m2 (firstn k h2))) q = Some (recs, next) /\ last < next /\
      (exists t, filter (in_span b (last + 1)) recs = filter (fun r => t <=? fst r) (s_number b pl)) /\
      (exists j, filter (in_span b (last + 1)) recs = skipn j (s_number b pl)).
Proof.
  intros Hi Hs b m2 k Hnd.
  destruct (s_append_batch m q pos pl last Hs) as (recs0 & next0 & b0 & Hg & Hb0 & Hpl & Hl & _ & Hg2).
  assert (Eb : b = b0) by (unfold b; lia). rewrite <- Eb in *. clear Eb b0. fold m2 in Hg2.
  assert (H0 : batch_inv b pl (s_get m2 q)).
  { rewrite Hg2. exists (recs0 ++ s_number b pl), (b + lenN pl), 0. split; [reflexivity|].
    split; [lia|]. rewrite filter_app.
    rewrite (filter_all_false _ recs0), (filter_all_true _ (s_number b pl)).
    - cbn [app]. symmetry. apply filter_all_true. intros x _. apply N.leb_le. lia.
    - intros x Hx. apply s_number_pos in Hx. unfold in_span. apply andb_true_iff. split; lia.
    - intros x Hx. pose proof (Hi _ _ Hg x Hx) as Hlt. cbn [fst snd] in Hlt. unfold in_span.
      apply andb_false_iff. left. lia. }
  destruct (s_run_batch b pl q _ _ Hnd H0) as (recs & next & t & Eg & Hn & Hf).
  replace (last + 1) with (b + lenN pl) by lia.
  exists recs, next. split; [exact Eg|]. split; [lia|]. split; [exists t; exact Hf|].
  destruct (filter_ge_suffix t pl b) as (j & Ej). exists j. now rewrite Hf.
Qed.

(* (A1, earlier states)  In every earlier state from which q is not deleted until the append,
   the next position of q is at most the first position of the batch, and q holds no record with
   a position of the batch (every retained position is below the next position). *)
Theorem batch_earlier m0 h1 q pos pl last :
  s_inv m0 ->
  snd (s_step (fst (s_run m0 h1)) (SAppend q pos pl)) = SAppended (Some last) ->
  let b := last + 1 - lenN pl in
  forall k, never_deleted q (skipn k h1) (snd (s_run (fst (s_run m0 (firstn k h1))) (skipn k h1))) ->
    forall recs next, s_get (fst (s_run m0 (firstn k h1))) q = Some (recs, next) ->
      next <= b /\ (forall x, In x recs -> fst x < b) /\ filter (in_span b (last + 1)) recs = [].
Proof.
  intros Hi Hs b k Hnd recs next Hg.
  destruct (s_append_batch _ q pos pl last Hs) as (recs1 & next1 & b0 & Hg1 & Hb0 & _ & Hl & _).
  assert (Eb : b = b0) by (unfold b; lia). rewrite <- Eb in *. clear Eb b0.
  rewrite <- (firstn_skipn k h1), s_run_fst_app in Hg1.
  destruct (s_run_next_monotone _ _ q Hnd) as (_ & Hm). apply incr_between_le in Hm.
  rewrite Hg, Hg1 in Hm. cbn [next_or0] in Hm.
  assert (Hlt : forall x, In x recs -> fst x < next).
  { intros x Hx. exact (s_run_inv (firstn k h1) m0 Hi _ _ Hg x Hx). }
  split; [lia|]. split; [intros x Hx; specialize (Hlt x Hx); lia|].
  apply filter_all_false. intros x Hx. specialize (Hlt x Hx). unfold in_span.
  apply andb_false_iff. left. lia.
Qed.

(* (A1) over a history split h1 ++ [SAppend q pos pl] ++ h2, for every prefix of the run: *)
Theorem batch_all_or_nothing_spec m0 h1 q pos pl h2 last :
  s_inv m0 ->
  let m1 := fst (s_run m0 h1) in
  snd (s_step m1 (SAppend q pos pl)) = SAppended (Some last) ->
  let b := last + 1 - lenN pl in
  let m2 := fst (s_step m1 (SAppend q pos pl)) in
  let h := h1 ++ SAppend q pos pl :: h2 in
  forall k, (k <= length h)%nat ->
    let mk := fst (s_run m0 (firstn k h)) in
    (* before the append *)
    ((k <= length h1)%nat /\
     (never_deleted q (skipn k h1) (snd (s_run mk (skipn k h1))) ->
      forall recs next, s_get mk q = Some (recs, next) ->
        next <= b /\ filter (in_span b (last + 1)) recs = [])) \/
    (* after the append *)
    ((length h1 < k)%nat /\
     let k2 := (k - S (length h1))%nat in
     mk = fst (s_run m2 (firstn k2 h2)) /\
     (never_deleted q (firstn k2 h2) (snd (s_run m2 (firstn k2 h2))) ->
      exists recs next j,
        s_get mk q = Some (recs, next) /\ last < next /\
        filter (in_span b (last + 1)) recs = skipn j (s_number b pl))).
Proof.
  intros Hi m1 Hs b m2 h k Hk mk.
  destruct (Nat.le_gt_cases k (length h1)) as [Hle|Hgt]; [left|right]; (split; [exact Hle || exact Hgt|]).
  - assert (E : firstn k h = firstn k h1).
    { unfold h. rewrite firstn_app. replace (k - length h1)%nat with 0%nat by lia.
      cbn [firstn]. apply app_nil_r. }
    unfold mk. rewrite E. intros Hnd recs next Hg.
    destruct (batch_earlier m0 h1 q pos pl last Hi Hs k Hnd recs next Hg) as (H1 & _ & H3). auto.
  - cbn zeta. set (k2 := (k - S (length h1))%nat).
    assert (E : firstn k h = h1 ++ SAppend q pos pl :: firstn k2 h2).
    { unfold h. rewrite firstn_app, firstn_all2 by lia.
      replace (k - length h1)%nat with (S k2) by (unfold k2; lia). reflexivity. }
    assert (Emk : mk = fst (s_run m2 (firstn k2 h2))).
    { unfold mk. rewrite E, s_run_fst_app. fold m1. rewrite s_run_cons. reflexivity. }
    split; [exact Emk|]. intros Hnd.
    destruct (batch_later m1 q pos pl last h2 (s_run_inv h1 m0 Hi) Hs k2 Hnd)
      as (recs & next & Hg & Hn & _ & (j & Hj)).
    exists recs, next, j. rewrite Emk. auto.
Qed.

Print Assumptions next_monotone_prefix.
Print Assumptions s_append_batch.
Print Assumptions batch_later.
Print Assumptions batch_earlier.
Print Assumptions batch_all_or_nothing_spec.

(* non-vacuity, by computation: queue a holds positions 0,1; a batch of three gets 2,3,4
   (last = 4); a later truncate(a, ..=2) and one more append: what is left of the batch is its
   suffix [3;4] — and batch_later says so *)
Module ExampleBatch.
Definition qa : bytes := ["a"%byte].
Definition pay (c : byte) : bytes := [c; c].
Definition h1 : list sop := [SCreate qa; SAppend qa None [pay "x"%byte; pay "y"%byte]].
Definition pl : list bytes := [pay "a"%byte; pay "b"%byte; pay "c"%byte].
Definition h2 : list sop := [STruncate qa 2; SAppend qa None [pay "z"%byte]].
Definition m1 : smap := fst (s_run [] h1).

Example batch_ex_computed :
  snd (s_step m1 (SAppend qa None pl)) = SAppended (Some 4) /\
  never_deleted qa h2 (snd (s_run (fst (s_step m1 (SAppend qa None pl))) h2)) /\
  match s_get (fst (s_run [] (h1 ++ SAppend qa None pl :: h2))) qa with
  | Some (recs, next) =>
      next = 6 /\ filter (in_span 2 5) recs = skipn 1 (s_number 2 pl) /\ map fst recs = [3; 4; 5]
  | None => False
  end.
Proof. vm_compute. repeat split; reflexivity. Qed.

Example batch_ex_theorem :
  exists recs next,
    s_get (fst (s_run (fst (s_step m1 (SAppend qa None pl))) (firstn 2 h2))) qa = Some (recs, next) /\
    4 < next /\
    (exists t, filter (in_span 2 5) recs = filter (fun r => t <=? fst r) (s_number 2 pl)) /\
    (exists j, filter (in_span 2 5) recs = skipn j (s_number 2 pl)).
Proof.
  exact (batch_later m1 qa None pl 4 h2 (s_run_inv h1 [] s_inv_nil) (proj1 batch_ex_computed) 2%nat
           (proj1 (proj2 batch_ex_computed))).
Qed.
End ExampleBatch.

(* ====================================================================== *)
(* B-D1. crashes                                                          *)
(* ====================================================================== *)

(* the specification calls of a history *)
Definition sops (h : list (op * bool)) : list sop := map (fun ot => sop_of (fst ot)) h.

Lemma sops_app a b : sops (a ++ b) = sops a ++ sops b.
Proof. apply map_app. Qed.

Lemma sops_firstn m h : firstn m (sops h) = sops (firstn m h).
Proof. apply firstn_map. Qed.

(* the reads of a state of the log against a state of the specification *)
Lemma reads_of_spec st m q :
  qs_inv (s_qs st) -> s_get (abs_qs (s_qs st)) q = s_get m q ->
  (forall lo hi, log_range st q lo hi = s_range m q lo hi) /\
  log_last_position st q = s_last_position m q /\
  log_last_record st q = s_last_record m q /\
  log_next st q = next_or0 (s_get m q).
Proof.
  intros Hi Hg. repeat split; intros.
  - rewrite log_range_refines by assumption. unfold s_range. now rewrite Hg.
  - rewrite log_last_position_refines. unfold s_last_position. now rewrite Hg.
  - rewrite log_last_record_refines by assumption. unfold s_last_record. now rewrite Hg.
  - now rewrite <- log_next_abs, Hg.
Qed.

Lemma s_run_nth_out m h1 o h2 :
  nth_error (snd (s_run m (h1 ++ o :: h2))) (length h1) = Some (snd (s_step (fst (s_run m h1)) o)).
Proof.
  rewrite s_run_app. cbn [snd]. rewrite nth_error_app2 by (rewrite s_run_length; lia).
  rewrite s_run_length, Nat.sub_diag, s_run_cons. reflexivity.
Qed.

Section Crash.
Variable P : params.
Hypothesis HBS_lo : 7 < BS P.
Hypothesis HBS_hi : BS P <= 65542.
Hypothesis HNB : 1 <= NB P.
Hypothesis Hcrc : forall t p, crcf P t p < 2 ^ 32.
Hypothesis HGC : L_GC P = false.
Hypothesis HIO : L_IO P = false.
Hypothesis HSHORT : L_SHORT P = false.
Hypothesis Hnc : no_zero_collision P.

Local Notation HW f := (f P HBS_lo HBS_hi HNB Hcrc) (only parsing).
Local Notation HG f := (f P HBS_lo HBS_hi HNB Hcrc HGC) (only parsing).
Local Notation HN f := (f P HBS_lo HBS_hi HNB) (only parsing).
Local Notation HA f := (f P HBS_lo HBS_hi HNB Hcrc HGC HIO HSHORT Hnc) (only parsing).
Local Notation Inv := (Inv P).
Local Notation stream_bound := (stream_bound P).
Local Notation absq st := (abs_qs (s_qs st)).
Local Notation stN st h m := (fst (run P st (firstn m h))).

(* ---------- histories of calls under the restart invariant ---------- *)

(* a history can be cut anywhere: the hypotheses of the crash theorems hold for both parts *)
Lemma run_segment a b st G :
  Inv st G -> hist_wf P st (a ++ b) -> stream_bound G (map snd (run_log P st (a ++ b))) ->
  hist_wf P st a /\ stream_bound G (map snd (run_log P st a)) /\
  exists Ga, Inv (fst (run P st a)) Ga /\ hist_wf P (fst (run P st a)) b /\
             stream_bound Ga (map snd (run_log P (fst (run P st a)) b)).
Proof.
  intros HI Hwf Hb. apply (hist_wf_app P) in Hwf. destruct Hwf as (Hwf1 & Hwf2).
  pose proof (HW stream_bound_app _ _ _ _ Hb) as Hb1.
  split; [exact Hwf1|]. split; [exact Hb1|].
  destruct (HG run_inv a st G HI Hwf1 Hb1) as (Ga & HIa & Eb & Ed & El).
  exists Ga. split; [exact HIa|]. split; [exact Hwf2|].
  unfold RestartWrite.stream_bound in *. rewrite Eb. unfold gh_ALL in *. rewrite Ed, El.
  rewrite (run_log_app P) in Hb.
  replace ((gh_dropped G ++ map snd (gh_log G ++ run_log P st a)) ++
           map snd (run_log P (fst (run P st a)) b))
    with ((gh_dropped G ++ map snd (gh_log G)) ++
          map snd (run_log P st a ++ run_log P (fst (run P st a)) b)); [exact Hb|].
  rewrite !map_app, !app_assoc. reflexivity.
Qed.

Lemma run_no_io h : forall st G,
  Inv st G -> hist_wf P st h -> stream_bound G (map snd (run_log P st h)) ->
  Forall no_io (snd (run P st h)).
Proof.
  induction h as [|[o t] h IH]; intros st G HI Hwf Hb; [constructor|].
  destruct (run_segment [(o, t)] h st G HI Hwf Hb) as (Hwf1 & Hb1 & Ga & HIa & Hwf2 & Hb2).
  cbn [run_log hist_wf] in Hwf1, Hb1. rewrite app_nil_r in Hb1.
  rewrite run_cons. cbn [snd]. constructor.
  - exact (HG step_no_io st G o t HI (proj1 Hwf1) Hb1).
  - replace (fst (step P st o t)) with (fst (run P st [(o, t)])); [exact (IH _ Ga HIa Hwf2 Hb2)|].
    cbn [run]. now destruct (step P st o t).
Qed.

(* the run is the specification's *)
Lemma run_spec h st G :
  Inv st G -> hist_wf P st h -> stream_bound G (map snd (run_log P st h)) ->
  exists souts,
    map out_logical (snd (run P st h)) = map Some souts /\
    s_run (absq st) (sops h) = (absq (fst (run P st h)), souts).
Proof.
  intros HI Hwf Hb.
  destruct (QueueIso.no_io_logical _ (forall_no_io _ (run_no_io h st G HI Hwf Hb))) as (souts & Hl).
  exists souts. split; [exact Hl|].
  pose proof (run_refines P h st (Inv_qs_inv P _ _ HI)) as R.
  destruct (run P st h) as [st' outs]. exact (proj2 R souts Hl).
Qed.

Lemma run_spec_fst h st G :
  Inv st G -> hist_wf P st h -> stream_bound G (map snd (run_log P st h)) ->
  fst (s_run (absq st) (sops h)) = absq (fst (run P st h)).
Proof. intros HI Hwf Hb. destruct (run_spec h st G HI Hwf Hb) as (souts & _ & E). now rewrite E. Qed.

(* ... and so is every prefix of it *)
Lemma run_spec_prefix h st G m :
  Inv st G -> hist_wf P st h -> stream_bound G (map snd (run_log P st h)) ->
  fst (s_run (absq st) (firstn m (sops h))) = absq (stN st h m).
Proof.
  intros HI Hwf Hb. rewrite <- (firstn_skipn m h) in Hwf, Hb.
  destruct (run_segment _ _ st G HI Hwf Hb) as (Hwf1 & Hb1 & _).
  rewrite sops_firstn. exact (run_spec_fst _ st G HI Hwf1 Hb1).
Qed.

(* a successful delete of q observed on the log is one of the specification *)
Lemma run_never_deleted h st G q :
  Inv st G -> hist_wf P st h -> stream_bound G (map snd (run_log P st h)) ->
  log_never_deleted q h (snd (run P st h)) ->
  never_deleted q (sops h) (snd (s_run (absq st) (sops h))).
Proof.
  intros HI Hwf Hb Hnd. destruct (run_spec h st G HI Hwf Hb) as (souts & Hl & E).
  rewrite E. cbn [snd]. exact (proj1 (proj2 (run_observations P q h st souts Hl)) Hnd).
Qed.

(* C04 along a run of the log: between the start and any call boundary, if no call of the
   history successfully deletes q *)
Lemma log_next_prefix h st G q m :
  Inv st G -> hist_wf P st h -> stream_bound G (map snd (run_log P st h)) ->
  log_never_deleted q h (snd (run P st h)) ->
  log_next st q <= log_next (stN st h m) q /\
  (qs_get (s_qs st) q <> None -> qs_get (s_qs (stN st h m)) q <> None).
Proof.
  intros HI Hwf Hb Hnd.
  pose proof (run_never_deleted h st G q HI Hwf Hb Hnd) as Hnd'.
  destruct (next_monotone_prefix (sops h) (absq st) q 0 m Hnd' ltac:(lia)) as (H1 & H2).
  rewrite (run_spec_prefix h st G m HI Hwf Hb) in H1, H2. cbn [firstn s_run fst] in H1, H2.
  rewrite !log_next_abs in H1. split; [exact H1|].
  rewrite !abs_get in H2. intros Hq.
  destruct (qs_get (s_qs st) q); [|now destruct Hq].
  destruct (qs_get (s_qs (stN st h m)) q); [discriminate|]. exfalso. apply H2; [discriminate|reflexivity].
Qed.

Lemma stN_skip st h i m : (i <= m)%nat -> (i <= length h)%nat ->
  stN st h m = stN (stN st h i) (skipn i h) (m - i).
Proof.
  intros Him Hi. rewrite <- (firstn_skipn i h) at 1.
  replace m with (length (firstn i h) + (m - i))%nat at 1 by (rewrite firstn_length; lia).
  apply (HN stN_app_ge).
Qed.

(* ====================================================================== *)
(* B. C04, crash half                                                     *)
(* ====================================================================== *)

Section Setting.
(* a persist point: the restart invariant holds and nothing is buffered *)
Variables (st0 : state) (G0 : ghost).
Hypothesis HI0 : Inv st0 G0.
Hypothesis Hp0 : w_pending (s_wr st0) = [].
(* any further history, under any policy *)
Variable h : list (op * bool).
Hypothesis Hwf : hist_wf P st0 h.
Hypothesis Hb : stream_bound G0 (map snd (run_log P st0 h)).
Hypothesis Hcb : CB P st0 h.
(* the events it adds *)
Variable evs : list event.
Hypothesis Hevs : c_ev (w_ctx (s_wr (fst (run P st0 h)))) = rev evs ++ c_ev (w_ctx (s_wr st0)).

Local Notation fs0 := (c_fs (w_ctx (s_wr st0))).
Local Notation crash_dir cut k := (fold_left apply_event (crash_events evs cut k) fs0).

(* C03_process_crash, read on the specification: the recovered state is the SPECIFICATION state
   after a prefix of the calls *)
Lemma crash_spec cut k pol hint :
  exists m st_r,
    (m <= length h)%nat /\ open P (crash_dir cut k) None pol hint = OpenOk st_r /\
    qs_inv (s_qs st_r) /\
    (forall q, s_get (absq st_r) q = s_get (absq (stN st0 h m)) q) /\
    (forall q, s_get (absq st_r) q = s_get (fst (s_run (absq st0) (firstn m (sops h)))) q).
Proof.
  destruct (HA C03_process_crash st0 G0 HI0 Hp0 h Hwf Hb Hcb evs Hevs cut k pol hint)
    as (m & st_r & Hm & Ho & Hq).
  exists m, st_r. split; [exact Hm|]. split; [exact Ho|]. split; [exact (open_inv P _ _ _ _ _ Ho)|].
  split; [exact Hq|]. intros q. now rewrite (run_spec_prefix h st0 G0 m HI0 Hwf Hb).
Qed.

(* (B) Whatever the policy and wherever the process crashes in h, recovery gives every queue the
   next position (hence the last position) the specification gives it after a prefix of the
   calls; if no call of h successfully deletes q, that is never below the next position q had at
   the persist point, and q is still there if it was there. *)
Theorem crash_next_positions cut k pol hint :
  exists m st_r,
    (m <= length h)%nat /\ open P (crash_dir cut k) None pol hint = OpenOk st_r /\
    (forall q, log_next st_r q = next_or0 (s_get (fst (s_run (absq st0) (firstn m (sops h)))) q) /\
               log_last_position st_r q =
                 s_last_position (fst (s_run (absq st0) (firstn m (sops h)))) q) /\
    (forall q, log_next st_r q = log_next (stN st0 h m) q /\
               log_last_position st_r q = log_last_position (stN st0 h m) q) /\
    (forall q, log_never_deleted q h (snd (run P st0 h)) ->
               log_next st0 q <= log_next st_r q /\
               (qs_get (s_qs st0) q <> None -> qs_get (s_qs st_r) q <> None)).
Proof.
  destruct (crash_spec cut k pol hint) as (m & st_r & Hm & Ho & Hi & Hq & Hs).
  exists m, st_r. split; [exact Hm|]. split; [exact Ho|].
  assert (Hn : forall q, log_next st_r q = log_next (stN st0 h m) q).
  { intros q. now rewrite <- !log_next_abs, Hq. }
  split; [|split].
  - intros q. destruct (reads_of_spec st_r _ q Hi (Hs q)) as (_ & H2 & _ & H4). auto.
  - intros q. split; [exact (Hn q)|].
    rewrite !log_last_position_refines. unfold s_last_position. now rewrite Hq.
  - intros q Hnd. destruct (log_next_prefix h st0 G0 q m HI0 Hwf Hb Hnd) as (H1 & H2).
    rewrite Hn. split; [exact H1|]. intros Hq0. specialize (H2 Hq0).
    pose proof (Hq q) as E. rewrite !abs_get in E.
    destruct (qs_get (s_qs (stN st0 h m)) q); [|now destruct H2].
    destruct (qs_get (s_qs st_r) q); discriminate.
Qed.

(* (B, persisted)  If call number i left nothing buffered and the crash happens after it returned,
   the recovered state is that of a prefix of length m >= i, and every queue that is not deleted
   by the calls after i recovers a next position at or above the one it had after call i. *)
Theorem crash_next_after_persist i evs_i :
  (i <= length h)%nat ->
  let st_i := stN st0 h i in
  w_pending (s_wr st_i) = [] ->
  c_ev (w_ctx (s_wr st_i)) = rev evs_i ++ c_ev (w_ctx (s_wr st0)) ->
  forall cut k pol hint, lenN evs_i <= cut ->
  exists m st_r,
    (i <= m)%nat /\ (m <= length h)%nat /\
    open P (crash_dir cut k) None pol hint = OpenOk st_r /\
    (forall q, log_next st_r q = next_or0 (s_get (fst (s_run (absq st0) (firstn m (sops h)))) q)) /\
    (forall q, log_next st_r q = log_next (stN st0 h m) q) /\
    (forall q, log_never_deleted q (skipn i h) (snd (run P st_i (skipn i h))) ->
               log_next st_i q <= log_next st_r q /\
               (qs_get (s_qs st_i) q <> None -> qs_get (s_qs st_r) q <> None)).
Proof.
  intros Hi st_i Hpi Hevi cut k pol hint Hcut.
  destruct (HA C03_persisted_survives st0 G0 h evs i evs_i HI0 Hp0 Hwf Hb Hcb Hevs Hi Hpi Hevi
              cut k pol hint Hcut) as (m & st_r & Him & Hm & Ho & Hq).
  exists m, st_r. split; [exact Him|]. split; [exact Hm|]. split; [exact Ho|].
  assert (Hn : forall q, log_next st_r q = log_next (stN st0 h m) q).
  { intros q. now rewrite <- !log_next_abs, Hq. }
  split; [intros q; now rewrite Hn, (run_spec_prefix h st0 G0 m HI0 Hwf Hb), log_next_abs|].
  split; [exact Hn|]. intros q Hnd.
  pose proof Hwf as Hwf'. pose proof Hb as Hb'. rewrite <- (firstn_skipn i h) in Hwf', Hb'.
  destruct (run_segment _ _ st0 G0 HI0 Hwf' Hb') as (_ & _ & Gi & HIi & Hwf2 & Hb2).
  fold st_i in HIi, Hwf2, Hb2.
  destruct (log_next_prefix (skipn i h) st_i Gi q (m - i) HIi Hwf2 Hb2 Hnd) as (H1 & H2).
  unfold st_i in H1, H2 at 2. rewrite <- (stN_skip st0 h i m Him Hi) in H1, H2. fold st_i in H1.
  rewrite Hn. split; [exact H1|]. intros Hq0. specialize (H2 Hq0).
  pose proof (Hq q) as E. rewrite !abs_get in E.
  destruct (qs_get (s_qs (stN st0 h m)) q); [|now destruct H2].
  destruct (qs_get (s_qs st_r) q); discriminate.
Qed.

(* ====================================================================== *)
(* C. C18, crash half                                                     *)
(* ====================================================================== *)

(* (C) After recovery from a crash anywhere in h, under any policy, what a queue q holds — and so
   what range / last_position / last_record answer for q — is what the SPECIFICATION gives q when
   it runs only the calls addressed to q among the first m calls, from any map that agrees with
   the persist point on q.  The calls to the other queues, including those whose truncations and
   deletions made the garbage collector delete files before the crash, have no influence. *)
Theorem crash_projection cut k pol hint :
  exists m st_r,
    (m <= length h)%nat /\ open P (crash_dir cut k) None pol hint = OpenOk st_r /\
    forall q m0, s_get m0 q = s_get (absq st0) q ->
      let mq := fst (s_run m0 (filter (addressed q) (firstn m (sops h)))) in
      s_get (absq st_r) q = s_get mq q /\
      (forall lo hi, log_range st_r q lo hi = s_range mq q lo hi) /\
      log_last_position st_r q = s_last_position mq q /\
      log_last_record st_r q = s_last_record mq q /\
      log_next st_r q = next_or0 (s_get mq q).
Proof.
  destruct (crash_spec cut k pol hint) as (m & st_r & Hm & Ho & Hi & _ & Hs).
  exists m, st_r. split; [exact Hm|]. split; [exact Ho|]. intros q m0 H0 mq.
  assert (Hg : s_get (absq st_r) q = s_get mq q).
  { rewrite Hs. exact (proj1 (s_run_projection (firstn m (sops h)) (absq st0) m0 q (eq_sym H0))). }
  split; [exact Hg|]. exact (reads_of_spec st_r mq q Hi Hg).
Qed.

(* ====================================================================== *)
(* D1. C12, crash                                                         *)
(* ====================================================================== *)

(* The history contains a batch append: h = h1 ++ (append_records(q, pos, pl)) :: h2, which
   answered Ok(Some last).  The batch is s_number b pl with b = last + 1 - |pl|.  In the state
   after ANY prefix m of h:
   - if the prefix stops before the append (m <= |h1|): q holds NO record of the batch (no record
     with one of its positions), provided q is not deleted between that prefix and the append;
   - if the prefix contains the append: what q holds of the batch is a SUFFIX of the batch — all
     of it, or all of it above the highest later truncation point, possibly nothing — provided q
     is not deleted between the append and the end of the prefix.
   Never a hole, never a missing tail. *)
Definition batch_at (h1 : list (op * bool)) (q : bytes) (pl : list bytes) (h2 : list (op * bool))
           (st2 : state) (last : N) (m : nat) (v : option squeue) : Prop :=
  let b := last + 1 - lenN pl in
  ((m <= length h1)%nat /\
   (log_never_deleted q (skipn m h1) (snd (run P (stN st0 h1 m) (skipn m h1))) ->
    forall recs next, v = Some (recs, next) ->
      next <= b /\ filter (in_span b (last + 1)) recs = [])) \/
  ((length h1 < m)%nat /\
   let k2 := (m - S (length h1))%nat in
   (log_never_deleted q (firstn k2 h2) (snd (run P st2 (firstn k2 h2))) ->
    exists recs next j,
      v = Some (recs, next) /\ last < next /\
      filter (in_span b (last + 1)) recs = skipn j (s_number b pl))).

Lemma batch_at_prefix h1 q pos pl t h2 last nb :
  h = h1 ++ (OAppend q pos pl, t) :: h2 ->
  let st1 := fst (run P st0 h1) in
  snd (step P st1 (OAppend q pos pl) t) = OutAppend (Some last) nb ->
  let st2 := fst (step P st1 (OAppend q pos pl) t) in
  forall m, (m <= length h)%nat ->
    batch_at h1 q pl h2 st2 last m (s_get (absq (stN st0 h m)) q).
Proof.
  intros Eh st1 Hout st2 m Hm. unfold batch_at. cbn zeta. set (b := last + 1 - lenN pl).
  (* the three segments of the history *)
  pose proof Hwf as Hwf'. pose proof Hb as Hb'. rewrite Eh in Hwf', Hb'.
  destruct (run_segment h1 _ st0 G0 HI0 Hwf' Hb') as (Hwf1 & Hb1 & G1 & HI1 & HwfR & HbR).
  fold st1 in HI1, HwfR, HbR.
  change ((OAppend q pos pl, t) :: h2) with ([(OAppend q pos pl, t)] ++ h2) in HwfR, HbR.
  destruct (run_segment _ h2 st1 G1 HI1 HwfR HbR) as (_ & _ & G2 & HI2 & Hwf2 & Hb2).
  assert (Est2 : fst (run P st1 [(OAppend q pos pl, t)]) = st2).
  { cbn [run]. unfold st2. now destruct (step P st1 (OAppend q pos pl) t). }
  rewrite Est2 in HI2, Hwf2, Hb2.
  (* the append, on the specification *)
  pose proof (run_spec_fst h1 st0 G0 HI0 Hwf1 Hb1) as E1. fold st1 in E1.
  pose proof (step_refines P st1 (OAppend q pos pl) t (Inv_qs_inv P _ _ HI1)) as R.
  destruct (step P st1 (OAppend q pos pl) t) as [sx ox] eqn:Es. cbn [fst snd] in Hout, st2.
  subst ox. destruct R as (_ & R). specialize (R _ eq_refl). cbn [sop_of] in R. fold st2 in R.
  pose proof (abs_s_inv _ (Inv_qs_inv P _ _ HI0)) as Hinv0.
  assert (Hsops : sops h = sops h1 ++ SAppend q pos pl :: sops h2).
  { rewrite Eh, sops_app. reflexivity. }
  assert (Hlen : length (sops h) = length h) by apply map_length.
  assert (Hlen1 : length (sops h1) = length h1) by apply map_length.
  pose proof (batch_all_or_nothing_spec (absq st0) (sops h1) q pos pl (sops h2) last Hinv0) as A.
  cbn zeta in A. rewrite E1, R in A. cbn [fst snd] in A. specialize (A eq_refl m).
  rewrite <- Hsops, Hlen, Hlen1 in A. specialize (A Hm).
  rewrite (run_spec_prefix h st0 G0 m HI0 Hwf Hb) in A. fold b in A.
  destruct A as [(Hle & A)|(Hgt & _ & A)]; [left|right]; (split; [exact Hle || exact Hgt|]).
  - intros Hnd recs next Hg.
    assert (Ek : stN st0 h1 m = stN st0 h m).
    { rewrite Eh. symmetry. apply (HN stN_app_le). exact Hle. }
    pose proof Hwf1 as Hwf1'. pose proof Hb1 as Hb1'. rewrite <- (firstn_skipn m h1) in Hwf1', Hb1'.
    destruct (run_segment _ _ st0 G0 HI0 Hwf1' Hb1') as (_ & _ & Gm & HIm & Hwfm & Hbm).
    pose proof (run_never_deleted _ _ Gm q HIm Hwfm Hbm Hnd) as Hnd'.
    rewrite Ek in Hnd'.
    unfold sops in Hnd' at 1 2. rewrite <- skipn_map in Hnd'. fold (sops h1) in Hnd'.
    exact (A Hnd' recs next Hg).
  - cbn zeta. intros Hnd.
    pose proof Hwf2 as Hwf2'. pose proof Hb2 as Hb2'.
    rewrite <- (firstn_skipn (m - S (length h1)) h2) in Hwf2', Hb2'.
    destruct (run_segment _ _ st2 G2 HI2 Hwf2' Hb2') as (Hwfk & Hbk & _).
    pose proof (run_never_deleted _ _ G2 q HI2 Hwfk Hbk Hnd) as Hnd'.
    rewrite <- sops_firstn in Hnd'.
    exact (A Hnd').
Qed.

(* (D1) Wherever the process crashes in h, under any policy, the recovered state is that of a
   prefix of h: the batch is recovered as nothing (prefix before the append), or as a suffix of
   itself (prefix containing the append). *)
Theorem batch_crash h1 q pos pl t h2 last nb :
  h = h1 ++ (OAppend q pos pl, t) :: h2 ->
  let st1 := fst (run P st0 h1) in
  snd (step P st1 (OAppend q pos pl) t) = OutAppend (Some last) nb ->
  let st2 := fst (step P st1 (OAppend q pos pl) t) in
  forall cut k pol hint,
  exists m st_r,
    (m <= length h)%nat /\ open P (crash_dir cut k) None pol hint = OpenOk st_r /\
    (forall q', s_get (absq st_r) q' = s_get (absq (stN st0 h m)) q') /\
    batch_at h1 q pl h2 st2 last m (s_get (absq st_r) q).
Proof.
  intros Eh st1 Hout st2 cut k pol hint.
  destruct (crash_spec cut k pol hint) as (m & st_r & Hm & Ho & _ & Hq & _).
  exists m, st_r. split; [exact Hm|]. split; [exact Ho|]. split; [exact Hq|].
  rewrite Hq. exact (batch_at_prefix h1 q pos pl t h2 last nb Eh Hout m Hm).
Qed.

(* (D1, persisted)  If the batch append left nothing buffered (e.g. policy Always) and the process
   crashes after it returned, the batch is never recovered as "nothing because too early": the
   recovered prefix contains the append, and q holds a suffix of the batch as long as q is not
   deleted by the later calls of that prefix. *)
Theorem batch_crash_persisted h1 q pos pl t h2 last nb evs_i :
  h = h1 ++ (OAppend q pos pl, t) :: h2 ->
  let st1 := fst (run P st0 h1) in
  snd (step P st1 (OAppend q pos pl) t) = OutAppend (Some last) nb ->
  let st2 := fst (step P st1 (OAppend q pos pl) t) in
  let b := last + 1 - lenN pl in
  w_pending (s_wr st2) = [] ->
  c_ev (w_ctx (s_wr st2)) = rev evs_i ++ c_ev (w_ctx (s_wr st0)) ->
  forall cut k pol hint, lenN evs_i <= cut ->
  exists m st_r,
    (length h1 < m)%nat /\ (m <= length h)%nat /\
    open P (crash_dir cut k) None pol hint = OpenOk st_r /\
    let k2 := (m - S (length h1))%nat in
    (log_never_deleted q (firstn k2 h2) (snd (run P st2 (firstn k2 h2))) ->
     exists recs next j,
       s_get (absq st_r) q = Some (recs, next) /\ last < next /\
       filter (in_span b (last + 1)) recs = skipn j (s_number b pl)).
Proof.
  intros Eh st1 Hout st2 b Hp2 Hev2 cut k pol hint Hcut.
  assert (Hi : (S (length h1) <= length h)%nat).
  { rewrite Eh, app_length. cbn [length]. lia. }
  assert (Esti : stN st0 h (S (length h1)) = st2).
  { rewrite Eh. replace (S (length h1)) with (length h1 + 1)%nat by lia.
    rewrite (HN stN_app_ge). cbn [firstn run]. unfold st2, st1.
    now destruct (step P (fst (run P st0 h1)) (OAppend q pos pl) t). }
  destruct (HA C03_persisted_survives st0 G0 h evs (S (length h1)) evs_i HI0 Hp0 Hwf Hb Hcb Hevs Hi)
    with (cut := cut) (k := k) (pol := pol) (hint := hint) as (m & st_r & Him & Hm & Ho & Hq);
    try (rewrite Esti; assumption); [exact Hcut|].
  exists m, st_r. split; [lia|]. split; [exact Hm|]. split; [exact Ho|].
  pose proof (batch_at_prefix h1 q pos pl t h2 last nb Eh Hout m Hm) as A.
  rewrite <- Hq in A. destruct A as [(Hle & _)|(_ & A)]; [lia|]. exact A.
Qed.

End Setting.

(* ====================================================================== *)
(* the flush-per-operation policy: crash during the call that follows a   *)
(* history of calls and clean restarts from a fresh directory             *)
(* ====================================================================== *)

Section Always.
Variables (a : bool) (st0 : state) (h : list hop) (st : state) (outs : list outcome).
Variables (o : op) (tick : bool) (st' : state) (out : outcome).
Hypothesis Hopen : open P [] None (PAlways a) [] = OpenOk st0.
Hypothesis Hrun : hrun P st0 h = Some (st, outs).
Hypothesis Hok : hist_ok P st0 h.
Hypothesis Hal : always_hist a h.
Hypothesis Hop : op_wf_strict (s_qs st) o.
Hypothesis Hcb1 : crash_phys_bound P (s_wr st) (map snd (step_log P st o)) (absq st).
Hypothesis Hcb2 : crash_phys_bound P (s_wr st) (map snd (step_log P st o)) (absq st').
Hypothesis Hstep : step P st o tick = (st', out).

Local Notation calls := (map sop_of (hcalls h)).
Local Notation m_before := (fst (s_run [] calls)).
Local Notation m_after := (fst (s_run [] (calls ++ [sop_of o]))).

(* C02_history with the links it leaves implicit: the outcomes are the specification's, and the
   two candidate states are the abstractions of the states before and after the call *)
Lemma always_crash_spec :
  exists souts so evs,
    map out_logical outs = map Some souts /\ out_logical out = Some so /\
    snd (s_run [] calls) = souts /\ snd (s_step m_before (sop_of o)) = so /\
    (forall q, s_get m_before q = s_get (absq st) q) /\
    (forall q, s_get m_after q = s_get (absq st') q) /\
    c_ev (w_ctx (s_wr st')) = rev evs ++ c_ev (w_ctx (s_wr st)) /\
    forall cut k pol hint,
      exists st_r,
        open P (fold_left apply_event (crash_events evs cut k) (c_fs (w_ctx (s_wr st)))) None pol hint
          = OpenOk st_r /\ qs_inv (s_qs st_r) /\
        ((forall q, s_get (absq st_r) q = s_get m_before q) \/
         (forall q, s_get (absq st_r) q = s_get m_after q)).
Proof.
  destruct (HA C02_history a st0 h st outs o tick st' out Hopen Hrun Hok Hal Hop Hcb1 Hcb2 Hstep)
    as (mb & souts & ma & so & evs & Erun & Estep & Eso & Hev & Hall).
  pose proof (inv_fresh P HBS_lo HBS_hi HNB (PAlways a) st0 Hopen) as HI0.
  destruct (hrun_inv P HBS_lo HBS_hi HNB Hcrc HGC HIO h st0 gh_fresh HI0 Hok)
    as (st1 & outs1 & G & Er & HI & _ & _ & Hspec).
  rewrite Hrun in Er. injection Er as <- <-.
  destruct (Hspec [] ) as (m' & souts' & Erun' & Hm' & Hl).
  { destruct (FileStream.open_fresh P HBS_lo HBS_hi HNB (PAlways a)) as (c & _ & Eo).
    rewrite Eo in Hopen. injection Hopen as <-. reflexivity. }
  rewrite Erun in Erun'. injection Erun' as <- <-.
  assert (Eb : m_before = mb) by now rewrite Erun.
  assert (Ea : m_after = ma).
  { rewrite s_run_fst_app, Eb. cbn [s_run]. rewrite Estep. reflexivity. }
  pose proof (step_refines P st o tick (Inv_qs_inv P st G HI)) as Href.
  rewrite Hstep in Href. destruct Href as (_ & Href). specialize (Href so Eso).
  destruct (s_step_ext mb (absq st) (sop_of o) Hm') as (_ & Hs2).
  rewrite Href, Estep in Hs2. cbn [fst] in Hs2.
  exists souts, so, evs. rewrite Ea, Eb, Erun, Estep. cbn [fst snd].
  repeat (split; [assumption || reflexivity|]).
  intros cut k pol hint. destruct (Hall cut k pol hint) as (st_r & Ho & Hc).
  exists st_r. split; [exact Ho|]. split; [exact (open_inv P _ _ _ _ _ Ho)|exact Hc].
Qed.

(* (B, Always)  The recovered next / last positions of every queue are those of the state before
   the in-flight call or those of the state after it; unless that call is a successful delete of
   q, the next position of q is at or above what it was before the call. *)
Theorem crash_next_always :
  exists evs,
    c_ev (w_ctx (s_wr st')) = rev evs ++ c_ev (w_ctx (s_wr st)) /\
    forall cut k pol hint,
      exists st_r,
        open P (fold_left apply_event (crash_events evs cut k) (c_fs (w_ctx (s_wr st)))) None pol hint
          = OpenOk st_r /\
        ((forall q, log_next st_r q = log_next st q /\
                    log_last_position st_r q = log_last_position st q) \/
         (forall q, log_next st_r q = log_next st' q /\
                    log_last_position st_r q = log_last_position st' q)) /\
        (forall q, l_deleted q (o, tick) out = false -> log_next st q <= log_next st_r q).
Proof.
  destruct always_crash_spec as (souts & so & evs & Hl & Eso & _ & Eso' & Hmb & Hma & Hev & Hall).
  exists evs. split; [exact Hev|]. intros cut k pol hint.
  destruct (Hall cut k pol hint) as (st_r & Ho & Hi & Hc). exists st_r. split; [exact Ho|].
  assert (Hpos : forall s, (forall q, s_get (absq st_r) q = s_get (absq s) q) ->
            forall q, log_next st_r q = log_next s q /\
                      log_last_position st_r q = log_last_position s q).
  { intros s Hs q. destruct (reads_of_spec st_r (absq s) q Hi (Hs q)) as (_ & H2 & _ & H4).
    now rewrite H2, H4, log_next_abs, log_last_position_refines. }
  assert (Hmono : forall q, l_deleted q (o, tick) out = false -> log_next st q <= log_next st' q).
  { intros q Hd. rewrite (l_deleted_logical P q st o tick st' out so Hstep Eso), <- Eso' in Hd.
    destruct (s_step_next m_before (sop_of o) q Hd) as (_ & Hn & _).
    replace (fst (s_step m_before (sop_of o))) with m_after in Hn.
    - now rewrite Hmb, Hma, !log_next_abs in Hn.
    - rewrite s_run_fst_app. cbn [s_run]. now destruct (s_step m_before (sop_of o)). }
  destruct Hc as [Hc|Hc].
  - assert (Hs : forall q, s_get (absq st_r) q = s_get (absq st) q) by (intros q; now rewrite Hc, Hmb).
    split; [left; exact (Hpos st Hs)|]. intros q _. rewrite (proj1 (Hpos st Hs q)). lia.
  - assert (Hs : forall q, s_get (absq st_r) q = s_get (absq st') q) by (intros q; now rewrite Hc, Hma).
    split; [right; exact (Hpos st' Hs)|]. intros q Hd. rewrite (proj1 (Hpos st' Hs q)).
    exact (Hmono q Hd).
Qed.

(* (C, Always)  What q recovers to is what the specification gives q when it runs only the calls
   addressed to q, among the completed calls or among those plus the in-flight call. *)
Theorem crash_projection_always :
  exists evs,
    c_ev (w_ctx (s_wr st')) = rev evs ++ c_ev (w_ctx (s_wr st)) /\
    forall cut k pol hint,
      exists st_r calls_r,
        open P (fold_left apply_event (crash_events evs cut k) (c_fs (w_ctx (s_wr st)))) None pol hint
          = OpenOk st_r /\
        (calls_r = calls \/ calls_r = calls ++ [sop_of o]) /\
        forall q,
          let mq := fst (s_run [] (filter (addressed q) calls_r)) in
          s_get (absq st_r) q = s_get mq q /\
          (forall lo hi, log_range st_r q lo hi = s_range mq q lo hi) /\
          log_last_position st_r q = s_last_position mq q /\
          log_last_record st_r q = s_last_record mq q /\
          log_next st_r q = next_or0 (s_get mq q).
Proof.
  destruct always_crash_spec as (souts & so & evs & _ & _ & _ & _ & _ & _ & Hev & Hall).
  exists evs. split; [exact Hev|]. intros cut k pol hint.
  destruct (Hall cut k pol hint) as (st_r & Ho & Hi & Hc).
  assert (Hp : forall cs, (forall q, s_get (absq st_r) q = s_get (fst (s_run [] cs)) q) ->
            forall q, let mq := fst (s_run [] (filter (addressed q) cs)) in
              s_get (absq st_r) q = s_get mq q /\
              (forall lo hi, log_range st_r q lo hi = s_range mq q lo hi) /\
              log_last_position st_r q = s_last_position mq q /\
              log_last_record st_r q = s_last_record mq q /\
              log_next st_r q = next_or0 (s_get mq q)).
  { intros cs Hs q mq.
    assert (Hg : s_get (absq st_r) q = s_get mq q).
    { rewrite Hs. exact (proj1 (s_run_projection cs [] [] q eq_refl)). }
    split; [exact Hg|]. exact (reads_of_spec st_r mq q Hi Hg). }
  destruct Hc as [Hc|Hc]; exists st_r; eexists; (split; [exact Ho|]).
  - split; [left; reflexivity|]. exact (Hp _ Hc).
  - split; [right; reflexivity|]. exact (Hp _ Hc).
Qed.

(* (D1, Always)  The history contains a batch append to q that answered Ok(Some last), and q is
   never deleted in h.  After a crash during the next call, q recovers a suffix of the batch —
   or is absent because the in-flight call is a successful delete of q that took effect. *)
Theorem batch_crash_always c1 q pos pl c2 last nb :
  hcalls h = c1 ++ OAppend q pos pl :: c2 ->
  nth_error outs (length c1) = Some (OutAppend (Some last) nb) ->
  log_never_deleted q (hcalls_t h) outs ->
  let b := last + 1 - lenN pl in
  exists evs,
    c_ev (w_ctx (s_wr st')) = rev evs ++ c_ev (w_ctx (s_wr st)) /\
    forall cut k pol hint,
      exists st_r,
        open P (fold_left apply_event (crash_events evs cut k) (c_fs (w_ctx (s_wr st)))) None pol hint
          = OpenOk st_r /\
        ((l_deleted q (o, tick) out = true /\ s_get (absq st_r) q = None) \/
         exists recs next j,
           s_get (absq st_r) q = Some (recs, next) /\ last < next /\
           filter (in_span b (last + 1)) recs = skipn j (s_number b pl)).
Proof.
  intros Ec Hnth Hnd b.
  destruct always_crash_spec as (souts & so & evs & Hl & Eso & Esouts & Eso' & Hmb & Hma & Hev & Hall).
  exists evs. split; [exact Hev|]. intros cut k pol hint.
  destruct (Hall cut k pol hint) as (st_r & Ho & Hi & Hc). exists st_r. split; [exact Ho|].
  (* the calls, split at the append *)
  set (s1 := map sop_of c1). set (s2 := map sop_of c2).
  assert (Ecalls : calls = s1 ++ SAppend q pos pl :: s2).
  { rewrite Ec, map_app. reflexivity. }
  assert (Hl1 : length s1 = length c1) by apply map_length.
  set (m1 := fst (s_run [] s1)).
  assert (Hout : snd (s_step m1 (SAppend q pos pl)) = SAppended (Some last)).
  { pose proof (s_run_nth_out [] s1 (SAppend q pos pl) s2) as E.
    rewrite <- Ecalls, Esouts, Hl1 in E.
    pose proof (f_equal (fun l => nth_error l (length c1)) Hl) as E2. cbn beta in E2.
    rewrite !nth_error_map, Hnth, E in E2. cbn [option_map out_logical] in E2.
    fold m1 in E2. congruence. }
  set (m2 := fst (s_step m1 (SAppend q pos pl))).
  assert (Eb : m_before = fst (s_run m2 s2)).
  { rewrite Ecalls, s_run_fst_app. fold m1. now rewrite s_run_cons. }
  (* q is not deleted after the append *)
  apply (proj2 (hrun_observations P q h st0 st outs souts Hrun Hl)) in Hnd.
  rewrite <- Esouts, Ecalls in Hnd. apply never_deleted_app in Hnd as (_ & Hnd). fold m1 in Hnd.
  rewrite s_run_cons in Hnd. cbn [snd] in Hnd. apply never_deleted_cons in Hnd as (_ & Hnd).
  fold m2 in Hnd.
  pose proof (s_run_inv s1 [] s_inv_nil) as Hinv1. fold m1 in Hinv1.
  pose proof (batch_later m1 q pos pl last (s2 ++ [sop_of o]) Hinv1 Hout) as A.
  cbn zeta in A. fold b m2 in A.
  assert (Hbefore : exists recs next j, s_get m_before q = Some (recs, next) /\ last < next /\
                      filter (in_span b (last + 1)) recs = skipn j (s_number b pl)).
  { specialize (A (length s2)). rewrite firstn_app, firstn_all, Nat.sub_diag in A.
    cbn [firstn] in A. rewrite app_nil_r in A.
    destruct (A Hnd) as (recs & next & Hg & Hn & _ & (j & Hj)).
    exists recs, next, j. rewrite Eb. auto. }
  destruct Hc as [Hc|Hc].
  - right. rewrite Hc. exact Hbefore.
  - pose proof (l_deleted_logical P q st o tick st' out so Hstep Eso) as Ed. rewrite <- Eso' in Ed.
    assert (Ea : m_after = fst (s_run m2 (s2 ++ [sop_of o]))).
    { rewrite Ecalls, <- app_assoc, s_run_fst_app. fold m1. cbn [app]. now rewrite s_run_cons. }
    destruct (s_deleted q (sop_of o) (snd (s_step m_before (sop_of o)))) eqn:Hd.
    + left. split; [exact Ed|]. rewrite Hc, s_run_fst_app. cbn [s_run].
      destruct (sop_of o) as [q'|q'|q' pos' pl'|q' p'|]; try discriminate Hd.
      cbn [s_deleted s_step] in Hd |- *.
      destruct (s_get m_before q') eqn:Eg; cbn [snd] in Hd; [|discriminate Hd].
      apply bytes_eqb_eq in Hd. subst q'. cbn [fst]. apply s_get_remove_same.
    + right. specialize (A (S (length s2))).
      rewrite firstn_all2 in A by (rewrite app_length; cbn [length]; lia).
      destruct A as (recs & next & Hg & Hn & _ & (j & Hj)).
      { apply never_deleted_app. split; [exact Hnd|]. rewrite <- Eb.
        unfold never_deleted. cbn [s_run]. destruct (s_step m_before (sop_of o)) as [mx ox].
        cbn [snd combine forallb fst] in Hd |- *. now rewrite Hd. }
      exists recs, next, j. rewrite Hc, Ea. auto.
Qed.

End Always.
End Crash.

Print Assumptions crash_next_positions.
Print Assumptions crash_next_after_persist.
Print Assumptions crash_next_always.
Print Assumptions crash_projection.
Print Assumptions crash_projection_always.
Print Assumptions batch_crash.
Print Assumptions batch_crash_persisted.
Print Assumptions batch_crash_always.

(* ====================================================================== *)
(* D2. C12, damage                                                        *)
(* ====================================================================== *)

(* ---------- logic: where the records of the damaged replay come from ---------- *)
(* The replay of the kept log E1s ++ E2 (the entry x between them lost), read from any files:
   every record of every queue of the result was appended by an entry of the full log
   pre ++ E1s ++ x :: E2 OTHER than the lost one (index |pre| + |E1s|). *)
Lemma dmg_replay_origin (pre E1s E2 : list entry) (x : entry) (tags : list N) qD :
  legal_log [] 0 (pre ++ E1s ++ x :: E2) ->
  length tags = length (E1s ++ E2) ->
  replay_entries [] (combine tags (E1s ++ E2)) = Some qD ->
  forall q m rec, qs_get qD q = Some m -> In rec (records_of (q_buf m) (q_metas m)) ->
    exists idx pos recs,
      idx <> (length pre + length E1s)%nat /\
      nth_error (pre ++ E1s ++ x :: E2) idx = Some (EAppend q pos recs) /\ In rec recs.
Proof.
  intros Hleg Hlen Hrep q m rec Eq Hin.
  destruct (damaged_suffix_replay pre E1s E2 x Hleg) as (F & Dd & _ & HD & _).
  set (k := length pre) in *.
  (* the model's replay is the untagging of the tagged one *)
  set (f := combine tags (E1s ++ E2)) in *.
  assert (Ef : map snd f = E1s ++ E2) by (apply map_snd_combine'; exact Hlen).
  set (f1 := firstn (length E1s) f). set (f2 := skipn (length E1s) f).
  assert (E1 : map snd f1 = E1s).
  { unfold f1. rewrite <- firstn_map, Ef, firstn_app, firstn_all, Nat.sub_diag. cbn [firstn].
    apply app_nil_r. }
  assert (E2' : map snd f2 = E2).
  { unfold f2. rewrite <- skipn_map, Ef, skipn_app, skipn_all, Nat.sub_diag. reflexivity. }
  destruct (replay_dmg_refines k f1 f2 Dd) as (qD' & EqD & HuD & _).
  { rewrite E1, E2'. exact HD. }
  unfold f1, f2 in EqD. rewrite firstn_skipn, Hrep in EqD. injection EqD as <-.
  pose proof (untag_abs_get Dd qD q HuD) as Hu. rewrite Eq in Hu.
  destruct (t_get Dd q) as [[rd nd]|] eqn:Et; [|contradiction].
  unfold untag_q, abs_q in Hu. cbn [fst snd] in Hu. injection Hu as Hr _.
  rewrite <- Hr in Hin. apply in_map_iff in Hin. destruct Hin as (r & <- & Hin).
  (* the origin of r in the two stages of the tagged replay *)
  unfold t_replay_dmg in HD. destruct (t_replay [] k E1s) as [M|] eqn:EM; [|discriminate].
  destruct (t_replay_origin q r _ _ _ _ _ _ HD Et Hin)
    as [(rf & n & EqM & HinM)|(j & pos & recs & Ej & En & Hr')].
  - destruct (t_replay_origin q r _ _ _ _ _ _ EM EqM HinM)
      as [(rf0 & n0 & E0 & _)|(j & pos & recs & Ej & En & Hr')]; [discriminate|].
    assert (Hj : (j < length E1s)%nat) by (apply nth_error_Some; congruence).
    exists (k + j)%nat, pos, recs. split; [lia|]. split; [|exact Hr'].
    rewrite nth_error_app2 by (unfold k; lia). replace (k + j - length pre)%nat with j by (unfold k; lia).
    now rewrite nth_error_app1.
  - exists (S (k + length E1s) + j)%nat, pos, recs. split; [lia|]. split; [|exact Hr'].
    rewrite nth_error_app2 by (unfold k; lia).
    replace (S (k + length E1s) + j - length pre)%nat with (length E1s + S j)%nat by (unfold k; lia).
    rewrite nth_error_app2 by lia.
    replace (length E1s + S j - length E1s)%nat with (S j) by lia. exact En.
Qed.

Section Damage.
Variable P : params.
Hypothesis HBS_lo : 7 < BS P.
Hypothesis HBS_hi : BS P <= 65542.
Hypothesis HNB : 1 <= NB P.
Hypothesis Hcrc : forall t p, crcf P t p < 2 ^ 32.
Hypothesis HGC : L_GC P = false.
Hypothesis HIO : L_IO P = false.

Local Notation B := (BS P).
Local Notation FB := (FILE_BYTES P).
Local Notation ffp := (first_frame_pos P).
Local Notation encs_of := (encs_of P).
Local Notation cursor_after := (cursor_after P).
Local Notation H3 f := (f P HBS_lo HBS_hi Hcrc) (only parsing).
Local Notation HW f := (f P HBS_lo HBS_hi HNB Hcrc) (only parsing).
Local Notation HN f := (f P HBS_lo HBS_hi HNB) (only parsing).
Local Notation HF f := (f P HBS_lo HBS_hi HNB Hcrc HGC HIO) (only parsing).
Local Notation PInv := (PInv P).
Local Notation Inv := (Inv P).
Local Notation wpos := (wpos P).
Local Notation MAXB := (FB * (U64_MAX + 1)).
Local Notation damaged_dir := (damaged_dir P).
Local Notation dmg_bound := (dmg_bound P).

(* ---------- an invariant of DamageAtomic.C09_damage_tagged that its statement does not export:
   the state open recovers from the damaged directory IS the replay of the kept log without X.
   (The proof is that of C09_damage_tagged, stopped at the replay.) ---------- *)
Theorem C09_damage_is_replay st G i X ex ed k fs_d :
  Inv st G -> damaged_dir st G i X ex ed k fs_d -> dmg_bound st G ->
  forall pol hint, exists st_r tags,
    open P fs_d None pol hint = OpenOk st_r /\
    length tags = length (map snd (firstn i (gh_E G)) ++ dmg_E2 G i) /\
    replay_entries [] (combine tags (map snd (firstn i (gh_E G)) ++ dmg_E2 G i)) = Some (s_qs st_r).
Proof.
  intros HI ((fX & HX) & Hdmg & Hsh & HSt) Hbound pol hint. cbn zeta in *.
  pose proof HI as (HP & HL).
  set (w := s_wr st) in *.
  pose proof HP as (Hw & Hwd & Hnd & Hbase & Hc1 & Hc2 & Hs & HWf & _). cbn zeta in *.
  destruct (HN winv_files w Hw) as (n & Hfiles & Hfile).
  pose proof Hw as (Hok & _ & Hoff & _ & _ & Hfull & _).
  assert (Hnf : lenN (w_files w) = N.of_nat n + 1) by (rewrite Hfiles, lenN_iota; lia).
  assert (Hwpos : wpos w = N.of_nat n * FB + w_off w).
  { unfold FileStream.wpos. rewrite Hnf. f_equal. f_equal. lia. }
  set (lo := wlo w) in *. set (base := gh_base G) in *. set (dl := lo - base) in *.
  set (T := gh_T P G) in *.
  set (t1 := dmg_t1 P G i) in *. set (t2 := dmg_t2 P G i ex) in *.
  set (E1 := dmg_E1 G i). set (E2 := dmg_E2 G i).
  set (z := (dl + lenN (w_files w)) * FB - lenN T) in *.
  pose proof (dmg_ALL G i X fX HX) as HALL. fold E1 E2 in HALL.
  pose proof (dmg_T P HBS_lo HBS_hi Hcrc G i X fX HX ex ed k Hdmg) as HT. fold T t1 t2 in HT.
  pose proof (dmg_delivered P HBS_lo HBS_hi HNB Hcrc st G i X fX HI HX) as Hb. fold w lo base dl t1 in Hb.
  pose proof (H3 enc_dmg_len _ _ _ _ _ _ Hdmg) as Hled.
  assert (HlenT : lenN (t1 ++ ed ++ t2) = lenN T).
  { rewrite HT, !lenN_app, Hled. reflexivity. }
  assert (Hfull' : forall f, In f (iota lo (S n)) ->
            exists b, fs_get fs_d (filename f) = Some (FFile b) /\ lenN b = FB).
  { rewrite <- Hfiles. intros f Hf. destruct (Hfull f Hf) as (b & Hg & Hlb).
    destruct (same_shape_file _ _ _ _ Hsh Hg) as (b' & Hg' & Hlb'). exists b'. split; [exact Hg'|lia]. }
  assert (Hlist : list_wal_numbers fs_d = iota lo (S n)).
  { rewrite (same_shape_listing _ _ Hsh), <- Hfiles. exact (listing_after P w Hw Hwd Hnd). }
  assert (He1 : encs_rel P 0 (map entry_ser E1) t1) by apply (H3 encs_of_rel).
  assert (He2 : encs_rel P (lenN t1 + lenN ex) (map entry_ser E2) t2) by apply (H3 encs_of_rel).
  assert (HSt' : stream_of fs_d (iota lo (S n)) = dropN (dl * FB) ((t1 ++ ed ++ t2) ++ zerosN z)).
  { rewrite <- Hfiles. exact HSt. }
  assert (HlenS : lenN ((t1 ++ ed ++ t2) ++ zerosN z) = (lo + N.of_nat n - base + 1) * FB).
  { rewrite lenN_app, lenN_zerosN, HlenT. unfold z. rewrite Hnf.
    replace (lo + N.of_nat n - base + 1) with (dl + (N.of_nat n + 1)) by lia.
    rewrite Hwpos in Hc1. assert (lenN T <= (dl + (N.of_nat n + 1)) * FB) by lia. lia. }
  assert (HWf' : Forall wf_entry (E1 ++ X :: E2)) by (rewrite <- HALL; exact HWf).
  destruct (open_one_damaged P HBS_lo HBS_hi HNB Hcrc fs_d lo n Hfull' base E1 X E2 t1 ex ed k t2 z
              pol hint HIO Hbase Hlist HWf' He1 Hdmg He2 HSt' HlenS Hb)
    as (w0 & tags & E1p & E1s & HE1 & Hskip & _ & _ & Hspec & Hres).
  fold dl in Hskip, Hspec.
  (* the entries skipped are those before E *)
  destruct (HW PInv_delivered w G HP) as (_ & Eskip). fold lo base dl in Eskip.
  rewrite <- HALL in Hskip. change (map entry_ser (gh_ALL G)) with (gh_ser G) in Hskip.
  rewrite Eskip in Hskip. unfold gh_ser_before in Hskip.
  assert (Hlp : length (gh_before G) = length E1p).
  { apply (f_equal (@length bytes)) in Hskip. rewrite !map_length in Hskip. lia. }
  unfold E1, dmg_E1 in HE1. destruct (app_inv_len _ _ _ _ HE1 Hlp) as [<- <-]. clear Hlp Hskip.
  set (E1s := map snd (firstn i (gh_E G))) in *.
  rewrite <- HT in Hspec.
  (* the logical side *)
  assert (Hlen : length tags = length (E1s ++ E2)).
  { destruct Hspec as (Hl & _). rewrite Hl, !app_length, !(ResyncProofs.starts_length P), !map_length.
    reflexivity. }
  destruct HL as (Hqwf & Hleg & Hrep & F' & EF' & Hcov).
  assert (HALL' : gh_ALL G = gh_before G ++ E1s ++ X :: E2).
  { rewrite HALL. unfold E1, dmg_E1. now rewrite <- app_assoc. }
  rewrite HALL' in Hleg.
  destruct (model_damaged_suffix (gh_before G) E1s E2 X tags Hleg Hlen)
    as (F & qD & EF & EqD & HiD & HndD & Hnames & Hrec).
  rewrite <- HALL' in EF, Hleg.
  rewrite EqD in Hres.
  (* the writer *)
  destruct (dmg_writer P HBS_lo HBS_hi HNB Hcrc w G fs_d w0 tags _ n (t1 ++ ed ++ t2) HP Hfiles Hsh HlenT HSt Hspec)
    as (HPZ & Elo & Hk1 & Hk2).
  fold lo base dl T in Hk1, Hk2.
  (* the recovery-time GC *)
  set (st0 := mkSt w0 qD pol).
  set (names := pick_order hint (empty_names qD)).
  assert (Hb0 : FB * wlo (s_wr st0) +
                cursor_after (wpos (s_wr st0)) (map entry_ser (pos_entries (s_qs st0) names)) <= MAXB).
  { cbn [st0 s_wr s_qs]. destruct HPZ as (Hw0 & _).
    apply (bound_transfer P HBS_lo HBS_hi HNB Hcrc w w0 (lenN T) dl _ Hw Hw0 Elo Hc1 Hc2 Hk1 Hk2).
    apply Hbound.
    - apply pos_entries_nodup. apply NoDup_pick_order. now apply NoDup_empty_names.
    - apply Forall_forall. intros e He.
      destruct (pos_entries_in _ _ _ He) as (q & m & _ & Eq & ->). exists q, (next_position m).
      split; [reflexivity|]. pose proof (Hnames q m Eq) as Hin.
      destruct (nth_error_split _ _ _ HX) as [EE _]. rewrite EE, !map_app. cbn [map].
      unfold E1s, E2, dmg_E2 in Hin. rewrite map_app in Hin.
      apply in_app_or in Hin. apply in_or_app. destruct Hin as [Hin|Hin]; [now left|right; now right]. }
  rewrite Hres. unfold open_finish. fold st0.
  pose proof (run_gc_qs P st0 hint) as Hqs.
  destruct (run_gc_if_necessary P st0 hint) as [st1 r] eqn:Egc. cbn [fst] in Hqs.
  destruct (pz_gc_no_err P HBS_lo HBS_hi HNB Hcrc HGC st0 hint st1 r HPZ Hb0 Egc) as (kk & ->).
  exists st1, tags. split; [reflexivity|]. split; [exact Hlen|]. rewrite Hqs. exact EqD.
Qed.

(* ---------- C09, both directions ---------- *)
(* F = the tagged replay of everything ever written: a record of F carries the index, in
   gh_ALL G, of the entry that appended it; the index of the damaged entry X is gh_k G + i.
   (a) [C09_damage_tagged] every retained record NOT tagged with X's index is recovered;
   (b) every recovered record was appended by an entry of the log OTHER than X: the recovered
       queues contain no record tagged with X's index. *)
Theorem C09_damage_exact st G i X ex ed k fs_d :
  Inv st G -> damaged_dir st G i X ex ed k fs_d -> dmg_bound st G ->
  forall pol hint, exists st_r F,
    open P fs_d None pol hint = OpenOk st_r /\
    t_replay [] 0 (gh_ALL G) = Some F /\
    qs_inv (s_qs st_r) /\
    nth_error (gh_ALL G) (gh_k G + i) = Some X /\
    (forall q rf nf, t_get F q = Some (rf, nf) ->
       forall r, In r rf -> fst r <> (gh_k G + i)%nat ->
         exists m, qs_get (s_qs st_r) q = Some m /\
                   In (snd r) (records_of (q_buf m) (q_metas m))) /\
    (forall q m rec, qs_get (s_qs st_r) q = Some m -> In rec (records_of (q_buf m) (q_metas m)) ->
       exists idx pos recs,
         idx <> (gh_k G + i)%nat /\
         nth_error (gh_ALL G) idx = Some (EAppend q pos recs) /\ In rec recs).
Proof.
  intros HI Hdir Hbound pol hint.
  destruct (HF C09_damage_tagged st G i X ex ed k fs_d HI Hdir Hbound pol hint)
    as (st_r & F & Ho & EF & Hinv & Hpos).
  destruct (C09_damage_is_replay st G i X ex ed k fs_d HI Hdir Hbound pol hint)
    as (st_r' & tags & Ho' & Hlen & Hrep).
  rewrite Ho in Ho'. injection Ho' as <-.
  destruct Hdir as ((fX & HX) & _).
  exists st_r, F. split; [exact Ho|]. split; [exact EF|]. split; [exact Hinv|].
  split; [exact (HN dmg_nth G i X fX HX)|]. split; [exact Hpos|].
  intros q m rec Eq Hin.
  pose proof (dmg_ALL G i X fX HX) as HALL. unfold dmg_E1 in HALL. rewrite <- app_assoc in HALL.
  destruct HI as (_ & (_ & Hleg & _)). rewrite HALL in Hleg.
  destruct (dmg_replay_origin _ _ _ X tags _ Hleg Hlen Hrep q m rec Eq Hin)
    as (idx & pos & recs & Hne & Hn & Hr).
  exists idx, pos, recs. rewrite HALL.
  rewrite gh_before_length, map_length in Hne.
  destruct (nth_error_split _ _ _ HX) as [_ Li]. rewrite Li in Hne. auto.
Qed.

(* ---------- (D2) a batch under frame damage: all or nothing ---------- *)
(* The batch: entry number j of the kept log is the AppendRecords entry EAppend q b recs.  The
   retained records of the batch in st are the records of F's queue q tagged gh_k G + j.

   (other)  The damaged entry is ANOTHER one (i <> j): every retained record of the batch is
   recovered, in q, same position, same payload. *)
Theorem batch_damage_other st G i X ex ed k fs_d j fB q b recs :
  Inv st G -> damaged_dir st G i X ex ed k fs_d -> dmg_bound st G ->
  nth_error (gh_E G) j = Some (fB, EAppend q b recs) -> j <> i ->
  forall pol hint, exists st_r F,
    open P fs_d None pol hint = OpenOk st_r /\
    t_replay [] 0 (gh_ALL G) = Some F /\
    forall rf nf, t_get F q = Some (rf, nf) ->
      forall r, In r rf -> fst r = (gh_k G + j)%nat ->
        In (snd r) recs /\
        exists m, qs_get (s_qs st_r) q = Some m /\
                  In (snd r) (records_of (q_buf m) (q_metas m)).
Proof.
  intros HI Hdir Hbound Hj Hji pol hint.
  destruct (HF C09_damage_tagged st G i X ex ed k fs_d HI Hdir Hbound pol hint)
    as (st_r & F & Ho & EF & _ & Hpos).
  exists st_r, F. split; [exact Ho|]. split; [exact EF|].
  intros rf nf Eq r Hin Ht. split.
  - exact (proj2 (HN tag_appended_by G j _ fB F q rf nf r Hj EF Eq Hin Ht)).
  - apply (Hpos q rf nf Eq r Hin). lia.
Qed.

(* the same without tags: if the damaged entry is not an AppendRecords entry for q holding that
   very record, every record retained in q — in particular all that is retained of any batch
   appended to q — is recovered *)
Theorem batch_damage_other_untagged st G i X ex ed k fs_d q :
  Inv st G -> damaged_dir st G i X ex ed k fs_d -> dmg_bound st G ->
  forall pol hint, exists st_r,
    open P fs_d None pol hint = OpenOk st_r /\
    forall m pos payload,
      qs_get (s_qs st) q = Some m ->
      In (pos, payload) (records_of (q_buf m) (q_metas m)) ->
      ~ appended_by X q (pos, payload) ->
      exists m', qs_get (s_qs st_r) q = Some m' /\
                 In (pos, payload) (records_of (q_buf m') (q_metas m')).
Proof.
  intros HI Hdir Hbound pol hint.
  destruct (HF C09_damage_costs_one_entry st G i X ex ed k fs_d HI Hdir Hbound pol hint)
    as (st_r & Ho & _ & H).
  exists st_r. split; [exact Ho|]. intros m pos payload. apply H.
Qed.

(* (self)  The damaged entry IS the batch's AppendRecords entry (X = EAppend q b recs): every
   retained record of every queue that is not of the batch is recovered, and NO record of the
   batch is: every recovered record was appended by another entry of the log.  In particular, if
   no other entry of the log appended one of these (position, payload) pairs to q, none of them is
   in the recovered q: the batch is lost as a whole, never in part. *)
Theorem batch_damage_self st G i ex ed k fs_d q b recs :
  Inv st G -> damaged_dir st G i (EAppend q b recs) ex ed k fs_d -> dmg_bound st G ->
  forall pol hint, exists st_r F,
    open P fs_d None pol hint = OpenOk st_r /\
    t_replay [] 0 (gh_ALL G) = Some F /\
    (* everything else is recovered *)
    (forall q' rf nf, t_get F q' = Some (rf, nf) ->
       forall r, In r rf -> fst r <> (gh_k G + i)%nat ->
         exists m, qs_get (s_qs st_r) q' = Some m /\
                   In (snd r) (records_of (q_buf m) (q_metas m))) /\
    (* nothing of the batch is *)
    (forall q' m rec, qs_get (s_qs st_r) q' = Some m -> In rec (records_of (q_buf m) (q_metas m)) ->
       exists idx pos recs',
         idx <> (gh_k G + i)%nat /\
         nth_error (gh_ALL G) idx = Some (EAppend q' pos recs') /\ In rec recs') /\
    ((forall idx pos recs', idx <> (gh_k G + i)%nat ->
        nth_error (gh_ALL G) idx = Some (EAppend q pos recs') ->
        forall rec, In rec recs -> ~ In rec recs') ->
     forall m rec, qs_get (s_qs st_r) q = Some m -> In rec recs ->
       ~ In rec (records_of (q_buf m) (q_metas m))).
Proof.
  intros HI Hdir Hbound pol hint.
  destruct (C09_damage_exact st G i _ ex ed k fs_d HI Hdir Hbound pol hint)
    as (st_r & F & Ho & EF & _ & _ & Hpos & Hneg).
  exists st_r, F. split; [exact Ho|]. split; [exact EF|]. split; [exact Hpos|].
  split; [exact Hneg|].
  intros Huniq m rec Eq Hin Hrec.
  destruct (Hneg q m rec Eq Hrec) as (idx & pos & recs' & Hne & Hn & Hr).
  exact (Huniq idx pos recs' Hne Hn rec Hin Hr).
Qed.

End Damage.

Print Assumptions dmg_replay_origin.
Print Assumptions C09_damage_is_replay.
Print Assumptions C09_damage_exact.
Print Assumptions batch_damage_other.
Print Assumptions batch_damage_other_untagged.
Print Assumptions batch_damage_self.
