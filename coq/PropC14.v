(* PropC14.v — C14: the persist policy never changes logical behaviour. seqw = same queues, same tracker/cursor, same directory once buffers are flushed (policies may differ).
   Statements only; each theorem is closed by `exact <lemma>`; proofs live in the imported files. *)
From Coq Require Import Lia NArith List.
From MRL Require Import Bytes Params Names Frame Record Mem Rolling Log Hist PolicyProofs.

(* one call under two policies / tick oracles: identical outcome (positions, eviction count, error, wal_bytes_written), equivalent states *)
Theorem C14_step_policy_independent :
    forall (P : params) (s1 s2 : state) (o : op) (t1 t2 : bool),
    L_GC P = false ->
    seqw s1 s2 ->
    let '(s1', o1) := step P s1 o t1 in let '(s2', o2) := step P s2 o t2 in o1 = o2 /\ seqw s1' s2'.
Proof. exact step_policy_independent. Qed.
Print Assumptions C14_step_policy_independent.

(* any history, any two tick streams *)
Theorem C14_run_policy_independent :
    forall (P : params) (h1 h2 : list (op * bool)) (s1 s2 : state),
    L_GC P = false ->
    map fst h1 = map fst h2 ->
    seqw s1 s2 ->
    let '(s1', o1) := run P s1 h1 in let '(s2', o2) := run P s2 h2 in o1 = o2 /\ seqw s1' s2'.
Proof. exact run_policy_independent. Qed.
Print Assumptions C14_run_policy_independent.

(* the directory left by a clean drop is the same *)
Theorem C14_drop_policy_independent :
    forall s1 s2 : state, seq s1 s2 -> c_fs (drop_log s1) = c_fs (drop_log s2).
Proof. exact drop_policy_independent. Qed.
Print Assumptions C14_drop_policy_independent.

(* open does not depend on the policy (except for storing it) *)
Theorem C14_open_policy_independent :
    forall (P : params) (fs : fsT) (plan : option fplan) (pol1 pol2 : policy) (hint : list bytes),
    open_rel (open P fs plan pol1 hint) (open P fs plan pol2 hint).
Proof. exact open_policy_independent. Qed.
Print Assumptions C14_open_policy_independent.

(* same outcomes live and same result of open after a clean restart *)
Theorem C14_restart_policy_independent :
    forall (P : params) (h1 h2 : list (op * bool)) (s1 s2 : state) (plan : option fplan)
    (pol1 pol2 : policy) (hint : list bytes),
    L_GC P = false ->
    map fst h1 = map fst h2 ->
    seqw s1 s2 ->
    snd (run P s1 h1) = snd (run P s2 h2) /\
    open_rel (open P (c_fs (drop_log (fst (run P s1 h1)))) plan pol1 hint)
    (open P (c_fs (drop_log (fst (run P s2 h2)))) plan pol2 hint).
Proof. exact restart_policy_independent. Qed.
Print Assumptions C14_restart_policy_independent.

(* the premise holds for the states produced by open: non-vacuity of the equivalence *)
Theorem C14_open_ok_seqw :
    forall (P : params) (fs : fsT) (plan : option fplan) (pol1 pol2 : policy)
    (hint : list bytes) (st1 st2 : state),
    L_GC P = false ->
    open P fs plan pol1 hint = OpenOk st1 -> open P fs plan pol2 hint = OpenOk st2 -> seqw st1 st2.
Proof. exact open_ok_seqw. Qed.
Print Assumptions C14_open_ok_seqw.

