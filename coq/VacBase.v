(* VacBase.v — helpers for the vacuity audit (VacuityAudit.v): bounded universal checks by
   computation, the length of an encoding as a function of (cursor mod block, payload length),
   bounds on what position entries can add to the stream (the shape of every `*_bound`
   hypothesis), and a version of RestartFinal.hrun_inv for histories of calls that also
   describes the ghost log. *)
From Coq Require Import Lia ZArith ZifyN ZifyNat ZifyBool List.
From MRL Require Import Bytes BytesProofs Params Names Frame Record Mem Spec Rolling Log Hist
  SpecRefine RecordProofs StreamProofs ResyncProofs GhostLog ReplaySpec RestartInv RestartWrite
  RestartStep OpenReplay RestartFinal.
Import ListNotations.

Arguments N.add : simpl never.
Arguments N.sub : simpl never.
Arguments N.mul : simpl never.
Arguments N.eqb : simpl never.
Arguments N.ltb : simpl never.
Arguments N.leb : simpl never.
Arguments N.div : simpl never.
Arguments N.modulo : simpl never.

(* ---------- bounded universal quantification over N, decided by computation ---------- *)
Definition nrange (n : N) : list N := map N.of_nat (seq 0 (N.to_nat n)).

Lemma nrange_spec n i : i < n -> In i (nrange n).
Proof.
  intros H. unfold nrange. apply in_map_iff. exists (N.to_nat i). split; [lia|].
  apply in_seq. lia.
Qed.

Definition all_lt (n : N) (f : N -> bool) : bool := forallb f (nrange n).

Lemma all_lt_spec n f : all_lt n f = true -> forall i, i < n -> f i = true.
Proof.
  intros H i Hi. unfold all_lt in H. rewrite forallb_forall in H. apply H. now apply nrange_spec.
Qed.

(* ---------- list facts ---------- *)
Lemma s_get_in_names (m : smap) q v : s_get m q = Some v -> In q (map fst m).
Proof.
  induction m as [|[n v0] m IH]; cbn [s_get map fst]; [discriminate|].
  destruct (bytes_eqb n q) eqn:E.
  - intros _. left. now apply bytes_eqb_eq.
  - intros H. right. now apply IH.
Qed.

Section Enc.
Variable P : params.
Hypothesis HBS_lo : 7 < BS P.
Hypothesis HBS_hi : BS P <= 65542.
Hypothesis HNB : 1 <= NB P.
Hypothesis Hcrc : forall t p, crcf P t p < 2 ^ 32.

Local Notation B := (BS P).

(* the length of an encoding depends on the payload only through its length *)
Lemma enc_rel_len_indep a f p e k :
  enc_rel P a f p e k ->
  forall f' p', lenN p' = lenN p -> exists e', enc_rel P a f' p' e' k /\ lenN e' = lenN e.
Proof.
  induction 1 as [a f p Hd | a f p e k Hd Hr IH]; intros f' p' Hl.
  - assert (Ec : chunk_of P a p' = chunk_of P a p) by (unfold chunk_of; now rewrite Hl).
    assert (Hd' : dropN (chunk_of P a p') p' = []).
    { apply lenN_0_nil. rewrite lenN_dropN, Ec, Hl, <- lenN_dropN, Hd. reflexivity. }
    eexists. split; [apply ER_last; exact Hd'|].
    rewrite !(lenN_enc_last P HBS_lo HBS_hi Hcrc), Ec. reflexivity.
  - assert (Ec : chunk_of P a p' = chunk_of P a p) by (unfold chunk_of; now rewrite Hl).
    assert (Hd' : dropN (chunk_of P a p') p' <> []).
    { intros E. apply Hd. apply lenN_0_nil.
      rewrite lenN_dropN, <- Hl, <- Ec, <- lenN_dropN, E. reflexivity. }
    destruct (IH false (dropN (chunk_of P a p') p')) as (e' & Hr' & Hle).
    { rewrite !lenN_dropN, Ec, Hl. reflexivity. }
    rewrite <- Ec in Hr'.
    eexists. split; [apply ER_more; [exact Hd'|exact Hr']|].
    rewrite !(lenN_enc_more P HBS_lo HBS_hi Hcrc), Ec, Hle. reflexivity.
Qed.

Lemma enc_of_len_indep a p p' : lenN p' = lenN p -> lenN (enc_of P a p') = lenN (enc_of P a p).
Proof.
  intros Hl. destruct (enc_of_rel P HBS_lo HBS_hi Hcrc a p) as [k Hk].
  destruct (enc_rel_len_indep _ _ _ _ _ Hk true p' Hl) as (e' & Hr & Hle).
  now rewrite (enc_rel_enc_of P HBS_lo HBS_hi Hcrc _ _ _ _ Hr).
Qed.

(* ... and on the cursor only through its residue modulo the block size *)
Lemma enc_of_mod a p : enc_of P a p = enc_of P (a mod B) p.
Proof.
  rewrite (N.div_mod a B) at 1 by lia.
  apply (RestartWrite.enc_of_shift P HBS_lo HBS_hi HNB Hcrc).
  rewrite N.mul_comm. apply N.mod_mul. lia.
Qed.

(* K bounds the length of the encoding of each payload of ps at every cursor: checked on the
   residues 0 .. B-1 *)
Definition enc_len_ok (K : N) (ps : list bytes) : bool :=
  forallb (fun p => all_lt B (fun r => lenN (enc_of P r p) <=? K)) ps.

Lemma enc_len_ok_spec K ps : enc_len_ok K ps = true ->
  forall p p' a, In p ps -> lenN p' = lenN p -> lenN (enc_of P a p') <= K.
Proof.
  intros H p p' a Hin Hl. unfold enc_len_ok in H. rewrite forallb_forall in H.
  specialize (H p Hin). pose proof (all_lt_spec _ _ H (a mod B)) as H1. cbn beta in H1.
  rewrite (enc_of_len_indep a p p' Hl), enc_of_mod.
  assert (a mod B < B) by (apply N.mod_lt; lia). specialize (H1 H0). lia.
Qed.

Lemma cursor_after_bound K ps : enc_len_ok K ps = true ->
  forall es c, (forall e, In e es -> exists p, In p ps /\ lenN e = lenN p) ->
  cursor_after P c es <= c + K * N.of_nat (length es).
Proof.
  intros HK. induction es as [|e es IH]; intros c Hes.
  - rewrite (cursor_after_nil P HBS_lo HBS_hi). cbn [length]. lia.
  - rewrite (cursor_after_cons P HBS_lo HBS_hi Hcrc).
    destruct (Hes e (or_introl eq_refl)) as (p & Hp & Hl).
    pose proof (enc_len_ok_spec K ps HK p e c Hp Hl) as H1.
    pose proof (IH (c + lenN (enc_of P c e)) (fun e' H => Hes e' (or_intror H))) as H2.
    cbn [length]. lia.
Qed.

(* position entries for distinct queues taken from `names` (any positions) *)
Definition pos_ser (q : bytes) : bytes := entry_ser (EPosition q 0).

Lemma lenN_pos_ser q p : lenN (entry_ser (EPosition q p)) = lenN (pos_ser q).
Proof.
  unfold pos_ser. cbn [entry_ser]. unfold ser_raw.
  rewrite !lenN_cons, !lenN_app, !length_le_enc. reflexivity.
Qed.

Lemma pos_entries_bound names K c extra :
  enc_len_ok K (map pos_ser names) = true ->
  NoDup (map entry_queue extra) ->
  Forall (fun e => exists q p, e = EPosition q p /\ In q names) extra ->
  cursor_after P c (map entry_ser extra) <= c + K * N.of_nat (length names).
Proof.
  intros HK Hnd Hall.
  assert (Hlen : (length extra <= length names)%nat).
  { rewrite <- (map_length entry_queue extra). apply NoDup_incl_length; [exact Hnd|].
    intros q Hq. apply in_map_iff in Hq as (e & <- & He).
    rewrite Forall_forall in Hall. destruct (Hall e He) as (q & p & -> & Hin). exact Hin. }
  pose proof (cursor_after_bound K (map pos_ser names) HK (map entry_ser extra) c) as Hb.
  rewrite map_length in Hb.
  assert (Hes : forall e, In e (map entry_ser extra) ->
                          exists p, In p (map pos_ser names) /\ lenN e = lenN p).
  { intros e He. apply in_map_iff in He as (x & <- & Hx).
    rewrite Forall_forall in Hall. destruct (Hall x Hx) as (q & p & -> & Hin).
    exists (pos_ser q). split; [now apply in_map|apply lenN_pos_ser]. }
  specialize (Hb Hes). nia.
Qed.

(* the form taken by RestartFinal.pos_extra: the queues are those of the abstract state *)
Lemma pos_extra_bound (m : smap) K c extra :
  enc_len_ok K (map pos_ser (map fst m)) = true ->
  pos_extra m extra ->
  cursor_after P c (map entry_ser extra) <= c + K * N.of_nat (length m).
Proof.
  intros HK [Hnd Hall]. rewrite <- (map_length fst m).
  apply pos_entries_bound; [exact HK|exact Hnd|].
  eapply Forall_impl; [|exact Hall]. intros e (q & p & -> & Hg). exists q, p.
  split; [reflexivity|]. now apply s_get_in_names in Hg.
Qed.

(* ---------- the *_bound hypotheses from a computation ---------- *)
Lemma restart_bound_by K st :
  enc_len_ok K (map pos_ser (map fst (abs_qs (s_qs st)))) = true ->
  wabs P (s_wr st) + K * N.of_nat (length (abs_qs (s_qs st))) <= FILE_BYTES P * (U64_MAX + 1) ->
  restart_bound P st.
Proof.
  intros HK Hb extra Hx. unfold phys_bound.
  pose proof (pos_extra_bound _ K (wabs P (s_wr st)) extra HK Hx). lia.
Qed.

End Enc.

(* ---------- histories of calls: the invariant, with the ghost log ---------- *)
Section RunLog.
Variable P : params.
Hypothesis HBS_lo : 7 < BS P.
Hypothesis HBS_hi : BS P <= 65542.
Hypothesis HNB : 1 <= NB P.
Hypothesis Hcrc : forall t p, crcf P t p < 2 ^ 32.
Hypothesis HGC : L_GC P = false.

Fixpoint calls_log (st : state) (h : list (op * bool)) : glog :=
  match h with
  | [] => []
  | (o, t) :: r => step_log P st o ++ calls_log (fst (step P st o t)) r
  end.

Definition hcalls_of (h : list (op * bool)) : list hop := map (fun ot => HCall (fst ot) (snd ot)) h.

Lemma calls_inv_log h : forall st G,
  Inv P st G -> hist_ok P st (hcalls_of h) ->
  exists G',
    Inv P (fst (run P st h)) G' /\ gh_base G' = gh_base G /\ gh_dropped G' = gh_dropped G /\
    gh_log G' = gh_log G ++ calls_log st h /\
    Forall no_io (snd (run P st h)).
Proof.
  induction h as [|[o t] h IH]; intros st G HI Hok.
  - exists G. cbn [run fst snd calls_log]. rewrite app_nil_r.
    split; [exact HI|]. split; [reflexivity|]. split; [reflexivity|]. split; [reflexivity|constructor].
  - cbn [hcalls_of map fst snd hist_ok] in Hok. destruct Hok as (Hop & Hb & Hok).
    pose proof (phys_stream_bound P HBS_lo HBS_hi HNB Hcrc _ _ _ (proj1 HI) Hb) as Hsb.
    pose proof (step_no_io P HBS_lo HBS_hi HNB Hcrc HGC st G o t HI Hop Hsb) as Hno.
    cbn [run calls_log].
    destruct (step P st o t) as [st1 out] eqn:Es. cbn [fst snd] in *.
    destruct (inv_step P HBS_lo HBS_hi HNB Hcrc HGC st G o t st1 out HI Hop Hsb Es)
      as (G1 & HI1 & Eb1 & Ed1 & El1); [exact Hno|].
    destruct (IH st1 G1 HI1 Hok) as (G2 & HI2 & Eb2 & Ed2 & El2 & Hno2).
    destruct (run P st1 h) as [st2 outs]. cbn [fst snd] in *.
    exists G2. split; [exact HI2|]. split; [congruence|]. split; [congruence|].
    split; [rewrite El2, El1, app_assoc; reflexivity|]. constructor; assumption.
Qed.

(* the kept log is never empty when a queue exists *)
Lemma gh_E_nonempty st G q v :
  Inv P st G -> s_get (abs_qs (s_qs st)) q = Some v -> gh_E G <> [].
Proof.
  intros HI Hg E.
  destruct (inv_restart_equal P st G HI [] ltac:(now rewrite E)) as (qs' & Hr & _ & _ & Heq).
  rewrite E in Hr. cbn in Hr. injection Hr as <-. specialize (Heq q). rewrite Hg in Heq.
  discriminate.
Qed.

(* the queue names of the kept log are among those of the whole ghost log *)
Lemma gh_E_names G q :
  In q (map entry_queue (map snd (gh_E G))) -> In q (map entry_queue (map snd (gh_log G))).
Proof.
  unfold gh_log. rewrite !map_app. intros H. apply in_or_app. now right.
Qed.
End RunLog.
