(* JStep.v — TASK T14-A: port of RestartStep.v section 1 (every successful API call preserves
   the junk-tolerant invariant InvJ) and of RestartFinal.gc_no_err / step_no_io /
   phys_stream_bound.  The legality lemmas of RestartStep section 0 (about LInv only) and
   RestartFinal's phys_bound / wabs / cursor_after_shift / cursor_after_between are reused. *)
From Coq Require Import Lia ZArith ZifyN ZifyNat ZifyBool List Sorted.
From MRL Require Import Bytes BytesProofs Params Names NamesProofs Frame Record Mem Spec Rolling Log
  Driver NoopProofs SpecRefine RecordProofs StreamProofs PolicyProofs GcProofs GhostLog ReplaySpec
  HandleProofs FileStream ResyncProofs RestartInv RestartWrite RestartGc RestartStep RestartFinal
  JInv JGc.

Arguments N.add : simpl never.
Arguments N.sub : simpl never.
Arguments N.mul : simpl never.
Arguments N.eqb : simpl never.
Arguments N.ltb : simpl never.
Arguments N.leb : simpl never.
Arguments N.div : simpl never.
Arguments N.modulo : simpl never.
Arguments N.min : simpl never.
Arguments N.max : simpl never.
Arguments N.pow : simpl never.

Section JStep.
Variable P : params.
Hypothesis HBS_lo : 7 < BS P.
Hypothesis HBS_hi : BS P <= 65542.
Hypothesis HNB : 1 <= NB P.
Hypothesis Hcrc : forall t p, crcf P t p < 2 ^ 32.
Hypothesis HGC : L_GC P = false.
Variable PRE : bytes.
Variable OLD : list entry.
Variable opos : list (N * N).
Hypothesis Hpre : pre_ok PRE OLD opos.

Local Notation FB := (FILE_BYTES P).
Local Notation PInvJ := (PInvJ P PRE OLD opos).
Local Notation InvJ := (InvJ P PRE OLD opos).
Local Notation stream_boundJ := (stream_boundJ P PRE OLD).
Local Notation jT := (jT P PRE OLD).
Local Notation H3 f := (f P HBS_lo HBS_hi Hcrc) (only parsing).
Local Notation H2 f := (f P HBS_lo HBS_hi) (only parsing).
Local Notation HN f := (f P HBS_lo HBS_hi HNB) (only parsing).
Local Notation HW f := (f P HBS_lo HBS_hi HNB Hcrc) (only parsing).
Local Notation HG f := (f P HBS_lo HBS_hi HNB Hcrc HGC) (only parsing).

(* what `open` will list: exactly the tracked files *)
Lemma invJ_listing st G : InvJ st G -> list_wal_numbers (vfs (s_wr st)) = w_files (s_wr st).
Proof.
  intros HI. destruct (InvJ_winv P PRE OLD opos st G HI) as (H1 & H2' & H3').
  exact (listing_after P _ H1 H2' H3').
Qed.

(* one write followed by the in-memory update, with the bound carried to the rest of the log *)
Lemma invJ_write_then st G e rest st1 r1 qs' :
  InvJ st G -> wf_entry e -> stream_boundJ G (e :: rest) ->
  (forall F, t_replay [] 0 (gh_ALL G) = Some F -> legal F e) ->
  write_entry P st e = (st1, r1) ->
  apply_entry (s_qs st) (w_file (s_wr st)) e = Some qs' -> qs_wf qs' ->
  (exists n, r1 = Ok n) /\ s_qs st1 = s_qs st /\ s_pol st1 = s_pol st /\
  InvJ (set_qs st1 qs') (gh_snoc G (w_file (s_wr st)) e) /\
  stream_boundJ (gh_snoc G (w_file (s_wr st)) e) rest.
Proof.
  intros HI Hwf Hb Hleg Ew Hap Hwf'.
  assert (Hb1 : stream_boundJ G [e]).
  { eapply (HW stream_boundJ_prefix). exact Hb. }
  destruct (HW invJ_write_entry PRE OLD opos st G e st1 r1 qs' Hpre HI Hwf Hb1 Hleg Ew Hap Hwf')
    as (Hr & Eqs & Epol & _ & _ & HI').
  repeat (split; [assumption|]). apply JInv.stream_boundJ_snoc; [|exact Hb].
  exact (HW jlen_le PRE OLD opos _ _ (proj1 HI)).
Qed.

Theorem invJ_step st G o tick st' out :
  InvJ st G -> op_wf_strict (s_qs st) o ->
  stream_boundJ G (map snd (step_log P st o)) ->
  step P st o tick = (st', out) -> (forall e, out <> OutIo e) ->
  exists G', InvJ st' G' /\ gh_base G' = gh_base G /\ gh_dropped G' = gh_dropped G /\
             gh_log G' = gh_log G ++ step_log P st o.
Proof.
  intros HI Hop Hb Hstep Hno.
  pose proof HI as (HP & HL). pose proof HL as (Hqwf & _).
  pose proof (step_log_wf P st o Hqwf (op_wf_strict_wf _ _ Hop)) as Hlwf.
  assert (Hsame : forall G0, InvJ st G0 -> step_log P st o = [] ->
            exists G', InvJ st G' /\ gh_base G' = gh_base G0 /\ gh_dropped G' = gh_dropped G0 /\
                       gh_log G' = gh_log G0 ++ step_log P st o).
  { intros G0 H0 ->. exists G0. rewrite app_nil_r. auto. }
  destruct o as [q|q hint|q pos payloads|q p hint|a]; cbn [step step_log] in *.
  - (* ---------- create ---------- *)
    unfold create_queue in Hstep. unfold create_log in *. rewrite qs_contains_get in *.
    destruct (qs_get (s_qs st) q) as [m|] eqn:Eq.
    { inversion Hstep; subst. now apply Hsame. }
    destruct (write_entry P st (EPosition q 0)) as [st1 r1] eqn:Ew.
    cbn [map snd] in Hb. inversion Hlwf as [|? ? Hwf _]; subst. cbn [snd] in Hwf.
    assert (Hap : apply_entry (s_qs st) (w_file (s_wr st)) (EPosition q 0) =
                  Some (qs_put (s_qs st) q mq_default)).
    { cbn [apply_entry]. unfold ack_position. now rewrite Eq. }
    assert (Hwf' : qs_wf (qs_put (s_qs st) q mq_default)).
    { apply qs_wf_put; [exact Hqwf|exact Hop|]. cbn. lia. }
    destruct (invJ_write_then st G _ [] st1 r1 _ HI Hwf Hb
                (fun F => legal_create _ _ _ q F HL Eq) Ew Hap Hwf')
      as ((k & ->) & Eqs & Epol & HI1 & _).
    inversion Hstep; subst st' out. clear Hstep.
    exists (gh_snoc G (w_file (s_wr st)) (EPosition q 0)).
    split; [|split; [reflexivity|split; [reflexivity|apply gh_snoc_log]]].
    cbn [persist set_wr s_qs]. rewrite Eqs.
    exact (invJ_persist P PRE OLD opos (set_qs st1 (qs_put (s_qs st) q mq_default)) true _ HI1).
  - (* ---------- delete ---------- *)
    unfold delete_queue in Hstep. unfold delete_log in *.
    destruct (qs_get (s_qs st) q) as [m|] eqn:Eq.
    2:{ inversion Hstep; subst. now apply Hsame. }
    set (e := EDelete q (next_position m)) in *.
    destruct (write_entry P st e) as [st1 r1] eqn:Ew.
    cbn [map snd] in Hb. inversion Hlwf as [|? ? Hwf Hlwf']; subst. cbn [snd] in Hwf.
    assert (Hap : apply_entry (s_qs st) (w_file (s_wr st)) e = Some (qs_remove (s_qs st) q))
      by reflexivity.
    destruct (invJ_write_then st G e _ st1 r1 _ HI Hwf Hb
                (fun F => legal_delete _ _ _ q m _ F HL Eq) Ew Hap (qs_wf_remove _ q Hqwf))
      as ((k & ->) & Eqs & Epol & HI1 & Hb1).
    rewrite Eqs in *.
    set (st2 := set_qs st1 (qs_remove (s_qs st) q)) in *.
    destruct (run_gc_if_necessary P st2 hint) as [st3 [k3|e3]] eqn:Egc;
      inversion Hstep; subst st' out; [|exfalso; eapply Hno; reflexivity]. clear Hstep.
    destruct (HG invJ_gc PRE OLD opos Hpre st2 _ hint st3 k3 HI1 Hb1 Egc) as (G3 & HI3 & _ & _ & Eb & Ed & Elog).
    exists G3. split; [exact (invJ_persist P PRE OLD opos st3 true G3 HI3)|].
    split; [exact Eb|]. split; [exact Ed|].
    rewrite Elog, gh_snoc_log. now rewrite <- app_assoc.
  - (* ---------- append ---------- *)
    unfold append_records in Hstep. rewrite append_log_target in *.
    destruct (qs_get (s_qs st) q) as [m|] eqn:Eq.
    2:{ inversion Hstep; subst. now apply Hsame. }
    destruct (match pos with
              | Some p => if p + 1 =? next_position m then Some (OutAppend None 0)
                          else if p <? next_position m then Some OutPast else None
              | None => None end) as [o|] eqn:Ee.
    { rewrite (append_early_target_none _ _ _ Ee) in *. inversion Hstep; subst. now apply Hsame. }
    rewrite (append_early_target _ _ Ee) in *.
    pose proof (append_target_ge _ _ _ (append_early_target _ _ Ee)) as Hge.
    set (position := match pos with Some p => p | None => next_position m end) in *.
    destruct payloads as [|x r].
    { cbn [number_from] in Hstep. inversion Hstep; subst. now apply Hsame. }
    set (payloads := x :: r) in *.
    assert (Hpne : payloads <> []) by discriminate.
    set (recs := number_from position payloads) in *.
    set (e := EAppend q position recs) in *.
    assert (Hrne : recs <> []).
    { intros H. apply number_from_nil_iff in H. contradiction. }
    destruct (append_all_some payloads m (w_file (s_wr st)) position Hge) as (m' & Em).
    fold recs in Em.
    assert (Hstep' : match write_entry P st e with
                     | (st1, Err e0) => (st1, OutIo e0)
                     | (st1, Ok n) =>
                         (set_qs (persist_on_policy st1 tick)
                                 (qs_put (s_qs (persist_on_policy st1 tick)) q m'),
                          OutAppend (Some (last_pos_of position recs)) n)
                     end = (st', out)).
    { rewrite <- Hstep. unfold recs, payloads. cbn [number_from]. fold payloads. fold recs.
      fold e. destruct (write_entry P st e) as [st1 [n|e0]]; [|reflexivity].
      unfold recs, payloads in Em. cbn [number_from] in Em. now rewrite Em. }
    clear Hstep.
    destruct (write_entry P st e) as [st1 r1] eqn:Ew.
    change (map snd [(w_file (s_wr st), e)]) with [e] in Hb.
    inversion Hlwf as [|? ? Hwf _]; subst. cbn [snd] in Hwf.
    assert (Hap : apply_entry (s_qs st) (w_file (s_wr st)) e = Some (qs_put (s_qs st) q m')).
    { unfold e. cbn [apply_entry]. rewrite qs_contains_get, Eq, Eq, Em. reflexivity. }
    assert (Hwf' : qs_wf (qs_put (s_qs st) q m')).
    { destruct (Hqwf q m (qs_get_In_eq _ _ _ Eq)) as (Hn & _).
      apply qs_wf_put; [exact Hqwf|exact Hn|].
      rewrite (append_all_next payloads m _ position m' Hge Em). unfold payloads at 1.
      destruct Hop as (_ & Hop). unfold position. destruct pos as [p0|]; [exact Hop|].
      exact (Hop m Eq). }
    destruct (invJ_write_then st G e [] st1 r1 _ HI Hwf Hb
                (fun F => legal_append _ _ _ q m position payloads F HL Eq Hge Hpne) Ew Hap Hwf')
      as ((k & ->) & Eqs & Epol & HI1 & _).
    inversion Hstep'; subst st' out. clear Hstep'.
    exists (gh_snoc G (w_file (s_wr st)) e).
    split; [|split; [reflexivity|split; [reflexivity|apply gh_snoc_log]]].
    rewrite persist_on_policy_qs, Eqs, set_qs_persist_on_policy.
    exact (invJ_persist_on_policy P PRE OLD opos _ tick _ HI1).
  - (* ---------- truncate ---------- *)
    unfold truncate in Hstep. unfold truncate_log in *.
    destruct (qs_get (s_qs st) q) as [m|] eqn:Eq.
    2:{ inversion Hstep; subst. now apply Hsame. }
    set (e := ETruncate q p) in *.
    destruct (write_entry P st e) as [st1 r1] eqn:Ew.
    cbn [map snd] in Hb. inversion Hlwf as [|? ? Hwf Hlwf']; subst. cbn [snd] in Hwf.
    destruct (truncate_head m p) as [m' evicted] eqn:Et. cbn [fst] in *.
    assert (Hap : apply_entry (s_qs st) (w_file (s_wr st)) e = Some (qs_put (s_qs st) q m')).
    { unfold e. cbn [apply_entry]. now rewrite Eq, Et. }
    assert (Hwf' : qs_wf (qs_put (s_qs st) q m')).
    { destruct (Hqwf q m (qs_get_In_eq _ _ _ Eq)) as (Hn & Hnx).
      apply qs_wf_put; [exact Hqwf|exact Hn|].
      pose proof (truncate_head_next m p) as Hth. rewrite Et in Hth. cbn [fst] in Hth.
      cbn [op_wf_strict] in Hop. destruct Hth as [-> | ->]; lia. }
    destruct (invJ_write_then st G e _ st1 r1 _ HI Hwf Hb
                (fun F => legal_truncate _ _ _ q m _ F HL Eq) Ew Hap Hwf')
      as ((k & ->) & Eqs & Epol & HI1 & Hb1).
    rewrite Eqs in *.
    set (st2 := set_qs st1 (qs_put (s_qs st) q m')) in *.
    destruct (run_gc_if_necessary P st2 hint) as [st3 [k3|e3]] eqn:Egc;
      inversion Hstep; subst st' out; [|exfalso; eapply Hno; reflexivity]. clear Hstep.
    destruct (HG invJ_gc PRE OLD opos Hpre st2 _ hint st3 k3 HI1 Hb1 Egc) as (G3 & HI3 & _ & _ & Eb & Ed & Elog).
    exists G3. split; [exact (invJ_persist_on_policy P PRE OLD opos st3 tick G3 HI3)|].
    split; [exact Eb|]. split; [exact Ed|].
    rewrite Elog, gh_snoc_log. now rewrite <- app_assoc.
  - (* ---------- persist ---------- *)
    inversion Hstep; subst st' out. exists G. rewrite app_nil_r.
    split; [exact (invJ_persist P PRE OLD opos st a G HI)|]. auto.
Qed.


(* ====================================================================== *)
(* the bound, in terms of the state alone (no ghost)                      *)
(* ====================================================================== *)
Lemma phys_stream_boundJ w G extra : PInvJ w G -> phys_bound P w extra -> stream_boundJ G extra.
Proof.
  intros (Hw & _ & _ & Hbase & Hc1 & Hc2 & _) Hb. cbn zeta in *.
  unfold phys_bound in Hb. unfold JInv.stream_boundJ.
  rewrite map_app, (H3 cursor_after_app). fold (jser OLD G). rewrite <- (jT_len P PRE OLD G).
  pose proof Hw as (Hok & _). destruct (wr_ok_len P (HN HB0') HNB w Hok) as (Hn & Hn1).
  set (c := (wlo w - gh_base G) * FB + wpos P w) in *.
  assert (Eabs : wabs P w = gh_base G * FB + c).
  { unfold wabs, c, wpos.
    replace (w_file w) with (gh_base G + ((wlo w - gh_base G) + (lenN (w_files w) - 1))) by lia.
    lia. }
  rewrite Eabs, (HW cursor_after_shift) in Hb by apply (HN mulFB_mod).
  pose proof (HW cursor_after_between (lenN (jT G)) c (map entry_ser extra) Hc1 Hc2). lia.
Qed.

(* the GC never fails under the invariant and the bound *)
Lemma gcJ_no_err st G hint st' r :
  InvJ st G -> stream_boundJ G (map snd (gc_log P st hint)) ->
  run_gc_if_necessary P st hint = (st', r) -> exists n, r = Ok n.
Proof.
  intros HI Hb Hgc. unfold run_gc_if_necessary in Hgc. unfold gc_log in Hb.
  destruct (has_deletable st) eqn:Hd.
  2:{ inversion Hgc; subst. now exists 0. }
  set (names := pick_order hint (empty_names (s_qs st))) in *.
  unfold record_empty_queues_position in Hgc. fold names in Hgc.
  destruct (record_positions P st names 0) as [st0 r0] eqn:Erp.
  pose proof HI as (HP & HL).
  assert (Hne : names_empty (s_qs st) names).
  { apply pick_order_names_empty. exact (LInv_nodup _ _ _ HL). }
  destruct (HW invJ_record_positions PRE OLD opos Hpre names st G 0 st0 r0 HI Hne Hb Erp)
    as ((k & ->) & _ & _ & _ & _ & HI0 & _).
  rewrite HGC in Hgc. cbn [andb] in Hgc.
  set (st1 := persist st0 true) in *.
  assert (HI1 : InvJ st1 (gh_app G (rp_log P st names))) by (apply invJ_persist; exact HI0).
  destruct HI1 as ((Hw1 & Hwd1 & _) & _).
  destruct (gc_loop (w_ctx (s_wr st1)) (w_files (s_wr st1)) (referenced st1 (w_file (s_wr st))))
    as [[c files'] rg] eqn:Egc.
  pose proof Hw1 as (Hok1 & _ & _ & _ & Hu1 & _). destruct Hwd1 as [_ Hdir1].
  pose proof (gc_loop_no_err _ _ _ _ _ Egc Hok1 (Hdir1 Hu1) Hu1) as ->.
  inversion Hgc; subst. now exists k.
Qed.

Lemma stepJ_no_io st G o tick :
  InvJ st G -> op_wf_strict (s_qs st) o ->
  stream_boundJ G (map snd (step_log P st o)) ->
  no_io (snd (step P st o tick)).
Proof.
  intros HI Hop Hb. destruct (step P st o tick) as [st' out] eqn:Hstep. cbn [snd].
  pose proof HI as (HP & HL). pose proof HL as (Hqwf & _).
  pose proof (step_log_wf P st o Hqwf (op_wf_strict_wf _ _ Hop)) as Hlwf.
  destruct o as [q|q hint|q pos payloads|q p hint|a]; cbn [step step_log] in *.
  - (* ---------- create ---------- *)
    unfold create_queue in Hstep. unfold create_log in *. rewrite qs_contains_get in *.
    destruct (qs_get (s_qs st) q) as [m|] eqn:Eq.
    { inversion Hstep; subst. intros ? ?; discriminate. }
    destruct (write_entry P st (EPosition q 0)) as [st1 r1] eqn:Ew.
    cbn [map snd] in Hb. inversion Hlwf as [|? ? Hwf _]; subst. cbn [snd] in Hwf.
    assert (Hap : apply_entry (s_qs st) (w_file (s_wr st)) (EPosition q 0) =
                  Some (qs_put (s_qs st) q mq_default)).
    { cbn [apply_entry]. unfold ack_position. now rewrite Eq. }
    assert (Hwf' : qs_wf (qs_put (s_qs st) q mq_default)).
    { apply qs_wf_put; [exact Hqwf|exact Hop|]. cbn. lia. }
    destruct (invJ_write_then st G _ [] st1 r1 _ HI Hwf Hb
                (fun F => legal_create _ _ _ q F HL Eq) Ew Hap Hwf')
      as ((k & ->) & _).
    inversion Hstep; subst st' out. intros ? ?; discriminate.
  - (* ---------- delete ---------- *)
    unfold delete_queue in Hstep. unfold delete_log in *.
    destruct (qs_get (s_qs st) q) as [m|] eqn:Eq.
    2:{ inversion Hstep; subst. intros ? ?; discriminate. }
    set (e := EDelete q (next_position m)) in *.
    destruct (write_entry P st e) as [st1 r1] eqn:Ew.
    cbn [map snd] in Hb. inversion Hlwf as [|? ? Hwf Hlwf']; subst. cbn [snd] in Hwf.
    assert (Hap : apply_entry (s_qs st) (w_file (s_wr st)) e = Some (qs_remove (s_qs st) q))
      by reflexivity.
    destruct (invJ_write_then st G e _ st1 r1 _ HI Hwf Hb
                (fun F => legal_delete _ _ _ q m _ F HL Eq) Ew Hap (qs_wf_remove _ q Hqwf))
      as ((k & ->) & Eqs & Epol & HI1 & Hb1).
    rewrite Eqs in *.
    set (st2 := set_qs st1 (qs_remove (s_qs st) q)) in *.
    destruct (run_gc_if_necessary P st2 hint) as [st3 r3] eqn:Egc.
    destruct (gcJ_no_err st2 _ hint st3 r3 HI1 Hb1 Egc) as (k3 & ->).
    inversion Hstep; subst st' out. intros ? ?; discriminate.
  - (* ---------- append ---------- *)
    unfold append_records in Hstep. rewrite append_log_target in *.
    destruct (qs_get (s_qs st) q) as [m|] eqn:Eq.
    2:{ inversion Hstep; subst. intros ? ?; discriminate. }
    destruct (match pos with
              | Some p => if p + 1 =? next_position m then Some (OutAppend None 0)
                          else if p <? next_position m then Some OutPast else None
              | None => None end) as [o|] eqn:Ee.
    { inversion Hstep; subst. intros e0 H. rewrite H in Ee.
      destruct pos as [p0|]; [|discriminate].
      destruct (p0 + 1 =? next_position m); [discriminate|].
      destruct (p0 <? next_position m); discriminate. }
    rewrite (append_early_target _ _ Ee) in *.
    pose proof (append_target_ge _ _ _ (append_early_target _ _ Ee)) as Hge.
    set (position := match pos with Some p => p | None => next_position m end) in *.
    destruct payloads as [|x r].
    { cbn [number_from] in Hstep. inversion Hstep; subst. intros ? ?; discriminate. }
    set (payloads := x :: r) in *.
    assert (Hpne : payloads <> []) by discriminate.
    set (recs := number_from position payloads) in *.
    set (e := EAppend q position recs) in *.
    assert (Hrne : recs <> []).
    { intros H. apply number_from_nil_iff in H. contradiction. }
    destruct (append_all_some payloads m (w_file (s_wr st)) position Hge) as (m' & Em).
    fold recs in Em.
    assert (Hstep' : match write_entry P st e with
                     | (st1, Err e0) => (st1, OutIo e0)
                     | (st1, Ok n) =>
                         (set_qs (persist_on_policy st1 tick)
                                 (qs_put (s_qs (persist_on_policy st1 tick)) q m'),
                          OutAppend (Some (last_pos_of position recs)) n)
                     end = (st', out)).
    { rewrite <- Hstep. unfold recs, payloads. cbn [number_from]. fold payloads. fold recs.
      fold e. destruct (write_entry P st e) as [st1 [n|e0]]; [|reflexivity].
      unfold recs, payloads in Em. cbn [number_from] in Em. now rewrite Em. }
    clear Hstep.
    destruct (write_entry P st e) as [st1 r1] eqn:Ew.
    change (map snd [(w_file (s_wr st), e)]) with [e] in Hb.
    inversion Hlwf as [|? ? Hwf _]; subst. cbn [snd] in Hwf.
    assert (Hap : apply_entry (s_qs st) (w_file (s_wr st)) e = Some (qs_put (s_qs st) q m')).
    { unfold e. cbn [apply_entry]. rewrite qs_contains_get, Eq, Eq, Em. reflexivity. }
    assert (Hwf' : qs_wf (qs_put (s_qs st) q m')).
    { destruct (Hqwf q m (qs_get_In_eq _ _ _ Eq)) as (Hn & _).
      apply qs_wf_put; [exact Hqwf|exact Hn|].
      rewrite (append_all_next payloads m _ position m' Hge Em). unfold payloads at 1.
      destruct Hop as (_ & Hop). unfold position. destruct pos as [p0|]; [exact Hop|].
      exact (Hop m Eq). }
    destruct (invJ_write_then st G e [] st1 r1 _ HI Hwf Hb
                (fun F => legal_append _ _ _ q m position payloads F HL Eq Hge Hpne) Ew Hap Hwf')
      as ((k & ->) & _).
    inversion Hstep'; subst st' out. intros ? ?; discriminate.
  - (* ---------- truncate ---------- *)
    unfold truncate in Hstep. unfold truncate_log in *.
    destruct (qs_get (s_qs st) q) as [m|] eqn:Eq.
    2:{ inversion Hstep; subst. intros ? ?; discriminate. }
    set (e := ETruncate q p) in *.
    destruct (write_entry P st e) as [st1 r1] eqn:Ew.
    cbn [map snd] in Hb. inversion Hlwf as [|? ? Hwf Hlwf']; subst. cbn [snd] in Hwf.
    destruct (truncate_head m p) as [m' evicted] eqn:Et. cbn [fst] in *.
    assert (Hap : apply_entry (s_qs st) (w_file (s_wr st)) e = Some (qs_put (s_qs st) q m')).
    { unfold e. cbn [apply_entry]. now rewrite Eq, Et. }
    assert (Hwf' : qs_wf (qs_put (s_qs st) q m')).
    { destruct (Hqwf q m (qs_get_In_eq _ _ _ Eq)) as (Hn & Hnx).
      apply qs_wf_put; [exact Hqwf|exact Hn|].
      pose proof (truncate_head_next m p) as Hth. rewrite Et in Hth. cbn [fst] in Hth.
      cbn [op_wf_strict] in Hop. destruct Hth as [-> | ->]; lia. }
    destruct (invJ_write_then st G e _ st1 r1 _ HI Hwf Hb
                (fun F => legal_truncate _ _ _ q m _ F HL Eq) Ew Hap Hwf')
      as ((k & ->) & Eqs & Epol & HI1 & Hb1).
    rewrite Eqs in *.
    set (st2 := set_qs st1 (qs_put (s_qs st) q m')) in *.
    destruct (run_gc_if_necessary P st2 hint) as [st3 r3] eqn:Egc.
    destruct (gcJ_no_err st2 _ hint st3 r3 HI1 Hb1 Egc) as (k3 & ->).
    inversion Hstep; subst st' out. intros ? ?; discriminate.
  - (* ---------- persist ---------- *)
    inversion Hstep; subst st' out. intros ? ?; discriminate.
Qed.


End JStep.

Print Assumptions invJ_listing.
Print Assumptions invJ_write_then.
Print Assumptions invJ_step.
Print Assumptions gcJ_no_err.
Print Assumptions stepJ_no_io.
Print Assumptions phys_stream_boundJ.
