(* BatchHeaderDamage.v — batch atomicity under header-field damage, end to end (property C12).

   C08_header_damage (HeaderDamageFile.v): with arbitrary bytes in ONE block of the kept files
   (frame headers included, under NoEmbeddedPath), open reports Corruption or returns the replay
   of a SUB-LIST Es' of the kept ghost entries.  Here: what such a replay can do to a batch (an
   AppendRecords entry).

   Part 1 (pure, any entry list, legal or not).  After replaying ANY list es from the empty
   state, the records of a queue q are a SUFFIX of the concatenation, in log order, of the
   batches of all AppendRecords entries of es for q (replay_suffix_of_appended); with the tags of
   the spec-level replay: the records tagged t are a suffix of batch t (replay_batch_suffix_tagged)
   and once a record tagged t is there, all later batches are there in full (replay_no_missing_tail).
   Part 2 (pure).  The position form: if every AppendRecords entry for q in es is the batch
   EAppend q b (number_from b pl) or has no record at a position of the batch, the records of q
   with a position in [b, b + |pl|) are skipn j of the batch (replay_span_suffix).
   Part 3.  End to end from Inv and header_damaged_dir:
     C12_header_damage_suffix   (no side condition; the sub-list form)
     C12_header_damage          (the position form, under "no other entry of the kept log
                                 appended to q at a position of the batch")
     C12_header_damage_never_deleted (that side condition follows from: the kept log holds no
                                 DeleteQueue entry for q)
   The side condition is needed: see Counter below (the recovered queue holds, at the batch's
   positions, the records of an EARLIER incarnation of the queue, because the DeleteQueue, the
   re-creation and the batch were lost together). *)
From Coq Require Import Lia ZArith ZifyN ZifyNat ZifyBool List.
From MRL Require Import Bytes BytesProofs Params Record Mem Spec Log SpecRefine RecordProofs ReplaySpec.
Import ListNotations.

Arguments N.add : simpl never.
Arguments N.sub : simpl never.
Arguments N.mul : simpl never.
Arguments N.eqb : simpl never.
Arguments N.ltb : simpl never.
Arguments N.leb : simpl never.
Arguments N.div : simpl never.
Arguments N.modulo : simpl never.

(* ====================================================================== *)
(* 0. lists                                                                *)
(* ====================================================================== *)

Lemma skipn_skipn' {A} : forall a b (l : list A), skipn a (skipn b l) = skipn (b + a) l.
Proof.
  intros a b. revert a. induction b as [|b IH]; intros a l; [reflexivity|].
  destruct l as [|x l]; cbn [skipn Nat.add]; [now rewrite skipn_nil|apply IH].
Qed.

Lemma In_skipn {A} (x : A) k l : In x (skipn k l) -> In x l.
Proof. intros H. rewrite <- (firstn_skipn k l). apply in_or_app. now right. Qed.

(* a filter that is false before and after a middle part, true on it *)
Lemma filter_skipn_mid {A} (f : A -> bool) (X C Y : list A) k :
  (forall x, In x X -> f x = false) -> (forall x, In x Y -> f x = false) ->
  (forall x, In x C -> f x = true) ->
  filter f (skipn k (X ++ C ++ Y)) = skipn (k - length X) C.
Proof.
  intros HX HY HC. rewrite !skipn_app, !filter_app.
  rewrite (filter_all_false f (skipn k X)) by (intros x Hx; apply HX; eapply In_skipn; exact Hx).
  rewrite (filter_all_false f (skipn _ Y)) by (intros x Hx; apply HY; eapply In_skipn; exact Hx).
  rewrite (filter_all_true f (skipn _ C)) by (intros x Hx; apply HC; eapply In_skipn; exact Hx).
  cbn [app]. apply app_nil_r.
Qed.

(* ====================================================================== *)
(* 1. the records of a queue after replaying ANY entry list                *)
(* ====================================================================== *)

Definition tpos (r : trec) : N := fst (snd r).

(* positions strictly increasing, from lo on *)
Fixpoint pos_inc (lo : N) (l : list trec) : Prop :=
  match l with
  | [] => True
  | r :: t => lo <= tpos r /\ pos_inc (tpos r + 1) t
  end.

Lemma pos_inc_weaken lo lo' l : pos_inc lo l -> lo' <= lo -> pos_inc lo' l.
Proof. destruct l as [|r t]; cbn [pos_inc]; [trivial|]. intros (H1 & H2) H. split; [lia|exact H2]. Qed.

Lemma pos_inc_ge : forall l lo x, pos_inc lo l -> In x l -> lo <= tpos x.
Proof.
  induction l as [|r t IH]; intros lo x H Hin; [destruct Hin|].
  cbn [pos_inc] in H. destruct H as (H1 & H2). destruct Hin as [<-|Hin]; [exact H1|].
  specialize (IH _ _ H2 Hin). lia.
Qed.

Lemma pos_inc_app : forall a lo n b,
  lo <= n -> pos_inc lo a -> Forall (fun r => tpos r < n) a -> pos_inc n b -> pos_inc lo (a ++ b).
Proof.
  induction a as [|r t IH]; intros lo n b Hle Ha Hf Hb; cbn [app].
  - eapply pos_inc_weaken; [exact Hb|exact Hle].
  - cbn [pos_inc] in *. destruct Ha as (H1 & H2). inversion Hf as [|? ? Hr Ht]; subst.
    split; [exact H1|]. apply (IH _ n); [lia|exact H2|exact Ht|exact Hb].
Qed.

Lemma pos_inc_app_r : forall a lo b, pos_inc lo (a ++ b) -> pos_inc lo b.
Proof.
  induction a as [|r t IH]; intros lo b H; cbn [app] in H; [exact H|].
  cbn [pos_inc] in H. destruct H as (H1 & H2). apply IH in H2.
  eapply pos_inc_weaken; [exact H2|lia].
Qed.

Lemma pos_inc_skipn k : forall l lo, pos_inc lo l -> pos_inc lo (skipn k l).
Proof.
  intros l lo H. rewrite <- (firstn_skipn k l) in H. eapply pos_inc_app_r; exact H.
Qed.

Lemma pos_inc_filter f : forall l lo, pos_inc lo l -> pos_inc lo (filter f l).
Proof.
  induction l as [|r t IH]; intros lo H; [exact I|].
  cbn [pos_inc filter] in *. destruct H as (H1 & H2). specialize (IH _ H2).
  destruct (f r).
  - cbn [pos_inc]. split; assumption.
  - eapply pos_inc_weaken; [exact IH|lia].
Qed.

(* removing the records at or below p removes a PREFIX *)
Lemma filter_gt_skipn p : forall l lo, pos_inc lo l ->
  exists k, (k <= length l)%nat /\ filter (fun r => p <? fst (snd r)) l = skipn k l.
Proof.
  induction l as [|r t IH]; intros lo H.
  - exists 0%nat. split; [cbn [length]; lia|reflexivity].
  - cbn [pos_inc] in H. destruct H as (H1 & H2).
    destruct (N.ltb_spec p (fst (snd r))) as [Hlt|Hge].
    + exists 0%nat. split; [lia|]. cbn [skipn]. apply filter_all_true.
      intros x [<-|Hx]; [apply N.ltb_lt; exact Hlt|].
      pose proof (pos_inc_ge _ _ _ H2 Hx) as Hg. unfold tpos in Hg. apply N.ltb_lt. lia.
    + destruct (IH _ H2) as (k & Hk & E). exists (S k). split; [cbn [length]; lia|].
      cbn [filter skipn]. destruct (N.ltb_spec p (fst (snd r))) as [Hc|_]; [lia|exact E].
Qed.

Lemma pos_inc_tag_with i : forall new next n,
  chk_pos next new = Some n -> pos_inc next (tag_with i new).
Proof.
  induction new as [|[p x] r IH]; intros next n H; cbn [chk_pos] in H; [exact I|].
  destruct (N.ltb_spec p next) as [_|Hge]; [discriminate|].
  cbn [tag_with map pos_inc]. split; [unfold tpos; cbn [fst snd]; exact Hge|].
  unfold tpos at 1. cbn [fst snd]. eapply IH; exact H.
Qed.

(* what entry number i contributes to queue q, and the contributions of a list from index i on *)
Definition contrib (q : bytes) (i : nat) (e : entry) : list trec :=
  match e with
  | EAppend q' _ recs => if bytes_eqb q' q then tag_with i recs else []
  | _ => []
  end.

Fixpoint flat (q : bytes) (i : nat) (es : list entry) : list trec :=
  match es with
  | [] => []
  | e :: r => contrib q i e ++ flat q (S i) r
  end.

Lemma contrib_other q i e : entry_queue e <> q -> contrib q i e = [].
Proof.
  destruct e as [q' pos recs|q' p|q' p|q' p]; cbn [contrib entry_queue]; try reflexivity.
  intros H. apply bytes_eqb_neq in H. now rewrite H.
Qed.

(* the view of one queue: positions strictly increasing and below next; the records are a suffix
   of F (the contributions so far) *)
Definition sfx (F : list trec) (v : option tqueue) : Prop :=
  match v with
  | None => True
  | Some (rf, n) =>
      pos_inc 0 rf /\ Forall (fun r => tpos r < n) rf /\
      exists k, (k <= length F)%nat /\ rf = skipn k F
  end.

Lemma q_apply_sfx q F v i e v' :
  entry_queue e = q -> sfx F v -> q_apply v i e = Some v' -> sfx (F ++ contrib q i e) v'.
Proof.
  intros Hq Hs H. destruct e as [q' pos recs|q' p|q' p|q' p]; cbn [entry_queue] in Hq; subst q';
    cbn [q_apply contrib] in *; rewrite ?bytes_eqb_refl, ?app_nil_r.
  - (* EAppend *)
    assert (H0 : exists old next, match v with Some v0 => v0 | None => ([], pos) end = (old, next) /\
              pos_inc 0 old /\ Forall (fun r => tpos r < next) old /\
              exists k, (k <= length F)%nat /\ old = skipn k F).
    { destruct v as [[rf n]|].
      - exists rf, n. split; [reflexivity|exact Hs].
      - exists [], pos. split; [reflexivity|]. split; [exact I|]. split; [constructor|].
        exists (length F). split; [lia|]. symmetry. apply skipn_all. }
    destruct H0 as (old & next & Ev & H1 & H2 & k & Hk & Ek). rewrite Ev in H.
    rewrite t_append_all_eq in H. destruct (chk_pos next recs) as [n|] eqn:Ec; [|discriminate].
    inversion H; subst v'. cbn [sfx].
    destruct (chk_pos_bound _ _ _ Ec) as (Hn & Hb). split; [|split].
    + apply (pos_inc_app old 0 next); [lia|exact H1|exact H2|]. eapply pos_inc_tag_with; exact Ec.
    + apply Forall_app. split.
      * eapply Forall_impl; [|exact H2]. cbn beta. intros a Ha. lia.
      * unfold tag_with. apply Forall_map. eapply Forall_impl; [|exact Hb].
        cbn beta. intros a Ha. unfold tpos. cbn [snd]. lia.
    + exists k. split; [rewrite app_length; lia|].
      rewrite skipn_app, <- Ek. replace (k - length F)%nat with 0%nat by lia. reflexivity.
  - (* ETruncate *)
    destruct v as [[rf n]|]; inversion H; subst v'; [|exact I].
    cbn [sfx] in Hs. destruct Hs as (H1 & H2 & k & Hk & Ek). unfold t_truncate. cbn [sfx].
    split; [now apply pos_inc_filter|]. split.
    + apply Forall_filter. eapply Forall_impl; [|exact H2]. cbn beta. intros a Ha.
      destruct (isnil _ && (n <=? p + 1)) eqn:Eb; lia.
    + destruct (filter_gt_skipn p rf 0 H1) as (k' & Hk' & E'). exists (k + k')%nat. split.
      * rewrite Ek, skipn_length in Hk'. lia.
      * rewrite E', Ek. apply skipn_skipn'.
  - (* EPosition *)
    assert (Hnil : sfx F (Some ([], p))).
    { cbn [sfx pos_inc]. split; [exact I|]. split; [constructor|].
      exists (length F). split; [lia|]. symmetry. apply skipn_all. }
    destruct v as [[rf n]|]; [|inversion H; subst; exact Hnil].
    destruct (negb (isnil rf) || negb (n =? p)); inversion H; subst; [exact Hnil|exact Hs].
  - inversion H; subst. exact I.
Qed.

Lemma t_replay_sfx q : forall es i m m' F,
  sfx F (t_get m q) -> t_replay m i es = Some m' -> sfx (F ++ flat q i es) (t_get m' q).
Proof.
  induction es as [|e r IH]; intros i m m' F Hs H; cbn [t_replay flat] in *.
  - inversion H; subst. now rewrite app_nil_r.
  - destruct (t_apply m i e) as [m1|] eqn:E1; [|discriminate].
    destruct (t_apply_some _ _ _ _ E1) as (Hq & Ho).
    rewrite app_assoc. apply (IH (S i) m1 m'); [|exact H].
    destruct (bytes_eqb (entry_queue e) q) eqn:Eb.
    + apply bytes_eqb_eq in Eb. eapply q_apply_sfx; [exact Eb| |rewrite <- Eb; exact Hq].
      rewrite Eb. exact Hs.
    + apply bytes_eqb_neq in Eb. rewrite (Ho q Eb), (contrib_other q i e Eb), app_nil_r. exact Hs.
Qed.

(* the closed form *)
Theorem t_replay_closed_form es S q rf n :
  t_replay [] 0 es = Some S -> t_get S q = Some (rf, n) ->
  pos_inc 0 rf /\ Forall (fun r => tpos r < n) rf /\
  exists k, (k <= length (flat q 0 es))%nat /\ rf = skipn k (flat q 0 es).
Proof.
  intros H Eq. pose proof (t_replay_sfx q es 0%nat [] S [] I H) as Hs.
  rewrite Eq in Hs. exact Hs.
Qed.

(* ---------- flat, cut at an entry ---------- *)
Lemma flat_app q : forall a i b, flat q i (a ++ b) = flat q i a ++ flat q (i + length a) b.
Proof.
  induction a as [|e r IH]; intros i b; cbn [app flat length].
  - now rewrite Nat.add_0_r.
  - rewrite IH, <- app_assoc. do 3 f_equal. lia.
Qed.

Lemma flat_tags q : forall es i, Forall (fun r => (i <= fst r < i + length es)%nat) (flat q i es).
Proof.
  induction es as [|e r IH]; intros i; cbn [flat length]; [constructor|].
  apply Forall_app. split.
  - destruct e as [q' pos recs|q' p|q' p|q' p]; cbn [contrib]; try constructor.
    destruct (bytes_eqb q' q); [|constructor]. unfold tag_with. apply Forall_map.
    apply Forall_forall. intros a _. cbn [fst]. lia.
  - eapply Forall_impl; [|apply IH]. cbn beta. intros a Ha. lia.
Qed.

Lemma nth_error_split' {A} : forall (l : list A) i x,
  nth_error l i = Some x -> l = firstn i l ++ x :: skipn (S i) l /\ length (firstn i l) = i.
Proof.
  induction l as [|y l IH]; intros [|i] x H; cbn [nth_error] in H; try discriminate.
  - inversion H; subst. split; reflexivity.
  - destruct (IH i x H) as [E L]. cbn [firstn skipn app length]. split; [now f_equal|now f_equal].
Qed.

Lemma flat_cut q es t e :
  nth_error es t = Some e ->
  flat q 0 es = flat q 0 (firstn t es) ++ contrib q t e ++ flat q (S t) (skipn (S t) es) /\
  Forall (fun r => (fst r < t)%nat) (flat q 0 (firstn t es)) /\
  Forall (fun r => (t < fst r)%nat) (flat q (S t) (skipn (S t) es)).
Proof.
  intros H. destruct (nth_error_split' _ _ _ H) as (E & L). split; [|split].
  - rewrite E at 1. rewrite flat_app, L. cbn [flat Nat.add]. reflexivity.
  - eapply Forall_impl; [|apply flat_tags]. cbn beta. intros a Ha. lia.
  - eapply Forall_impl; [|apply flat_tags]. cbn beta. intros a Ha. lia.
Qed.

Lemma contrib_tags q t e : Forall (fun r => fst r = t) (contrib q t e).
Proof.
  destruct e as [q' pos recs|q' p|q' p|q' p]; cbn [contrib]; try constructor.
  destruct (bytes_eqb q' q); [|constructor]. unfold tag_with. apply Forall_map.
  apply Forall_forall. intros a _. reflexivity.
Qed.

(* (tagged form) the records of q tagged t, t the index of an AppendRecords entry for q, are a
   suffix of that batch: all of it, or all above a truncation, or none *)
Theorem replay_batch_suffix_tagged es S q rf n t pos recs :
  t_replay [] 0 es = Some S -> t_get S q = Some (rf, n) ->
  nth_error es t = Some (EAppend q pos recs) ->
  exists j, filter (fun r => (fst r =? t)%nat) rf = tag_with t (skipn j recs).
Proof.
  intros H Eq Hn. destruct (t_replay_closed_form es S q rf n H Eq) as (_ & _ & k & _ & ->).
  destruct (flat_cut q es t _ Hn) as (E & HA & HB). rewrite E.
  cbn [contrib]. rewrite bytes_eqb_refl.
  exists (k - length (flat q 0 (firstn t es)))%nat.
  rewrite filter_skipn_mid.
  - unfold tag_with. apply skipn_map.
  - intros x Hx. rewrite Forall_forall in HA. specialize (HA x Hx). cbn beta in HA.
    apply Nat.eqb_neq. lia.
  - intros x Hx. rewrite Forall_forall in HB. specialize (HB x Hx). cbn beta in HB.
    apply Nat.eqb_neq. lia.
  - intros x Hx. unfold tag_with in Hx. apply in_map_iff in Hx. destruct Hx as (a & <- & _).
    cbn [fst]. apply Nat.eqb_refl.
Qed.

(* (no missing tail) once a record tagged t is retained, every later batch for q is retained in
   full *)
Theorem replay_no_missing_tail es S q rf n r t' pos' recs' :
  t_replay [] 0 es = Some S -> t_get S q = Some (rf, n) ->
  In r rf -> (fst r < t')%nat -> nth_error es t' = Some (EAppend q pos' recs') ->
  forall x, In x recs' -> In (t', x) rf.
Proof.
  intros H Eq Hr Hlt Hn x Hx.
  destruct (t_replay_closed_form es S q rf n H Eq) as (_ & _ & k & _ & ->).
  destruct (flat_cut q es t' _ Hn) as (E & HA & HB). rewrite E in *.
  cbn [contrib] in *. rewrite bytes_eqb_refl in *.
  rewrite skipn_app in Hr |- *. apply in_app_or in Hr. destruct Hr as [Hr|Hr].
  - (* r is in the part before: k is inside it, so what follows is entire *)
    assert (Hk : (k < length (flat q 0 (firstn t' es)))%nat).
    { destruct (Nat.lt_ge_cases k (length (flat q 0 (firstn t' es)))) as [Hk|Hk]; [exact Hk|].
      rewrite skipn_all2 in Hr by exact Hk. destruct Hr. }
    apply in_or_app. right. replace (k - length (flat q 0 (firstn t' es)))%nat with 0%nat by lia.
    cbn [skipn]. apply in_or_app. left. unfold tag_with. apply in_map. exact Hx.
  - exfalso. apply In_skipn in Hr. apply in_app_or in Hr. destruct Hr as [Hr|Hr].
    + unfold tag_with in Hr. apply in_map_iff in Hr. destruct Hr as (a & <- & _). cbn [fst] in Hlt. lia.
    + rewrite Forall_forall in HB. specialize (HB r Hr). cbn beta in HB. lia.
Qed.

(* ---------- without tags ---------- *)
(* the batches appended to q by the entries of es, concatenated in log order *)
Definition appended (q : bytes) (es : list entry) : list (N * bytes) :=
  flat_map (fun e => match e with
                     | EAppend q' _ recs => if bytes_eqb q' q then recs else []
                     | _ => []
                     end) es.

Lemma map_snd_tag_with i l : map snd (tag_with i l) = l.
Proof. unfold tag_with. rewrite map_map. cbn [snd]. apply map_id. Qed.

Lemma map_snd_flat q : forall es i, map snd (flat q i es) = appended q es.
Proof.
  induction es as [|e r IH]; intros i; cbn [flat appended flat_map]; [reflexivity|].
  rewrite map_app, IH. f_equal.
  destruct e as [q' pos recs|q' p|q' p|q' p]; cbn [contrib]; try reflexivity.
  destruct (bytes_eqb q' q); [apply map_snd_tag_with|reflexivity].
Qed.

Theorem t_replay_suffix_of_appended es S q rf n :
  t_replay [] 0 es = Some S -> t_get S q = Some (rf, n) ->
  exists k, map snd rf = skipn k (appended q es).
Proof.
  intros H Eq. destruct (t_replay_closed_form es S q rf n H Eq) as (_ & _ & k & _ & ->).
  exists k. rewrite <- (map_snd_flat q es 0), skipn_map. reflexivity.
Qed.

(* ====================================================================== *)
(* 2. the position form                                                    *)
(* ====================================================================== *)

(* the positions b <= . < e (CrashCorollaries.in_span) *)
Definition in_span (b e : N) (r : N * bytes) : bool := (b <=? fst r) && (fst r <? e).

Lemma skipn_number_from : forall k pl b,
  skipn k (number_from b pl) = number_from (b + N.of_nat k) (skipn k pl).
Proof.
  induction k as [|k IH]; intros pl b.
  - cbn [skipn]. f_equal. lia.
  - destruct pl as [|x pl]; cbn [number_from skipn]; [reflexivity|]. rewrite IH. f_equal. lia.
Qed.

Lemma lenN_skipn {A} k (l : list A) : (k <= length l)%nat -> N.of_nat k + lenN (skipn k l) = lenN l.
Proof. intros H. rewrite !lenN_length, skipn_length. lia. Qed.

(* what follows a non-empty run of consecutively numbered records lies above the run *)
Lemma pos_inc_number_from_tail i : forall pl p lo R,
  pos_inc lo (tag_with i (number_from p pl) ++ R) -> pl <> [] ->
  Forall (fun y => p + lenN pl <= tpos y) R.
Proof.
  induction pl as [|x pl IH]; intros p lo R H Hne; [congruence|].
  cbn [number_from tag_with map app pos_inc] in H. destruct H as (_ & H).
  unfold tpos at 1 in H. cbn [fst snd] in H. rewrite lenN_cons.
  destruct pl as [|y pl].
  - cbn [number_from map app] in H. rewrite lenN_nil. apply Forall_forall. intros z Hz.
    pose proof (pos_inc_ge _ _ _ H Hz). lia.
  - fold (tag_with i (number_from (p + 1) (y :: pl))) in H.
    eapply Forall_impl; [|apply (IH (p + 1) _ R H); discriminate]. cbn beta. intros a Ha. lia.
Qed.

Lemma number_from_in_span : forall pl b x,
  In x (number_from b pl) -> b <= fst x < b + lenN pl.
Proof.
  induction pl as [|y pl IH]; intros b x Hx; cbn [number_from] in Hx; [destruct Hx|].
  rewrite lenN_cons. destruct Hx as [<-|Hx]; [cbn [fst]; lia|]. apply IH in Hx. lia.
Qed.

Section Span.
Variable q : bytes.
Variable b : N.
Variable pl : list bytes.
Let e0 : entry := EAppend q b (number_from b pl).
Let span (r : trec) : bool := in_span b (b + lenN pl) (snd r).

(* every entry is the batch itself, or contributes nothing at a position of the batch *)
Definition span_ok (es : list entry) : Prop :=
  forall e, In e es -> e = e0 \/ forall i x, In x (contrib q i e) -> span x = false.

Lemma span_flat : forall es i k lo,
  span_ok es -> pos_inc lo (skipn k (flat q i es)) ->
  exists j, map snd (filter span (skipn k (flat q i es))) = skipn j (number_from b pl).
Proof.
  induction es as [|e r IH]; intros i k lo Hok Hinc; cbn [flat] in *.
  - rewrite skipn_nil. exists (length (number_from b pl)). cbn [filter map]. symmetry. apply skipn_all.
  - assert (Hok' : span_ok r) by (intros e' He'; apply Hok; now right).
    rewrite skipn_app in Hinc |- *. rewrite filter_app, map_app.
    destruct (Hok e (or_introl eq_refl)) as [->|Hno].
    + (* the batch *)
      unfold e0 in Hinc |- *. cbn [contrib] in Hinc |- *. rewrite bytes_eqb_refl in Hinc |- *.
      destruct (Nat.lt_ge_cases k (length (tag_with i (number_from b pl)))) as [Hk|Hk].
      * (* the cut is inside the batch: nothing of the span follows *)
        replace (k - length (tag_with i (number_from b pl)))%nat with 0%nat in * by lia.
        cbn [skipn] in *. unfold tag_with in Hk. rewrite map_length, length_number_from in Hk.
        unfold tag_with in Hinc |- *. rewrite skipn_map, skipn_number_from in Hinc |- *.
        fold (tag_with i (number_from (b + N.of_nat k) (skipn k pl))) in Hinc |- *.
        assert (Hne : skipn k pl <> []).
        { intros E. apply (f_equal (@length bytes)) in E. rewrite skipn_length in E. cbn [length] in E. lia. }
        pose proof (pos_inc_number_from_tail i _ _ _ _ Hinc Hne) as Htail.
        rewrite <- N.add_assoc, (lenN_skipn k pl) in Htail by lia.
        rewrite (filter_all_false span (flat q (S i) r)).
        2:{ intros y Hy. rewrite Forall_forall in Htail. specialize (Htail y Hy). cbn beta in Htail.
            unfold span, in_span, tpos in *. apply andb_false_iff. right. lia. }
        rewrite (filter_all_true span).
        2:{ intros y Hy. unfold tag_with in Hy. apply in_map_iff in Hy. destruct Hy as (a & <- & Ha).
            apply number_from_in_span in Ha. rewrite (lenN_length (skipn k pl)), skipn_length in Ha.
            unfold span, in_span. cbn [snd]. rewrite lenN_length. apply andb_true_iff. split; lia. }
        exists k. cbn [map]. rewrite app_nil_r, map_snd_tag_with. symmetry. apply skipn_number_from.
      * rewrite skipn_all2 in Hinc |- * by exact Hk. cbn [filter map app] in *.
        apply (IH (S i) _ lo Hok' Hinc).
    + rewrite (filter_all_false span (skipn k (contrib q i e)))
        by (intros y Hy; apply (Hno i); eapply In_skipn; exact Hy).
      cbn [map app]. apply (IH (S i) _ lo Hok'). eapply pos_inc_app_r; exact Hinc.
Qed.

(* (position form) the records of q with a position of the batch are a suffix of the batch *)
Theorem t_replay_span_suffix es S rf n :
  t_replay [] 0 es = Some S -> t_get S q = Some (rf, n) -> span_ok es ->
  exists j, filter (in_span b (b + lenN pl)) (map snd rf) = skipn j (number_from b pl).
Proof.
  intros H Eq Hok. destruct (t_replay_closed_form es S q rf n H Eq) as (Hinc & _ & k & _ & E).
  rewrite E in Hinc. destruct (span_flat es 0%nat k 0 Hok Hinc) as (j & Hj).
  exists j. rewrite <- Hj, <- E. symmetry. apply (map_snd_filter (in_span b (b + lenN pl))).
Qed.

End Span.

Print Assumptions t_replay_closed_form.
Print Assumptions replay_batch_suffix_tagged.
Print Assumptions replay_no_missing_tail.
Print Assumptions t_replay_suffix_of_appended.
Print Assumptions t_replay_span_suffix.

(* ====================================================================== *)
(* 3. legal logs: the positions of the batches of one incarnation          *)
(* ====================================================================== *)

(* every AppendRecords entry of a legal log is a non-empty run of consecutive positions *)
Lemma legal_log_append_shape q pos recs : forall es m i,
  legal_log m i es -> In (EAppend q pos recs) es ->
  recs <> [] /\ exists pl, recs = number_from pos pl.
Proof.
  induction es as [|e r IH]; intros m i Hl Hin; [destruct Hin|].
  destruct (legal_log_cons_inv _ _ _ _ Hl) as (Hle & m1 & _ & Hr).
  destruct Hin as [->|Hin]; [|exact (IH _ _ Hr Hin)].
  cbn [legal] in Hle. destruct Hle as (old & next & _ & _ & Hne & Hpl). split; assumption.
Qed.

Definition nodel (q : bytes) (es : list entry) : Prop := forall p, ~ In (EDelete q p) es.

Lemma nodel_tail q e es : nodel q (e :: es) -> nodel q es.
Proof. intros H p Hin. apply (H p). now right. Qed.

(* one legal step that is not a DeleteQueue of q: q stays, its next position does not decrease *)
Lemma legal_step_next q m i e m' old n :
  legal m e -> t_apply m i e = Some m' -> (forall p, e <> EDelete q p) ->
  t_get m q = Some (old, n) ->
  exists old' n', t_get m' q = Some (old', n') /\ n <= n'.
Proof.
  intros Hle Ha Hnd Eq. destruct (t_apply_some _ _ _ _ Ha) as (Hq & Ho).
  destruct (bytes_eqb (entry_queue e) q) eqn:Eb.
  2:{ apply bytes_eqb_neq in Eb. rewrite (Ho q Eb), Eq. exists old, n. split; [reflexivity|lia]. }
  apply bytes_eqb_eq in Eb. rewrite Eb, Eq in Hq.
  destruct e as [q' pos recs|q' p|q' p|q' p]; cbn [entry_queue] in Eb; subst q';
    cbn [q_apply legal] in Hq, Hle.
  - rewrite t_append_all_eq in Hq. destruct (chk_pos n recs) as [n'|] eqn:Ec; [|discriminate].
    injection Hq as Hv. destruct (chk_pos_bound _ _ _ Ec) as (Hn & _).
    eexists _, n'. split; [symmetry; exact Hv|exact Hn].
  - injection Hq as Hv. unfold t_truncate in Hv. eexists _, _. split; [symmetry; exact Hv|].
    destruct (isnil _ && (n <=? p + 1)) eqn:C; [|lia].
    apply andb_true_iff in C as (_ & C). lia.
  - destruct Hle as [(Hn & _)|(next & Hn & Hp)]; [congruence|].
    rewrite Eq in Hn. inversion Hn; subst old next. subst p. cbn [isnil negb orb] in Hq.
    rewrite N.eqb_refl in Hq. cbn [negb] in Hq. injection Hq as Hv.
    exists [], n. split; [symmetry; exact Hv|lia].
  - exfalso. exact (Hnd p eq_refl).
Qed.

(* right after a legal AppendRecords entry the next position of q is just past the batch *)
Lemma legal_append_next q m i pos recs m' :
  legal m (EAppend q pos recs) -> t_apply m i (EAppend q pos recs) = Some m' ->
  exists old', t_get m' q = Some (old', pos + lenN recs).
Proof.
  intros Hle Ha. destruct (t_apply_some _ _ _ _ Ha) as (Hq & _). cbn [entry_queue] in Hq.
  cbn [legal] in Hle. destruct Hle as (old & next & Eq & Hn & Hne & pl & ->).
  rewrite Eq in Hq. cbn [q_apply] in Hq. rewrite t_append_all_eq in Hq.
  rewrite (chk_pos_number_from pl pos next Hn) in Hq by (eapply number_from_nonnil; exact Hne).
  injection Hq as Hv. eexists. rewrite <- Hv. do 2 f_equal.
  rewrite !lenN_length, length_number_from. reflexivity.
Qed.

(* while q is not deleted, every later batch lies at or above the current next position *)
Lemma legal_log_appends_ge q : forall es m i old n,
  legal_log m i es -> nodel q es -> t_get m q = Some (old, n) ->
  forall a p recs x, nth_error es a = Some (EAppend q p recs) -> In x recs -> n <= fst x.
Proof.
  induction es as [|e r IH]; intros m i old n Hl Hnd Eq a p recs x Ha Hx; [destruct a; discriminate|].
  destruct (legal_log_cons_inv _ _ _ _ Hl) as (Hle & m1 & Hm1 & Hr).
  destruct a as [|a]; cbn [nth_error] in Ha.
  - inversion Ha; subst e. cbn [legal] in Hle.
    destruct Hle as (old' & next & Eq' & Hn & _ & pl & ->). rewrite Eq in Eq'. inversion Eq'; subst.
    apply number_from_in_span in Hx. lia.
  - destruct (legal_step_next q m i e m1 old n Hle Hm1) as (old' & n' & Eq1 & Hn); [|exact Eq|].
    { intros p0 ->. apply (Hnd p0). now left. }
    pose proof (IH m1 (S i) old' n' Hr (nodel_tail _ _ _ Hnd) Eq1 a p recs x Ha Hx). lia.
Qed.

(* two batches of the same incarnation: the later one lies entirely above the earlier one *)
Lemma legal_log_batches_ordered q : forall es m i,
  legal_log m i es -> nodel q es ->
  forall a c p recs p' recs', (a < c)%nat ->
    nth_error es a = Some (EAppend q p recs) -> nth_error es c = Some (EAppend q p' recs') ->
    forall x, In x recs' -> p + lenN recs <= fst x.
Proof.
  induction es as [|e r IH]; intros m i Hl Hnd a c p recs p' recs' Hac Ha Hc x Hx;
    [destruct a; discriminate|].
  destruct (legal_log_cons_inv _ _ _ _ Hl) as (Hle & m1 & Hm1 & Hr).
  destruct c as [|c]; [lia|]. cbn [nth_error] in Hc.
  destruct a as [|a]; cbn [nth_error] in Ha.
  - inversion Ha; subst e.
    destruct (legal_append_next q m i p recs m1 Hle Hm1) as (old' & Eq1).
    exact (legal_log_appends_ge q r m1 (S i) old' _ Hr (nodel_tail _ _ _ Hnd) Eq1 c p' recs' x Hc Hx).
  - exact (IH m1 (S i) Hr (nodel_tail _ _ _ Hnd) a c p recs p' recs' ltac:(lia) Ha Hc x Hx).
Qed.

Print Assumptions legal_log_batches_ordered.

(* ====================================================================== *)
(* 4. end to end                                                           *)
(* ====================================================================== *)
From MRL Require Import Names NamesProofs Frame Rolling Driver StreamProofs DamageProofs TornProofs
  PolicyProofs GcProofs FileStream ResyncProofs GhostLog OpenTerm OpenReplay TornFile DamageFile
  HeaderDamageEv HeaderDamage HandleProofs RestartInv RestartFinal DamageAtomic HeaderDamageFile.

Local Notation sublistD := DamageProofs.sublist.

(* the model's replay of a tagged entry list, seen through the spec-level replay *)
Lemma replay_sub_views (tags : list N) (Es' : list entry) qD :
  length tags = length Es' -> replay_entries [] (combine tags Es') = Some qD ->
  exists S, t_replay [] 0 Es' = Some S /\
    forall q m, qs_get qD q = Some m ->
      exists rf n, t_get S q = Some (rf, n) /\ map snd rf = records_of (q_buf m) (q_metas m).
Proof.
  intros Hlt Hrep.
  destruct (replay_views_from [] (combine tags Es') qD Hrep) as (cm & S & _ & ES & _ & _ & _ & Hu & _).
  cbn [length] in ES. rewrite map_snd_combine' in ES by exact Hlt.
  exists S. split; [exact ES|]. intros q m Eq.
  pose proof (untag_abs_get S qD q Hu) as Hq. rewrite Eq in Hq.
  destruct (t_get S q) as [[rf n]|]; [|contradiction].
  unfold untag_q, abs_q in Hq. cbn [fst snd] in Hq. injection Hq as Hr _.
  exists rf, n. split; [reflexivity|exact Hr].
Qed.

Lemma lenN_number_from p pl : lenN (number_from p pl) = lenN pl.
Proof. rewrite !lenN_length, length_number_from. reflexivity. Qed.

Section E2E.
Variable P : params.
Hypothesis HBS_lo : 7 < BS P.
Hypothesis HBS_hi : BS P <= 65542.
Hypothesis HNB : 1 <= NB P.
Hypothesis Hcrc : forall t p, crcf P t p < 2 ^ 32.
Hypothesis HIO : L_IO P = false.

(* what open returns from a header-damaged directory, when it returns a state: the replay of a
   sub-list of the kept log, seen through the spec-level replay *)
Lemma header_damage_views st G blk D fs_d :
  Inv P st G -> header_damaged_dir P st G blk D fs_d ->
  forall pol hint st_r, open P fs_d None pol hint = OpenOk st_r ->
  exists Es' S, sublistD Es' (map snd (gh_E G)) /\ t_replay [] 0 Es' = Some S /\
    forall q m, qs_get (s_qs st_r) q = Some m ->
      exists rf n, t_get S q = Some (rf, n) /\ map snd rf = records_of (q_buf m) (q_metas m).
Proof.
  intros HI Hd pol hint st_r Ho.
  destruct (C08_header_damage P HBS_lo HBS_hi HNB Hcrc HIO st G blk D fs_d HI Hd pol hint)
    as (w0 & tags & Es' & Hsub & Hlt & Hm).
  destruct (replay_entries [] (combine tags Es')) as [qD|] eqn:Erep.
  2:{ destruct Hm as (c & Hc). rewrite Hc in Ho. discriminate Ho. }
  destruct Hm as (_ & Hqs & _). rewrite (Hqs st_r Ho).
  destruct (replay_sub_views tags Es' qD Hlt Erep) as (S & ES & HS).
  exists Es', S. split; [exact Hsub|]. split; [exact ES|exact HS].
Qed.

(* (C12, sub-list form, no side condition)  Whatever open recovers from the damaged directory,
   the records of every queue q are a SUFFIX of the concatenation, in log order, of the batches
   appended to q by the entries of a sub-list Es' of the kept log: each surviving batch is there
   in full, except that a leading part of the concatenation may be gone (truncation, or a
   queue reset) — never a hole inside a batch, never a batch without its tail, never a payload
   that was not appended at that place. *)
Theorem C12_header_damage_suffix st G blk D fs_d :
  Inv P st G -> header_damaged_dir P st G blk D fs_d ->
  forall pol hint st_r, open P fs_d None pol hint = OpenOk st_r ->
  exists Es', sublistD Es' (map snd (gh_E G)) /\
    forall q m, qs_get (s_qs st_r) q = Some m ->
      exists k, records_of (q_buf m) (q_metas m) = skipn k (appended q Es').
Proof.
  intros HI Hd pol hint st_r Ho.
  destruct (header_damage_views st G blk D fs_d HI Hd pol hint st_r Ho) as (Es' & S & Hsub & ES & HS).
  exists Es'. split; [exact Hsub|]. intros q m Eq.
  destruct (HS q m Eq) as (rf & n & Et & Hr).
  destruct (t_replay_suffix_of_appended Es' S q rf n ES Et) as (k & Hk).
  exists k. rewrite <- Hr. exact Hk.
Qed.

(* the batch: entry number j of the kept log, EAppend q pos recs.  fresh = no OTHER entry of the
   kept log appended to q at a position of the batch *)
Definition batch_fresh (G : ghost) (j : nat) (q : bytes) (pos : N) (recs : list (N * bytes)) : Prop :=
  forall j' f' pos' recs', j' <> j ->
    nth_error (gh_E G) j' = Some (f', EAppend q pos' recs') ->
    forall r, In r recs' -> in_span pos (pos + lenN recs) r = false.

(* (C12, position form)  For a batch whose positions no other entry of the kept log used for q:
   the records of the recovered q with a position of the batch are NONE of the batch, or ALL of
   it, or all of it above a truncation: skipn k of the batch — never a hole, never a missing
   tail, never another payload. *)
Theorem C12_header_damage st G blk D fs_d :
  Inv P st G -> header_damaged_dir P st G blk D fs_d ->
  forall pol hint st_r, open P fs_d None pol hint = OpenOk st_r ->
  forall j fB q pos recs, nth_error (gh_E G) j = Some (fB, EAppend q pos recs) ->
    batch_fresh G j q pos recs ->
    forall m, qs_get (s_qs st_r) q = Some m ->
      exists k, filter (in_span pos (pos + lenN recs)) (records_of (q_buf m) (q_metas m)) =
                skipn k recs.
Proof.
  intros HI Hd pol hint st_r Ho j fB q pos recs Hj Hfresh m Eq.
  destruct (header_damage_views st G blk D fs_d HI Hd pol hint st_r Ho) as (Es' & S & Hsub & ES & HS).
  destruct (HS q m Eq) as (rf & n & Et & Hr).
  (* the batch is a run of consecutive positions *)
  assert (Hshape : recs <> [] /\ exists pl, recs = number_from pos pl).
  { destruct HI as (_ & (_ & Hleg & _)).
    apply (legal_log_append_shape q pos recs (gh_ALL G) [] 0%nat Hleg).
    rewrite gh_ALL_split. apply in_or_app. right.
    apply in_map_iff. exists (fB, EAppend q pos recs). split; [reflexivity|].
    eapply nth_error_In; exact Hj. }
  destruct Hshape as (_ & pl & ->). rewrite lenN_number_from in *.
  rewrite <- Hr. apply (t_replay_span_suffix q pos pl Es' S rf n ES Et).
  intros e He.
  pose proof (sublistD_In _ _ _ Hsub He) as Hin. apply in_map_iff in Hin.
  destruct Hin as ([f' e'] & Ee & Hin). cbn [snd] in Ee. subst e'.
  destruct (In_nth_error _ _ Hin) as (j' & Hj').
  destruct e as [q' pos' recs'|q' p|q' p|q' p]; try (right; intros i x []).
  destruct (bytes_eqb q' q) eqn:Eb.
  2:{ right. intros i x Hx. cbn [contrib] in Hx. rewrite Eb in Hx. destruct Hx. }
  apply bytes_eqb_eq in Eb. subst q'.
  destruct (Nat.eq_dec j' j) as [->|Hne].
  - left. rewrite Hj in Hj'. injection Hj' as _ <- <-. reflexivity.
  - right. intros i x Hx. cbn [contrib] in Hx. rewrite bytes_eqb_refl in Hx.
    unfold tag_with in Hx. apply in_map_iff in Hx. destruct Hx as (a & <- & Ha). cbn [snd].
    rewrite <- (lenN_number_from pos pl). exact (Hfresh j' f' pos' recs' Hne Hj' a Ha).
Qed.

(* the side condition holds when the kept log has no DeleteQueue entry for q: within one
   incarnation of a queue, positions are never reused *)
Theorem never_deleted_batch_fresh st G j fB q pos recs :
  Inv P st G -> nth_error (gh_E G) j = Some (fB, EAppend q pos recs) ->
  (forall f p, ~ In (f, EDelete q p) (gh_E G)) ->
  batch_fresh G j q pos recs.
Proof.
  intros HI Hj Hnd j' f' pos' recs' Hne Hj' r Hr.
  destruct HI as (_ & (_ & Hleg & _)). rewrite gh_ALL_split in Hleg.
  destruct (legal_log_app _ _ _ _ Hleg) as (M & _ & HlE). cbn [Nat.add] in HlE.
  set (es := map snd (gh_E G)) in *.
  assert (Hnd' : nodel q es).
  { intros p Hin. apply in_map_iff in Hin. destruct Hin as ([f e] & Ee & Hin). cbn [snd] in Ee.
    subst e. exact (Hnd f p Hin). }
  assert (Ej : nth_error es j = Some (EAppend q pos recs))
    by (unfold es; rewrite (map_nth_error snd _ _ Hj); reflexivity).
  assert (Ej' : nth_error es j' = Some (EAppend q pos' recs'))
    by (unfold es; rewrite (map_nth_error snd _ _ Hj'); reflexivity).
  destruct (legal_log_append_shape q pos recs es M _ HlE (nth_error_In _ _ Ej)) as (Hn1 & pl & E1).
  destruct (legal_log_append_shape q pos' recs' es M _ HlE (nth_error_In _ _ Ej')) as (Hn2 & pl' & E2).
  unfold in_span.
  destruct (Nat.lt_ge_cases j j') as [Hlt|Hge].
  - (* the other batch is later: it lies above *)
    pose proof (legal_log_batches_ordered q es M _ HlE Hnd' j j' pos recs pos' recs' Hlt Ej Ej' r Hr).
    apply andb_false_iff. right. lia.
  - (* the other batch is earlier: it lies below *)
    assert (Hlt : (j' < j)%nat) by lia.
    assert (H0 : In (pos, hd [] pl) recs).
    { rewrite E1. destruct pl as [|x pl]; [now contradiction Hn1; rewrite E1|].
      cbn [number_from hd]. now left. }
    pose proof (legal_log_batches_ordered q es M _ HlE Hnd' j' j pos' recs' pos recs Hlt Ej' Ej _ H0) as Hle.
    cbn [fst] in Hle. rewrite E2 in Hr, Hle. apply number_from_in_span in Hr.
    rewrite lenN_number_from in Hle. apply andb_false_iff. left. lia.
Qed.

Corollary C12_header_damage_never_deleted st G blk D fs_d :
  Inv P st G -> header_damaged_dir P st G blk D fs_d ->
  forall pol hint st_r, open P fs_d None pol hint = OpenOk st_r ->
  forall j fB q pos recs, nth_error (gh_E G) j = Some (fB, EAppend q pos recs) ->
    (forall f p, ~ In (f, EDelete q p) (gh_E G)) ->
    forall m, qs_get (s_qs st_r) q = Some m ->
      exists k, filter (in_span pos (pos + lenN recs)) (records_of (q_buf m) (q_metas m)) =
                skipn k recs.
Proof.
  intros HI Hd pol hint st_r Ho j fB q pos recs Hj Hnd.
  apply (C12_header_damage st G blk D fs_d HI Hd pol hint st_r Ho j fB q pos recs Hj).
  exact (never_deleted_batch_fresh st G j fB q pos recs HI Hj Hnd).
Qed.

End E2E.

Print Assumptions C12_header_damage_suffix.
Print Assumptions C12_header_damage.
Print Assumptions never_deleted_batch_fresh.
Print Assumptions C12_header_damage_never_deleted.
