(* PersistImage.v — (2) the shape of EVERY process-crash image of a history from a persist point,
   under any persist policy: a contiguous file set lo' .. hi (a prefix of the old files possibly
   unlinked, new files created by roll-overs, only the last one possibly still empty), whose
   stream - after zero-extending the last file - is
       dropN ((lo' - base) * FILE) (T0 ++ zeros (c0 - |T0|) ++ takeN j NEWALL ++ zeros)
   with T0 / c0 the ghost stream / cursor of the persist point and NEWALL the bytes the history
   writes; and there is a call number g such that all the bytes written by the calls 1..g are in
   the image (|NEWALL_g| <= j) and no file is missing that the live log still had after call g
   (lo' <= first tracked file after call g): files are unlinked only after everything written
   before is in the OS. *)
From Coq Require Import Lia ZArith ZifyN ZifyNat ZifyBool List Sorted.
From MRL Require Import Bytes BytesProofs Params Names NamesProofs Frame Record Mem Spec Rolling Log
  Driver Hist SpecRefine RecordProofs StreamProofs PolicyProofs GcProofs GhostLog ReplaySpec
  HandleProofs FileStream ResyncProofs TornProofs PersistProofs WriterProofs EffectsProofs
  RestartInv RestartWrite RestartGc RestartStep OpenReplay RestartFinal TornFile CrashTrace
  PersistTrace PersistGc PersistLogic PersistRecover PersistSurvive PersistShape.

Arguments N.add : simpl never.
Arguments N.sub : simpl never.
Arguments N.mul : simpl never.
Arguments N.eqb : simpl never.
Arguments N.ltb : simpl never.
Arguments N.leb : simpl never.
Arguments N.div : simpl never.
Arguments N.modulo : simpl never.
Arguments N.min : simpl never.
Arguments N.max : simpl never.

Section Image.
Variable P : params.
Hypothesis HBS_lo : 7 < BS P.
Hypothesis HBS_hi : BS P <= 65542.
Hypothesis HNB : 1 <= NB P.
Hypothesis Hcrc : forall t p, crcf P t p < 2 ^ 32.
Hypothesis HGC : L_GC P = false.

Local Notation B := (BS P).
Local Notation FB := (FILE_BYTES P).
Local Notation ffp := (first_frame_pos P).
Local Notation encs_of := (encs_of P).
Local Notation sr := (map entry_ser).
Local Notation wtrace := (wtrace P).
Local Notation HW f := (f P HBS_lo HBS_hi HNB Hcrc) (only parsing).
Local Notation HG f := (f P HBS_lo HBS_hi HNB Hcrc HGC) (only parsing).
Local Notation HN f := (f P HBS_lo HBS_hi HNB) (only parsing).
Local Notation H3 f := (f P HBS_lo HBS_hi Hcrc) (only parsing).
Local Notation wabs := (wabs P).
Local Notation Inv := (Inv P).
Local Notation PInv := (PInv P).
Local Notation stream_bound := (stream_bound P).
Local Notation stN st h m := (fst (run P st (firstn m h))).

(* ---------- the shape of an image ---------- *)
(* S0: the stream up to the cursor of the reference point; NEW: the bytes written after it *)
Definition IShape (base : N) (S0 NEW : bytes) (img : fsT) (lo' hi : N) (short : bool) (z j : N)
  : Prop :=
  lo' <= hi /\ hi <= U64_MAX /\ nodup_keys img /\ dir_of img (nfiles lo' hi) /\
  list_wal_numbers img = nfiles lo' hi /\
  (forall n, lo' <= n <= hi ->
     exists b, fs_get img (filename n) = Some (FFile b) /\
               lenN b = if short && (n =? hi) then 0 else FB) /\
  j <= lenN NEW /\
  stream_of (zext P img hi) (nfiles lo' hi) =
    dropN ((lo' - base) * FB) (S0 ++ takeN j NEW ++ zerosN z) /\
  lenN S0 + j + z = (hi + 1 - base) * FB.

(* the reference point moves back: more bytes count as "written after it" *)
Lemma IShape_rebase base S0 N1 N2 N3 img lo' hi short z j :
  IShape base (S0 ++ N1) N2 img lo' hi short z j ->
  IShape base S0 (N1 ++ N2 ++ N3) img lo' hi short z (lenN N1 + j).
Proof.
  intros (H1 & H2 & H3' & H4 & H5 & H6 & H7 & H8 & H9).
  repeat (split; [assumption|]).
  split; [rewrite !lenN_app; lia|].
  split.
  - rewrite H8. f_equal. rewrite <- app_assoc. f_equal.
    rewrite takeN_app_ge by lia. replace (lenN N1 + j - lenN N1) with j by lia.
    rewrite <- app_assoc. f_equal. f_equal. now rewrite takeN_app_le by exact H7.
  - rewrite lenN_app in H9. lia.
Qed.

(* the oldest mu files are unlinked *)
Lemma IShape_remove base S0 NEW img lo hi short z j mu :
  IShape base S0 NEW img lo hi short z j -> base <= lo -> lo + N.of_nat mu <= hi ->
  IShape base S0 NEW (remove_files img (iota lo mu)) (lo + N.of_nat mu) hi short z j.
Proof.
  intros (H1 & H2 & Hnd & Hdir & Hlist & Hfiles & Hj & Hstr & Hlen) Hb Hmu.
  set (lo' := lo + N.of_nat mu) in *. set (img' := remove_files img (iota lo mu)).
  assert (HB : forall n, n <= U64_MAX -> ~ (lo <= n < lo') ->
            fs_get img' (filename n) = fs_get img (filename n)).
  { intros n Hn Hout. unfold img'. apply fs_get_remove_files_other.
    intros y Hy. apply iota_In in Hy. apply filename_neq; lia. }
  assert (HBn : forall n, lo <= n < lo' -> fs_get img' (filename n) = None).
  { intros n Hn. unfold img'. apply fs_get_removed. apply iota_In. lia. }
  assert (Hndi : nodup_keys img').
  { unfold img'. rewrite <- fold_unlinks. apply fold_nodup. exact Hnd. }
  assert (Hdir' : dir_of img' (nfiles lo' hi)).
  { intros n Hn. rewrite (HN nfiles_In) by lia. split.
    - intros (b & Hb'). destruct (N.lt_ge_cases n lo) as [Hlt|Hge0].
      + rewrite HB in Hb' by lia.
        assert (Hin : In n (nfiles lo hi)) by (apply (Hdir n Hn); now exists b).
        apply (HN nfiles_In) in Hin; lia.
      + destruct (N.lt_ge_cases n lo') as [Hlt'|Hge']; [rewrite HBn in Hb' by lia; discriminate|].
        split; [exact Hge'|]. rewrite HB in Hb' by lia.
        assert (Hin : In n (nfiles lo hi)) by (apply (Hdir n Hn); now exists b).
        apply (HN nfiles_In) in Hin; lia.
    - intros Hin. rewrite HB by lia. destruct (Hfiles n ltac:(lia)) as (b & Hb' & _). now exists b. }
  split; [lia|]. split; [exact H2|]. split; [exact Hndi|]. split; [exact Hdir'|].
  split; [apply (dir_listing P HBS_lo HBS_hi HNB); [exact Hndi|exact Hdir'|lia|lia]|].
  split; [intros n Hn; rewrite HB by lia; apply Hfiles; lia|].
  split; [exact Hj|]. split; [|exact Hlen].
  replace ((lo' - base) * FB) with ((lo - base) * FB + N.of_nat mu * FB).
  2:{ unfold lo'. rewrite <- N.mul_add_distr_r. f_equal. lia. }
  rewrite <- dropN_dropN, <- Hstr.
  replace (nfiles lo hi) with (iota lo mu ++ nfiles lo' hi).
  2:{ rewrite (HN nfiles_split lo lo' hi) by lia. do 2 f_equal. lia. }
  rewrite stream_of_app, dropN_app_exact'.
  - apply stream_of_ext. intros n Hn. apply (HN nfiles_In) in Hn; [|lia].
    destruct (N.eq_dec hi n) as [<-|Hne].
    + rewrite !(fcontent_zext_same P). f_equal. apply fcontent_ext. apply HB; lia.
    + rewrite !(fcontent_zext_other P) by lia. apply fcontent_ext. apply HB; lia.
  - rewrite (lenN_stream_of _ FB); [rewrite lenN_iota; lia|].
    intros n Hn. apply iota_In in Hn.
    rewrite (fcontent_zext_other P) by lia.
    destruct (Hfiles n ltac:(lia)) as (b & Hb' & Hl). rewrite (fcontent_get _ _ _ Hb').
    destruct (N.eqb_spec n hi) as [E|_]; [lia|]. now rewrite andb_false_r in Hl.
Qed.

(* ---------- cursors ---------- *)
Local Notation ccur w G := ((wlo w - gh_base G) * FB + wpos P w).
Local Notation Sg w G := (gh_T P G ++ zerosN (ccur w G - lenN (gh_T P G))).

Lemma cursor_abs w G : PInv w G -> gh_base G * FB + ccur w G = wabs w.
Proof.
  intros (Hw & _ & _ & Hbase & _). destruct Hw as (Hok & _).
  destruct (wr_ok_len P (HN HB0) HNB w Hok) as (Hn & Hn1).
  unfold PersistGc.wabs, wpos.
  assert (E : w_file w * FB = gh_base G * FB + (wlo w - gh_base G) * FB + (lenN (w_files w) - 1) * FB).
  { rewrite <- !N.mul_add_distr_r. f_equal. lia. }
  lia.
Qed.

Lemma lenN_Sg w G : PInv w G -> lenN (Sg w G) = ccur w G.
Proof.
  intros (_ & _ & _ & _ & Hc1 & _). cbn zeta in Hc1. rewrite lenN_app, lenN_zerosN. lia.
Qed.

(* the stream up to the cursor, from one anchor to the next *)
Lemma ghi_step w_g G_g w' G' Xs D' :
  PInv w_g G_g -> PInv w' G' -> gh_ALL G' = gh_ALL G_g ++ Xs -> gh_base G' = gh_base G_g ->
  D' = encs_of (wpos P w_g) (sr Xs) -> wabs w' = wabs w_g + lenN D' ->
  Sg w' G' = Sg w_g G_g ++ D'.
Proof.
  intros HPg HP' EALL Eb ED Habs.
  pose proof (cursor_abs _ _ HPg) as Ag. pose proof (cursor_abs _ _ HP') as A'.
  rewrite Eb in A'.
  assert (Ec : ccur w' G' = ccur w_g G_g + lenN D') by (rewrite Eb; lia).
  pose proof HPg as (_ & _ & _ & _ & Hc1 & Hc2 & _). cbn zeta in Hc1, Hc2.
  set (T_g := gh_T P G_g) in *. set (c_g := ccur w_g G_g) in *.
  assert (ET : gh_T P G' = T_g ++ encs_of (lenN T_g) (sr Xs)).
  { unfold gh_T, gh_ser. rewrite EALL, map_app, (H3 encs_of_app), N.add_0_l. reflexivity. }
  destruct Xs as [|x Xs'] eqn:EX.
  - cbn [map ResyncProofs.encs_of] in ED, ET. subst D'. rewrite app_nil_r in ET |- *.
    rewrite (@lenN_nil byte), N.add_0_r in Ec. rewrite ET, Ec. reflexivity.
  - rewrite <- EX in *. assert (Hne : sr Xs <> []) by (rewrite EX; discriminate).
    rewrite <- (HW CrashTrace.encs_of_between (lenN T_g) c_g (sr Xs) Hc1 Hc2 Hne) in ET.
    assert (Esh : encs_of c_g (sr Xs) = D').
    { rewrite ED. unfold c_g. apply (HW CrashTrace.encs_of_shift). apply (HN mulFB_mod). }
    rewrite Esh in ET.
    assert (El : lenN (gh_T P G') = ccur w' G').
    { rewrite ET, !lenN_app, lenN_zerosN, Ec. lia. }
    rewrite El, N.sub_diag. change (zerosN 0) with (@nil byte). rewrite app_nil_r, ET.
    now rewrite app_assoc.
Qed.

Lemma cpre_length pe evs : cpre pe evs -> (length pe <= length evs)%nat.
Proof. induction 1; cbn [length]; lia. Qed.

(* ---------- the image of a crash prefix of the data writes of a segment ---------- *)
Lemma seg_shape_plain base0 S0 NAg rest st_g G_g D' f1 off1 wevs tail pe :
  Inv st_g G_g -> w_pending (s_wr st_g) = [] -> gh_base G_g = base0 ->
  Sg (s_wr st_g) G_g = S0 ++ NAg ->
  wtrace (w_file (s_wr st_g)) (w_off (s_wr st_g)) wevs D' f1 off1 -> Forall noop_ev tail ->
  f1 <= U64_MAX -> cpre pe (wevs ++ tail) ->
  exists hi short z,
    IShape base0 S0 (NAg ++ D' ++ rest) (fold_left apply_event pe (c_fs (w_ctx (s_wr st_g))))
           (wlo (s_wr st_g)) hi short z (lenN NAg + lenN (ev_data pe)) /\
    (cpre pe wevs \/ (hi = f1 /\ short = false)).
Proof.
  intros (HP & _) Hp0 Eb EGH Htr Htail Hu' Hc.
  destruct (HW anchor_shape_plain (s_wr st_g) G_g D' f1 off1 wevs tail pe HP Hp0 Htr Htail Hu' Hc)
    as (hi & short & z & H1 & H2 & H3' & H4 & H5 & H6 & H7 & H8 & H9 & H10 & H11 & H12 & H13 & H14 & H15).
  cbn zeta in *. exists hi, short, z. split.
  - apply IShape_rebase. rewrite <- EGH, <- Eb.
    split; [exact H1|]. split; [exact H4|]. split; [exact H5|]. split; [exact H6|].
    split; [exact H7|]. split; [exact H8|]. split; [exact H11|].
    split; [rewrite H12, <- app_assoc; reflexivity|].
    rewrite (lenN_Sg _ _ HP). exact H13.
  - destruct H15 as [Hc'|(_ & E1 & E2)]; [now left|right; auto].
Qed.


(* ====================================================================== *)
(* the crash images of a history, relative to the persist point            *)
(* ====================================================================== *)
Section Global.
Variables (st0 : state) (G0 : ghost) (H : list (op * bool)).
Hypothesis HI0 : Inv st0 G0.

Local Notation w0 := (s_wr st0).
Local Notation base0 := (gh_base G0).
Local Notation c0 := (ccur w0 G0).
Local Notation S0 := (Sg w0 G0).

(* the bytes written by a prefix of the history *)
Definition NA (hh : list (op * bool)) : bytes := encs_of c0 (sr (map snd (run_log P st0 hh))).

(* what is known about an anchor: a call boundary with nothing buffered *)
Definition GH (hg : list (op * bool)) (st_g : state) (G_g : ghost) : Prop :=
  fst (run P st0 hg) = st_g /\ Inv st_g G_g /\ w_pending (s_wr st_g) = [] /\
  gh_base G_g = base0 /\ Sg (s_wr st_g) G_g = S0 ++ NA hg /\ wlo w0 <= wlo (s_wr st_g).

Lemma NA_app hg hx st_g G_g :
  GH hg st_g G_g ->
  NA (hg ++ hx) = NA hg ++ encs_of (wpos P (s_wr st_g)) (sr (map snd (run_log P st_g hx))).
Proof.
  intros (Er & (HP & _) & _ & Eb & ES & _). unfold NA.
  rewrite (run_log_app P), Er, !map_app, (H3 encs_of_app). f_equal.
  pose proof (lenN_Sg _ _ HP) as L1. rewrite ES, lenN_app in L1.
  destruct HI0 as (HP0 & _). rewrite (lenN_Sg _ _ HP0) in L1. unfold NA in L1. rewrite L1.
  apply (HW CrashTrace.encs_of_shift). apply (HN mulFB_mod).
Qed.

Definition Shape (img : fsT) : Prop :=
  exists lo' hi short z j (g : nat),
    IShape base0 S0 (NA H) img lo' hi short z j /\
    (g <= length H)%nat /\ lenN (NA (firstn g H)) <= j /\
    lo' <= wlo (s_wr (stN st0 H g)) /\ wlo w0 <= lo'.

Lemma seg_image : forall h h_pre hg st_g G_g st_i G_i D_i M,
  H = hg ++ h_pre ++ h -> GH hg st_g G_g ->
  fst (run P st_g h_pre) = st_i ->
  hist_wf P st_g (h_pre ++ h) ->
  stream_bound G_g (map snd (run_log P st_g (h_pre ++ h))) ->
  Inv st_i G_i -> stream_bound G_i (map snd (run_log P st_i h)) ->
  gh_ALL G_i = gh_ALL G_g ++ map snd (run_log P st_g h_pre) -> gh_base G_i = gh_base G_g ->
  M = wpos P (s_wr st_g) +
      lenN (encs_of (wpos P (s_wr st_g)) (sr (map snd (run_log P st_g (h_pre ++ h))))) ->
  ATI P st_g M (s_wr st_i) D_i ->
  D_i = encs_of (wpos P (s_wr st_g)) (sr (map snd (run_log P st_g h_pre))) ->
  forall evs, c_ev (w_ctx (s_wr (fst (run P st_i h)))) = rev evs ++ c_ev (w_ctx (s_wr st_i)) ->
  forall pt, cpre pt evs -> Shape (fold_left apply_event pt (c_fs (w_ctx (s_wr st_i)))).
Proof.
  induction h as [|[o t] h IH];
    intros h_pre hg st_g G_g st_i G_i D_i M EH HGH Hrun Hwf Hbg HIi Hbi EGi Ebi EM Ht ED evs Hev pt Hc.
  - (* the crash is at st_i *)
    cbn [run fst] in Hev. apply app_self_nil in Hev.
    assert (evs = []) by (apply rev_inj; exact Hev). subst evs.
    apply cpre_nil_inv in Hc. subst pt. cbn [fold_left]. rewrite app_nil_r in *.
    pose proof HGH as (Erg & HIg & Hpg & Ebg & ESg & Hlog).
    destruct (tinv_facts _ _ _ _ _ _ _ _ _ _ _ Ht) as (Hwi & _ & (E & _ & HevE & _)).
    destruct (HW TI_trace _ _ _ _ _ _ _ _ _ _ _ Ht HevE) as (Dos & Htr & HD & Hos & Hoff & Hfs).
    pose proof (wtrace_snoc_write P _ _ _ _ _ _ (w_pending (s_wr st_i)) Htr ltac:(lia)) as Htr'.
    rewrite Hos, <- HD in Htr'.
    pose proof Hwi as (_ & _ & _ & _ & Hu & _).
    destruct (seg_shape_plain base0 S0 (NA hg) [] st_g G_g D_i _ _ _ [] E HIg Hpg Ebg ESg Htr'
                (Forall_nil _) Hu) as (hi & short & z & HS & _).
    { rewrite app_nil_r. apply cpre_app_l, cpre_refl. }
    rewrite Hfs. exists (wlo (s_wr st_g)), hi, short, z, (lenN (NA hg) + lenN (ev_data E)), (length hg).
    split.
    { rewrite EH, (NA_app hg h_pre st_g G_g HGH), <- ED. rewrite app_nil_r in HS. exact HS. }
    split; [rewrite EH, app_length; lia|].
    rewrite EH, firstn_all_app, Erg. split; [lia|]. split; [lia|exact Hlog].
  - (* one more call *)
    pose proof HGH as (Erg & HIg & Hpg & Ebg & ESg & Hlog).
    pose proof Hwf as Hwf0. apply (hist_wf_app P) in Hwf0. destruct Hwf0 as (Hwf_pre & Hwf_i).
    rewrite Hrun in Hwf_i. cbn [hist_wf] in Hwf_i. destruct Hwf_i as (Hop & Hwf_h).
    cbn [run_log] in Hbi. rewrite map_app in Hbi.
    assert (Hb1 : stream_bound G_i (map snd (step_log P st_i o))).
    { eapply (HW stream_bound_prefix); eassumption. }
    pose proof (HG step_no_io st_i G_i o t HIi Hop Hb1) as Hno.
    destruct (ev_split P st_i o t h evs Hev) as (evs1 & evs2 & Eevs & Hev1 & Hev2).
    destruct (step P st_i o t) as [st' out] eqn:Es. cbn [fst snd] in *.
    destruct (HG inv_step st_i G_i o t st' out HIi Hop Hb1 Es Hno) as (G' & HI' & Eb' & Ed' & El').
    assert (Hb2 : stream_bound G' (map snd (run_log P st' h))).
    { unfold RestartWrite.stream_bound in *. rewrite Eb'.
      unfold gh_ALL in *. rewrite Ed', El'.
      replace ((gh_dropped G_i ++ map snd (gh_log G_i ++ step_log P st_i o)) ++ map snd (run_log P st' h))
        with ((gh_dropped G_i ++ map snd (gh_log G_i)) ++
              map snd (step_log P st_i o) ++ map snd (run_log P st' h)); [exact Hbi|].
      rewrite map_app, !app_assoc. reflexivity. }
    set (hx := h_pre ++ [(o, t)]).
    assert (Er' : fst (run P st_g hx) = st').
    { unfold hx. rewrite (run_app_fst P), Hrun, run_cons_fst, Es. reflexivity. }
    assert (Eapp : hx ++ h = h_pre ++ (o, t) :: h)
      by (unfold hx; rewrite <- app_assoc; reflexivity).
    set (cur0 := wpos P (s_wr st_g)) in *.
    set (NEW1 := encs_of (cur0 + lenN D_i) (sr (map snd (step_log P st_i o)))).
    set (D' := D_i ++ NEW1).
    assert (Elog1 : run_log P st_g hx = run_log P st_g h_pre ++ step_log P st_i o).
    { unfold hx. rewrite (run_log_app P), Hrun. cbn [run_log]. now rewrite app_nil_r. }
    assert (ED' : D' = encs_of cur0 (sr (map snd (run_log P st_g hx)))).
    { unfold D', NEW1. rewrite Elog1, !map_app, (H3 encs_of_app), <- ED. reflexivity. }
    assert (HM : cur0 + lenN D_i + lenN NEW1 <= M).
    { rewrite EM, <- Eapp, (run_log_app P), Er', !map_app, (H3 encs_of_app), <- ED', lenN_app.
      unfold D'. rewrite lenN_app. lia. }
    assert (EG' : gh_ALL G' = gh_ALL G_g ++ map snd (run_log P st_g hx)).
    { unfold gh_ALL at 1. rewrite Ed', El', map_app, app_assoc. fold (gh_ALL G_i).
      rewrite EGi, Elog1, map_app, app_assoc. reflexivity. }
    assert (Ebg' : gh_base G' = gh_base G_g) by congruence.
    destruct (tinv_facts _ _ _ _ _ _ _ _ _ _ _ Ht) as (_ & Hloi & (E_i & _ & HevEi & _)).
    destruct (HW TI_trace _ _ _ _ _ _ _ _ _ _ _ Ht HevEi) as (Dos_i & Htri & HDi & Hosi & Hoffi & Hfsi).
    destruct (call_kinds P HBS_lo HBS_hi HNB Hcrc HGC _ _ _ _ _ _ _ _ st_i D_i o t st' out E_i evs1
                Ht HM Es Hno HevEi Hev1) as (Habs' & Hfs1 & Hk).
    fold NEW1 in Habs', Hk. fold D' in Hk.
    pose proof HI' as (((_ & _ & _ & _ & Hu' & _) & _) & _).
    (* the bytes of the whole history, split at the anchor and at the end of this call *)
    assert (EHx : H = (hg ++ hx) ++ h) by (rewrite EH, <- app_assoc, Eapp; reflexivity).
    assert (ENA : NA (hg ++ hx) = NA hg ++ D').
    { rewrite (NA_app hg hx st_g G_g HGH). fold cur0. now rewrite <- ED'. }
    assert (ENH : exists rest, NA H = NA hg ++ D' ++ rest).
    { exists (encs_of (c0 + lenN (NA (hg ++ hx))) (sr (map snd (run_log P (fst (run P st0 (hg ++ hx))) h)))).
      rewrite EHx at 1. unfold NA at 1. rewrite (run_log_app P), map_app, map_app, (H3 encs_of_app).
      fold (NA (hg ++ hx)). rewrite ENA, <- app_assoc. reflexivity. }
    destruct ENH as (rest & ENH).
    (* a crash while the data of the segment (up to this call) is written *)
    assert (Hplain : forall wevs tail pe f1 off1,
              wtrace (w_file (s_wr st_g)) (w_off (s_wr st_g)) wevs D' f1 off1 -> Forall noop_ev tail ->
              f1 <= U64_MAX -> cpre pe (wevs ++ tail) ->
              exists hi short z,
                IShape base0 S0 (NA H) (fold_left apply_event pe (c_fs (w_ctx (s_wr st_g))))
                       (wlo (s_wr st_g)) hi short z (lenN (NA hg) + lenN (ev_data pe)) /\
                (cpre pe wevs \/ (hi = f1 /\ short = false))).
    { intros wevs tail pe f1 off1 Hw Htl Hf1 Hpe. rewrite ENH.
      exact (seg_shape_plain base0 S0 (NA hg) rest st_g G_g D' f1 off1 wevs tail pe
               HIg Hpg Ebg ESg Hw Htl Hf1 Hpe). }
    assert (Hpack : forall img hi short z j,
              IShape base0 S0 (NA H) img (wlo (s_wr st_g)) hi short z (lenN (NA hg) + j) -> Shape img).
    { intros img hi short z j HS. exists (wlo (s_wr st_g)), hi, short, z, (lenN (NA hg) + j), (length hg).
      split; [exact HS|]. split; [rewrite EH, app_length; lia|].
      rewrite EH, firstn_all_app, Erg. split; [lia|]. split; [lia|exact Hlog]. }
    (* continuations *)
    assert (ContN : ATI P st_g M (s_wr st') D' -> forall pt2, cpre pt2 evs2 ->
              Shape (fold_left apply_event pt2 (c_fs (w_ctx (s_wr st'))))).
    { intros Ht' pt2 Hc2.
      specialize (IH hx hg st_g G_g st' G' D' M).
      rewrite Eapp in IH. exact (IH EH HGH Er' Hwf Hbg HI' Hb2 EG' Ebg' EM Ht' ED' evs2 Hev2 pt2 Hc2). }
    assert (ContA : w_pending (s_wr st') = [] -> wlo (s_wr st_g) <= wlo (s_wr st') ->
              forall pt2, cpre pt2 evs2 ->
              Shape (fold_left apply_event pt2 (c_fs (w_ctx (s_wr st'))))).
    { intros Hp' Hlo' pt2 Hc2.
      assert (HGH' : GH (hg ++ hx) st' G').
      { split; [rewrite (run_app_fst P), Erg; exact Er'|]. split; [exact HI'|]. split; [exact Hp'|].
        split; [congruence|]. split; [|lia].
        pose proof HIg as (HPg & _). pose proof HI' as (HP' & _).
        transitivity (Sg (s_wr st_g) G_g ++ D').
        2:{ rewrite ENA, app_assoc. f_equal. exact ESg. }
        apply (ghi_step (s_wr st_g) G_g (s_wr st') G' _ D' HPg HP' EG' Ebg' ED').
        destruct (HW TI_wabs _ _ _ _ _ _ _ _ _ _ Ht) as (Ha_i & _).
        destruct (HW TI_wabs _ _ _ _ _ _ _ _ _ _
                    (anchor_ATI P HBS_lo HBS_hi HNB Hcrc st_g G_g (h_pre ++ (o, t) :: h)
                       HIg Hpg Hbg)) as (Ha_g & _).
        rewrite (@lenN_nil byte), N.add_0_r in Ha_g.
        rewrite Habs', Ha_i, Ha_g. unfold D', NEW1. rewrite lenN_app. fold cur0. lia. }
      exact (IH [] (hg ++ hx) st' G' st' G' [] _ EHx HGH' eq_refl Hwf_h Hb2 HI' Hb2
               ltac:(cbn [run_log map]; now rewrite app_nil_r) eq_refl eq_refl
               (anchor_ATI P HBS_lo HBS_hi HNB Hcrc st' G' h HI' Hp' Hb2) eq_refl evs2 Hev2 pt2 Hc2). }
    rewrite Eevs in Hc.
    destruct Hk as [(HNk & D1 & Hw1 & HD1)|[(Hp' & Hlo' & w1 & a & Eev1 & Hw1)|(Hp' & w1 & mg & tailf & Eev1 & Hw1 & Hmg & Htl & Hlo')]].
    + (* N *)
      destruct (cpre_app_inv _ _ _ Hc) as [Hc1|(pt2 & -> & Hc2)].
      2:{ rewrite fold_left_app, <- Hfs1. now apply ContN. }
      assert (HE' : c_ev (w_ctx (s_wr st')) = rev (E_i ++ evs1) ++ c_ev (w_ctx (s_wr st_g))).
      { rewrite Hev1, HevEi, rev_app_distr, app_assoc. reflexivity. }
      destruct (HW TI_trace _ _ _ _ _ _ _ _ _ _ _ HNk HE') as (Dos' & Htr' & HD2 & Hos' & Hoff' & _).
      pose proof (wtrace_snoc_write P _ _ _ _ _ _ (w_pending (s_wr st')) Htr' ltac:(lia)) as Htr2.
      rewrite Hos', <- HD2 in Htr2.
      destruct (Hplain _ [] (E_i ++ pt) _ _ Htr2 (Forall_nil _) Hu') as (hi & short & z & HS & _).
      { rewrite app_nil_r. apply cpre_app_l. now apply cpre_app_r. }
      rewrite Hfsi, <- fold_left_app. exact (Hpack _ _ _ _ _ HS).
    + (* P *)
      subst evs1.
      destruct (cpre_app_inv _ _ _ Hc) as [Hc1|(pt2 & -> & Hc2)].
      2:{ rewrite fold_left_app, <- Hfs1. apply ContA; [exact Hp'|lia|exact Hc2]. }
      pose proof (wtrace_app P _ _ _ _ _ _ _ _ _ _ Htri Hw1) as Htr2.
      assert (EDD : Dos_i ++ w_pending (s_wr st_i) ++ NEW1 = D').
      { unfold D'. rewrite HDi, <- app_assoc. reflexivity. }
      assert (Htr3 : wtrace (w_file (s_wr st_g)) (w_off (s_wr st_g)) (E_i ++ w1) D'
                            (w_file (s_wr st')) (w_off (s_wr st'))) by (rewrite <- EDD; exact Htr2).
      destruct (Hplain _ (flush_group (w_file (s_wr st')) a) (E_i ++ pt) _ _ Htr3
                  (flush_group_noop _ _) Hu') as (hi & short & z & HS & _).
      { rewrite <- app_assoc. now apply cpre_app_r. }
      rewrite Hfsi, <- fold_left_app. exact (Hpack _ _ _ _ _ HS).
    + (* G *)
      subst evs1.
      destruct (cpre_app_inv _ _ _ Hc) as [Hc1|(pt2 & -> & Hc2)].
      2:{ rewrite fold_left_app, <- Hfs1. apply ContA; [exact Hp'|lia|exact Hc2]. }
      pose proof (wtrace_app P _ _ _ _ _ _ _ _ _ _ Htri Hw1) as Htr2.
      assert (EDD : Dos_i ++ w_pending (s_wr st_i) ++ NEW1 = D').
      { unfold D'. rewrite HDi, <- app_assoc. reflexivity. }
      assert (Htr3 : wtrace (w_file (s_wr st_g)) (w_off (s_wr st_g)) (E_i ++ w1) D'
                            (w_file (s_wr st')) (w_off (s_wr st'))) by (rewrite <- EDD; exact Htr2).
      clear Htr2. rename Htr3 into Htr2.
      rewrite Hfsi, <- fold_left_app.
      assert (Hc1' : cpre (E_i ++ pt) ((E_i ++ w1) ++ flush_group (w_file (s_wr st')) true ++
                                       unlinks (wlo (s_wr st_g)) mg ++ tailf)).
      { rewrite <- app_assoc. now apply cpre_app_r. }
      destruct (cpre_app_inv _ _ _ Hc1') as [Hcw|(ptu & Eptu & Hcu)].
      * destruct (Hplain _ [] (E_i ++ pt) _ _ Htr2 (Forall_nil _) Hu') as (hi & short & z & HS & _).
        { rewrite app_nil_r. exact Hcw. }
        exact (Hpack _ _ _ _ _ HS).
      * assert (Hcu2 : exists a', cpre ptu (flush_group (w_file (s_wr st')) true ++
                                            unlinks (wlo (s_wr st_g)) mg ++
                                            flush_group (w_file (s_wr st')) a')).
        { destruct Htl as [->|(a & ->)]; [|now exists a].
          exists false. rewrite app_nil_r in Hcu. rewrite app_assoc. now apply cpre_app_l. }
        destruct Hcu2 as (a' & Hcu2).
        destruct (HN tail_prefix _ _ _ _ _ _ Hcu2) as (mu & Hmu & Hfoldu & _).
        rewrite Eptu, fold_left_app, Hfoldu.
        destruct (Hplain _ [EvSyncDir] ((E_i ++ w1) ++ [EvSyncDir]) _ _ Htr2
                    ltac:(repeat constructor) Hu' (cpre_refl _)) as (hi & short & z & HS & Halt).
        destruct Halt as [Hbad|(-> & ->)].
        { exfalso. apply cpre_length in Hbad. rewrite app_length in Hbad. cbn [length] in Hbad. lia. }
        rewrite fold_left_app in HS. cbn [fold_left apply_event] in HS.
        rewrite ev_data_app in HS. cbn [ev_data] in HS. rewrite app_nil_r in HS.
        rewrite (wtrace_data P _ _ _ _ _ _ Htr2) in HS.
        pose proof HIg as ((_ & _ & _ & Hbg0 & _) & _). rewrite Ebg in Hbg0.
        pose proof (IShape_remove _ _ _ _ _ _ _ _ _ mu HS Hbg0 ltac:(lia)) as HS2.
        exists (wlo (s_wr st_g) + N.of_nat mu), (w_file (s_wr st')), false, z,
               (lenN (NA hg) + lenN D'), (length (hg ++ hx)).
        split; [exact HS2|].
        split; [rewrite EHx, !app_length; lia|].
        rewrite EHx, firstn_all_app, ENA, lenN_app.
        split; [lia|].
        rewrite (run_app_fst P), Erg, Er'. split; [lia|lia].
Qed.

End Global.

(* (2) every process-crash image of a history from a persist point *)
Theorem C03_image_shape st0 G0 H evs :
  Inv st0 G0 -> w_pending (s_wr st0) = [] ->
  hist_wf P st0 H -> stream_bound G0 (map snd (run_log P st0 H)) ->
  c_ev (w_ctx (s_wr (fst (run P st0 H)))) = rev evs ++ c_ev (w_ctx (s_wr st0)) ->
  forall cut k,
  let w0 := s_wr st0 in
  let img := fold_left apply_event (crash_events evs cut k) (c_fs (w_ctx w0)) in
  let base := gh_base G0 in
  let T0 := gh_T P G0 in
  let c0 := (wlo w0 - base) * FB + wpos P w0 in
  let NEW := fun hh => encs_of c0 (sr (map snd (run_log P st0 hh))) in
  exists (lo' hi : N) (short : bool) (z j : N) (g : nat),
    (* the file set: contiguous, only the last file possibly still empty *)
    wlo w0 <= lo' /\ lo' <= hi /\ hi <= U64_MAX /\
    nodup_keys img /\ dir_of img (nfiles lo' hi) /\ list_wal_numbers img = nfiles lo' hi /\
    (forall n, lo' <= n <= hi ->
       exists b, fs_get img (filename n) = Some (FFile b) /\
                 lenN b = if short && (n =? hi) then 0 else FB) /\
    (* the stream: the old stream + a byte prefix of what the history writes + zeros *)
    j <= lenN (NEW H) /\
    stream_of (zext P img hi) (nfiles lo' hi) =
      dropN ((lo' - base) * FB) (T0 ++ zerosN (c0 - lenN T0) ++ takeN j (NEW H) ++ zerosN z) /\
    c0 + j + z = (hi + 1 - base) * FB /\
    (* unlinks come after the flush: all the bytes of the calls 1..g are in the image, and no
       file is missing that the live log still had after call g *)
    (g <= length H)%nat /\ lenN (NEW (firstn g H)) <= j /\
    lo' <= wlo (s_wr (stN st0 H g)).
Proof.
  intros HI0 Hp0 Hwf Hb Hevs cut k w0 img base T0 c0 NEW. subst w0 img base T0 c0 NEW.
  assert (HGH : GH st0 G0 [] st0 G0).
  { split; [reflexivity|]. split; [exact HI0|]. split; [exact Hp0|]. split; [reflexivity|].
    split; [|lia]. unfold NA. cbn [run_log map ResyncProofs.encs_of]. now rewrite app_nil_r. }
  destruct (seg_image st0 G0 H HI0 H [] [] st0 G0 st0 G0 [] _ eq_refl HGH eq_refl Hwf Hb HI0 Hb
              ltac:(cbn [run_log map]; now rewrite app_nil_r) eq_refl eq_refl
              (anchor_ATI P HBS_lo HBS_hi HNB Hcrc st0 G0 H HI0 Hp0 Hb) eq_refl evs Hevs
              (crash_events evs cut k) (crash_events_cpre evs cut k))
    as (lo' & hi & short & z & j & g & HS & Hg & Hj & Hlo & Hlo0).
  destruct HS as (H1 & H2 & H3' & H4 & H5 & H6 & H7 & H8 & H9).
  destruct HI0 as (HP0 & _). rewrite (lenN_Sg _ _ HP0) in H9.
  exists lo', hi, short, z, j, g.
  repeat (split; [assumption|]).
  split; [rewrite H8, <- app_assoc; reflexivity|].
  repeat (split; [assumption|]). exact Hlo.
Qed.

(* the bytes, with the absolute cursor of the persist point (as in C03_trace_shape) *)
Lemma NEW_wabs st0 G0 X :
  Inv st0 G0 ->
  encs_of ((wlo (s_wr st0) - gh_base G0) * FB + wpos P (s_wr st0)) X = encs_of (wabs (s_wr st0)) X.
Proof.
  intros (HP0 & _). rewrite <- (cursor_abs _ _ HP0). symmetry.
  apply (HW CrashTrace.encs_of_shift). apply (HN mulFB_mod).
Qed.

End Image.

Print Assumptions C03_image_shape.
