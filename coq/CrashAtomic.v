(* CrashAtomic.v — end-to-end crash atomicity (property C02).
   For every crash image of one API call under a flush-per-operation policy (PAlways), `open`
   succeeds and the recovered abstract state is that of the completed calls, or that plus the
   in-flight call.
   Part 1: logical atomicity of the entries of one call (step_log).
   Part 2: the recovery-time GC on the writer made by `open` from a crash image never fails.
   Part 3: the crash images (CrashTrace.crash_image_shape) meet TornFile.open_torn.
   Part 4: C02_crash_atomic, the corollary for histories, a computed example. *)
From Coq Require Import Lia ZArith ZifyN ZifyNat ZifyBool List Sorted.
From MRL Require Import Bytes BytesProofs Params Names NamesProofs Frame Record Mem Spec Rolling Log
  Driver SpecRefine RecordProofs StreamProofs PolicyProofs GcProofs GhostLog ReplaySpec
  HandleProofs FileStream ResyncProofs PersistProofs WriterProofs TornProofs RestartInv
  RestartWrite RestartGc RestartStep OpenReplay RestartFinal TornFile CrashTrace Crc.

Arguments N.add : simpl never.
Arguments N.sub : simpl never.
Arguments N.mul : simpl never.
Arguments N.eqb : simpl never.
Arguments N.ltb : simpl never.
Arguments N.leb : simpl never.
Arguments N.div : simpl never.
Arguments N.modulo : simpl never.
Arguments N.min : simpl never.
Arguments N.max : simpl never.

(* lia with the non-arithmetic hypotheses cleared first (zify is slow on large contexts); falls
   back on plain lia *)
Local Ltac ca_arith_hyp T :=
  lazymatch T with
  | @eq ?A _ _ =>
    lazymatch A with
    | N => idtac | nat => idtac | Z => idtac | positive => idtac | bool => idtac
    end
  | N.le _ _ => idtac | N.lt _ _ => idtac | N.ge _ _ => idtac | N.gt _ _ => idtac
  | le _ _ => idtac | lt _ _ => idtac | ge _ _ => idtac | gt _ _ => idtac
  | Z.le _ _ => idtac | Z.lt _ _ => idtac | Z.ge _ _ => idtac | Z.gt _ _ => idtac
  | ~ _ => idtac | _ /\ _ => idtac | _ \/ _ => idtac | _ <-> _ => idtac | False => idtac
  | ?A -> ?C => idtac
  end.
Local Ltac ca_prune :=
  repeat match goal with
  | H : ?T |- _ =>
    lazymatch type of T with Prop => idtac end;
    first [ ca_arith_hyp T; revert H | clear H ]
  end.
Local Ltac ca_lia := first [ solve [ca_prune; lia] | lia ].
(* the same with the hypotheses to keep given explicitly *)
Local Tactic Notation "ca_lia" "using" ne_hyp_list(Hs) :=
  first [ solve [clear - Hs; lia] | ca_lia ].

(* ====================================================================== *)
(* 0. small list facts                                                    *)
(* ====================================================================== *)

Lemma app_split_len {A} : forall (a b c d : list A),
  a ++ b = c ++ d -> (length a <= length c)%nat -> exists m, c = a ++ m /\ b = m ++ d.
Proof.
  induction a as [|x a IH]; intros b c d H Hl.
  - exists c. split; [reflexivity|exact H].
  - destruct c as [|y c]; [cbn [length] in Hl; ca_lia|].
    cbn [app] in H. injection H as -> H. cbn [length] in Hl.
    destruct (IH b c d H ltac:(ca_lia)) as (m & -> & ->). exists m. split; reflexivity.
Qed.

Lemma combine_app_l {A B} : forall (l1 l1' : list A) (l2 l2' : list B),
  length l1 = length l2 -> combine (l1 ++ l1') (l2 ++ l2') = combine l1 l2 ++ combine l1' l2'.
Proof.
  induction l1 as [|a l1 IH]; intros l1' [|b l2] l2' H; cbn [length] in H; try discriminate.
  - reflexivity.
  - cbn [app combine]. f_equal. apply IH. ca_lia.
Qed.

Lemma combine_split_len {A B} (tags : list A) (l1 l2 : list B) :
  length tags = (length l1 + length l2)%nat ->
  exists t1 t2, tags = t1 ++ t2 /\ length t1 = length l1 /\ length t2 = length l2 /\
                combine tags (l1 ++ l2) = combine t1 l1 ++ combine t2 l2.
Proof.
  intros H. exists (firstn (length l1) tags), (skipn (length l1) tags).
  assert (H1 : length (firstn (length l1) tags) = length l1) by (rewrite firstn_length; ca_lia).
  assert (H2 : length (skipn (length l1) tags) = length l2) by (rewrite skipn_length; ca_lia).
  split; [now rewrite firstn_skipn|]. split; [exact H1|]. split; [exact H2|].
  rewrite <- (firstn_skipn (length l1) tags) at 1. now apply combine_app_l.
Qed.

Lemma map_snd_combine_len {A B} : forall (l1 : list A) (l2 : list B),
  length l1 = length l2 -> map snd (combine l1 l2) = l2.
Proof. exact map_snd_combine'. Qed.

Lemma combine_map_snd {A B} : forall (l : list (A * B)), combine (map fst l) (map snd l) = l.
Proof. induction l as [|[a b] l IH]; cbn [map combine fst snd]; [reflexivity|now rewrite IH]. Qed.

(* ====================================================================== *)
(* 1. logical atomicity of the entries of one call                        *)
(* ====================================================================== *)

(* (1a) replaying ANY suffix of ALL that contains E gives the live abstract content *)
Theorem linv_suffix_equal qs lo G E_pre E_suf :
  LInv qs lo G -> gh_ALL G = E_pre ++ E_suf -> (length E_pre <= gh_k G)%nat ->
  forall fsuf, map snd fsuf = E_suf ->
  exists qs',
    replay_entries [] fsuf = Some qs' /\ qs_inv qs' /\ nodup_names qs' /\
    forall q, s_get (abs_qs qs') q = s_get (abs_qs qs) q.
Proof.
  intros HL Hsplit Hlen fsuf Hf.
  destruct (LInv_views qs lo G HL) as (F & S & EF & ES & Hp & Hu & _).
  destruct HL as (_ & Hleg & Hrep & F' & EF' & Hcov).
  rewrite EF in EF'. inversion EF'; subst F'. clear EF'.
  (* E is a suffix of E_suf *)
  pose proof (gh_ALL_split G) as Hs2. rewrite Hsplit in Hs2.
  destruct (app_split_len E_pre E_suf (gh_before G) (map snd (gh_E G)) Hs2) as (mid & Hb & Hsuf).
  { now rewrite gh_before_length. }
  set (fpre := map (pair 0) E_pre).
  set (fs0 := map (pair 0) E_suf).
  assert (Epre : map snd fpre = E_pre).
  { unfold fpre. rewrite map_map. cbn [snd]. apply map_id. }
  assert (Esuf : map snd fs0 = E_suf).
  { unfold fs0. rewrite map_map. cbn [snd]. apply map_id. }
  destruct (model_covered_suffix_equal fpre fs0 fsuf F)
    as (qF & qS & _ & EqS & _ & HiS & HaF & Heq).
  - now rewrite Esuf.
  - rewrite Epre, Esuf, <- Hsplit. exact Hleg.
  - rewrite Epre, Esuf, <- Hsplit. exact EF.
  - intros q rf n Eq. rewrite Epre, Esuf. destruct (Hcov q rf n Eq) as (Hc & Hr). split.
    + eapply Forall_impl; [|exact Hr]. intros r (j & f & e & Ej & _). ca_lia.
    + intros _. rewrite Hsuf, existsb_app, Hc. apply orb_true_r.
  - rewrite apply_entries_replay_entries in EqS.
    exists qS. split; [exact EqS|]. split; [exact HiS|].
    split; [exact (replay_from_nil_nodup _ _ EqS)|].
    intros q. rewrite Heq, HaF, <- Hu, !untag_get, Hp. reflexivity.
Qed.

(* (1b) position entries for empty queues of the state: identities that keep LInv *)
Lemma pos_extra_cons m e x : pos_extra m (e :: x) ->
  (exists q p, e = EPosition q p /\ s_get m q = Some ([], p)) /\ pos_extra m x.
Proof.
  intros [Hnd Hall]. cbn [map] in Hnd. inversion Hnd; subst. inversion Hall; subst.
  split; [assumption|]. split; assumption.
Qed.

Lemma abs_empty_queue qs q p :
  s_get (abs_qs qs) q = Some ([], p) ->
  exists m, qs_get qs q = Some m /\ mq_is_empty m = true /\ next_position m = p.
Proof.
  rewrite abs_get. destruct (qs_get qs q) as [m|]; [|discriminate].
  unfold abs_q. intros H. injection H as Hr Hn. exists m. split; [reflexivity|].
  split; [|exact Hn]. apply records_of_nil in Hr. unfold mq_is_empty. now rewrite Hr.
Qed.

Lemma linv_pos_extra qs lo G : forall (fx : glog),
  LInv qs lo G -> pos_extra (abs_qs qs) (map snd fx) -> Forall (fun fe => lo <= fst fe) fx ->
  LInv qs lo (gh_app G fx) /\ replay_entries qs fx = Some qs.
Proof.
  intros fx. revert G. induction fx as [|[f e] fx IH]; intros G HL Hx Hlo.
  - rewrite gh_app_nil. split; [exact HL|reflexivity].
  - cbn [map snd] in Hx. destruct (pos_extra_cons _ _ _ Hx) as ((q & p & -> & Hg) & Hx').
    destruct (abs_empty_queue qs q p Hg) as (m & Em & Hem & <-).
    destruct (position_entry_facts qs lo G q m HL Em Hem) as (Hwf & Hleg & Hap).
    inversion Hlo as [|? ? Hf Hlo']; subst. cbn [fst] in Hf.
    pose proof (linv_apply qs lo G f _ qs HL (proj1 HL) Hleg (Hap f) Hf) as HL1.
    destruct (IH _ HL1 Hx' Hlo') as (HL2 & Hr).
    rewrite gh_app_snoc in HL2. split; [exact HL2|].
    cbn [replay_entries]. now rewrite (Hap f).
Qed.

Lemma pos_extra_prefix m x y : pos_extra m (x ++ y) -> pos_extra m x.
Proof.
  intros [Hnd Hall]. rewrite map_app in Hnd. apply Forall_app in Hall. split; [|apply Hall].
  induction (map entry_queue x) as [|a l IH]; [constructor|].
  cbn [app] in Hnd. inversion Hnd; subst. constructor; [|now apply IH].
  intros Hin. apply H1. apply in_or_app. now left.
Qed.

Section Atomic.
Variable P : params.
Hypothesis HBS_lo : 7 < BS P.
Hypothesis HBS_hi : BS P <= 65542.
Hypothesis HNB : 1 <= NB P.
Hypothesis Hcrc : forall t p, crcf P t p < 2 ^ 32.
Hypothesis HGC : L_GC P = false.
Hypothesis HIO : L_IO P = false.
Hypothesis HSHORT : L_SHORT P = false.
Hypothesis Hnc : no_zero_collision P.

Local Notation B := (BS P).
Local Notation FB := (FILE_BYTES P).
Local Notation ffp := (first_frame_pos P).
Local Notation enc_of := (enc_of P).
Local Notation encs_of := (encs_of P).
Local Notation cursor_after := (cursor_after P).
Local Notation starts := (starts P).
Local Notation delivered_from := (delivered_from P).
Local Notation skipped_before := (skipped_before P).
Local Notation ser := (map entry_ser).
Local Notation H3 f := (f P HBS_lo HBS_hi Hcrc) (only parsing).
Local Notation H2 f := (f P HBS_lo HBS_hi) (only parsing).
Local Notation HW f := (f P HBS_lo HBS_hi HNB Hcrc) (only parsing).
Local Notation HN f := (f P HBS_lo HBS_hi HNB) (only parsing).
Local Notation HG f := (f P HBS_lo HBS_hi HNB Hcrc HGC) (only parsing).
Local Notation PInv := (PInv P).
Local Notation Inv := (Inv P).
Local Notation stream_bound := (stream_bound P).

Lemma HB0c : 0 < B. Proof using HBS_lo HBS_hi HNB. (ca_lia using HBS_lo). Qed.
Lemma FBc_pos : 0 < FB. Proof using HBS_lo HBS_hi HNB. pose proof (FB_ge_B P HB0c HNB). (ca_lia using H HBS_lo). Qed.

(* (1c) the shape of the log of one call: nothing, or the call's own entry followed by position
   entries for queues that are empty after it *)
Lemma step_log_shape st o :
  step_log P st o = [] \/
  exists e rest, step_log P st o = (w_file (s_wr st), e) :: rest /\
    forall qs_m, apply_entry (s_qs st) (w_file (s_wr st)) e = Some qs_m -> nodup_names qs_m ->
      pos_extra (abs_qs qs_m) (map snd rest).
Proof using Type.
  destruct o as [q|q hint|q pos payloads|q p hint|a]; cbn [step_log].
  - unfold create_log. destruct (qs_contains (s_qs st) q); [now left|right].
    eexists _, []. split; [reflexivity|]. intros qs_m _ _. apply pos_extra_nil.
  - unfold delete_log. destruct (qs_get (s_qs st) q) as [m|] eqn:Eq; [right|now left].
    eexists _, _. split; [reflexivity|]. intros qs_m Hap Hnd.
    cbn [apply_entry] in Hap. injection Hap as <-.
    destruct (write_entry P st (EDelete q (next_position m))) as [st1 [k|e0]] eqn:Ew;
      [|apply pos_extra_nil].
    rewrite (write_entry_qs P _ _ _ _ Ew).
    apply (gc_log_pos_extra P (set_qs st1 (qs_remove (s_qs st) q)) hint Hnd).
  - unfold append_log. destruct (qs_get (s_qs st) q) as [m|]; [|now left].
    destruct (append_target m pos) as [position|]; [|now left].
    destruct payloads as [|x r]; [now left|right].
    eexists _, []. split; [reflexivity|]. intros qs_m _ _. apply pos_extra_nil.
  - unfold truncate_log. destruct (qs_get (s_qs st) q) as [m|] eqn:Eq; [right|now left].
    eexists _, _. split; [reflexivity|]. intros qs_m Hap Hnd.
    cbn [apply_entry] in Hap. rewrite Eq in Hap. injection Hap as <-.
    destruct (write_entry P st (ETruncate q p)) as [st1 [k|e0]] eqn:Ew; [|apply pos_extra_nil].
    rewrite (write_entry_qs P _ _ _ _ Ew).
    apply (gc_log_pos_extra P (set_qs st1 (qs_put (s_qs st) q (fst (truncate_head m p)))) hint Hnd).
  - now left.
Qed.

(* (1) ENTRY-LEVEL ATOMICITY.  X = the entries the call logs.  Replaying E followed by any
   prefix Xd of X, with any file tags, gives the abstract state before the call (Xd = []) or
   after it (Xd <> []). *)
Theorem call_entries_atomic st G o tick st' out :
  Inv st G -> op_wf_strict (s_qs st) o ->
  stream_bound G (map snd (step_log P st o)) ->
  step P st o tick = (st', out) -> (forall e, out <> OutIo e) ->
  forall Xd Xr, map snd (step_log P st o) = Xd ++ Xr ->
  forall tags, length tags = (length (gh_E G) + length Xd)%nat ->
  exists qs',
    replay_entries [] (combine tags (map snd (gh_E G) ++ Xd)) = Some qs' /\
    qs_inv qs' /\ nodup_names qs' /\
    (Xd = [] -> forall q, s_get (abs_qs qs') q = s_get (abs_qs (s_qs st)) q) /\
    (Xd <> [] -> forall q, s_get (abs_qs qs') q = s_get (abs_qs (s_qs st')) q).
Proof using HBS_lo HBS_hi HNB Hcrc HGC.
  intros HI Hop Hb Hstep Hno Xd Xr HX tags Hlen.
  pose proof HI as (HP & HL).
  destruct Xd as [|x Xd'].
  { (* nothing of the call: the restart theorem *)
    rewrite app_nil_r in *. cbn [length] in Hlen. rewrite Nat.add_0_r in Hlen.
    destruct (linv_restart_equal _ _ _ HL tags Hlen) as (qs' & H1 & H2' & H3' & H4).
    exists qs'. split; [exact H1|]. split; [exact H2'|]. split; [exact H3'|].
    split; [intros _; exact H4|]. intros H; now destruct H. }
  (* at least the call's own entry *)
  destruct (HG inv_step st G o tick st' out HI Hop Hb Hstep Hno)
    as (G' & (HP' & HL') & Eb & Ed & Elog).
  pose proof (LInv_nodup _ _ _ HL) as Hnd.
  pose proof (step_replay P st o tick Hnd) as Hrep. rewrite Hstep in Hrep. cbn [fst snd] in Hrep.
  specialize (Hrep Hno).
  destruct (step_log_shape st o) as [E0|(e & rest & Elg & Hshape)].
  { rewrite E0 in HX. discriminate. }
  rewrite Elg in *. cbn [map snd app] in HX. injection HX as <- HX.
  set (f := w_file (s_wr st)) in *.
  cbn [replay_entries] in Hrep.
  destruct (apply_entry (s_qs st) f e) as [qs_m|] eqn:Hap; [|discriminate].
  pose proof (apply_entry_nodup _ _ _ _ Hnd Hap) as Hndm.
  specialize (Hshape qs_m eq_refl Hndm).
  (* the position entries are identities: qs_m is the final state *)
  set (lo := wlo (s_wr st)) in *.
  assert (Hlof : lo <= f).
  { destruct HP as (Hw & _). exact (HN winv_wlo_le _ Hw). }
  (* legality of e after ALL *)
  assert (Hleg : forall F, t_replay [] 0 (gh_ALL G) = Some F -> legal F e).
  { intros F EF. destruct HL' as (_ & Hleg' & _).
    assert (EA : gh_ALL G' = gh_ALL G ++ e :: map snd rest).
    { unfold gh_ALL. rewrite Ed, Elog, map_app, app_assoc. reflexivity. }
    rewrite EA in Hleg'. destruct (legal_log_app _ _ _ _ Hleg') as (F0 & EF0 & Hl0).
    rewrite EF in EF0. inversion EF0; subst F0.
    now destruct (legal_log_cons_inv _ _ _ _ Hl0). }
  (* qs_m = s_qs st' *)
  assert (Hwfm : qs_wf qs_m /\ s_qs st' = qs_m).
  { (* the position entries are identities; well-formedness comes from the final state *)
    assert (Hfin : forall qsx, replay_entries qs_m rest = Some qsx -> qsx = s_qs st')
      by (intros qsx E; rewrite E in Hrep; now injection Hrep).
    assert (Hid' : forall fx, pos_extra (abs_qs qs_m) (map snd fx) ->
              replay_entries qs_m fx = Some qs_m).
    { induction fx as [|[f1 e1] fx IH]; intros Hx; [reflexivity|].
      cbn [map snd] in Hx. destruct (pos_extra_cons _ _ _ Hx) as ((q & p & -> & Hg) & Hx').
      destruct (abs_empty_queue qs_m q p Hg) as (m & Em & Hem & <-).
      cbn [replay_entries apply_entry]. rewrite (ack_position_empty_id qs_m q m Em Hem).
      now apply IH. }
    pose proof (Hfin _ (Hid' rest Hshape)) as E. split; [|now symmetry].
    rewrite E. exact (proj1 HL'). }
  destruct Hwfm as (Hwfm & Eqm).
  pose proof (linv_apply _ _ _ f e qs_m HL Hwfm Hleg Hap Hlof) as HL1.
  (* the delivered prefix of the position entries *)
  assert (Hxp : pos_extra (abs_qs qs_m) Xd').
  { rewrite HX in Hshape. exact (pos_extra_prefix _ _ _ Hshape). }
  set (fx := map (pair lo) Xd').
  assert (Efx : map snd fx = Xd').
  { unfold fx. rewrite map_map. cbn [snd]. apply map_id. }
  destruct (linv_pos_extra qs_m lo (gh_snoc G f e) fx HL1) as (HL2 & _).
  { now rewrite Efx. }
  { unfold fx. apply Forall_forall. intros fe Hin. apply in_map_iff in Hin.
    destruct Hin as (y & <- & _). cbn [fst]. (ca_lia using HBS_lo). }
  assert (EE : map snd (gh_E (gh_app (gh_snoc G f e) fx)) = map snd (gh_E G) ++ e :: Xd').
  { cbn [gh_app gh_snoc gh_E]. rewrite !map_app, Efx. cbn [map snd]. now rewrite <- app_assoc. }
  destruct (linv_restart_equal _ _ _ HL2 tags) as (qs' & H1 & H2' & H3' & H4).
  { apply (f_equal (@length entry)) in EE. rewrite map_length in EE. rewrite EE.
    rewrite app_length, map_length. cbn [length] in *. (ca_lia using Hlen). }
  rewrite EE in H1.
  exists qs'. split; [exact H1|]. split; [exact H2'|]. split; [exact H3'|].
  split; [discriminate|]. intros _ q. rewrite Eqm. apply H4.
Qed.

(* ====================================================================== *)
(* 3a. the unlinks of a crash prefix are among the unlinks of the call    *)
(* ====================================================================== *)

(* a file of the image-so-far that the data writes do not remove *)
Lemma img_ok_exists fs0 lo f0 off0 img D fc short n :
  img_ok P fs0 f0 off0 img D fc short ->
  (forall x, lo <= x <= f0 -> full_file P fs0 x) -> lo <= f0 -> fc <= U64_MAX ->
  lo <= n <= fc -> exists b, fs_get img (filename n) = Some (FFile b).
Proof using HBS_lo HBS_hi HNB Hcrc.
  intros (Hle & Hout & Hin & _) Hfull Hlo Hmax Hn.
  destruct (N.lt_ge_cases n f0) as [Hlt|Hge].
  - rewrite Hout.
    + destruct (Hfull n ltac:((ca_lia using Hlt Hn))) as (b & Hb & _). now exists b.
    + intros x Hx. apply filename_neq; (ca_lia using Hn Hmax Hx Hlt).
  - destruct (Hin n ltac:((ca_lia using Hge Hn))) as (b & Hb & _). now exists b.
Qed.

Lemma img_ok_below fs0 f0 off0 img D fc short n :
  img_ok P fs0 f0 off0 img D fc short -> fc <= U64_MAX -> n < f0 ->
  fs_get img (filename n) = fs_get fs0 (filename n).
Proof using HBS_lo HBS_hi HNB Hcrc.
  intros (Hle & Hout & _) Hmax Hn. apply Hout. intros x Hx. apply filename_neq; (ca_lia using Hn Hmax Hle Hx).
Qed.

Definition top_file (img : fsT) (fc : N) : Prop :=
  (exists b, fs_get img (filename fc) = Some (FFile b)) /\
  (forall n, fc < n -> n <= U64_MAX -> fs_get img (filename n) = None).

Lemma img_ok_top fs0 f0 off0 img D fc short :
  img_ok P fs0 f0 off0 img D fc short -> good P fs0 f0 U64_MAX -> fc <= U64_MAX ->
  top_file img fc.
Proof using HBS_lo HBS_hi HNB Hcrc.
  intros (Hle & Hout & Hin & _) (_ & Hnone) Hmax. split.
  - destruct (Hin fc ltac:((ca_lia using Hle))) as (b & Hb & _). now exists b.
  - intros n H1 H2'. rewrite Hout; [apply Hnone; (ca_lia using H1 Hle H2')|].
    intros x Hx. apply filename_neq; (ca_lia using H2' Hx Hmax H1).
Qed.

Lemma crash_unlinks lo f0 off0 NEW f1 off1 evs pe fs0 :
  call_trace P lo f0 off0 NEW f1 off1 evs -> cpre pe evs ->
  good P fs0 f0 U64_MAX -> (forall x, lo <= x <= f0 -> full_file P fs0 x) ->
  lo <= f0 -> f1 <= U64_MAX ->
  exists m mu : nat,
    (mu <= m)%nat /\ lo + N.of_nat mu <= f1 /\
    (forall n, lo <= n < lo + N.of_nat m ->
       fs_get (fold_left apply_event evs fs0) (filename n) = None) /\
    (forall n, n < lo ->
       fs_get (fold_left apply_event evs fs0) (filename n) = fs_get fs0 (filename n)) /\
    (exists b, fs_get (fold_left apply_event pe fs0) (filename (lo + N.of_nat mu)) = Some (FFile b)) /\
    exists fc, fc <= f1 /\ top_file (fold_left apply_event pe fs0) fc.
Proof using HBS_lo HBS_hi HNB Hcrc.
  intros Hct Hpe Hgood Hfull Hlo Hmax.
  assert (Hbase : img_ok P fs0 f0 off0 fs0 [] f0 false) by exact (HW img_base fs0 f0 off0 _ Hgood).
  (* a crash inside the data writes: nothing is unlinked *)
  assert (Hpart : forall wevs, wtrace P f0 off0 wevs NEW f1 off1 -> cpre pe wevs ->
            (exists b, fs_get (fold_left apply_event pe fs0) (filename (lo + N.of_nat 0)) = Some (FFile b)) /\
            exists fc, fc <= f1 /\ top_file (fold_left apply_event pe fs0) fc).
  { intros wevs Htr Hc.
    destruct (HW wtrace_img_pre _ _ _ _ _ _ Htr pe fs0 U64_MAX Hc Hgood Hmax (N.le_refl _))
      as (fc & short & Hfc & Hok).
    pose proof Hok as (Hle & _). split.
    - apply (img_ok_exists fs0 lo f0 off0 _ _ fc short _ Hok Hfull Hlo); (ca_lia using Hfc Hmax Hle Hlo).
    - exists fc. split; [exact Hfc|]. apply (img_ok_top _ _ _ _ _ _ _ Hok Hgood). (ca_lia using Hfc Hmax). }
  (* the whole call, with m unlinks after the data writes wevs *)
  assert (Hfull' : forall wevs tl (m : nat), wtrace P f0 off0 wevs NEW f1 off1 ->
            (forall fs, fold_left apply_event tl fs = remove_files fs (iota lo m)) ->
            lo + N.of_nat m <= f1 ->
            (forall n, lo <= n < lo + N.of_nat m ->
               fs_get (fold_left apply_event (wevs ++ tl) fs0) (filename n) = None) /\
            (forall n, n < lo ->
               fs_get (fold_left apply_event (wevs ++ tl) fs0) (filename n) =
               fs_get fs0 (filename n)) /\
            (exists b, fs_get (fold_left apply_event (wevs ++ tl) fs0) (filename (lo + N.of_nat m)) = Some (FFile b)) /\
            exists fc, fc <= f1 /\ top_file (fold_left apply_event (wevs ++ tl) fs0) fc).
  { intros wevs tl m Htr Htl Hm. rewrite fold_left_app, Htl.
    pose proof (HW wtrace_img_full _ _ _ _ _ _ Htr fs0 U64_MAX Hgood Hmax (N.le_refl _)) as Hok.
    destruct (img_ok_top _ _ _ _ _ _ _ Hok Hgood Hmax) as ((b & Hb) & Habove).
    split; [|split; [|split]].
    - intros n Hn. apply fs_get_removed. apply iota_In. (ca_lia using Hn).
    - intros n Hn. rewrite fs_get_remove_files_other.
      + apply (img_ok_below fs0 f0 off0 _ _ f1 false n Hok); (ca_lia using Hmax Hn Hlo).
      + intros y Hy. apply iota_In in Hy. apply filename_neq; (ca_lia using Hy Hm Hmax Hn).
    - rewrite fs_get_remove_files_other.
      + apply (img_ok_exists fs0 lo f0 off0 _ _ f1 false _ Hok Hfull Hlo); (ca_lia using Hmax Hm).
      + intros y Hy. apply iota_In in Hy. apply filename_neq; (ca_lia using Hy Hm Hmax).
    - exists f1. split; [(ca_lia using HBS_lo)|]. split.
      + exists b. rewrite fs_get_remove_files_other; [exact Hb|].
        intros y Hy. apply iota_In in Hy. apply filename_neq; (ca_lia using Hy Hm Hmax).
      + intros n H1 H2'. apply fs_get_remove_files_none. now apply Habove. }
  destruct Hct as [E -> ->|wevs a Htr|wevs m a Htr Hm].
  - inversion Hpe; subst. exists 0%nat, 0%nat. cbn [fold_left]. split; [(ca_lia using HBS_lo)|]. split; [(ca_lia using Hlo)|].
    split; [intros n Hn; (ca_lia using Hn)|]. split; [reflexivity|]. split.
    + apply (img_ok_exists fs0 lo f0 off0 _ _ f0 false _ Hbase Hfull Hlo); (ca_lia using Hmax Hlo).
    + exists f0. split; [(ca_lia using HBS_lo)|]. apply (img_ok_top _ _ _ _ _ _ _ Hbase Hgood). (ca_lia using Hmax).
  - pose proof (HW wtrace_le _ _ _ _ _ _ Htr) as Hle.
    destruct (noop_fold _ (flush_group_noop f1 a)) as [G1 _].
    assert (Hnil : forall fs, fold_left apply_event (flush_group f1 a) fs =
                              remove_files fs (iota lo 0)) by (intros fs; now rewrite G1).
    destruct (Hfull' wevs _ 0%nat Htr Hnil ltac:((ca_lia using Hle Hlo))) as (F1 & F2 & F3).
    exists 0%nat, 0%nat. split; [(ca_lia using HBS_lo)|]. split; [(ca_lia using Hle Hlo)|]. split; [exact F1|]. split; [exact F2|].
    destruct (cpre_app_inv _ _ _ Hpe) as [Hc|(pt & -> & Hc)]; [now apply (Hpart wevs)|].
    destruct (noop_fold _ (noop_cpre _ _ (flush_group_noop f1 a) Hc)) as [K1 _].
    assert (Hnil' : forall fs, fold_left apply_event pt fs = remove_files fs (iota lo 0))
      by (intros fs; now rewrite K1).
    now destruct (Hfull' wevs _ 0%nat Htr Hnil' ltac:((ca_lia using Hle Hlo))) as (_ & _ & K3).
  - assert (Htl : forall fs, fold_left apply_event
                    (flush_group f1 true ++ unlinks lo m ++ flush_group f1 a) fs =
                    remove_files fs (iota lo m)).
    { intros fs. destruct (noop_fold _ (flush_group_noop f1 true)) as [G1 _].
      destruct (noop_fold _ (flush_group_noop f1 a)) as [G2 _].
      rewrite !fold_left_app, G1, G2. unfold unlinks. apply fold_unlinks. }
    destruct (Hfull' wevs _ m Htr Htl Hm) as (F1 & F2 & F3).
    destruct (cpre_app_inv _ _ _ Hpe) as [Hc|(pt & -> & Hc)].
    + pose proof (HW wtrace_le _ _ _ _ _ _ Htr) as Hle.
      exists m, 0%nat. split; [(ca_lia using HBS_lo)|]. split; [(ca_lia using Hm)|]. split; [exact F1|]. split; [exact F2|].
      now apply (Hpart wevs).
    + destruct (HN tail_prefix _ _ _ _ _ _ Hc) as (mu & Hmu & K1 & _).
      exists m, mu. split; [exact Hmu|]. split; [(ca_lia using Hmu Hm)|]. split; [exact F1|]. split; [exact F2|].
      now destruct (Hfull' wevs pt mu Htr K1 ltac:((ca_lia using Hmu Hm))) as (_ & _ & K3).
Qed.

(* ====================================================================== *)
(* 2. the recovery-time GC on the writer made from a crash image          *)
(* ====================================================================== *)
(* TornFile's fspec places the recovered writer somewhere in the listed files, possibly NOT in
   the last one (files w_file+1 .. then exist and the next roll-over re-opens them through the
   tracker).  Hence an invariant weaker than FileStream.winv: the tracked files are lo .. lo+n,
   they are exactly the WAL files of the directory, nothing exists above them, the writer is
   in one of them, at an offset <= FILE. *)
Definition kinv (w : rwriter) : Prop :=
  wf w /\ w_off w <= FB /\ c_plan (w_ctx w) = None /\
  exists lo n, w_files w = iota lo (S n) /\ lo <= w_file w /\ w_file w <= lo + N.of_nat n /\
    lo + N.of_nat n <= U64_MAX /\
    dir_of (vfs w) (w_files w) /\
    (forall x, lo + N.of_nat n < x -> x <= U64_MAX -> fs_get (vfs w) (filename x) = None).

Definition wabs' (w : rwriter) : N := w_file w * FB + w_off w.

Lemma tracker_next_iota : forall m lo cur,
  lo <= cur -> cur + 1 < lo + N.of_nat m -> tracker_next (iota lo m) cur = Some (cur + 1).
Proof using HBS_lo HBS_hi HNB.
  induction m as [|m IH]; intros lo cur H1 H2'; [(ca_lia using H2' H1)|].
  cbn [iota tracker_next]. destruct (N.ltb_spec cur lo) as [H|_]; [(ca_lia using H H1)|].
  destruct (N.eq_dec cur lo) as [->|Hne].
  - destruct m as [|m]; [(ca_lia using H2')|]. cbn [iota tracker_next].
    destruct (N.ltb_spec lo (lo + 1)) as [_|H]; [reflexivity|(ca_lia using H)].
  - apply IH; (ca_lia using Hne H1 H2').
Qed.

(* rolling over into a file that already exists *)
Lemma wr_write_roll_existing w d nxt b :
  d <> [] -> FB < w_off w + lenN d ->
  tracker_next (w_files w) (w_file w) = Some nxt ->
  fs_get (vfs w) (filename nxt) = Some (FFile b) -> c_plan (w_ctx w) = None ->
  exists w', wr_write P w d = (w', Ok tt) /\
    w_files w' = w_files w /\ w_file w' = nxt /\ w_off w' = lenN d /\
    c_plan (w_ctx w') = None /\ vfs w' = fs_write (vfs w) nxt 0 d /\ wf w'.
Proof using HBS_lo HBS_hi HNB Hcrc.
  intros Hd Hroll Hnext Hex Hplan. unfold wr_write. destruct d as [|x d'] eqn:Ed; [congruence|].
  rewrite <- Ed in *. clear Ed x d'.
  destruct (N.ltb_spec FB (w_off w + lenN d)) as [_|H]; [|(ca_lia using H Hroll)].
  fold (synced w).
  pose proof (synced_pending w) as P1. pose proof (synced_key w) as Q1.
  pose proof (synced_fs w) as V1.
  destruct (synced w) as [c1 fl1 n1 off1 p1]. cbn [w_pending w_ctx] in P1, V1. subst p1.
  symmetry in Q1. apply wkey_fields in Q1. cbn [w_files w_file w_off w_ctx] in Q1.
  destruct Q1 as (E1 & E2 & E3 & Hm). subst fl1 n1 off1. cbn [w_files w_file w_off w_ctx w_pending].
  rewrite Hnext.
  assert (Hcok : cok (vfs w) c1).
  { split; [exact V1|]. rewrite <- Hplan. apply cmeta_plan. now symmetry. }
  destruct (open_file_none (vfs w) c1 nxt b Hcok Hex) as (c2 & -> & Hc2fs & Hc2plan).
  set (w2 := mkWr c2 (w_files w) nxt 0 []).
  destruct (bw_write_all_wrote P w2 d Hd (wf_nil w2 eq_refl)) as (Hk & Hv & Hw').
  apply wkey_fields in Hk. destruct Hk as (K1 & K2 & K3 & K4).
  eexists. split; [reflexivity|].
  split; [exact K1|]. split; [exact K2|]. split; [rewrite K3; unfold w2; cbn [w_off]; (ca_lia using HBS_lo)|].
  split.
  { assert (E : c_plan (w_ctx (bw_write_all P w2 d)) = c_plan c2) by (apply cmeta_plan; exact K4).
    now rewrite E. }
  split; [|exact Hw'].
  rewrite Hv. unfold w2. rewrite vfs_mk. cbn [w_file w_off]. now rewrite Hc2fs.
Qed.

Lemma dir_of_write fs files n off d :
  dir_of fs files -> n <= U64_MAX -> In n files -> dir_of (fs_write fs n off d) files.
Proof using Type. intros H1 H2' H3'. unfold fs_write. now apply dir_of_put_in. Qed.

(* one block write under kinv *)
Lemma kinv_write w d :
  kinv w -> lenN d <= wr_rem P w -> wabs' w + lenN d <= FB * (U64_MAX + 1) ->
  exists w', wr_write P w d = (w', Ok tt) /\ kinv w' /\ wabs' w' = wabs' w + lenN d.
Proof using HBS_lo HBS_hi HNB Hcrc.
  intros (Hwf & Hoff & Hplan & lo & n & Hfiles & Hlo & Hhi & Hmax & Hdir & Hfresh) Hlen Hb.
  destruct d as [|x d'] eqn:Ed.
  { exists w. split; [reflexivity|]. split.
    - repeat (split; [assumption|]). exists lo, n. repeat (split; [assumption|]). exact Hfresh.
    - rewrite (@lenN_nil byte). (ca_lia using HBS_lo). }
  rewrite <- Ed in *. assert (Hd : d <> []) by (rewrite Ed; discriminate). clear Ed x d'.
  pose proof (lenN_pos d Hd) as Hpos.
  assert (Hin : In (w_file w) (w_files w)) by (rewrite Hfiles; apply iota_In; (ca_lia using Hhi Hlo)).
  unfold wabs' in *. unfold wr_rem in Hlen.
  destruct (N.le_gt_cases (w_off w + lenN d) FB) as [Hfit|Hroll].
  - destruct (wr_write_fit P HB0c HNB w d Hd Hwf Hfit) as (w' & Hw & K1 & K2 & K3 & K4 & Hv & Hwf').
    exists w'. split; [exact Hw|]. split; [|rewrite K2, K3; (ca_lia using HBS_lo)].
    split; [exact Hwf'|]. split; [(ca_lia using K3 Hfit)|]. split; [congruence|].
    exists lo, n. rewrite K1, K2, Hv.
    split; [exact Hfiles|]. split; [exact Hlo|]. split; [exact Hhi|]. split; [exact Hmax|].
    split; [apply dir_of_write; [exact Hdir|(ca_lia using Hmax Hhi)|exact Hin]|].
    intros y Hy1 Hy2. rewrite fs_get_write_other; [now apply Hfresh|].
    apply filename_neq; (ca_lia using Hmax Hhi Hy2 Hy1).
  - assert (Hend : w_off w = FB) by (apply (fit_or_end P HB0c HNB _ (lenN d)); assumption).
    destruct (N.eq_dec (w_file w) (lo + N.of_nat n)) as [Elast|Hnl].
    + (* a new file *)
      assert (Hu1 : w_file w + 1 <= U64_MAX) by nia.
      assert (Hok : wr_ok w).
      { split; [apply contiguous_iota; now exists lo, n|].
        rewrite Hfiles, (HN iota_last). now rewrite Elast. }
      assert (Hfr : fs_get (vfs w) (filename (w_file w + 1)) = None) by (apply Hfresh; (ca_lia using Elast Hu1)).
      destruct (wr_write_roll P HB0c HNB w d Hd Hok Hroll Hfr)
        as (w' & Hw & K1 & K2 & K3 & K4 & Hv & Hwf').
      exists w'. split; [exact Hw|]. split; [|rewrite K2, K3; (ca_lia using Hend)].
      assert (HlenFB : lenN d <= FB).
      { pose proof (FB_ge_B P HB0c HNB). pose proof (N.mod_lt (w_off w) B ltac:((ca_lia using HBS_lo))). (ca_lia using H Hlen). }
      split; [exact Hwf'|]. split; [(ca_lia using HlenFB K3)|]. split; [congruence|].
      exists lo, (S n). rewrite K1, K2, Hv.
      assert (Ef' : w_files w ++ [w_file w + 1] = iota lo (S (S n))).
      { rewrite Hfiles, (iota_snoc (S n)). do 2 f_equal. (ca_lia using Elast). }
      split; [exact Ef'|]. split; [(ca_lia using Hlo)|]. split; [(ca_lia using Hhi)|]. split; [(ca_lia using Hu1 Elast)|].
      unfold fs_write. rewrite fs_put_put.
      split.
      * apply (dir_of_put _ (w_files w)); [exact Hdir|(ca_lia using Hu1)|].
        intros y. rewrite in_app_iff. cbn [In]. intuition.
      * intros y Hy1 Hy2. rewrite fs_get_put_other; [apply Hfresh; (ca_lia using Hy1 Hy2)|].
        apply filename_neq; (ca_lia using Hu1 Hy2 Hy1 Hhi).
    + (* the next file is already there *)
      assert (Hnext : tracker_next (w_files w) (w_file w) = Some (w_file w + 1)).
      { rewrite Hfiles. apply tracker_next_iota; (ca_lia using Hlo Hnl Hhi). }
      assert (Hin1 : In (w_file w + 1) (w_files w)) by (rewrite Hfiles; apply iota_In; (ca_lia using Hnl Hhi Hlo)).
      destruct (proj2 (Hdir (w_file w + 1) ltac:((ca_lia using Hnl Hmax Hhi))) Hin1) as (bb & Hbb).
      destruct (wr_write_roll_existing w d _ bb Hd Hroll Hnext Hbb Hplan)
        as (w' & Hw & K1 & K2 & K3 & K4 & Hv & Hwf').
      exists w'. split; [exact Hw|]. split; [|rewrite K2, K3; (ca_lia using Hend)].
      assert (HlenFB : lenN d <= FB).
      { pose proof (FB_ge_B P HB0c HNB). pose proof (N.mod_lt (w_off w) B ltac:((ca_lia using HBS_lo))). (ca_lia using H Hlen). }
      split; [exact Hwf'|]. split; [(ca_lia using HlenFB K3)|]. split; [exact K4|].
      exists lo, n. rewrite K1, K2, Hv.
      split; [exact Hfiles|]. split; [(ca_lia using Hlo)|]. split; [(ca_lia using Hnl Hhi)|]. split; [exact Hmax|].
      split; [apply dir_of_write; [exact Hdir|(ca_lia using Hnl Hmax Hhi)|exact Hin1]|].
      intros y Hy1 Hy2. rewrite fs_get_write_other; [now apply Hfresh|].
      apply filename_neq; (ca_lia using Hnl Hmax Hhi Hy2 Hy1).
Qed.

(* the record writer under kinv: simulated by the in-memory writer at the absolute position *)
Definition ksim (w : rwriter) (v : vecw) : Prop := kinv w /\ vw_cursor v = wabs' w.
Definition kG (v : vecw) : Prop := vw_cursor v <= FB * (U64_MAX + 1).

Lemma ksim_rem w v : ksim w v -> wr_rem P w = vw_rem P v.
Proof using HBS_lo HBS_hi HNB.
  intros (_ & Hc). unfold wr_rem, vw_rem. rewrite Hc. unfold wabs'.
  now rewrite (pos_mod P HB0c HNB).
Qed.

Lemma kG_back v d : kG (fst (vw_write v d)) -> kG v.
Proof using HBS_lo HBS_hi HNB Hcrc. unfold kG, vw_write. cbn [fst vw_cursor]. (ca_lia using HBS_lo). Qed.

Lemma ksim_write w v d : ksim w v -> lenN d <= vw_rem P v -> kG (fst (vw_write v d)) ->
  snd (wr_write P w d) = snd (vw_write v d) /\ ksim (fst (wr_write P w d)) (fst (vw_write v d)).
Proof using HBS_lo HBS_hi HNB Hcrc.
  intros Hs Hlen HG. pose proof (ksim_rem w v Hs) as Hrem. destruct Hs as (Hk & Hc).
  unfold kG, vw_write in *. cbn [fst snd vw_cursor] in *.
  destruct (kinv_write w d Hk ltac:((ca_lia using Hrem Hlen)) ltac:((ca_lia using HG Hc))) as (w' & -> & Hk' & Hpos).
  cbn [fst snd]. split; [reflexivity|]. split; [exact Hk'|]. cbn [vw_cursor]. (ca_lia using Hpos Hc).
Qed.

Lemma kinv_write_record w p w' r :
  kinv w -> cursor_after (wabs' w) [p] <= FB * (U64_MAX + 1) ->
  write_record P rwriter (wr_write P) (wr_rem P) w p = (w', r) ->
  (exists k, r = Ok k) /\ kinv w' /\ wabs' w' = cursor_after (wabs' w) [p].
Proof using HBS_lo HBS_hi HNB Hcrc.
  intros Hk Hb Hwr.
  set (v := mkVecW (wabs' w) []).
  destruct (H3 write_record_vecw v p) as (e & k & Hrel & Hv).
  assert (Ee : enc_of (wabs' w) p = e) by exact (H3 enc_rel_enc_of _ _ _ _ Hrel).
  assert (Ecur : cursor_after (wabs' w) [p] = wabs' w + lenN e).
  { rewrite (H3 cursor_after_cons), (H2 cursor_after_nil), Ee. reflexivity. }
  assert (HB7 : HEADER_LEN <= B) by (unfold HEADER_LEN; (ca_lia using HBS_lo)).
  destruct (write_record_sim P HB7 rwriter vecw (wr_write P) (wr_rem P) vw_write (vw_rem P)
              ksim kG ksim_rem kG_back ksim_write (vw_pad_full P HB0c HNB) w v p) as (Hs & Hk' & Hc').
  - split; [exact Hk|reflexivity].
  - rewrite Hv. unfold kG, v. cbn [fst vw_cursor]. (ca_lia using Ecur Hb).
  - rewrite Hwr, Hv in *. unfold v in *. cbn [fst snd vw_cursor] in *.
    split; [eexists; exact Hs|]. split; [exact Hk'|]. (ca_lia using Hc' Ecur).
Qed.

Lemma cursor_after_cons1 a p ps :
  cursor_after a (p :: ps) = cursor_after (cursor_after a [p]) ps.
Proof using HBS_lo HBS_hi Hcrc. now rewrite !(H3 cursor_after_cons), (H2 cursor_after_nil). Qed.

(* the position entries *)
Lemma kinv_record_positions names : forall st acc st' r,
  kinv (s_wr st) ->
  cursor_after (wabs' (s_wr st)) (ser (map snd (rp_log P st names))) <= FB * (U64_MAX + 1) ->
  record_positions P st names acc = (st', r) ->
  (exists n, r = Ok n) /\ kinv (s_wr st') /\ s_qs st' = s_qs st /\ s_pol st' = s_pol st.
Proof using HBS_lo HBS_hi HNB Hcrc.
  induction names as [|n names IH]; intros st acc st' r Hk Hb Hrp; cbn [record_positions] in Hrp.
  - inversion Hrp; subst. split; [eexists; reflexivity|]. auto.
  - cbn [rp_log] in Hb. destruct (qs_get (s_qs st) n) as [q|] eqn:Eq; [|now apply (IH st acc)].
    set (e := EPosition n (next_position q)) in *.
    destruct (write_entry P st e) as [st1 r1] eqn:Ew.
    cbn [map snd] in Hb.
    pose proof (H3 cursor_after_ge) as Hge.
    rewrite cursor_after_cons1 in Hb.
    assert (Hb1 : cursor_after (wabs' (s_wr st)) [entry_ser e] <= FB * (U64_MAX + 1)).
    { pose proof (Hge (ser (map snd (match r1 with Ok _ => rp_log P st1 names | Err _ => [] end)))
                      (cursor_after (wabs' (s_wr st)) [entry_ser e])). (ca_lia using H Hb). }
    pose proof Ew as Ew'. unfold write_entry in Ew'.
    destruct (write_record P rwriter (wr_write P) (wr_rem P) (s_wr st) (entry_ser e)) as [w1 rr] eqn:Ewr.
    inversion Ew'; subst st1 r1. clear Ew'.
    destruct (kinv_write_record _ _ _ _ Hk Hb1 Ewr) as ((k & ->) & Hk1 & Hpos1).
    destruct (IH (set_wr st w1) (acc + k) st' r) as (Hr & Hk' & Eqs & Epol).
    + exact Hk1.
    + cbn [set_wr s_wr]. rewrite Hpos1. exact Hb.
    + exact Hrp.
    + split; [exact Hr|]. split; [exact Hk'|]. split; assumption.
Qed.

Lemma kinv_persist w a : kinv w -> kinv (wr_persist w a) /\ w_pending (wr_persist w a) = [].
Proof using HBS_lo HBS_hi HNB.
  intros (Hwf & Hoff & Hplan & lo & n & Hfiles & Hlo & Hhi & Hmax & Hdir & Hfresh).
  pose proof (wr_persist_key w a) as Hk. apply wkey_fields in Hk.
  destruct Hk as (K1 & K2 & K3 & K4).
  pose proof (WriterProofs.wr_persist_drained w a) as Hp.
  assert (Hv : vfs (wr_persist w a) = vfs w).
  { rewrite (vfs_nil _ Hp). apply wr_persist_fs. }
  split; [|exact Hp].
  split; [now apply wf_nil|]. split; [(ca_lia using K3 Hoff)|]. split; [rewrite <- Hplan; now apply cmeta_plan|].
  exists lo, n. rewrite K1, K2, Hv. repeat (split; [assumption|]). exact Hfresh.
Qed.

(* the recovery-time GC never fails *)
Theorem kinv_gc_ok st hint st' r :
  kinv (s_wr st) ->
  phys_bound P (s_wr st) (map snd (gc_log P st hint)) ->
  run_gc_if_necessary P st hint = (st', r) ->
  (exists n, r = Ok n) /\ s_qs st' = s_qs st /\ s_pol st' = s_pol st.
Proof using HBS_lo HBS_hi HNB Hcrc HGC.
  intros Hk Hb Hgc. unfold run_gc_if_necessary in Hgc. unfold gc_log, phys_bound in Hb.
  destruct (has_deletable st) eqn:Hd.
  2:{ inversion Hgc; subst. split; [now exists 0|]. auto. }
  set (names := pick_order hint (empty_names (s_qs st))) in *.
  unfold record_empty_queues_position in Hgc. fold names in Hgc.
  destruct (record_positions P st names 0) as [st0 r0] eqn:Erp.
  destruct (kinv_record_positions names st 0 st0 r0 Hk Hb Erp) as ((k & ->) & Hk0 & Eqs0 & Epol0).
  rewrite HGC in Hgc. cbn [andb] in Hgc.
  set (st1 := persist st0 true) in *.
  destruct (kinv_persist (s_wr st0) true Hk0) as (Hk1 & Hp1).
  change (wr_persist (s_wr st0) true) with (s_wr st1) in Hk1, Hp1.
  destruct (gc_loop (w_ctx (s_wr st1)) (w_files (s_wr st1)) (referenced st1 (w_file (s_wr st))))
    as [[c files'] rg] eqn:Egc.
  destruct Hk1 as (_ & _ & _ & lo & n & Hfiles & Hlo & Hhi & Hmax & Hdir & _).
  rewrite (vfs_nil _ Hp1) in Hdir.
  destruct (gc_loop_dir _ _ _ _ _ _ Egc) as (_ & ->).
  - apply contiguous_iota. now exists lo, n.
  - intros x Hx. rewrite Hfiles in Hx. apply iota_In in Hx. (ca_lia using Hx Hmax).
  - exact Hdir.
  - inversion Hgc; subst. split; [now exists k|]. split; [exact Eqs0|exact Epol0].
Qed.

(* ====================================================================== *)
(* 3b. `open` finishes: from TornFile's description of the recovered writer *)
(* ====================================================================== *)

Lemma finish_ok img lo' hi base w0 tags sts pf qs' pol hint :
  lo' <= hi -> hi <= U64_MAX -> base <= lo' ->
  dir_of img (nfiles lo' hi) -> top_file img hi ->
  fspec P lo' (N.to_nat (hi - lo')) base (zext P img hi) w0 tags sts pf ->
  nodup_names qs' ->
  (forall extra, pos_extra (abs_qs qs') extra ->
     FB * base + cursor_after pf (ser extra) <= FB * (U64_MAX + 1)) ->
  exists st_r, open_finish P w0 qs' pol hint = OpenOk st_r /\ s_qs st_r = qs'.
Proof using HBS_lo HBS_hi HNB Hcrc HGC.
  intros Hle Hmax Hbase Hdir (Htop1 & Htop2) Hspec Hnd Hb.
  destruct Hspec as (_ & _ & _ & _ & Hfiles & Hlo & Hhi & Hoff & Hpf & Hpend & Hfs & Hplan).
  set (n := N.to_nat (hi - lo')) in *.
  assert (Ecur : lo' + N.of_nat n = hi) by (unfold n; (ca_lia using Hle)).
  rewrite Ecur in Hhi.
  assert (Hk : kinv w0).
  { split; [now apply wf_nil|]. split; [exact Hoff|]. split; [exact Hplan|].
    exists lo', n. rewrite (vfs_nil _ Hpend), Hfs, Ecur.
    split; [exact Hfiles|]. split; [exact Hlo|]. split; [exact Hhi|]. split; [exact Hmax|].
    rewrite Hfiles. change (iota lo' (S n)) with (nfiles lo' hi).
    split.
    - unfold zext. apply dir_of_put_in; [exact Hdir|exact Hmax|]. apply (HN nfiles_In); (ca_lia using Hle).
    - intros x Hx1 Hx2. unfold zext. rewrite fs_get_put_other; [now apply Htop2|].
      apply filename_neq; (ca_lia using Hmax Hx2 Hx1). }
  set (st0 := mkSt w0 qs' pol).
  assert (Hphys : phys_bound P (s_wr st0) (map snd (gc_log P st0 hint))).
  { unfold phys_bound, wabs. cbn [st0 s_wr].
    replace (w_file w0 * FB + w_off w0) with (base * FB + pf).
    2:{ rewrite <- Hpf. assert (E : w_file w0 = base + (w_file w0 - base)) by (ca_lia using Hlo Hbase).
        rewrite E at 2. rewrite N.mul_add_distr_r. (ca_lia using HBS_lo). }
    rewrite (cursor_after_shift P HBS_lo HBS_hi HNB Hcrc) by apply (HN mulFB_mod).
    pose proof (Hb _ (gc_log_pos_extra P st0 hint Hnd)). (ca_lia using H). }
  unfold open_finish. fold st0.
  destruct (run_gc_if_necessary P st0 hint) as [st1 r] eqn:Egc.
  destruct (kinv_gc_ok st0 hint st1 r Hk Hphys Egc) as ((k & ->) & Eqs & _).
  exists st1. split; [reflexivity|exact Eqs].
Qed.

(* ====================================================================== *)
(* 4. THE THEOREM                                                         *)
(* ====================================================================== *)

(* the ghost stream after the call's entries *)
Lemma ghost_stream es xs c0 z :
  let T := encs_of 0 es in
  lenN T <= c0 -> c0 <= ffp (lenN T) ->
  exists zz,
    T ++ zerosN (c0 - lenN T) ++ encs_of c0 xs ++ zerosN z = encs_of 0 (es ++ xs) ++ zerosN zz /\
    lenN (encs_of 0 (es ++ xs)) <= c0 + lenN (encs_of c0 xs) /\
    (xs <> [] -> lenN (encs_of 0 (es ++ xs)) = c0 + lenN (encs_of c0 xs)).
Proof using HBS_lo HBS_hi HNB Hcrc.
  intros T H1 H2'. rewrite (H3 encs_of_app), N.add_0_l. fold T.
  destruct xs as [|x xs'] eqn:Ex.
  - cbn [ResyncProofs.encs_of app]. exists (c0 - lenN T + z).
    rewrite app_nil_r, (@lenN_nil byte), zerosN_app. split; [reflexivity|]. split; [(ca_lia using H1)|].
    intros H; now destruct H.
  - rewrite <- Ex. assert (Hne : xs <> []) by (rewrite Ex; discriminate). clear Ex x xs'.
    pose proof (HW CrashTrace.encs_of_between (lenN T) c0 xs H1 H2' Hne) as E.
    exists z. rewrite <- E, <- !app_assoc. split; [reflexivity|].
    rewrite !lenN_app, lenN_zerosN. split; [(ca_lia using H1)|]. intros _. (ca_lia using H1).
Qed.

(* room for the position entries of the recovery-time GC, whatever the resume point of the
   recovered writer between the end of the ghost stream before the call and the block after
   its end after the call *)
Definition crash_bound (G : ghost) (X : list entry) (m : smap) : Prop :=
  forall c extra, pos_extra m extra ->
    lenN (gh_T P G) <= c -> c <= cursor_after 0 (ser (gh_ALL G ++ X)) + B ->
    FB * gh_base G + cursor_after c (ser extra) <= FB * (U64_MAX + 1).

Lemma crash_bound_ext G X m1 m2 :
  (forall q, s_get m2 q = s_get m1 q) -> crash_bound G X m1 -> crash_bound G X m2.
Proof using Type.
  intros He Hb c extra Hx. apply Hb. apply (pos_extra_ext m2); [intros q; now rewrite He|exact Hx].
Qed.

Lemma ceil_block a : exists m, a <= m * B /\ m * B < a + B.
Proof using HBS_lo HBS_hi HNB.
  exists ((a + B - 1) / B).
  pose proof (N.div_mod (a + B - 1) B ltac:((ca_lia using HBS_lo))). pose proof (N.mod_lt (a + B - 1) B ltac:((ca_lia using HBS_lo))).
  split; (ca_lia using HBS_lo).
Qed.

Lemma Forall2_right {A C} (R : A -> C -> Prop) (Q : C -> Prop) l1 l2 :
  Forall2 R l1 l2 -> (forall x y, R x y -> Q y) -> Forall Q l2.
Proof using Type. induction 1; intros H'; constructor; eauto. Qed.

(* what a reader skips before b does not reach into entries whose first frames are all >= b *)
Lemma skipped_before_le b Bs : forall A a,
  Forall (fun s => b <= snd s) (starts (cursor_after a A) Bs) ->
  (length (skipped_before b a (A ++ Bs)) <= length A)%nat.
Proof using HBS_lo HBS_hi HNB Hcrc.
  induction A as [|p A IH]; intros a HB; cbn [app].
  - rewrite (H2 cursor_after_nil) in HB. destruct Bs as [|q Bs']; [cbn; (ca_lia using HBS_lo)|].
    cbn [ResyncProofs.starts] in HB. inversion HB as [|? ? Hh _]; subst. cbn [snd] in Hh.
    cbn [ResyncProofs.skipped_before]. destruct (N.leb_spec b (ffp a)); [cbn; (ca_lia using HBS_lo)|(ca_lia using H Hh)].
  - cbn [ResyncProofs.skipped_before]. destruct (N.leb_spec b (ffp a)); [cbn; (ca_lia using HBS_lo)|].
    cbn [length]. apply le_n_S. apply IH. now rewrite (H3 cursor_after_cons) in HB.
Qed.

Lemma fspec_tags_len lo n base fsx w0 tags es pf a0 :
  fspec P lo n base fsx w0 tags (starts a0 (ser es)) pf -> length tags = length es.
Proof using Type. intros (H & _). now rewrite H, (ResyncProofs.starts_length P), map_length. Qed.

Lemma nil_dec {A} (l : list A) : {l = []} + {l <> []}.
Proof using Type. destruct l; [now left|right; discriminate]. Qed.

Theorem C02_crash_atomic st G a o tick st' out :
  Inv st G -> w_pending (s_wr st) = [] -> s_pol st = PAlways a ->
  op_wf_strict (s_qs st) o ->
  stream_bound G (map snd (step_log P st o)) ->
  crash_bound G (map snd (step_log P st o)) (abs_qs (s_qs st)) ->
  crash_bound G (map snd (step_log P st o)) (abs_qs (s_qs st')) ->
  step P st o tick = (st', out) -> (forall e, out <> OutIo e) ->
  exists evs, c_ev (w_ctx (s_wr st')) = rev evs ++ c_ev (w_ctx (s_wr st)) /\
    forall cut k pol hint,
      let img := fold_left apply_event (crash_events evs cut k) (c_fs (w_ctx (s_wr st))) in
      exists st_r, open P img None pol hint = OpenOk st_r /\
        ((forall q, s_get (abs_qs (s_qs st_r)) q = s_get (abs_qs (s_qs st)) q) \/
         (forall q, s_get (abs_qs (s_qs st_r)) q = s_get (abs_qs (s_qs st')) q)).
Proof using HBS_lo HBS_hi HNB Hcrc HGC HIO HSHORT Hnc.
  intros HI Hp0 Hpol Hop Hbound Hcb Hcb' Hstep Hno.
  destruct (HG crash_image_shape st G a o tick st' out HI Hp0 Hpol Hop Hbound Hstep Hno)
    as (evs & Hev & Hfs & Hct & Himg). cbn zeta in *.
  exists evs. split; [exact Hev|]. intros cut k pol hint. cbn zeta.
  destruct (Himg cut k) as (nu & hi & short & z & Hlohi & Hf0hi & Hhif1 & Hhimax & Hndk & Hdir &
                            Hlist & Hlens & Hshort & Hdata & Hj & Hstream & Hlen & Hnuj).
  clear Himg.
  pose proof HI as (HP & HL).
  destruct (HG inv_step st G o tick st' out HI Hop Hbound Hstep Hno)
    as (G' & HI' & Eb & Ed & Elog).
  pose proof HI' as (HP' & HL').
  set (pe := crash_events evs cut k) in *.
  set (img := fold_left apply_event pe (c_fs (w_ctx (s_wr st)))) in *.
  set (j := lenN (ev_data pe)) in *.
  set (w := s_wr st) in *. set (lo := wlo w) in *. set (lo' := lo + N.of_nat nu) in *.
  set (base := gh_base G) in *. set (T := gh_T P G) in *.
  set (c0 := call_cursor P st G) in *. set (X := map snd (step_log P st o)) in *.
  set (NEW := call_bytes P st G o) in *.
  (* the directory before the call *)
  destruct (HW pinv_setup w G HP) as (Hlb & Ebuf & HS & Hposn & Hn & Hn1). cbn zeta in *.
  pose proof HP as (Hw & (_ & Hdir0) & Hnd0 & Hbase & Hc1 & Hc2 & _ & HWf & _). cbn zeta in Hc1, Hc2.
  pose proof Hw as (Hok & Hwf' & Hoff & Hplan & Hu & Hfull & Hfresh).
  rewrite (vfs_nil w Hp0) in Hfull, Hfresh.
  set (fs0 := c_fs (w_ctx w)) in *. set (f0 := w_file w) in *.
  fold base in Hbase. fold lo in Hbase, Hn.
  assert (Hlo : lo <= f0) by (ca_lia using Hn1 Hn).
  assert (Efiles : w_files w = nfiles lo f0).
  { rewrite (HN wr_ok_iota w Hok). fold lo. unfold nfiles. f_equal.
    rewrite lenN_length in Hn. (ca_lia using Hlo Hn). }
  assert (Hfull0 : forall n, lo <= n <= f0 -> full_file P fs0 n).
  { intros n Hn'. apply Hfull. rewrite Efiles. apply (HN nfiles_In); (ca_lia using Hn1 Hn Hn'). }
  assert (Hgood : good P fs0 f0 U64_MAX).
  { split; [apply Hfull0; (ca_lia using Hn1 Hn)|]. intros n H1 H2'. now apply Hfresh. }
  (* the state after the call *)
  destruct (HG step_call_trace st G a o tick st' out HI Hp0 Hpol Hbound Hstep Hno)
    as (_ & _ & _ & _ & Hp0'). cbn zeta in Hp0'.
  pose proof HP' as (Hw' & (_ & Hdir0') & _ & Hbase' & Hc1' & Hc2' & _ & HWf' & _).
  cbn zeta in Hc1', Hc2'. rewrite Eb in Hbase', Hc1', Hc2'.
  pose proof Hw' as (Hok' & _ & Hoff' & _ & Hu' & Hfull' & _).
  rewrite (vfs_nil _ Hp0') in Hfull'.
  set (w' := s_wr st') in *. set (f1 := w_file w') in *.
  destruct (wr_ok_len P HB0c HNB w' Hok') as (Hn' & Hn1').
  (* (S1) the unlinked files of the image are among those unlinked by the call *)
  destruct (crash_unlinks lo f0 (w_off w) NEW f1 (w_off w') evs pe fs0 Hct
              (crash_events_cpre evs cut k) Hgood Hfull0 Hlo Hu')
    as (m & mu & Hmu & Hmuf1 & Hgone & Hbelow & Hex & fc & Hfc & (Htopf & Htopn)).
  fold img in Hex, Htopf, Htopn.
  assert (Hlo'mu : lo' <= lo + N.of_nat mu).
  { apply (Hdir (lo + N.of_nat mu) ltac:((ca_lia using Hmuf1 Hu'))) in Hex. apply (HN nfiles_In) in Hex; (ca_lia using Hex Hlohi). }
  assert (Hlo'x : lo' <= wlo w').
  { assert (Hin : In (wlo w') (w_files w')).
    { apply (HN RestartGc.wr_ok_In); [exact Hok'|(ca_lia using Hn1' Hn')]. }
    destruct (Hfull' _ Hin) as (b & Hb & _). rewrite Hfs in Hb.
    destruct (N.lt_ge_cases (wlo w') lo) as [Hlt|Hge].
    - rewrite (Hbelow _ Hlt) in Hb.
      assert (Hin0 : In (wlo w') (w_files w)).
      { apply (Hdir0 Hu (wlo w') ltac:((ca_lia using Hn1' Hn' Hu'))). now exists b. }
      rewrite Efiles in Hin0. apply (HN nfiles_In) in Hin0; (ca_lia using Hin0 Hlt Hn1 Hn).
    - destruct (N.lt_ge_cases (wlo w') (lo + N.of_nat m)) as [Hlt|Hge2]; [|(ca_lia using Hge2 Hlo'mu Hmu)].
      rewrite (Hgone (wlo w') ltac:((ca_lia using Hlt Hge))) in Hb. discriminate. }
  assert (Htop : top_file img hi).
  { assert (E : fc = hi).
    { apply (Hdir fc ltac:((ca_lia using Hfc Hu'))) in Htopf. apply (HN nfiles_In) in Htopf; [|(ca_lia using Hlohi)].
      destruct (N.lt_ge_cases fc hi) as [Hlt|]; [|(ca_lia using H Htopf)].
      destruct (Hlens hi ltac:((ca_lia using Hlohi))) as (b & Hb & _).
      rewrite (Htopn hi Hlt Hhimax) in Hb. discriminate. }
    subst fc. split; assumption. }
  clear Hex Htopf Htopn Hgone Hbelow Hfc.
  (* (S2) the image in the terms of TornFile *)
  set (n := N.to_nat (hi - lo')).
  assert (Ecur : lo' + N.of_nat n = hi) by (unfold n; (ca_lia using Hlohi)).
  assert (Hlistx : list_wal_numbers img = iota lo' (S n)) by exact Hlist.
  assert (Hfilesx : forall f, In f (iota lo' (S n)) ->
            exists b, fs_get img (filename f) = Some (FFile b) /\ lenN b <= FB /\
                      (f <> lo' + N.of_nat n -> lenN b = FB)).
  { intros f Hf. apply iota_In in Hf. destruct (Hlens f ltac:((ca_lia using Hf Hlohi))) as (b & Hb & Hlb').
    exists b. split; [exact Hb|]. rewrite Ecur.
    destruct (N.eqb_spec f hi) as [->|Hne]; destruct short; cbn [andb] in Hlb'; split; (ca_lia using Hlb'). }
  assert (Eext : fs_ext P img lo' n = zext P img hi).
  { unfold fs_ext. rewrite Ecur. reflexivity. }
  assert (Hbase'' : base <= lo') by (ca_lia using Hbase).
  assert (HwfX : Forall wf_entry X).
  { pose proof (step_log_wf P st o (proj1 HL) (op_wf_strict_wf _ _ Hop)) as Hlw.
    unfold X. apply Forall_map. exact Hlw. }
  assert (EALL' : gh_ALL G' = gh_ALL G ++ X).
  { unfold gh_ALL. rewrite Ed, Elog, map_app, app_assoc. reflexivity. }
  assert (Ec0 : c0 = (lo - base) * FB + wpos P w) by reflexivity.
  assert (ENEW : NEW = encs_of c0 (ser X)) by reflexivity.
  assert (ET : T = encs_of 0 (ser (gh_ALL G))) by reflexivity.
  destruct (ghost_stream (ser (gh_ALL G)) (ser X) c0 z) as (zz & ES' & HlenT'1 & HlenT'2).
  { exact Hc1. } { exact Hc2. }
  assert (Hc1c : lenN T <= c0) by exact Hc1.
  assert (Hc2c : c0 <= ffp (lenN T)) by exact Hc2.
  cbn zeta in ES'. rewrite <- ET in ES'.
  rewrite <- ENEW, <- map_app, <- EALL' in ES', HlenT'1, HlenT'2.
  set (T' := encs_of 0 (ser (gh_ALL G'))) in *.
  assert (HTT' : lenN T <= lenN T').
  { unfold T'. rewrite EALL', map_app, (H3 encs_of_app), lenN_app, <- ET. (ca_lia using HBS_lo). }
  assert (EcurT' : cursor_after 0 (ser (gh_ALL G ++ X)) = lenN T').
  { rewrite <- EALL'. apply (HN cursor_after_0). }
  destruct (ceil_block (lenN T')) as (mb & Hmb1 & Hmb2).
  assert (HlenS : lenN (T ++ zerosN (c0 - lenN T) ++ takeN j NEW ++ zerosN z) =
                  (lo' + N.of_nat n - base + 1) * FB).
  { rewrite !lenN_app, !lenN_zerosN, lenN_takeN, Ecur.
    replace (hi - base + 1) with (hi + 1 - base) by (ca_lia using Hbase Hlohi). (ca_lia using Hc1c Hlen Hj). }
  assert (Hcj : c0 + j <= mb * B).
  { destruct (nil_dec X) as [E0|Hne].
    - assert (j = 0).
      { rewrite ENEW, E0 in Hj. cbn [map ResyncProofs.encs_of] in Hj.
        rewrite (@lenN_nil byte) in Hj. (ca_lia using Hj). }
      assert (lenN T' = lenN T) by (unfold T'; now rewrite EALL', E0, app_nil_r).
      pose proof (H2 ffp_le_boundary (lenN T) mb ltac:((ca_lia using Hmb1 HTT'))). (ca_lia using H1 H Hc2c).
    - assert (Hne' : ser X <> []) by (intros E; apply map_eq_nil in E; contradiction).
      specialize (HlenT'2 Hne'). (ca_lia using Hmb1 HlenT'2 Hj). }
  destruct nu as [|nu'].
  { (* ---------- no file has been unlinked yet ---------- *)
    assert (Elo' : lo' = lo) by (unfold lo'; cbn; (ca_lia using HBS_lo)).
    assert (Hb : (lo' - base) * FB <= c0) by (rewrite Elo', Ec0; (ca_lia using HBS_lo)).
    rewrite <- Eext in Hstream.
    destruct (open_torn P HBS_lo HBS_hi HNB Hcrc Hnc img lo' n Hlistx Hfilesx base Hbase''
                (gh_ALL G) X T c0 j z pol hint HIO HSHORT HWf HwfX
                (H3 encs_of_rel (ser (gh_ALL G)) 0) Hc1c Hc2c Hb Hj Hstream HlenS)
      as (w0 & tags & E_pre & E_suf & X1 & Xr & Xd & pf & HE & Hpre & Hsuf & HX & Hle1 & Hr &
          HXd & Hspec & Hpf1 & Hpf2 & Hpf3 & Hup & Hres & Hopen).
    (* what is delivered of the old entries is E *)
    destruct (HW PInv_delivered w G HP) as (Edel & _). fold lo base in Edel.
    rewrite Elo' in Hsuf. change (ser (gh_ALL G)) with (gh_ser G) in Hsuf. rewrite Edel in Hsuf.
    assert (HEs : E_suf = map snd (gh_E G)).
    { rewrite gh_ALL_split in HE. symmetry in HE.
      apply app_eq_len in HE; [apply HE|].
      apply (f_equal (@length bytes)) in Hsuf. unfold gh_ser_E in Hsuf.
      repeat rewrite map_length in Hsuf. repeat rewrite map_length. (ca_lia using Hsuf). }
    subst E_suf.
    (* what is delivered of the new ones is a prefix of X *)
    assert (HXpre : exists Xr', X = Xd ++ Xr').
    { destruct HXd as [->|(x & X2 & -> & -> & _)]; [now exists Xr|].
      exists X2. rewrite HX, <- app_assoc. reflexivity. }
    destruct HXpre as (Xr' & HXd').
    pose proof (fspec_tags_len _ _ _ _ _ _ _ _ _ Hspec) as Htl.
    rewrite app_length, map_length in Htl.
    destruct (call_entries_atomic st G o tick st' out HI Hop Hbound Hstep Hno Xd Xr' HXd' tags Htl)
      as (qs' & Hrep & Hqi & Hndq & Hnil & Hcons).
    rewrite Hrep in Hopen.
    (* the resume point is in the range of the bound *)
    assert (Hpfhi : pf <= lenN T' + B).
    { assert (pf <= mb * B); [|(ca_lia using H Hmb2)]. apply Hup; (ca_lia using Hcj Ec0). }
    rewrite Eext in Hspec.
    destruct (finish_ok img lo' hi base w0 tags _ pf qs' pol hint Hlohi Hhimax Hbase'' Hdir Htop
                Hspec Hndq) as (st_r & Hfin & Eqr).
    { intros extra Hx.
      destruct Xd as [|x Xd''].
      - apply (crash_bound_ext G X _ (abs_qs qs') (Hnil eq_refl) Hcb pf extra Hx); [exact Hpf1|].
        rewrite EcurT'. exact Hpfhi.
      - apply (crash_bound_ext G X _ (abs_qs qs') (Hcons ltac:(discriminate)) Hcb' pf extra Hx);
          [exact Hpf1|]. rewrite EcurT'. exact Hpfhi. }
    exists st_r. split; [now rewrite Hopen|]. rewrite Eqr.
    destruct Xd as [|x Xd'']; [left; now apply Hnil|right; apply Hcons; discriminate]. }
  (* ---------- some files have been unlinked: everything was written ---------- *)
  assert (Hjfull : j = lenN NEW) by (apply Hnuj; discriminate).
  assert (Htk : takeN j NEW = NEW) by (apply takeN_all; (ca_lia using Hnuj)).
  rewrite Htk, ES' in Hstream, HlenS.
  rewrite lenN_app, lenN_zerosN, Ecur in HlenS.
  change (gh_T P G') with T' in Hc1', Hc2'.
  set (c0' := (wlo w' - base) * FB + wpos P w') in *.
  assert (Hb' : (lo' - base) * FB <= c0').
  { assert ((lo' - base) * FB <= (wlo w' - base) * FB) by (apply N.mul_le_mono_r; (ca_lia using Hlo'x)).
    unfold c0'. (ca_lia using H). }
  assert (Hc0'hi : c0' <= (hi + 1 - base) * FB).
  { assert (E : (hi + 1 - base) * FB = ((hi + 1 - base) * NB P) * B) by (rewrite (HN FB_eq); (ca_lia using HBS_lo)).
    pose proof (H2 ffp_le_boundary (lenN T') ((hi + 1 - base) * NB P)) as Hf.
    rewrite <- E in Hf. replace (hi - base + 1) with (hi + 1 - base) in HlenS by (ca_lia using Hbase Hlohi). (ca_lia using Hf HlenT'1 Hc2' Hnuj Hlen). }
  set (z' := (hi + 1 - base) * FB - c0').
  assert (ES2 : T' ++ zerosN zz =
                T' ++ zerosN (c0' - lenN T') ++ encs_of c0' (ser []) ++ zerosN z').
  { cbn [map ResyncProofs.encs_of app].
    replace zz with ((c0' - lenN T') + z'); [now rewrite FileStream.zerosN_app|].
    replace (hi - base + 1) with (hi + 1 - base) in HlenS by (ca_lia using Hbase Hlohi). unfold z'. (ca_lia using Hc0'hi HlenS Hc1'). }
  rewrite ES2 in Hstream. rewrite <- Eext in Hstream.
  assert (HlenS2 : lenN (T' ++ zerosN (c0' - lenN T') ++ encs_of c0' (ser []) ++ zerosN z') =
                   (lo' + N.of_nat n - base + 1) * FB).
  { rewrite <- ES2, lenN_app, lenN_zerosN, Ecur. exact HlenS. }
  destruct (open_torn_complete P HBS_lo HBS_hi HNB Hcrc Hnc img lo' n Hlistx Hfilesx base Hbase''
              (gh_ALL G') [] T' c0' z' pol hint HIO HSHORT HWf' (Forall_nil _)
              (H3 encs_of_rel (ser (gh_ALL G')) 0) Hc1' Hc2' Hb' Hstream HlenS2)
    as (w0 & tags & E_pre & E_suf & pf & HE & Hpre & Hsuf & Hspec & Hpf1 & _ & _ & Hup & _ & Hopen).
  rewrite app_nil_r in Hspec, Hopen.
  (* what is skipped lies before E of the state after the call *)
  assert (Hklen : (length E_pre <= gh_k G')%nat).
  { pose proof HP' as (_ & _ & _ & _ & _ & _ & _ & _ & _ & HD2 & _). cbn zeta in HD2.
    rewrite Eb in HD2.
    assert (HallE : Forall (fun s => (lo' - base) * FB <= snd s)
                           (starts (cursor_after 0 (gh_ser_before G')) (gh_ser_E G'))).
    { apply (Forall2_right _ _ _ _ HD2). intros fe s0 (Hs0 & _).
      assert ((lo' - base) * FB <= (wlo w' - base) * FB) by (apply N.mul_le_mono_r; (ca_lia using Hlo'x)). (ca_lia using H Hs0). }
    pose proof (skipped_before_le _ _ _ _ HallE) as Hsk.
    rewrite <- gh_ser_split in Hsk. change (gh_ser G') with (ser (gh_ALL G')) in Hsk.
    rewrite <- Hpre in Hsk. unfold gh_ser_before in Hsk. rewrite !map_length in Hsk.
    now rewrite gh_before_length in Hsk. }
  pose proof (fspec_tags_len _ _ _ _ _ _ _ _ _ Hspec) as Htl.
  destruct (linv_suffix_equal _ _ G' E_pre E_suf HL' HE Hklen (combine tags E_suf)
              (map_snd_combine_len _ _ Htl)) as (qs' & Hrep & Hqi & Hndq & Heq).
  rewrite Hrep in Hopen.
  assert (Hpfhi : pf <= lenN T' + B).
  { assert (pf <= mb * B); [|(ca_lia using H Hmb2)]. apply Hup.
    - cbn [map ResyncProofs.encs_of]. rewrite (@lenN_nil byte), N.add_0_r.
      pose proof (H2 ffp_le_boundary (lenN T') mb Hmb1). (ca_lia using H Hc2').
    - pose proof (H2 ffp_le_boundary (lenN T') mb Hmb1). (ca_lia using H Hb' Hc2'). }
  rewrite Eext in Hspec.
  destruct (finish_ok img lo' hi base w0 tags _ pf qs' pol hint Hlohi Hhimax Hbase'' Hdir Htop
              Hspec Hndq) as (st_r & Hfin & Eqr).
  { intros extra Hx.
    apply (crash_bound_ext G X _ (abs_qs qs') Heq Hcb' pf extra Hx); [change (lenN T <= pf); (ca_lia using Hpf1 HTT')|].
    rewrite EcurT'. exact Hpfhi. }
  exists st_r. split; [now rewrite Hopen|]. rewrite Eqr. right. exact Heq.
Qed.

(* the stream bound of the call follows from the crash bound *)
Lemma crash_bound_stream_bound G X m : crash_bound G X m -> stream_bound G X.
Proof using HBS_lo HBS_hi HNB Hcrc.
  intros Hb. unfold RestartWrite.stream_bound.
  pose proof (Hb (cursor_after 0 (ser (gh_ALL G ++ X))) [] (pos_extra_nil m)) as H.
  cbn [map] in H. rewrite (H2 cursor_after_nil) in H. apply H; [|(ca_lia using HBS_lo)].
  rewrite map_app, (H3 cursor_after_app). fold (gh_ser G). rewrite (HN cursor_after_0).
  fold (gh_T P G). apply (H3 cursor_after_ge).
Qed.

(* ---------- the bound in terms of the state alone (no ghost) ---------- *)
Definition crash_phys_bound (w : rwriter) (X : list entry) (m : smap) : Prop :=
  forall c extra, pos_extra m extra ->
    wabs P w <= c + 6 -> c <= cursor_after (wabs P w) (ser X) + B ->
    cursor_after c (ser extra) <= FB * (U64_MAX + 1).

Lemma ffp_lt7 x : ffp x <= x + 6.
Proof using HBS_lo HBS_hi HNB.
  unfold first_frame_pos. rewrite (lenN_pad_of P).
  destruct (N.ltb_spec (B - x mod B) 7); (ca_lia using H).
Qed.

Lemma crash_phys_bound_ghost w G X m : PInv w G -> crash_phys_bound w X m -> crash_bound G X m.
Proof using HBS_lo HBS_hi HNB Hcrc.
  intros (Hw & _ & _ & Hbase & Hc1 & Hc2 & _) Hb c extra Hx Hlo Hhi. cbn zeta in *.
  pose proof Hw as (Hok & _). destruct (wr_ok_len P HB0c HNB w Hok) as (Hn & Hn1).
  set (c0 := (wlo w - gh_base G) * FB + wpos P w) in *.
  assert (Eabs : wabs P w = gh_base G * FB + c0).
  { unfold wabs, c0, wpos.
    replace (w_file w) with (gh_base G + ((wlo w - gh_base G) + (lenN (w_files w) - 1))) by (ca_lia using Hn1 Hn Hbase).
    (ca_lia using HBS_lo). }
  assert (Hsh : forall x es, cursor_after (gh_base G * FB + x) es = gh_base G * FB + cursor_after x es).
  { intros x es. apply (cursor_after_shift P HBS_lo HBS_hi HNB Hcrc). apply (HN mulFB_mod). }
  specialize (Hb (gh_base G * FB + c) extra Hx). rewrite Hsh, Eabs, Hsh in Hb.
  pose proof (ffp_lt7 (lenN (gh_T P G))) as H7.
  assert (HT' : cursor_after 0 (ser (gh_ALL G ++ X)) <= cursor_after c0 (ser X)).
  { rewrite map_app, (H3 cursor_after_app). fold (gh_ser G). rewrite (HN cursor_after_0).
    fold (gh_T P G). apply (cursor_after_between P HBS_lo HBS_hi HNB Hcrc); assumption. }
  (ca_lia using HT' H7 Hhi Hlo Hb Hc2).
Qed.

(* ---------- (3) histories: policy and buffer ---------- *)
Lemma step_pol st o tick : s_pol (fst (step P st o tick)) = s_pol st.
Proof using Type.
  assert (Hpop : forall s t, s_pol (persist_on_policy s t) = s_pol s).
  { intros s t. unfold persist_on_policy.
    destruct (s_pol s) as [|f|f] eqn:E; [exact E|destruct t; exact E|exact E]. }
  destruct o as [q|q hint|q pos payloads|q p hint|fs]; cbn [step].
  - unfold create_queue. destruct (qs_contains (s_qs st) q); [reflexivity|].
    destruct (write_entry P st (EPosition q 0)) as [st1 [k|e]] eqn:E;
      apply write_entry_pol in E; cbn [fst set_qs s_pol persist set_wr]; exact E.
  - unfold delete_queue. destruct (qs_get (s_qs st) q) as [m|]; [|reflexivity].
    destruct (write_entry P st _) as [st1 [k|e]] eqn:E; apply write_entry_pol in E; [|exact E].
    destruct (run_gc_if_necessary P _ hint) as [st3 [k2|e]] eqn:Gc; apply run_gc_pol in Gc;
      cbn [fst set_qs s_pol persist set_wr] in *; congruence.
  - unfold append_records. destruct (qs_get (s_qs st) q) as [m|]; [|reflexivity].
    destruct (match pos with Some p => _ | None => None end) as [early|]; [reflexivity|].
    destruct (number_from _ payloads) as [|r0 rs]; [reflexivity|].
    destruct (write_entry P st _) as [st1 [k|e]] eqn:E; apply write_entry_pol in E; [|exact E].
    destruct (append_all m _ _) as [m'|]; cbn [fst set_qs s_pol]; rewrite Hpop; exact E.
  - unfold truncate. destruct (qs_get (s_qs st) q) as [m|]; [|reflexivity].
    destruct (write_entry P st _) as [st1 [k|e]] eqn:E; apply write_entry_pol in E; [|exact E].
    destruct (truncate_head m p) as [m' ev].
    destruct (run_gc_if_necessary P _ hint) as [st3 [k2|e]] eqn:Gc; apply run_gc_pol in Gc;
      cbn [fst set_qs s_pol] in *; [rewrite Hpop|]; congruence.
  - reflexivity.
Qed.

Lemma run_gc_pending st hint st' n :
  w_pending (s_wr st) = [] -> run_gc_if_necessary P st hint = (st', Ok n) ->
  w_pending (s_wr st') = [].
Proof using HGC.
  intros Hp. unfold run_gc_if_necessary. destruct (has_deletable st).
  2:{ intros H; inversion H; subst. exact Hp. }
  unfold record_empty_queues_position.
  destruct (record_positions P st _ 0) as [st1 [k|e]]; [|discriminate].
  rewrite HGC. cbn [andb].
  destruct (gc_loop _ _ _) as [[c files] [[]|e]]; intros H; [|discriminate].
  injection H as <- _. exact (persist_drained st1 true).
Qed.

Lemma open_pending fs pol hint st :
  open P fs None pol hint = OpenOk st -> w_pending (s_wr st) = [].
Proof using HGC.
  unfold open, open_with.
  destruct (rd_open P (ctx_init fs None)) as [c [rd|e]]; [|discriminate].
  destruct (replay_loop P _ _ _ []) as [rr [qs| |e|]]; try discriminate.
  destruct (run_gc_if_necessary P _ hint) as [st1 [k|e]] eqn:Gc; [|discriminate].
  intros H; injection H as <-. apply (run_gc_pending _ _ _ _ (fun x => x) Gc) || (eapply run_gc_pending; [|exact Gc]; reflexivity).
Qed.

Fixpoint always_hist (a : bool) (h : list hop) : Prop :=
  match h with
  | [] => True
  | HCall _ _ :: r => always_hist a r
  | HRestart pol _ :: r => pol = PAlways a /\ always_hist a r
  end.

Lemma hrun_always a h : forall st G st' outs,
  Inv st G -> hist_ok P st h -> always_hist a h ->
  s_pol st = PAlways a -> w_pending (s_wr st) = [] ->
  hrun P st h = Some (st', outs) ->
  s_pol st' = PAlways a /\ w_pending (s_wr st') = [].
Proof using HBS_lo HBS_hi HNB Hcrc HGC HIO.
  induction h as [|[o tick|pol hint] h IH]; intros st G st' outs HI Hok Hal Hpol Hp Hrun.
  - cbn [hrun] in Hrun. injection Hrun as <- _. auto.
  - cbn [hist_ok] in Hok. destruct Hok as (Hop & Hb & Hok). cbn [always_hist] in Hal.
    cbn [hrun] in Hrun.
    pose proof (phys_stream_bound P HBS_lo HBS_hi HNB Hcrc _ _ _ (proj1 HI) Hb) as Hsb.
    pose proof (step_no_io P HBS_lo HBS_hi HNB Hcrc HGC st G o tick HI Hop Hsb) as Hno.
    pose proof (step_pol st o tick) as Hpol1.
    destruct (step P st o tick) as [st1 out] eqn:Es. cbn [fst snd] in *.
    destruct (HG inv_step st G o tick st1 out HI Hop Hsb Es Hno) as (G1 & HI1 & _).
    destruct (HG step_call_trace st G a o tick st1 out HI Hp Hpol Hsb Es Hno)
      as (_ & _ & _ & _ & Hp1). cbn zeta in Hp1.
    destruct (hrun P st1 h) as [[st2 outs2]|] eqn:Er; [|discriminate]. injection Hrun as <- _.
    apply (IH st1 G1 st2 outs2 HI1 Hok Hal); [congruence|exact Hp1|exact Er].
  - cbn [hist_ok] in Hok. destruct Hok as (Hb & Hok). cbn [always_hist] in Hal.
    destruct Hal as (-> & Hal). cbn [hrun] in Hrun. unfold restart in *.
    destruct (inv_reopen P HBS_lo HBS_hi HNB Hcrc HGC HIO st G HI
                (restart_reopen_bound P HBS_lo HBS_hi HNB Hcrc st G HI Hb) (PAlways a) hint)
      as (st1 & G1 & Eo & HI1 & _ & _ & Epol1 & _).
    rewrite Eo in *.
    apply (IH st1 G1 st' outs HI1 Hok Hal Epol1 (open_pending _ _ _ _ Eo) Hrun).
Qed.

(* (3) a crash during the call that follows any history of calls and clean restarts under the
   flush-per-operation policy: recovery succeeds and yields the specification state of the
   history, or that state after the call. *)
Theorem C02_history a st0 h st outs o tick st' out :
  open P [] None (PAlways a) [] = OpenOk st0 ->
  hrun P st0 h = Some (st, outs) -> hist_ok P st0 h -> always_hist a h ->
  op_wf_strict (s_qs st) o ->
  crash_phys_bound (s_wr st) (map snd (step_log P st o)) (abs_qs (s_qs st)) ->
  crash_phys_bound (s_wr st) (map snd (step_log P st o)) (abs_qs (s_qs st')) ->
  step P st o tick = (st', out) ->
  exists m_before souts m_after so evs,
    s_run [] (map sop_of (hcalls h)) = (m_before, souts) /\
    s_step m_before (sop_of o) = (m_after, so) /\ out_logical out = Some so /\
    c_ev (w_ctx (s_wr st')) = rev evs ++ c_ev (w_ctx (s_wr st)) /\
    forall cut k pol hint,
      let img := fold_left apply_event (crash_events evs cut k) (c_fs (w_ctx (s_wr st))) in
      exists st_r, open P img None pol hint = OpenOk st_r /\
        ((forall q, s_get (abs_qs (s_qs st_r)) q = s_get m_before q) \/
         (forall q, s_get (abs_qs (s_qs st_r)) q = s_get m_after q)).
Proof using HBS_lo HBS_hi HNB Hcrc HGC HIO HSHORT Hnc.
  intros Hopen Hrun Hok Hal Hop Hcb Hcb' Hstep.
  pose proof (inv_fresh P HBS_lo HBS_hi HNB (PAlways a) st0 Hopen) as HI0.
  destruct (hrun_inv P HBS_lo HBS_hi HNB Hcrc HGC HIO h st0 gh_fresh HI0 Hok)
    as (st1 & outs1 & G & Er & HI & _ & _ & Hspec).
  rewrite Hrun in Er. injection Er as <- <-.
  destruct (hrun_always a h st0 gh_fresh st outs HI0 Hok Hal
              (open_ok_pol P _ _ _ _ _ Hopen) (open_pending _ _ _ _ Hopen) Hrun) as (Hpol & Hp0).
  destruct (open_fresh P HBS_lo HBS_hi HNB (PAlways a)) as (c & _ & Eo). rewrite Eo in Hopen.
  injection Hopen as <-. cbn [s_qs abs_qs map] in Hspec.
  destruct (Hspec [] (fun q => eq_refl)) as (mb & souts & Erun & Hm & _).
  pose proof (crash_phys_bound_ghost _ G _ _ (proj1 HI) Hcb) as Hgb.
  pose proof (crash_phys_bound_ghost _ G _ _ (proj1 HI) Hcb') as Hgb'.
  pose proof (crash_bound_stream_bound _ _ _ Hgb) as Hsb.
  pose proof (step_no_io P HBS_lo HBS_hi HNB Hcrc HGC st G o tick HI Hop Hsb) as Hno.
  rewrite Hstep in Hno. cbn [snd] in Hno.
  pose proof (step_refines P st o tick (Inv_qs_inv P st G HI)) as Href.
  rewrite Hstep in Href. destruct Href as (_ & Href).
  destruct (no_io_logical out Hno) as (so & Eso). specialize (Href so Eso).
  destruct (s_step_ext mb (abs_qs (s_qs st)) (sop_of o) Hm) as (Hs1 & Hs2).
  rewrite Href in Hs1, Hs2. cbn [fst snd] in Hs1, Hs2.
  destruct (s_step mb (sop_of o)) as [ma so1] eqn:Em. cbn [fst snd] in Hs1, Hs2. subst so1.
  destruct (C02_crash_atomic st G a o tick st' out HI Hp0 Hpol Hop Hsb Hgb Hgb' Hstep Hno)
    as (evs & Hev & Hall).
  exists mb, souts, ma, so, evs. split; [exact Erun|]. split; [exact Em|]. split; [exact Eso|].
  split; [exact Hev|]. intros cut k pol hint. cbn zeta.
  destruct (Hall cut k pol hint) as (st_r & Ho & [Hb|Ha]); exists st_r; (split; [exact Ho|]).
  - left. intros q. now rewrite Hb, Hm.
  - right. intros q. now rewrite Ha, Hs2.
Qed.

End Atomic.

Print Assumptions call_entries_atomic.
Print Assumptions kinv_gc_ok.
Print Assumptions C02_crash_atomic.
Print Assumptions C02_history.

(* ====================================================================== *)
(* 5. non-vacuity of the conclusion: ALL crash images of concrete calls   *)
(* ====================================================================== *)
(* BS = 32, two blocks per file (files of 64 bytes), the real CRC-32.  A history with roll-overs
   and a restart under PAlways; then, for several next calls (a truncate whose GC writes a
   position entry and unlinks two files, an append that rolls over, a create, a delete), EVERY
   crash image - every cut between two file-system events of the call and every number of bytes
   of every write - is opened and compared with the abstract state before / after the call. *)
Module CrashExample.
Import ListNotations.
Definition Pe : params := mkParams 32 2 Crc.crc32 0 false false false.
Definition qa : bytes := ["a"%byte].
Definition qb : bytes := ["b"%byte].
Definition pay (c : byte) : bytes := [c; c; c; c; c; c; c; c; c; c].

Definition h_ex : list hop :=
  [HCall (OCreate qa) false;
   HCall (OAppend qa None [pay "x"%byte; pay "y"%byte]) false;
   HCall (OAppend qa None [pay "z"%byte]) true;
   HCall (OCreate qb) false;
   HCall (OAppend qa (Some 5) [pay "u"%byte]) false;
   HRestart (PAlways true) [];
   HCall (OAppend qa None [pay "v"%byte]) false].

Definition st_dummy : state := mkSt (mkWr (ctx_init [] None) [] 0 0 []) [] PNothing.
Definition st0 : state :=
  Eval vm_compute in match open Pe [] None (PAlways true) [] with OpenOk s => s | _ => st_dummy end.
Definition st_ex : state :=
  Eval vm_compute in match hrun Pe st0 h_ex with Some (s, _) => s | None => st_dummy end.

Example st_ex_shape :
  hrun Pe st0 h_ex <> None /\
  w_files (s_wr st_ex) = [0; 1; 2; 3; 4] /\ w_off (s_wr st_ex) = 16 /\
  w_pending (s_wr st_ex) = [] /\ s_pol st_ex = PAlways true /\
  abs_qs (s_qs st_ex) =
    [(qa, ([(0, pay "x"%byte); (1, pay "y"%byte); (2, pay "z"%byte); (5, pay "u"%byte);
            (6, pay "v"%byte)], 7));
     (qb, ([], 0))].
Proof. vm_compute. repeat split; try reflexivity. discriminate. Qed.

(* extensional equality of abstract states, as a boolean *)
Definition rec_eqb (r1 r2 : N * bytes) : bool := (fst r1 =? fst r2) && bytes_eqb (snd r1) (snd r2).
Fixpoint list_eqb {A} (eqb : A -> A -> bool) (l1 l2 : list A) : bool :=
  match l1, l2 with
  | [], [] => true
  | x :: r, y :: r' => eqb x y && list_eqb eqb r r'
  | _, _ => false
  end.
Definition squeue_eqb (a b : option squeue) : bool :=
  match a, b with
  | None, None => true
  | Some (r1, n1), Some (r2, n2) => list_eqb rec_eqb r1 r2 && (n1 =? n2)
  | _, _ => false
  end.
Definition smap_ext_eqb (m1 m2 : smap) : bool :=
  forallb (fun kv => squeue_eqb (s_get m1 (fst kv)) (s_get m2 (fst kv))) (m1 ++ m2).

(* the events a call added, in chronological order *)
Definition new_events (st st' : state) : list event :=
  rev (firstn (length (c_ev (w_ctx (s_wr st'))) - length (c_ev (w_ctx (s_wr st))))
              (c_ev (w_ctx (s_wr st')))).

(* all crash points (cut, k): k = 0, or 1 <= k < length of the write at position cut *)
Fixpoint nrange (n : nat) : list N :=
  match n with O => [] | S n' => nrange n' ++ [N.of_nat n'] end.
Definition crash_points (evs : list event) : list (N * N) :=
  flat_map (fun cut =>
              (cut, 0) ::
              match dropN cut evs with
              | EvWrite _ _ d :: _ => map (fun k => (cut, k + 1)) (nrange (length d - 1))
              | _ => []
              end) (nrange (S (length evs))).

(* 0 = recovery failed or wrong state, 1 = state before the call, 2 = state after the call *)
Definition crash_verdict (st st' : state) (evs : list event) (pol : policy) (hint : list bytes)
           (ck : N * N) : N :=
  let img := fold_left apply_event (crash_events evs (fst ck) (snd ck)) (c_fs (w_ctx (s_wr st))) in
  match open Pe img None pol hint with
  | OpenOk st_r =>
      if smap_ext_eqb (abs_qs (s_qs st_r)) (abs_qs (s_qs st)) then 1
      else if smap_ext_eqb (abs_qs (s_qs st_r)) (abs_qs (s_qs st')) then 2 else 0
  | _ => 0
  end.

(* (number of crash images, those recovering the state before, those recovering the state
   after, failures) *)
Definition crash_census (st : state) (o : op) (pol : policy) (hint : list bytes) : N * N * N * N :=
  let '(st', _) := step Pe st o false in
  let evs := new_events st st' in
  let vs := map (crash_verdict st st' evs pol hint) (crash_points evs) in
  (lenN vs, lenN (filter (N.eqb 1) vs), lenN (filter (N.eqb 2) vs), lenN (filter (N.eqb 0) vs)).

Definition unlinked (st : state) (o : op) : list bytes :=
  let '(st', _) := step Pe st o false in
  flat_map (fun e => match e with EvUnlink n => [n] | _ => [] end) (new_events st st').

(* a truncate that empties qa: the GC records the positions of both (now empty) queues, then
   unlinks files 0, 1 and 2 *)
Definition unlinked_numbers (st : state) (o : op) : list (option N) :=
  map filename_to_position (unlinked st o).

Definition five_w : list bytes :=
  [pay "w"%byte; pay "w"%byte; pay "w"%byte; pay "w"%byte; pay "w"%byte].

(* (images, recovered = before, recovered = after, failures) *)
Example crash_census_ex :
  (* a truncate that empties qa: the GC records the positions of both (now empty) queues, then
     unlinks files 0-3: 83 crash images *)
  crash_census st_ex (OTruncate qa 6 [qb]) (PAlways true) [] = (83, 26, 57, 0) /\
  unlinked_numbers st_ex (OTruncate qa 6 [qb]) = [Some 0; Some 1; Some 2; Some 3] /\
  (* the same images, opened with another policy and GC hint *)
  crash_census st_ex (OTruncate qa 6 [qb]) PNothing [qb; qa] = (83, 26, 57, 0) /\
  (* a truncate that keeps records: files 0-1 are unlinked *)
  crash_census st_ex (OTruncate qa 2 []) (PAlways false) [] = (54, 26, 28, 0) /\
  unlinked_numbers st_ex (OTruncate qa 2 []) = [Some 0; Some 1] /\
  (* an append of 5 records that rolls over twice (files 5 and 6 are created): 178 images,
     only the last 4 (all bytes written) contain the call *)
  crash_census st_ex (OAppend qb None five_w) (PAlways true) [] = (178, 174, 4, 0) /\
  (let '(st', _) := step Pe st_ex (OAppend qb None five_w) false in
   w_files (s_wr st') = [0; 1; 2; 3; 4; 5; 6]) /\
  crash_census st_ex (OCreate ["c"%byte]) (PAlways true) [] = (30, 26, 4, 0) /\
  crash_census st_ex (ODelete qa [qb]) (PAlways true) [] = (56, 26, 30, 0) /\
  unlinked_numbers st_ex (ODelete qa [qb]) = [Some 0; Some 1; Some 2; Some 3] /\
  crash_census st_ex (ODelete qb []) (PAlways true) [] = (30, 26, 4, 0).
Proof.
  (* each equation is computed once, by the VM, when Qed checks the cast *)
  repeat match goal with |- _ /\ _ => split end;
    lazymatch goal with
    | |- _ = ?r => vm_cast_no_check (@eq_refl _ r)
    | |- _ => vm_compute; reflexivity
    end.
Qed.
End CrashExample.
