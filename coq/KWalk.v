(* KWalk.v — TASK T14 follow-up (2): TornProofs.torn_walk again, with two more conclusions for the
   SAME junk (r, W):
   (C) a reader that meets the torn encoding of a non-first continuation while it is NOT within
       a record (within = false) walks over it without delivering anything;
   (D) so does a reader started at any block boundary strictly inside the junk.
   Hence a file boundary inside the junk left by a torn entry that spans two files is harmless. *)
From Coq Require Import Lia ZArith ZifyN ZifyNat ZifyBool List.
From MRL Require Import Bytes BytesProofs Params Frame Driver StreamProofs DamageProofs TornProofs ResyncProofs.

Arguments N.add : simpl never.
Arguments N.sub : simpl never.
Arguments N.mul : simpl never.
Arguments N.eqb : simpl never.
Arguments N.ltb : simpl never.
Arguments N.leb : simpl never.
Arguments N.div : simpl never.
Arguments N.modulo : simpl never.
Arguments N.min : simpl never.
Arguments N.max : simpl never.

Section Walk.
Variable P : params.
Hypothesis HBS_lo : 7 < BS P.
Hypothesis HBS_hi : BS P <= 65542.
Hypothesis Hcrc : forall t p, crcf P t p < 2 ^ 32.

Local Notation B := (BS P).
Local Notation rframe := (read_frame P vecr (vr_next P) vr_block).
Local Notation gonext := (go_next P vecr (vr_next P) vr_block).
Local Notation padof := (pad_of P).
Local Notation chunkof := (chunk_of P).
Local Notation encrel := (enc_rel P).
Local Notation rdat := (rd_at P).
Local Notation atpos := (at_pos P).
Local Notation readsat := (reads_at P).
Local Notation sok := (stream_ok P).
Local Notation fbytes := (frame_bytes P).
Local Notation ffp := (first_frame_pos P).
Local Notation H3 f := (f P HBS_lo HBS_hi Hcrc) (only parsing).
Local Notation H2 f := (f P HBS_lo HBS_hi) (only parsing).

(* from rr, after n silently consumed frames, possibly one reported corruption, the reader reads
   at r; no record is delivered *)
Definition nr_walk (S : bytes) (a0 r : N) (rr : rreader vecr) : Prop :=
  exists n rr1 c, (c <= 1)%nat /\ 7 * N.of_nat n <= r - a0 /\ readsat S (rr_fr rr1) r /\
    ((c = 0%nat /\ forall fuel', gonext (n + Datatypes.S fuel') rr = gonext (Datatypes.S fuel') rr1) \/
     (c = 1%nat /\ forall fuel', gonext (n + Datatypes.S fuel') rr = (rr1, RCorrupt))).

(* one torn frame, met while not within a record *)
Lemma frame_skip S a r ty fp fr rbuf :
  is_first_frame ty = false -> a <= r ->
  (readsat S fr r
   \/ (exists fr', rframe fr = (fr', FCorrupt) /\ readsat S fr' r /\ a + 7 <= r)
   \/ (exists fr' fp', rframe fr = (fr', FOk ty fp') /\ readsat S fr' r /\ a + 7 + lenN fp <= r /\
         ((fp' = fp /\ True) \/ (fp' <> fp /\ True)))) ->
  nr_walk S a r (mkRR fr rbuf false).
Proof.
  intros Hnf Har [HA | [(fr' & Hrf & Hra & Hge) | (fr' & fp' & Hrf & Hra & Hge & _)]].
  - exists 0%nat, (mkRR fr rbuf false), 0%nat. split; [lia|]. split; [lia|]. split; [exact HA|].
    left. split; [reflexivity|]. intros fuel'. reflexivity.
  - exists 0%nat, (mkRR fr' rbuf false), 1%nat. split; [lia|]. split; [lia|]. split; [exact Hra|].
    right. split; [reflexivity|]. intros fuel'.
    cbn [Nat.add go_next rr_fr rr_buf rr_within]. rewrite Hrf. reflexivity.
  - exists 1%nat, (mkRR fr' rbuf false), 0%nat. split; [lia|]. split; [lia|]. split; [exact Hra|].
    left. split; [reflexivity|]. intros fuel'.
    cbn [Nat.add go_next rr_fr rr_buf rr_within]. rewrite Hrf, Hnf. reflexivity.
Qed.

(* there is no block boundary strictly between the first-frame position of a and the end of the
   block that holds this frame *)
Lemma no_interior a kb r :
  (forall k' c', a + lenN (padof a) = k' * B + c' -> c' + 7 <= B -> r <= (k' + 1) * B) ->
  ffp a < kb * B -> kb * B < r -> False.
Proof.
  intros Hr H1 H2'. unfold first_frame_pos in H1.
  destruct (H2 TornProofs.pad_geom a) as (k' & c' & Hp & Hc' & _ & _).
  specialize (Hr k' c' Hp Hc'). rewrite Hp in H1.
  assert (Hk1 : k' * B < kb * B) by lia. apply (H2 TornProofs.mulB_lt_inv) in Hk1.
  assert (Hk2 : kb * B < (k' + 1) * B) by lia. apply (H2 TornProofs.mulB_lt_inv) in Hk2. lia.
Qed.

Theorem torn_walk3 a f p e k :
  encrel a f p e k -> forall j, j < lenN e ->
  exists r W,
    a <= r /\ lenN W = r - a /\
    (forall z, r <= a + j + z -> takeN j e ++ zerosN z = W ++ zerosN (a + j + z - r)) /\
    (forall m, a + j <= m * B -> r <= m * B) /\
    (forall m, m * B <= a + j -> m * B <= r) /\
    forall S pre post,
      sok S -> S = pre ++ W ++ post -> lenN pre = a -> r + 7 <= lenN S ->
      (forall fr rbuf within, atpos S fr a -> (f = true \/ within = true) ->
         walk_out P S a r f p e j fr rbuf within) /\
      (f = false -> forall fr rbuf, atpos S fr a -> nr_walk S a r (mkRR fr rbuf false)) /\
      (forall kb rbuf, ffp a < kb * B -> kb * B < r -> nr_walk S (kb * B) r (mkRR (rdat S kb 0) rbuf false)).
Proof.
  induction 1 as [a f p Hd | a f p e k Hd Hr IH]; intros j Hj.
  - (* the torn frame is the last one of the record *)
    set (fp := takeN (chunkof a p) p) in *.
    assert (Hpfp : fp = p).
    { pose proof (takeN_dropN (chunkof a p) p) as Htd. rewrite Hd, app_nil_r in Htd. exact Htd. }
    destruct (H3 TornProofs.torn_frame a (frame_type f true) fp j
                (H3 StreamProofs.chunk_le_maxw a p) Hj)
      as (r & W & Har & HlW & Hspec & Hup & Hlo & Hrd).
    exists r, W. split; [exact Har|]. split; [exact HlW|]. split; [exact Hspec|].
    split; [exact Hup|]. split; [exact Hlo|].
    intros S pre post Hok HS Hpre Hrlen.
    split; [|split].
    + intros fr rbuf within Hat Hfw.
      assert (Hw : (if f then true else within) = true)
        by (destruct f; [reflexivity | destruct Hfw as [Hf|Hw]; [discriminate|exact Hw]]).
      destruct (Hrd S pre post fr Hok Hat HS Hpre Hrlen)
        as [HA | [(fr' & Hrf & Hra & Hge) | (fr' & fp' & Hrf & Hra & Hge & Hcase)]].
      * exists 0%nat, (mkRR fr rbuf within). split; [lia|]. split; [exact HA|].
        left. intros fuel'. reflexivity.
      * exists 0%nat, (mkRR fr' rbuf false). split; [lia|]. split; [exact Hra|].
        right. left. split; [lia|]. intros fuel'.
        cbn [Nat.add go_next rr_fr rr_buf rr_within]. rewrite Hrf. reflexivity.
      * exists 0%nat, (mkRR fr' ((if f then [] else rbuf) ++ fp') false).
        split; [lia|]. split; [exact Hra|].
        right. right. split; [lia|]. exists fp'. split; [reflexivity|]. split.
        -- intros fuel'. cbn [Nat.add go_next rr_fr rr_buf rr_within]. rewrite Hrf.
           rewrite is_first_frame_type, is_last_frame_type, Hw. reflexivity.
        -- rewrite <- Hpfp. exact Hcase.
    + intros -> fr rbuf Hat.
      apply (frame_skip S a r (frame_type false true) fp fr rbuf); [reflexivity|exact Har|].
      destruct (Hrd S pre post fr Hok Hat HS Hpre Hrlen)
        as [HA | [HB | (fr' & fp' & Hrf & Hra & Hge & Hcase)]]; [left; exact HA|right; left; exact HB|].
      right. right. exists fr', fp'. split; [exact Hrf|]. split; [exact Hra|]. split; [exact Hge|].
      destruct Hcase as [[E _]|[E _]]; [left|right]; split; auto.
    + intros kb rbuf H1 H2'. exfalso. apply (no_interior a kb r); [|exact H1|exact H2'].
      intros k' c' Hp Hc'. apply Hup.
      pose proof (H3 StreamProofs.chunk_le_maxw a p) as Hmw. fold fp in Hmw.
      destruct (H2 TornProofs.pad_geom a) as (k'' & c'' & Hp'' & Hc'' & Hmw'' & _).
      assert (E : k'' = k' /\ c'' = c') by (apply (H2 TornProofs.kc_unique); lia).
      destruct E as [-> ->]. rewrite Hmw'' in Hmw.
      rewrite lenN_app, (StreamProofs.lenN_frame_bytes P) in Hj. lia.
  - (* at least one more frame follows *)
    set (fp := takeN (chunkof a p) p) in *.
    set (fb := fbytes (frame_type f false) fp) in *.
    assert (Hlfp : lenN fp = chunkof a p) by apply (H3 StreamProofs.lenN_take_chunk).
    assert (Hl1 : lenN (padof a ++ fb) = lenN (padof a) + 7 + chunkof a p).
    { unfold fb. rewrite lenN_app, (StreamProofs.lenN_frame_bytes P), Hlfp. lia. }
    destruct (H2 TornProofs.pad_geom a) as (k' & c' & Hp & Hc' & Hmw & _).
    pose proof (H3 chunk_full a p Hd) as Hch.
    set (a1 := a + lenN (padof a) + 7 + chunkof a p) in *.
    assert (Ha1 : a1 = (k' + 1) * B) by (unfold a1; lia).
    destruct (N.lt_ge_cases j (lenN (padof a ++ fb))) as [Hcut|Hcut].
    + (* the cut is in this frame *)
      destruct (H3 TornProofs.torn_frame a (frame_type f false) fp j
                  (H3 StreamProofs.chunk_le_maxw a p) Hcut)
        as (r & W & Har & HlW & Hspec & Hup & Hlo & Hrd).
      fold fb in Hspec, Hrd.
      exists r, W. split; [exact Har|]. split; [exact HlW|]. split.
      { intros z Hz. rewrite app_assoc, takeN_app_le by lia. apply Hspec. exact Hz. }
      split; [exact Hup|]. split; [exact Hlo|].
      intros S pre post Hok HS Hpre Hrlen.
      split; [|split].
      * intros fr rbuf within Hat Hfw.
        assert (Hw : (if f then true else within) = true)
          by (destruct f; [reflexivity | destruct Hfw as [Hf|Hw]; [discriminate|exact Hw]]).
        destruct (Hrd S pre post fr Hok Hat HS Hpre Hrlen)
          as [HA | [(fr' & Hrf & Hra & Hge) | (fr' & fp' & Hrf & Hra & Hge & Hcase)]].
        -- exists 0%nat, (mkRR fr rbuf within). split; [lia|]. split; [exact HA|].
           left. intros fuel'. reflexivity.
        -- exists 0%nat, (mkRR fr' rbuf false). split; [lia|]. split; [exact Hra|].
           right. left. split; [lia|]. intros fuel'.
           cbn [Nat.add go_next rr_fr rr_buf rr_within]. rewrite Hrf. reflexivity.
        -- exists 1%nat, (mkRR fr' ((if f then [] else rbuf) ++ fp') true).
           split; [lia|]. split; [exact Hra|].
           left. intros fuel'. cbn [Nat.add go_next rr_fr rr_buf rr_within]. rewrite Hrf.
           rewrite is_first_frame_type, is_last_frame_type, Hw. reflexivity.
      * intros -> fr rbuf Hat.
        apply (frame_skip S a r (frame_type false false) fp fr rbuf); [reflexivity|exact Har|].
        destruct (Hrd S pre post fr Hok Hat HS Hpre Hrlen)
          as [HA | [HB | (fr' & fp' & Hrf & Hra & Hge & Hcase)]]; [left; exact HA|right; left; exact HB|].
        right. right. exists fr', fp'. split; [exact Hrf|]. split; [exact Hra|]. split; [exact Hge|].
        destruct Hcase as [[E _]|[E _]]; [left|right]; split; auto.
      * intros kb rbuf H1 H2'. exfalso. apply (no_interior a kb r); [|exact H1|exact H2'].
        intros k'' c'' Hp'' Hc''. apply Hup.
        assert (E : k'' = k' /\ c'' = c') by (apply (H2 TornProofs.kc_unique); lia).
        destruct E as [-> ->]. lia.
    + (* this frame is complete *)
      set (l1 := lenN (padof a ++ fb)) in *.
      assert (Hj1 : j - l1 < lenN e).
      { rewrite app_assoc, lenN_app in Hj. fold l1 in Hj. lia. }
      destruct (IH (j - l1) Hj1) as (r & W & Har & HlW & Hspec & Hup & Hlo & Hrd).
      assert (Ea1 : a1 = a + l1) by lia.
      exists r, (padof a ++ fb ++ W).
      split; [lia|]. split.
      { rewrite app_assoc, lenN_app. fold l1. lia. }
      split.
      { intros z Hz. rewrite (app_assoc (padof a) fb e), takeN_app_ge by (fold l1; lia).
        fold l1. rewrite <- !app_assoc. do 2 f_equal.
        replace (a + j + z - r) with (a1 + (j - l1) + z - r) by lia.
        apply Hspec. lia. }
      split; [intros m Hm; apply Hup; lia|].
      split; [intros m Hm; apply Hlo; lia|].
      intros S pre post Hok HS Hpre Hrlen.
      rewrite <- !app_assoc in HS.
      assert (HS1 : S = (pre ++ padof a ++ fb) ++ W ++ post) by (rewrite HS, <- !app_assoc; reflexivity).
      assert (Hpre1 : lenN (pre ++ padof a ++ fb) = a1) by (rewrite lenN_app; fold l1; lia).
      destruct (Hrd S (pre ++ padof a ++ fb) post Hok HS1 Hpre1 Hrlen) as (HrdA & HrdC & HrdD).
      assert (Hframe : forall fr, atpos S fr a ->
                exists fr', rframe fr = (fr', FOk (frame_type f false) fp) /\ atpos S fr' a1).
      { intros fr Hat.
        destruct (H3 StreamProofs.read_frame_at S fr a pre _ _ (W ++ post) Hok Hat HS Hpre
                    (H3 StreamProofs.chunk_le_maxw a p)) as (fr' & Hrf & Hat').
        fold fp in Hrf, Hat'. rewrite Hlfp in Hat'. fold a1 in Hat'. exists fr'. split; assumption. }
      split; [|split].
      * intros fr rbuf within Hat Hfw.
        assert (Hw : (if f then true else within) = true)
          by (destruct f; [reflexivity | destruct Hfw as [Hf|Hw]; [discriminate|exact Hw]]).
        destruct (Hframe fr Hat) as (fr' & Hrf & Hat').
        destruct (HrdA fr' ((if f then [] else rbuf) ++ fp) true Hat' (or_intror eq_refl))
          as (n & rr1 & Hn & Hra & Hout).
        assert (Hstep : forall g, gonext (Datatypes.S n + g) (mkRR fr rbuf within) =
                                  gonext (n + g) (mkRR fr' ((if f then [] else rbuf) ++ fp) true)).
        { intros g. cbn [Nat.add go_next rr_fr rr_buf rr_within]. rewrite Hrf.
          rewrite is_first_frame_type, is_last_frame_type, Hw. reflexivity. }
        exists (Datatypes.S n), rr1. split; [lia|]. split; [exact Hra|].
        destruct Hout as [Hsil | [[Hn7 Hcor] | (Hn7 & p' & Hbuf & Hrec & Hcase)]].
        -- left. intros fuel'. rewrite Hstep. apply Hsil.
        -- right. left. split; [lia|]. intros fuel'. rewrite Hstep. apply Hcor.
        -- right. right. split; [lia|]. exists (fp ++ p'). split.
           { rewrite Hbuf. cbn match. rewrite <- app_assoc. reflexivity. }
           split.
           { intros fuel'. rewrite Hstep. apply Hrec. }
           destruct Hcase as [[Hp' Hz] | [Hp' Hcol]].
           ++ left. split.
              ** rewrite Hp'. apply takeN_dropN.
              ** rewrite (app_assoc (padof a) fb e), dropN_app_ge by (fold l1; lia). exact Hz.
           ++ right. split; [|exact Hcol]. intros E. apply Hp'.
              rewrite <- (takeN_dropN (chunkof a p) p) in E. fold fp in E.
              apply app_inv_head in E. exact E.
      * intros -> fr rbuf Hat.
        destruct (Hframe fr Hat) as (fr' & Hrf & Hat').
        destruct (HrdC eq_refl fr' rbuf Hat') as (n & rr1 & c & Hc & Hn & Hra & Hout).
        assert (Hstep : forall g, gonext (Datatypes.S n + g) (mkRR fr rbuf false) =
                                  gonext (n + g) (mkRR fr' rbuf false)).
        { intros g. cbn [Nat.add go_next rr_fr rr_buf rr_within]. rewrite Hrf. reflexivity. }
        exists (Datatypes.S n), rr1, c. split; [exact Hc|]. split; [lia|]. split; [exact Hra|].
        destruct Hout as [(-> & Hsil)|(-> & Hcor)].
        -- left. split; [reflexivity|]. intros fuel'. rewrite Hstep. apply Hsil.
        -- right. split; [reflexivity|]. intros fuel'. rewrite Hstep. apply Hcor.
      * intros kb rbuf H1 H2'.
        assert (Hge1 : a1 <= kb * B).
        { unfold first_frame_pos in H1. rewrite Hp in H1. rewrite Ha1.
          assert (Hk1 : k' * B < kb * B) by lia. apply (H2 TornProofs.mulB_lt_inv) in Hk1.
          apply (TornProofs.mulB_le P). lia. }
        destruct (N.eq_dec (kb * B) a1) as [E|Hne].
        -- rewrite E.
           assert (Hblk : (kb + 1) * B <= lenN S).
           { destruct Hok as (mS & HmS). rewrite HmS.
             assert (Hk2 : kb * B < mS * B) by lia. apply (H2 TornProofs.mulB_lt_inv) in Hk2.
             apply (TornProofs.mulB_le P). lia. }
           pose proof (H3 at_pos_boundary S kb Hblk) as Hatb. rewrite E in Hatb.
           exact (HrdC eq_refl (rdat S kb 0) rbuf Hatb).
        -- apply HrdD; [|exact H2'].
           assert (Ef : ffp a1 = a1) by (rewrite Ha1; apply (H2 ffp_aligned)).
           rewrite Ef. lia.
Qed.

End Walk.

Print Assumptions torn_walk3.
