(* DamageAtomic.v — property C09, end to end: "frame damage costs only the entry it hits".

   After a clean drop of a state st that satisfies the restart invariant (any state reached by a
   hist_ok history from a fresh directory), let ONE frame of ONE entry X whose first frame lies
   in the kept files be damaged in place (checksum and / or payload bytes changed so that the
   CRC check fails; length field and type byte intact: DamageProofs.enc_dmg).  Then `open`
   succeeds, and every record retained in st that was not appended by X is retained in the
   recovered state, in the same queue, with the same position and the same payload bytes.

   1. logic: the replay of a SUFFIX of a legal log with one entry removed, against the replay
      of the full log (combination of ReplaySpec.sim and DeletionSim.del);
   2. the damaged directory: same names, kinds and lengths (same_shape);
   3. the recovery-time GC on the state open builds does not fail (a physical invariant of the
      writer that does not mention the content of the written bytes);
   4. the theorem (C09_damage_tagged), its reading without tags (C09_damage_costs_one_entry),
      the corollary for histories from a fresh directory (C09_from_fresh);
   4b. the setting is inhabited: for every state under the invariant and every kept entry there
      is such a damaged directory (damaged_dir_exists);
   5. a concrete instance with the real CRC-32, checked exhaustively over every frame of the
      dropped directory (Example.C09_all_frames, Example.C09_losses). *)
From Coq Require Import Lia ZArith ZifyN ZifyNat ZifyBool List Sorted.
From MRL Require Import Bytes BytesProofs Params Names NamesProofs Frame Record Mem Spec Rolling Log
  Driver Hist NoopProofs SpecRefine RecordProofs StreamProofs PolicyProofs GcProofs GhostLog ReplaySpec
  HandleProofs FileStream ResyncProofs QueueIso RestartInv RestartWrite RestartGc RestartStep
  OpenReplay RestartFinal DeletionSim DamageProofs DamageFile Crc.
Import ListNotations.

Arguments N.add : simpl never.
Arguments N.sub : simpl never.
Arguments N.mul : simpl never.
Arguments N.eqb : simpl never.
Arguments N.ltb : simpl never.
Arguments N.leb : simpl never.
Arguments N.div : simpl never.
Arguments N.modulo : simpl never.
Arguments N.min : simpl never.
Arguments N.max : simpl never.
Arguments N.pow : simpl never.

(* ====================================================================== *)
(* 1. logic: a suffix of the log with one entry removed                   *)
(* ====================================================================== *)

(* two files define a `sublist`; here it is always DeletionSim's *)
Local Notation sublist := DeletionSim.sublist.
Local Notation sublist_nil_l := DeletionSim.sublist_nil_l.

(* F's view of a queue against D's view, for the records selected by kp *)
Definition gdel_q (kp : trec -> bool) (fq dq : option tqueue) : Prop :=
  match fq with
  | None => True
  | Some (rf, nf) =>
      match dq with
      | None => filter kp rf = []
      | Some (rd, nd) => sublist (filter kp rf) rd /\ nd <= nf
      end
  end.

Definition gdel (kp : trec -> bool) (F D : tmap) : Prop :=
  forall q, gdel_q kp (t_get F q) (t_get D q).

(* the records appended by the suffix that starts at index k, except by entry x *)
Definition keep (k x : nat) (r : trec) : bool := from_suffix k r && not_x x r.

Lemma filter_keep k x l : filter (keep k x) l = filter (from_suffix k) (filter (not_x x) l).
Proof.
  induction l as [|r l IH]; cbn [filter]; [reflexivity|]. unfold keep at 1.
  destruct (not_x x r); cbn [filter].
  - rewrite andb_true_r. destruct (from_suffix k r); now rewrite IH.
  - rewrite andb_false_r. exact IH.
Qed.

Lemma keep_tag_with k x i new :
  (k <= i)%nat -> i <> x -> filter (keep k x) (tag_with i new) = tag_with i new.
Proof.
  intros Hk Hx. rewrite filter_keep, (filter_not_x_tag_with x i new Hx).
  now apply filter_from_suffix_tag_with.
Qed.

Lemma sublist_nil_r {A} (l : list A) : sublist l [] -> l = [].
Proof. intros H. inversion H. reflexivity. Qed.

(* ---------- one step, one queue (cf. DeletionSim.del_q_step) ---------- *)
Lemma gdel_q_step kp i fq dq e fq' :
  gdel_q kp fq dq -> wfq i fq -> legal_q fq e ->
  (forall new, filter kp (tag_with i new) = tag_with i new) ->
  q_apply fq i e = Some fq' ->
  exists dq', q_apply dq i e = Some dq' /\ gdel_q kp fq' dq'.
Proof.
  intros Hs Hw Hl Hk Hf. destruct e as [q pos recs|q p|q p|q p]; cbn [legal_q q_apply] in *.
  - (* EAppend *)
    destruct Hl as (old & next & -> & Hle & Hne & payloads & ->).
    apply number_from_nonnil in Hne.
    rewrite t_append_all_eq, (chk_pos_number_from payloads pos next Hle Hne) in Hf.
    inversion Hf; subst fq'. clear Hf. cbn [gdel_q] in Hs.
    destruct dq as [[rd nd]|].
    + destruct Hs as (Hsub & Hn).
      rewrite t_append_all_eq, (chk_pos_number_from payloads pos nd) by (try lia; exact Hne).
      eexists. split; [reflexivity|]. cbn [gdel_q]. split; [|lia].
      rewrite filter_app, Hk.
      apply sublist_app; [exact Hsub|apply sublist_refl].
    + rewrite t_append_all_eq, (chk_pos_number_from payloads pos pos (N.le_refl _) Hne).
      eexists. split; [reflexivity|]. cbn [gdel_q]. split; [|lia].
      rewrite filter_app, Hk, Hs. apply sublist_refl.
  - (* ETruncate *)
    destruct fq as [[rf n]|]; [|congruence]. inversion Hf; subst fq'. clear Hf Hl.
    cbn [wfq] in Hw. destruct Hw as (_ & _ & Hpos). cbn [gdel_q] in Hs.
    destruct dq as [[rd nd]|].
    + destruct Hs as (Hsub & Hn). eexists. split; [reflexivity|].
      unfold t_truncate. cbn [gdel_q]. split.
      * rewrite filter_comm. now apply sublist_filter_mono.
      * destruct (N.leb_spec n (p + 1)) as [Hnp|Hnp].
        -- rewrite (filter_pos_nil p n rf Hpos Hnp). cbn [isnil andb].
           destruct (isnil _ && (nd <=? p + 1)); lia.
        -- rewrite andb_false_r.
           destruct (isnil (filter (fun r => p <? fst (snd r)) rd) && (nd <=? p + 1)); lia.
    + eexists. split; [reflexivity|]. unfold t_truncate. cbn [gdel_q].
      rewrite filter_comm, Hs. reflexivity.
  - (* EPosition *)
    destruct Hl as [(-> & ->)|(next & -> & ->)].
    + inversion Hf; subst fq'. clear Hf.
      destruct dq as [[rd nd]|].
      * destruct (negb (isnil rd) || negb (nd =? 0)) eqn:Ec.
        -- eexists. split; [reflexivity|]. cbn [gdel_q filter]. split; [constructor|lia].
        -- eexists. split; [reflexivity|]. cbn [gdel_q filter]. split; [apply sublist_nil_l|].
           apply Bool.orb_false_elim in Ec. destruct Ec as (_ & Ec).
           apply Bool.negb_false_iff in Ec. lia.
      * eexists. split; [reflexivity|]. cbn [gdel_q filter]. split; [constructor|lia].
    + cbn [isnil negb orb] in Hf. rewrite N.eqb_refl in Hf. cbn [negb] in Hf.
      inversion Hf; subst fq'. clear Hf. cbn [gdel_q filter] in *.
      destruct dq as [[rd nd]|].
      * destruct (negb (isnil rd) || negb (nd =? next)).
        -- eexists. split; [reflexivity|]. cbn [gdel_q filter]. split; [constructor|lia].
        -- eexists. split; [reflexivity|]. cbn [gdel_q filter]. exact Hs.
      * eexists. split; [reflexivity|]. cbn [gdel_q filter]. split; [constructor|lia].
  - (* EDelete *)
    inversion Hf; subst fq'. eexists. split; [reflexivity|]. exact I.
Qed.

Lemma gdel_step kp i F D e F' :
  gdel kp F D -> wf_tmap i F -> legal F e ->
  (forall new, filter kp (tag_with i new) = tag_with i new) ->
  t_apply F i e = Some F' ->
  exists D', t_apply D i e = Some D' /\ gdel kp F' D'.
Proof.
  intros Hs Hw Hl Hk Hf. apply legal_legal_q in Hl.
  destruct (t_apply_some _ _ _ _ Hf) as (Hf1 & Hf2).
  destruct (gdel_q_step kp i _ _ e _ (Hs (entry_queue e)) (Hw (entry_queue e)) Hl Hk Hf1)
    as (dq' & Hq & Hdq).
  destruct (q_apply_some_t_apply _ _ _ _ Hq) as (D' & HD & HD1 & HD2).
  exists D'. split; [exact HD|]. intros q.
  destruct (bytes_eqb (entry_queue e) q) eqn:E.
  - apply bytes_eqb_eq in E. subst q. rewrite HD1. exact Hdq.
  - apply bytes_eqb_neq in E. rewrite (Hf2 q E), (HD2 q E). apply Hs.
Qed.

Lemma gdel_lockstep kp : forall suf i F D,
  gdel kp F D -> wf_tmap i F ->
  (forall j new, (i <= j)%nat -> filter kp (tag_with j new) = tag_with j new) ->
  legal_log F i suf ->
  exists F' D', t_replay F i suf = Some F' /\ t_replay D i suf = Some D' /\ gdel kp F' D'.
Proof.
  induction suf as [|e r IH]; intros i F D Hs Hw Hk Hl; cbn [t_replay].
  - exists F, D. repeat split; try reflexivity. exact Hs.
  - destruct (legal_log_cons_inv _ _ _ _ Hl) as (Hle & F1 & HF1 & Hr).
    destruct (gdel_step kp i F D e F1 Hs Hw Hle (fun new => Hk i new (le_n _)) HF1)
      as (D1 & HD1 & Hs1).
    rewrite HF1, HD1. apply IH; [exact Hs1| | |exact Hr].
    + eapply t_apply_wf; eauto.
    + intros j new Hj. apply Hk. lia.
Qed.

(* ---------- the lost entry: F takes the step, the suffix replay does not ---------- *)
Lemma gdel_q_compose k x f2 f1 s1 :
  del_q x f2 f1 -> sim_q k f1 s1 -> gdel_q (keep k x) f2 s1.
Proof.
  intros Hd Hs. destruct f2 as [[rf2 n2]|]; [|exact I]. cbn [del_q gdel_q] in *.
  rewrite filter_keep.
  destruct f1 as [[rf1 n1]|].
  - destruct Hd as (Hsub & Hn).
    pose proof (sublist_filter_mono (from_suffix k) _ _ Hsub) as Hsub'.
    destruct s1 as [[rs ns]|]; cbn [sim_q] in Hs.
    + destruct Hs as (rf & E & ->). inversion E; subst rf ns. split; [exact Hsub'|exact Hn].
    + rewrite (Hs rf1 n1 eq_refl) in Hsub'. now apply sublist_nil_r.
  - rewrite Hd. cbn [filter].
    destruct s1 as [[rs ns]|]; cbn [sim_q] in Hs; [|reflexivity].
    destruct Hs as (rf & E & _). discriminate.
Qed.

Lemma legal_log_prefix : forall a b m i, legal_log m i (a ++ b) -> legal_log m i a.
Proof.
  induction a as [|e a IH]; intros b m i H; [apply ll_nil|]. cbn [app] in H.
  destruct (legal_log_cons_inv _ _ _ _ H) as (He & m1 & E1 & Hr).
  apply ll_cons; [exact He|]. intros m' E'. rewrite E1 in E'. inversion E'; subst m'.
  eapply IH. exact Hr.
Qed.

(* the replay of E1s ++ E2 from nothing, with the tags of the full log pre ++ E1s ++ x :: E2 *)
Definition t_replay_dmg (k : nat) (E1s E2 : list entry) : option tmap :=
  match t_replay [] k E1s with
  | Some m => t_replay m (S (k + length E1s)) E2
  | None => None
  end.

Theorem damaged_suffix_replay (pre E1s E2 : list entry) (x : entry) :
  legal_log [] 0 (pre ++ E1s ++ x :: E2) ->
  exists F Dd,
    t_replay [] 0 (pre ++ E1s ++ x :: E2) = Some F /\
    t_replay_dmg (length pre) E1s E2 = Some Dd /\
    gdel (keep (length pre) (length pre + length E1s)) F Dd.
Proof.
  intros Hleg. set (k := length pre). set (ix := (k + length E1s)%nat).
  destruct (legal_log_app _ _ _ _ Hleg) as (F0 & HF0 & Hl0). cbn [Nat.add] in Hl0. fold k in Hl0.
  pose proof (t_replay_wf pre 0 [] F0 (wf_tmap_nil 0) HF0) as Hw0. cbn [Nat.add] in Hw0. fold k in Hw0.
  destruct (sim_lockstep k E1s k F0 [] (sim_init _ _ Hw0) Hw0 (le_n _) (legal_log_prefix _ _ _ _ Hl0))
    as (F1 & S1 & HF1 & HS1 & Hsim).
  destruct (legal_log_app _ _ _ _ Hl0) as (F1' & HF1' & Hl1). rewrite HF1 in HF1'.
  inversion HF1'; subst F1'. clear HF1'. fold ix in Hl1.
  pose proof (t_replay_wf E1s k F0 F1 Hw0 HF1) as Hw1. fold ix in Hw1.
  destruct (legal_log_cons_inv _ _ _ _ Hl1) as (Hlx & F2 & HF2 & Hl2).
  pose proof (del_init ix F1 x F2 Hlx HF2) as Hd.
  assert (Hg : gdel (keep k ix) F2 S1).
  { intros q. exact (gdel_q_compose k ix _ _ _ (Hd q) (Hsim q)). }
  pose proof (t_apply_wf ix F1 x F2 Hw1 HF2) as Hw2.
  destruct (gdel_lockstep (keep k ix) E2 (S ix) F2 S1 Hg Hw2) as (F & Dd & HF & HD & Hgd).
  { intros j new Hj. apply keep_tag_with; unfold ix in *; lia. }
  { exact Hl2. }
  exists F, Dd. split; [|split; [|exact Hgd]].
  - rewrite t_replay_app, HF0. cbn [Nat.add]. fold k. rewrite t_replay_app, HF1. fold ix.
    cbn [t_replay]. rewrite HF2. exact HF.
  - unfold t_replay_dmg. fold k. rewrite HS1. exact HD.
Qed.

(* ---------- the queues of a replay are named by its entries ---------- *)
Lemma t_replay_named q : forall es i m m',
  t_replay m i es = Some m' -> t_get m' q <> None ->
  t_get m q <> None \/ In q (map entry_queue es).
Proof.
  induction es as [|e es IH]; intros i m m' H Hq; cbn [t_replay map In] in *.
  - inversion H; subst. now left.
  - destruct (t_apply m i e) as [m1|] eqn:E1; [|discriminate].
    destruct (IH _ _ _ H Hq) as [H1|H1]; [|right; now right].
    destruct (t_apply_some _ _ _ _ E1) as (_ & Ho).
    destruct (bytes_eqb (entry_queue e) q) eqn:Eb.
    + apply bytes_eqb_eq in Eb. right. now left.
    + apply bytes_eqb_neq in Eb. rewrite (Ho q Eb) in H1. now left.
Qed.

Lemma t_replay_dmg_named k E1s E2 Dd q :
  t_replay_dmg k E1s E2 = Some Dd -> t_get Dd q <> None -> In q (map entry_queue (E1s ++ E2)).
Proof.
  unfold t_replay_dmg. intros H Hq. destruct (t_replay [] k E1s) as [m|] eqn:E1; [|discriminate].
  rewrite map_app. apply in_or_app.
  destruct (t_replay_named q _ _ _ _ H Hq) as [H1|H1]; [|now right].
  destruct (t_replay_named q _ _ _ _ E1 H1) as [H2|H2]; [now elim H2|now left].
Qed.

(* ---------- transfer to the model's replay, for any file tags ---------- *)
Lemma combine_app {A B} : forall (a1 : list A) (b1 : list B) a2 b2,
  length a1 = length b1 -> combine (a1 ++ a2) (b1 ++ b2) = combine a1 b1 ++ combine a2 b2.
Proof.
  induction a1 as [|x a1 IH]; intros [|y b1] a2 b2 H; cbn [length] in H; try discriminate;
    cbn [app combine]; [reflexivity|]. f_equal. apply IH. lia.
Qed.

Lemma replay_dmg_refines k (f1 f2 : list (N * entry)) Dd :
  t_replay_dmg k (map snd f1) (map snd f2) = Some Dd ->
  exists qD, replay_entries [] (f1 ++ f2) = Some qD /\ untag Dd = abs_qs qD /\ qs_inv qD.
Proof.
  unfold t_replay_dmg. intros H.
  destruct (t_replay [] k (map snd f1)) as [M|] eqn:HM; [|discriminate].
  rewrite replay_app, <- apply_entries_is_replay_entries.
  pose proof (apply_entries_refines f1 [] k [] qs_inv_nil eq_refl) as H1.
  destruct (apply_entries [] f1) as [qA|].
  - destruct H1 as (tm & E & Hu & Hi). rewrite HM in E. inversion E; subst tm.
    cbn [obind]. rewrite <- apply_entries_is_replay_entries.
    pose proof (apply_entries_refines f2 qA (S (k + length (map snd f1))) M Hi Hu) as H2.
    destruct (apply_entries qA f2) as [qD|].
    + destruct H2 as (tm & E2 & Hu2 & Hi2). rewrite H in E2. inversion E2; subst tm.
      exists qD. split; [reflexivity|]. split; assumption.
    + congruence.
  - congruence.
Qed.

(* The model's replay (open's replay loop) of the kept suffix E1s ++ x :: E2 of a legal log with
   the entry x lost, read from any files: it succeeds; every record of the full result that was
   appended by the suffix, but not by x, is still there. *)
Theorem model_damaged_suffix (pre E1s E2 : list entry) (x : entry) (tags : list N) :
  legal_log [] 0 (pre ++ E1s ++ x :: E2) ->
  length tags = length (E1s ++ E2) ->
  exists F qD,
    t_replay [] 0 (pre ++ E1s ++ x :: E2) = Some F /\
    replay_entries [] (combine tags (E1s ++ E2)) = Some qD /\
    qs_inv qD /\ nodup_names qD /\
    (forall q m, qs_get qD q = Some m -> In q (map entry_queue (E1s ++ E2))) /\
    forall q rf nf, t_get F q = Some (rf, nf) ->
      forall r, In r rf -> (length pre <= fst r)%nat -> fst r <> (length pre + length E1s)%nat ->
        exists mD, qs_get qD q = Some mD /\ In (snd r) (records_of (q_buf mD) (q_metas mD)).
Proof.
  intros Hleg Hlen.
  destruct (damaged_suffix_replay pre E1s E2 x Hleg) as (F & Dd & HF & HD & Hg).
  set (tg1 := firstn (length E1s) tags). set (tg2 := skipn (length E1s) tags).
  rewrite app_length in Hlen.
  assert (Hl1 : length tg1 = length E1s) by (unfold tg1; rewrite firstn_length; lia).
  assert (Hl2 : length tg2 = length E2) by (unfold tg2; rewrite skipn_length; lia).
  assert (Etags : tags = tg1 ++ tg2) by (symmetry; apply firstn_skipn).
  set (f1 := combine tg1 E1s). set (f2 := combine tg2 E2).
  assert (Ef : combine tags (E1s ++ E2) = f1 ++ f2).
  { rewrite Etags. now apply combine_app. }
  assert (E1 : map snd f1 = E1s) by (apply map_snd_combine'; exact Hl1).
  assert (E2' : map snd f2 = E2) by (apply map_snd_combine'; exact Hl2).
  destruct (replay_dmg_refines (length pre) f1 f2 Dd) as (qD & EqD & HuD & HiD).
  { unfold t_replay_dmg in *. rewrite E1, E2'. exact HD. }
  exists F, qD. split; [exact HF|]. split; [now rewrite Ef|]. split; [exact HiD|].
  split; [exact (replay_from_nil_nodup _ _ EqD)|]. split.
  - intros q m Eq. apply (t_replay_dmg_named _ _ _ _ q HD).
    pose proof (untag_abs_get Dd qD q HuD) as Hq. rewrite Eq in Hq.
    destruct (t_get Dd q); [discriminate|contradiction].
  - intros q rf nf Eq r Hin Hk Hx.
    pose proof (Hg q) as Hq. rewrite Eq in Hq. cbn [gdel_q] in Hq.
    assert (Hr : In r (filter (keep (length pre) (length pre + length E1s)) rf)).
    { apply filter_In. split; [exact Hin|]. unfold keep, from_suffix, not_x.
      apply andb_true_iff. split; [now apply Nat.leb_le|].
      apply Bool.negb_true_iff. now apply Nat.eqb_neq. }
    pose proof (untag_abs_get Dd qD q HuD) as Hu.
    destruct (t_get Dd q) as [[rd nd]|].
    + destruct Hq as (Hsub & _).
      destruct (qs_get qD q) as [mD|]; [|contradiction]. exists mD. split; [reflexivity|].
      unfold untag_q, abs_q in Hu. cbn [fst snd] in Hu. injection Hu as Hr1 _.
      rewrite <- Hr1. apply in_map. eapply sublist_In; eauto.
    + rewrite Hq in Hr. destruct Hr.
Qed.

(* ---------- where the records of a queue come from ---------- *)
Lemma q_apply_origin2 v i e rf' n' r :
  q_apply v i e = Some (Some (rf', n')) -> In r rf' ->
  (exists rf n, v = Some (rf, n) /\ In r rf) \/
  (fst r = i /\ exists pos recs, e = EAppend (entry_queue e) pos recs /\ In (snd r) recs).
Proof.
  destruct e as [q pos recs|q p|q p|q p]; cbn [q_apply]; intros H Hin.
  - destruct (match v with Some v0 => v0 | None => ([], pos) end) as [old next] eqn:Ev.
    rewrite t_append_all_eq in H. destruct (chk_pos next recs) as [nn|]; [|discriminate].
    inversion H; subst. apply in_app_or in Hin. destruct Hin as [Hin|Hin].
    + left. destruct v as [[rf n]|]; inversion Ev; subst; [|contradiction]. now exists old, next.
    + right. unfold tag_with in Hin. apply in_map_iff in Hin. destruct Hin as (x & <- & Hx).
      split; [reflexivity|]. exists pos, recs. split; [reflexivity|exact Hx].
  - destruct v as [[recs next]|]; inversion H; subst. left. exists recs, next. split; [reflexivity|].
    apply filter_In in Hin. tauto.
  - destruct v as [[recs next]|].
    + destruct (negb (isnil recs) || negb (next =? p)); inversion H; subst; [contradiction|].
      left. now exists rf', n'.
    + inversion H; subst. contradiction.
  - discriminate.
Qed.

Lemma t_replay_origin q r : forall es i m m' rf' n',
  t_replay m i es = Some m' -> t_get m' q = Some (rf', n') -> In r rf' ->
  (exists rf n, t_get m q = Some (rf, n) /\ In r rf) \/
  (exists j pos recs, fst r = (i + j)%nat /\ nth_error es j = Some (EAppend q pos recs) /\
                      In (snd r) recs).
Proof.
  induction es as [|e es IH]; intros i m m' rf' n' H Eq Hin; cbn [t_replay] in H.
  - inversion H; subst. left. now exists rf', n'.
  - destruct (t_apply m i e) as [m1|] eqn:E1; [|discriminate].
    destruct (IH _ _ _ _ _ H Eq Hin) as [(rf & n & Eq1 & Hin1)|(j & pos & recs & Ej & En & Hr)].
    + destruct (t_apply_some _ _ _ _ E1) as (Hq & Ho).
      destruct (bytes_eqb (entry_queue e) q) eqn:Eb.
      * apply bytes_eqb_eq in Eb. subst q. rewrite Eq1 in Hq.
        destruct (q_apply_origin2 _ _ _ _ _ _ Hq Hin1) as [Hl|(Hi & pos & recs & Ee & Hr)];
          [now left|right].
        exists 0%nat, pos, recs. split; [lia|]. split; [cbn [nth_error]; now f_equal|exact Hr].
      * apply bytes_eqb_neq in Eb. rewrite (Ho q Eb) in Eq1. left. now exists rf, n.
    + right. exists (S j), pos, recs. split; [lia|]. split; [exact En|exact Hr].
Qed.

(* ---------- lists ---------- *)
Lemma nth_error_split {A} : forall (l : list A) i x,
  nth_error l i = Some x -> l = firstn i l ++ x :: skipn (S i) l /\ length (firstn i l) = i.
Proof.
  induction l as [|y l IH]; intros [|i] x H; cbn [nth_error] in H; try discriminate.
  - inversion H; subst. split; reflexivity.
  - destruct (IH i x H) as [E L]. cbn [firstn skipn app length]. split; [now f_equal|now f_equal].
Qed.

Print Assumptions model_damaged_suffix.

(* ====================================================================== *)
(* 2. directories of the same shape                                       *)
(* ====================================================================== *)

(* same names, in the same order, naming entries of the same kind; regular files have the same
   length *)
Definition same_entry (x y : bytes * fentry) : Prop :=
  fst x = fst y /\
  match snd x, snd y with
  | FFile a, FFile b => lenN a = lenN b
  | FDir, FDir => True
  | FOther, FOther => True
  | _, _ => False
  end.

Definition same_shape (fs fs' : fsT) : Prop := Forall2 same_entry fs fs'.

Lemma same_shape_keys fs fs' : same_shape fs fs' -> map fst fs' = map fst fs.
Proof. induction 1 as [|x y l l' [Hn _] _ IH]; cbn [map]; [reflexivity|]. now rewrite IH, Hn. Qed.

Lemma same_shape_get fs fs' name : same_shape fs fs' ->
  match fs_get fs name, fs_get fs' name with
  | Some (FFile a), Some (FFile b) => lenN a = lenN b
  | Some FDir, Some FDir => True
  | Some FOther, Some FOther => True
  | None, None => True
  | _, _ => False
  end.
Proof.
  induction 1 as [|[n e] [n' e'] l l' [Hn He] _ IH]; cbn [fs_get]; [exact I|].
  cbn [fst snd] in Hn, He. subst n'. destruct (bytes_eqb n name); [|exact IH].
  destruct e, e'; try contradiction; exact He || exact I.
Qed.

Lemma same_shape_file fs fs' name a : same_shape fs fs' -> fs_get fs name = Some (FFile a) ->
  exists b, fs_get fs' name = Some (FFile b) /\ lenN b = lenN a.
Proof.
  intros H E. pose proof (same_shape_get fs fs' name H) as Hg. rewrite E in Hg.
  destruct (fs_get fs' name) as [[b| |]|]; try contradiction. exists b. split; [reflexivity|]. now symmetry.
Qed.

Lemma same_shape_file_inv fs fs' name b : same_shape fs fs' -> fs_get fs' name = Some (FFile b) ->
  exists a, fs_get fs name = Some (FFile a).
Proof.
  intros H E. pose proof (same_shape_get fs fs' name H) as Hg. rewrite E in Hg.
  destruct (fs_get fs name) as [[a| |]|]; try contradiction. now exists a.
Qed.

Lemma same_shape_none fs fs' name : same_shape fs fs' -> fs_get fs name = None -> fs_get fs' name = None.
Proof.
  intros H E. pose proof (same_shape_get fs fs' name H) as Hg. rewrite E in Hg.
  destruct (fs_get fs' name); [contradiction|reflexivity].
Qed.

Lemma same_shape_listing fs fs' : same_shape fs fs' -> list_wal_numbers fs' = list_wal_numbers fs.
Proof.
  induction 1 as [|[n e] [n' e'] l l' [Hn He] _ IH]; [reflexivity|].
  cbn [fst snd] in Hn, He. subst n'. unfold list_wal_numbers in *. cbn [fold_right]. rewrite IH.
  destruct e, e'; try contradiction; reflexivity.
Qed.

Section Atomic.
Variable P : params.
Hypothesis HBS_lo : 7 < BS P.
Hypothesis HBS_hi : BS P <= 65542.
Hypothesis HNB : 1 <= NB P.
Hypothesis Hcrc : forall t p, crcf P t p < 2 ^ 32.
Hypothesis HGC : L_GC P = false.      (* the current code: the GC persists before unlinking *)
Hypothesis HIO : L_IO P = false.      (* the current code: I/O errors of the replay are reported *)

Local Notation B := (BS P).
Local Notation FB := (FILE_BYTES P).
Local Notation ffp := (first_frame_pos P).
Local Notation enc_of := (enc_of P).
Local Notation encs_of := (encs_of P).
Local Notation cursor_after := (cursor_after P).
Local Notation starts := (starts P).
Local Notation H3 f := (f P HBS_lo HBS_hi Hcrc) (only parsing).
Local Notation H2 f := (f P HBS_lo HBS_hi) (only parsing).
Local Notation HW f := (f P HBS_lo HBS_hi HNB Hcrc) (only parsing).
Local Notation HN f := (f P HBS_lo HBS_hi HNB) (only parsing).
Local Notation HG f := (f P HBS_lo HBS_hi HNB Hcrc HGC) (only parsing).
Local Notation HF f := (f P HBS_lo HBS_hi HNB Hcrc HGC HIO) (only parsing).
Local Notation PInv := (PInv P).
Local Notation Inv := (Inv P).
Local Notation wpos := (wpos P).
Local Notation MAXB := (FB * (U64_MAX + 1)).

Lemma HB0a : 0 < B. Proof. lia. Qed.
Lemma HB7a : HEADER_LEN <= B. Proof. unfold HEADER_LEN. lia. Qed.

(* ====================================================================== *)
(* 3. a physical invariant of the writer that ignores the written bytes    *)
(* ====================================================================== *)

(* the writer over full-size files, everything after its position still zero *)
Definition PZ (w : rwriter) : Prop :=
  winv P w /\ wd_ok w /\ nd w /\
  dropN (wpos w) (wstream w) = zerosN (lenN (w_files w) * FB - wpos w).

Lemma winv_wpos_le w : winv P w -> wpos w <= lenN (w_files w) * FB.
Proof.
  intros (Hok & _ & Hoff & _). destruct (wr_ok_len P HB0a HNB w Hok) as (_ & Hn1).
  unfold FileStream.wpos. nia.
Qed.

(* writing one entry: never fails below 2^64 files, and keeps the invariant *)
Lemma pz_write w p w' r :
  PZ w ->
  FB * wlo w + (wpos w + lenN (enc_of (wpos w) p)) <= MAXB ->
  write_record P rwriter (wr_write P) (wr_rem P) w p = (w', r) ->
  (exists n, r = Ok n) /\ PZ w' /\ wlo w' = wlo w /\
  wpos w' = wpos w + lenN (enc_of (wpos w) p).
Proof.
  intros (Hw & Hwd & Hnd & Hz) Hb Hwr.
  pose proof Hw as (Hok & _).
  pose proof (winv_wpos_le w Hw) as Hpos.
  pose proof (lenN_wstream P w Hw) as HlenS.
  set (enc := enc_of (wpos w) p) in *.
  set (M := wpos w + lenN enc).
  set (v := mkVecW (wpos w) (takeN (wpos w) (wstream w))).
  assert (Hsim : wsim P M w v).
  { unfold v. split; [exact Hw|]. split; [reflexivity|]. split.
    { cbn [vw_buf vw_cursor]. rewrite lenN_takeN, HlenS. lia. }
    split.
    { cbn [vw_buf]. rewrite <- Hz. symmetry. apply takeN_dropN. }
    unfold M. lia. }
  assert (HGv : Gv M (fst (write_record P vecw vw_write (vw_rem P) v p))).
  { rewrite (H3 write_record_enc_of). unfold Gv, v. cbn [fst vw_cursor]. fold enc. unfold M. lia. }
  destruct (write_record_file_sim P HB0a HNB M w v p HB7a Hsim HGv) as (Er & Hsim').
  rewrite Hwr in Er, Hsim'. rewrite (H3 write_record_enc_of) in Er, Hsim'.
  unfold v in Er, Hsim'. cbn [fst snd vw_cursor vw_buf] in Er, Hsim'. fold enc in Er, Hsim'.
  destruct Hsim' as (Hw' & Hcur' & Hlen' & Hs' & _). cbn [vw_cursor vw_buf] in Hcur', Hlen', Hs'.
  pose proof (write_record_hd P (wlo w) w p w' r Hwr (conj Hok (HN wr_ok_hd w Hok))) as Hhd.
  pose proof (HN hd_inv_wlo _ _ Hhd) as Elo.
  split; [eexists; exact Er|]. split; [|split; [exact Elo|now symmetry]].
  split; [exact Hw'|].
  split; [exact (write_record_inv P rwriter (wr_write P) (wr_rem P) wd_ok (wr_write_wd_ok P) w p w' r Hwr Hwd)|].
  split; [exact (write_record_inv P rwriter (wr_write P) (wr_rem P) nd (wr_write_nd P) w p w' r Hwr Hnd)|].
  rewrite Hs', <- Hcur', <- Hlen'. apply dropN_app_exact.
Qed.

(* the position entries record_positions writes *)
Definition pos_entries (qs : queues) (names : list bytes) : list entry :=
  flat_map (fun n => match qs_get qs n with
                     | Some q => [EPosition n (next_position q)]
                     | None => []
                     end) names.

Lemma pz_record_positions names : forall st acc st' r,
  PZ (s_wr st) ->
  FB * wlo (s_wr st) +
    cursor_after (wpos (s_wr st)) (map entry_ser (pos_entries (s_qs st) names)) <= MAXB ->
  record_positions P st names acc = (st', r) ->
  (exists n, r = Ok n) /\ PZ (s_wr st') /\ s_qs st' = s_qs st.
Proof.
  induction names as [|n names IH]; intros st acc st' r HP Hb Hrp;
    cbn [record_positions pos_entries flat_map] in *.
  - inversion Hrp; subst. split; [eexists; reflexivity|]. split; [exact HP|reflexivity].
  - fold (pos_entries (s_qs st) names) in Hb.
    destruct (qs_get (s_qs st) n) as [q|] eqn:Eq.
    + cbn [app map] in Hb. rewrite (H3 cursor_after_cons) in Hb.
      set (p := entry_ser (EPosition n (next_position q))) in *.
      pose proof (H3 cursor_after_ge (map entry_ser (pos_entries (s_qs st) names))
                    (wpos (s_wr st) + lenN (enc_of (wpos (s_wr st)) p))) as Hge.
      unfold write_entry in Hrp. fold p in Hrp.
      destruct (write_record P rwriter (wr_write P) (wr_rem P) (s_wr st) p) as [w1 r1] eqn:Ew.
      assert (Hb1 : FB * wlo (s_wr st) + (wpos (s_wr st) + lenN (enc_of (wpos (s_wr st)) p)) <= MAXB)
        by lia.
      destruct (pz_write _ _ _ _ HP Hb1 Ew) as ((k & ->) & HP1 & Elo & Epos).
      destruct (IH (set_wr st w1) (acc + k) st' r) as (Hr & HP' & Eqs).
      * exact HP1.
      * cbn [set_wr s_wr s_qs]. rewrite Elo, Epos. exact Hb.
      * exact Hrp.
      * split; [exact Hr|]. split; [exact HP'|]. exact Eqs.
    + cbn [app] in Hb. now apply (IH st acc st' r).
Qed.

(* the GC never fails under PZ and the bound *)
Lemma pz_gc_no_err st hint st' r :
  PZ (s_wr st) ->
  FB * wlo (s_wr st) +
    cursor_after (wpos (s_wr st))
      (map entry_ser (pos_entries (s_qs st) (pick_order hint (empty_names (s_qs st))))) <= MAXB ->
  run_gc_if_necessary P st hint = (st', r) -> exists n, r = Ok n.
Proof.
  intros HP Hb Hgc. unfold run_gc_if_necessary in Hgc.
  destruct (has_deletable st) eqn:Hd.
  2:{ inversion Hgc; subst. now exists 0. }
  set (names := pick_order hint (empty_names (s_qs st))) in *.
  unfold record_empty_queues_position in Hgc. fold names in Hgc.
  destruct (record_positions P st names 0) as [st0 r0] eqn:Erp.
  destruct (pz_record_positions names st 0 st0 r0 HP Hb Erp) as ((k & ->) & HP0 & _).
  rewrite HGC in Hgc. cbn [andb] in Hgc.
  set (st1 := persist st0 true) in *.
  destruct HP0 as (Hw0 & Hwd0 & _ & _).
  pose proof Hw0 as (_ & Hwf0 & _).
  destruct (wr_persist_rel (s_wr st0) true Hwf0) as (_ & Hwf1 & _).
  pose proof (winv_transfer P (s_wr st0) (s_wr st1) (wr_persist_key _ _) (wr_persist_vfs _ _) Hwf1 Hw0)
    as Hw1.
  pose proof (wr_persist_wd_ok (s_wr st0) true Hwd0) as Hwd1.
  change (wr_persist (s_wr st0) true) with (s_wr st1) in Hwd1.
  destruct (gc_loop (w_ctx (s_wr st1)) (w_files (s_wr st1)) (referenced st1 (w_file (s_wr st))))
    as [[c files'] rg] eqn:Egc.
  pose proof Hw1 as (Hok1 & _ & _ & _ & Hu1 & _). destruct Hwd1 as [_ Hdir1].
  pose proof (gc_loop_no_err _ _ _ _ _ Egc Hok1 (Hdir1 Hu1) Hu1) as ->.
  inversion Hgc; subst. now exists k.
Qed.

(* the entries of pos_entries: position entries for distinct queues of qs *)
Lemma pos_entries_in qs names e : In e (pos_entries qs names) ->
  exists n q, In n names /\ qs_get qs n = Some q /\ e = EPosition n (next_position q).
Proof.
  unfold pos_entries. intros H. apply in_flat_map in H. destruct H as (n & Hn & He).
  destruct (qs_get qs n) as [q|] eqn:Eq; [|destruct He].
  destruct He as [<-|[]]. now exists n, q.
Qed.

Lemma pos_entries_nodup qs : forall names, NoDup names -> NoDup (map entry_queue (pos_entries qs names)).
Proof.
  induction names as [|n names IH]; intros Hnd; [constructor|].
  inversion Hnd as [|? ? Hn Hr]; subst. unfold pos_entries. cbn [flat_map].
  fold (pos_entries qs names). destruct (qs_get qs n) as [q|]; cbn [app map]; [|now apply IH].
  cbn [entry_queue]. constructor; [|now apply IH].
  intros Hin. apply in_map_iff in Hin. destruct Hin as (e & Ee & He).
  destruct (pos_entries_in _ _ _ He) as (n' & q' & Hn' & _ & ->). cbn [entry_queue] in Ee. congruence.
Qed.

(* ---------- the writer that open makes from a directory of the same shape ---------- *)
Lemma dmg_writer w G fs_d w0 tags sts n T' :
  PInv w G -> w_files w = iota (wlo w) (S n) ->
  same_shape (vfs w) fs_d ->
  lenN T' = lenN (gh_T P G) ->
  stream_of fs_d (w_files w) =
    dropN ((wlo w - gh_base G) * FB)
          (T' ++ zerosN ((wlo w - gh_base G + lenN (w_files w)) * FB - lenN (gh_T P G))) ->
  dmg_spec P fs_d (wlo w) n (gh_base G) w0 tags sts
           (N.max ((wlo w - gh_base G) * FB) (lenN (gh_T P G))) ->
  PZ w0 /\ wlo w0 = wlo w /\
  lenN (gh_T P G) <= (wlo w - gh_base G) * FB + wpos w0 /\
  (wlo w - gh_base G) * FB + wpos w0 <= ffp (lenN (gh_T P G)).
Proof.
  intros HP Hfiles Hsh HlenT HSt Hspec.
  destruct HP as (Hw & Hwd & Hnd & Hbase & Hc1 & Hc2 & Hs & _).
  cbn zeta in *.
  destruct Hspec as (_ & _ & _ & _ & Hfl & Hlo & Hcur & Hpos & Hpend & Hfs & Hplan).
  pose proof Hw as (Hok & Hwf & Hoff & Hpl & Hu & Hfull & Hfresh).
  destruct (wr_ok_len P HB0a HNB w Hok) as (Hn & _).
  assert (Hnf : lenN (w_files w) = N.of_nat n + 1) by (rewrite Hfiles, lenN_iota; lia).
  assert (Hnf0 : lenN (w_files w0) = N.of_nat n + 1) by (rewrite Hfl, lenN_iota; lia).
  set (lo := wlo w) in *. set (base := gh_base G) in *. set (dl := lo - base) in *.
  set (T := gh_T P G) in *. set (a := lenN T) in *.
  assert (Hwf_w : w_file w = lo + N.of_nat n) by lia.
  assert (Hwpos : wpos w = N.of_nat n * FB + w_off w).
  { unfold FileStream.wpos. rewrite Hnf. f_equal. f_equal. lia. }
  rewrite Hwpos in Hc1, Hc2.
  set (e := N.max (dl * FB) a) in *.
  assert (He1 : a <= e) by lia.
  assert (He2 : e <= dl * FB + (N.of_nat n * FB + w_off w)) by lia.
  assert (Hffe : ffp e = ffp a) by (apply (HN ffp_between); lia).
  assert (Hkey : w_file w0 = lo + N.of_nat n /\ w_off w0 <= FB /\
                 a <= dl * FB + (N.of_nat n * FB + w_off w0) /\
                 dl * FB + (N.of_nat n * FB + w_off w0) <= ffp a).
  { pose proof (H2 ffp_ge a) as Hge.
    destruct Hpos as [(Hp & Hwo) | (Hp & Hwf0 & _ & Hwo)].
    - assert (Hf0 : w_file w0 = lo + N.of_nat n).
      { destruct (N.eq_dec (w_file w0) (lo + N.of_nat n)) as [E|Hne]; [exact E|exfalso].
        assert ((w_file w0 - base + 1) * FB <= (dl + N.of_nat n) * FB)
          by (apply N.mul_le_mono_r; lia).
        lia. }
      split; [exact Hf0|]. split; [lia|].
      replace (dl * FB + (N.of_nat n * FB + w_off w0)) with ((w_file w0 - base) * FB + w_off w0).
      + rewrite Hp, Hffe. lia.
      + rewrite Hf0. replace (lo + N.of_nat n - base) with (dl + N.of_nat n) by lia. lia.
    - split; [exact Hwf0|]. split; [exact Hwo|].
      replace (dl * FB + (N.of_nat n * FB + w_off w0)) with ((w_file w0 - base) * FB + w_off w0).
      + rewrite Hp. lia.
      + rewrite Hwf0. replace (lo + N.of_nat n - base) with (dl + N.of_nat n) by lia. lia. }
  destruct Hkey as (Hf0 & Hoff0 & Hk1 & Hk2).
  assert (Hfl' : w_files w0 = w_files w) by congruence.
  assert (Hfile' : w_file w0 = w_file w) by congruence.
  assert (Hv : vfs w0 = fs_d) by (rewrite vfs_nil; assumption).
  assert (Hok0 : wr_ok w0) by (eapply wr_ok_same; eassumption).
  assert (Elo : wlo w0 = lo) by (unfold lo, wlo; now rewrite Hfl', Hfile').
  assert (Hwpos0 : wpos w0 = N.of_nat n * FB + w_off w0).
  { unfold FileStream.wpos. rewrite Hnf0. f_equal. f_equal. lia. }
  assert (Hw0 : winv P w0).
  { split; [exact Hok0|]. split; [apply wf_nil; exact Hpend|]. split; [exact Hoff0|].
    split; [exact Hplan|]. split; [rewrite Hfile'; exact Hu|]. rewrite Hv, Hfl', Hfile'.
    split.
    - intros x Hx. destruct (Hfull x Hx) as (b & Hg & Hb).
      destruct (same_shape_file _ _ _ _ Hsh Hg) as (b' & Hg' & Hb'). exists b'. split; [exact Hg'|lia].
    - intros x Hx1 Hx2. apply (same_shape_none _ _ _ Hsh). now apply Hfresh. }
  rewrite Hwpos0.
  split; [|split; [exact Elo|split; [exact Hk1|exact Hk2]]].
  split; [exact Hw0|]. split.
  { split; [exact Hok0|]. intros _. destruct Hwd as [_ Hdir].
    pose proof (flush_buf_dir w (wr_ok_cur_in w Hok) Hu (Hdir Hu)) as Hd.
    unfold dir_ok, dir_of in *. destruct (flush_buf_tracker w) as [T1 _]. rewrite T1 in Hd.
    rewrite Hfs, Hfl'. intros x Hx. rewrite <- (Hd x Hx). fold (vfs w). split.
    - intros (b & Hb). exact (same_shape_file_inv _ _ _ _ Hsh Hb).
    - intros (b & Hb). destruct (same_shape_file _ _ _ _ Hsh Hb) as (b' & Hb' & _). now exists b'. }
  split.
  { unfold nd, nodup_keys. rewrite Hfs, (same_shape_keys _ _ Hsh). exact (flush_buf_nd w Hnd). }
  unfold wstream. rewrite Hv, Hfl', HSt, dropN_dropN, Hwpos0, Hnf.
  rewrite dropN_app_ge by lia. rewrite dropN_zerosN. f_equal.
  fold a in HlenT. rewrite HlenT.
  assert (Hoff0' : N.of_nat n * FB + w_off w0 <= (N.of_nat n + 1) * FB) by lia.
  lia.
Qed.

(* ---------- the bound, moved to the writer that open makes ---------- *)
Lemma bound_transfer w w0 a dl es :
  winv P w -> winv P w0 -> wlo w0 = wlo w ->
  a <= dl * FB + wpos w -> dl * FB + wpos w <= ffp a ->
  a <= dl * FB + wpos w0 -> dl * FB + wpos w0 <= ffp a ->
  phys_bound P w es ->
  FB * wlo w0 + cursor_after (wpos w0) (map entry_ser es) <= MAXB.
Proof.
  intros Hw Hw0 Elo Ha1 Ha2 Hb1 Hb2 Hb.
  destruct es as [|x es].
  - cbn [map]. rewrite (H2 cursor_after_nil).
    destruct Hw0 as (Hok0 & _ & Hoff0 & _ & Hu0 & _).
    destruct (wr_ok_len P HB0a HNB w0 Hok0) as (Hn0 & Hn1).
    unfold FileStream.wpos. nia.
  - unfold phys_bound in Hb. cbn [map] in *. set (p := entry_ser x) in *.
    set (ps := map entry_ser es) in *.
    destruct Hw as (Hok & _). destruct (wr_ok_len P HB0a HNB w Hok) as (Hn & Hn1).
    assert (Eabs : wabs P w = wlo w * FB + wpos w).
    { unfold wabs, FileStream.wpos.
      replace (w_file w) with (wlo w + (lenN (w_files w) - 1)) by lia. lia. }
    rewrite Eabs, (HW cursor_after_shift) in Hb by apply (HN mulFB_mod).
    rewrite (H3 cursor_after_cons) in Hb. rewrite (H3 cursor_after_cons).
    pose proof (HW enc_of_shift (dl * FB) (wpos w) p (HN mulFB_mod dl)) as E1.
    pose proof (HW enc_of_shift (dl * FB) (wpos w0) p (HN mulFB_mod dl)) as E2.
    pose proof (HW enc_of_between_len a (dl * FB + wpos w) p Ha1 Ha2) as L1.
    pose proof (HW enc_of_between_len a (dl * FB + wpos w0) p Hb1 Hb2) as L2.
    rewrite E1 in L1. rewrite E2 in L2.
    replace (wpos w0 + lenN (enc_of (wpos w0) p)) with (wpos w + lenN (enc_of (wpos w) p)) by lia.
    rewrite Elo. lia.
Qed.

(* ====================================================================== *)
(* 4. the theorem                                                         *)
(* ====================================================================== *)

(* ---------- (1) the setting ---------- *)
(* X is entry number i of the kept log gh_E G.  The ghost stream splits at X:
     gh_T G = t1 ++ ex ++ t2,  t1 = the encoding of everything written before X. *)
Definition dmg_E1 (G : ghost) (i : nat) : list entry := gh_before G ++ map snd (firstn i (gh_E G)).
Definition dmg_E2 (G : ghost) (i : nat) : list entry := map snd (skipn (S i) (gh_E G)).
Definition dmg_t1 (G : ghost) (i : nat) : bytes := encs_of 0 (map entry_ser (dmg_E1 G i)).
Definition dmg_t2 (G : ghost) (i : nat) (ex : bytes) : bytes :=
  encs_of (lenN (dmg_t1 G i) + lenN ex) (map entry_ser (dmg_E2 G i)).

(* fs_d is the directory left by drop_log st (= vfs (s_wr st)) with one frame of X damaged:
   same names, kinds and lengths; the kept files hold the ghost stream with ed in place of the
   encoding ex of X, where ed is ex with one frame damaged in its checksum / payload bytes so
   that the CRC check fails (DamageProofs.enc_dmg; k = the number of frames of X) *)
Definition damaged_dir (st : state) (G : ghost) (i : nat) (X : entry) (ex ed : bytes) (k : nat)
           (fs_d : fsT) : Prop :=
  (exists fX, nth_error (gh_E G) i = Some (fX, X)) /\
  let w := s_wr st in
  let t1 := dmg_t1 G i in
  let t2 := dmg_t2 G i ex in
  let dl := wlo w - gh_base G in
  enc_dmg P (lenN t1) true (entry_ser X) ex ed k /\
  same_shape (vfs w) fs_d /\
  stream_of fs_d (w_files w) =
    dropN (dl * FB)
          ((t1 ++ ed ++ t2) ++ zerosN ((dl + lenN (w_files w)) * FB - lenN (gh_T P G))).

(* the bound the recovery-time GC needs: position entries for distinct queues named in the kept
   log fit below 2^64 files (the damaged replay may resurrect a queue whose EDelete was lost, so
   the queues are those named by the log, not only the live ones) *)
Definition dmg_bound (st : state) (G : ghost) : Prop :=
  forall extra, NoDup (map entry_queue extra) ->
    Forall (fun e => exists q p, e = EPosition q p /\
                                 In q (map entry_queue (map snd (gh_E G)))) extra ->
    phys_bound P (s_wr st) extra.

Section Setting.
Variables (st : state) (G : ghost) (i : nat) (X : entry) (fX : N).
Hypothesis HI : Inv st G.
Hypothesis HX : nth_error (gh_E G) i = Some (fX, X).

Local Notation Ea := (firstn i (gh_E G)).
Local Notation Eb := (skipn (S i) (gh_E G)).

Lemma dmg_ALL : gh_ALL G = dmg_E1 G i ++ X :: dmg_E2 G i.
Proof.
  destruct (nth_error_split _ _ _ HX) as [EE _].
  rewrite gh_ALL_split. unfold dmg_E1, dmg_E2. rewrite <- app_assoc. f_equal.
  change (X :: map snd Eb) with (map snd ((fX, X) :: Eb)). rewrite <- map_app. f_equal. exact EE.
Qed.

Lemma dmg_index : length (dmg_E1 G i) = (gh_k G + i)%nat.
Proof.
  destruct (nth_error_split _ _ _ HX) as [_ Li].
  unfold dmg_E1. now rewrite app_length, gh_before_length, map_length, Li.
Qed.

Lemma dmg_nth : nth_error (gh_ALL G) (gh_k G + i) = Some X.
Proof.
  rewrite dmg_ALL, <- dmg_index, nth_error_app2 by lia. now rewrite Nat.sub_diag.
Qed.

(* the undamaged stream *)
Lemma dmg_T ex ed k : enc_dmg P (lenN (dmg_t1 G i)) true (entry_ser X) ex ed k ->
  gh_T P G = dmg_t1 G i ++ ex ++ dmg_t2 G i ex.
Proof.
  intros Hd. unfold gh_T, gh_ser. rewrite dmg_ALL, map_app, (H3 encs_of_app).
  fold (dmg_t1 G i). f_equal. cbn [map ResyncProofs.encs_of]. rewrite N.add_0_l.
  rewrite (H3 enc_rel_enc_of _ _ _ _ (enc_dmg_orig P _ _ _ _ _ _ Hd)). reflexivity.
Qed.

(* the first frame of X lies in the kept files *)
Lemma dmg_delivered : (wlo (s_wr st) - gh_base G) * FB <= ffp (lenN (dmg_t1 G i)).
Proof.
  destruct HI as ((_ & _ & _ & _ & _ & _ & _ & _ & _ & HD2 & _) & _). cbn zeta in HD2.
  destruct (Forall2_nth_error _ _ _ i _ HD2 HX) as (s & Hs & (Hle & _)).
  destruct (nth_error_split _ _ _ HX) as [EE Li].
  assert (Es : gh_ser_E G = map entry_ser (map snd Ea) ++ entry_ser X :: map entry_ser (map snd Eb)).
  { unfold gh_ser_E. rewrite EE at 1. now rewrite map_app, map_app. }
  rewrite Es, (H3 starts_app) in Hs.
  rewrite nth_error_app2 in Hs by (rewrite (ResyncProofs.starts_length P), !map_length; lia).
  rewrite (ResyncProofs.starts_length P), !map_length, Li, Nat.sub_diag in Hs.
  cbn [ResyncProofs.starts nth_error] in Hs. inversion Hs; subst s. clear Hs. cbn [snd] in Hle.
  assert (Ec : cursor_after (gh_a0 P G) (map entry_ser (map snd Ea)) = lenN (dmg_t1 G i)).
  { unfold gh_a0, gh_ser_before. rewrite <- (H3 cursor_after_app), <- map_app.
    fold (dmg_E1 G i). unfold ResyncProofs.cursor_after, dmg_t1. lia. }
  now rewrite Ec in Hle.
Qed.
End Setting.

(* every retained record was appended by an entry of the kept log *)
Lemma LInv_kept qs lo G F q rf nf r :
  LInv qs lo G -> t_replay [] 0 (gh_ALL G) = Some F -> t_get F q = Some (rf, nf) -> In r rf ->
  (gh_k G <= fst r)%nat.
Proof.
  intros (_ & _ & _ & F' & EF' & Hcov) EF Eq Hin. rewrite EF in EF'. inversion EF'; subst F'.
  destruct (Hcov q rf nf Eq) as (_ & Hr). rewrite Forall_forall in Hr.
  destruct (Hr r Hin) as (j & _ & _ & Ej & _). lia.
Qed.

(* ---------- (2) the theorem, with the tags of the full replay ---------- *)
(* F = the tagged replay of everything ever written (its queues are the live queues of st:
   RestartInv.LInv_tget); a record of F carries the index, in gh_ALL G, of the entry that
   appended it; the index of X is gh_k G + i *)
Theorem C09_damage_tagged st G i X ex ed k fs_d :
  Inv st G -> damaged_dir st G i X ex ed k fs_d -> dmg_bound st G ->
  forall pol hint, exists st_r F,
    open P fs_d None pol hint = OpenOk st_r /\
    t_replay [] 0 (gh_ALL G) = Some F /\
    qs_inv (s_qs st_r) /\
    forall q rf nf, t_get F q = Some (rf, nf) ->
      forall r, In r rf -> fst r <> (gh_k G + i)%nat ->
        exists m, qs_get (s_qs st_r) q = Some m /\
                  In (snd r) (records_of (q_buf m) (q_metas m)).
Proof.
  intros HI ((fX & HX) & Hdmg & Hsh & HSt) Hbound pol hint. cbn zeta in *.
  pose proof HI as (HP & HL).
  set (w := s_wr st) in *.
  pose proof HP as (Hw & Hwd & Hnd & Hbase & Hc1 & Hc2 & Hs & HWf & _). cbn zeta in *.
  destruct (HN winv_files w Hw) as (n & Hfiles & Hfile).
  pose proof Hw as (Hok & _ & Hoff & _ & _ & Hfull & _).
  assert (Hnf : lenN (w_files w) = N.of_nat n + 1) by (rewrite Hfiles, lenN_iota; lia).
  assert (Hwpos : wpos w = N.of_nat n * FB + w_off w).
  { unfold FileStream.wpos. rewrite Hnf. f_equal. f_equal. lia. }
  set (lo := wlo w) in *. set (base := gh_base G) in *. set (dl := lo - base) in *.
  set (T := gh_T P G) in *.
  set (t1 := dmg_t1 G i) in *. set (t2 := dmg_t2 G i ex) in *.
  set (E1 := dmg_E1 G i). set (E2 := dmg_E2 G i).
  set (z := (dl + lenN (w_files w)) * FB - lenN T) in *.
  pose proof (dmg_ALL G i X fX HX) as HALL. fold E1 E2 in HALL.
  pose proof (dmg_T G i X fX HX ex ed k Hdmg) as HT. fold T t1 t2 in HT.
  pose proof (dmg_delivered st G i X fX HI HX) as Hb. fold w lo base dl t1 in Hb.
  pose proof (H3 enc_dmg_len _ _ _ _ _ _ Hdmg) as Hled.
  assert (HlenT : lenN (t1 ++ ed ++ t2) = lenN T).
  { rewrite HT, !lenN_app, Hled. reflexivity. }
  assert (Hfull' : forall f, In f (iota lo (S n)) ->
            exists b, fs_get fs_d (filename f) = Some (FFile b) /\ lenN b = FB).
  { rewrite <- Hfiles. intros f Hf. destruct (Hfull f Hf) as (b & Hg & Hlb).
    destruct (same_shape_file _ _ _ _ Hsh Hg) as (b' & Hg' & Hlb'). exists b'. split; [exact Hg'|lia]. }
  assert (Hlist : list_wal_numbers fs_d = iota lo (S n)).
  { rewrite (same_shape_listing _ _ Hsh), <- Hfiles. exact (listing_after P w Hw Hwd Hnd). }
  assert (He1 : encs_rel P 0 (map entry_ser E1) t1) by apply (H3 encs_of_rel).
  assert (He2 : encs_rel P (lenN t1 + lenN ex) (map entry_ser E2) t2) by apply (H3 encs_of_rel).
  assert (HSt' : stream_of fs_d (iota lo (S n)) = dropN (dl * FB) ((t1 ++ ed ++ t2) ++ zerosN z)).
  { rewrite <- Hfiles. exact HSt. }
  assert (HlenS : lenN ((t1 ++ ed ++ t2) ++ zerosN z) = (lo + N.of_nat n - base + 1) * FB).
  { rewrite lenN_app, lenN_zerosN, HlenT. unfold z. rewrite Hnf.
    replace (lo + N.of_nat n - base + 1) with (dl + (N.of_nat n + 1)) by lia.
    rewrite Hwpos in Hc1. assert (lenN T <= (dl + (N.of_nat n + 1)) * FB) by lia. lia. }
  assert (HWf' : Forall wf_entry (E1 ++ X :: E2)) by (rewrite <- HALL; exact HWf).
  destruct (open_one_damaged P HBS_lo HBS_hi HNB Hcrc fs_d lo n Hfull' base E1 X E2 t1 ex ed k t2 z
              pol hint HIO Hbase Hlist HWf' He1 Hdmg He2 HSt' HlenS Hb)
    as (w0 & tags & E1p & E1s & HE1 & Hskip & _ & _ & Hspec & Hres).
  fold dl in Hskip, Hspec.
  (* the entries skipped are those before E *)
  destruct (HW PInv_delivered w G HP) as (_ & Eskip). fold lo base dl in Eskip.
  rewrite <- HALL in Hskip. change (map entry_ser (gh_ALL G)) with (gh_ser G) in Hskip.
  rewrite Eskip in Hskip. unfold gh_ser_before in Hskip.
  assert (Hlp : length (gh_before G) = length E1p).
  { apply (f_equal (@length bytes)) in Hskip. rewrite !map_length in Hskip. lia. }
  unfold E1, dmg_E1 in HE1. destruct (app_inv_len _ _ _ _ HE1 Hlp) as [<- <-]. clear Hlp Hskip.
  set (E1s := map snd (firstn i (gh_E G))) in *.
  rewrite <- HT in Hspec.
  (* the logical side *)
  assert (Hlen : length tags = length (E1s ++ E2)).
  { destruct Hspec as (Hl & _). rewrite Hl, !app_length, !(ResyncProofs.starts_length P), !map_length.
    reflexivity. }
  destruct HL as (Hqwf & Hleg & Hrep & F' & EF' & Hcov).
  assert (HALL' : gh_ALL G = gh_before G ++ E1s ++ X :: E2).
  { rewrite HALL. unfold E1, dmg_E1. now rewrite <- app_assoc. }
  rewrite HALL' in Hleg.
  destruct (model_damaged_suffix (gh_before G) E1s E2 X tags Hleg Hlen)
    as (F & qD & EF & EqD & HiD & HndD & Hnames & Hrec).
  rewrite <- HALL' in EF, Hleg.
  rewrite EqD in Hres.
  (* the writer *)
  destruct (dmg_writer w G fs_d w0 tags _ n (t1 ++ ed ++ t2) HP Hfiles Hsh HlenT HSt Hspec)
    as (HPZ & Elo & Hk1 & Hk2).
  fold lo base dl T in Hk1, Hk2.
  (* the recovery-time GC *)
  set (st0 := mkSt w0 qD pol).
  set (names := pick_order hint (empty_names qD)).
  assert (Hb0 : FB * wlo (s_wr st0) +
                cursor_after (wpos (s_wr st0)) (map entry_ser (pos_entries (s_qs st0) names)) <= MAXB).
  { cbn [st0 s_wr s_qs]. destruct HPZ as (Hw0 & _).
    apply (bound_transfer w w0 (lenN T) dl _ Hw Hw0 Elo Hc1 Hc2 Hk1 Hk2).
    apply Hbound.
    - apply pos_entries_nodup. apply NoDup_pick_order. now apply NoDup_empty_names.
    - apply Forall_forall. intros e He.
      destruct (pos_entries_in _ _ _ He) as (q & m & _ & Eq & ->). exists q, (next_position m).
      split; [reflexivity|]. pose proof (Hnames q m Eq) as Hin.
      destruct (nth_error_split _ _ _ HX) as [EE _]. rewrite EE, !map_app. cbn [map].
      unfold E1s, E2, dmg_E2 in Hin. rewrite map_app in Hin.
      apply in_app_or in Hin. apply in_or_app. destruct Hin as [Hin|Hin]; [now left|right; now right]. }
  rewrite Hres. unfold open_finish. fold st0.
  pose proof (run_gc_qs P st0 hint) as Hqs.
  destruct (run_gc_if_necessary P st0 hint) as [st1 r] eqn:Egc. cbn [fst] in Hqs.
  destruct (pz_gc_no_err st0 hint st1 r HPZ Hb0 Egc) as (kk & ->).
  exists st1, F. split; [reflexivity|]. split; [exact EF|]. rewrite Hqs. cbn [st0 s_qs].
  split; [exact HiD|].
  intros q rf nf Eq r Hin Hne.
  apply (Hrec q rf nf Eq r Hin).
  - rewrite gh_before_length.
    apply (LInv_kept (s_qs st) lo G F q rf nf r); try assumption.
    split; [exact Hqwf|]. split; [exact Hleg|]. split; [exact Hrep|]. exists F'. split; assumption.
  - rewrite gh_before_length. unfold E1s. rewrite map_length.
    destruct (nth_error_split _ _ _ HX) as [_ Li]. rewrite Li. exact Hne.
Qed.

(* ---------- (2') the same without tags ---------- *)
(* the records X appended to queue q (none unless X is an EAppend on q) *)
Definition appended_by (X : entry) (q : bytes) (rec : N * bytes) : Prop :=
  match X with
  | EAppend q' _ recs => q' = q /\ In rec recs
  | _ => False
  end.

(* a record of the full replay that carries the index of X was appended by X *)
Lemma tag_appended_by G i X fX F q rf nf r :
  nth_error (gh_E G) i = Some (fX, X) ->
  t_replay [] 0 (gh_ALL G) = Some F -> t_get F q = Some (rf, nf) -> In r rf ->
  fst r = (gh_k G + i)%nat -> appended_by X q (snd r).
Proof.
  intros HX EF Eq Hin Hi.
  destruct (t_replay_origin q r _ _ _ _ _ _ EF Eq Hin) as [(rf0 & n0 & E0 & _)|(j & pos & recs & Ej & En & Hr)];
    [discriminate|].
  cbn [Nat.add] in Ej. rewrite <- Ej, Hi, (dmg_nth G i X fX HX) in En. inversion En; subst X.
  cbn [appended_by]. split; [reflexivity|exact Hr].
Qed.

(* THE THEOREM.  st: a state under the restart invariant; fs_d: the directory it leaves when
   dropped, with one frame of the kept entry X damaged (CRC fails).  Then open succeeds, and
   every record (pos, payload) retained in a queue q of st is retained in q after the
   recovery — same position, same payload bytes — unless X is the EAppend that appended it. *)
Theorem C09_damage_costs_one_entry st G i X ex ed k fs_d :
  Inv st G -> damaged_dir st G i X ex ed k fs_d -> dmg_bound st G ->
  forall pol hint, exists st_r,
    open P fs_d None pol hint = OpenOk st_r /\
    qs_inv (s_qs st_r) /\
    forall q m pos payload,
      qs_get (s_qs st) q = Some m ->
      In (pos, payload) (records_of (q_buf m) (q_metas m)) ->
      ~ appended_by X q (pos, payload) ->
      exists m', qs_get (s_qs st_r) q = Some m' /\
                 In (pos, payload) (records_of (q_buf m') (q_metas m')).
Proof.
  intros HI Hdir Hbound pol hint.
  destruct (C09_damage_tagged st G i X ex ed k fs_d HI Hdir Hbound pol hint)
    as (st_r & F & Eo & EF & Hinv & Hrec).
  exists st_r. split; [exact Eo|]. split; [exact Hinv|].
  intros q m pos payload Eq Hin Hnot.
  destruct HI as (_ & HL). destruct Hdir as ((fX & HX) & _).
  pose proof (LInv_tget _ _ _ F HL EF q) as Ht. rewrite Eq in Ht.
  destruct (t_get F q) as [[rf nf]|] eqn:Etq; [|contradiction].
  unfold untag_q, abs_q in Ht. cbn [fst snd] in Ht. injection Ht as Hr _.
  rewrite <- Hr in Hin. apply in_map_iff in Hin. destruct Hin as (r & Er & Hin).
  rewrite <- Er. apply (Hrec q rf nf Etq r Hin).
  intros Hi. apply Hnot. rewrite <- Er.
  exact (tag_appended_by G i X fX F q rf nf r HX EF Etq Hin Hi).
Qed.

(* ---------- (3) from a fresh directory ---------- *)
(* every history of calls and clean restarts from a fresh directory (RestartFinal.hist_ok) ends
   in a state under the invariant, for a ghost numbered from file 0 *)
Corollary C09_from_fresh pol0 st0 h st outs :
  open P [] None pol0 [] = OpenOk st0 ->
  hrun P st0 h = Some (st, outs) ->
  hist_ok P st0 h ->
  exists G, Inv st G /\ gh_base G = 0 /\
    forall i X ex ed k fs_d,
      damaged_dir st G i X ex ed k fs_d -> dmg_bound st G ->
      forall pol hint, exists st_r,
        open P fs_d None pol hint = OpenOk st_r /\
        qs_inv (s_qs st_r) /\
        forall q m pos payload,
          qs_get (s_qs st) q = Some m ->
          In (pos, payload) (records_of (q_buf m) (q_metas m)) ->
          ~ appended_by X q (pos, payload) ->
          exists m', qs_get (s_qs st_r) q = Some m' /\
                     In (pos, payload) (records_of (q_buf m') (q_metas m')).
Proof.
  intros Hopen Hrun Hok.
  pose proof (inv_fresh P HBS_lo HBS_hi HNB pol0 st0 Hopen) as HI0.
  destruct (HF hrun_inv h st0 gh_fresh HI0 Hok) as (st1 & outs1 & G & Er & HI & Eb & _).
  rewrite Hrun in Er. injection Er as <- <-.
  exists G. split; [exact HI|]. split; [exact Eb|].
  intros i X ex ed k fs_d Hdir Hbound.
  exact (C09_damage_costs_one_entry st G i X ex ed k fs_d HI Hdir Hbound).
Qed.

(* the setting is the restart setting with ed for ex: the undamaged directory holds the same
   stream with ex, and every encoding has a damaged version *)
Lemma damaged_dir_undamaged st G i X ex ed k fs_d :
  Inv st G -> damaged_dir st G i X ex ed k fs_d ->
  let w := s_wr st in
  let dl := wlo w - gh_base G in
  gh_T P G = dmg_t1 G i ++ ex ++ dmg_t2 G i ex /\
  lenN ed = lenN ex /\
  stream_of (vfs w) (w_files w) =
    dropN (dl * FB)
          ((dmg_t1 G i ++ ex ++ dmg_t2 G i ex) ++
           zerosN ((dl + lenN (w_files w)) * FB - lenN (gh_T P G))).
Proof.
  intros HI ((fX & HX) & Hdmg & _). cbn zeta in *.
  pose proof (dmg_T G i X fX HX ex ed k Hdmg) as HT.
  split; [exact HT|]. split; [exact (H3 enc_dmg_len _ _ _ _ _ _ Hdmg)|].
  destruct HI as ((_ & _ & _ & _ & _ & _ & Hs & _) & _). cbn zeta in Hs.
  rewrite <- HT. exact Hs.
Qed.

Lemma damaged_encoding_exists G i X fX :
  nth_error (gh_E G) i = Some (fX, X) ->
  exists ex ed k, enc_dmg P (lenN (dmg_t1 G i)) true (entry_ser X) ex ed k.
Proof.
  intros _. destruct (H3 enc_of_rel (lenN (dmg_t1 G i)) (entry_ser X)) as (k & Hk).
  destruct (H3 enc_dmg_exists _ _ _ _ _ Hk) as (ed & Hd). exists (enc_of (lenN (dmg_t1 G i)) (entry_ser X)), ed, k. exact Hd.
Qed.

End Atomic.

Print Assumptions C09_damage_tagged.
Print Assumptions C09_damage_costs_one_entry.
Print Assumptions C09_from_fresh.

(* ====================================================================== *)
(* 4b. the setting is inhabited: every kept entry can be damaged           *)
(* ====================================================================== *)

Lemma same_shape_refl fs : same_shape fs fs.
Proof.
  induction fs as [|[n e] fs IH]; constructor; [|exact IH].
  split; [reflexivity|]. cbn [snd]. destruct e; auto.
Qed.

Lemma same_shape_trans a b c : same_shape a b -> same_shape b c -> same_shape a c.
Proof.
  intros H. revert c. induction H as [|x y l l' [Hn He] _ IH]; intros c Hc; inversion Hc as [|? z ? l'' [Hn' He'] Hr];
    subst; constructor; [|now apply IH].
  split; [congruence|]. destruct (snd x), (snd y), (snd z); try contradiction; try exact I. congruence.
Qed.

Lemma same_shape_put fs name b b' :
  fs_get fs name = Some (FFile b) -> lenN b' = lenN b -> same_shape fs (fs_put fs name (FFile b')).
Proof.
  induction fs as [|[n e] fs IH]; cbn [fs_get fs_put]; [discriminate|].
  destruct (bytes_eqb n name); intros H Hl.
  - injection H as ->. constructor; [|apply same_shape_refl]. split; [reflexivity|]. cbn [snd]. now symmetry.
  - constructor; [|now apply IH]. split; [reflexivity|]. cbn [snd]. destruct e; auto.
Qed.

(* overwrite the files `files`, in order, with consecutive chunks of S *)
Fixpoint put_stream (len : N) (fs : fsT) (files : list N) (S : bytes) : fsT :=
  match files with
  | [] => fs
  | f :: r => put_stream len (fs_put fs (filename f) (FFile (takeN len S))) r (dropN len S)
  end.

Lemma put_stream_shape len : forall files fs S,
  (forall f, In f files -> exists b, fs_get fs (filename f) = Some (FFile b) /\ lenN b = len) ->
  lenN S = lenN files * len ->
  same_shape fs (put_stream len fs files S).
Proof.
  induction files as [|f r IH]; intros fs S Hfull HS; cbn [put_stream]; [apply same_shape_refl|].
  rewrite lenN_cons in HS.
  destruct (Hfull f (or_introl eq_refl)) as (b & Hg & Hb).
  assert (Hsh : same_shape fs (fs_put fs (filename f) (FFile (takeN len S)))).
  { apply (same_shape_put _ _ b); [exact Hg|]. rewrite lenN_takeN. lia. }
  apply (same_shape_trans _ _ _ Hsh). apply IH.
  - intros x Hx. destruct (Hfull x (or_intror Hx)) as (bx & Hgx & Hbx).
    destruct (same_shape_file _ _ _ _ Hsh Hgx) as (bx' & Hgx' & Hbx'). exists bx'. split; [exact Hgx'|lia].
  - rewrite lenN_dropN. lia.
Qed.

Lemma put_stream_other len f : forall r fs S,
  (forall x, In x r -> filename x <> filename f) ->
  fcontent (put_stream len fs r S) f = fcontent fs f.
Proof.
  induction r as [|x r IH]; intros fs S Hne; cbn [put_stream]; [reflexivity|].
  rewrite IH by (intros y Hy; apply Hne; now right).
  apply fcontent_put_other. apply Hne. now left.
Qed.

Lemma put_stream_stream len : forall files fs S,
  StronglySorted N.lt files -> (forall f, In f files -> f <= U64_MAX) ->
  lenN S = lenN files * len ->
  stream_of (put_stream len fs files S) files = S.
Proof.
  induction files as [|f r IH]; intros fs S Hs Hu HS.
  - cbn [put_stream stream_of flat_map]. symmetry. apply lenN_0_nil. rewrite HS, (@lenN_nil N). lia.
  - rewrite lenN_cons in HS. inversion Hs as [|? ? Hs' Hf]; subst.
    rewrite stream_of_cons. cbn [put_stream].
    rewrite put_stream_other.
    + rewrite (fcontent_put_same _ _ _ f eq_refl).
      rewrite IH; [apply takeN_dropN|exact Hs'| |rewrite lenN_dropN; lia].
      intros x Hx. apply Hu. now right.
    + intros x Hx. rewrite Forall_forall in Hf. specialize (Hf x Hx). cbn beta in Hf.
      apply filename_neq; [apply Hu; now right|apply Hu; now left|lia].
Qed.

Section Inhabited.
Variable P : params.
Hypothesis HBS_lo : 7 < BS P.
Hypothesis HBS_hi : BS P <= 65542.
Hypothesis HNB : 1 <= NB P.
Hypothesis Hcrc : forall t p, crcf P t p < 2 ^ 32.
Local Notation FB := (FILE_BYTES P).

(* for every state under the invariant and every kept entry X there is a damaged encoding of X
   and a directory that differs from the dropped one exactly by it *)
Theorem damaged_dir_exists st G i X fX :
  Inv P st G -> nth_error (gh_E G) i = Some (fX, X) ->
  exists ex ed k fs_d, damaged_dir P st G i X ex ed k fs_d.
Proof.
  intros HI HX.
  destruct (damaged_encoding_exists P HBS_lo HBS_hi Hcrc G i X fX HX) as (ex & ed & k & Hd).
  set (w := s_wr st). set (dl := wlo w - gh_base G).
  set (T' := dmg_t1 P G i ++ ed ++ dmg_t2 P G i ex).
  set (z := (dl + lenN (w_files w)) * FB - lenN (gh_T P G)).
  set (S' := dropN (dl * FB) (T' ++ zerosN z)).
  exists ex, ed, k, (put_stream FB (vfs w) (w_files w) S').
  pose proof HI as ((Hw & _ & _ & Hbase & Hc1 & _) & _). cbn zeta in Hc1. fold w dl in Hc1.
  pose proof Hw as (Hok & _ & _ & _ & Hu & Hfull & _).
  pose proof (winv_wpos_le P HBS_lo HBS_hi HNB w Hw) as Hpos.
  assert (HlenT : lenN T' = lenN (gh_T P G)).
  { rewrite (dmg_T P HBS_lo HBS_hi Hcrc G i X fX HX ex ed k Hd). unfold T'.
    rewrite !lenN_app, (enc_dmg_len P HBS_lo HBS_hi Hcrc _ _ _ _ _ _ Hd). reflexivity. }
  assert (HlenS : lenN S' = lenN (w_files w) * FB).
  { unfold S'. rewrite lenN_dropN, lenN_app, lenN_zerosN, HlenT. unfold z.
    rewrite N.mul_add_distr_r. lia. }
  split; [now exists fX|]. cbn zeta. fold w dl T' z S'.
  split; [exact Hd|]. split.
  - apply put_stream_shape; [exact Hfull|exact HlenS].
  - apply put_stream_stream; [|intros f Hf; exact (N.le_trans _ _ _ (wr_ok_le w f Hok Hf) Hu)|exact HlenS].
    destruct (wr_ok_files w Hok) as (_ & _ & _ & Hs). exact Hs.
Qed.
End Inhabited.

Print Assumptions damaged_dir_exists.

(* ====================================================================== *)
(* 5. non-vacuity: every frame of a dropped directory, damaged in turn    *)
(* ====================================================================== *)

(* a decidable form of same_shape, for concrete directories *)
Definition same_entry_b (x y : bytes * fentry) : bool :=
  bytes_eqb (fst x) (fst y) &&
  match snd x, snd y with
  | FFile a, FFile b => lenN a =? lenN b
  | FDir, FDir => true
  | FOther, FOther => true
  | _, _ => false
  end.

Fixpoint same_shape_b (fs fs' : fsT) : bool :=
  match fs, fs' with
  | [], [] => true
  | x :: r, y :: r' => same_entry_b x y && same_shape_b r r'
  | _, _ => false
  end.

Lemma same_shape_b_ok : forall fs fs', same_shape_b fs fs' = true -> same_shape fs fs'.
Proof.
  induction fs as [|[n e] fs IH]; intros [|[n' e'] fs'] H; cbn [same_shape_b] in H; try discriminate.
  - constructor.
  - apply andb_true_iff in H as [Hx Hr]. constructor; [|now apply IH].
    unfold same_entry_b in Hx. cbn [fst snd] in Hx. apply andb_true_iff in Hx as [Hn He].
    apply bytes_eqb_eq in Hn. split; [exact Hn|]. cbn [snd].
    destruct e, e'; try discriminate; try exact I. now apply N.eqb_eq.
Qed.

(* BS = 32, two blocks per file (files of 64 bytes), the real CRC-32.  Two queues; the first
   append (two records, 56 bytes of payload) starts in file 0 and rolls over into file 1; the
   truncate evicts its records and the GC deletes file 0 (after re-recording the position of
   the empty queue b), so the kept files 1..6 begin with two continuation frames of an entry
   whose first frame is gone.  Then both queues grow again (an entry of three frames, several
   roll-overs).  In the dropped directory we change, for EVERY frame in turn, one byte of its
   checksum, its first payload byte and its last payload byte (42 damaged directories), and
   check that open succeeds and that every record of the live state is recovered unless the
   entry the frame belongs to is the EAppend that appended it. *)
Module Example.
Definition Pc : params := mkParams 32 2 Crc.crc32 0 false false false.
Definition qa : bytes := ["a"%byte].
Definition qb : bytes := ["b"%byte].
Definition pay (c : byte) : bytes := [c; c; c; c; c; c; c; c; c; c].

Definition h_ex : list hop :=
  [HCall (OCreate qa) false;
   HCall (OCreate qb) false;
   HCall (OAppend qa None [pay "x"%byte; pay "y"%byte]) false;
   HCall (OAppend qa None [pay "u"%byte]) true;
   HCall (OTruncate qa 1 [qb]) false;
   HCall (OAppend qb None [pay "z"%byte]) false;
   HCall (OAppend qa None [pay "v"%byte; pay "t"%byte]) false;
   HCall (OAppend qb None [pay "w"%byte]) false].

Lemma Pc_BS_lo : 7 < BS Pc. Proof. reflexivity. Qed.
Lemma Pc_BS_hi : BS Pc <= 65542. Proof. intros H; discriminate H. Qed.
Lemma Pc_NB : 1 <= NB Pc. Proof. intros H; discriminate H. Qed.
Lemma Pc_crc : forall t p, crcf Pc t p < 2 ^ 32.
Proof.
  intros t p. cbn [Pc crcf]. unfold Crc.crc32. change 4294967295 with (N.ones 32).
  rewrite N.land_ones. apply N.mod_lt. discriminate.
Qed.

Definition st_dummy : state := mkSt (mkWr (ctx_init [] None) [] 0 0 []) [] PNothing.
Definition st0 : state :=
  Eval vm_compute in match open Pc [] None PNothing [] with OpenOk s => s | _ => st_dummy end.
Lemma open_st0 : open Pc [] None PNothing [] = OpenOk st0.
Proof. vm_compute. reflexivity. Qed.

Definition st_ex : state :=
  Eval vm_compute in match hrun Pc st0 h_ex with Some (s, _) => s | None => st_dummy end.
Definition outs_ex : list outcome :=
  Eval vm_compute in match hrun Pc st0 h_ex with Some (_, o) => o | None => [] end.
Lemma hrun_ex : hrun Pc st0 h_ex = Some (st_ex, outs_ex).
Proof. vm_compute. reflexivity. Qed.

(* the files, the writer's offset and the positions of the retained records along the way *)
Example trace_ex :
  map (fun k => match hrun Pc st0 (firstn k h_ex) with
                | Some (s, _) =>
                    Some (w_files (s_wr s), w_off (s_wr s),
                          map (fun '(q, (r, n)) => (q, map fst r, n)) (abs_qs (s_qs s)))
                | None => None end) [2; 3; 4; 5; 8]%nat =
  [Some ([0], 45, [(qa, [], 0); (qb, [], 0)]);
   Some ([0; 1], 58, [(qa, [0; 1], 2); (qb, [], 0)]);          (* roll-over *)
   Some ([0; 1; 2], 48, [(qa, [0; 1; 2], 3); (qb, [], 0)]);
   Some ([1; 2; 3], 29, [(qa, [2], 3); (qb, [], 0)]);          (* truncate: GC deletes file 0 *)
   Some ([1; 2; 3; 4; 5; 6], 16, [(qa, [2; 3; 4], 5); (qb, [0; 1], 2)])].
Proof. vm_compute. reflexivity. Qed.

(* the hypotheses of C09_from_fresh hold along this history: st_ex is under the invariant *)
Lemma hist_ok_ex : hist_ok Pc st0 h_ex.
Proof.
  unfold h_ex.
  RestartFinal.Example.call_tac. RestartFinal.Example.call_tac.
  RestartFinal.Example.call_tac. RestartFinal.Example.call_tac.
  RestartFinal.Example.call_tac. RestartFinal.Example.call_tac.
  RestartFinal.Example.call_tac. RestartFinal.Example.call_tac.
  exact I.
Qed.

Example C09_ex : exists G, Inv Pc st_ex G /\ gh_base G = 0 /\
  forall i X ex ed k fs_d,
    damaged_dir Pc st_ex G i X ex ed k fs_d -> dmg_bound Pc st_ex G ->
    forall pol hint, exists st_r,
      open Pc fs_d None pol hint = OpenOk st_r /\
      qs_inv (s_qs st_r) /\
      forall q m pos payload,
        qs_get (s_qs st_ex) q = Some m ->
        In (pos, payload) (records_of (q_buf m) (q_metas m)) ->
        ~ appended_by X q (pos, payload) ->
        exists m', qs_get (s_qs st_r) q = Some m' /\
                   In (pos, payload) (records_of (q_buf m') (q_metas m')).
Proof.
  exact (C09_from_fresh Pc Pc_BS_lo Pc_BS_hi Pc_NB Pc_crc eq_refl eq_refl
           PNothing st0 h_ex st_ex outs_ex open_st0 hrun_ex hist_ok_ex).
Qed.

(* ---------- the dropped directory and its frames ---------- *)
Definition fs_ex : fsT := Eval vm_compute in c_fs (drop_log st_ex).
Definition files_ex : list N := Eval vm_compute in w_files (s_wr st_ex).
Definition lo_ex : N := Eval vm_compute in wlo (s_wr st_ex).
Definition S_ex : bytes := Eval vm_compute in stream_of fs_ex files_ex.

(* the frames of the kept stream: (offset of the payload, payload length, type code) *)
Fixpoint frames (fuel : nat) (S : bytes) (o : N) : list (N * N * N) :=
  match fuel with
  | O => []
  | Datatypes.S f =>
      let c := o mod 32 in
      if 32 - c <? 7 then frames f S (o + (32 - c))
      else
        let hdr := sliceN o (o + 7) S in
        if (lenN hdr <? 7) || all_zero hdr then []
        else
          let len := le_dec (sliceN 4 6 hdr) in
          (o + 7, len, le_dec (dropN 6 hdr)) :: frames f S (o + 7 + len)
  end.

(* the entry each frame belongs to: Some k = the k-th entry that starts in the kept files;
   None = a continuation frame of the entry that straddles the start of the first kept file *)
Fixpoint group (fs : list (N * N * N)) (cur : option nat) (next : nat)
  : list (N * N * N * option nat) :=
  match fs with
  | [] => []
  | (o, l, t) :: r =>
      if (t =? 1) || (t =? 2) then (o, l, t, Some next) :: group r (Some next) (S next)
      else (o, l, t, cur) :: group r cur next
  end.

Definition frames_ex : list (N * N * N * option nat) :=
  Eval vm_compute in group (frames 100 S_ex 0) None 0.

Example frames_ex_eq :
  frames_ex =
  [(7, 25, 3, None); (39, 19, 4, None);                    (* Middle, Last of the lost append *)
   (71, 25, 2, Some 0%nat); (103, 9, 4, Some 0%nat);       (* EAppend a [u] *)
   (119, 9, 2, Some 1%nat); (135, 3, 4, Some 1%nat);       (* ETruncate a 1 *)
   (145, 12, 1, Some 2%nat);                               (* EPosition b 0 (written by the GC) *)
   (167, 25, 2, Some 3%nat); (199, 9, 4, Some 3%nat);      (* EAppend b [z] *)
   (215, 9, 2, Some 4%nat); (231, 25, 3, Some 4%nat); (263, 22, 4, Some 4%nat);
                                                           (* EAppend a [v; t] *)
   (295, 25, 2, Some 5%nat); (327, 9, 4, Some 5%nat)].     (* EAppend b [w] *)
Proof. reflexivity. Qed.

Definition entry_payload (k : nat) : bytes :=
  flat_map (fun '(o, l, _, id) => match id with
                                  | Some k' => if Nat.eqb k k' then sliceN o (o + l) S_ex else []
                                  | None => []
                                  end) frames_ex.
Definition entry_of (id : option nat) : option entry :=
  match id with Some k => entry_deser (entry_payload k) | None => None end.

Example entries_ex :
  map (fun k => entry_of (Some k)) [0; 1; 2; 3; 4; 5]%nat =
  [Some (EAppend qa 2 [(2, pay "u"%byte)]); Some (ETruncate qa 1); Some (EPosition qb 0);
   Some (EAppend qb 0 [(0, pay "z"%byte)]);
   Some (EAppend qa 3 [(3, pay "v"%byte); (4, pay "t"%byte)]);
   Some (EAppend qb 1 [(1, pay "w"%byte)])].
Proof. vm_compute. reflexivity. Qed.

(* ---------- damage ---------- *)
Definition flip (bs : bytes) (i : N) : bytes :=
  takeN i bs ++ match dropN i bs with [] => [] | x :: r => n2b ((b2n x + 1) mod 256) :: r end.

(* the dropped directory with the byte at offset o of the kept stream changed *)
Definition fs_flip (o : N) : fsT :=
  let f := lo_ex + o / 64 in
  fs_put fs_ex (filename f) (FFile (flip (fcontent fs_ex f) (o mod 64))).

Definition recs_of (qs : queues) (q : bytes) : list (N * bytes) :=
  match qs_get qs q with Some m => records_of (q_buf m) (q_metas m) | None => [] end.
Definition rec_eqb (a b : N * bytes) : bool := (fst a =? fst b) && bytes_eqb (snd a) (snd b).

(* appended_by, decided *)
Definition appended_b (X : option entry) (q : bytes) (r : N * bytes) : bool :=
  match X with
  | Some (EAppend q' _ recs) => bytes_eqb q' q && existsb (rec_eqb r) recs
  | _ => false
  end.

(* open succeeds on fs' and recovers every record of st_ex that X did not append *)
Definition check_one (X : option entry) (fs' : fsT) : bool :=
  match open Pc fs' None PNothing [] with
  | OpenOk st' =>
      forallb (fun '(q, m) =>
                 forallb (fun r => appended_b X q r || existsb (rec_eqb r) (recs_of (s_qs st') q))
                         (records_of (q_buf m) (q_metas m))) (s_qs st_ex)
  | _ => false
  end.

(* the bytes changed in a frame: one of the checksum, the first and the last of the payload *)
Definition flips_of (o l : N) : list N := if l =? 0 then [o - 7] else [o - 7; o; o + l - 1].

Definition check_all : bool :=
  forallb (fun '(o, l, _, id) =>
             forallb (fun x => same_shape_b fs_ex (fs_flip x) && check_one (entry_of id) (fs_flip x))
                     (flips_of o l)) frames_ex.

Example C09_all_frames : check_all = true.
Proof. vm_compute. reflexivity. Qed.

(* what is actually lost: (queue, position) of the records of st_ex missing after open *)
Definition lost (fs' : fsT) : option (list (bytes * N)) :=
  match open Pc fs' None PNothing [] with
  | OpenOk st' =>
      Some (flat_map (fun '(q, m) =>
              flat_map (fun r => if existsb (rec_eqb r) (recs_of (s_qs st') q) then []
                                 else [(q, fst r)])
                       (records_of (q_buf m) (q_metas m))) (s_qs st_ex))
  | _ => None
  end.

(* the damage is never harmless for an EAppend: exactly its records are lost (so every changed
   byte is detected by the CRC), and nothing else is; the undamaged directory loses nothing *)
Example C09_losses :
  lost fs_ex = Some [] /\
  map (fun '(o, l, _, id) => (id, map (fun x => lost (fs_flip x)) (flips_of o l))) frames_ex =
  let all3 (l : list (bytes * N)) := [Some l; Some l; Some l] in
  [(None, all3 []); (None, all3 []);
   (Some 0%nat, all3 [(qa, 2)]); (Some 0%nat, all3 [(qa, 2)]);
   (Some 1%nat, all3 []); (Some 1%nat, all3 []);
   (Some 2%nat, all3 []);
   (Some 3%nat, all3 [(qb, 0)]); (Some 3%nat, all3 [(qb, 0)]);
   (Some 4%nat, all3 [(qa, 3); (qa, 4)]); (Some 4%nat, all3 [(qa, 3); (qa, 4)]);
   (Some 4%nat, all3 [(qa, 3); (qa, 4)]);
   (Some 5%nat, all3 [(qb, 1)]); (Some 5%nat, all3 [(qb, 1)])].
Proof. vm_compute. split; reflexivity. Qed.
End Example.

Print Assumptions Example.C09_ex.
Print Assumptions Example.C09_all_frames.
