(* GcProofs.v — property C06: WAL files are reclaimed as soon as nothing retained lives in them.
   (1) characterisation of the GC loop, (2) the tracker invariant of the rolling writer,
   (3) tightness of the file set after truncate / delete_queue, (4) directory = tracker. *)
From Coq Require Import Lia ZArith ZifyN ZifyNat ZifyBool.
From MRL Require Import Bytes BytesProofs Params Names NamesProofs Frame Record Mem Rolling Log
                        WriterProofs.

Arguments N.add : simpl never.
Arguments N.sub : simpl never.
Arguments N.mul : simpl never.
Arguments N.eqb : simpl never.
Arguments N.ltb : simpl never.
Arguments N.leb : simpl never.
Arguments N.div : simpl never.
Arguments N.modulo : simpl never.

(* ================================================================ (1) the GC loop *)

(* the unlink events of a GC pass, most recent first (as in c_ev) *)
Definition unlink_events (dropped : list N) : list event :=
  rev (map (fun f => EvUnlink (filename f)) dropped).

(* the directory with the names of the dropped files removed, oldest first *)
Definition remove_files (fs : fsT) (dropped : list N) : fsT :=
  fold_left (fun fs f => fs_remove fs (filename f)) dropped fs.

(* GC never stops early: what is left is empty only if there was nothing, or is a single file,
   or starts with a referenced file *)
Definition gc_tight (refd : N -> bool) (files files' : list N) : Prop :=
  match files' with
  | [] => files = []
  | [_] => True
  | f :: _ => refd f = true
  end.

Theorem gc_loop_ok : forall files c refd c' files',
  gc_loop c files refd = (c', files', Ok tt) ->
  exists dropped,
    files = dropped ++ files' /\
    Forall (fun f => refd f = false) dropped /\
    gc_tight refd files files' /\
    c_ev c' = unlink_events dropped ++ c_ev c /\
    c_fs c' = remove_files (c_fs c) dropped /\
    c_plan c' = c_plan c /\ c_nreaddir c' = c_nreaddir c /\
    c_nopen c' = c_nopen c /\ c_nread c' = c_nread c.
Proof.
  induction files as [|f rest IH]; intros c refd c' files'; cbn [gc_loop].
  - intros H; inversion H; subst. exists []. cbn. repeat split; constructor.
  - destruct rest as [|g rest'].
    + intros H; inversion H; subst. exists []. cbn. repeat split; constructor.
    + destruct (refd f) eqn:Ef.
      * intros H; inversion H; subst. exists []. cbn. repeat split; try constructor. exact Ef.
      * assert (Hstep : forall c1,
                  c_ev c1 = EvUnlink (filename f) :: c_ev c ->
                  c_fs c1 = fs_remove (c_fs c) (filename f) ->
                  c_plan c1 = c_plan c -> c_nreaddir c1 = c_nreaddir c ->
                  c_nopen c1 = c_nopen c -> c_nread c1 = c_nread c ->
                  gc_loop c1 (g :: rest') refd = (c', files', Ok tt) ->
                  exists dropped,
                    f :: g :: rest' = dropped ++ files' /\
                    Forall (fun f => refd f = false) dropped /\
                    gc_tight refd (f :: g :: rest') files' /\
                    c_ev c' = unlink_events dropped ++ c_ev c /\
                    c_fs c' = remove_files (c_fs c) dropped /\
                    c_plan c' = c_plan c /\ c_nreaddir c' = c_nreaddir c /\
                    c_nopen c' = c_nopen c /\ c_nread c' = c_nread c).
        { intros c1 Hev Hfs Hp Hrd Hop Hre H. apply IH in H.
          destruct H as [dr [Hd [Hf [Ht [He [Hs [H1 [H2 [H3 H4]]]]]]]]].
          exists (f :: dr). split; [cbn [app]; now rewrite Hd|].
          split; [constructor; assumption|].
          split.
          { unfold gc_tight in *. destruct files' as [|a [|b r]]; [discriminate|exact I|exact Ht]. }
          split.
          { rewrite He, Hev. unfold unlink_events. cbn [map rev]. now rewrite <- app_assoc. }
          split; [rewrite Hs, Hfs; reflexivity|].
          repeat split; congruence. }
        destruct (fs_get (c_fs c) (filename f)) as [[b| |]|].
        -- apply Hstep; reflexivity.
        -- intros H; inversion H.
        -- apply Hstep; reflexivity.
        -- intros H; inversion H.
Qed.

(* whatever the result, what is left is a suffix of the tracker, the dropped files were all
   unreferenced, and a non-empty tracker stays non-empty *)
Theorem gc_loop_suffix : forall files c refd c' files' r,
  gc_loop c files refd = (c', files', r) ->
  exists dropped,
    files = dropped ++ files' /\
    Forall (fun f => refd f = false) dropped /\
    (files <> [] -> files' <> []).
Proof.
  induction files as [|f rest IH]; intros c refd c' files' r; cbn [gc_loop].
  - intros H; inversion H; subst. exists []. repeat split; [constructor|auto].
  - destruct rest as [|g rest'].
    + intros H; inversion H; subst. exists []. repeat split; [constructor|auto].
    + destruct (refd f) eqn:Ef.
      * intros H; inversion H; subst. exists []. repeat split; [constructor|auto].
      * assert (Hone : exists dropped, f :: g :: rest' = dropped ++ g :: rest' /\
                         Forall (fun f => refd f = false) dropped /\
                         (f :: g :: rest' <> [] -> g :: rest' <> [])).
        { exists [f]. repeat split; [constructor; [exact Ef|constructor]|discriminate]. }
        assert (Hstep : forall c1, gc_loop c1 (g :: rest') refd = (c', files', r) ->
                  exists dropped, f :: g :: rest' = dropped ++ files' /\
                    Forall (fun f => refd f = false) dropped /\
                    (f :: g :: rest' <> [] -> files' <> [])).
        { intros c1 H. apply IH in H. destruct H as [dr [Hd [Hf Hn]]].
          exists (f :: dr). split; [cbn [app]; now rewrite Hd|].
          split; [constructor; assumption|]. intros _. apply Hn. discriminate. }
        destruct (fs_get (c_fs c) (filename f)) as [[b| |]|].
        -- apply Hstep.
        -- intros H; inversion H; subst. exact Hone.
        -- apply Hstep.
        -- intros H; inversion H; subst. exact Hone.
Qed.

Corollary gc_loop_err_suffix files c refd c' files' e :
  gc_loop c files refd = (c', files', Err e) -> exists dropped, files = dropped ++ files'.
Proof. intros H. apply gc_loop_suffix in H. destruct H as [d [H _]]. now exists d. Qed.

(* ================================================================ (2) the tracker invariant *)

(* y1 = lo+1, y2 = lo+2, ... *)
Fixpoint chain (lo : N) (l : list N) : Prop :=
  match l with [] => True | y :: r => y = lo + 1 /\ chain y r end.

(* consecutive numbers lo, lo+1, ..., hi; non-empty *)
Definition contiguous (files : list N) : Prop :=
  match files with [] => False | lo :: r => chain lo r end.

(* the run of files ends at the file being written *)
Definition wr_ok (w : rwriter) : Prop :=
  contiguous (w_files w) /\ last_opt (w_files w) = Some (w_file w).

(* the same thing, explicitly *)
Fixpoint iota (lo : N) (n : nat) : list N :=
  match n with O => [] | S k => lo :: iota (lo + 1) k end.

Lemma chain_iota : forall r lo, chain lo r <-> r = iota (lo + 1) (length r).
Proof.
  induction r as [|y r IH]; intros lo; cbn [chain length iota].
  - split; auto.
  - split.
    + intros [Hy Hc]. subst y. f_equal. now apply IH.
    + intros H. injection H as Hy Hr. split; [exact Hy|]. apply IH. now rewrite <- Hy in Hr.
Qed.

Lemma contiguous_iota files :
  contiguous files <-> exists lo n, files = iota lo (S n).
Proof.
  split.
  - destruct files as [|lo r]; [intros []|]. cbn [contiguous]. intros H.
    exists lo, (length r). cbn [iota]. f_equal. now apply chain_iota.
  - intros [lo [n H]]. subst files. cbn [iota contiguous]. apply chain_iota.
    f_equal. clear. generalize (lo + 1). induction n as [|n IH]; intros a; cbn [iota length]; [reflexivity|].
    now rewrite <- IH.
Qed.

Lemma last_opt_cons2 {A} (x y : A) r : last_opt (x :: y :: r) = last_opt (y :: r).
Proof. reflexivity. Qed.

Lemma last_opt_cons_ne {A} (x : A) l : l <> [] -> last_opt (x :: l) = last_opt l.
Proof. destruct l; [congruence|reflexivity]. Qed.

(* every tracked file lies between the first and the last *)
Lemma chain_bounds : forall r lo hi,
  chain lo r -> last_opt (lo :: r) = Some hi ->
  lo <= hi /\ forall x, In x (lo :: r) -> lo <= x /\ x <= hi.
Proof.
  induction r as [|y r IH]; intros lo hi Hc Hl.
  - cbn in Hl. injection Hl as Hl. subst hi. split; [lia|].
    intros x [Hx|[]]. subst x. lia.
  - cbn [chain] in Hc. destruct Hc as [Hy Hc]. rewrite last_opt_cons2 in Hl.
    destruct (IH y hi Hc Hl) as [Hle Hin]. split; [lia|].
    intros x [Hx|Hx]; [subst x; lia|]. specialize (Hin x Hx). lia.
Qed.

Lemma chain_length : forall r lo hi,
  chain lo r -> last_opt (lo :: r) = Some hi -> lenN (lo :: r) = hi - lo + 1 /\ lo <= hi.
Proof.
  induction r as [|y r IH]; intros lo hi Hc Hl.
  - cbn in Hl. injection Hl as Hl. subst hi. rewrite lenN_cons, lenN_nil. lia.
  - cbn [chain] in Hc. destruct Hc as [Hy Hc]. rewrite last_opt_cons2 in Hl.
    destruct (IH y hi Hc Hl) as [Hlen Hle]. rewrite lenN_cons, Hlen. lia.
Qed.

Lemma tracker_next_none : forall files cur,
  (forall x, In x files -> x <= cur) -> tracker_next files cur = None.
Proof.
  induction files as [|x r IH]; intros cur H; cbn [tracker_next]; [reflexivity|].
  destruct (N.ltb_spec cur x) as [Hlt|Hge].
  - specialize (H x (or_introl eq_refl)). lia.
  - apply IH. intros y Hy. apply H. now right.
Qed.

Lemma insert_sorted_last : forall r lo hi,
  chain lo r -> last_opt (lo :: r) = Some hi ->
  insert_sorted (hi + 1) (lo :: r) = (lo :: r) ++ [hi + 1].
Proof.
  induction r as [|y r IH]; intros lo hi Hc Hl.
  - cbn in Hl. injection Hl as Hl. subst hi. cbn [insert_sorted app].
    destruct (N.ltb_spec (lo + 1) lo) as [H|_]; [lia|].
    destruct (N.eqb_spec (lo + 1) lo) as [H|_]; [lia|]. reflexivity.
  - destruct (chain_bounds _ _ _ Hc Hl) as [Hle _].
    cbn [chain] in Hc. destruct Hc as [Hy Hc]. rewrite last_opt_cons2 in Hl.
    specialize (IH y hi Hc Hl).
    change (insert_sorted (hi + 1) (lo :: y :: r))
      with (if hi + 1 <? lo then hi + 1 :: lo :: y :: r
            else if hi + 1 =? lo then lo :: y :: r else lo :: insert_sorted (hi + 1) (y :: r)).
    destruct (N.ltb_spec (hi + 1) lo) as [H|_]; [lia|].
    destruct (N.eqb_spec (hi + 1) lo) as [H|_]; [lia|].
    rewrite IH. reflexivity.
Qed.

Lemma chain_snoc : forall r lo hi,
  chain lo r -> last_opt (lo :: r) = Some hi -> chain lo (r ++ [hi + 1]).
Proof.
  induction r as [|y r IH]; intros lo hi Hc Hl.
  - cbn in Hl. injection Hl as Hl. subst hi. cbn. auto.
  - cbn [chain] in Hc. destruct Hc as [Hy Hc]. rewrite last_opt_cons2 in Hl.
    cbn [app chain]. split; [exact Hy|]. now apply IH.
Qed.

Lemma chain_contiguous lo l : chain lo l -> l <> [] -> contiguous l.
Proof. destruct l as [|y r]; [congruence|]. cbn [chain contiguous]. now intros [_ H] _. Qed.

(* a non-empty suffix of a contiguous run is contiguous and ends at the same file *)
Lemma contiguous_suffix : forall d l,
  contiguous (d ++ l) -> l <> [] -> contiguous l /\ last_opt (d ++ l) = last_opt l.
Proof.
  induction d as [|a d IH]; intros l Hc Hl; cbn [app] in *; [auto|].
  cbn [contiguous] in Hc.
  assert (Hne : d ++ l <> []).
  { destruct d; cbn [app]; [exact Hl|discriminate]. }
  apply chain_contiguous in Hc; [|exact Hne].
  destruct (IH l Hc Hl) as [H1 H2]. split; [exact H1|].
  rewrite last_opt_cons_ne by exact Hne. exact H2.
Qed.

Lemma wr_ok_tracker_next w : wr_ok w -> tracker_next (w_files w) (w_file w) = None.
Proof.
  intros [Hc Hl]. apply tracker_next_none. destruct (w_files w) as [|lo r]; [intros x []|].
  cbn [contiguous] in Hc. destruct (chain_bounds _ _ _ Hc Hl) as [_ H].
  intros x Hx. now apply H.
Qed.

Lemma wr_ok_roll files cur :
  contiguous files -> last_opt files = Some cur ->
  contiguous (insert_sorted (cur + 1) files) /\
  last_opt (insert_sorted (cur + 1) files) = Some (cur + 1).
Proof.
  intros Hc Hl. destruct files as [|lo r]; [destruct Hc|]. cbn [contiguous] in Hc.
  rewrite (insert_sorted_last _ _ _ Hc Hl). split.
  - cbn [app contiguous]. now apply chain_snoc.
  - apply last_opt_app.
Qed.

(* wr_ok only looks at the tracker *)
Lemma wr_ok_same w w' :
  w_files w' = w_files w -> w_file w' = w_file w -> wr_ok w -> wr_ok w'.
Proof. unfold wr_ok. intros -> ->. auto. Qed.

(* ---------------------------------------------------------------- generic writer *)
Section GenericRel.
Variable P : params.
Variable W : Type.
Variable wwrite : W -> bytes -> W * res unit.
Variable wrem : W -> N.
Variable R : W -> W -> Prop.
Hypothesis R_refl : forall w, R w w.
Hypothesis R_trans : forall a b c, R a b -> R b c -> R a c.
Hypothesis wwrite_R : forall w d w' r, wwrite w d = (w', r) -> R w w'.

Lemma write_frame_rel w t p w' r :
  write_frame P W wwrite wrem w t p = (w', r) -> R w w'.
Proof.
  unfold write_frame.
  destruct (N.ltb_spec (wrem w) HEADER_LEN) as [Hlt|Hge].
  - destruct (wwrite w (zerosN (wrem w))) as [w1 [[]|e]] eqn:E1.
    + destruct (wwrite w1 (frame_bytes P t p)) as [w2 [[]|e]] eqn:E2;
        intros H; inversion H; subst; clear H;
        apply wwrite_R in E1; apply wwrite_R in E2; eapply R_trans; eassumption.
    + intros H; inversion H; subst. eapply wwrite_R; eassumption.
  - destruct (wwrite w (frame_bytes P t p)) as [w2 [[]|e]] eqn:E2;
      intros H; inversion H; subst; clear H; eapply wwrite_R; eassumption.
Qed.

Lemma write_record_loop_rel fuel : forall w isf payload acc w' r,
  write_record_loop P W wwrite wrem fuel w isf payload acc = (w', r) -> R w w'.
Proof.
  induction fuel as [|fuel IH]; intros w isf payload acc w' r; cbn [write_record_loop].
  - intros H; inversion H; subst. apply R_refl.
  - destruct (write_frame P W wwrite wrem w _ _) as [w1 [k|e]] eqn:E; apply write_frame_rel in E.
    + destruct (isnil (dropN _ payload)).
      * intros H; inversion H; subst. exact E.
      * intros H. apply IH in H. eapply R_trans; eassumption.
    + intros H; inversion H; subst. exact E.
Qed.

(* any reflexive-transitive relation established by every block write holds across
   write_record, whatever its result *)
Theorem write_record_rel w payload w' r :
  write_record P W wwrite wrem w payload = (w', r) -> R w w'.
Proof. unfold write_record. apply write_record_loop_rel. Qed.
End GenericRel.

(* in particular: an invariant of the block writer *)
Theorem write_record_inv P W wwrite wrem (Inv : W -> Prop) :
  (forall w d w' r, wwrite w d = (w', r) -> Inv w -> Inv w') ->
  forall w payload w' r,
    write_record P W wwrite wrem w payload = (w', r) -> Inv w -> Inv w'.
Proof.
  intros Hw w payload w' r H.
  apply (write_record_rel P W wwrite wrem (fun a b => Inv a -> Inv b)) with (1 := fun a h => h)
    (4 := H); [intros a b c H1 H2 Ha; auto|exact Hw].
Qed.

(* ---------------------------------------------------------------- rolling writer *)
Section Rolling.
Variable P : params.

(* w' has the same tracker and current file as w *)
Definition same_tracker (w w' : rwriter) : Prop :=
  w_files w' = w_files w /\ w_file w' = w_file w.

Lemma same_tracker_refl w : same_tracker w w.
Proof. split; reflexivity. Qed.

Lemma same_tracker_trans a b c : same_tracker a b -> same_tracker b c -> same_tracker a c.
Proof. unfold same_tracker. intros [H1 H2] [H3 H4]. split; congruence. Qed.

Lemma flush_buf_tracker w : same_tracker w (flush_buf w).
Proof. unfold flush_buf. destruct (w_pending w); split; reflexivity. Qed.

Lemma bw_flush_tracker w : same_tracker w (bw_flush w).
Proof.
  unfold bw_flush, wr_ctx. destruct (flush_buf_tracker w) as [H1 H2].
  split; cbn [w_files w_file]; assumption.
Qed.

Lemma sync_data_tracker w : same_tracker w (sync_data w).
Proof. split; reflexivity. Qed.

Lemma sync_dir_tracker w : same_tracker w (sync_dir w).
Proof. split; reflexivity. Qed.

Lemma presync_tracker w : same_tracker w (sync_dir (sync_data (bw_flush w))).
Proof.
  eapply same_tracker_trans; [apply bw_flush_tracker|].
  eapply same_tracker_trans; [apply sync_data_tracker|apply sync_dir_tracker].
Qed.

Lemma wr_persist_tracker w a : same_tracker w (wr_persist w a).
Proof. unfold wr_persist. destruct a; [apply presync_tracker|apply bw_flush_tracker]. Qed.

Lemma bw_write_all_tracker w d : same_tracker w (bw_write_all P w d).
Proof.
  unfold bw_write_all, bw_write_all0.
  destruct (lenN d <? BS P - lenN (w_pending w)); [split; reflexivity|].
  set (w1 := if BS P - lenN (w_pending w) <? lenN d then flush_buf w else w).
  assert (H1 : same_tracker w w1).
  { unfold w1. destruct (_ <? _); [apply flush_buf_tracker|apply same_tracker_refl]. }
  destruct H1 as [H1 H2].
  destruct (BS P <=? lenN d); split; cbn [w_files w_file]; assumption.
Qed.

Lemma same_tracker_ok w w' : same_tracker w w' -> wr_ok w -> wr_ok w'.
Proof. intros [H1 H2]. now apply wr_ok_same. Qed.

(* what one block write does to the tracker: the invariant is kept (also on failure) and the
   current file number never decreases *)
Definition wr_step (w w' : rwriter) : Prop :=
  wr_ok w -> wr_ok w' /\ w_file w <= w_file w'.

Lemma wr_step_refl w : wr_step w w.
Proof. intros H. split; [exact H|lia]. Qed.

Lemma wr_step_trans a b c : wr_step a b -> wr_step b c -> wr_step a c.
Proof.
  unfold wr_step. intros H1 H2 Ha. destruct (H1 Ha) as [Hb Hab].
  destruct (H2 Hb) as [Hc Hbc]. split; [exact Hc|lia].
Qed.

Lemma same_tracker_step w w' : same_tracker w w' -> wr_step w w'.
Proof.
  intros Hs Hok. split; [eapply same_tracker_ok; eassumption|].
  destruct Hs as [_ Hs]. rewrite Hs. lia.
Qed.

Lemma wr_write_step w d w' r : wr_write P w d = (w', r) -> wr_step w w'.
Proof.
  unfold wr_write. destruct d as [|b d'] eqn:Ed.
  - intros H; inversion H; subst. apply wr_step_refl.
  - rewrite <- Ed. clear Ed b d'.
    set (w1 := sync_dir (sync_data (bw_flush w))).
    pose proof (presync_tracker w) as Hw1. fold w1 in Hw1. clearbody w1.
    destruct (FILE_BYTES P <? w_off w + lenN d).
    + intros H Hok.
      assert (Hok1 : wr_ok w1) by (eapply same_tracker_ok; eassumption).
      destruct Hw1 as [Hfs Hf].
      rewrite (wr_ok_tracker_next _ Hok1) in H.
      destruct (create_file P (w_ctx w1) (w_file w1 + 1)) as [c [[]|e]];
        inversion H; subst; clear H.
      * destruct (bw_write_all_tracker
                    (mkWr c (insert_sorted (w_file w1 + 1) (w_files w1)) (w_file w1 + 1) 0 []) d)
          as [H1 H2].
        cbn [w_files w_file] in H1, H2. destruct Hok1 as [Hc Hl].
        destruct (wr_ok_roll _ _ Hc Hl) as [Hc' Hl'].
        split; [|rewrite H2; lia].
        unfold wr_ok. rewrite H1, H2. split; assumption.
      * split; [|cbn [w_file]; lia].
        eapply wr_ok_same; [| |exact Hok1]; reflexivity.
    + intros H; inversion H; subst. apply same_tracker_step. apply bw_write_all_tracker.
Qed.

(* the requested forms *)
Theorem wr_write_ok w d w' r : wr_write P w d = (w', r) -> wr_ok w -> wr_ok w'.
Proof. intros H Hok. now destruct (wr_write_step _ _ _ _ H Hok). Qed.

Theorem wr_write_file_mono w d w' r :
  wr_write P w d = (w', r) -> wr_ok w -> w_file w <= w_file w'.
Proof. intros H Hok. now destruct (wr_write_step _ _ _ _ H Hok). Qed.

(* on a failed block write the tracker is exactly as it was (fix "untrack a file that could
   not be created") *)
Theorem wr_write_err_tracker w d w' e :
  wr_write P w d = (w', Err e) -> wr_ok w -> same_tracker w w'.
Proof.
  unfold wr_write. destruct d as [|b d'] eqn:Ed; [discriminate|].
  rewrite <- Ed. clear Ed b d'.
  set (w1 := sync_dir (sync_data (bw_flush w))).
  pose proof (presync_tracker w) as Hw1. fold w1 in Hw1. clearbody w1.
  destruct (FILE_BYTES P <? w_off w + lenN d); [|discriminate].
  intros H Hok.
  assert (Hok1 : wr_ok w1) by (eapply same_tracker_ok; eassumption).
  rewrite (wr_ok_tracker_next _ Hok1) in H.
  destruct (create_file P (w_ctx w1) (w_file w1 + 1)) as [c [[]|e']]; inversion H; subst.
  destruct Hw1 as [H1 H2]. split; cbn [w_files w_file]; assumption.
Qed.

Theorem wr_persist_ok w a : wr_ok w -> wr_ok (wr_persist w a).
Proof. apply same_tracker_ok. apply wr_persist_tracker. Qed.

Lemma write_record_wr_step w payload w' r :
  write_record P rwriter (wr_write P) (wr_rem P) w payload = (w', r) -> wr_step w w'.
Proof.
  apply (write_record_rel P rwriter (wr_write P) (wr_rem P) wr_step
           wr_step_refl wr_step_trans wr_write_step).
Qed.

Theorem write_record_wr_ok w payload w' r :
  write_record P rwriter (wr_write P) (wr_rem P) w payload = (w', r) -> wr_ok w -> wr_ok w'.
Proof. intros H Hok. now destruct (write_record_wr_step _ _ _ _ H Hok). Qed.

(* GC keeps the invariant, whatever its result and whatever `refd` is: it always leaves at
   least one file, and what it leaves is a suffix of the tracker *)
Theorem gc_loop_wr_ok w refd c files r :
  gc_loop (w_ctx w) (w_files w) refd = (c, files, r) ->
  wr_ok w -> wr_ok (mkWr c files (w_file w) (w_off w) (w_pending w)).
Proof.
  intros H [Hc Hl]. apply gc_loop_suffix in H. destruct H as [d [Hd [_ Hne]]].
  assert (Hn : w_files w <> []) by (destruct (w_files w); [destruct Hc|discriminate]).
  specialize (Hne Hn). rewrite Hd in Hc, Hl.
  destruct (contiguous_suffix _ _ Hc Hne) as [H1 H2].
  unfold wr_ok. cbn [w_files w_file]. split; [exact H1|congruence].
Qed.

(* ---------------------------------------------------------------- the API *)
Definition st_step (st st' : state) : Prop := wr_step (s_wr st) (s_wr st').

Lemma write_entry_step st e st' r : write_entry P st e = (st', r) -> st_step st st'.
Proof.
  unfold write_entry, st_step.
  destruct (write_record P rwriter (wr_write P) (wr_rem P) (s_wr st) (entry_ser e)) as [w r0] eqn:E.
  intros H; inversion H; subst; clear H. cbn [set_wr s_wr].
  eapply write_record_wr_step; eassumption.
Qed.

Lemma write_entry_qs st e st' r : write_entry P st e = (st', r) -> s_qs st' = s_qs st.
Proof.
  unfold write_entry.
  destruct (write_record P rwriter (wr_write P) (wr_rem P) (s_wr st) (entry_ser e)) as [w r0].
  intros H; inversion H; subst. reflexivity.
Qed.

Lemma persist_step st a : st_step st (persist st a).
Proof. unfold st_step, persist. cbn [set_wr s_wr]. apply same_tracker_step, wr_persist_tracker. Qed.

Lemma persist_on_policy_tracker st tick :
  same_tracker (s_wr st) (s_wr (persist_on_policy st tick)) /\
  s_qs (persist_on_policy st tick) = s_qs st.
Proof.
  unfold persist_on_policy, persist.
  destruct (s_pol st) as [|a|a]; [split; [apply same_tracker_refl|reflexivity]| |].
  - destruct tick; cbn [set_wr s_wr s_qs];
      (split; [first [apply wr_persist_tracker|apply same_tracker_refl]|reflexivity]).
  - cbn [set_wr s_wr s_qs]. split; [apply wr_persist_tracker|reflexivity].
Qed.

Lemma persist_on_policy_step st tick : st_step st (persist_on_policy st tick).
Proof. apply same_tracker_step. apply persist_on_policy_tracker. Qed.

Lemma st_step_refl st : st_step st st.
Proof. apply wr_step_refl. Qed.

Lemma st_step_trans a b c : st_step a b -> st_step b c -> st_step a c.
Proof. apply wr_step_trans. Qed.

Lemma record_positions_step names : forall st acc st' r,
  record_positions P st names acc = (st', r) -> st_step st st' /\ s_qs st' = s_qs st.
Proof.
  induction names as [|nm rr IH]; intros st acc st' r; cbn [record_positions].
  - intros H; inversion H; subst. split; [apply st_step_refl|reflexivity].
  - destruct (qs_get (s_qs st) nm) as [q|]; [|apply IH].
    destruct (write_entry P st (EPosition nm (next_position q))) as [st1 [k|e]] eqn:E;
      pose proof (write_entry_step _ _ _ _ E) as E1; apply write_entry_qs in E.
    + intros H. apply IH in H. destruct H as [H1 H2].
      split; [eapply st_step_trans; eassumption|congruence].
    + intros H; inversion H; subst. split; assumption.
Qed.

Lemma record_empty_step st hint st' r :
  record_empty_queues_position P st hint = (st', r) -> st_step st st' /\ s_qs st' = s_qs st.
Proof.
  unfold record_empty_queues_position.
  destruct (record_positions P st _ 0) as [st1 [k|e]] eqn:E; apply record_positions_step in E;
    destruct E as [E1 E2].
  - destruct (L_GC P && (k =? 0)); intros H; inversion H; subst; clear H.
    + split; assumption.
    + split; [eapply st_step_trans; [exact E1|apply persist_step]|exact E2].
  - intros H; inversion H; subst. split; assumption.
Qed.

Lemma run_gc_step st hint st' r :
  run_gc_if_necessary P st hint = (st', r) ->
  wr_ok (s_wr st) ->
  wr_ok (s_wr st') /\ w_file (s_wr st) <= w_file (s_wr st') /\ s_qs st' = s_qs st.
Proof.
  unfold run_gc_if_necessary. destruct (has_deletable st).
  - destruct (record_empty_queues_position P st hint) as [st1 [n|e]] eqn:E;
      apply record_empty_step in E; destruct E as [E1 E2].
    + destruct (gc_loop _ _ _) as [[c files] rr] eqn:G. intros H Hok.
      destruct (E1 Hok) as [Hok1 Hle].
      pose proof (gc_loop_wr_ok _ _ _ _ _ G Hok1) as Hok2.
      destruct rr as [[]|e]; inversion H; subst; clear H; cbn [set_wr s_wr s_qs w_file];
        (split; [exact Hok2|split; [exact Hle|exact E2]]).
    + intros H Hok; inversion H; subst. destruct (E1 Hok) as [Hok1 Hle].
      split; [exact Hok1|split; [exact Hle|exact E2]].
  - intros H Hok; inversion H; subst. split; [exact Hok|split; [lia|reflexivity]].
Qed.

(* both at once: the invariant is kept by every call, and the file being written only moves
   forward *)
Lemma step_wr_step st o tick : st_step st (fst (step P st o tick)).
Proof.
  intros Hok.
  destruct o as [q|q hint|q pos payloads|q p hint|a]; cbn [step].
  - unfold create_queue. destruct (qs_contains (s_qs st) q); [cbn [fst]; split; [exact Hok|lia]|].
    destruct (write_entry P st (EPosition q 0)) as [st1 [k|e]] eqn:E;
      apply write_entry_step in E; destruct (E Hok) as [Hok1 Hle]; cbn [fst].
    + cbn [set_qs s_wr]. destruct (persist_step st1 true Hok1) as [H1 H2]. split; [exact H1|lia].
    + split; assumption.
  - unfold delete_queue. destruct (qs_get (s_qs st) q) as [m|]; [|cbn [fst]; split; [exact Hok|lia]].
    destruct (write_entry P st _) as [st1 [k|e]] eqn:E;
      apply write_entry_step in E; destruct (E Hok) as [Hok1 Hle]; [|cbn [fst]; split; assumption].
    destruct (run_gc_if_necessary P _ hint) as [st3 [k2|e]] eqn:G;
      apply run_gc_step in G; try exact Hok1; destruct G as [Hok3 [Hle3 _]];
      cbn [set_qs s_wr] in Hle3; cbn [fst].
    + destruct (persist_step st3 true Hok3) as [H1 H2]. split; [exact H1|lia].
    + split; [exact Hok3|lia].
  - unfold append_records. destruct (qs_get (s_qs st) q) as [m|]; [|cbn [fst]; split; [exact Hok|lia]].
    destruct (match pos with Some p => _ | None => None end) as [early|];
      [cbn [fst]; split; [exact Hok|lia]|].
    destruct (number_from _ payloads) as [|r0 rs]; [cbn [fst]; split; [exact Hok|lia]|].
    destruct (write_entry P st _) as [st1 [k|e]] eqn:E;
      apply write_entry_step in E; destruct (E Hok) as [Hok1 Hle]; [|cbn [fst]; split; assumption].
    destruct (persist_on_policy_step st1 tick Hok1) as [H1 H2].
    destruct (append_all m _ _) as [m'|]; cbn [fst set_qs s_wr]; (split; [exact H1|lia]).
  - unfold truncate. destruct (qs_get (s_qs st) q) as [m|]; [|cbn [fst]; split; [exact Hok|lia]].
    destruct (write_entry P st _) as [st1 [k|e]] eqn:E;
      apply write_entry_step in E; destruct (E Hok) as [Hok1 Hle]; [|cbn [fst]; split; assumption].
    destruct (truncate_head m p) as [m' ev].
    destruct (run_gc_if_necessary P _ hint) as [st3 [k2|e]] eqn:G;
      apply run_gc_step in G; try exact Hok1; destruct G as [Hok3 [Hle3 _]];
      cbn [set_qs s_wr] in Hle3; cbn [fst].
    + destruct (persist_on_policy_step st3 tick Hok3) as [H1 H2]. split; [exact H1|lia].
    + split; [exact Hok3|lia].
  - cbn [fst]. apply persist_step. exact Hok.
Qed.

Theorem step_wr_ok st o tick : wr_ok (s_wr st) -> wr_ok (s_wr (fst (step P st o tick))).
Proof. intros Hok. now destruct (step_wr_step st o tick Hok). Qed.

Theorem step_file_mono st o tick :
  wr_ok (s_wr st) -> w_file (s_wr st) <= w_file (s_wr (fst (step P st o tick))).
Proof. intros Hok. now destruct (step_wr_step st o tick Hok). Qed.
End Rolling.

(* ================================================================ (3) tightness *)
Section Tight.
Variable P : params.

(* the oldest tracked file is the one being written, or is referenced by a retained record, or
   is not older than g *)
Definition tight_from (g : N) (st : state) : Prop :=
  exists lo, hd_error (w_files (s_wr st)) = Some lo /\
    (lo = w_file (s_wr st) \/ qs_ref lo (s_qs st) = true \/ g <= lo).

Lemma tight_from_mono g1 g2 st : g1 <= g2 -> tight_from g2 st -> tight_from g1 st.
Proof.
  intros Hg [lo [Hh Ht]]. exists lo. split; [exact Hh|].
  destruct Ht as [Ht|[Ht|Ht]]; [now left|now right; left|right; right; lia].
Qed.

Lemma tight_from_same g st st' :
  same_tracker (s_wr st) (s_wr st') -> s_qs st' = s_qs st -> tight_from g st -> tight_from g st'.
Proof.
  intros [H1 H2] H3 [lo [Hh Ht]]. exists lo. rewrite H1, H2, H3. split; assumption.
Qed.

Lemma referenced_cases st guard f :
  referenced st guard f = true ->
  f = w_file (s_wr st) \/ qs_ref f (s_qs st) = true \/ f = guard.
Proof.
  unfold referenced. intros H.
  apply orb_true_iff in H. destruct H as [H|H]; [|now right; left].
  apply orb_true_iff in H. destruct H as [H|H].
  - right; right. now apply N.eqb_eq.
  - left. now apply N.eqb_eq.
Qed.

(* a successful GC pass leaves a tight file set: relative to the file the writer was in when
   the pass started *)
Lemma run_gc_tight st hint st' n :
  run_gc_if_necessary P st hint = (st', Ok n) -> wr_ok (s_wr st) ->
  tight_from (w_file (s_wr st)) st'.
Proof.
  unfold run_gc_if_necessary. destruct (has_deletable st) eqn:Hdel.
  - destruct (record_empty_queues_position P st hint) as [st1 [n0|e]] eqn:E; [|discriminate].
    apply record_empty_step in E. destruct E as [E1 E2].
    destruct (gc_loop _ _ _) as [[c files] [[]|e]] eqn:G; [|discriminate].
    intros H Hok. inversion H; subst; clear H.
    destruct (E1 Hok) as [Hok1 Hle].
    pose proof (gc_loop_wr_ok _ _ _ _ _ G Hok1) as [Hc Hl]. cbn [w_files w_file] in Hc, Hl.
    apply gc_loop_ok in G. destruct G as [dr [_ [_ [Ht _]]]].
    unfold tight_from. cbn [set_wr s_wr s_qs w_files w_file].
    destruct files as [|a [|b r]].
    + destruct Hc.
    + exists a. split; [reflexivity|]. left. cbn in Hl. congruence.
    + exists a. split; [reflexivity|]. cbn [gc_tight] in Ht.
      apply referenced_cases in Ht. destruct Ht as [Ht|[Ht|Ht]];
        [now left|now right; left|right; right; lia].
  - intros H Hok. inversion H; subst; clear H. destruct Hok as [Hc Hl].
    unfold has_deletable in Hdel. unfold tight_from.
    destruct (w_files (s_wr st')) as [|a [|b r]].
    + destruct Hc.
    + exists a. split; [reflexivity|]. left. cbn in Hl. congruence.
    + exists a. split; [reflexivity|]. apply negb_false_iff in Hdel.
      apply referenced_cases in Hdel. destruct Hdel as [Ht|[Ht|Ht]];
        [now left|now right; left|right; right; lia].
Qed.

Theorem truncate_tight st q p hint tick st' ev n :
  wr_ok (s_wr st) -> truncate P st q p hint tick = (st', OutTruncate ev n) ->
  tight_from (w_file (s_wr st)) st'.
Proof.
  intros Hok. unfold truncate. destruct (qs_get (s_qs st) q) as [m|]; [|discriminate].
  destruct (write_entry P st _) as [st1 [k|e]] eqn:E; [|discriminate].
  apply write_entry_step in E. destruct (E Hok) as [Hok1 Hle].
  destruct (truncate_head m p) as [m' ev'].
  destruct (run_gc_if_necessary P _ hint) as [st3 [k2|e]] eqn:G; [|discriminate].
  intros H; inversion H; subst; clear H.
  apply run_gc_tight in G; [|exact Hok1]. cbn [set_qs s_wr] in G.
  eapply tight_from_mono; [exact Hle|].
  eapply tight_from_same; [| |exact G]; apply persist_on_policy_tracker.
Qed.

Theorem delete_queue_tight st q hint st' n :
  wr_ok (s_wr st) -> delete_queue P st q hint = (st', OutDelete n) ->
  tight_from (w_file (s_wr st)) st'.
Proof.
  intros Hok. unfold delete_queue. destruct (qs_get (s_qs st) q) as [m|]; [|discriminate].
  destruct (write_entry P st _) as [st1 [k|e]] eqn:E; [|discriminate].
  apply write_entry_step in E. destruct (E Hok) as [Hok1 Hle].
  destruct (run_gc_if_necessary P _ hint) as [st3 [k2|e]] eqn:G; [|discriminate].
  intros H; inversion H; subst; clear H.
  apply run_gc_tight in G; [|exact Hok1]. cbn [set_qs s_wr] in G.
  eapply tight_from_mono; [exact Hle|].
  eapply tight_from_same; [| |exact G]; [apply wr_persist_tracker|reflexivity].
Qed.

(* C06: after a successful truncate / delete_queue no tracked file is older than both the oldest
   file that a retained record still references and the file that was being written when the
   call began *)
Theorem step_gc_tight st o tick st' out :
  wr_ok (s_wr st) -> step P st o tick = (st', out) ->
  ((exists q p h ev n, o = OTruncate q p h /\ out = OutTruncate ev n) \/
   (exists q h n, o = ODelete q h /\ out = OutDelete n)) ->
  exists lo, hd_error (w_files (s_wr st')) = Some lo /\
    (lo = w_file (s_wr st') \/ qs_ref lo (s_qs st') = true \/ w_file (s_wr st) <= lo).
Proof.
  intros Hok Hs [[q [p [h [ev [n [-> ->]]]]]]|[q [h [n [-> ->]]]]]; cbn [step] in Hs.
  - eapply truncate_tight; eassumption.
  - eapply delete_queue_tight; eassumption.
Qed.

(* disk usage: by definition the number of tracked files times the file size; with the
   invariant, the span from the oldest file to the one being written *)
Theorem disk_used_files st : log_disk_used P st = lenN (w_files (s_wr st)) * FILE_BYTES P.
Proof. reflexivity. Qed.

Theorem disk_used_span st lo :
  wr_ok (s_wr st) -> hd_error (w_files (s_wr st)) = Some lo ->
  lo <= w_file (s_wr st) /\
  log_disk_used P st = (w_file (s_wr st) - lo + 1) * FILE_BYTES P.
Proof.
  intros [Hc Hl] Hh. unfold log_disk_used.
  destruct (w_files (s_wr st)) as [|a r]; [discriminate|]. cbn in Hh. injection Hh as ->.
  cbn [contiguous] in Hc. destruct (chain_length _ _ _ Hc Hl) as [H1 H2].
  split; [exact H2|]. now rewrite H1.
Qed.

(* the two together, for the state after a successful truncate / delete_queue *)
Corollary step_gc_disk_used st o tick st' out :
  wr_ok (s_wr st) -> step P st o tick = (st', out) ->
  ((exists q p h ev n, o = OTruncate q p h /\ out = OutTruncate ev n) \/
   (exists q h n, o = ODelete q h /\ out = OutDelete n)) ->
  exists lo, hd_error (w_files (s_wr st')) = Some lo /\ lo <= w_file (s_wr st') /\
    log_disk_used P st' = (w_file (s_wr st') - lo + 1) * FILE_BYTES P /\
    (lo = w_file (s_wr st') \/ qs_ref lo (s_qs st') = true \/ w_file (s_wr st) <= lo).
Proof.
  intros Hok Hs Ho. destruct (step_gc_tight _ _ _ _ _ Hok Hs Ho) as [lo [Hh Ht]].
  exists lo. pose proof (step_wr_ok P st o tick Hok) as Hok'. rewrite Hs in Hok'. cbn [fst] in Hok'.
  destruct (disk_used_span _ _ Hok' Hh) as [H1 H2]. repeat split; assumption.
Qed.
End Tight.

(* ================================================================ a generic invariant of the API *)
Section StepInv.
Variable P : params.
Variable Inv : rwriter -> Prop.
Hypothesis Inv_write : forall w d w' r, wr_write P w d = (w', r) -> Inv w -> Inv w'.
Hypothesis Inv_persist : forall w a, Inv w -> Inv (wr_persist w a).
Hypothesis Inv_gc : forall w refd c files r,
  gc_loop (w_ctx w) (w_files w) refd = (c, files, r) -> Inv w ->
  Inv (mkWr c files (w_file w) (w_off w) (w_pending w)).

Lemma write_entry_inv st e st' r : write_entry P st e = (st', r) -> Inv (s_wr st) -> Inv (s_wr st').
Proof.
  unfold write_entry.
  destruct (write_record P rwriter (wr_write P) (wr_rem P) (s_wr st) (entry_ser e)) as [w r0] eqn:E.
  intros H; inversion H; subst; clear H. cbn [set_wr s_wr].
  eapply write_record_inv; [exact Inv_write|exact E].
Qed.

Lemma persist_inv st a : Inv (s_wr st) -> Inv (s_wr (persist st a)).
Proof. unfold persist. cbn [set_wr s_wr]. apply Inv_persist. Qed.

Lemma persist_on_policy_inv st tick : Inv (s_wr st) -> Inv (s_wr (persist_on_policy st tick)).
Proof.
  unfold persist_on_policy. destruct (s_pol st) as [|a|a]; [auto| |apply persist_inv].
  destruct tick; [apply persist_inv|auto].
Qed.

Lemma record_positions_inv names : forall st acc st' r,
  record_positions P st names acc = (st', r) -> Inv (s_wr st) -> Inv (s_wr st').
Proof.
  induction names as [|nm rr IH]; intros st acc st' r; cbn [record_positions].
  - intros H; inversion H; subst. auto.
  - destruct (qs_get (s_qs st) nm) as [q|]; [|apply IH].
    destruct (write_entry P st (EPosition nm (next_position q))) as [st1 [k|e]] eqn:E;
      pose proof (write_entry_inv _ _ _ _ E) as E1.
    + intros H Hi. apply IH in H; auto.
    + intros H; inversion H; subst. exact E1.
Qed.

Lemma run_gc_inv st hint st' r :
  run_gc_if_necessary P st hint = (st', r) -> Inv (s_wr st) -> Inv (s_wr st').
Proof.
  unfold run_gc_if_necessary. destruct (has_deletable st); [|intros H; inversion H; subst; auto].
  unfold record_empty_queues_position.
  destruct (record_positions P st _ 0) as [st1 [k|e]] eqn:E;
    pose proof (record_positions_inv _ _ _ _ _ E) as E1.
  - set (st2 := if L_GC P && (k =? 0) then st1 else persist st1 true).
    assert (H2 : Inv (s_wr st) -> Inv (s_wr st2)).
    { intros Hi. unfold st2. destruct (_ && _); [auto|apply persist_inv; auto]. }
    replace (if L_GC P && (k =? 0) then (st1, Ok k) else (persist st1 true, Ok k))
      with (st2, @Ok N k) by (unfold st2; destruct (_ && _); reflexivity).
    destruct (gc_loop (w_ctx (s_wr st2)) (w_files (s_wr st2)) _) as [[c files] rr] eqn:G.
    intros H Hi. apply Inv_gc in G; [|auto].
    destruct rr as [[]|e]; inversion H; subst; exact G.
  - intros H; inversion H; subst. exact E1.
Qed.

Theorem step_inv st o tick : Inv (s_wr st) -> Inv (s_wr (fst (step P st o tick))).
Proof.
  intros Hi.
  destruct o as [q|q hint|q pos payloads|q p hint|a]; cbn [step].
  - unfold create_queue. destruct (qs_contains (s_qs st) q); [exact Hi|].
    destruct (write_entry P st (EPosition q 0)) as [st1 [k|e]] eqn:E;
      pose proof (write_entry_inv _ _ _ _ E Hi) as E1; cbn [fst]; [|exact E1].
    cbn [set_qs s_wr]. now apply persist_inv.
  - unfold delete_queue. destruct (qs_get (s_qs st) q) as [m|]; [|exact Hi].
    destruct (write_entry P st _) as [st1 [k|e]] eqn:E;
      pose proof (write_entry_inv _ _ _ _ E Hi) as E1; [|exact E1].
    destruct (run_gc_if_necessary P _ hint) as [st3 [k2|e]] eqn:G;
      pose proof (run_gc_inv _ _ _ _ G E1) as G1; cbn [fst]; [|exact G1].
    now apply persist_inv.
  - unfold append_records. destruct (qs_get (s_qs st) q) as [m|]; [|exact Hi].
    destruct (match pos with Some p => _ | None => None end) as [early|]; [exact Hi|].
    destruct (number_from _ payloads) as [|r0 rs]; [exact Hi|].
    destruct (write_entry P st _) as [st1 [k|e]] eqn:E;
      pose proof (write_entry_inv _ _ _ _ E Hi) as E1; [|exact E1].
    destruct (append_all m _ _) as [m'|]; cbn [fst set_qs s_wr]; now apply persist_on_policy_inv.
  - unfold truncate. destruct (qs_get (s_qs st) q) as [m|]; [|exact Hi].
    destruct (write_entry P st _) as [st1 [k|e]] eqn:E;
      pose proof (write_entry_inv _ _ _ _ E Hi) as E1; [|exact E1].
    destruct (truncate_head m p) as [m' ev].
    destruct (run_gc_if_necessary P _ hint) as [st3 [k2|e]] eqn:G;
      pose proof (run_gc_inv _ _ _ _ G E1) as G1; cbn [fst]; [|exact G1].
    now apply persist_on_policy_inv.
  - cbn [fst]. now apply persist_inv.
Qed.
End StepInv.

(* ================================================================ (4) directory = tracker *)

Lemma fs_get_put_same fs k e : fs_get (fs_put fs k e) k = Some e.
Proof.
  induction fs as [|[n0 e0] r IH]; cbn [fs_put fs_get].
  - now rewrite bytes_eqb_refl.
  - destruct (bytes_eqb n0 k) eqn:E; cbn [fs_get]; rewrite E; [reflexivity|exact IH].
Qed.

Lemma fs_get_put_other fs k e k' : k <> k' -> fs_get (fs_put fs k e) k' = fs_get fs k'.
Proof.
  intros Hne. induction fs as [|[n0 e0] r IH]; cbn [fs_put fs_get].
  - apply bytes_eqb_neq in Hne. now rewrite Hne.
  - destruct (bytes_eqb n0 k) eqn:E; cbn [fs_get].
    + apply bytes_eqb_eq in E. subst n0. apply bytes_eqb_neq in Hne. now rewrite Hne.
    + now rewrite IH.
Qed.

Lemma fs_get_remove_same fs k : fs_get (fs_remove fs k) k = None.
Proof.
  induction fs as [|[n0 e0] r IH]; cbn [fs_remove fs_get]; [reflexivity|].
  destruct (bytes_eqb n0 k) eqn:E; cbn [fs_get]; [exact IH|]. now rewrite E.
Qed.

Lemma fs_get_remove_other fs k k' : k <> k' -> fs_get (fs_remove fs k) k' = fs_get fs k'.
Proof.
  intros Hne. induction fs as [|[n0 e0] r IH]; cbn [fs_remove fs_get]; [reflexivity|].
  destruct (bytes_eqb n0 k) eqn:E; cbn [fs_get].
  - apply bytes_eqb_eq in E. subst n0. apply bytes_eqb_neq in Hne. now rewrite Hne.
  - now rewrite IH.
Qed.

Lemma In_insert_sorted n : forall l x, In x (insert_sorted n l) <-> x = n \/ In x l.
Proof.
  induction l as [|y r IH]; intros x; cbn [insert_sorted].
  - cbn [In]. intuition.
  - destruct (N.ltb_spec n y) as [_|_]; [cbn [In]; intuition|].
    destruct (N.eqb_spec n y) as [He|_].
    + subst y. cbn [In]. intuition.
    + cbn [In]. rewrite IH. intuition.
Qed.

Lemma last_opt_In {A} (l : list A) x : last_opt l = Some x -> In x l.
Proof.
  induction l as [|a r IH]; [discriminate|]. destruct r as [|b r'].
  - cbn. intros H; injection H as ->. now left.
  - rewrite last_opt_cons2. intros H. right. now apply IH.
Qed.

Lemma chain_lb : forall r lo x, chain lo r -> In x r -> lo < x.
Proof.
  induction r as [|y r IH]; intros lo x Hc Hx; [destruct Hx|].
  cbn [chain] in Hc. destruct Hc as [Hy Hc]. destruct Hx as [Hx|Hx]; [lia|].
  specialize (IH y x Hc Hx). lia.
Qed.

(* the regular files named wal-<n> (n a u64) are exactly the tracked files *)
Definition dir_of (fs : fsT) (files : list N) : Prop :=
  forall n, n <= U64_MAX ->
    ((exists b, fs_get fs (filename n) = Some (FFile b)) <-> In n files).

Definition dir_ok (w : rwriter) : Prop := dir_of (c_fs (w_ctx w)) (w_files w).

Lemma dir_of_put fs files files' n b :
  dir_of fs files -> n <= U64_MAX ->
  (forall x, In x files' <-> x = n \/ In x files) ->
  dir_of (fs_put fs (filename n) (FFile b)) files'.
Proof.
  intros Hd Hn Hin m Hm. rewrite Hin. destruct (N.eq_dec m n) as [->|Hne].
  - rewrite fs_get_put_same. split; [now left|]. intros _. now exists b.
  - rewrite fs_get_put_other.
    + rewrite (Hd m Hm). intuition.
    + intros E. apply filename_inj in E; [congruence|assumption|assumption].
Qed.

Lemma dir_of_put_in fs files n b :
  dir_of fs files -> n <= U64_MAX -> In n files ->
  dir_of (fs_put fs (filename n) (FFile b)) files.
Proof.
  intros Hd Hn Hin. apply dir_of_put with (files := files); [exact Hd|exact Hn|].
  intros x. split; [now right|]. intros [->|H]; assumption.
Qed.

Lemma dir_of_remove fs files files' n :
  dir_of fs files -> n <= U64_MAX ->
  (forall x, In x files' <-> x <> n /\ In x files) ->
  dir_of (fs_remove fs (filename n)) files'.
Proof.
  intros Hd Hn Hin m Hm. rewrite Hin. destruct (N.eq_dec m n) as [->|Hne].
  - rewrite fs_get_remove_same. split; [intros [b Hb]; discriminate|intros [H _]; congruence].
  - rewrite fs_get_remove_other.
    + rewrite (Hd m Hm). intuition.
    + intros E. apply filename_inj in E; [congruence|assumption|assumption].
Qed.

Section Dir.
Variable P : params.

Definition cur_in (w : rwriter) : Prop := In (w_file w) (w_files w).

Lemma wr_ok_cur_in w : wr_ok w -> cur_in w.
Proof. intros [_ Hl]. now apply last_opt_In. Qed.

Lemma flush_buf_dir w :
  cur_in w -> w_file w <= U64_MAX -> dir_ok w -> dir_ok (flush_buf w).
Proof.
  intros Hin Hle Hd. unfold flush_buf. destruct (w_pending w); [exact Hd|].
  unfold dir_ok, os_write. cbn [w_ctx w_files ctx_ev ctx_fs c_fs].
  now apply dir_of_put_in.
Qed.

Lemma bw_flush_dir w :
  cur_in w -> w_file w <= U64_MAX -> dir_ok w -> dir_ok (bw_flush w).
Proof.
  intros Hin Hle Hd. pose proof (flush_buf_dir w Hin Hle Hd) as H.
  unfold bw_flush, wr_ctx, dir_ok in *. cbn [w_ctx w_files ctx_ev c_fs]. exact H.
Qed.

Lemma presync_dir w :
  cur_in w -> w_file w <= U64_MAX -> dir_ok w -> dir_ok (sync_dir (sync_data (bw_flush w))).
Proof.
  intros Hin Hle Hd. pose proof (bw_flush_dir w Hin Hle Hd) as H.
  unfold sync_dir, sync_data, wr_ctx, dir_ok in *. cbn [w_ctx w_files ctx_ev c_fs]. exact H.
Qed.

Lemma wr_persist_dir w a :
  cur_in w -> w_file w <= U64_MAX -> dir_ok w -> dir_ok (wr_persist w a).
Proof. intros Hin Hle Hd. unfold wr_persist. destruct a; [now apply presync_dir|now apply bw_flush_dir]. Qed.

Lemma bw_write_all_dir w d :
  cur_in w -> w_file w <= U64_MAX -> dir_ok w -> dir_ok (bw_write_all P w d).
Proof.
  intros Hin Hle Hd. unfold bw_write_all, bw_write_all0.
  destruct (lenN d <? BS P - lenN (w_pending w)); [exact Hd|].
  set (w1 := if BS P - lenN (w_pending w) <? lenN d then flush_buf w else w).
  assert (Hd1 : dir_ok w1).
  { unfold w1. destruct (_ <? _); [now apply flush_buf_dir|exact Hd]. }
  assert (Ht : same_tracker w w1).
  { unfold w1. destruct (_ <? _); [apply flush_buf_tracker|apply same_tracker_refl]. }
  clearbody w1. destruct Ht as [H1 H2].
  destruct (BS P <=? lenN d).
  - unfold dir_ok, os_write in *. cbn [w_ctx w_files ctx_ev ctx_fs c_fs].
    apply dir_of_put_in; [exact Hd1|congruence|]. unfold cur_in in Hin. congruence.
  - exact Hd1.
Qed.

Lemma create_file_dir c n c' files :
  create_file P c n = (c', Ok tt) -> n <= U64_MAX -> dir_of (c_fs c) files ->
  dir_of (c_fs c') (insert_sorted n files).
Proof.
  unfold create_file. destruct (fs_get (c_fs c) (filename n)); [discriminate|].
  intros H Hn Hd. inversion H; subst; clear H. cbn [ctx_ev ctx_fs c_fs].
  apply dir_of_put with (files := insert_sorted n files); [|exact Hn|].
  - apply dir_of_put with (files := files); [exact Hd|exact Hn|apply In_insert_sorted].
  - intros x. rewrite In_insert_sorted. intuition.
Qed.

Lemma create_file_err_fs c n c' e : create_file P c n = (c', Err e) -> c' = c.
Proof.
  unfold create_file. destruct (fs_get (c_fs c) (filename n)); intros H; inversion H; reflexivity.
Qed.

(* the invariant carried through the API: the tracker is a contiguous run ending at the current
   file and, as long as file numbers fit in a u64, the directory agrees with the tracker *)
Definition wd_ok (w : rwriter) : Prop := wr_ok w /\ (w_file w <= U64_MAX -> dir_ok w).

Lemma wr_write_wd_ok w d w' r : wr_write P w d = (w', r) -> wd_ok w -> wd_ok w'.
Proof.
  intros H [Hok Hdir]. destruct (wr_write_step P _ _ _ _ H Hok) as [Hok' Hmono].
  split; [exact Hok'|]. intros Hle'.
  assert (Hle : w_file w <= U64_MAX) by lia. specialize (Hdir Hle).
  pose proof (wr_ok_cur_in _ Hok) as Hin.
  revert H. unfold wr_write. destruct d as [|b d'] eqn:Ed.
  - intros H; inversion H; subst. exact Hdir.
  - rewrite <- Ed. clear Ed b d'.
    pose proof (presync_dir w Hin Hle Hdir) as Hd1.
    pose proof (presync_tracker w) as Hw1.
    set (w1 := sync_dir (sync_data (bw_flush w))) in *. clearbody w1.
    destruct (FILE_BYTES P <? w_off w + lenN d).
    + assert (Hok1 : wr_ok w1) by (eapply same_tracker_ok; eassumption).
      destruct Hw1 as [Hfs Hf].
      rewrite (wr_ok_tracker_next _ Hok1).
      destruct (create_file P (w_ctx w1) (w_file w1 + 1)) as [c [[]|e]] eqn:Ec;
        intros H; inversion H; subst; clear H.
      * pose proof (bw_write_all_tracker P
                    (mkWr c (insert_sorted (w_file w1 + 1) (w_files w1)) (w_file w1 + 1) 0 []) d)
          as [_ H2].
        cbn [w_file] in H2. rewrite H2 in Hle'.
        apply bw_write_all_dir.
        -- unfold cur_in. cbn [w_file w_files]. apply In_insert_sorted. now left.
        -- exact Hle'.
        -- unfold dir_ok. cbn [w_ctx w_files]. eapply create_file_dir; eassumption.
      * apply create_file_err_fs in Ec. subst c. exact Hd1.
    + intros H; inversion H; subst. now apply bw_write_all_dir.
Qed.

Lemma wr_persist_wd_ok w a : wd_ok w -> wd_ok (wr_persist w a).
Proof.
  intros [Hok Hdir]. split; [now apply wr_persist_ok|].
  destruct (wr_persist_tracker w a) as [_ H2]. rewrite H2. intros Hle.
  apply wr_persist_dir; [now apply wr_ok_cur_in|exact Hle|auto].
Qed.

(* under dir_of every tracked file is a regular file, so the loop never fails and removes from
   the directory exactly what it removes from the tracker *)
Lemma gc_loop_dir : forall files c refd c' files' r,
  gc_loop c files refd = (c', files', r) ->
  contiguous files -> (forall x, In x files -> x <= U64_MAX) ->
  dir_of (c_fs c) files -> dir_of (c_fs c') files' /\ r = Ok tt.
Proof.
  induction files as [|f rest IH]; intros c refd c' files' r; cbn [gc_loop].
  - intros H; inversion H; subst. auto.
  - destruct rest as [|g rest'].
    + intros H; inversion H; subst. auto.
    + destruct (refd f).
      * intros H; inversion H; subst. auto.
      * intros H Hc Hb Hd.
        assert (Hf : f <= U64_MAX) by (apply Hb; now left).
        destruct (proj2 (Hd f Hf) (or_introl eq_refl)) as [b Hb'].
        rewrite Hb' in H.
        apply IH in H; [exact H| | |].
        -- cbn [contiguous chain] in *. tauto.
        -- intros x Hx. apply Hb. now right.
        -- cbn [ctx_ev ctx_fs c_fs]. apply dir_of_remove with (files := f :: g :: rest');
             [exact Hd|exact Hf|].
           intros x. cbn [contiguous] in Hc. split.
           ++ intros Hx. split; [|now right].
              pose proof (chain_lb _ _ _ Hc Hx). lia.
           ++ intros [Hne [Hx|Hx]]; [congruence|exact Hx].
Qed.

Lemma gc_loop_wd_ok w refd c files r :
  gc_loop (w_ctx w) (w_files w) refd = (c, files, r) -> wd_ok w ->
  wd_ok (mkWr c files (w_file w) (w_off w) (w_pending w)).
Proof.
  intros H [Hok Hdir]. split; [eapply gc_loop_wr_ok; eassumption|].
  cbn [w_file]. intros Hle. unfold dir_ok. cbn [w_ctx w_files].
  destruct Hok as [Hc Hl].
  eapply gc_loop_dir; [exact H|exact Hc| |now apply Hdir].
  intros x Hx. destruct (w_files w) as [|lo rr]; [destruct Hx|].
  cbn [contiguous] in Hc. destruct (chain_bounds _ _ _ Hc Hl) as [_ Hbd].
  specialize (Hbd x Hx). lia.
Qed.

Theorem step_wd_ok st o tick : wd_ok (s_wr st) -> wd_ok (s_wr (fst (step P st o tick))).
Proof.
  apply (step_inv P wd_ok wr_write_wd_ok wr_persist_wd_ok gc_loop_wd_ok).
Qed.

(* the directory agrees with the tracker after every call, as long as the number of the file
   being written still fits in a u64 *)
Theorem step_dir_ok st o tick :
  wr_ok (s_wr st) -> dir_ok (s_wr st) ->
  w_file (s_wr (fst (step P st o tick))) <= U64_MAX ->
  dir_ok (s_wr (fst (step P st o tick))).
Proof.
  intros Hok Hd Hle.
  destruct (step_wd_ok st o tick (conj Hok (fun _ => Hd))) as [_ H]. now apply H.
Qed.

(* consequently GC never fails with an I/O error in such a state *)
Theorem gc_loop_no_err w refd c files r :
  gc_loop (w_ctx w) (w_files w) refd = (c, files, r) ->
  wr_ok w -> dir_ok w -> w_file w <= U64_MAX -> r = Ok tt.
Proof.
  intros H [Hc Hl] Hd Hle.
  eapply gc_loop_dir; [exact H|exact Hc| |exact Hd].
  intros x Hx. destruct (w_files w) as [|lo rr]; [destruct Hx|].
  cbn [contiguous] in Hc. destruct (chain_bounds _ _ _ Hc Hl) as [_ Hbd].
  specialize (Hbd x Hx). lia.
Qed.
End Dir.

(* ================================================================ (4') what Directory::open would list *)
From Coq Require Import Sorted.

(* every name occurs once in the directory *)
Definition nodup_keys (fs : fsT) : Prop := NoDup (map fst fs).

Lemma In_keys_put fs k e k' :
  In k' (map fst (fs_put fs k e)) <-> k' = k \/ In k' (map fst fs).
Proof.
  induction fs as [|[n0 e0] r IH]; cbn [fs_put map fst In].
  - intuition.
  - destruct (bytes_eqb n0 k) eqn:E; cbn [map fst In].
    + apply bytes_eqb_eq in E. subst n0. intuition.
    + rewrite IH. intuition.
Qed.

Lemma nodup_keys_put fs k e : nodup_keys fs -> nodup_keys (fs_put fs k e).
Proof.
  unfold nodup_keys. induction fs as [|[n0 e0] r IH]; cbn [fs_put map fst]; intros Hn.
  - constructor; [intros []|constructor].
  - inversion Hn as [|x l Hx Hr]; subst.
    destruct (bytes_eqb n0 k) eqn:E; cbn [map fst].
    + now constructor.
    + constructor; [|now apply IH].
      rewrite In_keys_put. intros [H|H]; [|contradiction].
      subst n0. rewrite bytes_eqb_refl in E. discriminate.
Qed.

Lemma In_keys_remove fs k k' : In k' (map fst (fs_remove fs k)) -> In k' (map fst fs).
Proof.
  induction fs as [|[n0 e0] r IH]; cbn [fs_remove map fst In]; [auto|].
  destruct (bytes_eqb n0 k); cbn [map fst In]; intuition.
Qed.

Lemma nodup_keys_remove fs k : nodup_keys fs -> nodup_keys (fs_remove fs k).
Proof.
  unfold nodup_keys. induction fs as [|[n0 e0] r IH]; cbn [fs_remove map fst]; intros Hn; [exact Hn|].
  inversion Hn as [|x l Hx Hr]; subst.
  destruct (bytes_eqb n0 k); cbn [map fst]; [now apply IH|].
  constructor; [|now apply IH]. intros H. apply In_keys_remove in H. contradiction.
Qed.

Lemma fs_get_In fs k e : nodup_keys fs -> (fs_get fs k = Some e <-> In (k, e) fs).
Proof.
  unfold nodup_keys. induction fs as [|[n0 e0] r IH]; cbn [fs_get map fst In]; intros Hn.
  - split; [discriminate|intros []].
  - inversion Hn as [|x l Hx Hr]; subst. destruct (bytes_eqb n0 k) eqn:E.
    + apply bytes_eqb_eq in E. subst n0. split.
      * intros H; injection H as ->. now left.
      * intros [H|H]; [congruence|]. exfalso. apply Hx.
        change k with (fst (k, e)). now apply in_map.
    + rewrite (IH Hr). split; [now right|]. intros [H|H]; [|exact H].
      injection H as -> ->. rewrite bytes_eqb_refl in E. discriminate.
Qed.

Lemma In_list_wal_numbers fs n :
  In n (list_wal_numbers fs) <->
  exists name b, In (name, FFile b) fs /\ filename_to_position name = Some n.
Proof.
  induction fs as [|[nm e] r IH].
  - cbn. split; [intros []|intros [nm [b [[] _]]]].
  - change (list_wal_numbers ((nm, e) :: r))
      with (match e with
            | FFile _ => match filename_to_position nm with
                         | Some k => insert_sorted k (list_wal_numbers r)
                         | None => list_wal_numbers r
                         end
            | _ => list_wal_numbers r
            end).
    assert (Hskip : (forall b, e = FFile b -> filename_to_position nm <> Some n) ->
              ((exists name b, In (name, FFile b) ((nm, e) :: r) /\ filename_to_position name = Some n)
               <-> exists name b, In (name, FFile b) r /\ filename_to_position name = Some n)).
    { intros Hno. split.
      - intros [name [b [[H|H] Hp]]]; [|now exists name, b].
        injection H as -> ->. exfalso. now apply (Hno b).
      - intros [name [b [H Hp]]]. exists name, b. split; [now right|exact Hp]. }
    destruct e as [b0| |].
    + destruct (filename_to_position nm) as [k|] eqn:Ek.
      * rewrite In_insert_sorted, IH. split.
        -- intros [->|[name [b [H Hp]]]].
           ++ exists nm, b0. split; [now left|exact Ek].
           ++ exists name, b. split; [now right|exact Hp].
        -- intros [name [b [[H|H] Hp]]].
           ++ injection H as -> ->. left. congruence.
           ++ right. now exists name, b.
      * rewrite IH. symmetry. apply Hskip. intros b _. congruence.
    + rewrite IH. symmetry. apply Hskip. intros b Hb. discriminate.
    + rewrite IH. symmetry. apply Hskip. intros b Hb. discriminate.
Qed.

Lemma insert_sorted_sorted n : forall l,
  StronglySorted N.lt l -> StronglySorted N.lt (insert_sorted n l).
Proof.
  induction l as [|y r IH]; intros Hs; cbn [insert_sorted].
  - constructor; [constructor|constructor].
  - inversion Hs as [|a l Hr Hall]; subst.
    destruct (N.ltb_spec n y) as [Hlt|Hge].
    + constructor; [exact Hs|]. constructor; [exact Hlt|].
      rewrite Forall_forall in *. intros x Hx. specialize (Hall x Hx). lia.
    + destruct (N.eqb_spec n y) as [He|Hne]; [exact Hs|].
      constructor; [now apply IH|].
      rewrite Forall_forall in *. intros x Hx. apply In_insert_sorted in Hx.
      destruct Hx as [->|Hx]; [lia|now apply Hall].
Qed.

Lemma list_wal_numbers_sorted fs : StronglySorted N.lt (list_wal_numbers fs).
Proof.
  induction fs as [|[nm e] r IH]; [constructor|].
  change (list_wal_numbers ((nm, e) :: r))
    with (match e with
          | FFile _ => match filename_to_position nm with
                       | Some k => insert_sorted k (list_wal_numbers r)
                       | None => list_wal_numbers r
                       end
          | _ => list_wal_numbers r
          end).
  destruct e as [b0| |]; [|exact IH|exact IH].
  destruct (filename_to_position nm); [now apply insert_sorted_sorted|exact IH].
Qed.

Lemma chain_sorted : forall r lo, chain lo r -> StronglySorted N.lt (lo :: r).
Proof.
  induction r as [|y r IH]; intros lo Hc.
  - constructor; constructor.
  - constructor.
    + apply IH. cbn [chain] in Hc. tauto.
    + rewrite Forall_forall. intros x Hx. eapply chain_lb; eassumption.
Qed.

Lemma sorted_ext : forall l1 l2,
  StronglySorted N.lt l1 -> StronglySorted N.lt l2 ->
  (forall x, In x l1 <-> In x l2) -> l1 = l2.
Proof.
  induction l1 as [|a r1 IH]; intros l2 H1 H2 Hin.
  - destruct l2 as [|b r2]; [reflexivity|]. exfalso. apply (Hin b). now left.
  - destruct l2 as [|b r2]; [exfalso; apply (Hin a); now left|].
    inversion H1 as [|x l Hs1 Ha]; subst. inversion H2 as [|x l Hs2 Hb]; subst.
    rewrite Forall_forall in Ha, Hb.
    assert (Hab : a = b).
    { destruct (proj1 (Hin a) (or_introl eq_refl)) as [E|E]; [congruence|].
      destruct (proj2 (Hin b) (or_introl eq_refl)) as [E'|E']; [congruence|].
      specialize (Ha b E'). specialize (Hb a E). lia. }
    subst b. f_equal. apply IH; [exact Hs1|exact Hs2|].
    intros x. split; intros Hx.
    + destruct (proj1 (Hin x) (or_intror Hx)) as [E|E]; [|exact E].
      specialize (Ha x Hx). lia.
    + destruct (proj2 (Hin x) (or_intror Hx)) as [E|E]; [|exact E].
      specialize (Hb x Hx). lia.
Qed.

(* with unique names, dir_ok says exactly that a fresh Directory::open lists the tracker *)
Theorem dir_ok_listing w :
  nodup_keys (c_fs (w_ctx w)) -> wr_ok w -> dir_ok w -> w_file w <= U64_MAX ->
  list_wal_numbers (c_fs (w_ctx w)) = w_files w.
Proof.
  intros Hnd [Hc Hl] Hd Hle. apply sorted_ext.
  - apply list_wal_numbers_sorted.
  - destruct (w_files w) as [|lo r]; [destruct Hc|]. now apply chain_sorted.
  - intros n. rewrite In_list_wal_numbers. split.
    + intros [name [b [Hin Hp]]]. apply parse_exact in Hp. destruct Hp as [-> Hn].
      apply (Hd n Hn). exists b. now apply fs_get_In.
    + intros Hin.
      assert (Hn : n <= U64_MAX).
      { destruct (w_files w) as [|lo r]; [destruct Hin|]. cbn [contiguous] in Hc.
        destruct (chain_bounds _ _ _ Hc Hl) as [_ Hb]. specialize (Hb n Hin). lia. }
      destruct (proj2 (Hd n Hn) Hin) as [b Hb]. exists (filename n), b.
      split; [now apply fs_get_In|now apply parse_print].
Qed.

Section NoDupKeys.
Variable P : params.

Definition nd (w : rwriter) : Prop := nodup_keys (c_fs (w_ctx w)).

Lemma fault_point_fs c s : c_fs (fst (fault_point c s)) = c_fs c.
Proof.
  unfold fault_point. destruct (c_plan c) as [p|]; destruct s; cbn;
    try destruct (_ && _); reflexivity.
Qed.

Lemma open_file_fs c n c' r : open_file c n = (c', r) -> c_fs c' = c_fs c.
Proof.
  unfold open_file. pose proof (fault_point_fs c SOpen) as Hf.
  destruct (fault_point c SOpen) as [c1 [e|]]; cbn [fst] in Hf.
  - intros H; inversion H; subst. exact Hf.
  - destruct (fs_get (c_fs c1) (filename n)) as [[b| |]|]; intros H; inversion H; subst;
      cbn [ctx_ev c_fs]; exact Hf.
Qed.

Lemma create_file_nd c n c' r : create_file P c n = (c', r) -> nodup_keys (c_fs c) -> nodup_keys (c_fs c').
Proof.
  unfold create_file. destruct (fs_get (c_fs c) (filename n)); intros H; inversion H; subst;
    [auto|]. cbn [ctx_ev ctx_fs c_fs]. intros Hn. now apply nodup_keys_put, nodup_keys_put.
Qed.

Lemma flush_buf_nd w : nd w -> nd (flush_buf w).
Proof.
  unfold flush_buf, nd. destruct (w_pending w); [auto|].
  unfold os_write. cbn [w_ctx ctx_ev ctx_fs c_fs]. apply nodup_keys_put.
Qed.

Lemma presync_nd w : nd w -> nd (sync_dir (sync_data (bw_flush w))).
Proof.
  intros H. apply flush_buf_nd in H.
  unfold nd, sync_dir, sync_data, bw_flush, wr_ctx in *. cbn [w_ctx ctx_ev c_fs]. exact H.
Qed.

Lemma wr_persist_nd w a : nd w -> nd (wr_persist w a).
Proof.
  unfold wr_persist. destruct a; [apply presync_nd|].
  intros H. apply flush_buf_nd in H. unfold nd, bw_flush, wr_ctx in *. cbn [w_ctx ctx_ev c_fs]. exact H.
Qed.

Lemma bw_write_all_nd w d : nd w -> nd (bw_write_all P w d).
Proof.
  intros H. unfold bw_write_all, bw_write_all0.
  destruct (lenN d <? BS P - lenN (w_pending w)); [exact H|].
  set (w1 := if BS P - lenN (w_pending w) <? lenN d then flush_buf w else w).
  assert (H1 : nd w1) by (unfold w1; destruct (_ <? _); [now apply flush_buf_nd|exact H]).
  clearbody w1. destruct (BS P <=? lenN d); [|exact H1].
  unfold nd, os_write in *. cbn [w_ctx ctx_ev ctx_fs c_fs]. now apply nodup_keys_put.
Qed.

Lemma wr_write_nd w d w' r : wr_write P w d = (w', r) -> nd w -> nd w'.
Proof.
  unfold wr_write. destruct d as [|b d'] eqn:Ed.
  - intros H; inversion H; subst. auto.
  - rewrite <- Ed. clear Ed b d'. intros H Hn. pose proof (presync_nd w Hn) as H1.
    set (w1 := sync_dir (sync_data (bw_flush w))) in *. clearbody w1.
    destruct (FILE_BYTES P <? w_off w + lenN d).
    + destruct (tracker_next (w_files w1) (w_file w1)) as [nxt|].
      * destruct (open_file (w_ctx w1) nxt) as [c [[]|e]] eqn:Eo; apply open_file_fs in Eo;
          inversion H; subst; clear H.
        -- apply bw_write_all_nd. unfold nd in *. cbn [w_ctx]. now rewrite Eo.
        -- unfold nd, wr_ctx in *. cbn [w_ctx]. now rewrite Eo.
      * destruct (create_file P (w_ctx w1) (w_file w1 + 1)) as [c [[]|e]] eqn:Ec;
          apply create_file_nd in Ec; try exact H1; inversion H; subst; clear H.
        -- apply bw_write_all_nd. exact Ec.
        -- exact Ec.
    + inversion H; subst. now apply bw_write_all_nd.
Qed.

Lemma gc_loop_nd : forall files c refd c' files' r,
  gc_loop c files refd = (c', files', r) -> nodup_keys (c_fs c) -> nodup_keys (c_fs c').
Proof.
  induction files as [|f rest IH]; intros c refd c' files' r; cbn [gc_loop].
  - intros H; inversion H; subst. auto.
  - destruct rest as [|g rest'].
    + intros H; inversion H; subst. auto.
    + destruct (refd f).
      * intros H; inversion H; subst. auto.
      * destruct (fs_get (c_fs c) (filename f)) as [[b| |]|].
        -- intros H Hn. apply IH in H; [exact H|]. cbn [ctx_ev ctx_fs c_fs]. now apply nodup_keys_remove.
        -- intros H; inversion H; subst. auto.
        -- intros H Hn. apply IH in H; [exact H|]. cbn [ctx_ev ctx_fs c_fs]. now apply nodup_keys_remove.
        -- intros H; inversion H; subst. auto.
Qed.

Theorem step_nodup_keys st o tick :
  nodup_keys (c_fs (w_ctx (s_wr st))) ->
  nodup_keys (c_fs (w_ctx (s_wr (fst (step P st o tick))))).
Proof.
  apply (step_inv P nd wr_write_nd wr_persist_nd).
  intros w refd c files r H Hn. unfold nd. cbn [w_ctx]. eapply gc_loop_nd; eassumption.
Qed.

(* after every call, a fresh listing of the directory returns exactly the tracker *)
Theorem step_listing st o tick :
  nodup_keys (c_fs (w_ctx (s_wr st))) -> wr_ok (s_wr st) -> dir_ok (s_wr st) ->
  w_file (s_wr (fst (step P st o tick))) <= U64_MAX ->
  list_wal_numbers (c_fs (w_ctx (s_wr (fst (step P st o tick))))) =
  w_files (s_wr (fst (step P st o tick))).
Proof.
  intros Hn Hok Hd Hle. apply dir_ok_listing.
  - now apply step_nodup_keys.
  - now apply step_wr_ok.
  - now apply step_dir_ok.
  - exact Hle.
Qed.
End NoDupKeys.

(* ================================================================ audit *)
Print Assumptions gc_loop_ok.
Print Assumptions gc_loop_suffix.
Print Assumptions gc_loop_err_suffix.
Print Assumptions wr_write_ok.
Print Assumptions wr_write_err_tracker.
Print Assumptions wr_persist_ok.
Print Assumptions write_record_rel.
Print Assumptions write_record_inv.
Print Assumptions write_record_wr_ok.
Print Assumptions gc_loop_wr_ok.
Print Assumptions step_wr_ok.
Print Assumptions step_file_mono.
Print Assumptions truncate_tight.
Print Assumptions delete_queue_tight.
Print Assumptions step_gc_tight.
Print Assumptions disk_used_span.
Print Assumptions step_gc_disk_used.
Print Assumptions step_dir_ok.
Print Assumptions gc_loop_no_err.
Print Assumptions dir_ok_listing.
Print Assumptions step_nodup_keys.
Print Assumptions step_listing.
Print Assumptions wr_write_file_mono.
Print Assumptions step_inv.
Print Assumptions step_wd_ok.

(* non-vacuity of the definitions *)
Example contiguous_ex : contiguous [3; 4; 5] /\ ~ contiguous [3; 5] /\ ~ contiguous [].
Proof. cbn. repeat split; try reflexivity; intros H; try destruct H as [H _]; try discriminate; exact H. Qed.
