(* PanicFree.v — property C10, panic half: the panic sites of the Rust code reachable from
   `MultiRecordLog::open` and from the read accessors, each with its GUARD (the condition, on the
   values of the model at the mirrored point, under which the Rust expression does not panic),
   and the proof that every guard holds on ANY directory content.

   The model is total (slices truncate, `-` saturates, nth defaults), so "does not panic" is
   stated here as a family of predicates `f_guards args`, one per model function f, that mirror
   the control flow of f and collect the guards of the sites met along the way.

   Conventions.
   - A site is named  <file>:<line>  (lines of /repo/src, `#[cfg(mrecordlog_verif)]` ignored).
   - usize is taken to be 64 bits; U64 = 2^64.
   - Sites that panic in every profile (slice/index out of range, unwrap on None, assert!,
     split_at, copy_from_slice, try_into().unwrap()) are plain conjuncts.
   - Sites that panic only with overflow checks (debug profile) are conjuncts wrapped in
     `ovf dbg (...)`: they are required only when dbg = true.  `f_guards false` is the release
     profile, `f_guards true` the debug profile.  Subtractions that cannot underflow are proved
     unconditionally (they are listed as overflow sites all the same).
   The table of all sites with their status is at the end of the file. *)
From Coq Require Import Lia ZArith ZifyN ZifyNat ZifyBool.
From MRL Require Import Bytes BytesProofs Params Names NamesProofs Frame Record Mem Rolling Log
     SpecRefine RecordProofs OpenTerm WriterProofs Crc.

Arguments N.add : simpl never.
Arguments N.sub : simpl never.
Arguments N.mul : simpl never.
Arguments N.eqb : simpl never.
Arguments N.ltb : simpl never.
Arguments N.leb : simpl never.
Arguments N.div : simpl never.
Arguments N.modulo : simpl never.
Arguments N.min : simpl never.
Arguments N.max : simpl never.
Arguments N.pow : simpl never.

Definition U64 : N := 18446744073709551616.          (* 2^64 *)
Lemma U64_pow : U64 = 2 ^ 64. Proof. reflexivity. Qed.

(* a debug-profile-only panic: required only when overflow checks are compiled in *)
Definition ovf (dbg : bool) (X : Prop) : Prop := dbg = true -> X.

Lemma ovf_false X : ovf false X. Proof. intros H; discriminate H. Qed.

(* ---------- small facts ---------- *)
Lemma lenN_sliceN_le {A} a b (x : list A) : lenN (sliceN a b x) <= b - a.
Proof. unfold sliceN. rewrite lenN_takeN. lia. Qed.

Lemma le_dec_lt_2 bs : lenN bs <= 2 -> le_dec bs < 65536.
Proof.
  intros H. pose proof (le_dec_bound bs) as Hb.
  assert (256 ^ lenN bs <= 256 ^ 2) by (apply N.pow_le_mono_r; lia).
  change (256 ^ 2) with 65536 in *. lia.
Qed.

Lemma le_dec_lt_8 bs : lenN bs <= 8 -> le_dec bs < U64.
Proof.
  intros H. pose proof (le_dec_bound bs) as Hb.
  assert (256 ^ lenN bs <= 256 ^ 8) by (apply N.pow_le_mono_r; lia).
  change (256 ^ 8) with U64 in *. lia.
Qed.

Ltac inj H := apply pair_equal_spec in H; destruct H as [<- <-].

Section Guards.
Variable P : params.
Variable dbg : bool.
Notation OVF := (ovf dbg).

(* ====================================================================== *)
(* 1. Directory::open — the scan and the tracker                          *)
(* ====================================================================== *)

(* rolling/directory.rs:26  `&file_name[4..]`   and  :30 `file_name[4..].parse()`
   (str slicing: panics if 4 > len or 4 is not a char boundary).  Reached only after
   `file_name.len() != 24` and `!file_name.starts_with("wal-")` both failed; the four leading
   bytes are then ASCII, so 4 is a char boundary (file_name is a &str: valid UTF-8 by type). *)
Definition filename_to_position_guards (s : bytes) : Prop :=
  if negb (lenN s =? 24) then True
  else if negb (bytes_eqb (takeN 4 s) wal_prefix) then True
  else 4 <= lenN s.

Lemma filename_to_position_guards_hold s : filename_to_position_guards s.
Proof.
  unfold filename_to_position_guards.
  destruct (N.eqb_spec (lenN s) 24) as [E|E]; cbn [negb]; [|exact I].
  destruct (negb _); [exact I|lia].
Qed.

(* the `for dir_entry_res in read_dir` loop: filename_to_position on every regular file *)
Definition scan_guards (fs : fsT) : Prop :=
  forall name e, In (name, e) fs ->
  match e with FFile _ => filename_to_position_guards name | _ => True end.

Lemma scan_guards_hold fs : scan_guards fs.
Proof. intros name [b| |] _; try exact I. apply filename_to_position_guards_hold. Qed.

(* rolling/file_number.rs:17 `self.files.first().unwrap()`, :22 `self.files.last().unwrap()`:
   the tracker must not be empty *)
Definition tracker_guard (files : list N) : Prop := files <> [].

(* Directory::open + RollingReader::open.
   file_number.rs:12  `from_file_numbers(vec![0]).unwrap()`     (FileTracker::new, empty listing)
   directory.rs:72    `files.first()`                            (on the new tracker [0])
   directory.rs:88    `self.files.last()`                        (ensure_last_file_has_full_size)
   directory.rs:151   `directory.first_file_number()`            (RollingReader::open)         *)
Definition rd_open_guards (c0 : ioctx) : Prop :=
  let c := ctx_ev c0 EvReadDir in
  match fault_point c SReadDir with
  | (_, Some _) => True
  | (c1, None) =>
      scan_guards (c_fs c1) /\
      tracker_guard [0] /\
      let listed := list_wal_numbers (c_fs c1) in
      tracker_guard (match listed with [] => [0] | _ => listed end)
  end.

Lemma rd_open_guards_hold c0 : rd_open_guards c0.
Proof.
  unfold rd_open_guards. destruct (fault_point _ _) as [c1 [e|]]; [exact I|].
  split; [apply scan_guards_hold|]. split; [discriminate|].
  destruct (list_wal_numbers (c_fs c1)); discriminate.
Qed.

(* ====================================================================== *)
(* 2. RollingReader: what every block handed to the frame reader satisfies *)
(* ====================================================================== *)

(* In Rust the block is a `Box<[u8; BLOCK_NUM_BYTES]>`: its length is BS by type.  In the model
   it is a byte list, so this is an invariant to prove: read_block returns a block only when
   pos + BS <= len.  The invariant also records that the blocks read so far fit in the file
   (used for the offset computed by into_writer). *)
Definition rd_ok (rd : rreaderS) : Prop :=
  lenN (rd_block rd) = BS P /\ In (rd_file rd) (rd_files rd) /\
  (rd_block_id rd + 1) * BS P <= rd_pos rd /\
  rd_pos rd <= lenN (fcontent (c_fs (rd_ctx rd)) (rd_file rd)).

Lemma read_block_ok c n pos c' pos' r :
  read_block P c n pos = (c', pos', r) ->
  c_fs c' = c_fs c /\
  match r with
  | Ok (Some blk) => lenN blk = BS P /\ pos' = pos + BS P /\ pos + BS P <= lenN (fcontent (c_fs c) n)
  (* R2: an injected UnexpectedEof is absorbed as a short read with the position unchanged *)
  | Ok None => pos' = pos \/ pos' = N.max pos (lenN (fcontent (c_fs c) n))
  | Err _ => pos' = pos
  end.
Proof.
  unfold read_block. pose proof (fault_point_fs c SRead) as Hf.
  destruct (fault_point c SRead) as [c1 [e|]]; cbn [fst] in Hf.
  - intros H; inversion H; subst. split; [exact Hf|destruct e; first [reflexivity|left; reflexivity]].
  - rewrite file_content_fcontent, Hf.
    destruct (N.leb_spec (pos + BS P) (lenN (fcontent (c_fs c) n))) as [Hle|Hgt];
      intros H; inversion H; subst; (split; [exact Hf|]).
    + split; [|split; [reflexivity|exact Hle]].
      rewrite lenN_sliceN; lia.
    + right; reflexivity.
Qed.

Lemma next_file_loop_ok : forall cands c rd rd' r,
  c_fs c = c_fs (rd_ctx rd) -> rd_ok rd -> (forall x, In x cands -> In x (rd_files rd)) ->
  next_file_loop P c cands rd = (rd', r) ->
  rd_ok rd' /\ c_fs (rd_ctx rd') = c_fs (rd_ctx rd).
Proof.
  induction cands as [|n rest IH]; intros c rd rd' r Hc (Hb & Hf & Hp1 & Hp2) Hsub H;
    cbn [next_file_loop] in H.
  - inversion H; subst. unfold rd_ok. cbn [rd_ctx rd_files rd_file rd_pos rd_block rd_block_id].
    rewrite Hc. repeat split; assumption.
  - destruct (open_file c n) as [c1 [u|e]] eqn:Ho; apply open_file_fs in Ho.
    + destruct (read_block P c1 n 0) as [[c2 pos'] [[blk|]|e]] eqn:Hr;
        apply read_block_ok in Hr; destruct Hr as [Hfs Hr].
      * destruct Hr as (Hl & Hpos & Hle). inversion H; subst rd' r. unfold rd_ok.
        cbn [rd_ctx rd_files rd_file rd_pos rd_block rd_block_id].
        rewrite Hfs, Ho, Hc in *. repeat split; try assumption; try lia.
        apply Hsub. now left.
      * eapply IH; [|repeat split; eassumption| |exact H]; [congruence|].
        intros x Hx. apply Hsub. now right.
      * inversion H; subst. unfold rd_ok.
        cbn [rd_ctx rd_files rd_file rd_pos rd_block rd_block_id].
        rewrite Hfs, Ho, Hc. repeat split; assumption.
    + inversion H; subst. unfold rd_ok.
      cbn [rd_ctx rd_files rd_file rd_pos rd_block rd_block_id].
      rewrite Ho, Hc. repeat split; assumption.
Qed.

Lemma rd_next_ok rd rd' r :
  rd_ok rd -> rd_next P rd = (rd', r) ->
  rd_ok rd' /\ c_fs (rd_ctx rd') = c_fs (rd_ctx rd).
Proof.
  intros (Hb & Hf & Hp1 & Hp2) H. unfold rd_next in H.
  destruct (read_block P (rd_ctx rd) (rd_file rd) (rd_pos rd)) as [[c1 pos'] [[blk|]|e]] eqn:Hr;
    apply read_block_ok in Hr; destruct Hr as [Hfs Hr].
  - destruct Hr as (Hl & Hpos & Hle). inversion H; subst rd' r. unfold rd_ok.
    cbn [rd_ctx rd_files rd_file rd_pos rd_block rd_block_id].
    rewrite Hfs. repeat split; try assumption; lia.
  - apply next_file_loop_ok in H; cbn [rd_ctx rd_files rd_file rd_pos rd_block rd_block_id] in *.
    + rewrite Hfs in H. exact H.
    + reflexivity.
    + unfold rd_ok. cbn [rd_ctx rd_files rd_file rd_pos rd_block rd_block_id].
      rewrite Hfs. repeat split; try assumption; lia.
    + intros x Hx. unfold files_after in Hx. apply filter_In in Hx. apply Hx.
  - inversion H; subst rd' r. unfold rd_ok.
    cbn [rd_ctx rd_files rd_file rd_pos rd_block rd_block_id].
    rewrite Hfs. subst pos'. repeat split; assumption.
Qed.

(* ---------- the files stay within FILE_BYTES when they start so ---------- *)
Definition fs_bounded (fs : fsT) : Prop := forall n, lenN (fcontent fs n) <= FILE_BYTES P.

Lemma fcontent_put fs name e n :
  fcontent (fs_put fs name e) n =
  if bytes_eqb name (filename n) then match e with FFile b => b | _ => [] end
  else fcontent fs n.
Proof. unfold fcontent. rewrite fs_get_put. destruct (bytes_eqb name (filename n)); reflexivity. Qed.

Lemma lenN_set_len' b n : lenN (set_len b n) = n.
Proof.
  unfold set_len. destruct (N.leb_spec n (lenN b)).
  - rewrite lenN_takeN. lia.
  - rewrite lenN_app, lenN_zerosN. lia.
Qed.

Lemma fs_bounded_put fs name b :
  fs_bounded fs -> lenN b <= FILE_BYTES P -> fs_bounded (fs_put fs name (FFile b)).
Proof.
  intros Hb Hl n. rewrite fcontent_put. destruct (bytes_eqb name (filename n)); [exact Hl|apply Hb].
Qed.

Lemma create_file_bounded c n c' r :
  create_file P c n = (c', r) -> fs_bounded (c_fs c) -> fs_bounded (c_fs c').
Proof.
  unfold create_file. destruct (fs_get (c_fs c) (filename n)); intros H Hb; inversion H; subst.
  - exact Hb.
  - cbn [c_fs ctx_ev ctx_fs]. apply fs_bounded_put; [|rewrite lenN_zerosN; lia].
    apply fs_bounded_put; [exact Hb|]. rewrite lenN_nil. lia.
Qed.

Lemma ensure_last_full_bounded c files c' r :
  ensure_last_full P c files = (c', r) -> fs_bounded (c_fs c) -> fs_bounded (c_fs c').
Proof.
  unfold ensure_last_full. destruct (last_opt files) as [n|]; [|intros H Hb; inversion H; subst; exact Hb].
  destruct (lenN (file_content c n) <? FILE_BYTES P); [|intros H Hb; inversion H; subst; exact Hb].
  destruct (open_file c n) as [c1 [u|e]] eqn:Ho; apply open_file_fs in Ho;
    intros H Hb; inversion H; subst.
  - cbn [c_fs ctx_ev ctx_fs]. apply fs_bounded_put; [rewrite Ho; exact Hb|].
    rewrite lenN_set_len'. lia.
  - rewrite Ho. exact Hb.
Qed.

Lemma rd_open_ok c0 c rd :
  rd_open P c0 = (c, Ok rd) ->
  rd_ok rd /\ rd_ctx rd = c /\ (fs_bounded (c_fs c0) -> fs_bounded (c_fs c)).
Proof.
  unfold rd_open. pose proof (fault_point_fs (ctx_ev c0 EvReadDir) SReadDir) as Hf.
  destruct (fault_point (ctx_ev c0 EvReadDir) SReadDir) as [c1 [e|]]; cbn [fst] in Hf;
    [intros H; inversion H|].
  cbn [c_fs ctx_ev] in Hf.
  set (listed := list_wal_numbers (c_fs c1)).
  assert (Hstep : exists c2 rf,
    (match listed with
     | [] => match create_file P c1 0 with
             | (c', Ok _) => (c', Ok [0])
             | (c', Err e) => (c', Err e)
             end
     | _ => (c1, Ok listed)
     end) = (c2, rf) /\
    (fs_bounded (c_fs c1) -> fs_bounded (c_fs c2)) /\
    match rf with Ok files => files <> [] | Err _ => True end).
  { destruct listed as [|x l] eqn:El.
    - destruct (create_file P c1 0) as [c' [u|e]] eqn:Ec.
      + exists c', (Ok [0]). split; [reflexivity|]. split; [eapply create_file_bounded; eauto|discriminate].
      + exists c', (Err e). split; [reflexivity|]. split; [eapply create_file_bounded; eauto|exact I].
    - exists c1, (Ok (x :: l)). split; [reflexivity|]. split; [tauto|discriminate]. }
  destruct Hstep as (c2 & rf & -> & Hb2 & Hne).
  destruct rf as [files|e]; [|intros H; inversion H].
  assert (Hstep2 : exists c3 r3,
    (if L_SHORT P then (c2, Ok tt) else ensure_last_full P c2 files) = (c3, r3) /\
    (fs_bounded (c_fs c2) -> fs_bounded (c_fs c3))).
  { destruct (L_SHORT P).
    - exists c2, (Ok tt). split; [reflexivity|tauto].
    - destruct (ensure_last_full P c2 files) as [c3 r3] eqn:Ee. exists c3, r3.
      split; [reflexivity|]. eapply ensure_last_full_bounded; eauto. }
  destruct Hstep2 as (c3 & r3 & -> & Hb3).
  destruct r3 as [u|e]; [|intros H; inversion H].
  set (first := match files with f :: _ => f | [] => 0 end).
  destruct (open_file c3 first) as [c4 [u'|e]] eqn:Ho; [|intros H; inversion H].
  apply open_file_fs in Ho.
  destruct (read_block P c4 first 0) as [[c5 pos'] [[blk|]|e]] eqn:Hr;
    try (intros H; inversion H; fail).
  apply read_block_ok in Hr. destruct Hr as (Hfs & Hl & Hpos & Hle).
  intros H; inversion H; subst c rd. split; [|split; [reflexivity|]].
  - unfold rd_ok. cbn [rd_ctx rd_files rd_file rd_pos rd_block rd_block_id].
    rewrite Hfs. repeat split; try assumption; try lia.
    unfold first. destruct files as [|f l]; [congruence|now left].
  - intros Hb0. rewrite Hfs, Ho. apply Hb3, Hb2. rewrite Hf. exact Hb0.
Qed.

(* ====================================================================== *)
(* 3. FrameReader::read_frame and RecordReader::go_next                   *)
(* ====================================================================== *)
Section FrameReader.
Variable R : Type.
Variable rnext : R -> R * res bool.
Variable rblock : R -> bytes.

(* frame/header.rs:55  `assert_eq!(data.len(), HEADER_LEN)`
   frame/header.rs:56-58  `data[0]` .. `data[6]`                                       *)
Definition header_deser_guards (hdr : bytes) : Prop := lenN hdr = HEADER_LEN /\ 6 < lenN hdr.

(* get_frame_header + the rest of read_frame, on the block in place.
   frame/reader.rs:68  `&self.reader.block()[self.cursor..][..HEADER_LEN]`
   frame/reader.rs:85  `self.cursor += HEADER_LEN`                        (overflow)
   frame/reader.rs:86  `self.cursor + header.len()`                       (overflow)
   frame/reader.rs:93  `&self.reader.block()[self.cursor..][..header.len()]`
   frame/reader.rs:94  `self.cursor += header.len()`                      (overflow, same sum) *)
Definition read_here_guards (fr1 : freader R) : Prop :=
  let blk := rblock (fr_rd fr1) in
  let c := fr_cursor fr1 in
  c <= lenN blk /\ HEADER_LEN <= lenN (dropN c blk) /\
  let hdr := sliceN c (c + HEADER_LEN) blk in
  if all_zero hdr then True
  else
    header_deser_guards hdr /\
    let len := le_dec (sliceN 4 6 hdr) in
    match ft_of_code (le_dec (dropN 6 hdr)) with
    | None => True
    | Some t =>
        let c1 := c + HEADER_LEN in
        OVF (c1 < U64) /\ OVF (c1 + len < U64) /\
        if BS P <? c1 + len then True
        else c1 <= lenN blk /\ len <= lenN (dropN c1 blk)
    end.

(* frame/reader.rs:47  `crate::BLOCK_NUM_BYTES - self.cursor`   (usize underflow) *)
Definition read_frame_guards (fr : freader R) : Prop :=
  fr_cursor fr <= BS P /\
  if need_skip P fr then
    match rnext (fr_rd fr) with
    | (r', Ok true) => read_here_guards (mkFR r' 0 false)
    | _ => True
    end
  else read_here_guards fr.

(* RecordReader::go_next has no site of its own (extend_from_slice only allocates) *)
Fixpoint go_next_guards (fuel : nat) (rr : rreader R) : Prop :=
  match fuel with
  | O => True
  | S fuel' =>
      read_frame_guards (rr_fr rr) /\
      match read_frame P R rnext rblock (rr_fr rr) with
      | (fr', FOk t payload) =>
          let within := if is_first_frame t then true else rr_within rr in
          let buf := if is_first_frame t then [] else rr_buf rr in
          if within then
            let buf' := buf ++ payload in
            if is_last_frame t then True
            else go_next_guards fuel' (mkRR fr' buf' true)
          else go_next_guards fuel' (mkRR fr' buf within)
      | _ => True
      end
  end.

(* ---------- they hold ---------- *)
Variable Rok : R -> Prop.
Hypothesis Rok_block : forall r, Rok r -> lenN (rblock r) = BS P.
Hypothesis Rok_next : forall r r' x, Rok r -> rnext r = (r', x) -> Rok r'.
Hypothesis HBS : 7 <= BS P.
Hypothesis HBSu : dbg = true -> BS P + 65536 <= U64.

Definition fr_ok (fr : freader R) : Prop := Rok (fr_rd fr) /\ fr_cursor fr <= BS P.

Lemma read_here_guards_hold fr1 :
  Rok (fr_rd fr1) -> fr_cursor fr1 + 7 <= BS P -> read_here_guards fr1.
Proof.
  intros Hr Hc. unfold read_here_guards, header_deser_guards, HEADER_LEN.
  pose proof (Rok_block _ Hr) as Hl.
  split; [lia|]. split; [rewrite lenN_dropN; lia|].
  set (hdr := sliceN _ _ _).
  assert (Hh : lenN hdr = 7) by (unfold hdr; rewrite lenN_sliceN; lia).
  destruct (all_zero hdr); [exact I|]. split; [lia|].
  destruct (ft_of_code _) as [t|]; [|exact I].
  assert (Hlen : le_dec (sliceN 4 6 hdr) < 65536).
  { apply le_dec_lt_2. pose proof (lenN_sliceN_le 4 6 hdr). lia. }
  split; [intros Hd; specialize (HBSu Hd); lia|].
  split; [intros Hd; specialize (HBSu Hd); lia|].
  destruct (N.ltb_spec (BS P) (fr_cursor fr1 + 7 + le_dec (sliceN 4 6 hdr))); [exact I|].
  split; [lia|]. rewrite lenN_dropN. lia.
Qed.

Lemma read_here_ok fr1 fr' r :
  Rok (fr_rd fr1) -> fr_cursor fr1 + 7 <= BS P ->
  read_here P rblock fr1 = (fr', r) -> fr_ok fr'.
Proof.
  intros Hr Hc. unfold read_here, HEADER_LEN, fr_ok.
  destruct (all_zero _); [intros H; inversion H; subst; split; [exact Hr|lia]|].
  destruct (ft_of_code _) as [t|].
  - destruct (N.ltb_spec (BS P) (fr_cursor fr1 + 7 + le_dec (sliceN 4 6
        (sliceN (fr_cursor fr1) (fr_cursor fr1 + 7) (rblock (fr_rd fr1)))))) as [Hlt|Hge].
    + intros H; inversion H; subst; cbn [fr_rd fr_cursor]. split; [exact Hr|lia].
    + destruct (_ =? _); intros H; inversion H; subst; cbn [fr_rd fr_cursor]; (split; [exact Hr|lia]).
  - intros H; inversion H; subst; cbn [fr_rd fr_cursor]. split; [exact Hr|lia].
Qed.

Lemma need_skip_false (fr : freader R) : need_skip P fr = false -> fr_cursor fr + 7 <= BS P.
Proof. unfold need_skip, HEADER_LEN. destruct (fr_corrupt fr); cbn [orb]; [discriminate|]. lia. Qed.

Theorem read_frame_guards_hold fr : fr_ok fr -> read_frame_guards fr.
Proof.
  intros [Hr Hc]. unfold read_frame_guards. split; [exact Hc|].
  destruct (need_skip P fr) eqn:En.
  - destruct (rnext (fr_rd fr)) as [r' [[|]|e]] eqn:Ex; try exact I.
    apply read_here_guards_hold; cbn [fr_rd fr_cursor]; [eapply Rok_next; eauto|lia].
  - apply read_here_guards_hold; [exact Hr|now apply need_skip_false].
Qed.

Lemma read_frame_ok fr fr' r :
  fr_ok fr -> read_frame P R rnext rblock fr = (fr', r) -> fr_ok fr'.
Proof.
  intros [Hr Hc]. rewrite read_frame_eq.
  destruct (need_skip P fr) eqn:En.
  - destruct (rnext (fr_rd fr)) as [r' [[|]|e]] eqn:Ex.
    + apply read_here_ok; cbn [fr_rd fr_cursor]; [eapply Rok_next; eauto|lia].
    + intros H; inversion H; subst. split; cbn [fr_rd fr_cursor]; [eapply Rok_next; eauto|exact Hc].
    + intros H; inversion H; subst. split; cbn [fr_rd fr_cursor]; [eapply Rok_next; eauto|exact Hc].
  - apply read_here_ok; [exact Hr|now apply need_skip_false].
Qed.

Theorem go_next_guards_hold : forall fuel rr, fr_ok (rr_fr rr) -> go_next_guards fuel rr.
Proof.
  induction fuel as [|fuel IH]; intros rr Hok; cbn [go_next_guards]; [exact I|].
  split; [now apply read_frame_guards_hold|].
  destruct (read_frame P R rnext rblock (rr_fr rr)) as [fr' res] eqn:Er.
  pose proof (read_frame_ok _ _ _ Hok Er) as Hok'.
  destruct res as [t payload|e| |]; try exact I.
  destruct (if is_first_frame t then true else rr_within rr).
  - destruct (is_last_frame t); [exact I|]. apply IH. exact Hok'.
  - apply IH. exact Hok'.
Qed.

Lemma go_next_ok : forall fuel rr rr' r,
  fr_ok (rr_fr rr) -> go_next P R rnext rblock fuel rr = (rr', r) -> fr_ok (rr_fr rr').
Proof.
  induction fuel as [|fuel IH]; intros rr rr' r Hok H; cbn [go_next] in H.
  - inversion H; subst. exact Hok.
  - destruct (read_frame P R rnext rblock (rr_fr rr)) as [fr' res] eqn:Er.
    pose proof (read_frame_ok _ _ _ Hok Er) as Hok'.
    destruct res as [t payload|e| |]; try (inversion H; subst; exact Hok').
    destruct (if is_first_frame t then true else rr_within rr).
    + destruct (is_last_frame t); [inversion H; subst; exact Hok'|].
      eapply IH; [|exact H]. exact Hok'.
    + eapply IH; [|exact H]. exact Hok'.
Qed.
End FrameReader.

(* ====================================================================== *)
(* 4. record.rs: MultiPlexedRecord::deserialize and the MultiRecord iterator *)
(* ====================================================================== *)

(* MultiRecord::next, iterated (by MultiRecord::new to validate, and a second time by the replay
   loop, multi_record_log.rs:71).  `off` is self.byte_offset; the model's multi_parse works on
   the suffix `dropN off whole` (lemma multi_parse_suffix below).
   record.rs:264  `&self.buffer[self.byte_offset..]`
   record.rs:271  `buffer[0..8].try_into().unwrap()`
   record.rs:272  `buffer[8..HEADER_LEN].try_into().unwrap()`
   record.rs:274  `&buffer[HEADER_LEN..]`
   record.rs:281  `self.byte_offset += HEADER_LEN + len`   (overflow: proved <= buffer length)
   record.rs:283  `&buffer[..len]`                                                        *)
Fixpoint multi_guards (fuel : nat) (whole : bytes) (off : N) : Prop :=
  match fuel with
  | O => True
  | S fuel' =>
      if off =? lenN whole then True
      else
        off <= lenN whole /\
        let buf := dropN off whole in
        if lenN buf <? 12 then True
        else
          8 <= lenN buf /\ lenN (sliceN 0 8 buf) = 8 /\
          12 <= lenN buf /\ lenN (sliceN 8 12 buf) = 4 /\
          let len := le_dec (sliceN 8 12 buf) in
          let body := dropN 12 buf in
          if lenN body <? len then True
          else
            len <= lenN body /\
            off + (12 + len) <= lenN whole /\
            multi_guards fuel' whole (off + (12 + len))
  end.

Theorem multi_guards_hold : forall fuel whole off, off <= lenN whole -> multi_guards fuel whole off.
Proof.
  induction fuel as [|fuel IH]; intros whole off Hoff; cbn [multi_guards]; [exact I|].
  destruct (off =? lenN whole); [exact I|]. split; [exact Hoff|].
  pose proof (lenN_dropN off whole) as Hd.
  destruct (N.ltb_spec (lenN (dropN off whole)) 12) as [|H12]; [exact I|].
  split; [lia|]. split; [rewrite lenN_sliceN; lia|].
  split; [lia|]. split; [rewrite lenN_sliceN; lia|].
  pose proof (lenN_dropN 12 (dropN off whole)) as Hb.
  destruct (N.ltb_spec (lenN (dropN 12 (dropN off whole))) (le_dec (sliceN 8 12 (dropN off whole))))
    as [|Hlen]; [exact I|].
  split; [exact Hlen|]. split; [lia|]. apply IH. lia.
Qed.

(* the suffix the model parses next is the buffer at the advanced byte_offset *)
Lemma multi_parse_suffix (whole : bytes) off len :
  dropN len (dropN 12 (dropN off whole)) = dropN (off + (12 + len)) whole.
Proof. rewrite !dropN_dropN. f_equal; lia. Qed.

(* MultiPlexedRecord::deserialize.
   record.rs:158  `buffer.split_at(HEADER_LEN)`            (HEADER_LEN = 11 here)
   record.rs:159  `header[0]`
   record.rs:160  `header[1..9].try_into().unwrap()`
   record.rs:161  `header[9..HEADER_LEN].try_into().unwrap()`
   record.rs:170  `body.split_at(queue_len)`
   record.rs:173  `queue_bytes[..truncated_len]`            (in the error! of the non-UTF-8 branch)
   record.rs:180  `MultiRecord::new(payload)`  -> multi_guards                              *)
Definition entry_deser_guards (buf : bytes) : Prop :=
  if lenN buf <? 11 then True
  else
    11 <= lenN buf /\
    let header := takeN 11 buf in
    let body := dropN 11 buf in
    0 < lenN header /\
    let tag := le_dec (takeN 1 buf) in
    if negb ((1 <=? tag) && (tag <=? 4)) then True
    else
      9 <= lenN header /\ lenN (sliceN 1 9 header) = 8 /\
      11 <= lenN header /\ lenN (sliceN 9 11 header) = 2 /\
      let qlen := le_dec (sliceN 9 11 buf) in
      if lenN body <? qlen then True
      else
        qlen <= lenN body /\
        let q := takeN qlen body in
        let payload := dropN qlen body in
        if negb (utf8_valid q) then N.min (lenN q) 10 <= lenN q
        else match tag with
             | 4 => multi_guards (multi_fuel payload) payload 0
             | _ => True
             end.

Theorem entry_deser_guards_hold buf : entry_deser_guards buf.
Proof.
  unfold entry_deser_guards.
  destruct (N.ltb_spec (lenN buf) 11) as [|H11]; [exact I|].
  assert (Hh : lenN (takeN 11 buf) = 11) by (rewrite lenN_takeN; lia).
  split; [exact H11|]. split; [lia|].
  destruct (negb _); [exact I|].
  split; [lia|]. split; [rewrite lenN_sliceN; lia|].
  split; [lia|]. split; [rewrite lenN_sliceN; lia|].
  destruct (N.ltb_spec (lenN (dropN 11 buf)) (le_dec (sliceN 9 11 buf))) as [|Hq]; [exact I|].
  split; [exact Hq|].
  destruct (negb _); [lia|].
  destruct (le_dec (takeN 1 buf)) as [|[p|[p|[p|p|]|]|]]; try exact I.
  apply multi_guards_hold. lia.
Qed.

(* ====================================================================== *)
(* 5. MemQueue / MemQueues as driven by the replay loop                   *)
(* ====================================================================== *)

(* mem/queue.rs:80  `record.position + 1`   (OVERFLOW; MemQueue::next_position) *)
Definition next_position_guards (q : mq) : Prop :=
  match last_opt (q_metas q) with
  | Some m => OVF (m_pos m + 1 < U64)
  | None => True
  end.

(* MemQueue::append_record.
   mem/queue.rs:94   `self.next_position()`                       -> next_position_guards
   mem/queue.rs:105  `record_meta.file_number.take().unwrap()`    (after `== Some(file_number)`) *)
Definition append_record_guards (q : mq) (file target : N) : Prop :=
  next_position_guards q /\
  if target <? next_position q then True
  else match last_opt (q_metas q) with
       | Some m => if opt_N_eqb (m_file m) file then m_file m <> None else True
       | None => True
       end.

(* multi_record_log.rs:71-83: `for record in records { ... append_record ... }` *)
Fixpoint append_all_guards (q : mq) (file : N) (recs : list (N * bytes)) : Prop :=
  match recs with
  | [] => True
  | (p, payload) :: r =>
      append_record_guards q file p /\
      match append_record q file p payload with
      | Some q' => append_all_guards q' file r
      | None => True
      end
  end.

(* MemQueue::truncate_head.
   mem/queue.rs:175  `truncate_up_to_pos + 1`   (OVERFLOW; also :176, :183, :193)
   mem/queue.rs:175  `self.next_position()`                       -> next_position_guards
   mem/queue.rs:186  `self.record_metas[first_record_to_keep]`
   mem/queue.rs:187  `self.record_metas.drain(..first_record_to_keep)`
   mem/queue.rs:189  `record_meta.start_offset -= start_offset_to_keep`   (usize underflow)
   mem/queue.rs:192 -> mem/rolling_buffer.rs:36  `self.buffer.drain(..first_pos_to_keep)`  *)
Definition truncate_head_guards (q : mq) (p : N) : Prop :=
  if p <? q_start q then True
  else
    OVF (p + 1 < U64) /\
    next_position_guards q /\
    if next_position q <=? p + 1 then True
    else
      let k := idx_ge (p + 1) (q_metas q) in
      k < lenN (q_metas q) /\
      k <= lenN (q_metas q) /\
      let kept := dropN k (q_metas q) in
      let off := match kept with m :: _ => m_off m | [] => 0 end in
      (forall m, In m kept -> off <= m_off m) /\
      off <= lenN (q_buf q).

(* the body of the replay loop for one record (multi_record_log.rs:62-99).
   MemQueues::append_record (queues.rs:92) and ::truncate (queues.rs:158) look the queue up with
   `?` / `if let`, MemQueues::ack_position (queues.rs:119) calls next_position only on an empty
   queue (`||` short-circuits), where it has no `+ 1`: no further site. *)
Definition apply_entry_guards (qs : queues) (file : N) (e : entry) : Prop :=
  match e with
  | EAppend q pos recs =>
      let qs1 := if qs_contains qs q then qs else ack_position qs q pos in
      match qs_get qs1 q with
      | Some mqv => append_all_guards mqv file recs
      | None => True
      end
  | ETruncate q p =>
      match qs_get qs q with
      | Some mqv => truncate_head_guards mqv p
      | None => True
      end
  | EPosition _ _ | EDelete _ _ => True
  end.

(* ---------- "every position is < 2^64 - 1" ---------- *)
Definition mq_small (q : mq) : Prop :=
  q_start q < U64 /\ forall m, In m (q_metas q) -> m_pos m + 1 < U64.

Definition qs_all (Q : mq -> Prop) (qs : queues) : Prop := forall n q, In (n, q) qs -> Q q.
Definition qs_small : queues -> Prop := qs_all mq_small.

(* what an entry must satisfy for the debug profile *)
Definition entry_small (e : entry) : Prop :=
  match e with
  | EAppend _ _ recs => forall r, In r recs -> fst r + 1 < U64
  | ETruncate _ p => p + 1 < U64
  | _ => True
  end.

Lemma qs_all_nil Q : qs_all Q []. Proof. intros n q []. Qed.

Lemma qs_get_In' qs n q : qs_get qs n = Some q -> In (n, q) qs.
Proof.
  induction qs as [|[n0 q0] r IH]; intros H; [discriminate|].
  cbn [qs_get] in H. destruct (bytes_eqb n0 n) eqn:E.
  - apply bytes_eqb_eq in E. inversion H; subst. now left.
  - right. now apply IH.
Qed.

Lemma qs_all_get Q qs n q : qs_all Q qs -> qs_get qs n = Some q -> Q q.
Proof. intros Hi H. eapply Hi. apply qs_get_In'. exact H. Qed.

Lemma qs_all_put Q qs n q : qs_all Q qs -> Q q -> qs_all Q (qs_put qs n q).
Proof.
  intros Hi Hq. induction qs as [|[n0 q0] r IH].
  - intros n' q' [E|[]]. inversion E; subst. exact Hq.
  - cbn [qs_put]. destruct (bytes_eqb n0 n).
    + intros n' q' [E|Hin]; [inversion E; subst; exact Hq|]. eapply Hi. right. exact Hin.
    + intros n' q' [E|Hin]; [eapply Hi; left; exact E|].
      eapply IH; [|exact Hin]. intros n1 q1 H1. eapply Hi. right. exact H1.
Qed.

Lemma qs_all_remove Q qs n : qs_all Q qs -> qs_all Q (qs_remove qs n).
Proof.
  intros Hi. induction qs as [|[n0 q0] r IH].
  - intros n' q' [].
  - assert (Hr : qs_all Q r) by (intros n1 q1 H1; eapply Hi; right; exact H1).
    cbn [qs_remove]. destruct (bytes_eqb n0 n); [exact (IH Hr)|].
    intros n' q' [E|Hin]; [eapply Hi; left; exact E|]. eapply IH; eauto.
Qed.

Lemma qs_all_ack Q qs n next :
  qs_all Q qs -> Q (mq_with_next next) -> qs_all Q (ack_position qs n next).
Proof.
  intros Hi Hn. unfold ack_position. destruct (qs_get qs n) as [q|].
  - destruct (negb (mq_is_empty q) || negb (next_position q =? next)); [|exact Hi].
    apply qs_all_put; assumption.
  - apply qs_all_put; assumption.
Qed.

Lemma mq_small_with_next n : n < U64 -> mq_small (mq_with_next n).
Proof. intros H. split; [exact H|intros m []]. Qed.

Lemma In_take_last_file m ms :
  In m (take_last_file ms) -> exists m0, In m0 ms /\ m_pos m0 = m_pos m.
Proof.
  induction ms as [|m1 r IH]; [intros []|].
  rewrite take_last_file_cons. destruct r as [|m2 r'].
  - intros [E|[]]. subst m. exists m1. split; [now left|reflexivity].
  - intros [E|Hin].
    + subst m. exists m1. split; [now left|reflexivity].
    + destruct (IH Hin) as (m0 & H0 & Hp). exists m0. split; [now right|exact Hp].
Qed.

Lemma In_dropN {A} k (l : list A) x : In x (dropN k l) -> In x l.
Proof. intros H. rewrite <- (takeN_dropN k l). apply in_or_app. now right. Qed.

Lemma append_record_small q file target payload q' :
  mq_small q -> target + 1 < U64 ->
  append_record q file target payload = Some q' -> mq_small q'.
Proof.
  intros [Hs Hm] Ht H. apply append_record_some in H. destruct H as [_ ->].
  split; cbn [q_start q_metas].
  - destruct (_ && _); lia.
  - intros m Hin. apply in_app_or in Hin. destruct Hin as [Hin|[E|[]]].
    + destruct (metas_before_cases q file) as [E|E]; rewrite E in Hin.
      * now apply Hm.
      * destruct (In_take_last_file _ _ Hin) as (m0 & H0 & Hp). rewrite <- Hp. now apply Hm.
    + subst m. cbn [m_pos]. exact Ht.
Qed.

Lemma append_all_small : forall recs q file q',
  mq_small q -> (forall r, In r recs -> fst r + 1 < U64) ->
  append_all q file recs = Some q' -> mq_small q'.
Proof.
  induction recs as [|[p x] r IH]; intros q file q' Hs Hr H; cbn [append_all] in H.
  - inversion H; subst. exact Hs.
  - destruct (append_record q file p x) as [q1|] eqn:E1; [|discriminate].
    eapply IH; [|intros r0 H0; apply Hr; now right|exact H].
    eapply append_record_small; [exact Hs| |exact E1]. apply (Hr (p, x)). now left.
Qed.

Lemma truncate_head_small q p :
  mq_small q -> p + 1 < U64 -> mq_small (fst (truncate_head q p)).
Proof.
  intros [Hs Hm] Hp. unfold truncate_head.
  destruct (p <? q_start q); [split; assumption|].
  destruct (next_position q <=? p + 1); cbn [fst].
  - split; [exact Hp|intros m []].
  - split; [exact Hp|]. cbn [q_metas]. intros m Hin. apply in_map_iff in Hin.
    destruct Hin as (m0 & <- & H0). cbn [rebase m_pos]. apply Hm. eapply In_dropN. exact H0.
Qed.

Lemma apply_entry_small qs file e qs' :
  qs_small qs -> entry_small e -> entry_pos e < U64 ->
  apply_entry qs file e = Some qs' -> qs_small qs'.
Proof.
  intros Hi He Hp H. destruct e as [q pos recs|q p|q p|q p]; cbn [apply_entry] in H;
    cbn [entry_small entry_pos] in *.
  - set (qs1 := if qs_contains qs q then qs else ack_position qs q pos) in *.
    assert (Hi1 : qs_small qs1).
    { unfold qs1. destruct (qs_contains qs q); [exact Hi|].
      apply qs_all_ack; [exact Hi|now apply mq_small_with_next]. }
    destruct (qs_get qs1 q) as [m|] eqn:E; [|discriminate].
    destruct (append_all m file recs) as [m'|] eqn:Ea; [|discriminate].
    inversion H; subst. apply qs_all_put; [exact Hi1|].
    eapply append_all_small; [|exact He|exact Ea]. eapply qs_all_get; eauto.
  - destruct (qs_get qs q) as [m|] eqn:E.
    + inversion H; subst. apply qs_all_put; [exact Hi|].
      apply truncate_head_small; [|exact He]. eapply qs_all_get; eauto.
    + inversion H; subst. exact Hi.
  - inversion H; subst. apply qs_all_ack; [exact Hi|now apply mq_small_with_next].
  - inversion H; subst. now apply qs_all_remove.
Qed.

(* ---------- the guards hold ---------- *)
Lemma next_position_guards_hold q : (dbg = true -> mq_small q) -> next_position_guards q.
Proof.
  intros Hs. unfold next_position_guards. destruct (last_opt (q_metas q)) as [m|] eqn:E; [|exact I].
  intros Hd. apply (Hs Hd). now apply last_opt_In.
Qed.

Lemma append_record_guards_hold q file target :
  (dbg = true -> mq_small q) -> append_record_guards q file target.
Proof.
  intros Hs. split; [now apply next_position_guards_hold|].
  destruct (target <? next_position q); [exact I|].
  destruct (last_opt (q_metas q)) as [m|]; [|exact I].
  destruct (m_file m) as [f|]; cbn [opt_N_eqb]; [|exact I].
  destruct (f =? file); [discriminate|exact I].
Qed.

Theorem append_all_guards_hold : forall recs q file,
  (dbg = true -> mq_small q /\ forall r, In r recs -> fst r + 1 < U64) ->
  append_all_guards q file recs.
Proof.
  induction recs as [|[p x] r IH]; intros q file Hs; cbn [append_all_guards]; [exact I|].
  split; [apply append_record_guards_hold; intros Hd; apply (Hs Hd)|].
  destruct (append_record q file p x) as [q1|] eqn:E1; [|exact I].
  apply IH. intros Hd. destruct (Hs Hd) as [Hq Hr]. split.
  - eapply append_record_small; [exact Hq| |exact E1]. apply (Hr (p, x)). now left.
  - intros r0 H0. apply Hr. now right.
Qed.

Lemma metas_ok_off lp lo len ms m :
  metas_ok lp lo len ms -> In m ms -> lo <= m_off m /\ m_off m <= len.
Proof.
  revert lp lo; induction ms as [|m0 r IH]; intros lp lo H Hin; [destruct Hin|].
  cbn [metas_ok] in H. destruct H as (H1 & H2 & H3). pose proof (metas_ok_lo_le _ _ _ _ H3) as H4.
  destruct Hin as [->|Hin]; [lia|]. specialize (IH _ _ H3 Hin). lia.
Qed.

Lemma idx_ge_lt p : forall ms m,
  last_opt ms = Some m -> p <= m_pos m -> idx_ge p ms < lenN ms.
Proof.
  induction ms as [|m0 r IH]; intros m Hl Hp; [discriminate|].
  cbn [idx_ge]. rewrite lenN_cons. destruct (N.ltb_spec (m_pos m0) p) as [Hlt|Hge]; [|lia].
  rewrite last_opt_cons in Hl. destruct (last_opt r) as [y|] eqn:E.
  - inversion Hl; subst y. specialize (IH _ eq_refl Hp). lia.
  - inversion Hl; subst m0. lia.
Qed.

Theorem truncate_head_guards_hold q p :
  mq_inv q -> (dbg = true -> mq_small q /\ p + 1 < U64) -> truncate_head_guards q p.
Proof.
  intros (Hm & Hf & He) Hs. unfold truncate_head_guards.
  destruct (N.ltb_spec p (q_start q)) as [|Hge]; [exact I|].
  split; [intros Hd; apply (Hs Hd)|].
  split; [apply next_position_guards_hold; intros Hd; apply (Hs Hd)|].
  destruct (N.leb_spec (next_position q) (p + 1)) as [|Hlt]; [exact I|].
  unfold next_position in Hlt.
  destruct (last_opt (q_metas q)) as [ml|] eqn:El; [|lia].
  assert (Hk : idx_ge (p + 1) (q_metas q) < lenN (q_metas q)).
  { eapply idx_ge_lt; [exact El|lia]. }
  split; [exact Hk|]. split; [lia|].
  pose proof (metas_ok_drop_idx (p + 1) _ _ _ _ Hm) as Hd.
  set (kept := dropN (idx_ge (p + 1) (q_metas q)) (q_metas q)) in *.
  destruct kept as [|m0 r]; [split; [intros m []|lia]|].
  cbn [metas_ok] in Hd. destruct Hd as (H1 & H2 & H3).
  pose proof (metas_ok_lo_le _ _ _ _ H3) as H4.
  split; [|exact H4].
  intros m [->|Hin]; [lia|]. destruct (metas_ok_off _ _ _ _ _ H3 Hin). lia.
Qed.

Theorem apply_entry_guards_hold qs file e :
  qs_inv qs -> (dbg = true -> qs_small qs /\ entry_small e /\ entry_pos e < U64) ->
  apply_entry_guards qs file e.
Proof.
  intros Hi Hs. destruct e as [q pos recs|q p|q p|q p]; cbn [apply_entry_guards]; try exact I.
  - set (qs1 := if qs_contains qs q then qs else ack_position qs q pos).
    destruct (qs_get qs1 q) as [m|] eqn:E; [|exact I].
    apply append_all_guards_hold. intros Hd. destruct (Hs Hd) as (H1 & H2 & H3).
    cbn [entry_small entry_pos] in *. split; [|exact H2].
    assert (Hi1 : qs_small qs1).
    { unfold qs1. destruct (qs_contains qs q); [exact H1|].
      apply qs_all_ack; [exact H1|now apply mq_small_with_next]. }
    eapply qs_all_get; eauto.
  - destruct (qs_get qs q) as [m|] eqn:E; [|exact I].
    apply truncate_head_guards_hold; [eapply qs_inv_get; eauto|].
    intros Hd. destruct (Hs Hd) as (H1 & H2 & H3). cbn [entry_small] in H2.
    split; [eapply qs_all_get; eauto|exact H2].
Qed.

(* ====================================================================== *)
(* 6. The replay loop of open_with_prefs (multi_record_log.rs:48-103)     *)
(* ====================================================================== *)

Fixpoint replay_loop_guards (fuel gofuel : nat) (rr : rreader_t) (qs : queues) : Prop :=
  match fuel with
  | O => True
  | S fuel' =>
      let file := rd_file (fr_rd (rr_fr rr)) in
      go_next_guards rreaderS (rd_next P) rd_block gofuel rr /\
      match go_next P rreaderS (rd_next P) rd_block gofuel rr with
      | (rr', RRecord) =>
          entry_deser_guards (rr_buf rr') /\
          match entry_deser (rr_buf rr') with
          | None => replay_loop_guards fuel' gofuel rr' qs
          | Some e =>
              apply_entry_guards qs file e /\
              match apply_entry qs file e with
              | Some qs' => replay_loop_guards fuel' gofuel rr' qs'
              | None => True
              end
          end
      | (rr', REnd) => True
      | (rr', RCorrupt) => replay_loop_guards fuel' gofuel rr' qs
      | (rr', RIo e) => if L_IO P then replay_loop_guards fuel' gofuel rr' qs else True
      | (rr', RFuel) => True
      end
  end.

(* the hypothesis of the debug profile: every entry decoded during replay is small *)
Fixpoint replay_small (fuel gofuel : nat) (rr : rreader_t) (qs : queues) : Prop :=
  match fuel with
  | O => True
  | S fuel' =>
      let file := rd_file (fr_rd (rr_fr rr)) in
      match go_next P rreaderS (rd_next P) rd_block gofuel rr with
      | (rr', RRecord) =>
          match entry_deser (rr_buf rr') with
          | None => replay_small fuel' gofuel rr' qs
          | Some e =>
              entry_small e /\
              match apply_entry qs file e with
              | Some qs' => replay_small fuel' gofuel rr' qs'
              | None => True
              end
          end
      | (rr', REnd) => True
      | (rr', RCorrupt) => replay_small fuel' gofuel rr' qs
      | (rr', RIo e) => if L_IO P then replay_small fuel' gofuel rr' qs else True
      | (rr', RFuel) => True
      end
  end.

(* queue names fit the u16 length field (needed by the writes of the recovery-time GC) *)
Definition qs_names_short (qs : queues) : Prop := forall n q, In (n, q) qs -> lenN n <= 65535.

Lemma qs_names_put qs n q : qs_names_short qs -> lenN n <= 65535 -> qs_names_short (qs_put qs n q).
Proof.
  intros Hi Hn. induction qs as [|[n0 q0] r IH].
  - intros n' q' [E|[]]. inversion E; subst. exact Hn.
  - cbn [qs_put]. destruct (bytes_eqb n0 n) eqn:Eb.
    + apply bytes_eqb_eq in Eb. subst n0.
      intros n' q' [E|Hin]; [inversion E; subst; exact Hn|]. eapply Hi. right. exact Hin.
    + intros n' q' [E|Hin]; [eapply Hi; left; exact E|].
      eapply IH; [|exact Hin]. intros n1 q1 H1. eapply Hi. right. exact H1.
Qed.

Lemma qs_names_remove qs n : qs_names_short qs -> qs_names_short (qs_remove qs n).
Proof.
  intros Hi. induction qs as [|[n0 q0] r IH].
  - intros n' q' [].
  - assert (Hr : qs_names_short r) by (intros n1 q1 H1; eapply Hi; right; exact H1).
    cbn [qs_remove]. destruct (bytes_eqb n0 n); [exact (IH Hr)|].
    intros n' q' [E|Hin]; [eapply Hi; left; exact E|]. eapply IH; eauto.
Qed.

Lemma qs_names_ack qs n next :
  qs_names_short qs -> lenN n <= 65535 -> qs_names_short (ack_position qs n next).
Proof.
  intros Hi Hn. unfold ack_position. destruct (qs_get qs n) as [q|].
  - destruct (negb (mq_is_empty q) || negb (next_position q =? next)); [|exact Hi].
    now apply qs_names_put.
  - now apply qs_names_put.
Qed.

Lemma apply_entry_names qs file e qs' :
  qs_names_short qs -> lenN (entry_queue e) <= 65535 ->
  apply_entry qs file e = Some qs' -> qs_names_short qs'.
Proof.
  intros Hi Hn H. destruct e as [q pos recs|q p|q p|q p]; cbn [apply_entry entry_queue] in *.
  - set (qs1 := if qs_contains qs q then qs else ack_position qs q pos) in *.
    assert (Hi1 : qs_names_short qs1).
    { unfold qs1. destruct (qs_contains qs q); [exact Hi|now apply qs_names_ack]. }
    destruct (qs_get qs1 q) as [m|]; [|discriminate].
    destruct (append_all m file recs) as [m'|]; [|discriminate].
    inversion H; subst. now apply qs_names_put.
  - destruct (qs_get qs q) as [m|]; inversion H; subst; [now apply qs_names_put|exact Hi].
  - inversion H; subst. now apply qs_names_ack.
  - inversion H; subst. now apply qs_names_remove.
Qed.

Lemma entry_deser_bounds buf e :
  entry_deser buf = Some e -> lenN (entry_queue e) <= 65535 /\ entry_pos e < U64.
Proof.
  intros H. apply entry_deser_wf in H. destruct H as (_ & Hq & Hp & _).
  change (2 ^ 16) with 65536 in Hq. change (2 ^ 64) with U64 in Hp. lia.
Qed.

Section Replay.
Variable fs0 : fsT.
Hypothesis HBS : 7 <= BS P.
Hypothesis HBSu : dbg = true -> BS P + 65536 <= U64.

Definition rok (rd : rreaderS) : Prop := rd_ok rd /\ c_fs (rd_ctx rd) = fs0.
Definition frok (fr : freader rreaderS) : Prop := fr_ok rreaderS rok fr.

Lemma rok_block r : rok r -> lenN (rd_block r) = BS P.
Proof. intros [H _]. apply H. Qed.

Lemma rok_next r r' x : rok r -> rd_next P r = (r', x) -> rok r'.
Proof.
  intros [H E] Hn. destruct (rd_next_ok _ _ _ H Hn) as [H' E']. split; [exact H'|congruence].
Qed.

Lemma go_next_frok fuel rr rr' r :
  frok (rr_fr rr) -> go_next P rreaderS (rd_next P) rd_block fuel rr = (rr', r) -> frok (rr_fr rr').
Proof. apply (go_next_ok rreaderS (rd_next P) rd_block rok rok_block rok_next HBS HBSu). Qed.

Theorem replay_loop_guards_hold : forall fuel gofuel rr qs,
  frok (rr_fr rr) -> qs_inv qs ->
  (dbg = true -> qs_small qs /\ replay_small fuel gofuel rr qs) ->
  replay_loop_guards fuel gofuel rr qs.
Proof.
  induction fuel as [|fuel IH]; intros gofuel rr qs Hok Hi Hs; cbn [replay_loop_guards]; [exact I|].
  split.
  { apply (go_next_guards_hold rreaderS (rd_next P) rd_block rok rok_block rok_next HBS HBSu).
    exact Hok. }
  cbn [replay_small] in Hs.
  destruct (go_next P rreaderS (rd_next P) rd_block gofuel rr) as [rr1 res] eqn:Eg.
  pose proof (go_next_frok _ _ _ _ Hok Eg) as Hok1.
  destruct res as [| | |e|]; try exact I.
  - split; [apply entry_deser_guards_hold|].
    destruct (entry_deser (rr_buf rr1)) as [e|] eqn:Ed; [|apply IH; assumption].
    destruct (entry_deser_bounds _ _ Ed) as [Hq Hp].
    split.
    { apply apply_entry_guards_hold; [exact Hi|]. intros Hd. destruct (Hs Hd) as (H1 & H2 & _).
      split; [exact H1|split; [exact H2|exact Hp]]. }
    destruct (apply_entry qs (rd_file (fr_rd (rr_fr rr))) e) as [qs1|] eqn:Ea; [|exact I].
    apply IH; [exact Hok1|eapply apply_entry_inv; eauto|].
    intros Hd. destruct (Hs Hd) as (H1 & H2 & H3). split; [|exact H3].
    eapply apply_entry_small; eauto.
  - apply IH; assumption.
  - destruct (L_IO P); [apply IH; assumption|exact I].
Qed.

(* what the replay loop leaves behind *)
Lemma replay_loop_post : forall fuel gofuel rr qs rr' res,
  frok (rr_fr rr) -> replay_loop P fuel gofuel rr qs = (rr', res) -> frok (rr_fr rr').
Proof.
  induction fuel as [|fuel IH]; intros gofuel rr qs rr' res Hok H; cbn [replay_loop] in H.
  - inversion H; subst. exact Hok.
  - destruct (go_next P rreaderS (rd_next P) rd_block gofuel rr) as [rr1 r1] eqn:Eg.
    pose proof (go_next_frok _ _ _ _ Hok Eg) as Hok1.
    destruct r1 as [| | |e|].
    + destruct (entry_deser (rr_buf rr1)) as [e|]; [|eapply IH; eauto].
      destruct (apply_entry qs (rd_file (fr_rd (rr_fr rr))) e) as [qs1|]; [eapply IH; eauto|].
      inversion H; subst. exact Hok1.
    + inversion H; subst. exact Hok1.
    + eapply IH; eauto.
    + destruct (L_IO P); [eapply IH; eauto|inversion H; subst; exact Hok1].
    + inversion H; subst. exact Hok1.
Qed.

Lemma replay_loop_names : forall fuel gofuel rr qs rr' qs',
  qs_names_short qs -> replay_loop P fuel gofuel rr qs = (rr', RpDone qs') -> qs_names_short qs'.
Proof.
  induction fuel as [|fuel IH]; intros gofuel rr qs rr' qs' Hi H; cbn [replay_loop] in H.
  - discriminate.
  - destruct (go_next P rreaderS (rd_next P) rd_block gofuel rr) as [rr1 [| | |e|]].
    + destruct (entry_deser (rr_buf rr1)) as [e|] eqn:Ed; [|eapply IH; eauto].
      destruct (entry_deser_bounds _ _ Ed) as [Hq _].
      destruct (apply_entry qs (rd_file (fr_rd (rr_fr rr))) e) as [qs1|] eqn:Ea; [|discriminate].
      eapply IH; [|exact H]. eapply apply_entry_names; eauto.
    + inversion H; subst. exact Hi.
    + eapply IH; eauto.
    + destruct (L_IO P); [eapply IH; eauto|discriminate].
    + discriminate.
Qed.

Lemma replay_loop_small : forall fuel gofuel rr qs rr' qs',
  qs_small qs -> replay_small fuel gofuel rr qs ->
  replay_loop P fuel gofuel rr qs = (rr', RpDone qs') -> qs_small qs'.
Proof.
  induction fuel as [|fuel IH]; intros gofuel rr qs rr' qs' Hi Hs H;
    cbn [replay_loop] in H; cbn [replay_small] in Hs.
  - discriminate.
  - destruct (go_next P rreaderS (rd_next P) rd_block gofuel rr) as [rr1 [| | |e|]].
    + destruct (entry_deser (rr_buf rr1)) as [e|] eqn:Ed; [|eapply IH; eauto].
      destruct (entry_deser_bounds _ _ Ed) as [_ Hp]. destruct Hs as [He Hs].
      destruct (apply_entry qs (rd_file (fr_rd (rr_fr rr))) e) as [qs1|] eqn:Ea; [|discriminate].
      eapply IH; [|exact Hs|exact H]. eapply apply_entry_small; eauto.
    + inversion H; subst. exact Hi.
    + eapply IH; eauto.
    + destruct (L_IO P); [eapply IH; eauto|discriminate].
    + discriminate.
Qed.
End Replay.

(* ====================================================================== *)
(* 7. The read accessors (and the debug-log block of run_gc_if_necessary) *)
(* ====================================================================== *)

(* RollingBuffer::get_range(start..end) over the two VecDeque slices.
   mem/rolling_buffer.rs:69  `&left_part_of_queue[start..end]`
   mem/rolling_buffer.rs:71,72  `start - left.len()`, `end - left.len()`     (usize underflow)
   mem/rolling_buffer.rs:74  `&right_part_of_queue[start..end]`
   mem/rolling_buffer.rs:81  `Vec::with_capacity(end - start)`   (underflow; in release the wrapped
                              value makes with_capacity panic with "capacity overflow")
   mem/rolling_buffer.rs:82  `&left_part_of_queue[start..]`
   mem/rolling_buffer.rs:83  `end - left.len()`                               (usize underflow)
   mem/rolling_buffer.rs:84  `&right_part_of_queue[..end]`
   (lines 56 and 61, `pos + 1`, belong to bound kinds the callers never pass: only a..b and a..) *)
Definition ring_guards (left right : bytes) (s e : N) : Prop :=
  if e <? lenN left then s <= e /\ e <= lenN left
  else if lenN left <=? s then
    lenN left <= s /\ lenN left <= e /\
    s - lenN left <= e - lenN left /\ e - lenN left <= lenN right
  else
    s <= e /\ s <= lenN left /\ lenN left <= e /\ e - lenN left <= lenN right.

(* whatever way the ring buffer happens to be split *)
Definition get_range_guards (buf : bytes) (s e : N) : Prop :=
  forall left right, left ++ right = buf -> ring_guards left right s e.

Lemma get_range_guards_hold buf s e : s <= e -> e <= lenN buf -> get_range_guards buf s e.
Proof.
  intros Hs He left right <-. rewrite lenN_app in He. unfold ring_guards.
  destruct (N.ltb_spec e (lenN left)); [lia|].
  destruct (N.leb_spec (lenN left) s); lia.
Qed.

(* the closure of MemQueue::range's `.map` on record idx (mem/queue.rs:151-163).
   mem/queue.rs:150,152  `self.record_metas[idx]`  with idx in start_idx..len: in range by the
                          Range itself (an empty range when start_idx > len)
   mem/queue.rs:158      `get_range(start_offset..end_offset)`
   mem/queue.rs:160      `get_range(start_offset..)`                                        *)
Fixpoint records_guards (buf : bytes) (ms : list meta) : Prop :=
  match ms with
  | [] => True
  | m :: r =>
      let stop := match r with m' :: _ => m_off m' | [] => lenN buf end in
      get_range_guards buf (m_off m) stop /\ records_guards buf r
  end.

(* MemQueue::range: the iterator maps the records from start_idx on for as long as take_while's
   predicate `range.contains(position)` holds *)
Fixpoint range_iter_guards (buf : bytes) (lo hi : bound) (ms : list meta) : Prop :=
  match ms with
  | [] => True
  | m :: r =>
      if in_bounds lo hi (m_pos m) then
        let stop := match r with m' :: _ => m_off m' | [] => lenN buf end in
        get_range_guards buf (m_off m) stop /\ range_iter_guards buf lo hi r
      else True
  end.

Definition mq_range_guards (q : mq) (lo hi : bound) : Prop :=
  range_iter_guards (q_buf q) lo hi (dropN (range_start_idx lo (q_metas q)) (q_metas q)).

(* MemQueue::last_record: mem/queue.rs:72 `get_range(record.start_offset..)` *)
Definition mq_last_record_guards (q : mq) : Prop :=
  match last_opt (q_metas q) with
  | Some m => get_range_guards (q_buf q) (m_off m) (lenN (q_buf q))
  | None => True
  end.

Lemma records_guards_ok buf : forall ms lp lo,
  metas_ok lp lo (lenN buf) ms -> records_guards buf ms.
Proof.
  induction ms as [|m r IH]; intros lp lo H; cbn [records_guards]; [exact I|].
  cbn [metas_ok] in H. destruct H as (H1 & H2 & H3). split; [|eapply IH; exact H3].
  pose proof (metas_ok_lo_le _ _ _ _ H3) as H4.
  apply get_range_guards_hold.
  - destruct r as [|m' r']; [exact H4|]. cbn [metas_ok] in H3. lia.
  - destruct r as [|m' r']; [lia|]. cbn [metas_ok] in H3. destruct H3 as (_ & _ & H5).
    apply metas_ok_lo_le in H5. exact H5.
Qed.

Lemma records_guards_dropN buf : forall ms k, records_guards buf ms -> records_guards buf (dropN k ms).
Proof.
  induction ms as [|m r IH]; intros k H; [exact H|].
  cbn [dropN]. destruct (k =? 0); [exact H|]. apply IH. apply H.
Qed.

Lemma range_iter_guards_ok buf lo hi : forall ms, records_guards buf ms -> range_iter_guards buf lo hi ms.
Proof.
  induction ms as [|m r IH]; intros H; cbn [range_iter_guards]; [exact I|].
  destruct (in_bounds lo hi (m_pos m)); [|exact I]. destruct H as [H1 H2]. split; [exact H1|now apply IH].
Qed.

Theorem mq_range_guards_hold q lo hi : mq_inv q -> mq_range_guards q lo hi.
Proof.
  intros (Hm & _ & _). unfold mq_range_guards. apply range_iter_guards_ok, records_guards_dropN.
  eapply records_guards_ok. exact Hm.
Qed.

Theorem mq_last_record_guards_hold q : mq_inv q -> mq_last_record_guards q.
Proof.
  intros (Hm & _ & _). unfold mq_last_record_guards.
  destruct (last_opt (q_metas q)) as [m|] eqn:E; [|exact I].
  apply last_opt_In in E. destruct (metas_ok_off _ _ _ _ _ Hm E).
  apply get_range_guards_hold; lia.
Qed.

(* the public accessors of MultiRecordLog (multi_record_log.rs:323-367); the lookups return
   Result (MissingQueue), never unwrap.
   range          -> MemQueue::range
   last_record    -> MemQueue::last_record
   last_position  -> MemQueue::last_position = next_position().checked_sub(1): queue.rs:80 OVERFLOW
   summary        -> per queue: start_position, last_position (queue.rs:80 OVERFLOW), first_file_number
   list_queues    -> no site
   resource_usage -> only usize sums/products of in-memory sizes (see the table)            *)
Definition log_range_guards (st : state) (q : bytes) (lo hi : bound) : Prop :=
  match qs_get (s_qs st) q with Some m => mq_range_guards m lo hi | None => True end.
Definition log_last_record_guards (st : state) (q : bytes) : Prop :=
  match qs_get (s_qs st) q with Some m => mq_last_record_guards m | None => True end.
Definition log_last_position_guards (st : state) (q : bytes) : Prop :=
  match qs_get (s_qs st) q with Some m => next_position_guards m | None => True end.
Definition log_summary_guards (st : state) : Prop :=
  forall n q, In (n, q) (s_qs st) -> next_position_guards q.

Theorem accessors_guards_hold st :
  qs_inv (s_qs st) -> (dbg = true -> qs_small (s_qs st)) ->
  forall q lo hi,
    log_range_guards st q lo hi /\ log_last_record_guards st q /\
    log_last_position_guards st q /\ log_summary_guards st.
Proof.
  intros Hi Hs q lo hi.
  unfold log_range_guards, log_last_record_guards, log_last_position_guards, log_summary_guards.
  repeat split.
  - destruct (qs_get (s_qs st) q) as [m|] eqn:E; [|exact I].
    apply mq_range_guards_hold. eapply qs_inv_get; eauto.
  - destruct (qs_get (s_qs st) q) as [m|] eqn:E; [|exact I].
    apply mq_last_record_guards_hold. eapply qs_inv_get; eauto.
  - destruct (qs_get (s_qs st) q) as [m|] eqn:E; [|exact I].
    apply next_position_guards_hold. intros Hd. eapply qs_all_get; [exact (Hs Hd)|exact E].
  - intros n m Hin. apply next_position_guards_hold. intros Hd. exact (Hs Hd _ _ Hin).
Qed.

(* multi_record_log.rs:313-319, executed only when the DEBUG tracing level is enabled:
   :315 `self.in_mem_queues.get_queue(queue).unwrap()`  for queue in list_queues()
   :316 `queue.range(..).next()`                          -> mq_range_guards q Unb Unb
   :317 `queue.last_position()`                           -> next_position_guards         *)
Definition debug_log_guards (qs : queues) : Prop :=
  forall n, In n (map fst qs) ->
  match qs_get qs n with
  | Some q => mq_range_guards q Unb Unb /\ next_position_guards q
  | None => False
  end.

Lemma qs_get_key qs n : In n (map fst qs) -> qs_get qs n <> None.
Proof.
  induction qs as [|[n0 q0] r IH]; [intros []|].
  cbn [map fst qs_get]. intros [E|Hin].
  - subst n0. rewrite bytes_eqb_refl. discriminate.
  - destruct (bytes_eqb n0 n); [discriminate|now apply IH].
Qed.

Lemma debug_log_guards_hold qs :
  qs_inv qs -> (dbg = true -> qs_small qs) -> debug_log_guards qs.
Proof.
  intros Hi Hs n Hin. pose proof (qs_get_key _ _ Hin) as Hk.
  destruct (qs_get qs n) as [q|] eqn:E; [|congruence]. split.
  - apply mq_range_guards_hold. eapply qs_inv_get; eauto.
  - apply next_position_guards_hold. intros Hd. eapply qs_all_get; [exact (Hs Hd)|exact E].
Qed.

(* ====================================================================== *)
(* 8. into_writer, and the writes of the recovery-time GC                 *)
(* ====================================================================== *)

(* RollingReader::into_writer + RollingWriter::forward (all overflow-only).
   rolling/directory.rs:172  `self.block_id * crate::BLOCK_NUM_BYTES`
   rolling/directory.rs:241  `self.offset += num_bytes`
   (directory.rs:173 `offset as u64`, :240 `num_bytes as i64` are casts: no panic)          *)
Definition into_writer_guards (rd : rreaderS) (cursor : N) : Prop :=
  OVF (rd_block_id rd * BS P < U64) /\ OVF (rd_block_id rd * BS P + cursor < U64).

(* RollingWriter::write (BlockWrite).
   rolling/directory.rs:266  `assert!(buf.len() <= self.num_bytes_remaining_in_block())`
   rolling/directory.rs:267  `self.offset + buf.len()`                      (overflow)
   rolling/file_number.rs:64 `*curr.file_number + 1u64`                     (OVERFLOW; FileTracker::inc)
   (directory.rs:314 `BLOCK_NUM_BYTES - (self.offset % BLOCK_NUM_BYTES)` cannot underflow;
    directory.rs:294 `self.offset += buf.len()` is the same sum as :267 or starts from 0)    *)
Definition wr_write_guards (w : rwriter) (data : bytes) : Prop :=
  match data with
  | [] => True
  | _ =>
      let len := lenN data in
      len <= wr_rem P w /\
      OVF (w_off w + len < U64) /\
      if FILE_BYTES P <? w_off w + len then
        let w1 := sync_dir (sync_data (bw_flush w)) in
        match tracker_next (w_files w1) (w_file w1) with
        | Some _ => True
        | None => OVF (w_file w1 + 1 < U64)
        end
      else True
  end.

(* the padding half of FrameWriter::write_frame *)
Definition pad_step (w : rwriter) : rwriter * res N :=
  let rem := wr_rem P w in
  if rem <? HEADER_LEN
  then match wr_write P w (zerosN rem) with
       | (w1, Ok _) => (w1, Ok rem)
       | (w1, Err e) => (w1, Err e)
       end
  else (w, Ok 0).

Lemma write_frame_eq w t payload :
  write_frame P rwriter (wr_write P) (wr_rem P) w t payload =
  match pad_step w with
  | (w1, Err e) => (w1, Err e)
  | (w1, Ok padded) =>
      match wr_write P w1 (frame_bytes P t payload) with
      | (w2, Ok _) => (w2, Ok (padded + (HEADER_LEN + lenN payload)))
      | (w2, Err e) => (w2, Err e)
      end
  end.
Proof.
  unfold write_frame, pad_step. destruct (wr_rem P w <? HEADER_LEN); [|reflexivity].
  destruct (wr_write P w (zerosN (wr_rem P w))) as [w1 [u|e]]; reflexivity.
Qed.

(* FrameWriter::write_frame.
   frame/writer.rs:33  `&zero_bytes[..num_bytes_remaining_in_block]`       (zero_bytes: [u8; 7])
   frame/writer.rs:37  `self.buffer[..record_len].split_at_mut(HEADER_LEN)` (buffer: [u8; BS])
   frame/writer.rs:38  `buffer_record.copy_from_slice(payload)`             (equal lengths)
   frame/header.rs:19  `assert!(payload.len() < crate::BLOCK_NUM_BYTES)`
   frame/header.rs:44  `assert_eq!(dest.len(), HEADER_LEN)`; :45-47 `dest[..4]`, `dest[4..6]`,
                        `dest[6]` and their copy_from_slice (4 = 4, 2 = 2)
   frame/writer.rs:33,40  `self.wrt.write(..)`                              -> wr_write_guards
   (frame/header.rs:22 `payload.len() as u16` truncates silently; no panic)                  *)
Definition write_frame_guards (w : rwriter) (t : ftype) (payload : bytes) : Prop :=
  let rem := wr_rem P w in
  (if rem <? HEADER_LEN then rem <= HEADER_LEN /\ wr_write_guards w (zerosN rem) else True) /\
  match pad_step w with
  | (_, Err _) => True
  | (w1, Ok _) =>
      let record_len := HEADER_LEN + lenN payload in
      record_len <= BS P /\ HEADER_LEN <= record_len /\
      record_len - HEADER_LEN = lenN payload /\
      lenN payload < BS P /\
      lenN (header_bytes (crcf P (n2b (ft_code t)) payload) (lenN payload) t) = HEADER_LEN /\
      wr_write_guards w1 (frame_bytes P t payload)
  end.

(* RecordWriter::write_record's loop.
   recordlog/writer.rs:61  `&payload[..frame_payload_len]`
   recordlog/writer.rs:62  `&payload[frame_payload_len..]`
   (frame/writer.rs:59 `available - HEADER_LEN` is guarded by `>=`; recordlog/writer.rs:65
    `num_bytes_written += .. as u64`: u64 sum of bytes written, not covered)                  *)
Fixpoint wrl_guards (fuel : nat) (w : rwriter) (is_first : bool) (payload : bytes) : Prop :=
  match fuel with
  | O => True
  | S fuel' =>
      let n := N.min (max_writable P (wr_rem P w)) (lenN payload) in
      n <= lenN payload /\
      let frame_payload := takeN n payload in
      let rest := dropN n payload in
      let is_last := isnil rest in
      write_frame_guards w (frame_type is_first is_last) frame_payload /\
      match write_frame P rwriter (wr_write P) (wr_rem P) w (frame_type is_first is_last)
                        frame_payload with
      | (_, Err _) => True
      | (w1, Ok _) => if is_last then True else wrl_guards fuel' w1 false rest
      end
  end.

(* record_log_writer.write_record(record):  record.rs:111 `assert!(queue.len() <= u16::MAX)` in
   serialize, then the loop *)
Definition write_entry_guards (st : state) (e : entry) : Prop :=
  lenN (entry_queue e) <= 65535 /\
  wrl_guards (record_fuel P (entry_ser e)) (s_wr st) true (entry_ser e).

(* record_empty_queues_position (multi_record_log.rs:238-256).
   :242 `queue.next_position()`        -> next_position_guards (the queue is empty: no `+ 1` met)
   :250 `num_bytes_written += ..`       (u64 sum of bytes written, not covered)               *)
Fixpoint record_positions_guards (st : state) (names : list bytes) : Prop :=
  match names with
  | [] => True
  | n :: r =>
      match qs_get (s_qs st) n with
      | None => record_positions_guards st r
      | Some q =>
          next_position_guards q /\
          write_entry_guards st (EPosition n (next_position q)) /\
          match write_entry P st (EPosition n (next_position q)) with
          | (_, Err _) => True
          | (st1, Ok _) => record_positions_guards st1 r
          end
      end
  end.

(* run_gc_if_necessary (multi_record_log.rs:292-321).
   rolling/directory.rs:103  `self.files.first()` (unwrap, file_number.rs:17) after `count() >= 2 &&`
   rolling/file_number.rs:37 `self.files.first().unwrap()` in take_first_unused, after `len() < 2`
                             returned None: at each iteration of Directory::gc the tracker has
                             the shape f :: _ :: _  (the pattern of gc_loop)
   multi_record_log.rs:313-319  the debug-log block                          -> debug_log_guards *)
Definition run_gc_guards (st : state) (hint : list bytes) : Prop :=
  (2 <= lenN (w_files (s_wr st)) -> tracker_guard (w_files (s_wr st))) /\
  (if has_deletable st
   then record_positions_guards st (pick_order hint (empty_names (s_qs st)))
   else True) /\
  debug_log_guards (s_qs st).

(* ---------- the writer invariant ---------- *)
(* b: how many more roll-overs the file numbers can take (debug profile only) *)
Definition wr_inv (b : N) (w : rwriter) : Prop :=
  w_off w <= FILE_BYTES P /\
  (dbg = true -> w_file w + b < U64 /\ forall f, In f (w_files w) -> f + b < U64).

Lemma wr_inv_mono b b' w : wr_inv b w -> b' <= b -> wr_inv b' w.
Proof.
  intros [H1 H2] Hb. split; [exact H1|]. intros Hd. destruct (H2 Hd) as [H3 H4].
  split; [lia|]. intros f Hf. specialize (H4 f Hf). lia.
Qed.

Definition name_budget (n : bytes) : N := 2 * ((11 + lenN n) / (BS P - HEADER_LEN) + 3).
Definition names_budget (names : list bytes) : N :=
  fold_right (fun n acc => name_budget n + acc) 0 names.
Definition gc_budget (st : state) (hint : list bytes) : N :=
  names_budget (pick_order hint (empty_names (s_qs st))).

Section Writer.
Hypothesis HBS : 7 <= BS P.
Hypothesis HNB : 0 < NB P.
Hypothesis Hu : dbg = true -> FILE_BYTES P + BS P < U64.

Lemma BS_le_FILE : BS P <= FILE_BYTES P.
Proof.
  unfold FILE_BYTES. rewrite <- (N.mul_1_r (BS P)) at 1. apply N.mul_le_mono_l. lia.
Qed.

Lemma wr_rem_bounds w : 1 <= wr_rem P w /\ wr_rem P w <= BS P.
Proof.
  unfold wr_rem. assert (w_off w mod BS P < BS P) by (apply N.mod_lt; lia). lia.
Qed.

Lemma roll_prep_fields w :
  w_files (sync_dir (sync_data (bw_flush w))) = w_files w /\
  w_file (sync_dir (sync_data (bw_flush w))) = w_file w /\
  w_off (sync_dir (sync_data (bw_flush w))) = w_off w /\
  w_pending (sync_dir (sync_data (bw_flush w))) = [].
Proof.
  unfold sync_dir, sync_data, bw_flush, wr_ctx, flush_buf.
  destruct (w_pending w) eqn:E; cbn [w_files w_file w_off w_pending]; rewrite ?E; repeat split.
Qed.

Lemma flush_buf_fields w :
  w_files (flush_buf w) = w_files w /\ w_file (flush_buf w) = w_file w /\ w_off (flush_buf w) = w_off w.
Proof. unfold flush_buf. destruct (w_pending w); repeat split. Qed.

Lemma bw_write_all_fields w d :
  w_files (bw_write_all P w d) = w_files w /\ w_file (bw_write_all P w d) = w_file w /\
  w_off (bw_write_all P w d) = w_off w + lenN d.
Proof.
  unfold bw_write_all, bw_write_all0.
  destruct (flush_buf_fields w) as (F1 & F2 & F3).
  destruct (lenN d <? BS P - lenN (w_pending w)); cbn [w_files w_file w_off]; [repeat split|].
  destruct (BS P - lenN (w_pending w) <? lenN d);
    destruct (BS P <=? lenN d); cbn [w_files w_file w_off]; rewrite ?F1, ?F2, ?F3; repeat split.
Qed.

Lemma tracker_next_In files cur x : tracker_next files cur = Some x -> In x files.
Proof.
  induction files as [|y r IH]; cbn [tracker_next]; [discriminate|].
  destruct (cur <? y); [intros H; inversion H; now left|]. intros H. right. now apply IH.
Qed.

Lemma insert_sorted_In n : forall l f, In f (insert_sorted n l) -> f = n \/ In f l.
Proof.
  induction l as [|x r IH]; intros f; cbn [insert_sorted].
  - intros [E|[]]. now left.
  - destruct (n <? x); [intros [E|H]; [now left|now right]|].
    destruct (n =? x); [intros H; now right|].
    intros [E|H]; [right; now left|]. destruct (IH _ H); [now left|right; now right].
Qed.

Theorem wr_write_guards_hold w data :
  wr_inv 1 w -> lenN data <= wr_rem P w -> wr_write_guards w data.
Proof.
  intros [Ho Hf] Hl. unfold wr_write_guards. destruct data as [|x d]; [exact I|].
  pose proof (wr_rem_bounds w) as Hr.
  split; [exact Hl|]. split; [intros Hd; specialize (Hu Hd); lia|].
  destruct (FILE_BYTES P <? w_off w + lenN (x :: d)); [|exact I].
  destruct (roll_prep_fields w) as (F1 & F2 & _). rewrite F1, F2.
  destruct (tracker_next (w_files w) (w_file w)); [exact I|].
  intros Hd. exact (proj1 (Hf Hd)).
Qed.

Lemma wr_write_post b w data w' r :
  wr_inv (b + 1) w -> lenN data <= wr_rem P w -> wr_write P w data = (w', r) -> wr_inv b w'.
Proof.
  intros Hi Hl H. pose proof Hi as [Ho Hf]. unfold wr_write in H.
  destruct data as [|x d]; [inversion H; subst; eapply wr_inv_mono; [exact Hi|lia]|].
  pose proof (wr_rem_bounds w) as Hr. pose proof BS_le_FILE as HBF.
  destruct (N.ltb_spec (FILE_BYTES P) (w_off w + lenN (x :: d))) as [Hroll|Hno].
  - destruct (roll_prep_fields w) as (F1 & F2 & F3 & F4).
    set (w1 := sync_dir (sync_data (bw_flush w))) in *.
    destruct (tracker_next (w_files w1) (w_file w1)) as [nxt|] eqn:Et.
    + destruct (open_file (w_ctx w1) nxt) as [c [u|e]]; inj H.
      * destruct (bw_write_all_fields (mkWr c (w_files w1) nxt 0 []) (x :: d)) as (G1 & G2 & G3).
        split; [rewrite G3; cbn [w_off]; lia|]. rewrite G1, G2. cbn [w_files w_file].
        intros Hd. destruct (Hf Hd) as [H3 H4]. apply tracker_next_In in Et. rewrite F1 in *.
        split; [specialize (H4 _ Et); lia|]. intros f Hin. specialize (H4 _ Hin). lia.
      * unfold wr_ctx. cbn [w_off w_file w_files]. rewrite F1, F2, F3.
        eapply wr_inv_mono; [exact Hi|lia].
    + destruct (create_file P (w_ctx w1) (w_file w1 + 1)) as [c [u|e]]; inj H.
      * destruct (bw_write_all_fields (mkWr c (insert_sorted (w_file w1 + 1) (w_files w1))
                                            (w_file w1 + 1) 0 []) (x :: d)) as (G1 & G2 & G3).
        split; [rewrite G3; cbn [w_off]; lia|]. rewrite G1, G2. cbn [w_files w_file].
        rewrite F1, F2. intros Hd. destruct (Hf Hd) as [H3 H4].
        split; [lia|]. intros f Hin. apply insert_sorted_In in Hin.
        destruct Hin as [->|Hin]; [lia|]. specialize (H4 _ Hin). lia.
      * rewrite F1, F2, F3.
        split; [exact Ho|]. cbn [w_off w_file w_files]. intros Hd. destruct (Hf Hd) as [H3 H4].
        split; [lia|]. intros f Hin. specialize (H4 _ Hin). lia.
  - inj H. destruct (bw_write_all_fields w (x :: d)) as (G1 & G2 & G3).
    split; [rewrite G3; lia|]. rewrite G1, G2. intros Hd. destruct (Hf Hd) as [H3 H4].
    split; [lia|]. intros f Hin. specialize (H4 _ Hin). lia.
Qed.

Lemma wr_write_noroll w data w' r :
  w_off w + lenN data <= FILE_BYTES P -> wr_write P w data = (w', r) ->
  w_off w' = w_off w + lenN data.
Proof.
  intros Hno H. unfold wr_write in H.
  destruct data as [|x d]; [inversion H; subst; rewrite lenN_nil; lia|].
  destruct (N.ltb_spec (FILE_BYTES P) (w_off w + lenN (x :: d))) as [Hroll|_]; [lia|].
  inj H. apply bw_write_all_fields.
Qed.

(* padding never rolls over when the offset is within the file: the block ends inside the file *)
Lemma pad_arith off :
  off <= FILE_BYTES P -> BS P - off mod BS P < 7 ->
  off + (BS P - off mod BS P) <= FILE_BYTES P /\ (off + (BS P - off mod BS P)) mod BS P = 0.
Proof.
  intros Ho Hr. unfold FILE_BYTES in *.
  assert (Hb : BS P <> 0) by lia.
  pose proof (N.div_mod off (BS P) Hb) as Hdm. pose proof (N.mod_lt off (BS P) Hb) as Hlt.
  set (q := off / BS P) in *. set (r := off mod BS P) in *.
  assert (Hq : q + 1 <= NB P).
  { destruct (N.le_gt_cases (q + 1) (NB P)) as [|Hgt]; [assumption|].
    assert (NB P <= q) by lia.
    assert (BS P * NB P <= BS P * q) by (apply N.mul_le_mono_l; assumption). lia. }
  assert (Hm : BS P * (q + 1) <= BS P * NB P) by (apply N.mul_le_mono_l; assumption).
  assert (Hs : off + (BS P - r) = BS P * (q + 1)) by (rewrite N.mul_add_distr_l, N.mul_1_r; lia).
  rewrite Hs. split; [exact Hm|]. rewrite N.mul_comm. apply N.mod_mul. exact Hb.
Qed.

Lemma pad_step_post b w w1 r1 :
  wr_inv (b + 1) w -> pad_step w = (w1, r1) ->
  wr_inv b w1 /\ (forall k, r1 = Ok k -> max_writable P (wr_rem P w) + 7 <= wr_rem P w1).
Proof.
  intros Hi H. pose proof Hi as [Ho Hf]. unfold pad_step, HEADER_LEN in H.
  pose proof (wr_rem_bounds w) as Hr. unfold max_writable, HEADER_LEN.
  destruct (N.ltb_spec (wr_rem P w) 7) as [Hlt|Hge].
  - destruct (wr_write P w (zerosN (wr_rem P w))) as [w2 r2] eqn:Ew.
    assert (Hl : lenN (zerosN (wr_rem P w)) <= wr_rem P w) by (rewrite lenN_zerosN; lia).
    pose proof (wr_write_post _ _ _ _ _ Hi Hl Ew) as Hi2.
    unfold wr_rem in Hlt. destruct (pad_arith _ Ho Hlt) as [Ha1 Ha2].
    assert (Hno : w_off w + lenN (zerosN (wr_rem P w)) <= FILE_BYTES P)
      by (rewrite lenN_zerosN; exact Ha1).
    pose proof (wr_write_noroll _ _ _ _ Hno Ew) as Hoff. rewrite lenN_zerosN in Hoff.
    destruct r2 as [u|e]; inversion H; subst w1 r1; (split; [exact Hi2|]); intros k Hk; [|discriminate].
    assert (Hr2 : wr_rem P w2 = BS P) by (unfold wr_rem in Hoff |- *; rewrite Hoff, Ha2; lia).
    rewrite Hr2.
    destruct (N.leb_spec 7 (wr_rem P w)); lia.
  - inversion H; subst w1 r1. split; [eapply wr_inv_mono; [exact Hi|lia]|]. intros k _.
    destruct (N.leb_spec 7 (wr_rem P w)); lia.
Qed.

Theorem write_frame_guards_hold w t payload :
  wr_inv 2 w -> lenN payload <= max_writable P (wr_rem P w) -> write_frame_guards w t payload.
Proof.
  intros Hi Hl. unfold write_frame_guards. pose proof (wr_rem_bounds w) as Hr.
  assert (Hmw : max_writable P (wr_rem P w) + 7 <= BS P).
  { unfold max_writable, HEADER_LEN. destruct (N.leb_spec 7 (wr_rem P w)); lia. }
  split.
  - unfold HEADER_LEN. destruct (N.ltb_spec (wr_rem P w) 7); [|exact I]. split; [lia|].
    apply wr_write_guards_hold; [eapply wr_inv_mono; [exact Hi|lia]|rewrite lenN_zerosN; lia].
  - destruct (pad_step w) as [w1 r1] eqn:Ep.
    destruct (pad_step_post 1 _ _ _ Hi Ep) as [Hi1 Hk].
    destruct r1 as [k|e]; [|exact I]. specialize (Hk k eq_refl). unfold HEADER_LEN.
    split; [lia|]. split; [lia|]. split; [lia|]. split; [lia|]. split.
    + apply lenN_header_bytes.
    + apply wr_write_guards_hold; [exact Hi1|]. rewrite lenN_frame_bytes. unfold HEADER_LEN. lia.
Qed.

Lemma write_frame_post b w t payload w' r :
  wr_inv (b + 2) w -> lenN payload <= max_writable P (wr_rem P w) ->
  write_frame P rwriter (wr_write P) (wr_rem P) w t payload = (w', r) -> wr_inv b w'.
Proof.
  intros Hi Hl H. rewrite write_frame_eq in H.
  destruct (pad_step w) as [w1 r1] eqn:Ep.
  assert (Hi' : wr_inv (b + 1 + 1) w) by (eapply wr_inv_mono; [exact Hi|lia]).
  destruct (pad_step_post _ _ _ _ Hi' Ep) as [Hi1 Hk].
  destruct r1 as [k|e].
  - specialize (Hk k eq_refl).
    destruct (wr_write P w1 (frame_bytes P t payload)) as [w2 r2] eqn:Ew.
    assert (Hi2 : wr_inv b w2).
    { eapply wr_write_post; [exact Hi1| |exact Ew]. rewrite lenN_frame_bytes. unfold HEADER_LEN. lia. }
    destruct r2; inversion H; subst; exact Hi2.
  - inversion H; subst. eapply wr_inv_mono; [exact Hi1|lia].
Qed.

Theorem wrl_guards_hold : forall fuel w isf payload,
  wr_inv (2 * N.of_nat fuel) w -> wrl_guards fuel w isf payload.
Proof.
  induction fuel as [|fuel IH]; intros w isf payload Hi; cbn [wrl_guards]; [exact I|].
  set (n := N.min (max_writable P (wr_rem P w)) (lenN payload)).
  assert (Hn : lenN (takeN n payload) <= max_writable P (wr_rem P w))
    by (rewrite lenN_takeN; unfold n; lia).
  split; [unfold n; lia|]. split.
  - apply write_frame_guards_hold; [eapply wr_inv_mono; [exact Hi|lia]|exact Hn].
  - destruct (write_frame P rwriter (wr_write P) (wr_rem P) w
                (frame_type isf (isnil (dropN n payload))) (takeN n payload)) as [w1 [k|e]] eqn:Ew;
      [|exact I].
    destruct (isnil (dropN n payload)); [exact I|]. apply IH.
    eapply write_frame_post; [|exact Hn|exact Ew]. eapply wr_inv_mono; [exact Hi|lia].
Qed.

Lemma wrl_post : forall fuel b w isf payload acc w' r,
  wr_inv (b + 2 * N.of_nat fuel) w ->
  write_record_loop P rwriter (wr_write P) (wr_rem P) fuel w isf payload acc = (w', r) ->
  wr_inv b w'.
Proof.
  induction fuel as [|fuel IH]; intros b w isf payload acc w' r Hi H; cbn [write_record_loop] in H.
  - inversion H; subst. eapply wr_inv_mono; [exact Hi|lia].
  - set (n := N.min (max_writable P (wr_rem P w)) (lenN payload)) in *.
    assert (Hn : lenN (takeN n payload) <= max_writable P (wr_rem P w))
      by (rewrite lenN_takeN; unfold n; lia).
    destruct (write_frame P rwriter (wr_write P) (wr_rem P) w
                (frame_type isf (isnil (dropN n payload))) (takeN n payload)) as [w1 [k|e]] eqn:Ew.
    + assert (Hi1 : wr_inv (b + 2 * N.of_nat fuel) w1).
      { eapply write_frame_post; [|exact Hn|exact Ew]. eapply wr_inv_mono; [exact Hi|lia]. }
      destruct (isnil (dropN n payload)).
      * inversion H; subst. eapply wr_inv_mono; [exact Hi1|lia].
      * eapply IH; [exact Hi1|exact H].
    + inversion H; subst. eapply write_frame_post; [|exact Hn|exact Ew].
      eapply wr_inv_mono; [exact Hi|lia].
Qed.

Lemma entry_budget_position n p :
  2 * N.of_nat (record_fuel P (entry_ser (EPosition n p))) = name_budget n.
Proof.
  unfold record_fuel, name_budget. rewrite N2Nat.id, lenN_entry_ser.
  cbn [entry_queue entry_payload_bytes]. rewrite N.add_0_r. reflexivity.
Qed.

Theorem write_entry_guards_hold st e :
  wr_inv (2 * N.of_nat (record_fuel P (entry_ser e))) (s_wr st) ->
  lenN (entry_queue e) <= 65535 -> write_entry_guards st e.
Proof. intros Hi Hq. split; [exact Hq|]. apply wrl_guards_hold. exact Hi. Qed.

Lemma write_entry_post b st e st' r :
  wr_inv (b + 2 * N.of_nat (record_fuel P (entry_ser e))) (s_wr st) ->
  write_entry P st e = (st', r) -> wr_inv b (s_wr st') /\ s_qs st' = s_qs st.
Proof.
  intros Hi H. unfold write_entry, write_record in H.
  destruct (write_record_loop P rwriter (wr_write P) (wr_rem P) (record_fuel P (entry_ser e))
              (s_wr st) true (entry_ser e) 0) as [w r0] eqn:Ew.
  inversion H; subst st' r. cbn [set_wr s_wr s_qs]. split; [|reflexivity].
  eapply wrl_post; [exact Hi|exact Ew].
Qed.

Theorem record_positions_guards_hold : forall names st,
  qs_names_short (s_qs st) -> (dbg = true -> qs_small (s_qs st)) ->
  wr_inv (names_budget names) (s_wr st) -> record_positions_guards st names.
Proof.
  induction names as [|n r IH]; intros st Hn Hs Hi; cbn [record_positions_guards]; [exact I|].
  cbn [names_budget fold_right] in Hi. fold (names_budget r) in Hi.
  destruct (qs_get (s_qs st) n) as [q|] eqn:E.
  - split; [apply next_position_guards_hold; intros Hd; eapply qs_all_get; [exact (Hs Hd)|exact E]|].
    split.
    + apply write_entry_guards_hold.
      * rewrite entry_budget_position. eapply wr_inv_mono; [exact Hi|lia].
      * cbn [entry_queue]. apply qs_get_In' in E. eapply Hn; exact E.
    + destruct (write_entry P st (EPosition n (next_position q))) as [st1 [k|e]] eqn:Ew; [|exact I].
      destruct (write_entry_post (names_budget r) _ _ _ _ ltac:(rewrite entry_budget_position, N.add_comm; exact Hi) Ew)
        as [Hi1 Hq1].
      apply IH; [rewrite Hq1; exact Hn|rewrite Hq1; exact Hs|exact Hi1].
  - apply IH; [exact Hn|exact Hs|]. eapply wr_inv_mono; [exact Hi|lia].
Qed.

Theorem run_gc_guards_hold st hint :
  qs_inv (s_qs st) -> qs_names_short (s_qs st) -> (dbg = true -> qs_small (s_qs st)) ->
  wr_inv (gc_budget st hint) (s_wr st) -> run_gc_guards st hint.
Proof.
  intros Hq Hn Hs Hi. unfold run_gc_guards. split; [|split].
  - intros H2 E. rewrite E, lenN_nil in H2. lia.
  - destruct (has_deletable st); [|exact I]. apply record_positions_guards_hold; assumption.
  - apply debug_log_guards_hold; assumption.
Qed.
End Writer.

(* ====================================================================== *)
(* 9. MultiRecordLog::open_with_prefs, composed                           *)
(* ====================================================================== *)

(* everything up to and including into_writer (multi_record_log.rs:44-105) *)
Definition open_read_guards (fuel : nat) (fs : fsT) (plan : option fplan) : Prop :=
  rd_open_guards (ctx_init fs plan) /\
  match rd_open P (ctx_init fs plan) with
  | (_, Err _) => True
  | (_, Ok rd) =>
      replay_loop_guards fuel fuel (rr_open rreaderS rd) [] /\
      match replay_loop P fuel fuel (rr_open rreaderS rd) [] with
      | (rr, RpDone _) => into_writer_guards (fr_rd (rr_fr rr)) (fr_cursor (rr_fr rr))
      | _ => True
      end
  end.

(* the recovery-time GC (multi_record_log.rs:113) *)
Definition open_gc_guards (fuel : nat) (fs : fsT) (plan : option fplan) (pol : policy)
           (hint : list bytes) : Prop :=
  match rd_open P (ctx_init fs plan) with
  | (_, Err _) => True
  | (_, Ok rd) =>
      match replay_loop P fuel fuel (rr_open rreaderS rd) [] with
      | (rr, RpDone qs) =>
          let fr := rr_fr rr in
          let w := rd_into_writer P (fr_rd fr) (fr_cursor fr) in
          run_gc_guards (mkSt w qs pol) hint
      | _ => True
      end
  end.

Definition open_with_guards (fuel : nat) (fs : fsT) (plan : option fplan) (pol : policy)
           (hint : list bytes) : Prop :=
  open_read_guards fuel fs plan /\ open_gc_guards fuel fs plan pol hint.

Definition open_guards (fs : fsT) (plan : option fplan) (pol : policy) (hint : list bytes) : Prop :=
  open_with_guards (open_fuel P fs) fs plan pol hint.

(* the hypothesis of the debug profile, on the run of open itself: every entry decoded by the
   replay is small, and the file numbers leave room for the roll-overs of the GC writes *)
Definition open_small (fuel : nat) (fs : fsT) (plan : option fplan) (pol : policy)
           (hint : list bytes) : Prop :=
  match rd_open P (ctx_init fs plan) with
  | (_, Err _) => True
  | (_, Ok rd) =>
      replay_small fuel fuel (rr_open rreaderS rd) [] /\
      match replay_loop P fuel fuel (rr_open rreaderS rd) [] with
      | (rr, RpDone qs) =>
          let fr := rr_fr rr in
          let st := mkSt (rd_into_writer P (fr_rd fr) (fr_cursor fr)) qs pol in
          forall f, In f (rd_files (fr_rd fr)) -> f + gc_budget st hint < U64
      | _ => True
      end
  end.

Lemma frok_open fs0 rd : rd_ok rd -> c_fs (rd_ctx rd) = fs0 -> frok fs0 (rr_fr (rr_open rreaderS rd)).
Proof. intros H E. split; [split; assumption|]. cbn. lia. Qed.

Lemma into_writer_bound fs0 fr :
  frok fs0 fr ->
  rd_block_id (fr_rd fr) * BS P + fr_cursor fr <= lenN (fcontent fs0 (rd_file (fr_rd fr))).
Proof.
  intros [[(_ & _ & H1 & H2) E] Hc]. rewrite E in H2.
  rewrite N.mul_add_distr_r, N.mul_1_l in H1. lia.
Qed.

Theorem open_read_guards_hold fuel fs plan pol hint :
  7 <= BS P ->
  (dbg = true -> FILE_BYTES P + BS P + 65536 <= U64 /\ fs_bounded fs /\
                 open_small fuel fs plan pol hint) ->
  open_read_guards fuel fs plan.
Proof.
  intros HBS Hd. unfold open_read_guards. split; [apply rd_open_guards_hold|].
  unfold open_small in Hd.
  destruct (rd_open P (ctx_init fs plan)) as [c [rd|e]] eqn:Eo; [|exact I].
  destruct (rd_open_ok _ _ _ Eo) as (Hok & Hctx & Hbnd). cbn [ctx_init c_fs] in Hbnd.
  assert (HBSu : dbg = true -> BS P + 65536 <= U64) by (intros D; destruct (Hd D) as [? _]; lia).
  assert (Hfr : frok (c_fs c) (rr_fr (rr_open rreaderS rd))) by (apply frok_open; [exact Hok|now rewrite Hctx]).
  split.
  - apply (replay_loop_guards_hold (c_fs c) HBS HBSu); [exact Hfr|apply qs_inv_nil|].
    intros D. destruct (Hd D) as (_ & _ & Hs & _). split; [apply qs_all_nil|exact Hs].
  - destruct (replay_loop P fuel fuel (rr_open rreaderS rd) []) as [rr res] eqn:Er.
    destruct res as [qs| |e|]; try exact I.
    pose proof (replay_loop_post (c_fs c) HBS HBSu _ _ _ _ _ _ Hfr Er) as Hfr'.
    pose proof (into_writer_bound _ _ Hfr') as Hb.
    unfold into_writer_guards. split; intros D; destruct (Hd D) as (Hu & Hfb & _);
      specialize (Hbnd Hfb (rd_file (fr_rd (rr_fr rr)))); lia.
Qed.

Theorem open_gc_guards_hold fuel fs plan pol hint :
  7 <= BS P -> 0 < NB P -> fs_bounded fs ->
  (dbg = true -> FILE_BYTES P + BS P + 65536 <= U64 /\ open_small fuel fs plan pol hint) ->
  open_gc_guards fuel fs plan pol hint.
Proof.
  intros HBS HNB Hfb Hd. unfold open_gc_guards. unfold open_small in Hd.
  destruct (rd_open P (ctx_init fs plan)) as [c [rd|e]] eqn:Eo; [|exact I].
  destruct (rd_open_ok _ _ _ Eo) as (Hok & Hctx & Hbnd). cbn [ctx_init c_fs] in Hbnd.
  specialize (Hbnd Hfb).
  assert (HBSu : dbg = true -> BS P + 65536 <= U64) by (intros D; destruct (Hd D) as [? _]; lia).
  assert (Hu : dbg = true -> FILE_BYTES P + BS P < U64) by (intros D; destruct (Hd D) as [? _]; lia).
  assert (Hfr : frok (c_fs c) (rr_fr (rr_open rreaderS rd))) by (apply frok_open; [exact Hok|now rewrite Hctx]).
  destruct (replay_loop P fuel fuel (rr_open rreaderS rd) []) as [rr res] eqn:Er.
  destruct res as [qs| |e|]; try exact I.
  pose proof (replay_loop_post (c_fs c) HBS HBSu _ _ _ _ _ _ Hfr Er) as Hfr'.
  pose proof (into_writer_bound _ _ Hfr') as Hb.
  specialize (Hbnd (rd_file (fr_rd (rr_fr rr)))).
  apply (run_gc_guards_hold HBS HNB Hu); cbn [s_qs s_wr].
  - eapply replay_loop_inv; [apply qs_inv_nil|exact Er].
  - eapply replay_loop_names; [|exact Er]. intros n q [].
  - intros D. destruct (Hd D) as (_ & Hs & _).
    eapply replay_loop_small; [apply qs_all_nil|exact Hs|exact Er].
  - split; [unfold rd_into_writer; cbn [w_off]; lia|].
    intros D. destruct (Hd D) as (_ & _ & Hf). unfold rd_into_writer at 1 3. cbn [w_file w_files].
    split; [|exact Hf]. apply Hf. destruct Hfr' as [[(_ & Hin & _) _] _]. exact Hin.
Qed.

Theorem open_with_guards_hold fuel fs plan pol hint :
  7 <= BS P -> 0 < NB P -> fs_bounded fs ->
  (dbg = true -> FILE_BYTES P + BS P + 65536 <= U64 /\ open_small fuel fs plan pol hint) ->
  open_with_guards fuel fs plan pol hint.
Proof.
  intros HBS HNB Hfb Hd. split.
  - apply (open_read_guards_hold fuel fs plan pol hint HBS).
    intros D. destruct (Hd D). repeat split; assumption.
  - now apply open_gc_guards_hold.
Qed.

(* the queues open returns are small when the replayed entries were *)
Theorem open_with_small fuel fs plan pol hint st :
  open_small fuel fs plan pol hint ->
  open_with P fuel fs plan pol hint = OpenOk st -> qs_small (s_qs st).
Proof.
  unfold open_small, open_with.
  destruct (rd_open P (ctx_init fs plan)) as [c [rd|e]]; [|discriminate].
  destruct (replay_loop P fuel fuel (rr_open rreaderS rd) []) as [rr res] eqn:Er.
  destruct res as [qs| |e|]; try discriminate. intros [Hs _].
  set (st0 := mkSt _ qs pol). pose proof (run_gc_qs P st0 hint) as Hg.
  destruct (run_gc_if_necessary P st0 hint) as [st1 [k|e]]; [|discriminate].
  intros H. inversion H; subst. cbn [fst] in Hg. rewrite Hg. cbn [s_qs st0].
  eapply replay_loop_small; [apply qs_all_nil|exact Hs|exact Er].
Qed.

End Guards.

(* ====================================================================== *)
(* 10. The theorems                                                       *)
(* ====================================================================== *)

(* Release profile, ANY directory content (any names, kinds, lengths, bytes), any fault plan:
   no site of the directory scan, the rolling reader, the frame reader, the record reader, the
   record deserialisation, the replay into MemQueues or into_writer can panic. *)
Theorem open_read_panic_free P fs plan :
  7 <= BS P -> open_read_guards P false (open_fuel P fs) fs plan.
Proof.
  intros HBS. apply (open_read_guards_hold P false _ fs plan PNothing [] HBS). intros D; discriminate D.
Qed.

(* Release profile, the whole of open including the recovery-time GC and its writes: for every
   directory whose WAL files are not longer than FILE_NUM_BYTES.  The extra premise is
   necessary: see overlong_shape below. *)
Theorem open_panic_free P fs plan pol hint :
  7 <= BS P -> 0 < NB P -> fs_bounded P fs -> open_guards P false fs plan pol hint.
Proof.
  intros HBS HNB Hfb. apply open_with_guards_hold; try assumption. intros D; discriminate D.
Qed.

(* the statement in the requested form (7 < BS) *)
Corollary open_panic_free' P fs plan pol hint :
  7 < BS P -> 0 < NB P -> fs_bounded P fs -> open_guards P false fs plan pol hint.
Proof. intros H. apply open_panic_free. lia. Qed.

(* Debug profile (overflow checks on): additionally no arithmetic overflow, provided the sizes
   fit, every entry decoded during replay is small (record positions and truncate positions
   < 2^64 - 1) and the file numbers leave room for the roll-overs of the GC writes. *)
Theorem open_debug_panic_free P fs plan pol hint :
  7 <= BS P -> 0 < NB P -> FILE_BYTES P + BS P + 65536 <= U64 -> fs_bounded P fs ->
  open_small P (open_fuel P fs) fs plan pol hint ->
  open_guards P true fs plan pol hint.
Proof.
  intros HBS HNB Hu Hfb Hs. apply open_with_guards_hold; try assumption. intros _. split; assumption.
Qed.

(* The read accessors, on any state satisfying the representation invariant ... *)
Theorem accessors_panic_free st :
  qs_inv (s_qs st) ->
  forall q lo hi,
    log_range_guards st q lo hi /\ log_last_record_guards st q /\
    log_last_position_guards false st q /\ log_summary_guards false st.
Proof. intros Hi. apply accessors_guards_hold; [exact Hi|]. intros D; discriminate D. Qed.

Theorem accessors_debug_panic_free st :
  qs_inv (s_qs st) -> qs_small (s_qs st) ->
  forall q lo hi,
    log_range_guards st q lo hi /\ log_last_record_guards st q /\
    log_last_position_guards true st q /\ log_summary_guards true st.
Proof. intros Hi Hs. apply accessors_guards_hold; [exact Hi|]. intros _. exact Hs. Qed.

(* ... in particular on whatever open returns, for ANY directory *)
Corollary accessors_after_open P fs plan pol hint st :
  open P fs plan pol hint = OpenOk st ->
  forall q lo hi,
    log_range_guards st q lo hi /\ log_last_record_guards st q /\
    log_last_position_guards false st q /\ log_summary_guards false st.
Proof. intros H. apply accessors_panic_free. eapply open_inv. exact H. Qed.

Corollary accessors_after_open_debug P fs plan pol hint st :
  open_small P (open_fuel P fs) fs plan pol hint ->
  open P fs plan pol hint = OpenOk st ->
  forall q lo hi,
    log_range_guards st q lo hi /\ log_last_record_guards st q /\
    log_last_position_guards true st q /\ log_summary_guards true st.
Proof.
  intros Hs H. apply accessors_debug_panic_free; [eapply open_inv; exact H|].
  eapply open_with_small; [exact Hs|exact H].
Qed.

(* ====================================================================== *)
(* 11. The overflow sites, one by one                                     *)
(* ====================================================================== *)

(* what the release profile computes: wrapping u64 addition *)
Definition wadd (a b : N) : N := (a + b) mod U64.

Lemma wadd_exact a b : a + b < U64 -> wadd a b = a + b.
Proof. intros H. unfold wadd. apply N.mod_small. exact H. Qed.

(* MemQueue::next_position with u64 arithmetic *)
Definition next_position_u64 (q : mq) : N :=
  match last_opt (q_metas q) with Some m => wadd (m_pos m) 1 | None => q_start q end.

(* mem/queue.rs:80: with every record position < 2^64 - 1 the sum does not overflow, and the
   model's N arithmetic agrees with the u64 arithmetic of the code *)
Theorem next_position_no_overflow q :
  mq_small q -> next_position q < U64 /\ next_position_u64 q = next_position q.
Proof.
  intros [Hs Hm]. unfold next_position, next_position_u64.
  destruct (last_opt (q_metas q)) as [m|] eqn:E; [|split; [exact Hs|reflexivity]].
  apply last_opt_In in E. specialize (Hm _ E). split; [exact Hm|now apply wadd_exact].
Qed.

(* mem/queue.rs:175,176,183,193: `truncate_up_to_pos + 1` *)
Theorem truncate_pos_no_overflow p : p < U64 - 1 -> p + 1 < U64 /\ wadd p 1 = p + 1.
Proof. intros H. assert (p + 1 < U64) by (unfold U64 in *; lia). split; [assumption|now apply wadd_exact]. Qed.

(* rolling/file_number.rs:64: `*curr.file_number + 1u64` *)
Theorem file_inc_no_overflow f : f < U64 - 1 -> f + 1 < U64 /\ wadd f 1 = f + 1.
Proof. exact (truncate_pos_no_overflow f). Qed.

(* smallness is an invariant of the replay: apply_entry_small, replay_loop_small, open_with_small
   above; the entries themselves always carry positions < 2^64 (entry_deser_bounds) *)

(* ---------- F6: the known counterexample shape ---------- *)
(* one file, one block: a CRC-valid (real CRC-32) Full frame holding an AppendRecords entry whose
   record sits at position 2^64 - 1 = u64::MAX, then zeros *)
Definition P6 : params := mkParams 64 2 Crc.crc32 24 false false false.
Definition q6 : bytes := ["q"%byte].
Definition e6 : entry := EAppend q6 (U64 - 1) [(U64 - 1, ["x"%byte])].
Definition wal6 : bytes := set_len (frame_bytes P6 Full (entry_ser e6)) (FILE_BYTES P6).
Definition fs6 : fsT := [(filename 0, FFile wal6)].
(* open succeeds; the queue's next position is 2^64 = u64::MAX + 1: `record.position + 1`
   (mem/queue.rs:80) overflows in last_position() / summary() - and in open itself if anything
   else touches the queue or if DEBUG tracing is on; the release profile wraps to 0 *)
Example f6_shape :
  exists st q,
    open P6 fs6 None (PAlways false) [] = OpenOk st /\
    qs_get (s_qs st) q6 = Some q /\
    next_position q = U64 /\ next_position_u64 q = 0 /\
    ~ log_last_position_guards true st q6 /\
    ~ log_summary_guards true st.
Proof.
  eexists. eexists. split; [vm_compute; reflexivity|].
  split; [vm_compute; reflexivity|].
  split; [vm_compute; reflexivity|]. split; [vm_compute; reflexivity|]. split.
  - intros H. vm_compute in H. specialize (H eq_refl). discriminate H.
  - intros H. specialize (H _ _ (or_introl eq_refl)). vm_compute in H.
    specialize (H eq_refl). discriminate H.
Qed.
(* the release-profile theorem applies to it all the same *)
Example f6_release_ok : open_guards P6 false fs6 None (PAlways false) [].
Proof.
  apply open_panic_free; [vm_compute; discriminate|reflexivity|].
  intros n. unfold fcontent, fs6. cbn [fs_get]. destruct (bytes_eqb (filename 0) (filename n)).
  - unfold wal6. rewrite lenN_set_len'. lia.
  - rewrite lenN_nil. lia.
Qed.


(* and the hypothesis of the debug theorem fails on it, as it must *)
Example f6_not_small : ~ open_small P6 (open_fuel P6 fs6) fs6 None (PAlways false) [].
Proof.
  intros H. destruct f6_shape as (st & q & Ho & Hq & Hn & _).
  pose proof (open_with_small _ _ _ _ _ _ st H Ho) as Hs.
  pose proof (qs_all_get _ _ _ _ Hs Hq) as Hm.
  destruct (next_position_no_overflow _ Hm) as [Hlt _]. rewrite Hn in Hlt. lia.
Qed.

(* ---------- NEW FINDING: an over-long WAL file makes the GC writes of open hit an assert! ---------- *)
(* rolling/directory.rs:266 `assert!(buf.len() <= self.num_bytes_remaining_in_block())` is
   reachable from open when the file the reader ends in is longer than FILE_NUM_BYTES:
   into_writer then starts the writer at an offset beyond FILE_NUM_BYTES with fewer than
   HEADER_LEN bytes left in the block; the padding write of the first GC frame rolls over to a
   new file (offset = the padding, NOT a multiple of the block size), and the frame that follows,
   sized for a whole block by max_writable_frame_length, exceeds what is left of the block.
   Here with BS = 16, NB = 2 (FILE_BYTES = 32) and a constant checksum:
     wal-0 (32 bytes): the entry RecordPosition{"q", 0} in a First + a Last frame
     wal-1 (48 bytes): two garbage blocks, then a 5-byte Full frame ending at cursor 12
   Replay ends in block 2 of wal-1 at cursor 12: offset 44 > 32, 4 bytes left in the block;
   wal-0 is deletable and "q" is empty, so the GC writes RecordPosition{"q", 0}: 4 padding bytes
   (roll-over to wal-2, offset 4), then a 16-byte frame while 12 bytes remain: the assert fails.
   With the constants of the crate the same takes a wal file of more than NUM_BLOCKS_PER_FILE
   blocks and an empty queue whose name has about 32750 bytes or more.  Confirmed on the
   unmodified crate (scratch copy, cfg(test): 4 blocks per file; a 5-block wal-1 and a queue name
   of 32760 bytes): `MultiRecordLog::open` panics at src/rolling/directory.rs:266 in both the
   debug and the release profile. *)
Definition P16 : params := mkParams 16 2 (fun _ _ => 5) 0 false false false.
Definition ff (n : N) : bytes := map (fun _ => "255"%byte) (zerosN n).
Definition walX0 : bytes :=
  frame_bytes P16 First (takeN 9 (entry_ser (EPosition q6 0))) ++
  frame_bytes P16 Last (dropN 9 (entry_ser (EPosition q6 0))) ++ zerosN 6.
Definition walX1 : bytes := ff 32 ++ frame_bytes P16 Full (zerosN 5) ++ zerosN 4.
Definition fsX : fsT := [(filename 0, FFile walX0); (filename 1, FFile walX1)].

Example overlong_lengths : lenN walX0 = FILE_BYTES P16 /\ lenN walX1 = FILE_BYTES P16 + BS P16.
Proof. vm_compute. split; reflexivity. Qed.

(* the (total) model goes on and reports success *)
Example overlong_model_ok :
  exists st, open P16 fsX None (PAlways false) [] = OpenOk st.
Proof. eexists. vm_compute. reflexivity. Qed.


(* the state open has reached when it calls run_gc_if_necessary *)
Definition after_replay (P : params) (fuel : nat) (fs : fsT) (plan : option fplan) (pol : policy)
  : option state :=
  match rd_open P (ctx_init fs plan) with
  | (_, Ok rd) =>
      match replay_loop P fuel fuel (rr_open rreaderS rd) [] with
      | (rr, RpDone qs) =>
          Some (mkSt (rd_into_writer P (fr_rd (rr_fr rr)) (fr_cursor (rr_fr rr))) qs pol)
      | _ => None
      end
  | _ => None
  end.

Lemma open_gc_guards_after P dbg fuel fs plan pol hint :
  open_gc_guards P dbg fuel fs plan pol hint =
  match after_replay P fuel fs plan pol with
  | Some st => run_gc_guards P dbg st hint
  | None => True
  end.
Proof.
  unfold open_gc_guards, after_replay.
  destruct (rd_open P (ctx_init fs plan)) as [c [rd|e]]; [|reflexivity].
  destruct (replay_loop P fuel fuel (rr_open rreaderS rd) []) as [rr [qs| |e|]]; reflexivity.
Qed.

(* the writer starts at offset 44 with 4 bytes left in its block, and the guard of the assert
   fails in the first GC write: in Rust, open panics *)
Example overlong_shape :
  exists st,
    after_replay P16 (open_fuel P16 fsX) fsX None (PAlways false) = Some st /\
    w_off (s_wr st) = 44 /\ wr_rem P16 (s_wr st) = 4 /\
    ~ record_positions_guards P16 false st [q6].
Proof.
  eexists. split; [vm_compute; reflexivity|].
  split; [vm_compute; reflexivity|]. split; [vm_compute; reflexivity|].
  intros H. vm_compute in H.
  repeat match goal with X : _ /\ _ |- _ => destruct X end.
  match goal with X : Gt = Gt -> False |- _ => exact (X eq_refl) end.
Qed.

Example overlong_open_panics :
  ~ open_gc_guards P16 false (open_fuel P16 fsX) fsX None (PAlways false) [].
Proof.
  rewrite open_gc_guards_after. destruct overlong_shape as (st & E & _ & _ & Hn). rewrite E.
  intros (_ & H & _). apply Hn.
  assert (Hd : has_deletable st = true).
  { clear -E. vm_compute in E. inversion E. vm_compute. reflexivity. }
  rewrite Hd in H.
  assert (Hp : pick_order [] (empty_names (s_qs st)) = [q6]).
  { clear -E. vm_compute in E. inversion E. vm_compute. reflexivity. }
  rewrite Hp in H. exact H.
Qed.

(* the read half is fine on it (open_read_panic_free has no premise on the lengths) *)
Example overlong_read_ok : open_read_guards P16 false (open_fuel P16 fsX) fsX None.
Proof. apply open_read_panic_free. vm_compute. discriminate. Qed.

(* consequently the statement without the premise on the lengths is false *)
Example open_panic_free_needs_bounded_files :
  ~ (forall P fs plan pol hint, 7 < BS P -> open_guards P false fs plan pol hint).
Proof.
  intros H. apply overlong_open_panics.
  destruct (H P16 fsX None (PAlways false) [] ltac:(vm_compute; reflexivity)) as [_ Hg]. exact Hg.
Qed.

Print Assumptions open_read_panic_free.
Print Assumptions open_panic_free.
Print Assumptions open_panic_free'.
Print Assumptions open_debug_panic_free.
Print Assumptions accessors_panic_free.
Print Assumptions accessors_debug_panic_free.
Print Assumptions accessors_after_open.
Print Assumptions accessors_after_open_debug.
Print Assumptions next_position_no_overflow.
Print Assumptions truncate_pos_no_overflow.
Print Assumptions file_inc_no_overflow.
Print Assumptions f6_shape.
Print Assumptions f6_release_ok.
Print Assumptions f6_not_small.
Print Assumptions overlong_shape.
Print Assumptions overlong_open_panics.
Print Assumptions overlong_model_ok.
Print Assumptions overlong_read_ok.
Print Assumptions open_panic_free_needs_bounded_files.

(* ====================================================================== *)
(* 12. TABLE OF SITES                                                     *)
(* ====================================================================== *)
(*
 Status legend
   PROVED        : guard proved for ANY directory content and any fault plan (release theorem
                   open_read_panic_free / accessors_after_open; premise 7 <= BS only)
   PROVED/bounded: guard proved when no WAL file is longer than FILE_NUM_BYTES (open_panic_free;
                   premises 7 <= BS, 0 < NB, fs_bounded)
   FALSE         : guard fails on a concrete directory (counterexample in this file)
   OVF           : overflow-only site (panics only with overflow checks); "proved if" gives the
                   hypothesis of the debug theorems (open_debug_panic_free,
                   accessors_after_open_debug)
   NOT COVERED   : with the reason

 A. PANIC SITES OF EVERY PROFILE, reachable from MultiRecordLog::open
  rolling/directory.rs:26,30   &file_name[4..], file_name[4..]        PROVED  filename_to_position_guards_hold
                               (the char-boundary half rests on &str being UTF-8: not modelled)
  rolling/file_number.rs:12    from_file_numbers(vec![0]).unwrap()    PROVED  rd_open_guards_hold (constant)
  rolling/file_number.rs:17    files.first().unwrap()  called from
       directory.rs:72 (new tracker), :97/:151 (first_file_number),
       :103 (after count() >= 2), file_number.rs:37 (after len() >= 2) PROVED  rd_open_guards_hold, run_gc_guards_hold
                               (the tracker is never empty: rd_ok keeps rd_file in rd_files)
  rolling/file_number.rs:22    files.last().unwrap()  (directory.rs:88) PROVED rd_open_guards_hold
  frame/reader.rs:68           block()[cursor..][..HEADER_LEN]         PROVED  read_here_guards_hold
                               (needs: every block has exactly BS bytes - read_block_ok, rd_next_ok,
                                rd_open_ok - and cursor + 7 <= BS - need_skip_false)
  frame/header.rs:55           assert_eq!(data.len(), HEADER_LEN)      PROVED  read_here_guards_hold
  frame/header.rs:56-58        data[0] .. data[6]                      PROVED  read_here_guards_hold
  frame/reader.rs:93           block()[cursor..][..header.len()]       PROVED  read_here_guards_hold
                               (after the check `cursor + len > BLOCK_NUM_BYTES` of line 86)
  record.rs:158                buffer.split_at(11)                     PROVED  entry_deser_guards_hold
  record.rs:159                header[0]                               PROVED  entry_deser_guards_hold
  record.rs:160                header[1..9].try_into().unwrap()        PROVED  entry_deser_guards_hold
  record.rs:161                header[9..11].try_into().unwrap()       PROVED  entry_deser_guards_hold
  record.rs:170                body.split_at(queue_len)                PROVED  entry_deser_guards_hold
  record.rs:173                queue_bytes[..truncated_len]            PROVED  entry_deser_guards_hold
  record.rs:264                &self.buffer[self.byte_offset..]        PROVED  multi_guards_hold
  record.rs:271                buffer[0..8].try_into().unwrap()        PROVED  multi_guards_hold
  record.rs:272                buffer[8..12].try_into().unwrap()       PROVED  multi_guards_hold
  record.rs:274                &buffer[HEADER_LEN..]                   PROVED  multi_guards_hold
  record.rs:283                &buffer[..len]                          PROVED  multi_guards_hold
                               (both iterations: MultiRecord::new and multi_record_log.rs:71)
  mem/queue.rs:105             file_number.take().unwrap()             PROVED  append_record_guards_hold
  mem/queue.rs:186             record_metas[first_record_to_keep]      PROVED  truncate_head_guards_hold (mq_inv, idx_ge_lt)
  mem/queue.rs:187             record_metas.drain(..first_record_to_keep) PROVED truncate_head_guards_hold
  mem/rolling_buffer.rs:36     buffer.drain(..first_pos_to_keep)       PROVED  truncate_head_guards_hold (offsets inside the buffer)
  multi_record_log.rs:315      get_queue(queue).unwrap()  (DEBUG log)  PROVED  debug_log_guards_hold
  multi_record_log.rs:316      queue.range(..)            (DEBUG log)  PROVED  debug_log_guards_hold (see C)
  record.rs:111                assert!(queue.len() <= u16::MAX)        PROVED  write_entry_guards via qs_names_short
                               (names in memory were decoded from a u16 length: entry_deser_bounds,
                                replay_loop_names)
  recordlog/writer.rs:61,62    &payload[..n], &payload[n..]            PROVED  wrl_guards_hold
  frame/writer.rs:33           &zero_bytes[..remaining]                PROVED  write_frame_guards_hold
  frame/writer.rs:37           buffer[..record_len].split_at_mut(7)    PROVED  write_frame_guards_hold
  frame/writer.rs:38           buffer_record.copy_from_slice(payload)  PROVED  write_frame_guards_hold
  frame/header.rs:19           assert!(payload.len() < BLOCK_NUM_BYTES) PROVED write_frame_guards_hold
  frame/header.rs:44-47        assert_eq!(dest.len(), 7), dest[..4], dest[4..6], dest[6] PROVED write_frame_guards_hold
       (the five writer sites above are stated inside write_frame_guards, whose proof as a whole
        is under the premises of PROVED/bounded; they do not themselves depend on the offset)
  rolling/directory.rs:266     assert!(buf.len() <= num_bytes_remaining_in_block())
                               PROVED/bounded  wr_write_guards_hold, pad_step_post
                               FALSE for a directory with an over-long WAL file:
                               overlong_shape, overlong_open_panics,
                               open_panic_free_needs_bounded_files (NEW FINDING, confirmed on the
                               crate: open panics at rolling/directory.rs:266)

 B. NOT COVERED (every profile)
  persist_policy.rs:98         Instant::now() + interval (panics if the sum overflows): depends on
                               the PersistPolicy argument, not on the directory; time is not modelled
  allocation failure / stack   abort rather than unwind; outside the model
  tracing macros, std I/O      assumed panic-free (errors are Results: modelled as IoError)

 C. PANIC SITES OF EVERY PROFILE in the read accessors (on any state with qs_inv, in particular
    on whatever open returns for ANY directory: accessors_after_open)
  mem/queue.rs:150,152         record_metas[idx], idx in start_idx..len   PROVED (in range by the Range)
  mem/queue.rs:158,160,72      get_range(a..b), get_range(a..)  ->
  mem/rolling_buffer.rs:69     &left[start..end]                       PROVED  get_range_guards_hold
  mem/rolling_buffer.rs:74     &right[start..end]                      PROVED  get_range_guards_hold
  mem/rolling_buffer.rs:81     Vec::with_capacity(end - start)         PROVED  get_range_guards_hold
  mem/rolling_buffer.rs:82     &left[start..]                          PROVED  get_range_guards_hold
  mem/rolling_buffer.rs:84     &right[..end]                           PROVED  get_range_guards_hold
                               (for every split of the ring buffer; from mq_inv: offsets non-decreasing
                                and <= the buffer length: mq_range_guards_hold, mq_last_record_guards_hold)
  last_position, summary, list_queues, resource_usage: no site of this kind

 D. OVERFLOW SITES (debug profile only)
  mem/queue.rs:80              record.position + 1  (next_position; reached from append_record,
                               truncate_head, last_position, summary, the DEBUG log)
                               OVF proved if every record position met during replay is < 2^64 - 1
                               (next_position_guards_hold, next_position_no_overflow, replay_loop_small,
                               open_with_small); FALSE otherwise: f6_shape (known finding F6)
  mem/queue.rs:175,176,183,193 truncate_up_to_pos + 1
                               OVF proved if every Truncate position met during replay is < 2^64 - 1
                               (truncate_head_guards_hold, truncate_pos_no_overflow)
  rolling/file_number.rs:64    *curr.file_number + 1
                               OVF proved if every file number f of the directory satisfies
                               f + gc_budget < 2^64, gc_budget bounding the number of roll-overs of
                               the GC writes (wr_write_guards_hold, file_inc_no_overflow).  NB: "every
                               file number < 2^64 - 1" alone is not enough when the GC writes roll
                               over more than once (2^64 - 2 -> 2^64 - 1 -> overflow)
  frame/reader.rs:47           BLOCK_NUM_BYTES - cursor                PROVED unconditionally (cursor <= BS)
  frame/reader.rs:85,86,94     cursor += 7, cursor + len, cursor += len  OVF proved if BS + 65536 <= 2^64
  record.rs:281                byte_offset += 12 + len                 PROVED unconditionally (<= buffer length)
  mem/queue.rs:189             start_offset -= start_offset_to_keep    PROVED unconditionally (offsets non-decreasing)
  mem/rolling_buffer.rs:71,72,83  start - left.len(), end - left.len() PROVED unconditionally
  rolling/directory.rs:172,241 block_id * BS, offset += cursor         OVF proved if fs_bounded and FILE_BYTES + BS < 2^64
  rolling/directory.rs:267,294 offset + buf.len(), offset += buf.len() OVF proved if fs_bounded and FILE_BYTES + BS < 2^64
  rolling/directory.rs:314     BS - offset % BS                        cannot underflow (BS > 0)
  frame/writer.rs:59           available - HEADER_LEN                  cannot underflow (guarded by >=)
  NOT COVERED (sizes of in-memory objects or byte counters, bounded by the address space / by the
  bytes written; the model has no such bound):
  rolling/directory.rs:195     block_id += 1            (bounded by file length / BS: rd_ok)
  mem/queue.rs:144             idx + 1                  (<= record_metas.len())
  mem/rolling_buffer.rs:35     self.len() * 9 / 8
  mem/queue.rs:198,199,203,204; mem/queues.rs:170,176; rolling/directory.rs:250   (resource_usage)
  multi_record_log.rs:250; recordlog/writer.rs:65; frame/writer.rs:34,36,42       (byte counters)
*)
