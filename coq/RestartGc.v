(* RestartGc.v — (3) of task T4a: run_gc_if_necessary preserves the restart invariant.
   persist is invisible; the position records of the empty queues are ordinary writes; the
   deletion of a prefix of unreferenced files moves the entries whose first frame lies in a
   deleted file from E to PRE. *)
From Coq Require Import Lia ZArith ZifyN ZifyNat ZifyBool List Sorted.
From MRL Require Import Bytes BytesProofs Params Names NamesProofs Frame Record Mem Spec Rolling Log
  Driver SpecRefine RecordProofs StreamProofs PolicyProofs GcProofs GhostLog ReplaySpec
  HandleProofs FileStream ResyncProofs RestartInv RestartWrite.

Arguments N.add : simpl never.
Arguments N.sub : simpl never.
Arguments N.mul : simpl never.
Arguments N.eqb : simpl never.
Arguments N.ltb : simpl never.
Arguments N.leb : simpl never.
Arguments N.div : simpl never.
Arguments N.modulo : simpl never.
Arguments N.min : simpl never.
Arguments N.max : simpl never.


(* ====================================================================== *)
(* 0. moving the first m entries of E to PRE (no parameters)              *)
(* ====================================================================== *)

Definition gh_move (G : ghost) (m : nat) : ghost :=
  mkGhost (gh_base G) (gh_dropped G) (gh_pre G ++ firstn m (gh_E G)) (skipn m (gh_E G)).

Lemma gh_move_log G m : gh_log (gh_move G m) = gh_log G.
Proof. unfold gh_log, gh_move. cbn [gh_pre gh_E]. now rewrite <- app_assoc, firstn_skipn. Qed.

Lemma gh_move_ALL G m : gh_ALL (gh_move G m) = gh_ALL G.
Proof. unfold gh_ALL. now rewrite gh_move_log. Qed.

Lemma gh_move_before G m :
  gh_before (gh_move G m) = gh_before G ++ map snd (firstn m (gh_E G)).
Proof. unfold gh_before, gh_move. cbn [gh_dropped gh_pre]. now rewrite map_app, app_assoc. Qed.

Lemma gh_move_k G m : (m <= length (gh_E G))%nat -> gh_k (gh_move G m) = (gh_k G + m)%nat.
Proof.
  intros H. unfold gh_k, gh_move. cbn [gh_dropped gh_pre]. rewrite app_length, firstn_length. lia.
Qed.

Lemma nth_error_skipn' {A} : forall m (l : list A) i, nth_error (skipn m l) i = nth_error l (m + i).
Proof.
  induction m as [|m IH]; intros l i; [reflexivity|].
  destruct l as [|x l]; [now destruct i|]. cbn [skipn Nat.add nth_error]. apply IH.
Qed.

Lemma Forall2_Forall_r {A B} (R : A -> B -> Prop) (Q : B -> Prop) l1 l2 :
  Forall2 R l1 l2 -> Forall Q l2 -> Forall2 (fun a b => R a b /\ Q b) l1 l2.
Proof.
  induction 1 as [|a b l1 l2 Hab H IH]; intros HQ; [constructor|].
  inversion HQ; subst. constructor; [split; assumption|now apply IH].
Qed.

Lemma Forall2_impl' {A B} (R R' : A -> B -> Prop) l1 l2 :
  (forall a b, R a b -> R' a b) -> Forall2 R l1 l2 -> Forall2 R' l1 l2.
Proof. intros H. induction 1; constructor; auto. Qed.

Lemma records_of_nil buf ms : records_of buf ms = [] -> ms = [].
Proof. destruct ms; [reflexivity|discriminate]. Qed.

Lemma skipn_app_exact {A} (a b : list A) : skipn (length a) (a ++ b) = b.
Proof. induction a; [reflexivity|assumption]. Qed.

Lemma firstn_app_exact {A} (a b : list A) : firstn (length a) (a ++ b) = a.
Proof. induction a as [|x a IH]; [reflexivity|]. cbn [length app firstn]. now rewrite IH. Qed.


Lemma In_name_remove_conv h x : forall l, bytes_eqb h x = false -> In x l -> In x (name_remove h l).
Proof.
  induction l as [|y l IH]; intros Hne Hin; [contradiction|]. cbn [name_remove].
  destruct (bytes_eqb y h) eqn:Ey.
  - destruct Hin as [<-|Hin]; [|exact Hin]. rewrite bytes_eqb_sym in Ey. congruence.
  - destruct Hin as [<-|Hin]; [now left|]. right. now apply IH.
Qed.

Lemma In_pick_order_conv hint : forall remaining x,
  In x remaining -> In x (pick_order hint remaining).
Proof.
  induction hint as [|h r IH]; intros rem x Hx; cbn [pick_order]; [exact Hx|].
  destruct (name_mem h rem).
  - destruct (bytes_eqb h x) eqn:Ehx.
    + apply bytes_eqb_eq in Ehx. subst. now left.
    + right. apply IH. now apply In_name_remove_conv.
  - now apply IH.
Qed.

Lemma In_empty_names_conv qs q m : qs_get qs q = Some m -> mq_is_empty m = true -> In q (empty_names qs).
Proof.
  intros Eq Hem. unfold empty_names. apply (in_map fst _ (q, m)). apply filter_In.
  split; [now apply qs_get_In_eq|exact Hem].
Qed.

Section RestartGc.
Variable P : params.
Hypothesis HBS_lo : 7 < BS P.
Hypothesis HBS_hi : BS P <= 65542.
Hypothesis HNB : 1 <= NB P.
Hypothesis Hcrc : forall t p, crcf P t p < 2 ^ 32.
Hypothesis HGC : L_GC P = false.      (* the current code: the GC persists before unlinking *)

Local Notation B := (BS P).
Local Notation FB := (FILE_BYTES P).
Local Notation ffp := (first_frame_pos P).
Local Notation enc_of := (enc_of P).
Local Notation encs_of := (encs_of P).
Local Notation cursor_after := (cursor_after P).
Local Notation starts := (starts P).
Local Notation H3 f := (f P HBS_lo HBS_hi Hcrc) (only parsing).
Local Notation H2 f := (f P HBS_lo HBS_hi) (only parsing).
Local Notation HW f := (f P HBS_lo HBS_hi HNB Hcrc) (only parsing).
Local Notation HN f := (f P HBS_lo HBS_hi HNB) (only parsing).
Local Notation PInv := (PInv P).
Local Notation Inv := (Inv P).
Local Notation stream_bound := (stream_bound P).

(* ====================================================================== *)
(* 1. the invariant sees the writer through its key and its logical files *)
(* ====================================================================== *)

Lemma winv_transfer w w' :
  wkey w' = wkey w -> vfs w' = vfs w -> wf w' -> winv P w -> winv P w'.
Proof.
  intros Hk Hv Hwf (Hok & _ & Hoff & Hpl & Hfile & Hfull & Hfresh).
  destruct (wkey_inv _ _ Hk) as (Ef & Ec & Eo & Em).
  unfold winv. rewrite Hv, Ef, Ec, Eo.
  split; [eapply wr_ok_same; [exact Ef|exact Ec|exact Hok]|].
  split; [exact Hwf|]. split; [exact Hoff|].
  split; [unfold cmeta in Em; congruence|].
  split; [exact Hfile|]. split; assumption.
Qed.

Lemma pinv_transfer w w' G :
  wkey w' = wkey w -> vfs w' = vfs w -> wf w' -> wd_ok w' -> nd w' -> PInv w G -> PInv w' G.
Proof.
  intros Hk Hv Hwf Hwd Hnd (Hw & _ & _ & Hrest).
  destruct (wkey_inv _ _ Hk) as (Ef & Ec & Eo & Em).
  unfold RestartInv.PInv, wlo, wpos, wstream in *. rewrite Hv, Ef, Ec, Eo.
  split; [exact (winv_transfer w w' Hk Hv Hwf Hw)|]. split; [exact Hwd|]. split; [exact Hnd|].
  exact Hrest.
Qed.

Lemma pinv_persist w a G : PInv w G -> PInv (wr_persist w a) G.
Proof.
  intros HP. pose proof HP as ((_ & Hwf & _) & Hwd & Hnd & _).
  destruct (wr_persist_rel w a Hwf) as (_ & Hwf' & _).
  apply (pinv_transfer w); [apply wr_persist_key|apply wr_persist_vfs|exact Hwf'| | |exact HP].
  - now apply wr_persist_wd_ok.
  - now apply wr_persist_nd.
Qed.

Lemma wlo_persist w a : wlo (wr_persist w a) = wlo w.
Proof.
  destruct (wkey_inv _ _ (wr_persist_key w a)) as (Ef & Ec & _). unfold wlo. now rewrite Ef, Ec.
Qed.

Lemma inv_persist st a G : Inv st G -> Inv (persist st a) G.
Proof.
  intros (HP & HL). split; cbn [persist set_wr s_wr s_qs].
  - now apply pinv_persist.
  - now rewrite wlo_persist.
Qed.

Lemma inv_persist_on_policy st tick G : Inv st G -> Inv (persist_on_policy st tick) G.
Proof.
  intros H. unfold persist_on_policy. destruct (s_pol st) as [|a|a]; [exact H| |].
  - destruct tick; [now apply inv_persist|exact H].
  - now apply inv_persist.
Qed.

Lemma set_qs_same st qs : s_qs st = qs -> set_qs st qs = st.
Proof. intros <-. now destruct st. Qed.

(* ====================================================================== *)
(* 2. the position records of the empty queues                            *)
(* ====================================================================== *)

Definition gh_app (G : ghost) (l : glog) : ghost :=
  mkGhost (gh_base G) (gh_dropped G) (gh_pre G) (gh_E G ++ l).

Lemma gh_app_nil G : gh_app G [] = G.
Proof. unfold gh_app. rewrite app_nil_r. now destruct G. Qed.

Lemma gh_app_snoc G f e l : gh_app (gh_snoc G f e) l = gh_app G ((f, e) :: l).
Proof. unfold gh_app, gh_snoc. cbn [gh_base gh_dropped gh_pre gh_E]. now rewrite <- app_assoc. Qed.

Lemma gh_app_ALL G l : gh_ALL (gh_app G l) = gh_ALL G ++ map snd l.
Proof.
  unfold gh_ALL, gh_log, gh_app. cbn [gh_dropped gh_pre gh_E]. now rewrite !map_app, !app_assoc.
Qed.

(* the position record of an existing empty queue is legal and changes nothing *)
Lemma position_entry_facts qs lo G n q :
  LInv qs lo G -> qs_get qs n = Some q -> mq_is_empty q = true ->
  wf_entry (EPosition n (next_position q)) /\
  (forall F, t_replay [] 0 (gh_ALL G) = Some F -> legal F (EPosition n (next_position q))) /\
  (forall f, apply_entry qs f (EPosition n (next_position q)) = Some qs).
Proof.
  intros HL Eq Hem. pose proof HL as (Hwf & _).
  destruct (Hwf n q (qs_get_In_eq _ _ _ Eq)) as (Hn & Hp).
  split; [apply (wf_entry_simple EPosition); auto|]. split.
  - intros F EF. pose proof (LInv_tget qs lo G F HL EF n) as Ht. rewrite Eq in Ht.
    destruct (t_get F n) as [[rf nx]|] eqn:Et; [|contradiction].
    unfold untag_q, abs_q in Ht. cbn [fst snd] in Ht. inversion Ht as [[Hr Hx]].
    unfold mq_is_empty in Hem. apply isnil_true in Hem. rewrite Hem in Hr. cbn [records_of] in Hr.
    apply map_eq_nil in Hr. subst rf.
    cbn [legal]. right. exists (next_position q). rewrite Et, Hx. split; reflexivity.
  - intros f. cbn [apply_entry]. now rewrite (ack_position_empty_id qs n q Eq Hem).
Qed.

Lemma inv_record_positions names : forall st G acc st' r,
  Inv st G -> names_empty (s_qs st) names ->
  stream_bound G (map snd (rp_log P st names)) ->
  record_positions P st names acc = (st', r) ->
  (exists n, r = Ok n) /\ s_qs st' = s_qs st /\ s_pol st' = s_pol st /\
  wlo (s_wr st') = wlo (s_wr st) /\ w_file (s_wr st) <= w_file (s_wr st') /\
  Inv st' (gh_app G (rp_log P st names)) /\
  (forall n q, In n names -> qs_get (s_qs st) n = Some q ->
     exists f, In (f, EPosition n (next_position q)) (rp_log P st names) /\ w_file (s_wr st) <= f).
Proof.
  induction names as [|n names IH]; intros st G acc st' r HI Hne Hb Hrp.
  - cbn [record_positions] in Hrp. inversion Hrp; subst. cbn [rp_log]. rewrite gh_app_nil.
    split; [eexists; reflexivity|]. repeat (split; [reflexivity || lia || exact HI|]).
    intros n q [].
  - cbn [record_positions] in Hrp. cbn [rp_log] in *.
    assert (Hne' : names_empty (s_qs st) names).
    { intros n' q' Hin. apply Hne. now right. }
    destruct (qs_get (s_qs st) n) as [q|] eqn:Eq.
    + destruct (write_entry P st (EPosition n (next_position q))) as [st1 r1] eqn:Ew.
      pose proof HI as (_ & HL).
      destruct (position_entry_facts _ _ _ n q HL Eq (Hne n q (or_introl eq_refl) Eq))
        as (Hwf & Hleg & Hap).
      cbn [map snd] in Hb.
      assert (Hb1 : stream_bound G [EPosition n (next_position q)]).
      { eapply stream_bound_prefix; try eassumption. exact Hb. }
      destruct (inv_write_entry P HBS_lo HBS_hi HNB Hcrc st G _ st1 r1 (s_qs st) HI Hwf
                  Hb1 Hleg Ew (Hap _) (proj1 HL))
        as ((k & ->) & Eqs1 & Epol1 & Elo1 & Hm1 & HI1).
      rewrite (set_qs_same st1 _ Eqs1) in HI1.
      cbn [fst] in Hb. apply (stream_bound_snoc P G (w_file (s_wr st))) in Hb.
      rewrite <- Eqs1 in Hne'.
      destruct (IH st1 _ (acc + k) st' r HI1 Hne' Hb Hrp)
        as (Hr & Eqs & Epol & Elo & Hm & HI' & Hcov).
      rewrite gh_app_snoc in HI'.
      split; [exact Hr|]. split; [congruence|]. split; [congruence|]. split; [congruence|].
      split; [lia|]. split; [exact HI'|].
      intros n' q' [<-|Hin] Eq'.
      * rewrite Eq in Eq'. inversion Eq'; subst q'. exists (w_file (s_wr st)). split; [now left|lia].
      * rewrite <- Eqs1 in Eq'. destruct (Hcov n' q' Hin Eq') as (f & Hf & Hle).
        exists f. split; [now right|lia].
    + destruct (IH st G acc st' r HI Hne' Hb Hrp) as (Hr & Eqs & Epol & Elo & Hm & HI' & Hcov).
      repeat (split; [assumption|]).
      intros n' q' [<-|Hin] Eq'; [congruence|]. now apply Hcov.
Qed.

(* ====================================================================== *)
(* 3. the geometry of a GC pass                                           *)
(* ====================================================================== *)

Lemma fs_get_remove_none fs k name : fs_get fs name = None -> fs_get (fs_remove fs k) name = None.
Proof.
  induction fs as [|[n e] r IH]; cbn [fs_get fs_remove]; intros H; [reflexivity|].
  destruct (bytes_eqb n name) eqn:En; [discriminate|].
  destruct (bytes_eqb n k); [now apply IH|]. cbn [fs_get]. rewrite En. now apply IH.
Qed.

Lemma fs_get_remove_files_none dropped : forall fs name,
  fs_get fs name = None -> fs_get (remove_files fs dropped) name = None.
Proof.
  unfold remove_files. induction dropped as [|d r IH]; intros fs name H; cbn [fold_left]; [exact H|].
  apply IH. now apply fs_get_remove_none.
Qed.

Lemma fs_get_remove_files_other dropped : forall fs name,
  (forall y, In y dropped -> filename y <> name) ->
  fs_get (remove_files fs dropped) name = fs_get fs name.
Proof.
  unfold remove_files. induction dropped as [|d r IH]; intros fs name H; cbn [fold_left]; [reflexivity|].
  rewrite IH by (intros y Hy; apply H; now right).
  apply fs_get_remove_other. apply H. now left.
Qed.

Lemma chain_In : forall r lo0 hi,
  chain lo0 r -> last_opt (lo0 :: r) = Some hi -> forall x, lo0 <= x <= hi -> In x (lo0 :: r).
Proof.
  induction r as [|y r IH]; intros lo0 hi Hc Hl x Hx.
  - cbn [last_opt] in Hl. inversion Hl; subst. left. lia.
  - cbn [chain] in Hc. destruct Hc as (-> & Hc). rewrite last_opt_cons2 in Hl.
    destruct (N.eq_dec x lo0) as [->|Hne]; [now left|]. right.
    apply (IH (lo0 + 1) hi Hc Hl). lia.
Qed.

Lemma wr_ok_In w x : wr_ok w -> wlo w <= x <= w_file w -> In x (w_files w).
Proof.
  intros Hok Hx. pose proof (HN wr_ok_hd w Hok) as Hh. destruct Hok as [Hc Hl].
  destruct (w_files w) as [|lo0 r]; [contradiction|]. cbn [hd_error] in Hh. inversion Hh; subst lo0.
  exact (chain_In r _ _ Hc Hl x Hx).
Qed.

Lemma wr_ok_ge w x : wr_ok w -> In x (w_files w) -> wlo w <= x.
Proof.
  intros Hok Hx. pose proof (HN wr_ok_hd w Hok) as Hh. destruct Hok as [Hc Hl].
  destruct (w_files w) as [|lo0 r]; [contradiction|]. cbn [hd_error] in Hh. inversion Hh; subst lo0.
  destruct (chain_bounds r _ _ Hc Hl) as (_ & Hb). now apply Hb.
Qed.

Lemma gc_geometry w refd c files' :
  wr_ok w -> gc_loop (w_ctx w) (w_files w) refd = (c, files', Ok tt) ->
  let w' := mkWr c files' (w_file w) (w_off w) (w_pending w) in
  exists dropped,
    w_files w = dropped ++ files' /\ Forall (fun f => refd f = false) dropped /\
    wr_ok w' /\ wlo w' = wlo w + lenN dropped /\
    (forall x, wlo w <= x < wlo w' -> refd x = false) /\
    (forall x, In x dropped -> x < wlo w') /\
    c_fs c = remove_files (c_fs (w_ctx w)) dropped /\ c_plan c = c_plan (w_ctx w).
Proof.
  intros Hok Hgc w'.
  destruct (gc_loop_ok _ _ _ _ _ Hgc) as (dropped & Ef & Hun & _ & _ & Efs & Epl & _).
  pose proof (gc_loop_wr_ok w refd c files' _ Hgc Hok) as Hok'. fold w' in Hok'.
  destruct (wr_ok_len P (HN HB0) HNB w Hok) as (Hn & _).
  destruct (wr_ok_len P (HN HB0) HNB w' Hok') as (Hn' & _).
  cbn [w' w_files w_file] in Hn'. rewrite Ef, lenN_app in Hn.
  assert (Elo : wlo w' = wlo w + lenN dropped) by lia.
  assert (Hlt : forall x, In x dropped -> x < wlo w').
  { intros x Hx. pose proof (HN wr_ok_hd w' Hok') as Hh. cbn [w' w_files] in Hh.
    destruct files' as [|lo' post]; [discriminate|]. cbn [hd_error] in Hh. inversion Hh as [Hlo'].
    destruct (wr_ok_files w Hok) as (_ & _ & _ & Hs). rewrite Ef in Hs.
    destruct (sorted_split _ _ _ Hs) as (H1 & _). rewrite <- Hlo'. now apply H1. }
  exists dropped. repeat (split; [assumption|]). split; [|split; [|split]]; try assumption.
  intros x (Hx1 & Hx2).
  assert (Hin : In x (w_files w)).
  { apply wr_ok_In; [exact Hok|]. destruct Hok' as [Hc' Hl']. cbn [w' w_files w_file] in *.
    pose proof (wr_ok_ge w' (w_file w) (conj Hc' Hl')) as Hge. cbn [w' w_files] in Hge.
    specialize (Hge (last_opt_In _ _ Hl')). lia. }
  rewrite Ef in Hin. apply in_app_or in Hin. destruct Hin as [Hin|Hin].
  - rewrite Forall_forall in Hun. now apply Hun.
  - pose proof (wr_ok_ge w' x Hok' Hin). lia.
Qed.

(* ====================================================================== *)
(* 4. deleting a prefix of unreferenced files                             *)
(* ====================================================================== *)

Lemma inv_gc_drop st G refd c files' g :
  Inv st G -> w_pending (s_wr st) = [] ->
  gc_loop (w_ctx (s_wr st)) (w_files (s_wr st)) refd = (c, files', Ok tt) ->
  (forall x, refd x = false -> qs_ref x (s_qs st) = false) ->
  refd g = true -> wlo (s_wr st) <= g ->
  (forall q m, qs_get (s_qs st) q = Some m -> mq_is_empty m = true ->
     exists j f e, nth_error (gh_E G) j = Some (f, e) /\ creates e q = true /\ g <= f) ->
  exists m,
    Inv (set_wr st (mkWr c files' (w_file (s_wr st)) (w_off (s_wr st)) (w_pending (s_wr st))))
        (gh_move G m).
Proof.
  intros (HP & HL) Hpend Hgc Hrefq Hg Hglo Hempty.
  set (w := s_wr st) in *. set (qs := s_qs st) in *.
  destruct HP as (Hw & Hwd & Hnd & Hbase & Hc1 & Hc2 & Hs & HWf & HD1 & HD2 & Htags).
  cbn zeta in *.
  pose proof Hw as (Hok & Hwfw & Hoff & Hpl & Hfile & Hfull & Hfresh).
  destruct (gc_geometry w refd c files' Hok Hgc)
    as (dropped & Ef & Hun & Hok' & Elo & Hrange & Hlt & Efs & Epl).
  set (w' := mkWr c files' (w_file w) (w_off w) (w_pending w)) in *.
  set (d := lenN dropped) in *.
  set (dl := wlo w - gh_base G) in *.
  assert (Edl' : wlo w' - gh_base G = dl + d) by lia.
  set (b' := (dl + d) * FB).
  set (a0 := gh_a0 P G) in *. set (serE := gh_ser_E G) in *.
  remember (skipped_before P b' a0 serE) as sk eqn:Esk.
  remember (delivered_from P b' a0 serE) as dv eqn:Edv.
  assert (Esd : serE = sk ++ dv) by (subst sk dv; apply skipped_delivered).
  assert (Hsk : Forall (fun s => snd s < b') (starts a0 sk)) by (subst sk; apply skipped_starts).
  assert (Hdv : Forall (fun s => b' <= snd s) (starts (cursor_after a0 sk) dv)).
  { subst sk dv. apply (H3 delivered_starts). }
  clear Esk Edv.
  set (m := length sk).
  assert (HlenE : length serE = length (gh_E G)) by (unfold serE, gh_ser_E; now rewrite !map_length).
  assert (Hm : (m <= length (gh_E G))%nat).
  { rewrite <- HlenE, Esd, app_length. unfold m. lia. }
  assert (Em1 : map entry_ser (map snd (firstn m (gh_E G))) = sk).
  { rewrite <- !firstn_map. fold (gh_ser_E G). fold serE. rewrite Esd. apply firstn_app_exact. }
  assert (Em2 : map entry_ser (map snd (skipn m (gh_E G))) = dv).
  { rewrite <- !skipn_map. fold (gh_ser_E G). fold serE. rewrite Esd. apply skipn_app_exact. }
  assert (Estarts : starts a0 serE = starts a0 sk ++ starts (cursor_after a0 sk) dv).
  { rewrite Esd. apply (H3 starts_app). }
  assert (Hlsk : length (starts a0 sk) = m) by apply starts_length.
  (* an entry of E tagged with a kept file stays in E *)
  assert (Hkept : forall j f e, nth_error (gh_E G) j = Some (f, e) -> wlo w' <= f -> (m <= j)%nat).
  { intros j f e Ej Hf. destruct (Nat.le_gt_cases m j) as [|Hlt']; [assumption|exfalso].
    destruct (Forall2_nth_error _ _ _ _ _ HD2 Ej) as (s & Es & _ & Hs2). cbn [fst] in Hs2.
    rewrite Estarts, nth_error_app1 in Es by lia.
    rewrite Forall_forall in Hsk. pose proof (Hsk s (nth_error_In _ _ Es)) as Hlt2.
    assert (dl + d <= f - gh_base G) by lia.
    assert ((dl + d) * FB <= (f - gh_base G) * FB) by (apply N.mul_le_mono_r; assumption).
    unfold b' in Hlt2. lia. }
  (* the first kept file is not after a referenced one *)
  assert (Hkeep : forall x, refd x = true -> wlo w <= x -> wlo w' <= x).
  { intros x Hx Hxlo. destruct (N.le_gt_cases (wlo w') x) as [|Hxlt]; [assumption|exfalso].
    rewrite (Hrange x) in Hx by lia. discriminate. }
  exists m. split.
  - (* ---------- the physical half ---------- *)
    cbn [set_wr s_wr]. fold w'.
    assert (Evfs : vfs w = c_fs (w_ctx w)) by (apply vfs_nil; exact Hpend).
    assert (Evfs' : vfs w' = remove_files (vfs w) dropped).
    { rewrite Evfs, <- Efs. apply vfs_nil. exact Hpend. }
    assert (Hle : forall x, In x (w_files w) -> x <= U64_MAX).
    { intros x Hx. pose proof (wr_ok_le w x Hok Hx). lia. }
    assert (Hget : forall x, In x files' ->
              fs_get (vfs w') (filename x) = fs_get (vfs w) (filename x)).
    { intros x Hx. rewrite Evfs'. apply fs_get_remove_files_other. intros y Hy.
      pose proof (Hlt y Hy). pose proof (wr_ok_ge w' x Hok' Hx).
      apply filename_neq; [apply Hle|apply Hle|lia]; rewrite Ef; apply in_or_app; auto. }
    assert (Hw' : winv P w').
    { split; [exact Hok'|]. split; [exact Hwfw|]. split; [exact Hoff|].
      split; [cbn [w' w_ctx]; congruence|]. split; [exact Hfile|]. split.
      - intros x Hx. cbn [w' w_files] in Hx. rewrite (Hget x Hx). apply Hfull.
        rewrite Ef. apply in_or_app. now right.
      - intros x Hx1 Hx2. rewrite Evfs'. apply fs_get_remove_files_none. now apply Hfresh. }
    assert (En : lenN (w_files w) = d + lenN files') by (rewrite Ef, lenN_app; reflexivity).
    destruct (wr_ok_len P (HN HB0) HNB w' Hok') as (_ & Hn1'). cbn [w' w_files] in Hn1'.
    assert (Epos : (dl + d) * FB + wpos P w' = dl * FB + wpos P w).
    { unfold wpos. cbn [w' w_files w_off]. rewrite En. nia. }
    assert (ET : gh_T P (gh_move G m) = gh_T P G).
    { unfold gh_T, gh_ser. now rewrite gh_move_ALL. }
    unfold RestartInv.PInv. cbn zeta. change (gh_base (gh_move G m)) with (gh_base G).
    rewrite Edl', Epos, ET.
    split; [exact Hw'|].
    split; [exact (gc_loop_wd_ok w refd c files' _ Hgc Hwd)|].
    split; [unfold nd; cbn [w' w_ctx]; exact (gc_loop_nd _ _ _ _ _ _ Hgc Hnd)|].
    split; [lia|]. split; [exact Hc1|]. split; [exact Hc2|].
    split.
    { unfold wstream. cbn [w' w_files]. fold w'.
      rewrite (stream_of_ext (vfs w) (vfs w') files').
      2:{ intros x Hx. unfold fcontent. now rewrite (Hget x Hx). }
      assert (Hsplit : wstream w = stream_of (vfs w) dropped ++ stream_of (vfs w) files').
      { unfold wstream. now rewrite Ef, stream_of_app. }
      assert (Hld : lenN (stream_of (vfs w) dropped) = d * FB).
      { apply lenN_stream_of. intros x Hx. apply (winv_content P w x Hw).
        rewrite Ef. apply in_or_app. now left. }
      rewrite <- (dropN_app_exact' (d * FB) _ _ Hld), <- Hsplit, Hs, dropN_dropN.
      rewrite En. f_equal; [lia|]. do 2 f_equal. lia. }
    split; [rewrite gh_move_ALL; exact HWf|].
    assert (Ebef : gh_ser_before (gh_move G m) = gh_ser_before G ++ sk).
    { unfold gh_ser_before. now rewrite gh_move_before, map_app, Em1. }
    split.
    { rewrite Ebef, (H3 starts_app). apply Forall_app. split.
      - eapply Forall_impl; [|exact HD1]. cbn beta. intros s Hs0. nia.
      - exact Hsk. }
    split.
    { assert (Ea0 : gh_a0 P (gh_move G m) = cursor_after a0 sk).
      { unfold gh_a0. rewrite Ebef. apply (H3 cursor_after_app). }
      assert (EsE : gh_ser_E (gh_move G m) = dv) by exact Em2.
      rewrite Ea0, EsE. change (gh_E (gh_move G m)) with (skipn m (gh_E G)).
      pose proof (Forall2_skipn _ m _ _ HD2) as H2'.
      fold a0 in H2'. fold serE in H2'. rewrite Estarts, <- Hlsk, skipn_app_exact in H2'.
      rewrite Hlsk in H2'.
      pose proof (Forall2_Forall_r _ _ _ _ H2' Hdv) as H3'.
      eapply Forall2_impl'; [|exact H3']. cbn beta. intros fe s ((_ & Hx) & Hy). split; assumption. }
    rewrite gh_move_log. exact Htags.
  - (* ---------- the logical half ---------- *)
    cbn [set_wr s_wr s_qs]. fold w'. fold qs.
    pose proof HL as (Hqwf & Hleg & Hrep & F & EF & Hcov).
    destruct (LInv_views _ _ _ HL) as (F0 & S & EF0 & ES & Hp & _).
    rewrite EF in EF0. inversion EF0; subst F0. clear EF0.
    split; [exact Hqwf|]. split; [rewrite gh_move_ALL; exact Hleg|].
    split; [rewrite gh_move_log; exact Hrep|].
    exists F. split; [rewrite gh_move_ALL; exact EF|].
    intros q rf n Eq. destruct (Hcov q rf n Eq) as (Hc & Hr).
    change (gh_E (gh_move G m)) with (skipn m (gh_E G)). rewrite (gh_move_k G m Hm).
    assert (Hrec : Forall (fun r => exists j f e, fst r = (gh_k G + m + j)%nat /\
                     nth_error (skipn m (gh_E G)) j = Some (f, e) /\ wlo w' <= f /\
                     creates e q = true) rf).
    { apply Forall_forall. intros r Hin. rewrite Forall_forall in Hr.
      destruct (Hr r Hin) as (j & f & e & Ej & En & Hflo & Hcr).
      assert (Hf : wlo w' <= f).
      { apply Hkeep; [|exact Hflo].
        set (pre0 := map (pair 0) (gh_dropped G)).
        assert (ES' : t_replay [] (length pre0) (map snd (gh_log G)) = Some S).
        { unfold pre0. rewrite map_length. exact ES. }
        assert (EqS : t_get S q = Some (rf, n)) by (rewrite Hp; exact Eq).
        destruct (record_referenced pre0 (gh_log G) qs S q rf n r Hrep ES' EqS Hin)
          as (f' & Ef' & Href).
        assert (f' = f).
        { rewrite Ej in Ef'. unfold gh_log, gh_k in Ef'.
          rewrite !map_app in Ef'.
          rewrite nth_error_app2 in Ef' by (unfold pre0; rewrite !map_length; lia).
          rewrite nth_error_app2 in Ef' by (unfold pre0; rewrite !map_length; lia).
          unfold pre0 in Ef'. rewrite !map_length in Ef'.
          replace (length (gh_dropped G) + length (gh_pre G) + j - length (gh_dropped G) -
                   length (gh_pre G))%nat with j in Ef' by lia.
          rewrite (map_nth_error fst j (gh_E G) En) in Ef'. cbn [fst] in Ef'. congruence. }
        subst f'. destruct (refd f) eqn:Erf; [reflexivity|].
        rewrite (Hrefq f Erf) in Href. discriminate. }
      pose proof (Hkept j f e En Hf) as Hmj.
      exists (j - m)%nat, f, e. split; [lia|]. split; [|split; assumption].
      rewrite nth_error_skipn'. replace (m + (j - m))%nat with j by lia. exact En. }
    split; [|eapply Forall_impl; [|exact Hrec]; cbn beta;
             intros r (j & f & e & H1 & H2' & H3' & H4); now exists j, f, e].
    apply existsb_exists. destruct rf as [|r rf'].
    + pose proof (LInv_tget _ _ _ F HL EF q) as Ht. rewrite Eq in Ht.
      destruct (qs_get qs q) as [mq|] eqn:Eqq; [|contradiction].
      unfold untag_q, abs_q in Ht. cbn [fst snd map] in Ht. inversion Ht as [[Hrn Hnx]].
      symmetry in Hrn. apply records_of_nil in Hrn.
      assert (Hem : mq_is_empty mq = true) by (unfold mq_is_empty; now rewrite Hrn).
      destruct (Hempty q mq Eqq Hem) as (j & f & e & En & Hcr & Hgf).
      assert (Hf : wlo w' <= f) by (pose proof (Hkeep g Hg Hglo); lia).
      pose proof (Hkept j f e En Hf) as Hmj.
      exists e. split; [|exact Hcr]. apply (in_map snd _ (f, e)).
      apply (nth_error_In _ (j - m)). rewrite nth_error_skipn'.
      replace (m + (j - m))%nat with j by lia. exact En.
    + pose proof (Forall_inv Hrec) as (j & f & e & _ & En & _ & Hcr).
      exists e. split; [|exact Hcr]. apply (in_map snd _ (f, e)). exact (nth_error_In _ _ En).
Qed.

(* ====================================================================== *)
(* 5. (3) run_gc_if_necessary                                             *)
(* ====================================================================== *)

Lemma gh_app_log G l : gh_log (gh_app G l) = gh_log G ++ l.
Proof. unfold gh_log, gh_app. cbn [gh_pre gh_E]. now rewrite app_assoc. Qed.

Theorem inv_gc st G hint st' n :
  Inv st G -> stream_bound G (map snd (gc_log P st hint)) ->
  run_gc_if_necessary P st hint = (st', Ok n) ->
  exists G', Inv st' G' /\ s_qs st' = s_qs st /\ s_pol st' = s_pol st /\
    gh_base G' = gh_base G /\ gh_dropped G' = gh_dropped G /\
    gh_log G' = gh_log G ++ gc_log P st hint.
Proof.
  intros HI Hb Hgc. unfold run_gc_if_necessary in Hgc. unfold gc_log in *.
  destruct (has_deletable st) eqn:Hd.
  2:{ inversion Hgc; subst. exists G. rewrite app_nil_r. repeat (split; [reflexivity || exact HI|]).
      reflexivity. }
  set (names := pick_order hint (empty_names (s_qs st))) in *.
  unfold record_empty_queues_position in Hgc. fold names in Hgc.
  destruct (record_positions P st names 0) as [st0 r0] eqn:Erp.
  pose proof HI as (HP & HL).
  assert (Hne : names_empty (s_qs st) names).
  { apply pick_order_names_empty. exact (LInv_nodup _ _ _ HL). }
  destruct (inv_record_positions names st G 0 st0 r0 HI Hne Hb Erp)
    as ((k & ->) & Eqs0 & Epol0 & Elo0 & Hm0 & HI0 & Hcov).
  rewrite HGC in Hgc. cbn [andb] in Hgc.
  set (st1 := persist st0 true) in *.
  set (guard := w_file (s_wr st)) in *.
  destruct (gc_loop (w_ctx (s_wr st1)) (w_files (s_wr st1)) (referenced st1 guard))
    as [[c files'] [[]|e]] eqn:Egc; inversion Hgc; subst st' n. clear Hgc.
  assert (HI1 : Inv st1 (gh_app G (rp_log P st names))) by (apply inv_persist; exact HI0).
  assert (Eqs1 : s_qs st1 = s_qs st) by exact Eqs0.
  destruct (inv_gc_drop st1 _ (referenced st1 guard) c files' guard HI1) as (m & HI').
  - exact (synced_pending (s_wr st0)).
  - exact Egc.
  - intros x Hx. unfold referenced in Hx. apply orb_false_iff in Hx. tauto.
  - unfold referenced. now rewrite N.eqb_refl.
  - unfold st1. cbn [persist set_wr s_wr]. rewrite wlo_persist, Elo0.
    destruct HP as (Hw & _). exact (HN winv_wlo_le _ Hw).
  - intros q mq Eq Hem. rewrite Eqs1 in Eq.
    assert (Hin : In q names).
    { unfold names. apply In_pick_order_conv. exact (In_empty_names_conv _ _ _ Eq Hem). }
    destruct (Hcov q mq Hin Eq) as (f & Hf & Hle).
    destruct (In_nth_error _ _ (in_or_app (gh_E G) _ _ (or_intror Hf))) as (j & Ej).
    exists j, f, (EPosition q (next_position mq)). split; [exact Ej|]. split; [|exact Hle].
    cbn [creates]. apply bytes_eqb_refl.
  - exists (gh_move (gh_app G (rp_log P st names)) m). split; [exact HI'|].
    split; [exact Eqs1|]. split; [exact Epol0|]. split; [reflexivity|]. split; [reflexivity|].
    now rewrite gh_move_log, gh_app_log.
Qed.

End RestartGc.

Print Assumptions inv_record_positions.
Print Assumptions inv_gc_drop.
Print Assumptions inv_gc.
