(* PropC02.v — C02: a crash at any instant recovers to an atomic, consistent prefix (stream level: WAL = zero-prefilled stream, crash = any byte prefix of the entry in flight; every block size and checksum function). crc_collision P = a frame and its own zero-completed prefix have the same checksum.
   Statements only; each theorem is closed by `exact <lemma>`; proofs live in the imported files. *)
From Coq Require Import Lia NArith List.
From MRL Require Import Bytes Params Names Frame Record Mem Spec Rolling Log Driver Hist SpecRefine StreamProofs TornProofs GhostLog RestartInv RestartFinal OpenReplay TornFile CrashTrace NzcVacuous CrashAtomic JInv JunkStream CrashRecovered CrashRecovered2 CrashRecovered3 CrashHistories KTail CrashAt CrashAt2 CrashAt3.

(* THE PROPERTY, end to end: from any state satisfying the global invariant, under a flush-per-operation policy, for EVERY crash image of a call (cut between any two file-system effects - file creation, set_len, flush, sync, unlink - or after any number of bytes of any write): open succeeds and the recovered abstract state is that of all completed calls, or that plus the in-flight call (the model never shows a partially applied truncate/delete) *)
Theorem C02_crash_atomic :
    forall P : params,
    7 < BS P ->
    BS P <= 65542 ->
    1 <= NB P ->
    (forall (t : byte) (p : bytes), crcf P t p < 2 ^ 32) ->
    L_GC P = false ->
    L_IO P = false ->
    L_SHORT P = false ->
    no_zero_collision P ->
    forall (st : state) (G : ghost) (a : bool) (o : op) (tick : bool) (st' : state) (out : outcome),
    Inv P st G ->
    w_pending (s_wr st) = [] ->
    s_pol st = PAlways a ->
    op_wf_strict (s_qs st) o ->
    RestartWrite.stream_bound P G (map snd (step_log P st o)) ->
    crash_bound P G (map snd (step_log P st o)) (abs_qs (s_qs st)) ->
    crash_bound P G (map snd (step_log P st o)) (abs_qs (s_qs st')) ->
    step P st o tick = (st', out) ->
    (forall e : ioerr, out <> OutIo e) ->
    exists evs : list event,
    c_ev (w_ctx (s_wr st')) = rev evs ++ c_ev (w_ctx (s_wr st)) /\
    (forall (cut k : N) (pol : policy) (hint : list bytes),
    let img := fold_left apply_event (crash_events evs cut k) (c_fs (w_ctx (s_wr st))) in
    exists st_r : state,
    open P img None pol hint = OpenOk st_r /\
    ((forall q : bytes, s_get (abs_qs (s_qs st_r)) q = s_get (abs_qs (s_qs st)) q) \/
    (forall q : bytes, s_get (abs_qs (s_qs st_r)) q = s_get (abs_qs (s_qs st')) q))).
Proof. exact C02_crash_atomic. Qed.
Print Assumptions C02_crash_atomic.

(* from a fresh directory: after any hist_ok history with restarts under Always policies, a crash during the next call recovers to the specification state before or after that call *)
Theorem C02_history :
    forall P : params,
    7 < BS P ->
    BS P <= 65542 ->
    1 <= NB P ->
    (forall (t : byte) (p : bytes), crcf P t p < 2 ^ 32) ->
    L_GC P = false ->
    L_IO P = false ->
    L_SHORT P = false ->
    no_zero_collision P ->
    forall (a : bool) (st0 : state) (h : list hop) (st : state) (outs : list outcome)
    (o : op) (tick : bool) (st' : state) (out : outcome),
    open P [] None (PAlways a) [] = OpenOk st0 ->
    hrun P st0 h = Some (st, outs) ->
    hist_ok P st0 h ->
    always_hist a h ->
    op_wf_strict (s_qs st) o ->
    crash_phys_bound P (s_wr st) (map snd (step_log P st o)) (abs_qs (s_qs st)) ->
    crash_phys_bound P (s_wr st) (map snd (step_log P st o)) (abs_qs (s_qs st')) ->
    step P st o tick = (st', out) ->
    exists (m_before : smap) (souts : list sout) (m_after : smap) (so : sout)
    (evs : list event),
    s_run [] (map sop_of (hcalls h)) = (m_before, souts) /\
    s_step m_before (sop_of o) = (m_after, so) /\
    out_logical out = Some so /\
    c_ev (w_ctx (s_wr st')) = rev evs ++ c_ev (w_ctx (s_wr st)) /\
    (forall (cut k : N) (pol : policy) (hint : list bytes),
    let img := fold_left apply_event (crash_events evs cut k) (c_fs (w_ctx (s_wr st))) in
    exists st_r : state,
    open P img None pol hint = OpenOk st_r /\
    ((forall q : bytes, s_get (abs_qs (s_qs st_r)) q = s_get m_before q) \/
    (forall q : bytes, s_get (abs_qs (s_qs st_r)) q = s_get m_after q))).
Proof. exact C02_history. Qed.
Print Assumptions C02_history.

(* entry level: replaying the kept entries plus any prefix of the entries a call logs gives the state before the call (empty prefix) or after it (non-empty prefix): GC position entries are abstract no-ops *)
Theorem C02_call_entries_atomic :
    forall P : params,
    7 < BS P ->
    BS P <= 65542 ->
    1 <= NB P ->
    (forall (t : byte) (p : bytes), crcf P t p < 2 ^ 32) ->
    L_GC P = false ->
    forall (st : state) (G : ghost) (o : op) (tick : bool) (st' : state) (out : outcome),
    Inv P st G ->
    op_wf_strict (s_qs st) o ->
    RestartWrite.stream_bound P G (map snd (step_log P st o)) ->
    step P st o tick = (st', out) ->
    (forall e : ioerr, out <> OutIo e) ->
    forall Xd Xr : list entry,
    map snd (step_log P st o) = Xd ++ Xr ->
    forall tags : list N,
    length tags = (length (gh_E G) + length Xd)%nat ->
    exists qs' : queues,
    replay_entries [] (combine tags (map snd (gh_E G) ++ Xd)) = Some qs' /\
    qs_inv qs' /\
    nodup_names qs' /\
    (Xd = [] -> forall q : bytes, s_get (abs_qs qs') q = s_get (abs_qs (s_qs st)) q) /\
    (Xd <> [] -> forall q : bytes, s_get (abs_qs qs') q = s_get (abs_qs (s_qs st')) q).
Proof. exact call_entries_atomic. Qed.
Print Assumptions C02_call_entries_atomic.

(* all earlier entries are delivered, then nothing, or one Corruption, or the in-flight entry itself - the latter only if the missing bytes are all zero (the disk equals the fully written entry), or another entry only under a CRC collision *)
Theorem C02_torn_read :
    forall P : params,
    7 < BS P ->
    BS P <= 65542 ->
    (forall (t : byte) (p : bytes), crcf P t p < 2 ^ 32) ->
    forall (es : list bytes) (t x e : bytes) (k : nat) (j : N) (fuel gofuel : nat) (S0 : bytes),
    encs_rel P 0 es t ->
    enc_rel P (lenN t) true x e k ->
    j < lenN e ->
    S0 = mem_stream P (t ++ takeN j e) ->
    (length es + 3 <= fuel)%nat ->
    lenN S0 <= 7 * N.of_nat gofuel ->
    exists tail : list mem_read,
    mem_read_all P fuel gofuel (rr_start P S0) = map MrEntry es ++ tail /\
    (tail = [MrEnd] \/
    tail = [MrCorrupt; MrEnd] \/
    tail = [MrEntry x; MrEnd] /\ all_zero (dropN j e) = true \/
    (exists y : bytes, tail = [MrEntry y; MrEnd] /\ y <> x /\ crc_collision P)).
Proof. exact torn_read. Qed.
Print Assumptions C02_torn_read.

(* without such a collision: never anything that was not written *)
Theorem C02_torn_read_nocoll :
    forall P : params,
    7 < BS P ->
    BS P <= 65542 ->
    (forall (t : byte) (p : bytes), crcf P t p < 2 ^ 32) ->
    forall (es : list bytes) (t x e : bytes) (k : nat) (j : N) (fuel gofuel : nat) (S0 : bytes),
    no_zero_collision P ->
    encs_rel P 0 es t ->
    enc_rel P (lenN t) true x e k ->
    j < lenN e ->
    S0 = mem_stream P (t ++ takeN j e) ->
    (length es + 3 <= fuel)%nat ->
    lenN S0 <= 7 * N.of_nat gofuel ->
    exists tail : list mem_read,
    mem_read_all P fuel gofuel (rr_start P S0) = map MrEntry es ++ tail /\
    (tail = [MrEnd] \/
    tail = [MrCorrupt; MrEnd] \/ tail = [MrEntry x; MrEnd] /\ all_zero (dropN j e) = true).
Proof. exact torn_read_nocoll. Qed.
Print Assumptions C02_torn_read_nocoll.

(* stated from the writer, with the fuel the model uses *)
Theorem C02_torn_read_written :
    forall P : params,
    7 < BS P ->
    BS P <= 65542 ->
    (forall (t : byte) (p : bytes), crcf P t p < 2 ^ 32) ->
    forall (es : list bytes) (x : bytes) (j : N) (w w' : vecw) (S : bytes) (fuel : nat),
    w = fst (mem_write_all P {| vw_cursor := 0; vw_buf := [] |} es) ->
    w' = fst (write_record P vecw vw_write (vw_rem P) w x) ->
    lenN (vw_buf w) + j < lenN (vw_buf w') ->
    S = mem_stream P (takeN (lenN (vw_buf w) + j) (vw_buf w')) ->
    fuel = N.to_nat (lenN S / HEADER_LEN + lenN S / BS P + 4) ->
    exists tail : list mem_read,
    mem_read_all P fuel fuel (rr_start P S) = map MrEntry es ++ tail /\
    (tail = [MrEnd] \/
    tail = [MrCorrupt; MrEnd] \/
    tail = [MrEntry x; MrEnd] /\ all_zero (dropN (lenN (vw_buf w) + j) (vw_buf w')) = true \/
    (exists y : bytes, tail = [MrEntry y; MrEnd] /\ y <> x /\ crc_collision P)).
Proof. exact torn_read_written. Qed.
Print Assumptions C02_torn_read_written.

(* the reader stops at a position at or after everything written before the torn entry, from which every byte is zero, in the block where the torn data ends or at the start of the next *)
Theorem C02_torn_resume :
    forall P : params,
    7 < BS P ->
    BS P <= 65542 ->
    (forall (t : byte) (p : bytes), crcf P t p < 2 ^ 32) ->
    forall (es : list bytes) (t x e : bytes) (k : nat) (j : N) (fuel gofuel : nat) (S0 : bytes),
    encs_rel P 0 es t ->
    enc_rel P (lenN t) true x e k ->
    j < lenN e ->
    S0 = mem_stream P (t ++ takeN j e) ->
    (length es + 3 <= fuel)%nat ->
    lenN S0 <= 7 * N.of_nat gofuel ->
    exists r : N,
    at_pos P S0 (rr_fr (snd (mem_read_fin P fuel gofuel (rr_start P S0)))) r /\
    lenN t <= r /\
    all_zero (dropN r S0) = true /\
    lenN (t ++ takeN j e) / BS P * BS P <= r /\
    r <= (lenN (t ++ takeN j e) + BS P - 1) / BS P * BS P /\ r + BS P <= lenN S0.
Proof. exact torn_resume. Qed.
Print Assumptions C02_torn_resume.

(* the recovered log is usable: entries written from that position are read back after the earlier ones (the torn frame, if visible, is skipped as one Corruption) *)
Theorem C02_torn_then_append :
    forall P : params,
    7 < BS P ->
    BS P <= 65542 ->
    (forall (t : byte) (p : bytes), crcf P t p < 2 ^ 32) ->
    forall (es : list bytes) (t x e : bytes) (k : nat) (j : N) (fuel gofuel : nat) (S0 : bytes),
    encs_rel P 0 es t ->
    enc_rel P (lenN t) true x e k ->
    j < lenN e ->
    S0 = mem_stream P (t ++ takeN j e) ->
    (length es + 3 <= fuel)%nat ->
    lenN S0 <= 7 * N.of_nat gofuel ->
    forall r : N,
    at_pos P S0 (rr_fr (snd (mem_read_fin P fuel gofuel (rr_start P S0)))) r ->
    forall (es2 : list bytes) (t2 S' : bytes) (fuel' gofuel' : nat),
    encs_rel P r es2 t2 ->
    S' = mem_stream P (takeN r S0 ++ t2) ->
    (length es + length es2 + 3 <= fuel')%nat ->
    lenN S' <= 7 * N.of_nat gofuel' ->
    exists corr : list mem_read,
    mem_read_all P fuel' gofuel' (rr_start P S') = map MrEntry es ++ corr ++ map MrEntry es2 ++ [MrEnd] /\
    corr_ok P x e j corr.
Proof. exact torn_then_append. Qed.
Print Assumptions C02_torn_then_append.

(* one call only appends entries to the log (the in-flight call is the last entry group) *)
Theorem C02_one_call_one_logged_suffix :
    forall (P : params) (st : state) (L : glog) (o : op) (tick : bool),
    exists es : list (N * entry), snd (fst (gstep P (st, L) o tick)) = L ++ es.
Proof. exact gstep_log_extends. Qed.
Print Assumptions C02_one_call_one_logged_suffix.

(* the I/O trace of one call under a flush-per-operation policy: writes of exactly the bytes of the logged entries at the cursor, roll-over groups only at file boundaries, then flush/sync, then unlinks of a prefix of the files, then the policy's persist *)
Theorem C02_call_trace :
    forall P : params,
    7 < BS P ->
    BS P <= 65542 ->
    1 <= NB P ->
    (forall (t : byte) (p : bytes), crcf P t p < 2 ^ 32) ->
    L_GC P = false ->
    forall (st : state) (G : ghost) (a : bool) (o : op) (tick : bool) (st' : state) (out : outcome),
    Inv P st G ->
    w_pending (s_wr st) = [] ->
    s_pol st = PAlways a ->
    RestartWrite.stream_bound P G (map snd (step_log P st o)) ->
    step P st o tick = (st', out) ->
    (forall e : ioerr, out <> OutIo e) ->
    let w := s_wr st in
    exists evs : list event,
    c_ev (w_ctx (s_wr st')) = rev evs ++ c_ev (w_ctx w) /\
    c_fs (w_ctx (s_wr st')) = fold_left apply_event evs (c_fs (w_ctx w)) /\
    call_trace P (FileStream.wlo w) (w_file w) (w_off w) (call_bytes P st G o)
    (w_file (s_wr st')) (w_off (s_wr st')) evs /\ w_pending (s_wr st') = [].
Proof. exact step_call_trace. Qed.
Print Assumptions C02_call_trace.

(* EVERY crash image of a call (cut before any event, or after any number of bytes of a write): a contiguous file set, only the last created file possibly empty, and the stream = the old stream + a byte prefix of what the call writes + zeros; files are unlinked only once everything is written *)
Theorem C02_crash_image_shape :
    forall P : params,
    7 < BS P ->
    BS P <= 65542 ->
    1 <= NB P ->
    (forall (t : byte) (p : bytes), crcf P t p < 2 ^ 32) ->
    L_GC P = false ->
    forall (st : state) (G : ghost) (a : bool) (o : op) (tick : bool) (st' : state) (out : outcome),
    Inv P st G ->
    w_pending (s_wr st) = [] ->
    s_pol st = PAlways a ->
    op_wf_strict (s_qs st) o ->
    RestartWrite.stream_bound P G (map snd (step_log P st o)) ->
    step P st o tick = (st', out) ->
    (forall e : ioerr, out <> OutIo e) ->
    let w := s_wr st in
    let fs0 := c_fs (w_ctx w) in
    let lo := FileStream.wlo w in
    let T := gh_T P G in
    let c0 := call_cursor P st G in
    let NEW := call_bytes P st G o in
    exists evs : list event,
    c_ev (w_ctx (s_wr st')) = rev evs ++ c_ev (w_ctx w) /\
    c_fs (w_ctx (s_wr st')) = fold_left apply_event evs fs0 /\
    call_trace P lo (w_file w) (w_off w) NEW (w_file (s_wr st')) (w_off (s_wr st')) evs /\
    (forall cut k : N,
    let pe := crash_events evs cut k in
    let img := fold_left apply_event pe fs0 in
    let j := lenN (ev_data pe) in
    exists (nu : nat) (hi : N) (short : bool) (z : N),
    let lo' := lo + N.of_nat nu in
    lo' <= hi /\
    w_file w <= hi /\
    hi <= w_file (s_wr st') /\
    hi <= U64_MAX /\
    GcProofs.nodup_keys img /\
    GcProofs.dir_of img (nfiles lo' hi) /\
    list_wal_numbers img = nfiles lo' hi /\
    (forall n : N,
    lo' <= n <= hi ->
    exists b : bytes,
    fs_get img (filename n) = Some (FFile b) /\
    lenN b = (if short && (n =? hi) then 0 else FILE_BYTES P)) /\
    (short = true -> w_file w < hi /\ nu = 0%nat) /\
    ev_data pe = takeN j NEW /\
    j <= lenN NEW /\
    FileStream.stream_of (zext P img hi) (nfiles lo' hi) =
    dropN ((lo' - gh_base G) * FILE_BYTES P) (T ++ zerosN (c0 - lenN T) ++ takeN j NEW ++ zerosN z) /\
    c0 + j + z = (hi + 1 - gh_base G) * FILE_BYTES P /\ (nu <> 0%nat -> j = lenN NEW)).
Proof. exact crash_image_shape. Qed.
Print Assumptions C02_crash_image_shape.

(* open on such a directory (short last file included): replays the kept entries and a prefix of the entries in flight - those completely written, plus the next one only if its missing bytes are zero - and nothing else; the writer resumes where only zeros follow (or at most 6 bytes of a torn header that its next header overwrites) *)
Theorem C02_open_torn :
    forall P : params,
    7 < BS P ->
    BS P <= 65542 ->
    1 <= NB P ->
    (forall (t : byte) (p : bytes), crcf P t p < 2 ^ 32) ->
    no_zero_collision P ->
    forall (fs : fsT) (lo : N) (n : nat),
    list_wal_numbers fs = GcProofs.iota lo (S n) ->
    (forall f : N,
    In f (GcProofs.iota lo (S n)) ->
    exists b : bytes,
    fs_get fs (filename f) = Some (FFile b) /\
    lenN b <= FILE_BYTES P /\ (f <> lo + N.of_nat n -> lenN b = FILE_BYTES P)) ->
    forall base : N,
    base <= lo ->
    forall (E_all X : list entry) (T : bytes) (c0 j z : N) (pol : policy) (hint : list bytes),
    L_IO P = false ->
    L_SHORT P = false ->
    Forall RecordProofs.wf_entry E_all ->
    Forall RecordProofs.wf_entry X ->
    encs_rel P 0 (map entry_ser E_all) T ->
    lenN T <= c0 ->
    c0 <= ResyncProofs.first_frame_pos P (lenN T) ->
    (lo - base) * FILE_BYTES P <= c0 ->
    j <= lenN (ResyncProofs.encs_of P c0 (map entry_ser X)) ->
    let S_all :=
    T ++ zerosN (c0 - lenN T) ++ takeN j (ResyncProofs.encs_of P c0 (map entry_ser X)) ++ zerosN z in
    FileStream.stream_of (fs_ext P fs lo n) (GcProofs.iota lo (S n)) =
    dropN ((lo - base) * FILE_BYTES P) S_all ->
    lenN S_all = (lo + N.of_nat n - base + 1) * FILE_BYTES P ->
    exists (w0 : rwriter) (tags : list N) (E_pre E_suf X1 Xr Xd : list entry)
    (pf : N),
    E_all = E_pre ++ E_suf /\
    map entry_ser E_pre =
    ResyncProofs.skipped_before P ((lo - base) * FILE_BYTES P) 0 (map entry_ser E_all) /\
    map entry_ser E_suf =
    ResyncProofs.delivered_from P ((lo - base) * FILE_BYTES P) 0 (map entry_ser E_all) /\
    X = X1 ++ Xr /\
    lenN (ResyncProofs.encs_of P c0 (map entry_ser X1)) <= j /\
    match Xr with
    | [] => j = lenN (ResyncProofs.encs_of P c0 (map entry_ser X))
    | x :: _ => j < lenN (ResyncProofs.encs_of P c0 (map entry_ser (X1 ++ [x])))
    end /\
    (Xd = X1 \/
    (exists (x : entry) (X2 : list entry),
    Xr = x :: X2 /\
    Xd = X1 ++ [x] /\
    all_zero (dropN j (ResyncProofs.encs_of P c0 (map entry_ser (X1 ++ [x])))) = true)) /\
    fspec P lo n base (fs_ext P fs lo n) w0 tags
    (ResyncProofs.starts P
    (ResyncProofs.cursor_after P 0
    (ResyncProofs.skipped_before P ((lo - base) * FILE_BYTES P) 0 (map entry_ser E_all)))
    (map entry_ser (E_suf ++ Xd))) pf /\
    lenN T <= pf /\
    (Xd <> [] -> c0 + lenN (ResyncProofs.encs_of P c0 (map entry_ser Xd)) <= pf) /\
    pf <= lenN S_all /\
    (forall m : N, c0 + j <= m * BS P -> (lo - base) * FILE_BYTES P <= m * BS P -> pf <= m * BS P) /\
    resume_ok P S_all pf /\
    match replay_entries [] (combine tags (E_suf ++ Xd)) with
    | Some qs => open P fs None pol hint = open_finish P w0 qs pol hint
    | None => exists c' : ioctx, open P fs None pol hint = OpenCorruption c'
    end.
Proof. exact open_torn. Qed.
Print Assumptions C02_open_torn.

(* non-vacuity of the standing hypotheses: for every block size and blocks-per-file there are parameters with a checksum below 2^32 satisfying no_zero_collision (now bounded to frame payloads) *)
Theorem C02_hypotheses_satisfiable :
    forall BSv NBv : N,
    7 < BSv ->
    BSv <= 65542 ->
    exists P : params,
    BS P = BSv /\
    NB P = NBv /\
    7 < BS P /\
    BS P <= 65542 /\
    (forall (t : byte) (p : bytes), crcf P t p < 2 ^ 32) /\
    no_zero_collision P /\ L_GC P = false /\ L_IO P = false /\ L_SHORT P = false.
Proof. exact torn_hyps_sat. Qed.
Print Assumptions C02_hypotheses_satisfiable.

(* why the bound is needed: the same condition over payloads of ANY length contradicts a 32-bit checksum (pigeonhole) - found by the proof effort itself *)
Theorem C02_unbounded_hypothesis_inconsistent :
    forall P : params,
    (forall (t : byte) (p : bytes), crcf P t p < 2 ^ 32) ->
    (forall (ty : byte) (fp : list byte) (n : N),
    n < lenN fp ->
    crcf P ty (takeN n fp ++ zerosN (lenN fp - n)) = crcf P ty fp ->
    takeN n fp ++ zerosN (lenN fp - n) = fp) -> False.
Proof. exact nzc_inconsistent. Qed.
Print Assumptions C02_unbounded_hypothesis_inconsistent.

(* "THE RECOVERED LOG IS FULLY USABLE", end to end: for every crash image of a call (from the global invariant, Always policy) open succeeds, the state is the one before or after the call, EVERY continuation history then behaves exactly as the specification from that state, and a clean restart after it restores the state - although the files now hold the junk a torn write left behind (junk-tolerant invariant InvJ). Restriction (explicit premises): the interrupted call neither rolls over nor ends in the last block of its file *)
Theorem C02_crash_recovered_usable :
    forall P : params,
    7 < BS P ->
    BS P <= 65542 ->
    1 <= NB P ->
    (forall (t : byte) (p : bytes), crcf P t p < 2 ^ 32) ->
    L_GC P = false ->
    L_IO P = false ->
    L_SHORT P = false ->
    no_zero_collision P ->
    forall (st : state) (G : ghost) (a : bool) (o : op) (tick : bool) (st' : state) (out : outcome),
    crash_setting P st G a o tick st' out ->
    exists evs : list event,
    c_ev (w_ctx (s_wr st')) = rev evs ++ c_ev (w_ctx (s_wr st)) /\
    (forall (cut k : N) (pol : policy) (hint : list bytes),
    let img := fold_left apply_event (crash_events evs cut k) (c_fs (w_ctx (s_wr st))) in
    exists st_r : state,
    open P img None pol hint = OpenOk st_r /\
    ((forall q : bytes, s_get (abs_qs (s_qs st_r)) q = s_get (abs_qs (s_qs st)) q) \/
    (forall q : bytes, s_get (abs_qs (s_qs st_r)) q = s_get (abs_qs (s_qs st')) q)) /\
    (forall h2 : list hop,
    hist_ok P st_r h2 ->
    exists (st2 : state) (outs2 : list outcome) (m2 : smap) (souts2 : list sout),
    hrun P st_r h2 = Some (st2, outs2) /\
    Forall no_io outs2 /\
    s_run (abs_qs (s_qs st_r)) (map sop_of (hcalls h2)) = (m2, souts2) /\
    (forall q : bytes, s_get m2 q = s_get (abs_qs (s_qs st2)) q) /\
    map out_logical outs2 = map Some souts2) /\
    (forall (h2 : list hop) (st2 : state) (outs2 : list outcome),
    hrun P st_r h2 = Some (st2, outs2) ->
    hist_ok P st_r h2 ->
    restart_bound P st2 ->
    forall (pol2 : policy) (hint2 : list bytes),
    exists st3 : state,
    restart P st2 pol2 hint2 = OpenOk st3 /\
    (forall q : bytes, s_get (abs_qs (s_qs st3)) q = s_get (abs_qs (s_qs st2)) q))).
Proof. exact crash_recovered_usable. Qed.
Print Assumptions C02_crash_recovered_usable.

(* the restart identity alone, for any state recovered from such an image *)
Theorem C02_crash_recovered_restart :
    forall P : params,
    7 < BS P ->
    BS P <= 65542 ->
    1 <= NB P ->
    (forall (t : byte) (p : bytes), crcf P t p < 2 ^ 32) ->
    L_GC P = false ->
    L_IO P = false ->
    L_SHORT P = false ->
    no_zero_collision P ->
    forall (st : state) (G : ghost) (a : bool) (o : op) (tick : bool) (st' : state) (out : outcome),
    crash_setting P st G a o tick st' out ->
    exists evs : list event,
    c_ev (w_ctx (s_wr st')) = rev evs ++ c_ev (w_ctx (s_wr st)) /\
    (forall (cut k : N) (pol : policy) (hint : list bytes) (st_r : state),
    open P (fold_left apply_event (crash_events evs cut k) (c_fs (w_ctx (s_wr st)))) None pol hint =
    OpenOk st_r ->
    forall (h2 : list hop) (st2 : state) (outs2 : list outcome),
    hrun P st_r h2 = Some (st2, outs2) ->
    hist_ok P st_r h2 ->
    restart_bound P st2 ->
    forall (pol2 : policy) (hint2 : list bytes),
    exists st3 : state,
    restart P st2 pol2 hint2 = OpenOk st3 /\
    (forall q : bytes, s_get (abs_qs (s_qs st3)) q = s_get (abs_qs (s_qs st2)) q)).
Proof. exact crash_recovered_restart. Qed.
Print Assumptions C02_crash_recovered_restart.

(* a SECOND crash, during any later call of any continuation: recovers to the state before or after that call, and the result is usable again (jstate is closed under calls, restarts and crash recoveries) *)
Theorem C02_crash_recovered_crash :
    forall P : params,
    7 < BS P ->
    BS P <= 65542 ->
    1 <= NB P ->
    (forall (t : byte) (p : bytes), crcf P t p < 2 ^ 32) ->
    L_GC P = false ->
    L_IO P = false ->
    L_SHORT P = false ->
    no_zero_collision P ->
    forall (st : state) (G : ghost) (a : bool) (o : op) (tick : bool) (st' : state) (out : outcome),
    crash_setting P st G a o tick st' out ->
    exists evs : list event,
    c_ev (w_ctx (s_wr st')) = rev evs ++ c_ev (w_ctx (s_wr st)) /\
    (forall (cut k : N) (a2 : bool) (hint : list bytes) (st_r : state),
    open P (fold_left apply_event (crash_events evs cut k) (c_fs (w_ctx (s_wr st)))) None
    (PAlways a2) hint = OpenOk st_r ->
    forall (h2 : list hop) (st2 : state) (outs2 : list outcome),
    hist_ok P st_r h2 ->
    always_hist a2 h2 ->
    hrun P st_r h2 = Some (st2, outs2) ->
    forall (o2 : op) (tick2 : bool) (st2' : state) (out2 : outcome),
    op_wf_strict (s_qs st2) o2 ->
    crash_phys_bound P (s_wr st2) (map snd (step_log P st2 o2)) (abs_qs (s_qs st2)) ->
    crash_phys_bound P (s_wr st2) (map snd (step_log P st2 o2)) (abs_qs (s_qs st2')) ->
    step P st2 o2 tick2 = (st2', out2) ->
    w_file (s_wr st2') = w_file (s_wr st2) ->
    w_off (s_wr st2') + BS P <= FILE_BYTES P ->
    exists evs2 : list event,
    c_ev (w_ctx (s_wr st2')) = rev evs2 ++ c_ev (w_ctx (s_wr st2)) /\
    (forall (cut2 k2 : N) (pol3 : policy) (hint3 : list bytes),
    exists st_r2 : state,
    open P (fold_left apply_event (crash_events evs2 cut2 k2) (c_fs (w_ctx (s_wr st2)))) None pol3
    hint3 = OpenOk st_r2 /\
    ((forall q : bytes, s_get (abs_qs (s_qs st_r2)) q = s_get (abs_qs (s_qs st2)) q) \/
    (forall q : bytes, s_get (abs_qs (s_qs st_r2)) q = s_get (abs_qs (s_qs st2')) q)) /\
    jstate P st_r2)).
Proof. exact crash_recovered_crash. Qed.
Print Assumptions C02_crash_recovered_crash.

(* a second crash DURING THE RECOVERY'S OWN EFFECTS (set_len of the last file, position entries of the recovery-time GC, unlinks, syncs): reopening any crash image of the recovery returns the same abstract state, usable again *)
Theorem C02_crash_recovered_self :
    forall P : params,
    7 < BS P ->
    BS P <= 65542 ->
    1 <= NB P ->
    (forall (t : byte) (p : bytes), crcf P t p < 2 ^ 32) ->
    L_GC P = false ->
    L_IO P = false ->
    L_SHORT P = false ->
    no_zero_collision P ->
    forall (st : state) (G : ghost) (a : bool) (o : op) (tick : bool) (st' : state) (out : outcome),
    crash_setting P st G a o tick st' out ->
    crash_phys_bound P (s_wr st) (map snd (step_log P st o)) (abs_qs (s_qs st)) ->
    crash_phys_bound P (s_wr st) (map snd (step_log P st o)) (abs_qs (s_qs st')) ->
    exists evs : list event,
    c_ev (w_ctx (s_wr st')) = rev evs ++ c_ev (w_ctx (s_wr st)) /\
    (forall (cut k : N) (pol : policy) (hint : list bytes) (st_r : state),
    let img := fold_left apply_event (crash_events evs cut k) (c_fs (w_ctx (s_wr st))) in
    open P img None pol hint = OpenOk st_r ->
    w_file (s_wr st_r) = w_file (s_wr st) ->
    w_off (s_wr st_r) + BS P <= FILE_BYTES P ->
    JRecoverSelf.rec_bound P st_r ->
    forall (cut2 k2 : N) (pol3 : policy) (hint3 : list bytes),
    exists st_r2 : state,
    open P (fold_left apply_event (crash_events (rev (c_ev (w_ctx (s_wr st_r)))) cut2 k2) img) None
    pol3 hint3 = OpenOk st_r2 /\
    (forall q : bytes, s_get (abs_qs (s_qs st_r2)) q = s_get (abs_qs (s_qs st_r)) q) /\
    jstate P st_r2).
Proof. exact crash_recovered_self. Qed.
Print Assumptions C02_crash_recovered_self.

(* capstone: histories made of calls, clean restarts and crashes (each followed by its recovery) anywhere: the run succeeds and the final state is the specification state in which every crashed call was applied or not *)
Theorem C02_crash_histories :
    forall P : params,
    7 < BS P ->
    BS P <= 65542 ->
    1 <= NB P ->
    (forall (t : byte) (p : bytes), crcf P t p < 2 ^ 32) ->
    L_GC P = false ->
    L_IO P = false ->
    L_SHORT P = false ->
    no_zero_collision P ->
    forall (h : list chop) (st : state),
    jstate P st ->
    chist_ok P st h ->
    exists (st' : state) (m' : smap),
    crun P st h = Some st' /\
    jstate P st' /\
    chist_spec (abs_qs (s_qs st)) h m' /\ (forall q : bytes, s_get m' q = s_get (abs_qs (s_qs st')) q).
Proof. exact crash_histories. Qed.
Print Assumptions C02_crash_histories.

(* the same from a fresh directory *)
Theorem C02_crash_histories_fresh :
    forall P : params,
    7 < BS P ->
    BS P <= 65542 ->
    1 <= NB P ->
    (forall (t : byte) (p : bytes), crcf P t p < 2 ^ 32) ->
    L_GC P = false ->
    L_IO P = false ->
    L_SHORT P = false ->
    no_zero_collision P ->
    forall (pol0 : policy) (st0 : state) (h : list chop),
    open P [] None pol0 [] = OpenOk st0 ->
    chist_ok P st0 h ->
    exists (st' : state) (m' : smap),
    crun P st0 h = Some st' /\
    jstate P st' /\ chist_spec [] h m' /\ (forall q : bytes, s_get m' q = s_get (abs_qs (s_qs st')) q).
Proof. exact crash_histories_fresh. Qed.
Print Assumptions C02_crash_histories_fresh.

(* usable states: any well-formed history runs without I/O error and refines the specification *)
Theorem C02_usable_closed_under_calls :
    forall P : params,
    7 < BS P ->
    BS P <= 65542 ->
    1 <= NB P ->
    (forall (t : byte) (p : bytes), crcf P t p < 2 ^ 32) ->
    L_GC P = false ->
    L_IO P = false ->
    L_SHORT P = false ->
    forall (st : state) (h : list hop),
    jstate P st ->
    hist_ok P st h ->
    exists (st' : state) (outs : list outcome) (m' : smap) (souts : list sout),
    hrun P st h = Some (st', outs) /\
    jstate P st' /\
    Forall no_io outs /\
    s_run (abs_qs (s_qs st)) (map sop_of (hcalls h)) = (m', souts) /\
    (forall q : bytes, s_get m' q = s_get (abs_qs (s_qs st')) q) /\
    map out_logical outs = map Some souts.
Proof. exact jstate_run. Qed.
Print Assumptions C02_usable_closed_under_calls.

(* usable states: a clean restart restores the abstract state and gives a usable state *)
Theorem C02_usable_restart_identity :
    forall P : params,
    7 < BS P ->
    BS P <= 65542 ->
    1 <= NB P ->
    (forall (t : byte) (p : bytes), crcf P t p < 2 ^ 32) ->
    L_GC P = false ->
    L_IO P = false ->
    L_SHORT P = false ->
    forall st : state,
    jstate P st ->
    restart_bound P st ->
    forall (pol : policy) (hint : list bytes),
    exists st2 : state,
    restart P st pol hint = OpenOk st2 /\
    jstate P st2 /\
    s_pol st2 = pol /\
    w_pending (s_wr st2) = [] /\
    (forall q : bytes, s_get (abs_qs (s_qs st2)) q = s_get (abs_qs (s_qs st)) q).
Proof. exact jstate_restart_identity. Qed.
Print Assumptions C02_usable_restart_identity.

(* the restrictions on the interrupted call lifted: ANY call (roll-overs, last blocks, multi-file entries) from a usable state, and every crash point of it except one family - a strictly partial cut whose torn data end strictly inside the LAST block of the top file of the image: open succeeds, state before/after, usable again (crash points between completing a file and creating the next, at and after the roll-over's create/set_len with the junk spanning the file boundary, and in the flush/sync/unlink tail are all covered) *)
Theorem C02_crash_at_any_geometry :
    forall P : params,
    7 < BS P ->
    BS P <= 65542 ->
    1 <= NB P ->
    (forall (t : byte) (p : bytes), crcf P t p < 2 ^ 32) ->
    L_GC P = false ->
    L_IO P = false ->
    L_SHORT P = false ->
    no_zero_collision P ->
    forall (st : state) (a : bool) (o : op) (tick : bool) (st' : state) (out : outcome),
    jstate P st ->
    crash_call_ok0 P st a o tick st' out ->
    (forall e : ioerr, out <> OutIo e) /\
    (exists evs : list event,
    c_ev (w_ctx (s_wr st')) = rev evs ++ c_ev (w_ctx (s_wr st)) /\
    (forall (cut k : N) (pol : policy) (hint : list bytes),
    crash_point_ok3 P st evs (crash_events evs cut k) ->
    let img := fold_left apply_event (crash_events evs cut k) (c_fs (w_ctx (s_wr st))) in
    exists st_r : state,
    open P img None pol hint = OpenOk st_r /\
    jstate P st_r /\
    s_pol st_r = pol /\
    w_pending (s_wr st_r) = [] /\
    ((forall q : bytes, s_get (abs_qs (s_qs st_r)) q = s_get (abs_qs (s_qs st)) q) \/
    (forall q : bytes, s_get (abs_qs (s_qs st_r)) q = s_get (abs_qs (s_qs st')) q)))).
Proof. exact jstate_crash_at3. Qed.
Print Assumptions C02_crash_at_any_geometry.

(* the same for a second crash during the recovery's own effects *)
Theorem C02_crash_self_at_any_geometry :
    forall P : params,
    7 < BS P ->
    BS P <= 65542 ->
    1 <= NB P ->
    (forall (t : byte) (p : bytes), crcf P t p < 2 ^ 32) ->
    L_GC P = false ->
    L_IO P = false ->
    L_SHORT P = false ->
    no_zero_collision P ->
    forall (st : state) (a : bool) (o : op) (tick : bool) (st' : state) (out : outcome),
    jstate P st ->
    crash_call_ok0 P st a o tick st' out ->
    exists evs : list event,
    c_ev (w_ctx (s_wr st')) = rev evs ++ c_ev (w_ctx (s_wr st)) /\
    (forall (cut k : N) (pol : policy) (hint : list bytes) (st_r : state),
    crash_point_ok3 P st evs (crash_events evs cut k) ->
    let img := fold_left apply_event (crash_events evs cut k) (c_fs (w_ctx (s_wr st))) in
    open P img None pol hint = OpenOk st_r ->
    JRecover5.is_top img (w_file (s_wr st_r)) ->
    w_off (s_wr st_r) + BS P <= FILE_BYTES P ->
    JRecoverSelf.rec_bound P st_r ->
    forall (cut2 k2 : N) (pol3 : policy) (hint3 : list bytes),
    exists st_r2 : state,
    open P (fold_left apply_event (crash_events (rev (c_ev (w_ctx (s_wr st_r)))) cut2 k2) img) None
    pol3 hint3 = OpenOk st_r2 /\
    (forall q : bytes, s_get (abs_qs (s_qs st_r2)) q = s_get (abs_qs (s_qs st_r)) q) /\
    jstate P st_r2 /\ s_pol st_r2 = pol3 /\ w_pending (s_wr st_r2) = []).
Proof. exact jstate_crash_self_at3. Qed.
Print Assumptions C02_crash_self_at_any_geometry.

(* and for histories with crashes anywhere, each crash point subject to that one exclusion *)
Theorem C02_crash_histories_any_geometry :
    forall P : params,
    7 < BS P ->
    BS P <= 65542 ->
    1 <= NB P ->
    (forall (t : byte) (p : bytes), crcf P t p < 2 ^ 32) ->
    L_GC P = false ->
    L_IO P = false ->
    L_SHORT P = false ->
    no_zero_collision P ->
    forall (h : list chop) (st : state),
    jstate P st ->
    chist_ok_at3 P st h ->
    exists (st' : state) (m' : smap),
    crun P st h = Some st' /\
    jstate P st' /\
    chist_spec (abs_qs (s_qs st)) h m' /\ (forall q : bytes, s_get m' q = s_get (abs_qs (s_qs st')) q).
Proof. exact crash_histories_at3. Qed.
Print Assumptions C02_crash_histories_any_geometry.

(* tail lemma: if the missing bytes of an entry are all zero, fewer than a block payload of them are missing *)
Theorem C02_zero_tail_short :
    forall P : params,
    7 < BS P ->
    BS P <= 65542 ->
    (forall (t : byte) (p : bytes), crcf P t p < 2 ^ 32) ->
    forall (a : N) (f : bool) (p e : bytes) (k : nat),
    enc_rel P a f p e k ->
    forall j : N, j <= lenN e -> all_zero (dropN j e) = true -> lenN e <= j + (BS P - 7).
Proof. exact zero_tail_short. Qed.
Print Assumptions C02_zero_tail_short.

