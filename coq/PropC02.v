(* PropC02.v — C02: a crash at any instant recovers to an atomic, consistent prefix (stream level: WAL = zero-prefilled stream, crash = any byte prefix of the entry in flight; every block size and checksum function). crc_collision P = a frame and its own zero-completed prefix have the same checksum.
   Statements only; each theorem is closed by `exact <lemma>`; proofs live in the imported files. *)
From Coq Require Import Lia NArith List.
From MRL Require Import Bytes Params Frame Driver StreamProofs TornProofs GhostLog.

(* all earlier entries are delivered, then nothing, or one Corruption, or the in-flight entry itself - the latter only if the missing bytes are all zero (the disk equals the fully written entry), or another entry only under a CRC collision *)
Theorem C02_torn_read :
    forall P : params,
    7 < BS P ->
    BS P <= 65542 ->
    (forall (t : byte) (p : bytes), crcf P t p < 2 ^ 32) ->
    forall (es : list bytes) (t x e : bytes) (k : nat) (j : N) (fuel gofuel : nat) (S0 : bytes),
    encs_rel P 0 es t ->
    enc_rel P (lenN t) true x e k ->
    j < lenN e ->
    S0 = mem_stream P (t ++ takeN j e) ->
    (length es + 3 <= fuel)%nat ->
    lenN S0 <= 7 * N.of_nat gofuel ->
    exists tail : list mem_read,
    mem_read_all P fuel gofuel (rr_start P S0) = map MrEntry es ++ tail /\
    (tail = [MrEnd] \/
    tail = [MrCorrupt; MrEnd] \/
    tail = [MrEntry x; MrEnd] /\ all_zero (dropN j e) = true \/
    (exists y : bytes, tail = [MrEntry y; MrEnd] /\ y <> x /\ crc_collision P)).
Proof. exact torn_read. Qed.
Print Assumptions C02_torn_read.

(* without such a collision: never anything that was not written *)
Theorem C02_torn_read_nocoll :
    forall P : params,
    7 < BS P ->
    BS P <= 65542 ->
    (forall (t : byte) (p : bytes), crcf P t p < 2 ^ 32) ->
    forall (es : list bytes) (t x e : bytes) (k : nat) (j : N) (fuel gofuel : nat) (S0 : bytes),
    no_zero_collision P ->
    encs_rel P 0 es t ->
    enc_rel P (lenN t) true x e k ->
    j < lenN e ->
    S0 = mem_stream P (t ++ takeN j e) ->
    (length es + 3 <= fuel)%nat ->
    lenN S0 <= 7 * N.of_nat gofuel ->
    exists tail : list mem_read,
    mem_read_all P fuel gofuel (rr_start P S0) = map MrEntry es ++ tail /\
    (tail = [MrEnd] \/
    tail = [MrCorrupt; MrEnd] \/ tail = [MrEntry x; MrEnd] /\ all_zero (dropN j e) = true).
Proof. exact torn_read_nocoll. Qed.
Print Assumptions C02_torn_read_nocoll.

(* stated from the writer, with the fuel the model uses *)
Theorem C02_torn_read_written :
    forall P : params,
    7 < BS P ->
    BS P <= 65542 ->
    (forall (t : byte) (p : bytes), crcf P t p < 2 ^ 32) ->
    forall (es : list bytes) (x : bytes) (j : N) (w w' : vecw) (S : bytes) (fuel : nat),
    w = fst (mem_write_all P {| vw_cursor := 0; vw_buf := [] |} es) ->
    w' = fst (write_record P vecw vw_write (vw_rem P) w x) ->
    lenN (vw_buf w) + j < lenN (vw_buf w') ->
    S = mem_stream P (takeN (lenN (vw_buf w) + j) (vw_buf w')) ->
    fuel = N.to_nat (lenN S / HEADER_LEN + lenN S / BS P + 4) ->
    exists tail : list mem_read,
    mem_read_all P fuel fuel (rr_start P S) = map MrEntry es ++ tail /\
    (tail = [MrEnd] \/
    tail = [MrCorrupt; MrEnd] \/
    tail = [MrEntry x; MrEnd] /\ all_zero (dropN (lenN (vw_buf w) + j) (vw_buf w')) = true \/
    (exists y : bytes, tail = [MrEntry y; MrEnd] /\ y <> x /\ crc_collision P)).
Proof. exact torn_read_written. Qed.
Print Assumptions C02_torn_read_written.

(* the reader stops at a position at or after everything written before the torn entry, from which every byte is zero, in the block where the torn data ends or at the start of the next *)
Theorem C02_torn_resume :
    forall P : params,
    7 < BS P ->
    BS P <= 65542 ->
    (forall (t : byte) (p : bytes), crcf P t p < 2 ^ 32) ->
    forall (es : list bytes) (t x e : bytes) (k : nat) (j : N) (fuel gofuel : nat) (S0 : bytes),
    encs_rel P 0 es t ->
    enc_rel P (lenN t) true x e k ->
    j < lenN e ->
    S0 = mem_stream P (t ++ takeN j e) ->
    (length es + 3 <= fuel)%nat ->
    lenN S0 <= 7 * N.of_nat gofuel ->
    exists r : N,
    at_pos P S0 (rr_fr (snd (mem_read_fin P fuel gofuel (rr_start P S0)))) r /\
    lenN t <= r /\
    all_zero (dropN r S0) = true /\
    lenN (t ++ takeN j e) / BS P * BS P <= r /\
    r <= (lenN (t ++ takeN j e) + BS P - 1) / BS P * BS P /\ r + BS P <= lenN S0.
Proof. exact torn_resume. Qed.
Print Assumptions C02_torn_resume.

(* the recovered log is usable: entries written from that position are read back after the earlier ones (the torn frame, if visible, is skipped as one Corruption) *)
Theorem C02_torn_then_append :
    forall P : params,
    7 < BS P ->
    BS P <= 65542 ->
    (forall (t : byte) (p : bytes), crcf P t p < 2 ^ 32) ->
    forall (es : list bytes) (t x e : bytes) (k : nat) (j : N) (fuel gofuel : nat) (S0 : bytes),
    encs_rel P 0 es t ->
    enc_rel P (lenN t) true x e k ->
    j < lenN e ->
    S0 = mem_stream P (t ++ takeN j e) ->
    (length es + 3 <= fuel)%nat ->
    lenN S0 <= 7 * N.of_nat gofuel ->
    forall r : N,
    at_pos P S0 (rr_fr (snd (mem_read_fin P fuel gofuel (rr_start P S0)))) r ->
    forall (es2 : list bytes) (t2 S' : bytes) (fuel' gofuel' : nat),
    encs_rel P r es2 t2 ->
    S' = mem_stream P (takeN r S0 ++ t2) ->
    (length es + length es2 + 3 <= fuel')%nat ->
    lenN S' <= 7 * N.of_nat gofuel' ->
    exists corr : list mem_read,
    mem_read_all P fuel' gofuel' (rr_start P S') = map MrEntry es ++ corr ++ map MrEntry es2 ++ [MrEnd] /\
    corr_ok P x e j corr.
Proof. exact torn_then_append. Qed.
Print Assumptions C02_torn_then_append.

(* one call only appends entries to the log (the in-flight call is the last entry group) *)
Theorem C02_one_call_one_logged_suffix :
    forall (P : params) (st : Log.state) (L : glog) (o : Log.op) (tick : bool),
    exists es : list (N * Record.entry), snd (fst (gstep P (st, L) o tick)) = L ++ es.
Proof. exact gstep_log_extends. Qed.
Print Assumptions C02_one_call_one_logged_suffix.

