(* VacAt2.v — TASK T14 follow-up (2): audit of CrashAt2.v.
   Same instance as VacAt.v (BS = 32, NB = 2, FILE = 64; create qa; interrupted call
   append qa [10 bytes] whose single entry spans file 0 and file 1):
     events 0: Write(file0,19,13)  1: Write(file0,32,32)  2: Flush 3: SyncData 4: SyncDir
            5: Create(file1)  6: SetLen(file1,64)  7: Write(file1,0,10)  8: Flush 9: SyncData 10: SyncDir.
   P_sat 32 2: the premises of jstate_crash_at2 are satisfiable at the crash points
     (6,0)          file1 created, still EMPTY (length 0)
     (7,0)          file1 sized, nothing written in it: the torn entry ends at the file boundary
     (7,1)..(7,9)   the Last frame of the entry torn in file1: the junk SPANS the file boundary
     (8,0)..(11,0)  everything written
   and the theorem is applied.  Not covered (the gap): (2,0)..(5,0), the data end exactly at the
   end of file 0 and file 1 does not exist yet; and (1,k) with the cut in the last block of file 0
   (computed with the real CRC in VacAt.all_points_ok: all recover correctly in the model). *)
From Coq Require Import Lia ZArith ZifyN ZifyNat ZifyBool List.
From MRL Require Import Bytes BytesProofs Params Names Frame Record Mem Spec Rolling Log Driver Hist
  WriterProofs SpecRefine RecordProofs StreamProofs ResyncProofs GhostLog ReplaySpec TornProofs
  RestartInv RestartWrite RestartStep OpenReplay RestartFinal CrashTrace CrashAtomic NzcVacuous
  PolicyProofs VacBase VacCrash CrashRecovered CrashRecovered2 CrashHistories JRecover4 CrashAt VacRecovered
  VacAt JRecover5 CrashAt2.
Import ListNotations.
Import CrashAtomic.CrashExample.

Arguments N.add : simpl never.
Arguments N.sub : simpl never.
Arguments N.mul : simpl never.
Arguments N.eqb : simpl never.
Arguments N.ltb : simpl never.
Arguments N.leb : simpl never.

Definition pts2 : list (N * N) :=
  [(6,0); (7,0); (7,1); (7,2); (7,3); (7,4); (7,5); (7,6); (7,7); (7,8); (7,9);
   (8,0); (9,0); (10,0); (11,0)].

Example pts2_shape :
  map (fun ck => let pe := crash_events evs_r (fst ck) (snd ck) in
                 let img := fold_left apply_event pe (c_fs (w_ctx (s_wr w1s))) in
                 (lenN (ev_data pe), lenN (PolicyProofs.fcontent img 0), lenN (PolicyProofs.fcontent img 1)))
      [(6,0); (7,0); (7,5)] = [(45, 64, 0); (45, 64, 64); (50, 64, 64)].
Proof. vm_compute. reflexivity. Qed.

Lemma point_ok2_r ck : In ck pts2 -> crash_point_ok2 Pw w1s (crash_events evs_r (fst ck) (snd ck)).
Proof.
  intros Hin. unfold pts2 in Hin. cbn [In] in Hin.
  repeat (destruct Hin as [<-|Hin];
          [apply (crash_point_ok2_of_file Pw w1s _ 1);
             [le_tacv | vm_compute; discriminate | le_tacv]|]).
  contradiction.
Qed.

Theorem jstate_crash_at2_inst :
  forall ck pol hint, In ck pts2 -> exists st_r,
    open Pw (fold_left apply_event (crash_events evs_r (fst ck) (snd ck)) (c_fs (w_ctx (s_wr w1s)))) None pol hint
      = OpenOk st_r /\ jstate Pw st_r /\
    ((forall q, s_get (abs_qs (s_qs st_r)) q = s_get (abs_qs (s_qs w1s)) q) \/
     (forall q, s_get (abs_qs (s_qs st_r)) q = s_get (abs_qs (s_qs w2s)) q)).
Proof.
  intros ck pol hint Hin.
  destruct (jstate_crash_at2 Pw Pw_BS_lo Pw_BS_hi Pw_NB Pw_crc eq_refl eq_refl eq_refl Pw_nzc
              w1s true o_r false w2s out_r jstate_w1 call_ok0_r) as (_ & evs & Hev & Hall).
  assert (E : evs = evs_r).
  { rewrite evs_r_eq in Hev. apply app_inv_tail in Hev. apply (f_equal (@rev event)) in Hev.
    rewrite !rev_involutive in Hev. now symmetry. }
  subst evs.
  destruct (Hall (fst ck) (snd ck) pol hint (point_ok2_r ck Hin)) as (st_r & Ho & Hj & _ & _ & Ha).
  exists st_r. auto.
Qed.

(* the gap is real for this premise: at (5,0) the top file of the image is file 0 and it is full *)
Example gap_point :
  let pe := crash_events evs_r 5 0 in
  let img := fold_left apply_event pe (c_fs (w_ctx (s_wr w1s))) in
  (w_off (s_wr w1s) + lenN (ev_data pe), fs_get img (filename 1)) = (64, None).
Proof. vm_compute. reflexivity. Qed.

Print Assumptions jstate_crash_at2_inst.
