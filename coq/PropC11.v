(* PropC11.v — C11: open terminates and reports I/O failures during recovery. fired p c = the fp_nth-th call of the plan's site (read_dir / open / read) has been made.
   Statements only; each theorem is closed by `exact <lemma>`; proofs live in the imported files. *)
From Coq Require Import Lia NArith List.
From MRL Require Import Bytes Params Names Frame Record Mem Rolling Log OpenTerm OpenIo.

(* if open returns a log, the injected failure was never reached *)
Theorem C11_ok_means_not_fired :
    forall (P : params) (p : fplan) (fs : fsT) (pol : policy) (hint : list bytes) (st : state),
    L_IO P = false -> open P fs (Some p) pol hint = OpenOk st -> ~ fired p (w_ctx (s_wr st)).
Proof. exact open_reports_io. Qed.
Print Assumptions C11_ok_means_not_fired.

(* nor is an I/O failure ever reported as Corruption *)
Theorem C11_corruption_means_not_fired :
    forall (P : params) (p : fplan) (fs : fsT) (pol : policy) (hint : list bytes) (c : ioctx),
    L_IO P = false -> open P fs (Some p) pol hint = OpenCorruption c -> ~ fired p c.
Proof. exact open_reports_io_corruption. Qed.
Print Assumptions C11_corruption_means_not_fired.

(* all four outcomes: Ok / Corruption only if not fired, never out of fuel: a reached failure is an I/O error, promptly *)
Theorem C11_fired_is_io :
    forall (P : params) (p : fplan) (fs : fsT) (pol : policy) (hint : list bytes),
    L_IO P = false ->
    7 < BS P ->
    match open P fs (Some p) pol hint with
    | OpenOk st => ~ fired p (w_ctx (s_wr st))
    | OpenIo _ _ => True
    | OpenCorruption c => ~ fired p c
    | OpenFuel _ => False
    end.
Proof. exact open_fired_is_io. Qed.
Print Assumptions C11_fired_is_io.

