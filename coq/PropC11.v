(* PropC11.v — C11: open terminates and reports I/O failures during recovery. fired p c = the fp_nth-th call of the plan's site (read_dir / open / read) has been made. reportable p = not (site Read and kind UnexpectedEof): read_block maps an UnexpectedEof from read_exact to "no more blocks in this file", so such a fault is absorbed as end-of-file at every read except the first one of recovery (C11_absorbed_eof_only_first_read).
   Statements only; each theorem is closed by `exact <lemma>`; proofs live in the imported files. *)
From Coq Require Import Lia NArith List.
From MRL Require Import Bytes Params Names Frame Record Mem Rolling Log OpenTerm OpenIo.

(* if open returns a log, the injected failure was never reached *)
Theorem C11_ok_means_not_fired :
    forall (P : params) (p : fplan),
    reportable p ->
    forall (fs : fsT) (pol : policy) (hint : list bytes) (st : state),
    L_IO P = false -> open P fs (Some p) pol hint = OpenOk st -> ~ fired p (w_ctx (s_wr st)).
Proof. exact open_reports_io. Qed.
Print Assumptions C11_ok_means_not_fired.

(* nor is an I/O failure ever reported as Corruption *)
Theorem C11_corruption_means_not_fired :
    forall (P : params) (p : fplan),
    reportable p ->
    forall (fs : fsT) (pol : policy) (hint : list bytes) (c : ioctx),
    L_IO P = false -> open P fs (Some p) pol hint = OpenCorruption c -> ~ fired p c.
Proof. exact open_reports_io_corruption. Qed.
Print Assumptions C11_corruption_means_not_fired.

(* all four outcomes: Ok / Corruption only if not fired, never out of fuel: a reached failure is an I/O error, promptly *)
Theorem C11_fired_is_io :
    forall (P : params) (p : fplan),
    reportable p ->
    forall (fs : fsT) (pol : policy) (hint : list bytes),
    L_IO P = false ->
    7 < BS P ->
    match open P fs (Some p) pol hint with
    | OpenOk st => ~ fired p (w_ctx (s_wr st))
    | OpenIo _ _ => True
    | OpenCorruption c => ~ fired p c
    | OpenFuel _ => False
    end.
Proof. exact open_fired_is_io. Qed.
Print Assumptions C11_fired_is_io.

(* the excluded plans (site Read, kind UnexpectedEof): the injected kind reaches the caller of open only through the first read of recovery (RollingReader::open); every later firing is absorbed as end-of-file of the file being read *)
Theorem C11_absorbed_eof_only_first_read :
    forall (P : params) (p : fplan),
    absorbed p ->
    forall (fs : fsT) (pol : policy) (hint : list bytes) (c : ioctx),
    open P fs (Some p) pol hint = OpenIo IoUnexpectedEof c ->
    rd_open P (ctx_init fs (Some p)) = (c, Err IoUnexpectedEof).
Proof. exact open_absorbed_eof_only_first_read. Qed.
Print Assumptions C11_absorbed_eof_only_first_read.

(* a fault of an excluded plan that fires at a read is a short read at an unchanged position *)
Theorem C11_absorbed_read_is_short_read :
    forall (P : params) (p : fplan),
    absorbed p ->
    forall (c : ioctx) (n pos : N) (c1 : ioctx) (e : ioerr),
    planned p c ->
    fault_point c SRead = (c1, Some e) ->
    read_block P c n pos = (ctx_ev c1 (EvRead (filename n) pos (BS P) false), pos, Ok None).
Proof. exact read_block_absorbed. Qed.
Print Assumptions C11_absorbed_read_is_short_read.

