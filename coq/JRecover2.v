(* JRecover2.v — TASK T14, stage 3: the recovery of a crash image of a call issued from a state
   that ALREADY satisfies the junk-tolerant invariant (e.g. a state reached after an earlier
   crash recovery): the recovered state satisfies the invariant again, for the extended prefix.
   Port of JRecover.crash_recover_invJ (which is the case PRE0 = []). *)
From Coq Require Import Lia ZArith ZifyN ZifyNat ZifyBool List Sorted.
From MRL Require Import Bytes BytesProofs Params Names NamesProofs Frame Record Mem Spec Rolling Log
  Driver Hist NoopProofs SpecRefine RecordProofs StreamProofs PolicyProofs GcProofs GhostLog ReplaySpec
  HandleProofs FileStream ResyncProofs QueueIso RestartInv RestartWrite RestartGc RestartStep
  OpenReplay RestartFinal TornProofs TornFile CrashTrace CrashAtomic
  JInv JGc JStep JunkStream JReopen JRecoverL JRecoverS JRecoverP JRecover JRecoverS2 JRecoverL2
  JCrashShape.

Arguments N.add : simpl never.
Arguments N.sub : simpl never.
Arguments N.mul : simpl never.
Arguments N.eqb : simpl never.
Arguments N.ltb : simpl never.
Arguments N.leb : simpl never.
Arguments N.div : simpl never.
Arguments N.modulo : simpl never.
Arguments N.min : simpl never.
Arguments N.max : simpl never.
Arguments N.pow : simpl never.

Section Recover2.
Variable P : params.
Hypothesis HBS_lo : 7 < BS P.
Hypothesis HBS_hi : BS P <= 65542.
Hypothesis HNB : 1 <= NB P.
Hypothesis Hcrc : forall t p, crcf P t p < 2 ^ 32.
Hypothesis HGC : L_GC P = false.
Hypothesis HIO : L_IO P = false.
Hypothesis HSHORT : L_SHORT P = false.
Hypothesis Hnc : no_zero_collision P.

Local Notation B := (BS P).
Local Notation FB := (FILE_BYTES P).
Local Notation ffp := (first_frame_pos P).
Local Notation enc_of := (enc_of P).
Local Notation encs_of := (encs_of P).
Local Notation cursor_after := (cursor_after P).
Local Notation starts := (starts P).
Local Notation ser := (map entry_ser).
Local Notation H3 f := (f P HBS_lo HBS_hi Hcrc) (only parsing).
Local Notation H2 f := (f P HBS_lo HBS_hi) (only parsing).
Local Notation HW f := (f P HBS_lo HBS_hi HNB Hcrc) (only parsing).
Local Notation HN f := (f P HBS_lo HBS_hi HNB) (only parsing).
Local Notation HG f := (f P HBS_lo HBS_hi HNB Hcrc HGC) (only parsing).

(* the prefix of the state before the call *)
Variable PRE0 : bytes.
Variable OLD0 : list entry.
Variable opos0 : list (N * N).
Variable adm0 : N -> Prop.
Variable cmax0 : nat.
Variable rm0 : N.
Hypothesis Hpre0 : pre_ok PRE0 OLD0 opos0.
Hypothesis Hpc0 : pre_cont P PRE0 (ser OLD0) opos0 adm0 cmax0 rm0.
Hypothesis Hrm0 : rm0 <= 7.
Hypothesis Hadm0 : forall m, adm0 (m * NB P).

Local Notation InvJ0 := (InvJ P PRE0 OLD0 opos0).
Local Notation PInvJ0 := (PInvJ P PRE0 OLD0 opos0).
Local Notation jT0 := (jT P PRE0 OLD0).
Local Notation jpos0 := (jpos P PRE0 OLD0 opos0).
Local Notation jNEW0 := (jNEW OLD0).
Local Notation jser0 := (jser OLD0).

(* room for the position entries of the recovery-time GC (as CrashAtomic.crash_bound) *)
Definition crash_boundJ (G : ghost) (X : list entry) (m : smap) : Prop :=
  forall c extra, pos_extra m extra ->
    lenN (jT0 G) <= c -> c <= cursor_after (lenN PRE0) (ser (jNEW0 G ++ X)) + B ->
    FB * gh_base G + cursor_after c (ser extra) <= FB * (U64_MAX + 1).

Lemma crash_boundJ_ext G X m1 m2 :
  (forall q, s_get m2 q = s_get m1 q) -> crash_boundJ G X m1 -> crash_boundJ G X m2.
Proof.
  clear Hpre0 Hpc0 Hrm0 Hadm0 HGC HIO HSHORT Hnc. clear adm0 cmax0 rm0.
  intros He Hb c extra Hx. apply Hb. apply (pos_extra_ext m2); [intros q; now rewrite He|exact Hx].
Qed.

(* the positions of E in PInvJ *)
Lemma pinvJ_E_positions w G :
  PInvJ0 w G ->
  Forall (fun s => (wlo w - gh_base G) * FB <= snd s) (skipn (gh_k G) (jpos0 G)).
Proof.
  intros (_ & _ & _ & _ & _ & _ & _ & _ & _ & _ & HD2 & _). cbn zeta in HD2.
  clear - HD2. induction HD2 as [|x y l1 l2 [Hxy _] _ IH]; constructor; assumption.
Qed.

Theorem crashJ_recover_invJ st G a o tick st' out :
  InvJ0 st G -> w_pending (s_wr st) = [] -> s_pol st = PAlways a ->
  op_wf_strict (s_qs st) o ->
  stream_boundJ P PRE0 OLD0 G (map snd (step_log P st o)) ->
  crash_boundJ G (map snd (step_log P st o)) (abs_qs (s_qs st)) ->
  crash_boundJ G (map snd (step_log P st o)) (abs_qs (s_qs st')) ->
  step P st o tick = (st', out) -> (forall e, out <> OutIo e) ->
  w_file (s_wr st') = w_file (s_wr st) ->
  w_off (s_wr st') + B <= FB ->
  exists evs, c_ev (w_ctx (s_wr st')) = rev evs ++ c_ev (w_ctx (s_wr st)) /\
    forall cut k pol hint,
      let img := fold_left apply_event (crash_events evs cut k) (c_fs (w_ctx (s_wr st))) in
      exists PRE OLD opos adm cmax rm st_r G_r,
        open P img None pol hint = OpenOk st_r /\
        pre_ok PRE OLD opos /\ pre_cont P PRE (ser OLD) opos adm cmax rm /\ rm <= 7 /\
        (forall m, adm (m * NB P)) /\
        InvJ P PRE OLD opos st_r G_r /\
        lenN PRE + rm <= (w_file (s_wr st_r) + 1 - gh_base G_r) * FB /\
        s_pol st_r = pol /\ w_pending (s_wr st_r) = [] /\
        ((forall q, s_get (abs_qs (s_qs st_r)) q = s_get (abs_qs (s_qs st)) q) \/
         (forall q, s_get (abs_qs (s_qs st_r)) q = s_get (abs_qs (s_qs st')) q)).
Proof.
  intros HI Hp0 Hpol Hop Hbound Hcb Hcb' Hstep Hno Hroll Hblkend.
  destruct (crashJ_image_shape P HBS_lo HBS_hi HNB Hcrc HGC PRE0 OLD0 opos0 Hpre0
              st G a o tick st' out HI Hp0 Hpol Hop Hbound Hstep Hno)
    as (evs & Hev & Hfs & Hct & Himg). cbn zeta in *.
  exists evs. split; [exact Hev|]. intros cut k pol hint. cbn zeta.
  destruct (Himg cut k) as (nu & hi & short & z & Hlohi & Hf0hi & Hhif1 & Hhimax & Hndk & Hdir &
                            Hlist & Hlens & Hshort & Hdata & Hj & Hstream & Hlen & Hnuj).
  clear Himg.
  pose proof HI as (HP & HL).
  destruct (invJ_step P HBS_lo HBS_hi HNB Hcrc HGC PRE0 OLD0 opos0 Hpre0
              st G o tick st' out HI Hop Hbound Hstep Hno)
    as (G' & HI' & Eb & Ed & Elog).
  pose proof HI' as (HP' & HL').
  set (pe := crash_events evs cut k) in *.
  set (img := fold_left apply_event pe (c_fs (w_ctx (s_wr st)))) in *.
  set (j := lenN (ev_data pe)) in *.
  set (w := s_wr st) in *. set (lo := wlo w) in *. set (lo' := lo + N.of_nat nu) in *.
  set (base := gh_base G) in *. set (T := jT0 G) in *.
  set (c0 := call_cursor P st G) in *. set (X := map snd (step_log P st o)) in *.
  set (NEW := call_bytes P st G o) in *.
  destruct (pinvJ_setup P HBS_lo HBS_hi HNB Hcrc PRE0 OLD0 opos0 w G HP)
    as (Hlb & Ebuf & HS & Hposn & Hn & Hn1). cbn zeta in *.
  pose proof HP as (Hw & (_ & Hdir0) & Hnd0 & Hbase & Hc1 & Hc2 & _ & HWf & _). cbn zeta in Hc1, Hc2.
  pose proof Hw as (Hok & Hwf' & Hoff & Hplan & Hu & Hfull & Hfresh).
  rewrite (vfs_nil w Hp0) in Hfull, Hfresh.
  set (fs0 := c_fs (w_ctx w)) in *. set (f0 := w_file w) in *.
  fold base in Hbase. fold lo in Hbase, Hn.
  assert (Hlo : lo <= f0) by (clear - Hn Hn1; lia).
  assert (Efiles : w_files w = nfiles lo f0).
  { rewrite (HN wr_ok_iota w Hok). fold lo. unfold nfiles. f_equal.
    rewrite lenN_length in Hn. lia. }
  assert (Hfull0 : forall n, lo <= n <= f0 -> full_file P fs0 n).
  { intros n Hn'. apply Hfull. rewrite Efiles. apply (HN nfiles_In); lia. }
  assert (Hgood : good P fs0 f0 U64_MAX).
  { split; [apply Hfull0; lia|]. intros n H1 H2'. now apply Hfresh. }
  destruct (stepJ_call_trace P HBS_lo HBS_hi HNB Hcrc HGC PRE0 OLD0 opos0
              st G a o tick st' out HI Hp0 Hpol Hbound Hstep Hno)
    as (_ & _ & _ & _ & Hp0'). cbn zeta in Hp0'.
  pose proof HP' as (Hw' & (_ & Hdir0') & _ & Hbase' & Hc1' & Hc2' & _ & HWf' & _).
  cbn zeta in Hc1', Hc2'. rewrite Eb in Hbase', Hc1', Hc2'.
  pose proof Hw' as (Hok' & _ & Hoff' & _ & Hu' & Hfull' & _).
  rewrite (vfs_nil _ Hp0') in Hfull'.
  set (w' := s_wr st') in *. set (f1 := w_file w') in *.
  destruct (wr_ok_len P (HB0c P HBS_lo HBS_hi HNB) HNB w' Hok') as (Hn' & Hn1').
  (* the image has a top file; its unlinked files are among those of the call *)
  destruct (crash_unlinks P HBS_lo HBS_hi HNB Hcrc lo f0 (w_off w) NEW f1 (w_off w') evs pe fs0 Hct
              (crash_events_cpre evs cut k) Hgood Hfull0 Hlo Hu')
    as (m & mu & Hmu & Hmuf1 & Hgone & Hbelow & Hex & fc & Hfc & (Htopf & Htopn)).
  fold img in Hex, Htopf, Htopn.
  assert (Hlo'mu : lo' <= lo + N.of_nat mu).
  { apply (Hdir (lo + N.of_nat mu) ltac:(lia)) in Hex. apply (HN nfiles_In) in Hex; lia. }
  assert (Hlo'x : lo' <= wlo w').
  { assert (Hin : In (wlo w') (w_files w')).
    { apply (HN RestartGc.wr_ok_In); [exact Hok'|lia]. }
    destruct (Hfull' _ Hin) as (b & Hb & _). rewrite Hfs in Hb.
    destruct (N.lt_ge_cases (wlo w') lo) as [Hlt|Hge].
    - rewrite (Hbelow _ Hlt) in Hb.
      assert (Hin0 : In (wlo w') (w_files w)).
      { apply (Hdir0 Hu (wlo w') ltac:(lia)). now exists b. }
      rewrite Efiles in Hin0. apply (HN nfiles_In) in Hin0; lia.
    - destruct (N.lt_ge_cases (wlo w') (lo + N.of_nat m)) as [Hlt|Hge2]; [|lia].
      rewrite (Hgone (wlo w') ltac:(lia)) in Hb. discriminate. }
  assert (Htop : forall x, hi < x -> x <= U64_MAX -> fs_get img (filename x) = None).
  { assert (E : fc = hi).
    { apply (Hdir fc ltac:(lia)) in Htopf. apply (HN nfiles_In) in Htopf; [|lia].
      destruct (N.lt_ge_cases fc hi) as [Hlt|]; [|lia].
      destruct (Hlens hi ltac:(lia)) as (b & Hb & _).
      rewrite (Htopn hi Hlt Hhimax) in Hb. discriminate. }
    subst fc. exact Htopn. }
  clear Hex Htopf Htopn Hgone Hbelow Hfc.
  (* no roll-over: one file *)
  assert (Ehi : hi = f0) by (unfold f1 in *; lia).
  set (n := N.to_nat (hi - lo')).
  assert (Ecur : lo' + N.of_nat n = hi) by (unfold n; clear - Hlohi; lia).
  assert (Hlistx : list_wal_numbers img = iota lo' (S n)) by exact Hlist.
  assert (Hfilesx : forall f, In f (iota lo' (S n)) ->
            exists b, fs_get img (filename f) = Some (FFile b) /\ lenN b <= FB /\
                      (f <> lo' + N.of_nat n -> lenN b = FB)).
  { intros f Hf. apply iota_In in Hf. destruct (Hlens f ltac:(lia)) as (b & Hb & Hlb').
    exists b. split; [exact Hb|]. rewrite Ecur.
    destruct (N.eqb_spec f hi) as [->|Hne]; destruct short; cbn [andb] in Hlb'; split;
      (clear - Hlb' Hne || clear - Hlb'); lia. }
  assert (Eext : fs_ext P img lo' n = zext P img hi).
  { unfold fs_ext. rewrite Ecur. reflexivity. }
  assert (Hbase'' : base <= lo') by (clear - Hbase; lia).
  assert (HwfX : Forall wf_entry X).
  { pose proof (step_log_wf P st o (proj1 HL) (op_wf_strict_wf _ _ Hop)) as Hlw.
    unfold X. apply Forall_map. exact Hlw. }
  assert (EALL' : gh_ALL G' = gh_ALL G ++ X).
  { unfold gh_ALL. rewrite Ed, Elog, map_app, app_assoc. reflexivity. }
  assert (Ec0 : c0 = (lo - base) * FB + wpos P w) by reflexivity.
  assert (ENEW : NEW = encs_of c0 (ser X)) by reflexivity.
  set (a0 := lenN PRE0) in *.
  assert (ET : T = PRE0 ++ encs_of a0 (jser0 G)) by reflexivity.
  pose proof (jALL_split P PRE0 OLD0 opos0 w G HP) as HALLs.
  pose proof (jlen_le P HBS_lo HBS_hi HNB Hcrc PRE0 OLD0 opos0 w G HP) as Hjlen.
  assert (Hc1c : lenN T <= c0) by exact Hc1.
  assert (Hc2c : c0 <= ffp (lenN T)) by exact Hc2.
  assert (HFBpos : 0 < FB) by (apply (FBc_pos P HBS_lo HBS_hi HNB)).
  (* the cursor lies in file f0; the whole call fits before the last block *)
  assert (Ec0f : c0 = (f0 - base) * FB + w_off w).
  { rewrite Ec0. unfold wpos.
    replace (lenN (w_files w) - 1) with (f0 - lo) by (clear - Hn; lia).
    replace (f0 - base) with ((lo - base) + (f0 - lo)) by (clear - Hbase Hlo; lia). clear - Hlo. lia. }
  pose proof (HW call_trace_pos _ _ _ _ _ _ _ Hct Hoff) as Hctp.
  assert (Hfit : c0 + lenN NEW + B <= (hi + 1 - base) * FB).
  { assert (E1 : c0 + lenN NEW = (f0 - base) * FB + w_off w').
    { unfold f1 in *. rewrite Hroll in Hctp. fold w in Hctp. fold f0 in Hctp. clear - Hctp Ec0f. lia. }
    rewrite Ehi. replace (f0 + 1 - base) with ((f0 - base) + 1) by (clear - Hbase Hlo; lia).
    clear - E1 Hblkend. lia. }
  set (S_all := T ++ zerosN (c0 - lenN T) ++ takeN j NEW ++ zerosN z) in *.
  assert (HlenS : lenN S_all = (hi - base + 1) * FB).
  { unfold S_all. rewrite !lenN_app, !lenN_zerosN, lenN_takeN.
    replace (hi - base + 1) with (hi + 1 - base) by (clear - Hbase'' Hlohi; lia).
    clear - Hc1c Hj Hlen Ec0. lia. }
  assert (HokS : stream_ok P S_all).
  { exists ((hi - base + 1) * NB P). rewrite HlenS. unfold FILE_BYTES. lia. }
  rewrite ENEW in Hj.
  assert (HlT0 : lenN T = a0 + lenN (encs_of a0 (jser0 G))) by (rewrite ET, lenN_app; reflexivity).
  destruct (crash_stream_preJ P HBS_lo HBS_hi Hcrc Hnc PRE0 (ser OLD0) opos0 adm0 cmax0 rm0 (jser0 G)
              c0 (ser X) j z S_all Hpc0 Hrm0 Hc1c Hc2c Hj
              ltac:(unfold S_all; rewrite ENEW; reflexivity)
              HokS ltac:(rewrite <- ENEW, HlenS; replace (hi - base + 1) with (hi + 1 - base) by (clear - Hbase'' Hlohi; lia); exact Hfit))
    as (xs_d & xs_r & PRE & adm & cmax & rm & zz & Hxs & Hpc & HSp & Hroom & Hcm & Hrm7 & Hadmc &
        HTP & Hc0P & HoldP & HPT' & Hfullj).
  fold a0 in Hpc, HoldP, HPT'.
  destruct (map_app_inv entry_ser X _ _ Hxs) as (Xd & Xr & HX & HXd & HXr).
  set (OLD := gh_ALL G ++ Xd).
  set (opos := opos0 ++ starts a0 (jser0 G ++ xs_d)).
  assert (EserO : ser OLD = ser OLD0 ++ jser0 G ++ xs_d).
  { unfold OLD. rewrite HALLs at 1. rewrite !map_app, HXd, <- app_assoc. reflexivity. }
  pose proof Hpre0 as (Hl0 & Hb0 & Hs0).
  assert (Hpre : pre_ok PRE OLD opos).
  { split.
    { unfold opos. rewrite app_length, (ResyncProofs.starts_length P), Hl0.
      rewrite <- (map_length entry_ser OLD), EserO, !app_length, map_length. reflexivity. }
    pose proof (H3 starts_bounds (jser0 G ++ xs_d) a0) as Hsb.
    split.
    { unfold opos. apply Forall_app. split.
      - eapply Forall_impl; [|exact Hb0]. cbn beta. fold a0. intros s Hs.
        assert (HTP' : lenN T <= lenN PRE) by exact HTP. rewrite HlT0 in HTP'. clear - Hs HTP'. lia.
      - eapply Forall_impl; [|exact Hsb]. cbn beta. intros s (_ & _ & Hs).
        unfold ResyncProofs.cursor_after in Hs. clear - Hs HoldP. lia. }
    unfold opos. apply StronglySorted_app_lt; [exact Hs0|apply (H3 starts_sorted)|].
    intros x y Hx Hy. rewrite Forall_forall in Hb0. specialize (Hb0 x Hx).
    rewrite Forall_forall in Hsb. destruct (Hsb y Hy) as (H1 & H2' & _). fold a0 in Hb0. clear - Hb0 H1 H2'. lia. }
  assert (Hpc' : pre_cont P PRE (ser OLD) opos adm cmax rm).
  { unfold opos. rewrite EserO. exact Hpc. }
  assert (Hrd : pre_reads P PRE (ser OLD) opos adm cmax rm).
  { apply (pre_reads_of_cont P HBS_lo HBS_hi Hcrc). exact Hpc'. }
  (* geometry *)
  assert (Hb'c0 : (lo' - base) * FB <= c0).
  { rewrite Ec0f. assert ((lo' - base) * FB <= (f0 - base) * FB) by (apply N.mul_le_mono_r; clear - Hlohi Ehi; lia).
    clear - H. lia. }
  assert (Hadm_all : forall mm, adm (mm * NB P)).
  { intros mm. apply Hadmc; [apply Hadm0|]. rewrite HlenS.
    replace (mm * NB P * B) with (mm * FB) by (unfold FILE_BYTES; lia).
    destruct (N.le_gt_cases mm (f0 - base)) as [Hle|Hgt].
    - left. rewrite Ec0f. assert (mm * FB <= (f0 - base) * FB) by (apply N.mul_le_mono_r; exact Hle). clear - H. lia.
    - right. rewrite Ehi. assert ((f0 - base + 1) * FB <= mm * FB) by (apply N.mul_le_mono_r; clear - Hgt; lia).
      clear - H. lia. }
  assert (Hhi' : (hi - base) * FB <= ffp (lenN PRE)) by (rewrite Ehi; clear - Hc0P Ec0f; lia).
  assert (HwfO : Forall wf_entry OLD).
  { unfold OLD. apply Forall_app. split; [exact HWf|].
    rewrite HX in HwfX. apply Forall_app in HwfX. apply HwfX. }
  assert (HSt : stream_of (fs_ext P img lo' n) (iota lo' (S n)) =
                dropN ((lo' - base) * FB) (PRE ++ zerosN zz)).
  { rewrite Eext, <- HSp. exact Hstream. }
  assert (HlenS' : lenN (PRE ++ zerosN zz) = (lo' + N.of_nat n - base + 1) * FB).
  { rewrite <- HSp, Ecur. exact HlenS. }
  assert (Hroom' : lenN PRE + rm <= lenN (PRE ++ zerosN zz)) by (rewrite <- HSp; exact Hroom).
  assert (Hhimax' : lo' + N.of_nat n <= U64_MAX) by (rewrite Ecur; exact Hhimax).
  assert (Htop' : forall x, lo' + N.of_nat n < x -> x <= U64_MAX -> fs_get img (filename x) = None)
    by (rewrite Ecur; exact Htop).
  assert (Hhi'' : (lo' + N.of_nat n - base) * FB <= ffp (lenN PRE)) by (rewrite Ecur; exact Hhi').
  assert (Hbffp : (lo' - base) * FB <= ffp (lenN PRE)) by (clear - Hb'c0 Hc0P; lia).
  assert (Hadmk : adm ((lo' - base) * NB P)) by apply Hadm_all.
  assert (Hgc_any : forall mabs, crash_boundJ G X mabs ->
            forall extra, pos_extra mabs extra ->
              FB * base + cursor_after (lenN PRE) (ser extra) <= FB * (U64_MAX + 1)).
  { intros mabs Hcbm extra Hx. apply (Hcbm (lenN PRE) extra Hx); [exact HTP|].
    rewrite map_app. fold (jser0 G). fold a0. unfold ResyncProofs.cursor_after. exact HPT'. }
  assert (Eopos : opos = jpos0 G ++ starts (lenN T) xs_d).
  { unfold opos, JInv.jpos. rewrite (H3 starts_app), <- app_assoc. fold a0. do 3 f_equal.
    unfold T. rewrite (jT_len P PRE0 OLD0 G). reflexivity. }
  (* the logical ghost *)
  assert (Hlog : exists qs_log lo_log Glog,
            LInv qs_log lo_log Glog /\ gh_ALL Glog = OLD /\ gh_base Glog = base /\
            Forall (fun s => (lo' - base) * FB <= snd s) (skipn (gh_k Glog) opos) /\
            ((Xd = [] /\ forall q, s_get (abs_qs qs_log) q = s_get (abs_qs (s_qs st)) q) \/
             (Xd <> [] /\ forall q, s_get (abs_qs qs_log) q = s_get (abs_qs (s_qs st')) q))).
  { destruct nu as [|nu'].
    - (* no file unlinked: the ghost of the delivered prefix of the call *)
      assert (Elo' : lo' = lo) by (unfold lo'; cbn; lia).
      destruct (call_prefix_linvJ P HBS_lo HBS_hi HNB Hcrc HGC PRE0 OLD0 opos0 Hpre0
                  st G o tick st' out HI Hop Hbound Hstep Hno
                  Xd Xr HX) as (Gd & qsd & HLd & Ebd & Ebefd & EEd & Hnil & Hcons).
      assert (EALLd : gh_ALL Gd = OLD).
      { rewrite gh_ALL_split, Ebefd, EEd, app_assoc, <- gh_ALL_split. reflexivity. }
      assert (Ekd : gh_k Gd = gh_k G) by (rewrite <- !gh_before_length, Ebefd; reflexivity).
      exists qsd, lo, Gd. split; [exact HLd|]. split; [exact EALLd|]. split; [exact Ebd|].
      split.
      { rewrite Ekd, Elo', Eopos.
        rewrite skipn_app_le.
        2:{ rewrite (jpos_length P HBS_lo HBS_hi HNB Hcrc PRE0 OLD0 opos0 w G Hpre0 HP).
            rewrite gh_ALL_split, app_length, gh_before_length. lia. }
        apply Forall_app. split.
        - exact (pinvJ_E_positions w G HP).
        - pose proof (starts_ge_ffp P HBS_lo HBS_hi Hcrc xs_d (lenN T)) as Hs.
          eapply Forall_impl; [|exact Hs]. cbn beta. intros s Hs'.
          rewrite <- Elo'. clear - Hs' Hc2c Ec0 Elo'. lia. }
      destruct Xd as [|x Xd''].
      + left. split; [reflexivity|]. now apply Hnil.
      + right. split; [discriminate|]. apply Hcons. discriminate.
    - (* some files unlinked: everything was written; the ghost after the call *)
      assert (Hjfull : j = lenN NEW) by (apply Hnuj; discriminate).
      assert (HXr0 : Xr = []).
      { destruct Xr as [|xr Xr']; [reflexivity|exfalso].
        assert (Hne : xs_r <> []) by (rewrite <- HXr; discriminate).
        specialize (Hfullj Hne). rewrite <- ENEW in Hfullj. clear - Hfullj Hjfull. lia. }
      assert (EXd : Xd = X) by (rewrite HX, HXr0; now rewrite app_nil_r).
      exists (s_qs st'), (wlo w'), G'.
      split; [exact HL'|]. split; [unfold OLD; rewrite EXd; exact EALL'|]. split; [exact Eb|].
      split.
      { pose proof (pinvJ_E_positions w' G' HP') as Hpos'. rewrite Eb in Hpos'.
        assert (Ejp' : jpos0 G' = opos).
        { unfold opos, JInv.jpos, JInv.jser, JInv.jNEW. rewrite EALL', skipn_app_le by exact Hjlen.
          rewrite map_app, <- HXd, EXd. reflexivity. }
        rewrite <- Ejp'.
        eapply Forall_impl; [|exact Hpos']. cbn beta. intros s Hs'.
        assert ((lo' - base) * FB <= (wlo w' - base) * FB) by (apply N.mul_le_mono_r; clear - Hlo'x; lia).
        clear - H Hs'. lia. }
      destruct (nil_dec X) as [E0|Hne].
      + left. split; [congruence|]. intros q.
        (* nothing logged: the abstract state is unchanged *)
        pose proof (LInv_nodup _ _ _ HL) as Hndn.
        pose proof (step_replay P st o tick Hndn) as Hrep. rewrite Hstep in Hrep. cbn [fst snd] in Hrep.
        specialize (Hrep Hno).
        assert (El : step_log P st o = []) by (apply map_eq_nil with (f := snd); exact E0).
        rewrite El in Hrep. cbn [replay_entries] in Hrep. injection Hrep as <-. reflexivity.
      + right. split; [congruence|]. intros q. reflexivity. }
  destruct Hlog as (qs_log & lo_log & Glog & HLlog & HALLlog & Eblog & Hklog & Habs).
  assert (Hgcb : forall extra, pos_extra (abs_qs qs_log) extra ->
            FB * base + cursor_after (lenN PRE) (ser extra) <= FB * (U64_MAX + 1)).
  { destruct Habs as [[_ Ha]|[_ Ha]].
    - apply (Hgc_any (abs_qs qs_log)). exact (crash_boundJ_ext G X _ _ Ha Hcb).
    - apply (Hgc_any (abs_qs qs_log)). exact (crash_boundJ_ext G X _ _ Ha Hcb'). }
  destruct (recover_core P HBS_lo HBS_hi HNB Hcrc HGC HIO HSHORT PRE OLD opos adm cmax rm Hpre Hrd
              img lo' n base Hlistx Hfilesx Hbase'' Hhimax' Hndk
              ltac:(exact Hdir) Htop' zz HSt HlenS' Hadmk Hroom' HwfO Hhi'' Hbffp
              qs_log lo_log Glog HLlog HALLlog Eblog Hklog Hgcb pol hint)
    as (st_r & G_r & Hopen & HIr & Habsr & Ebr & Hfr & Hpolr & Hpendr).
  exists PRE, OLD, opos, adm, cmax, rm, st_r, G_r.
  split; [exact Hopen|]. split; [exact Hpre|]. split; [exact Hpc'|]. split; [exact Hrm7|].
  split; [exact Hadm_all|].
  split; [exact HIr|].
  split.
  { rewrite Ebr, Eblog. rewrite Ecur in Hfr.
    assert ((hi - base + 1) * FB <= (w_file (s_wr st_r) + 1 - base) * FB)
      by (apply N.mul_le_mono_r; clear - Hfr Hbase'' Hlohi; lia).
    pose proof Hroom as Hroom2. rewrite HlenS in Hroom2. clear - H Hroom2. lia. }
  split; [exact Hpolr|]. split; [exact Hpendr|].
  destruct Habs as [[_ Ha]|[_ Ha]]; [left|right]; intros q; now rewrite Habsr, Ha.
Qed.


(* ---------- the bounds in terms of the state alone (as CrashAtomic.crash_phys_bound_ghost) ---------- *)
Lemma crash_boundJ_stream_boundJ G X m : crash_boundJ G X m -> stream_boundJ P PRE0 OLD0 G X.
Proof.
  clear Hpre0 Hpc0 Hrm0 Hadm0 HGC HIO HSHORT Hnc. clear adm0 cmax0 rm0.
  intros Hb. unfold JInv.stream_boundJ.
  pose proof (Hb (cursor_after (lenN PRE0) (ser (jNEW0 G ++ X))) [] (pos_extra_nil m)) as H.
  cbn [map] in H. rewrite (H2 cursor_after_nil) in H. apply H; [|lia].
  rewrite map_app, (H3 cursor_after_app). fold (jser0 G).
  rewrite <- (jT_len P PRE0 OLD0 G). apply (H3 cursor_after_ge).
Qed.

Lemma crash_phys_bound_ghostJ w G X m :
  PInvJ0 w G -> crash_phys_bound P w X m -> crash_boundJ G X m.
Proof.
  clear Hpre0 Hpc0 Hrm0 Hadm0 HGC HIO HSHORT Hnc. clear adm0 cmax0 rm0.
  intros (Hw & _ & _ & Hbase & Hc1 & Hc2 & _) Hb c extra Hx Hlo Hhi. cbn zeta in *.
  pose proof Hw as (Hok & _). destruct (wr_ok_len P (HB0c P HBS_lo HBS_hi HNB) HNB w Hok) as (Hn & Hn1).
  set (c0 := (wlo w - gh_base G) * FB + wpos P w) in *.
  assert (Eabs : wabs P w = gh_base G * FB + c0).
  { unfold wabs, c0, wpos.
    replace (w_file w) with (gh_base G + ((wlo w - gh_base G) + (lenN (w_files w) - 1))) by lia.
    lia. }
  assert (Hsh : forall x es, cursor_after (gh_base G * FB + x) es = gh_base G * FB + cursor_after x es).
  { intros x es. apply (cursor_after_shift P HBS_lo HBS_hi HNB Hcrc). apply (HN mulFB_mod). }
  specialize (Hb (gh_base G * FB + c) extra Hx). rewrite Hsh, Eabs, Hsh in Hb.
  pose proof (ffp_lt7 P HBS_lo HBS_hi HNB (lenN (jT0 G))) as H7.
  assert (HT' : cursor_after (lenN PRE0) (ser (jNEW0 G ++ X)) <= cursor_after c0 (ser X)).
  { rewrite map_app, (H3 cursor_after_app). fold (jser0 G). rewrite <- (jT_len P PRE0 OLD0 G).
    apply (cursor_after_between P HBS_lo HBS_hi HNB Hcrc); assumption. }
  lia.
Qed.

End Recover2.

Print Assumptions crashJ_recover_invJ.
Print Assumptions crash_phys_bound_ghostJ.
