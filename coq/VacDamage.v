(* VacDamage.v — vacuity audit, part 3: the end-to-end theorems of PropC09 (Inv, damaged_dir,
   dmg_bound).  Instance: DamageAtomic.Example (BS = 32, NB = 2, the real CRC-32; a history of
   8 calls with roll-overs and a GC pass that deletes file 0).  DamageAtomic.Example.C09_ex only
   applies C09_from_fresh to its outer premises; damaged_dir and dmg_bound are not shown
   satisfiable there.  Here: a ghost state G for which Inv, damaged_dir (for the first kept
   entry) and dmg_bound all hold, so that C09_damage_costs_one_entry is applied with ALL its
   premises discharged. *)
From Coq Require Import Lia ZArith ZifyN ZifyNat ZifyBool List.
From MRL Require Import Bytes BytesProofs Params Names Frame Record Mem Spec Rolling Log Driver Hist
  WriterProofs SpecRefine RecordProofs StreamProofs DamageProofs ResyncProofs GhostLog ReplaySpec
  RestartInv RestartWrite RestartStep OpenReplay RestartFinal RestartCorollaries DamageAtomic VacBase.
From MRL Require PropC09.
Import ListNotations.
Import DamageAtomic.Example.

Arguments N.add : simpl never.
Arguments N.sub : simpl never.
Arguments N.mul : simpl never.
Arguments N.eqb : simpl never.
Arguments N.ltb : simpl never.
Arguments N.leb : simpl never.
Arguments N.div : simpl never.
Arguments N.modulo : simpl never.

(* dmg_bound from a computation, given the queue names that may occur in the kept log *)
Lemma dmg_bound_by (P : params) (H1 : 7 < BS P) (H2 : BS P <= 65542) (H3 : 1 <= NB P)
      (H4 : forall t p, crcf P t p < 2 ^ 32) K st G names :
  (forall q, In q (map entry_queue (map snd (gh_E G))) -> In q names) ->
  enc_len_ok P K (map pos_ser names) = true ->
  wabs P (s_wr st) + K * N.of_nat (length names) <= FILE_BYTES P * (U64_MAX + 1) ->
  dmg_bound P st G.
Proof.
  intros Hn HK Hb extra Hnd Hall. unfold phys_bound.
  pose proof (pos_entries_bound P H1 H2 H3 H4 names K (wabs P (s_wr st)) extra HK Hnd) as Hc.
  assert (Hall' : Forall (fun e => exists q p, e = EPosition q p /\ In q names) extra).
  { eapply Forall_impl; [|exact Hall]. intros e (q & p & -> & Hq). exists q, p. auto. }
  specialize (Hc Hall'). lia.
Qed.

Definition calls_ex : list (op * bool) := Eval vm_compute in RestartCorollaries.hcalls_t h_ex.
Lemma h_ex_calls : h_ex = hcalls_of calls_ex.
Proof. reflexivity. Qed.

(* a ghost state for st_ex whose log is known: the entries the eight calls logged *)
Lemma ghost_ex : exists G,
  Inv Pc st_ex G /\ gh_base G = 0 /\ gh_dropped G = [] /\ gh_log G = calls_log Pc st0 calls_ex.
Proof.
  pose proof (inv_fresh Pc Pc_BS_lo Pc_BS_hi Pc_NB PNothing st0 open_st0) as HI0.
  pose proof hist_ok_ex as Hok. rewrite h_ex_calls in Hok.
  destruct (calls_inv_log Pc Pc_BS_lo Pc_BS_hi Pc_NB Pc_crc eq_refl calls_ex st0 gh_fresh HI0 Hok)
    as (G & HI & Eb & Ed & El & _).
  exists G. replace st_ex with (fst (run Pc st0 calls_ex)) by (vm_compute; reflexivity).
  split; [exact HI|]. split; [exact Eb|]. split; [exact Ed|].
  rewrite El. change (gh_log gh_fresh) with (@nil (N * entry)). apply app_nil_l.
Qed.

Example ghost_log_ex :
  map snd (calls_log Pc st0 calls_ex) =
  [EPosition qa 0; EPosition qb 0; EAppend qa 0 [(0, pay "x"%byte); (1, pay "y"%byte)];
   EAppend qa 2 [(2, pay "u"%byte)]; ETruncate qa 1; EPosition qb 0;
   EAppend qb 0 [(0, pay "z"%byte)]; EAppend qa 3 [(3, pay "v"%byte); (4, pay "t"%byte)];
   EAppend qb 1 [(1, pay "w"%byte)]].
Proof. vm_compute. reflexivity. Qed.

Lemma C09_damage_costs_one_entry_premises_satisfiable :
  exists G i X ex0 ed k fs_d,
    Inv Pc st_ex G /\ damaged_dir Pc st_ex G i X ex0 ed k fs_d /\ dmg_bound Pc st_ex G.
Proof.
  destruct ghost_ex as (G & HI & _ & _ & El).
  assert (Hne : gh_E G <> []).
  { apply (gh_E_nonempty Pc st_ex G qa ([(2, pay "u"%byte); (3, pay "v"%byte); (4, pay "t"%byte)], 5) HI).
    vm_compute. reflexivity. }
  destruct (gh_E G) as [|[fX X] rest] eqn:EE; [contradiction|].
  destruct (PropC09.C09_damaged_dir_exists Pc Pc_BS_lo Pc_BS_hi Pc_NB Pc_crc st_ex G 0%nat X fX HI)
    as (ex0 & ed & k & fs_d & Hd); [rewrite EE; reflexivity|].
  exists G, 0%nat, X, ex0, ed, k, fs_d. split; [exact HI|]. split; [exact Hd|].
  apply (dmg_bound_by Pc Pc_BS_lo Pc_BS_hi Pc_NB Pc_crc 64 st_ex G [qa; qb]).
  - intros q Hq. apply gh_E_names in Hq. rewrite El in Hq.
    vm_compute in Hq. vm_compute. intuition.
  - vm_compute. reflexivity.
  - vm_compute. intros H; discriminate H.
Qed.

Example C09_damage_costs_one_entry_inst :
  exists X fs_d, forall pol hint, exists st_r,
    open Pc fs_d None pol hint = OpenOk st_r /\
    SpecRefine.qs_inv (s_qs st_r) /\
    (forall q m pos payload,
        qs_get (s_qs st_ex) q = Some m ->
        In (pos, payload) (records_of (q_buf m) (q_metas m)) ->
        ~ appended_by X q (pos, payload) ->
        exists m', qs_get (s_qs st_r) q = Some m' /\
                   In (pos, payload) (records_of (q_buf m') (q_metas m'))).
Proof.
  destruct C09_damage_costs_one_entry_premises_satisfiable as (G & i & X & ex0 & ed & k & fs_d & HI & Hd & Hb).
  exists X, fs_d.
  exact (PropC09.C09_damage_costs_one_entry Pc Pc_BS_lo Pc_BS_hi Pc_NB Pc_crc eq_refl eq_refl
           st_ex G i X ex0 ed k fs_d HI Hd Hb).
Qed.

(* C09_from_fresh: outer premises (open, hrun, hist_ok) - DamageAtomic.Example.C09_ex; the Prop
   theorem itself: *)
Example C09_from_fresh_inst : exists G, Inv Pc st_ex G /\ gh_base G = 0.
Proof.
  destruct (PropC09.C09_from_fresh Pc Pc_BS_lo Pc_BS_hi Pc_NB Pc_crc eq_refl eq_refl PNothing st0 h_ex
              st_ex outs_ex open_st0 hrun_ex hist_ok_ex) as (G & HI & Eb & _).
  now exists G.
Qed.
