(* JRecoverPk.v — TASK T14: the hypotheses of JRecoverP.recover_core / JRecoverP2.recover_core_x
   as one predicate, and the two theorems restated on it. *)
From Coq Require Import Lia ZArith ZifyN ZifyNat ZifyBool List Sorted.
From MRL Require Import Bytes BytesProofs Params Names NamesProofs Frame Record Mem Spec Rolling Log
  Driver Hist NoopProofs SpecRefine RecordProofs StreamProofs PolicyProofs GcProofs GhostLog ReplaySpec
  HandleProofs FileStream ResyncProofs QueueIso RestartInv RestartWrite RestartGc RestartStep
  OpenReplay RestartFinal TornProofs TornFile CrashTrace CrashAtomic
  JInv JGc JStep JunkStream JRecoverL JRecoverP JRecoverP2.

Arguments N.add : simpl never.
Arguments N.sub : simpl never.
Arguments N.mul : simpl never.

Section Pk.
Variable P : params.
Hypothesis HBS_lo : 7 < BS P.
Hypothesis HBS_hi : BS P <= 65542.
Hypothesis HNB : 1 <= NB P.
Hypothesis Hcrc : forall t p, crcf P t p < 2 ^ 32.
Hypothesis HGC : L_GC P = false.
Hypothesis HIO : L_IO P = false.
Hypothesis HSHORT : L_SHORT P = false.

Local Notation B := (BS P).
Local Notation FB := (FILE_BYTES P).
Local Notation ffp := (first_frame_pos P).
Local Notation cursor_after := (cursor_after P).
Local Notation ser := (map entry_ser).

Definition rc_hyps (PRE : bytes) (OLD : list entry) (opos : list (N * N)) (adm : N -> Prop) (rm : N)
    (img : fsT) (lo' : N) (n : nat) (base zz : N) (qs_log : queues) (lo_log : N) (Glog : ghost) : Prop :=
  let files := iota lo' (Datatypes.S n) in
  let hi := lo' + N.of_nat n in
  let b' := (lo' - base) * FB in
  list_wal_numbers img = files /\
  (forall f, In f files ->
     exists b, fs_get img (filename f) = Some (FFile b) /\ lenN b <= FB /\ (f <> hi -> lenN b = FB)) /\
  base <= lo' /\ hi <= U64_MAX /\ nodup_keys img /\ dir_of img files /\
  (forall x, hi < x -> x <= U64_MAX -> fs_get img (filename x) = None) /\
  stream_of (fs_ext P img lo' n) files = dropN b' (PRE ++ zerosN zz) /\
  lenN (PRE ++ zerosN zz) = (hi - base + 1) * FB /\
  adm ((lo' - base) * NB P) /\
  lenN PRE + rm <= lenN (PRE ++ zerosN zz) /\
  Forall wf_entry OLD /\
  (hi - base) * FB <= ffp (lenN PRE) /\
  b' <= ffp (lenN PRE) /\
  LInv qs_log lo_log Glog /\ gh_ALL Glog = OLD /\ gh_base Glog = base /\
  Forall (fun s => b' <= snd s) (skipn (gh_k Glog) opos) /\
  (forall extra, pos_extra (abs_qs qs_log) extra ->
     FB * base + cursor_after (lenN PRE) (ser extra) <= FB * (U64_MAX + 1)).

Theorem recover_core_pk PRE OLD opos adm cmax rm img lo' n base zz qs_log lo_log Glog pol hint :
  pre_ok PRE OLD opos -> pre_reads P PRE (ser OLD) opos adm cmax rm ->
  rc_hyps PRE OLD opos adm rm img lo' n base zz qs_log lo_log Glog ->
  exists st_r G_r,
    open P img None pol hint = OpenOk st_r /\ InvJ P PRE OLD opos st_r G_r /\
    (forall q, s_get (abs_qs (s_qs st_r)) q = s_get (abs_qs qs_log) q) /\
    gh_base G_r = gh_base Glog /\ lo' + N.of_nat n <= w_file (s_wr st_r) /\ s_pol st_r = pol /\
    w_pending (s_wr st_r) = [].
Proof.
  intros Hpre Hrd (H1 & H2 & H3 & H4 & H5 & H6 & H7 & H8 & H9 & H10 & H11 & H12 & H13 & H14 & H15 &
                   H16 & H17 & H18 & H19).
  exact (recover_core P HBS_lo HBS_hi HNB Hcrc HGC HIO HSHORT PRE OLD opos adm cmax rm Hpre Hrd
           img lo' n base H1 H2 H3 H4 H5 H6 H7 zz H8 H9 H10 H11 H12 H13 H14
           qs_log lo_log Glog H15 H16 H17 H18 H19 pol hint).
Qed.

Theorem recover_core_x_pk PRE OLD opos adm cmax rm img lo' n base zz qs_log lo_log Glog pol hint :
  pre_ok PRE OLD opos -> pre_reads P PRE (ser OLD) opos adm cmax rm ->
  rc_hyps PRE OLD opos adm rm img lo' n base zz qs_log lo_log Glog ->
  let hi := lo' + N.of_nat n in
  let fsx := fs_ext P img lo' n in
  exists w0 qs0 G0 A k st_r G_r,
    InvJ P PRE OLD opos (mkSt w0 qs0 pol) G0 /\ gh_base G0 = gh_base Glog /\ w_pending w0 = [] /\
    w_file w0 = hi /\ wlo w0 = lo' /\ jNEW OLD G0 = [] /\ lenN PRE <= (hi - base) * FB + w_off w0 /\
    (forall q, s_get (abs_qs qs0) q = s_get (abs_qs qs_log) q) /\
    c_ev (w_ctx w0) = rev A /\ c_fs (w_ctx w0) = fsx /\ fold_left apply_event A img = fsx /\
    (forall pe, cpre pe A -> fold_left apply_event pe img = img \/ fold_left apply_event pe img = fsx) /\
    run_gc_if_necessary P (mkSt w0 qs0 pol) hint = (st_r, Ok k) /\
    open P img None pol hint = OpenOk st_r /\ InvJ P PRE OLD opos st_r G_r /\
    (forall q, s_get (abs_qs (s_qs st_r)) q = s_get (abs_qs qs_log) q) /\
    gh_base G_r = gh_base Glog /\ hi <= w_file (s_wr st_r) /\ s_pol st_r = pol /\
    w_pending (s_wr st_r) = [].
Proof.
  intros Hpre Hrd (H1 & H2 & H3 & H4 & H5 & H6 & H7 & H8 & H9 & H10 & H11 & H12 & H13 & H14 & H15 &
                   H16 & H17 & H18 & H19).
  exact (recover_core_x P HBS_lo HBS_hi HNB Hcrc HGC HIO HSHORT PRE OLD opos adm cmax rm Hpre Hrd
           img lo' n base H1 H2 H3 H4 H5 H6 H7 zz H8 H9 H10 H11 H12 H13 H14
           qs_log lo_log Glog H15 H16 H17 H18 H19 pol hint).
Qed.

(* the zero-extension of the last file of the image does not change the hypotheses *)
Lemma rc_hyps_ext PRE OLD opos adm rm img lo' n base zz qs_log lo_log Glog :
  rc_hyps PRE OLD opos adm rm img lo' n base zz qs_log lo_log Glog ->
  rc_hyps PRE OLD opos adm rm (fs_ext P img lo' n) lo' n base zz qs_log lo_log Glog.
Proof.
  intros (H1 & H2 & H3 & H4 & H5 & H6 & H7 & H8 & H9 & Hrest). cbv zeta in *.
  set (hi := lo' + N.of_nat n) in *. set (files := iota lo' (Datatypes.S n)) in *.
  assert (Hin_hi : In hi files) by (apply iota_In; lia).
  assert (Hfull : forall f, In f files ->
            exists b, fs_get (fs_ext P img lo' n) (filename f) = Some (FFile b) /\ lenN b = FB)
    by exact (Hfull_ext P HBS_lo HBS_hi HNB img lo' n H1 H2).
  assert (Hnd' : nodup_keys (fs_ext P img lo' n)) by (unfold fs_ext; now apply nodup_keys_put).
  assert (Hdir' : dir_of (fs_ext P img lo' n) files).
  { unfold fs_ext. apply dir_of_put_in; [exact H6|exact H4|exact Hin_hi]. }
  assert (Hlist' : list_wal_numbers (fs_ext P img lo' n) = files).
  { assert (E : files = nfiles lo' hi).
    { unfold nfiles, files. f_equal. f_equal. unfold hi. lia. }
    rewrite E. apply (dir_listing P HBS_lo HBS_hi HNB); [exact Hnd'|rewrite <- E; exact Hdir'|unfold hi; lia|exact H4]. }
  assert (Hfiles' : forall f, In f files ->
            exists b, fs_get (fs_ext P img lo' n) (filename f) = Some (FFile b) /\ lenN b <= FB /\
                      (f <> hi -> lenN b = FB)).
  { intros f Hf. destruct (Hfull f Hf) as (b & Hb & Hl). exists b. split; [exact Hb|]. split; [lia|auto]. }
  assert (Eext : fs_ext P (fs_ext P img lo' n) lo' n = fs_ext P img lo' n).
  { apply (fs_ext_full P HBS_lo HBS_hi HNB Hcrc (fs_ext P img lo' n) lo' n Hfiles').
    destruct (Hfull hi Hin_hi) as (b & Hb & Hl). unfold OpenTerm.fcontent, PolicyProofs.fcontent. fold hi.
    first [rewrite Hb; exact Hl | unfold fcontent; rewrite Hb; exact Hl]. }
  split; [exact Hlist'|]. split; [exact Hfiles'|]. split; [exact H3|]. split; [exact H4|].
  split; [exact Hnd'|]. split; [exact Hdir'|].
  split.
  { intros x Hx1 Hx2. unfold fs_ext. rewrite fs_get_put_other; [now apply H7|].
    apply filename_neq; fold hi; lia. }
  split; [rewrite Eext; exact H8|]. split; [exact H9|]. exact Hrest.
Qed.

End Pk.

Print Assumptions recover_core_pk.
Print Assumptions recover_core_x_pk.
Print Assumptions rc_hyps_ext.
