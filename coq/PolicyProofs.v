(* PolicyProofs.v — property C14: the persist policy never changes logical behaviour.
   The policy (s_pol, and the `tick` given to step) only decides WHEN the bytes buffered in the
   BufWriter reach the file-system model; the results of the calls, the queues and the logical
   directory (the directory as it will be once the buffer is flushed) do not depend on it,
   neither live nor after a clean restart. *)
From Coq Require Import Lia ZArith ZifyN ZifyNat ZifyBool.
From MRL Require Import Bytes BytesProofs Params Names Frame Record Mem Rolling Log Hist WriterProofs.

Arguments N.add : simpl never.
Arguments N.sub : simpl never.
Arguments N.mul : simpl never.
Arguments N.eqb : simpl never.
Arguments N.ltb : simpl never.
Arguments N.leb : simpl never.
Arguments N.div : simpl never.
Arguments N.modulo : simpl never.

(* ====================================================================== *)
(* 1. the file-system model: put/get, write_at                            *)
(* ====================================================================== *)

Lemma fs_get_put_same fs k e : fs_get (fs_put fs k e) k = Some e.
Proof.
  induction fs as [|[n e0] r IH]; cbn [fs_put fs_get].
  - now rewrite bytes_eqb_refl.
  - destruct (bytes_eqb n k) eqn:E; cbn [fs_get]; rewrite E; [reflexivity|exact IH].
Qed.

Lemma fs_put_put fs k e e' : fs_put (fs_put fs k e) k e' = fs_put fs k e'.
Proof.
  induction fs as [|[n e0] r IH]; cbn [fs_put].
  - now rewrite bytes_eqb_refl.
  - destruct (bytes_eqb n k) eqn:E; cbn [fs_put]; rewrite E; [reflexivity|now rewrite IH].
Qed.

(* two consecutive pwrites are one pwrite of the concatenation *)
Lemma write_at_app c off d1 d2 :
  write_at (write_at c off d1) (off + lenN d1) d2 = write_at c off (d1 ++ d2).
Proof.
  unfold write_at.
  set (head := if off <=? lenN c then takeN off c else c ++ zerosN (off - lenN c)).
  assert (Hh : lenN head = off).
  { unfold head. destruct (N.leb_spec off (lenN c)) as [H|H].
    - rewrite lenN_takeN. lia.
    - rewrite lenN_app, lenN_zerosN. lia. }
  set (tl := dropN (off + lenN d1) c).
  assert (Hhd : lenN (head ++ d1) = off + lenN d1) by (rewrite lenN_app; lia).
  replace (head ++ d1 ++ tl) with ((head ++ d1) ++ tl) by now rewrite app_assoc.
  destruct (N.leb_spec (off + lenN d1) (lenN ((head ++ d1) ++ tl))) as [H|H];
    [|rewrite lenN_app in H; lia].
  rewrite <- Hhd at 1. rewrite takeN_app_exact.
  clearbody head.
  rewrite dropN_app_ge by lia.
  replace (off + lenN d1 + lenN d2 - lenN (head ++ d1)) with (lenN d2) by lia.
  unfold tl. rewrite dropN_dropN. rewrite lenN_app, <- !app_assoc.
  do 4 f_equal. lia.
Qed.

Definition fcontent (fs : fsT) (n : N) : bytes :=
  match fs_get fs (filename n) with Some (FFile b) => b | _ => [] end.

(* what a pwrite does to the directory *)
Definition fs_write (fs : fsT) (n off : N) (d : bytes) : fsT :=
  fs_put fs (filename n) (FFile (write_at (fcontent fs n) off d)).

Lemma os_write_fs c n off d : c_fs (os_write c n off d) = fs_write (c_fs c) n off d.
Proof. reflexivity. Qed.

Lemma fs_write_write fs n off d1 d2 :
  fs_write (fs_write fs n off d1) n (off + lenN d1) d2 = fs_write fs n off (d1 ++ d2).
Proof.
  unfold fs_write, fcontent. now rewrite fs_get_put_same, fs_put_put, write_at_app.
Qed.

(* ====================================================================== *)
(* 2. the policy-independent view of a writer                             *)
(* ====================================================================== *)

(* the directory as it will be once the buffer is flushed *)
Definition vfs (w : rwriter) : fsT := c_fs (w_ctx (flush_buf w)).

Definition weq (w1 w2 : rwriter) : Prop :=
  w_files w1 = w_files w2 /\ w_file w1 = w_file w2 /\ w_off w1 = w_off w2 /\ vfs w1 = vfs w2
  /\ c_plan (w_ctx w1) = c_plan (w_ctx w2) /\ c_nopen (w_ctx w1) = c_nopen (w_ctx w2)
  /\ c_nreaddir (w_ctx w1) = c_nreaddir (w_ctx w2) /\ c_nread (w_ctx w1) = c_nread (w_ctx w2).

(* policies may differ *)
Definition seq (s1 s2 : state) : Prop := weq (s_wr s1) (s_wr s2) /\ s_qs s1 = s_qs s2.

(* the buffered bytes are the last bytes of the stream: os_pos does not underflow *)
Definition wf (w : rwriter) : Prop := lenN (w_pending w) <= w_off w.

(* seq between well-formed states *)
Definition seqw (s1 s2 : state) : Prop := seq s1 s2 /\ wf (s_wr s1) /\ wf (s_wr s2).

(* everything of a context but the directory and the event trace *)
Definition cmeta (c : ioctx) := (c_plan c, c_nopen c, c_nreaddir c, c_nread c).
(* everything of a writer the policy cannot influence, but the directory *)
Definition wkey (w : rwriter) := (w_files w, w_file w, w_off w, cmeta (w_ctx w)).

Lemma weq_iff w1 w2 : weq w1 w2 <-> wkey w1 = wkey w2 /\ vfs w1 = vfs w2.
Proof.
  unfold weq, wkey, cmeta. split.
  - intros (H1 & H2 & H3 & H4 & H5 & H6 & H7 & H8). split; [congruence|exact H4].
  - intros [H H4]. injection H as E1 E2 E3 E5 E6 E7 E8. repeat split; assumption.
Qed.

Lemma weq_refl w : weq w w.
Proof. apply weq_iff. split; reflexivity. Qed.

Lemma weq_sym w1 w2 : weq w1 w2 -> weq w2 w1.
Proof. rewrite !weq_iff. intros [H1 H2]. split; congruence. Qed.

Lemma weq_trans w1 w2 w3 : weq w1 w2 -> weq w2 w3 -> weq w1 w3.
Proof. rewrite !weq_iff. intros [H1 H2] [H3 H4]. split; congruence. Qed.

(* the relation used in the proofs: weq between well-formed writers (a PER) *)
Definition wrel (w1 w2 : rwriter) : Prop := weq w1 w2 /\ wf w1 /\ wf w2.

Lemma wrel_sym w1 w2 : wrel w1 w2 -> wrel w2 w1.
Proof. intros (H & H1 & H2). split; [now apply weq_sym|split; assumption]. Qed.

Lemma wrel_trans w1 w2 w3 : wrel w1 w2 -> wrel w2 w3 -> wrel w1 w3.
Proof.
  intros (H & H1 & H2) (H' & H2' & H3). split; [eapply weq_trans; eassumption|split; assumption].
Qed.

Lemma wrel_refl w : wf w -> wrel w w.
Proof. intros H. split; [apply weq_refl|split; assumption]. Qed.

(* w' is w up to buffering *)
Lemma wrel_self w w' : wf w -> wf w' -> wkey w' = wkey w -> vfs w' = vfs w -> wrel w' w.
Proof. intros H1 H2 H3 H4. split; [apply weq_iff; split; assumption|split; assumption]. Qed.

Lemma vfs_mk c fl n off p :
  vfs (mkWr c fl n off p) =
  match p with [] => c_fs c | _ => fs_write (c_fs c) n (off - lenN p) p end.
Proof. unfold vfs, flush_buf. cbn [w_pending]. destruct p; reflexivity. Qed.

Lemma vfs_nil w : w_pending w = [] -> vfs w = c_fs (w_ctx w).
Proof. destruct w as [c fl n off p]. cbn [w_pending w_ctx]. intros ->. apply vfs_mk. Qed.

(* appending to the buffer = a pwrite at the logical offset, on the logical directory *)
Lemma vfs_push c fl n off p d :
  d <> [] -> lenN p <= off ->
  vfs (mkWr c fl n (off + lenN d) (p ++ d)) = fs_write (vfs (mkWr c fl n off p)) n off d.
Proof.
  intros Hd Hp. rewrite !vfs_mk. destruct p as [|b p'].
  - cbn [app]. destruct d as [|x d']; [congruence|]. f_equal. lia.
  - change ((b :: p') ++ d) with (b :: (p' ++ d)).
    change (b :: (p' ++ d)) with ((b :: p') ++ d) at 2 3.
    set (p := b :: p') in *.
    cbv beta iota. clearbody p.
    replace (off + lenN d - lenN (p ++ d)) with (off - lenN p) by (rewrite lenN_app; lia).
    rewrite <- (fs_write_write (c_fs c) n (off - lenN p) p d).
    f_equal. lia.
Qed.

Section Writer.
Variable P : params.

(* ---------- flush / sync: no logical effect ---------- *)
Lemma flush_buf_pending w : w_pending (flush_buf w) = [].
Proof. unfold flush_buf. destruct (w_pending w) eqn:E; [exact E|reflexivity]. Qed.

Lemma flush_buf_key w : wkey (flush_buf w) = wkey w.
Proof. unfold flush_buf. destruct (w_pending w); reflexivity. Qed.

Lemma flush_buf_vfs w : vfs (flush_buf w) = vfs w.
Proof. rewrite vfs_nil by apply flush_buf_pending. reflexivity. Qed.

Lemma flush_buf_fs w : c_fs (w_ctx (flush_buf w)) = vfs w.
Proof. reflexivity. Qed.

Lemma wf_nil w : w_pending w = [] -> wf w.
Proof. unfold wf. intros ->. rewrite lenN_nil. lia. Qed.

Lemma bw_flush_pending w : w_pending (bw_flush w) = [].
Proof. unfold bw_flush, wr_ctx. cbn [w_pending]. apply flush_buf_pending. Qed.

Lemma bw_flush_key w : wkey (bw_flush w) = wkey w.
Proof. rewrite <- (flush_buf_key w). reflexivity. Qed.

Lemma bw_flush_fs w : c_fs (w_ctx (bw_flush w)) = vfs w.
Proof. reflexivity. Qed.

(* the writer just before a roll-over, and after a persist with fsync *)
Definition synced (w : rwriter) : rwriter := sync_dir (sync_data (bw_flush w)).

Lemma synced_pending w : w_pending (synced w) = [].
Proof. unfold synced, sync_dir, sync_data, wr_ctx. cbn [w_pending]. apply bw_flush_pending. Qed.

Lemma synced_key w : wkey (synced w) = wkey w.
Proof. rewrite <- (bw_flush_key w). reflexivity. Qed.

Lemma synced_fs w : c_fs (w_ctx (synced w)) = vfs w.
Proof. reflexivity. Qed.

Lemma wr_persist_key w a : wkey (wr_persist w a) = wkey w.
Proof. unfold wr_persist. destruct a; [apply synced_key|apply bw_flush_key]. Qed.

Lemma wr_persist_fs w a : c_fs (w_ctx (wr_persist w a)) = vfs w.
Proof. unfold wr_persist. destruct a; reflexivity. Qed.

Lemma wr_persist_vfs w a : vfs (wr_persist w a) = vfs w.
Proof. rewrite vfs_nil by apply wr_persist_drained. apply wr_persist_fs. Qed.

(* persisting, with or without fsync, is invisible *)
Lemma wr_persist_rel w a : wf w -> wrel (wr_persist w a) w.
Proof.
  intros H. apply wrel_self; [exact H|apply wf_nil, wr_persist_drained|apply wr_persist_key|
                             apply wr_persist_vfs].
Qed.

(* ---------- contexts up to the event trace ---------- *)
Definition ceq (c1 c2 : ioctx) : Prop := c_fs c1 = c_fs c2 /\ cmeta c1 = cmeta c2.

Lemma ceq_refl c : ceq c c.
Proof. split; reflexivity. Qed.

Lemma ceq_inv c1 c2 : ceq c1 c2 ->
  exists fs ev1 ev2 pl a b c, c1 = mkCtx fs ev1 pl a b c /\ c2 = mkCtx fs ev2 pl a b c.
Proof.
  destruct c1 as [fs1 ev1 pl1 a1 b1 n1], c2 as [fs2 ev2 pl2 a2 b2 n2]. unfold ceq, cmeta.
  cbn [c_fs c_plan c_nopen c_nreaddir c_nread]. intros [H1 H2].
  injection H2 as E1 E2 E3 E4. subst. now exists fs2, ev1, ev2, pl2, a2, b2, n2.
Qed.

Lemma open_file_ceq c1 c2 n : ceq c1 c2 ->
  snd (open_file c1 n) = snd (open_file c2 n) /\ ceq (fst (open_file c1 n)) (fst (open_file c2 n)).
Proof.
  intros H. apply ceq_inv in H. destruct H as (fs & ev1 & ev2 & pl & a & b & c & -> & ->).
  unfold open_file, fault_point. cbn [c_plan c_nopen c_fs c_ev c_nreaddir c_nread].
  destruct pl as [p|].
  - destruct (site_eqb (fp_site p) SOpen && ((b =? fp_nth p) || fp_persistent p && (fp_nth p <? b))).
    + split; [reflexivity|split; reflexivity].
    + cbn [c_fs]. destruct (fs_get fs (filename n)) as [[x| |]|]; split; try reflexivity; split; reflexivity.
  - cbn [c_fs]. destruct (fs_get fs (filename n)) as [[x| |]|]; split; try reflexivity; split; reflexivity.
Qed.

Lemma create_file_ceq c1 c2 n : ceq c1 c2 ->
  snd (create_file P c1 n) = snd (create_file P c2 n) /\
  ceq (fst (create_file P c1 n)) (fst (create_file P c2 n)).
Proof.
  intros H. apply ceq_inv in H. destruct H as (fs & ev1 & ev2 & pl & a & b & c & -> & ->).
  unfold create_file. cbn [c_fs].
  destruct (fs_get fs (filename n)); split; try reflexivity; split; reflexivity.
Qed.

Lemma gc_loop_ceq files : forall c1 c2 r1 r2,
  ceq c1 c2 -> (forall f, r1 f = r2 f) ->
  snd (gc_loop c1 files r1) = snd (gc_loop c2 files r2) /\
  snd (fst (gc_loop c1 files r1)) = snd (fst (gc_loop c2 files r2)) /\
  ceq (fst (fst (gc_loop c1 files r1))) (fst (fst (gc_loop c2 files r2))).
Proof.
  induction files as [|f rest IH]; intros c1 c2 r1 r2 Hc Hr; cbn [gc_loop].
  - cbn [fst snd]. repeat split; apply Hc.
  - destruct rest as [|g rest'].
    + cbn [fst snd]. repeat split; apply Hc.
    + rewrite <- (Hr f). destruct (r1 f).
      * cbn [fst snd]. repeat split; apply Hc.
      * pose proof Hc as Hc'. apply ceq_inv in Hc'.
        destruct Hc' as (fs & ev1 & ev2 & pl & a & b & c & -> & ->). cbn [c_fs].
        destruct (fs_get fs (filename f)) as [[x| |]|].
        -- apply IH; [split; reflexivity|exact Hr].
        -- cbn [fst snd]. repeat split; reflexivity.
        -- apply IH; [split; reflexivity|exact Hr].
        -- cbn [fst snd]. repeat split; reflexivity.
Qed.

(* writers with an empty buffer are compared through their contexts *)
Lemma wrel_mk_nil c1 c2 fl n off : ceq c1 c2 -> wrel (mkWr c1 fl n off []) (mkWr c2 fl n off []).
Proof.
  intros [H1 H2]. split; [|split; apply wf_nil; reflexivity].
  apply weq_iff. split.
  - unfold wkey. cbn [w_files w_file w_off w_ctx]. now rewrite H2.
  - rewrite !vfs_mk. exact H1.
Qed.

Lemma wkey_inv w1 w2 : wkey w1 = wkey w2 ->
  w_files w1 = w_files w2 /\ w_file w1 = w_file w2 /\ w_off w1 = w_off w2 /\
  cmeta (w_ctx w1) = cmeta (w_ctx w2).
Proof.
  unfold wkey. intros H.
  pose proof (f_equal (fun k => fst (fst (fst k))) H) as E1.
  pose proof (f_equal (fun k => snd (fst (fst k))) H) as E2.
  pose proof (f_equal (fun k => snd (fst k)) H) as E3.
  pose proof (f_equal snd H) as E4. cbn [fst snd] in *.
  split; [exact E1|split; [exact E2|split; [exact E3|exact E4]]].
Qed.

(* ---------- BufWriter::write_all = pwrite on the logical directory ---------- *)
Definition wrote (w w' : rwriter) (d : bytes) : Prop :=
  wkey w' = (w_files w, w_file w, w_off w + lenN d, cmeta (w_ctx w)) /\
  vfs w' = fs_write (vfs w) (w_file w) (w_off w) d /\ wf w'.

Lemma wrote_transfer w0 w w' d : wkey w0 = wkey w -> vfs w0 = vfs w -> wrote w0 w' d -> wrote w w' d.
Proof.
  intros Hk Hv (H1 & H2 & H3). apply wkey_inv in Hk. destruct Hk as (E1 & E2 & E3 & E4).
  unfold wrote. rewrite <- E1, <- E2, <- E3, <- E4, <- Hv. repeat split; assumption.
Qed.

Lemma wrote_rel wa wb wa' wb' d :
  wkey wa = wkey wb -> vfs wa = vfs wb -> wrote wa wa' d -> wrote wb wb' d -> wrel wa' wb'.
Proof.
  intros Hk Hv Ha Hb. apply (wrote_transfer _ _ _ _ Hk Hv) in Ha.
  destruct Ha as (A1 & A2 & A3), Hb as (B1 & B2 & B3).
  split; [|split; assumption]. apply weq_iff. split; congruence.
Qed.

Lemma push_wrote w d : d <> [] -> wf w ->
  wrote w (mkWr (w_ctx w) (w_files w) (w_file w) (w_off w + lenN d) (w_pending w ++ d)) d.
Proof.
  destruct w as [c fl n off p]. unfold wf, wrote. cbn [w_ctx w_files w_file w_off w_pending].
  intros Hd Hp. split; [reflexivity|split].
  - now apply vfs_push.
  - unfold wf. cbn [w_off w_pending]. rewrite lenN_app. lia.
Qed.

Lemma direct_wrote w d : w_pending w = [] ->
  wrote w (mkWr (os_write (w_ctx w) (w_file w) (os_pos w) d)
                (w_files w) (w_file w) (w_off w + lenN d) (w_pending w)) d.
Proof.
  destruct w as [c fl n off p]. unfold wrote, os_pos. cbn [w_ctx w_files w_file w_off w_pending].
  intros ->. split; [reflexivity|split].
  - rewrite !vfs_mk, os_write_fs, lenN_nil. f_equal. lia.
  - apply wf_nil. reflexivity.
Qed.

Lemma lenN_pos {A} (l : list A) : l <> [] -> 0 < lenN l.
Proof. destruct l; [congruence|]. rewrite lenN_cons. lia. Qed.

Lemma bw_write_all_wrote w d : d <> [] -> wf w -> wrote w (bw_write_all P w d) d.
Proof.
  intros Hd Hw. pose proof (lenN_pos d Hd) as Hlen.
  unfold bw_write_all, bw_write_all0.
  destruct (N.ltb_spec (lenN d) (BS P - lenN (w_pending w))) as [H1|H1].
  - cbn [w_ctx w_files w_file w_off w_pending]. now apply push_wrote.
  - set (w1 := if BS P - lenN (w_pending w) <? lenN d then flush_buf w else w).
    assert (Hk : wkey w1 = wkey w).
    { unfold w1. destruct (_ <? _); [apply flush_buf_key|reflexivity]. }
    assert (Hv : vfs w1 = vfs w).
    { unfold w1. destruct (_ <? _); [apply flush_buf_vfs|reflexivity]. }
    assert (Hw1 : wf w1).
    { unfold w1. destruct (_ <? _); [apply wf_nil, flush_buf_pending|exact Hw]. }
    assert (Hp : BS P <= lenN d -> w_pending w1 = []).
    { intros H2. unfold w1. destruct (N.ltb_spec (BS P - lenN (w_pending w)) (lenN d)) as [H3|H3].
      - apply flush_buf_pending.
      - apply lenN_0_nil. lia. }
    apply (wrote_transfer w1 w _ d Hk Hv).
    destruct (N.leb_spec (BS P) (lenN d)) as [H2|H2].
    + cbn [w_ctx w_files w_file w_off w_pending]. apply direct_wrote. now apply Hp.
    + cbn [w_ctx w_files w_file w_off w_pending]. now apply push_wrote.
Qed.

Lemma wr_rem_rel w1 w2 : wrel w1 w2 -> wr_rem P w1 = wr_rem P w2.
Proof. intros [(_ & _ & H & _) _]. unfold wr_rem. now rewrite H. Qed.

(* BlockWrite::write: same result, same logical writer *)
Lemma wr_write_rel w1 w2 d : wrel w1 w2 ->
  snd (wr_write P w1 d) = snd (wr_write P w2 d) /\
  wrel (fst (wr_write P w1 d)) (fst (wr_write P w2 d)).
Proof.
  intros R. unfold wr_write. destruct d as [|b0 d0] eqn:Ed; [split; [reflexivity|exact R]|].
  rewrite <- Ed. assert (Hd : d <> []) by (rewrite Ed; discriminate). clear Ed b0 d0.
  destruct R as (We & F1 & F2). apply weq_iff in We. destruct We as [Hk Hv].
  pose proof (wkey_inv _ _ Hk) as (K1 & K2 & K3 & K4).
  rewrite <- K3.
  destruct (N.ltb_spec (FILE_BYTES P) (w_off w1 + lenN d)) as [Hroll|Hfit].
  - fold (synced w1) (synced w2).
    pose proof (synced_pending w1) as P1. pose proof (synced_pending w2) as P2.
    pose proof (synced_key w1) as Q1. pose proof (synced_key w2) as Q2.
    pose proof (synced_fs w1) as V1. pose proof (synced_fs w2) as V2.
    destruct (synced w1) as [c1 fl1 n1 off1 p1]. destruct (synced w2) as [c2 fl2 n2 off2 p2].
    cbn [w_pending w_ctx] in P1, P2, V1, V2. subst p1 p2.
    rewrite <- Q1 in Hk. rewrite <- Q2 in Hk. apply wkey_inv in Hk.
    cbn [w_files w_file w_off w_ctx] in Hk. destruct Hk as (-> & -> & -> & Hm).
    assert (Hc : ceq c1 c2) by (split; [congruence|exact Hm]).
    cbn [w_files w_file w_off w_ctx w_pending].
    destruct (tracker_next fl2 n2) as [nxt|].
    + pose proof (open_file_ceq c1 c2 nxt Hc) as [Hs Hc'].
      destruct (open_file c1 nxt) as [c1' [[]|e1]]; destruct (open_file c2 nxt) as [c2' [[]|e2]];
        cbn [fst snd] in Hs, Hc'; try discriminate.
      * cbn [fst snd]. split; [reflexivity|].
        destruct Hc' as [G1 G2].
        eapply wrote_rel;
          [| |apply bw_write_all_wrote; [exact Hd|apply wf_nil; reflexivity]
             |apply bw_write_all_wrote; [exact Hd|apply wf_nil; reflexivity]].
        -- unfold wkey. cbn [w_files w_file w_off w_ctx]. now rewrite G2.
        -- rewrite !vfs_mk. exact G1.
      * cbn [fst snd]. split; [exact Hs|]. unfold wr_ctx. cbn [w_files w_file w_off w_pending].
        now apply wrel_mk_nil.
    + pose proof (create_file_ceq c1 c2 (n2 + 1) Hc) as [Hs Hc'].
      destruct (create_file P c1 (n2 + 1)) as [c1' [[]|e1]];
        destruct (create_file P c2 (n2 + 1)) as [c2' [[]|e2]];
        cbn [fst snd] in Hs, Hc'; try discriminate.
      * cbn [fst snd]. split; [reflexivity|].
        destruct Hc' as [G1 G2].
        eapply wrote_rel;
          [| |apply bw_write_all_wrote; [exact Hd|apply wf_nil; reflexivity]
             |apply bw_write_all_wrote; [exact Hd|apply wf_nil; reflexivity]].
        -- unfold wkey. cbn [w_files w_file w_off w_ctx]. now rewrite G2.
        -- rewrite !vfs_mk. exact G1.
      * cbn [fst snd]. split; [exact Hs|]. now apply wrel_mk_nil.
  - cbn [fst snd]. split; [reflexivity|].
    eapply wrote_rel; [exact Hk|exact Hv|now apply bw_write_all_wrote|now apply bw_write_all_wrote].
Qed.

End Writer.

(* ====================================================================== *)
(* 3. the frame / record writer respects any relation the block writer respects *)
(* ====================================================================== *)
Section GenericRel.
Variable P : params.
Variable W : Type.
Variable wwrite : W -> bytes -> W * res unit.
Variable wrem : W -> N.
Variable R : W -> W -> Prop.
Hypothesis Hrem : forall a b, R a b -> wrem a = wrem b.
Hypothesis Hwr : forall a b d, R a b ->
  snd (wwrite a d) = snd (wwrite b d) /\ R (fst (wwrite a d)) (fst (wwrite b d)).

Lemma write_frame_rel a b t p : R a b ->
  snd (write_frame P W wwrite wrem a t p) = snd (write_frame P W wwrite wrem b t p) /\
  R (fst (write_frame P W wwrite wrem a t p)) (fst (write_frame P W wwrite wrem b t p)).
Proof.
  intros H. unfold write_frame. rewrite <- (Hrem a b H).
  destruct (N.ltb_spec (wrem a) HEADER_LEN) as [Hlt|Hge].
  - pose proof (Hwr a b (zerosN (wrem a)) H) as [S1 R1].
    destruct (wwrite a (zerosN (wrem a))) as [a1 [[]|e1]];
      destruct (wwrite b (zerosN (wrem a))) as [b1 [[]|e2]]; cbn [fst snd] in S1, R1; try discriminate.
    + pose proof (Hwr a1 b1 (frame_bytes P t p) R1) as [S2 R2].
      destruct (wwrite a1 (frame_bytes P t p)) as [a2 [[]|e1]];
        destruct (wwrite b1 (frame_bytes P t p)) as [b2 [[]|e2]]; cbn [fst snd] in S2, R2 |- *;
        try discriminate; (split; [congruence|exact R2]).
    + cbn [fst snd]. split; [congruence|exact R1].
  - pose proof (Hwr a b (frame_bytes P t p) H) as [S2 R2].
    destruct (wwrite a (frame_bytes P t p)) as [a2 [[]|e1]];
      destruct (wwrite b (frame_bytes P t p)) as [b2 [[]|e2]]; cbn [fst snd] in S2, R2 |- *;
      try discriminate; (split; [congruence|exact R2]).
Qed.

Lemma write_record_loop_rel fuel : forall a b isf payload acc, R a b ->
  snd (write_record_loop P W wwrite wrem fuel a isf payload acc) =
  snd (write_record_loop P W wwrite wrem fuel b isf payload acc) /\
  R (fst (write_record_loop P W wwrite wrem fuel a isf payload acc))
    (fst (write_record_loop P W wwrite wrem fuel b isf payload acc)).
Proof.
  induction fuel as [|fuel IH]; intros a b isf payload acc H; cbn [write_record_loop].
  - cbn [fst snd]. split; [reflexivity|exact H].
  - rewrite <- (Hrem a b H).
    set (n := N.min (max_writable P (wrem a)) (lenN payload)).
    pose proof (write_frame_rel a b (frame_type isf (isnil (dropN n payload))) (takeN n payload) H)
      as [S1 R1].
    destruct (write_frame P W wwrite wrem a _ _) as [a1 [k1|e1]];
      destruct (write_frame P W wwrite wrem b _ _) as [b1 [k2|e2]]; cbn [fst snd] in S1, R1;
      try discriminate.
    + injection S1 as <-. destruct (isnil (dropN n payload)).
      * cbn [fst snd]. split; [reflexivity|exact R1].
      * now apply IH.
    + cbn [fst snd]. split; [exact S1|exact R1].
Qed.

Lemma write_record_rel a b payload : R a b ->
  snd (write_record P W wwrite wrem a payload) = snd (write_record P W wwrite wrem b payload) /\
  R (fst (write_record P W wwrite wrem a payload)) (fst (write_record P W wwrite wrem b payload)).
Proof. unfold write_record. apply write_record_loop_rel. Qed.
End GenericRel.

(* ====================================================================== *)
(* 4. the API                                                             *)
(* ====================================================================== *)
Section Api.
Variable P : params.
Hypothesis HGC : L_GC P = false.       (* the current code: GC always persists before unlinking *)

(* seq between well-formed states, arranged for the proofs *)
Definition srel (s1 s2 : state) : Prop := wrel (s_wr s1) (s_wr s2) /\ s_qs s1 = s_qs s2.

Lemma seqw_srel s1 s2 : seqw s1 s2 <-> srel s1 s2.
Proof. unfold seqw, seq, srel, wrel. tauto. Qed.

Lemma srel_sym a b : srel a b -> srel b a.
Proof. intros [H1 H2]. split; [now apply wrel_sym|now symmetry]. Qed.

Lemma srel_trans a b c : srel a b -> srel b c -> srel a c.
Proof. intros [H1 H2] [H3 H4]. split; [eapply wrel_trans; eassumption|congruence]. Qed.

Lemma set_qs_rel a b qs : srel a b -> srel (set_qs a qs) (set_qs b qs).
Proof. intros [H1 H2]. split; [exact H1|reflexivity]. Qed.

Lemma write_entry_rel a b e : srel a b ->
  snd (write_entry P a e) = snd (write_entry P b e) /\
  srel (fst (write_entry P a e)) (fst (write_entry P b e)).
Proof.
  intros [H1 H2]. unfold write_entry.
  pose proof (write_record_rel P rwriter (wr_write P) (wr_rem P) wrel (wr_rem_rel P) (wr_write_rel P)
                               (s_wr a) (s_wr b) (entry_ser e) H1) as [S1 R1].
  destruct (write_record P rwriter (wr_write P) (wr_rem P) (s_wr a) (entry_ser e)) as [wa ra].
  destruct (write_record P rwriter (wr_write P) (wr_rem P) (s_wr b) (entry_ser e)) as [wb rb].
  cbn [fst snd] in *. split; [exact S1|]. split; [exact R1|exact H2].
Qed.

(* a persist, whatever its flag, is logically invisible *)
Lemma persist_self st f : wf (s_wr st) -> srel (persist st f) st.
Proof. intros H. split; [apply wr_persist_rel, H|reflexivity]. Qed.

Lemma persist_rel a b f1 f2 : srel a b -> srel (persist a f1) (persist b f2).
Proof.
  intros H. pose proof H as [(_ & Fa & Fb) _].
  eapply srel_trans; [apply persist_self, Fa|].
  eapply srel_trans; [exact H|]. apply srel_sym, persist_self, Fb.
Qed.

Lemma persist_on_policy_self st tick : wf (s_wr st) -> srel (persist_on_policy st tick) st.
Proof.
  intros H. unfold persist_on_policy.
  destruct (s_pol st) as [|f|f]; [|destruct tick|]; try (now apply persist_self);
    (split; [now apply wrel_refl|reflexivity]).
Qed.

(* whatever the two policies and the two ticks *)
Lemma persist_on_policy_rel a b t1 t2 :
  srel a b -> srel (persist_on_policy a t1) (persist_on_policy b t2).
Proof.
  intros H. pose proof H as [(_ & Fa & Fb) _].
  eapply srel_trans; [apply persist_on_policy_self, Fa|].
  eapply srel_trans; [exact H|]. apply srel_sym, persist_on_policy_self, Fb.
Qed.

Lemma record_positions_rel names : forall a b acc, srel a b ->
  snd (record_positions P a names acc) = snd (record_positions P b names acc) /\
  srel (fst (record_positions P a names acc)) (fst (record_positions P b names acc)).
Proof.
  induction names as [|nm r IH]; intros a b acc H; cbn [record_positions].
  - cbn [fst snd]. split; [reflexivity|exact H].
  - pose proof H as [_ Hq]. rewrite <- Hq.
    destruct (qs_get (s_qs a) nm) as [q|]; [|now apply IH].
    pose proof (write_entry_rel a b (EPosition nm (next_position q)) H) as [S1 R1].
    destruct (write_entry P a _) as [a1 [k1|e1]]; destruct (write_entry P b _) as [b1 [k2|e2]];
      cbn [fst snd] in S1, R1; try discriminate.
    + injection S1 as <-. now apply IH.
    + cbn [fst snd]. split; [exact S1|exact R1].
Qed.

Lemma reqp_rel a b hint : srel a b ->
  snd (record_empty_queues_position P a hint) = snd (record_empty_queues_position P b hint) /\
  srel (fst (record_empty_queues_position P a hint)) (fst (record_empty_queues_position P b hint)).
Proof.
  intros H. unfold record_empty_queues_position. pose proof H as [_ Hq]. rewrite <- Hq.
  pose proof (record_positions_rel (pick_order hint (empty_names (s_qs a))) a b 0 H) as [S1 R1].
  destruct (record_positions P a _ 0) as [a1 [k1|e1]]; destruct (record_positions P b _ 0) as [b1 [k2|e2]];
    cbn [fst snd] in S1, R1; try discriminate.
  - injection S1 as <-. rewrite HGC. cbn [andb fst snd]. split; [reflexivity|now apply persist_rel].
  - cbn [fst snd]. split; [exact S1|exact R1].
Qed.

(* ... and leaves nothing in the buffer when it succeeds *)
Lemma reqp_drained st hint n :
  snd (record_empty_queues_position P st hint) = Ok n ->
  w_pending (s_wr (fst (record_empty_queues_position P st hint))) = [].
Proof.
  unfold record_empty_queues_position.
  destruct (record_positions P st _ 0) as [st1 [k|e]]; [|discriminate].
  rewrite HGC. cbn [andb fst snd]. intros _. apply persist_drained.
Qed.

Lemma wrel_nil_inv w1 w2 : wrel w1 w2 -> w_pending w1 = [] -> w_pending w2 = [] ->
  w_files w1 = w_files w2 /\ w_file w1 = w_file w2 /\ w_off w1 = w_off w2 /\
  ceq (w_ctx w1) (w_ctx w2).
Proof.
  intros (We & _ & _) P1 P2. apply weq_iff in We. destruct We as [Hk Hv].
  apply wkey_inv in Hk. destruct Hk as (K1 & K2 & K3 & K4).
  rewrite !vfs_nil in Hv by assumption. repeat split; assumption.
Qed.

Lemma has_deletable_rel a b : srel a b -> has_deletable a = has_deletable b.
Proof.
  intros [((H1 & H2 & _) & _) Hq]. unfold has_deletable, referenced. now rewrite H1, H2, Hq.
Qed.

Lemma run_gc_rel a b hint : srel a b ->
  snd (run_gc_if_necessary P a hint) = snd (run_gc_if_necessary P b hint) /\
  srel (fst (run_gc_if_necessary P a hint)) (fst (run_gc_if_necessary P b hint)).
Proof.
  intros H. unfold run_gc_if_necessary. rewrite <- (has_deletable_rel a b H).
  destruct (has_deletable a); [|cbn [fst snd]; split; [reflexivity|exact H]].
  assert (Hg : w_file (s_wr a) = w_file (s_wr b)) by (destruct H as [((_ & H2 & _) & _) _]; exact H2).
  rewrite <- Hg. set (guard := w_file (s_wr a)). clearbody guard.
  pose proof (reqp_rel a b hint H) as [S1 R1].
  pose proof (reqp_drained a hint) as D1. pose proof (reqp_drained b hint) as D2.
  destruct (record_empty_queues_position P a hint) as [a1 [k1|e1]];
    destruct (record_empty_queues_position P b hint) as [b1 [k2|e2]];
    cbn [fst snd] in S1, R1, D1, D2; try discriminate.
  - injection S1 as <-. specialize (D1 _ eq_refl). specialize (D2 _ eq_refl).
    destruct R1 as [Rw Rq].
    pose proof (wrel_nil_inv _ _ Rw D1 D2) as (K1 & K2 & K3 & Hc).
    assert (Hr : forall f, referenced a1 guard f = referenced b1 guard f).
    { intros f. unfold referenced. now rewrite K2, Rq. }
    pose proof (gc_loop_ceq (w_files (s_wr a1)) _ _ _ _ Hc Hr) as (G1 & G2 & G3).
    rewrite <- K1, <- K2, <- K3, D1, D2.
    destruct (gc_loop (w_ctx (s_wr a1)) (w_files (s_wr a1)) (referenced a1 guard)) as [[c1 f1] r1].
    destruct (gc_loop (w_ctx (s_wr b1)) (w_files (s_wr a1)) (referenced b1 guard)) as [[c2 f2] r2].
    cbn [fst snd] in G1, G2, G3. subst r2 f2.
    destruct r1 as [[]|e]; cbn [fst snd]; (split; [reflexivity|]);
      (split; [cbn [set_wr s_wr]; now apply wrel_mk_nil|exact Rq]).
  - cbn [fst snd]. split; [exact S1|exact R1].
Qed.

Lemma persist_on_policy_qs' st tick : s_qs (persist_on_policy st tick) = s_qs st.
Proof.
  unfold persist_on_policy. destruct (s_pol st) as [|f|f]; [|destruct tick|]; reflexivity.
Qed.

(* the step, in projection form *)
Lemma step_rel a b o t1 t2 : srel a b ->
  snd (step P a o t1) = snd (step P b o t2) /\ srel (fst (step P a o t1)) (fst (step P b o t2)).
Proof.
  intros H. pose proof H as [Hw Hq].
  destruct o as [q|q hint|q pos payloads|q p hint|f]; cbn [step].
  - (* create_queue *)
    unfold create_queue. rewrite <- Hq.
    destruct (qs_contains (s_qs a) q); [cbn [fst snd]; split; [reflexivity|exact H]|].
    pose proof (write_entry_rel a b (EPosition q 0) H) as [S1 R1].
    destruct (write_entry P a _) as [a1 [k1|e1]]; destruct (write_entry P b _) as [b1 [k2|e2]];
      cbn [fst snd] in S1, R1 |- *; try discriminate.
    + injection S1 as <-. split; [reflexivity|].
      pose proof (persist_rel a1 b1 true true R1) as R2. pose proof R2 as [_ Hq2].
      rewrite <- Hq2. now apply set_qs_rel.
    + split; [congruence|exact R1].
  - (* delete_queue *)
    unfold delete_queue. rewrite <- Hq.
    destruct (qs_get (s_qs a) q) as [m|]; [|cbn [fst snd]; split; [reflexivity|exact H]].
    pose proof (write_entry_rel a b (EDelete q (next_position m)) H) as [S1 R1].
    destruct (write_entry P a _) as [a1 [k1|e1]]; destruct (write_entry P b _) as [b1 [k2|e2]];
      cbn [fst snd] in S1, R1 |- *; try discriminate.
    + injection S1 as <-. pose proof R1 as [_ Hq1]. rewrite <- Hq1.
      pose proof (run_gc_rel _ _ hint (set_qs_rel a1 b1 (qs_remove (s_qs a1) q) R1)) as [S2 R2].
      destruct (run_gc_if_necessary P (set_qs a1 _) hint) as [a3 [j1|e1]];
        destruct (run_gc_if_necessary P (set_qs b1 _) hint) as [b3 [j2|e2]];
        cbn [fst snd] in S2, R2 |- *; try discriminate.
      * injection S2 as <-. split; [reflexivity|now apply persist_rel].
      * split; [congruence|exact R2].
    + split; [congruence|exact R1].
  - (* append_records *)
    unfold append_records. rewrite <- Hq.
    destruct (qs_get (s_qs a) q) as [m|]; [|cbn [fst snd]; split; [reflexivity|exact H]].
    destruct (match pos with Some p => _ | None => None end) as [early|];
      [cbn [fst snd]; split; [reflexivity|exact H]|].
    assert (Hf : w_file (s_wr a) = w_file (s_wr b)) by (destruct Hw as ((_ & H2 & _) & _); exact H2).
    rewrite <- Hf.
    set (position := match pos with Some p => p | None => next_position m end).
    destruct (number_from position payloads) as [|r0 rs] eqn:En;
      [cbn [fst snd]; split; [reflexivity|exact H]|].
    rewrite <- En. clear En r0 rs.
    pose proof (write_entry_rel a b (EAppend q position (number_from position payloads)) H) as [S1 R1].
    destruct (write_entry P a _) as [a1 [k1|e1]]; destruct (write_entry P b _) as [b1 [k2|e2]];
      cbn [fst snd] in S1, R1 |- *; try discriminate.
    + injection S1 as <-.
      pose proof (persist_on_policy_rel a1 b1 t1 t2 R1) as R2.
      destruct (append_all m (w_file (s_wr a)) (number_from position payloads)) as [m'|];
        cbn [fst snd].
      * split; [reflexivity|]. pose proof R2 as [_ Hq2]. rewrite <- Hq2. now apply set_qs_rel.
      * split; [reflexivity|exact R2].
    + split; [congruence|exact R1].
  - (* truncate *)
    unfold truncate. rewrite <- Hq.
    destruct (qs_get (s_qs a) q) as [m|]; [|cbn [fst snd]; split; [reflexivity|exact H]].
    pose proof (write_entry_rel a b (ETruncate q p) H) as [S1 R1].
    destruct (write_entry P a _) as [a1 [k1|e1]]; destruct (write_entry P b _) as [b1 [k2|e2]];
      cbn [fst snd] in S1, R1 |- *; try discriminate.
    + injection S1 as <-. destruct (truncate_head m p) as [m' ev].
      pose proof R1 as [_ Hq1]. rewrite <- Hq1.
      pose proof (run_gc_rel _ _ hint (set_qs_rel a1 b1 (qs_put (s_qs a1) q m') R1)) as [S2 R2].
      destruct (run_gc_if_necessary P (set_qs a1 _) hint) as [a3 [j1|e1]];
        destruct (run_gc_if_necessary P (set_qs b1 _) hint) as [b3 [j2|e2]];
        cbn [fst snd] in S2, R2 |- *; try discriminate.
      * injection S2 as <-. split; [reflexivity|now apply persist_on_policy_rel].
      * split; [congruence|exact R2].
    + split; [congruence|exact R1].
  - (* persist *)
    cbn [fst snd]. split; [reflexivity|now apply persist_rel].
Qed.

End Api.

(* ====================================================================== *)
(* 5. C14: the theorems                                                   *)
(* ====================================================================== *)

(* (2) one call: same outcome (positions, eviction counts, errors, reported byte counts), same
   queues, same logical files, whatever the two policies and the two tick values *)
Theorem step_policy_independent : forall P s1 s2 o t1 t2,
  L_GC P = false -> seqw s1 s2 ->
  let '(s1', o1) := step P s1 o t1 in
  let '(s2', o2) := step P s2 o t2 in
  o1 = o2 /\ seqw s1' s2'.
Proof.
  intros P s1 s2 o t1 t2 HGC H. apply seqw_srel in H.
  pose proof (step_rel P HGC s1 s2 o t1 t2 H) as [S R].
  destruct (step P s1 o t1) as [s1' o1]. destruct (step P s2 o t2) as [s2' o2].
  cbn [fst snd] in S, R. split; [exact S|now apply seqw_srel].
Qed.

(* the same with the well-formedness condition spelled out *)
Corollary step_policy_independent' : forall P s1 s2 o t1 t2,
  L_GC P = false -> seq s1 s2 -> wf (s_wr s1) -> wf (s_wr s2) ->
  let '(s1', o1) := step P s1 o t1 in
  let '(s2', o2) := step P s2 o t2 in
  o1 = o2 /\ seq s1' s2' /\ wf (s_wr s1') /\ wf (s_wr s2').
Proof.
  intros P s1 s2 o t1 t2 HGC H F1 F2.
  exact (step_policy_independent P s1 s2 o t1 t2 HGC (conj H (conj F1 F2))).
Qed.

(* (3) histories: same calls, arbitrary ticks *)
Theorem run_policy_independent : forall P h1 h2 s1 s2,
  L_GC P = false -> map fst h1 = map fst h2 -> seqw s1 s2 ->
  let '(s1', o1) := run P s1 h1 in
  let '(s2', o2) := run P s2 h2 in
  o1 = o2 /\ seqw s1' s2'.
Proof.
  intros P h1. induction h1 as [|[o t1] h1 IH]; intros h2 s1 s2 HGC Hm H.
  - destruct h2 as [|x h2]; [|discriminate]. cbn [run]. split; [reflexivity|exact H].
  - destruct h2 as [|[o' t2] h2]; [discriminate|]. cbn [map fst] in Hm.
    injection Hm as <- Hm. cbn [run].
    pose proof (step_policy_independent P s1 s2 o t1 t2 HGC H) as Hs.
    destruct (step P s1 o t1) as [s1a o1]. destruct (step P s2 o t2) as [s2a o2].
    destruct Hs as [-> Hs].
    specialize (IH h2 s1a s2a HGC Hm Hs).
    destruct (run P s1a h1) as [s1' outs1]. destruct (run P s2a h2) as [s2' outs2].
    destruct IH as [-> IH]. split; [reflexivity|exact IH].
Qed.

(* (4a) the directory left by a clean drop *)
Theorem drop_policy_independent : forall s1 s2,
  seq s1 s2 -> c_fs (drop_log s1) = c_fs (drop_log s2).
Proof. intros s1 s2 [(_ & _ & _ & H & _) _]. exact H. Qed.

(* (4b) open: the policy is only stored *)
Definition with_pol (st : state) (pol : policy) : state := mkSt (s_wr st) (s_qs st) pol.

Definition open_with_pol (r : open_result) (pol : policy) : open_result :=
  match r with OpenOk st => OpenOk (with_pol st pol) | _ => r end.

(* same constructor, same context / error, same writer and queues; the policies may differ *)
Definition open_rel (r1 r2 : open_result) : Prop :=
  match r1, r2 with
  | OpenOk a, OpenOk b => s_wr a = s_wr b /\ s_qs a = s_qs b
  | OpenIo e1 c1, OpenIo e2 c2 => e1 = e2 /\ c1 = c2
  | OpenCorruption c1, OpenCorruption c2 => c1 = c2
  | OpenFuel c1, OpenFuel c2 => c1 = c2
  | _, _ => False
  end.

Section Open.
Variable P : params.

Lemma write_entry_with_pol st e pol :
  write_entry P (with_pol st pol) e =
  (with_pol (fst (write_entry P st e)) pol, snd (write_entry P st e)).
Proof.
  unfold write_entry. cbn [with_pol s_wr].
  destruct (write_record P rwriter (wr_write P) (wr_rem P) (s_wr st) (entry_ser e)) as [w r].
  reflexivity.
Qed.

Lemma record_positions_with_pol pol names : forall st acc,
  record_positions P (with_pol st pol) names acc =
  (with_pol (fst (record_positions P st names acc)) pol, snd (record_positions P st names acc)).
Proof.
  induction names as [|nm r IH]; intros st acc; cbn [record_positions]; [reflexivity|].
  change (s_qs (with_pol st pol)) with (s_qs st).
  destruct (qs_get (s_qs st) nm) as [q|]; [|apply IH].
  rewrite write_entry_with_pol.
  destruct (write_entry P st (EPosition nm (next_position q))) as [st1 [k|e]]; cbn [fst snd];
    [apply IH|reflexivity].
Qed.

Lemma reqp_with_pol st hint pol :
  record_empty_queues_position P (with_pol st pol) hint =
  (with_pol (fst (record_empty_queues_position P st hint)) pol,
   snd (record_empty_queues_position P st hint)).
Proof.
  unfold record_empty_queues_position. change (s_qs (with_pol st pol)) with (s_qs st).
  rewrite record_positions_with_pol.
  destruct (record_positions P st _ 0) as [st1 [k|e]]; cbn [fst snd]; [|reflexivity].
  destruct (L_GC P && (k =? 0)); reflexivity.
Qed.

Lemma run_gc_with_pol st hint pol :
  run_gc_if_necessary P (with_pol st pol) hint =
  (with_pol (fst (run_gc_if_necessary P st hint)) pol, snd (run_gc_if_necessary P st hint)).
Proof.
  unfold run_gc_if_necessary.
  change (has_deletable (with_pol st pol)) with (has_deletable st).
  destruct (has_deletable st); [|reflexivity].
  rewrite reqp_with_pol. change (s_wr (with_pol st pol)) with (s_wr st).
  destruct (record_empty_queues_position P st hint) as [st1 [k|e]]; cbn [fst snd]; [|reflexivity].
  change (s_wr (with_pol st1 pol)) with (s_wr st1).
  change (referenced (with_pol st1 pol) (w_file (s_wr st))) with (referenced st1 (w_file (s_wr st))).
  destruct (gc_loop (w_ctx (s_wr st1)) (w_files (s_wr st1)) (referenced st1 (w_file (s_wr st))))
    as [[c files] [[]|e]]; reflexivity.
Qed.

Theorem open_with_policy_eq fuel fs plan pol1 pol2 hint :
  open_with P fuel fs plan pol2 hint = open_with_pol (open_with P fuel fs plan pol1 hint) pol2.
Proof.
  unfold open_with.
  destruct (rd_open P (ctx_init fs plan)) as [c [rd|e]]; [|reflexivity].
  destruct (replay_loop P fuel fuel (rr_open rreaderS rd) []) as [rr [qs| |e|]]; try reflexivity.
  set (w := rd_into_writer P (fr_rd (rr_fr rr)) (fr_cursor (rr_fr rr))).
  change (mkSt w qs pol2) with (with_pol (mkSt w qs pol1) pol2).
  rewrite run_gc_with_pol.
  destruct (run_gc_if_necessary P (mkSt w qs pol1) hint) as [st1 [k|e]]; reflexivity.
Qed.

(* the result for pol2 is the result for pol1 with the stored policy replaced *)
Theorem open_policy_eq fs plan pol1 pol2 hint :
  open P fs plan pol2 hint = open_with_pol (open P fs plan pol1 hint) pol2.
Proof. apply open_with_policy_eq. Qed.

Theorem open_policy_independent : forall fs plan pol1 pol2 hint,
  open_rel (open P fs plan pol1 hint) (open P fs plan pol2 hint).
Proof.
  intros fs plan pol1 pol2 hint. rewrite (open_policy_eq fs plan pol1 pol2 hint).
  destruct (open P fs plan pol1 hint) as [st|e c|c|c]; cbn [open_with_pol open_rel with_pol s_wr s_qs];
    try split; reflexivity.
Qed.

(* the stored policy is the one given *)
Lemma open_ok_pol fs plan pol hint st : open P fs plan pol hint = OpenOk st -> s_pol st = pol.
Proof.
  unfold open, open_with.
  destruct (rd_open P (ctx_init fs plan)) as [c [rd|e]]; [|discriminate].
  destruct (replay_loop P _ _ (rr_open rreaderS rd) []) as [rr [qs| |e|]]; try discriminate.
  destruct (run_gc_if_necessary P _ hint) as [st1 [k|e]] eqn:G; [|discriminate].
  intros H; injection H as <-. apply run_gc_pol in G. exact G.
Qed.

(* the states produced by open under two policies are related: the theorems above apply to them *)
Theorem open_ok_seqw fs plan pol1 pol2 hint st1 st2 :
  L_GC P = false ->
  open P fs plan pol1 hint = OpenOk st1 -> open P fs plan pol2 hint = OpenOk st2 -> seqw st1 st2.
Proof.
  intros HGC H1 H2. rewrite (open_policy_eq fs plan pol1 pol2 hint), H1 in H2.
  cbn [open_with_pol] in H2. injection H2 as <-.
  assert (F : wf (s_wr st1)).
  { revert H1. unfold open, open_with.
    destruct (rd_open P (ctx_init fs plan)) as [c [rd|e]]; [|discriminate].
    destruct (replay_loop P _ _ (rr_open rreaderS rd) []) as [rr [qs| |e|]]; try discriminate.
    set (st0 := mkSt (rd_into_writer P (fr_rd (rr_fr rr)) (fr_cursor (rr_fr rr))) qs pol1).
    assert (R0 : srel st0 st0).
    { split; [|reflexivity]. apply wrel_refl. apply wf_nil. reflexivity. }
    pose proof (run_gc_rel P HGC st0 st0 hint R0) as [_ [(_ & F & _) _]].
    destruct (run_gc_if_necessary P st0 hint) as [st' [k|e]]; [|discriminate].
    intros H; injection H as <-. exact F. }
  split; [split; [apply weq_refl|reflexivity]|split; exact F].
Qed.

(* (3)+(4): after the same calls under any two policies / tick sequences and a clean drop,
   reopening (under any policies again) gives the same result *)
Theorem restart_policy_independent : forall h1 h2 s1 s2 plan pol1 pol2 hint,
  L_GC P = false -> map fst h1 = map fst h2 -> seqw s1 s2 ->
  snd (run P s1 h1) = snd (run P s2 h2) /\
  open_rel (open P (c_fs (drop_log (fst (run P s1 h1)))) plan pol1 hint)
           (open P (c_fs (drop_log (fst (run P s2 h2)))) plan pol2 hint).
Proof.
  intros h1 h2 s1 s2 plan pol1 pol2 hint HGC Hm H.
  pose proof (run_policy_independent P h1 h2 s1 s2 HGC Hm H) as Hr.
  destruct (run P s1 h1) as [s1' o1]. destruct (run P s2 h2) as [s2' o2]. cbn [fst snd].
  destruct Hr as [-> [Hs _]]. split; [reflexivity|].
  rewrite (drop_policy_independent s1' s2' Hs). apply open_policy_independent.
Qed.
End Open.

Print Assumptions step_policy_independent.
Print Assumptions step_policy_independent'.
Print Assumptions run_policy_independent.
Print Assumptions drop_policy_independent.
Print Assumptions open_policy_eq.
Print Assumptions open_policy_independent.
Print Assumptions open_ok_seqw.
Print Assumptions restart_policy_independent.
