(* JRecoverL2.v — TASK T14, stage 3: JRecoverL.call_prefix_linv from a state satisfying the
   junk-tolerant invariant. *)
From Coq Require Import Lia ZArith ZifyN ZifyNat ZifyBool List Sorted.
From MRL Require Import Bytes BytesProofs Params Names NamesProofs Frame Record Mem Spec Rolling Log
  Driver Hist NoopProofs SpecRefine RecordProofs StreamProofs PolicyProofs GcProofs GhostLog ReplaySpec
  HandleProofs FileStream ResyncProofs QueueIso RestartInv RestartWrite RestartGc RestartStep
  OpenReplay RestartFinal CrashAtomic JInv JGc JStep JRecoverL.

Arguments N.add : simpl never.
Arguments N.sub : simpl never.
Arguments N.mul : simpl never.

Section CallPrefixJ.
Variable P : params.
Hypothesis HBS_lo : 7 < BS P.
Hypothesis HBS_hi : BS P <= 65542.
Hypothesis HNB : 1 <= NB P.
Hypothesis Hcrc : forall t p, crcf P t p < 2 ^ 32.
Hypothesis HGC : L_GC P = false.
Variable PRE : bytes.
Variable OLD : list entry.
Variable opos : list (N * N).
Hypothesis Hpre : pre_ok PRE OLD opos.

Local Notation HN f := (f P HBS_lo HBS_hi HNB) (only parsing).
Local Notation InvJ := (InvJ P PRE OLD opos).

Theorem call_prefix_linvJ st G o tick st' out :
  InvJ st G -> op_wf_strict (s_qs st) o ->
  stream_boundJ P PRE OLD G (map snd (step_log P st o)) ->
  step P st o tick = (st', out) -> (forall e, out <> OutIo e) ->
  forall Xd Xr, map snd (step_log P st o) = Xd ++ Xr ->
  exists Gd qsd,
    LInv qsd (wlo (s_wr st)) Gd /\ gh_base Gd = gh_base G /\ gh_before Gd = gh_before G /\
    map snd (gh_E Gd) = map snd (gh_E G) ++ Xd /\
    (Xd = [] -> forall q, s_get (abs_qs qsd) q = s_get (abs_qs (s_qs st)) q) /\
    (Xd <> [] -> forall q, s_get (abs_qs qsd) q = s_get (abs_qs (s_qs st')) q).
Proof.
  intros HI Hop Hb Hstep Hno Xd Xr HX.
  pose proof HI as (HP & HL).
  destruct Xd as [|x Xd'].
  { exists G, (s_qs st). split; [exact HL|]. split; [reflexivity|]. split; [reflexivity|].
    split; [now rewrite app_nil_r|]. split; [intros _ q; reflexivity|]. intros H; now destruct H. }
  destruct (invJ_step P HBS_lo HBS_hi HNB Hcrc HGC PRE OLD opos Hpre st G o tick st' out HI Hop Hb Hstep Hno)
    as (G' & (HP' & HL') & Eb & Ed & Elog).
  pose proof (LInv_nodup _ _ _ HL) as Hnd.
  pose proof (step_replay P st o tick Hnd) as Hrep. rewrite Hstep in Hrep. cbn [fst snd] in Hrep.
  specialize (Hrep Hno).
  destruct (step_log_shape P st o) as [E0|(e & rest & Elg & Hshape)].
  { rewrite E0 in HX. discriminate. }
  rewrite Elg in *. cbn [map snd app] in HX. injection HX as <- HX.
  set (f := w_file (s_wr st)) in *.
  cbn [replay_entries] in Hrep.
  destruct (apply_entry (s_qs st) f e) as [qs_m|] eqn:Hap; [|discriminate].
  pose proof (apply_entry_nodup _ _ _ _ Hnd Hap) as Hndm.
  specialize (Hshape qs_m eq_refl Hndm).
  set (lo := wlo (s_wr st)) in *.
  assert (Hlof : lo <= f).
  { destruct HP as (Hw & _). exact (HN winv_wlo_le _ Hw). }
  assert (Hleg : forall F, t_replay [] 0 (gh_ALL G) = Some F -> legal F e).
  { intros F EF. destruct HL' as (_ & Hleg' & _).
    assert (EA : gh_ALL G' = gh_ALL G ++ e :: map snd rest).
    { unfold gh_ALL. rewrite Ed, Elog, map_app, app_assoc. reflexivity. }
    rewrite EA in Hleg'. destruct (legal_log_app _ _ _ _ Hleg') as (F0 & EF0 & Hl0).
    rewrite EF in EF0. inversion EF0; subst F0.
    now destruct (legal_log_cons_inv _ _ _ _ Hl0). }
  assert (Hwfm : qs_wf qs_m /\ s_qs st' = qs_m).
  { assert (Hfin : forall qsx, replay_entries qs_m rest = Some qsx -> qsx = s_qs st')
      by (intros qsx E; rewrite E in Hrep; now injection Hrep).
    assert (Hid' : forall fx, pos_extra (abs_qs qs_m) (map snd fx) ->
              replay_entries qs_m fx = Some qs_m).
    { induction fx as [|[f1 e1] fx IH]; intros Hx; [reflexivity|].
      cbn [map snd] in Hx. destruct (pos_extra_cons _ _ _ Hx) as ((q & p & -> & Hg) & Hx').
      destruct (abs_empty_queue qs_m q p Hg) as (m & Em & Hem & <-).
      cbn [replay_entries apply_entry]. rewrite (ack_position_empty_id qs_m q m Em Hem).
      now apply IH. }
    pose proof (Hfin _ (Hid' rest Hshape)) as E. split; [|now symmetry].
    rewrite E. exact (proj1 HL'). }
  destruct Hwfm as (Hwfm & Eqm).
  pose proof (linv_apply _ _ _ f e qs_m HL Hwfm Hleg Hap Hlof) as HL1.
  assert (Hxp : pos_extra (abs_qs qs_m) Xd').
  { rewrite HX in Hshape. exact (pos_extra_prefix _ _ _ Hshape). }
  set (fx := map (pair lo) Xd').
  assert (Efx : map snd fx = Xd').
  { unfold fx. rewrite map_map. cbn [snd]. apply map_id. }
  destruct (linv_pos_extra qs_m lo (gh_snoc G f e) fx HL1) as (HL2 & _).
  { now rewrite Efx. }
  { unfold fx. apply Forall_forall. intros fe Hin. apply in_map_iff in Hin.
    destruct Hin as (y & <- & _). cbn [fst]. lia. }
  exists (gh_app (gh_snoc G f e) fx), qs_m.
  split; [exact HL2|]. split; [reflexivity|]. split; [reflexivity|].
  split.
  { cbn [gh_app gh_snoc gh_E]. rewrite !map_app, Efx. cbn [map snd]. now rewrite <- app_assoc. }
  split; [discriminate|]. intros _ q. now rewrite Eqm.
Qed.

End CallPrefixJ.

Print Assumptions call_prefix_linvJ.
