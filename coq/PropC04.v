(* PropC04.v — C04: queue positions never regress or get reused: any history of calls WITH CLEAN RESTARTS ANYWHERE (from a fresh directory, hist_ok); crash recovery rests on C02.
   Statements only; each theorem is closed by `exact <lemma>`; proofs live in the imported files. *)
From Coq Require Import Lia NArith List.
From MRL Require Import Bytes Params Names Frame Record Mem Spec Rolling Log Hist SpecRefine QueueIso RestartInv RestartFinal RestartCorollaries CrashCorollaries PersistSurvive CrashAtomic DamageAtomic PowerLoss PowerCorollaries.

(* specification level: next position never decreases within an incarnation; last positions returned by appends strictly increase and lie in [old next, new next) *)
Theorem C04_spec_next_monotone :
    forall (h : list sop) (m : smap) (q : bytes) (recs : list (N * bytes)) (next : N),
    s_get m q = Some (recs, next) ->
    never_deleted q h (snd (s_run m h)) ->
    exists (recs' : list (N * bytes)) (next' : N),
    s_get (fst (s_run m h)) q = Some (recs', next') /\
    next <= next' /\
    Sorted.StronglySorted N.lt (lasts q h (snd (s_run m h))) /\
    (forall l : N, In l (lasts q h (snd (s_run m h))) -> next <= l < next').
Proof. exact s_run_next_monotone_some. Qed.
Print Assumptions C04_spec_next_monotone.

(* the log: along any history without I/O failure and without a successful delete of q, the last positions reported for q increase strictly between the old and new next position *)
Theorem C04_log_positions_fresh :
    forall (P : params) (h : list (op * bool)) (st st' : state) (outs : list outcome) (q : bytes),
    qs_inv (s_qs st) ->
    run P st h = (st', outs) ->
    forallb (fun o : outcome => negb (WriterProofs.is_io o)) outs = true ->
    log_never_deleted q h outs ->
    (qs_get (s_qs st) q <> None -> qs_get (s_qs st') q <> None) /\
    incr_between (log_next st q) (log_next st' q) (log_lasts q h outs).
Proof. exact log_positions_fresh. Qed.
Print Assumptions C04_log_positions_fresh.

(* spelled out *)
Theorem C04_log_lasts_increasing :
    forall (P : params) (h : list (op * bool)) (st st' : state) (outs : list outcome) (q : bytes),
    qs_inv (s_qs st) ->
    run P st h = (st', outs) ->
    forallb (fun o : outcome => negb (WriterProofs.is_io o)) outs = true ->
    log_never_deleted q h outs ->
    log_next st q <= log_next st' q /\
    Sorted.StronglySorted N.lt (log_lasts q h outs) /\
    (forall l : N, In l (log_lasts q h outs) -> log_next st q <= l < log_next st' q).
Proof. exact log_lasts_increasing. Qed.
Print Assumptions C04_log_lasts_increasing.

(* one append: its last position is >= the next position before the call and the next position becomes last+1 *)
Theorem C04_append_fresh :
    forall (P : params) (st : state) (q : bytes) (pos : option N) (pl : list bytes)
    (tick : bool) (st' : state) (l n : N),
    qs_inv (s_qs st) ->
    step P st (OAppend q pos pl) tick = (st', OutAppend (Some l) n) ->
    qs_get (s_qs st) q <> None /\
    log_next st q <= l /\ log_next st' q = l + 1 /\ log_last_position st' q = Some (Some l).
Proof. exact log_append_fresh. Qed.
Print Assumptions C04_append_fresh.

(* truncate(..=p): afterwards next >= p+1 and every retained record is above p (automatic positions continue from the position truncated-to) *)
Theorem C04_truncate_next :
    forall (P : params) (st : state) (q : bytes) (p : N) (hint : list bytes) (tick : bool)
    (st' : state) (e n : N),
    qs_inv (s_qs st) ->
    step P st (OTruncate q p hint) tick = (st', OutTruncate e n) ->
    qs_get (s_qs st') q <> None /\
    p + 1 <= log_next st' q /\
    (forall recs : list (N * bytes),
    log_range st' q Unb Unb = Some recs -> forall x : N * bytes, In x recs -> p < fst x).
Proof. exact log_truncate_next. Qed.
Print Assumptions C04_truncate_next.

(* every later position of the incarnation is above p *)
Theorem C04_after_truncate :
    forall (P : params) (st : state) (q : bytes) (p : N) (hint : list bytes) (tick : bool)
    (st1 : state) (e n : N) (h : list (op * bool)) (st' : state) (outs : list outcome),
    qs_inv (s_qs st) ->
    step P st (OTruncate q p hint) tick = (st1, OutTruncate e n) ->
    run P st1 h = (st', outs) ->
    forallb (fun o : outcome => negb (WriterProofs.is_io o)) outs = true ->
    log_never_deleted q h outs -> forall l : N, In l (log_lasts q h outs) -> p < l.
Proof. exact log_after_truncate. Qed.
Print Assumptions C04_after_truncate.

(* any call: next does not decrease; records are old ones or have fresh positions *)
Theorem C04_step_positions :
    forall (P : params) (st : state) (o : op) (tick : bool) (st' : state) (out : outcome)
    (q : bytes) (recs : list (N * bytes)) (next : N) (recs' : list (N * bytes))
    (next' : N),
    qs_inv (s_qs st) ->
    step P st o tick = (st', out) ->
    WriterProofs.is_io out = false ->
    s_get (abs_qs (s_qs st)) q = Some (recs, next) ->
    s_get (abs_qs (s_qs st')) q = Some (recs', next') ->
    next <= next' /\
    (forall x : N * bytes, In x recs' -> In x recs \/ next <= fst x) /\
    (forall x : N * bytes, In x recs' -> fst x < next').
Proof. exact log_step_positions. Qed.
Print Assumptions C04_step_positions.

(* histories with restarts anywhere: within an incarnation the last positions reported by appends strictly increase across restarts, and the final next position is the specification's *)
Theorem C04_positions_fresh_with_restarts :
    forall P : params,
    7 < BS P ->
    BS P <= 65542 ->
    1 <= NB P ->
    (forall (t : byte) (p : bytes), crcf P t p < 2 ^ 32) ->
    L_GC P = false ->
    L_IO P = false ->
    forall (pol0 : policy) (st0 : state) (h : list hop) (st : state) (outs : list outcome) (q : bytes),
    open P [] None pol0 [] = OpenOk st0 ->
    hist_ok P st0 h ->
    hrun P st0 h = Some (st, outs) ->
    log_never_deleted q (hcalls_t h) outs ->
    incr_between 0 (log_next st q) (log_lasts q (hcalls_t h) outs) /\
    Sorted.StronglySorted N.lt (log_lasts q (hcalls_t h) outs) /\
    (forall l : N, In l (log_lasts q (hcalls_t h) outs) -> l < log_next st q) /\
    (exists (m : smap) (souts : list sout),
    s_run [] (map sop_of (hcalls h)) = (m, souts) /\
    map out_logical outs = map Some souts /\
    log_next st q = next_or0 (s_get m q) /\ log_last_position st q = s_last_position m q).
Proof. exact positions_fresh_with_restarts. Qed.
Print Assumptions C04_positions_fresh_with_restarts.

(* after truncate(..=p) every later position of the incarnation is above p, whatever restarts, roll-overs and file deletions follow *)
Theorem C04_after_truncate_with_restarts :
    forall P : params,
    7 < BS P ->
    BS P <= 65542 ->
    1 <= NB P ->
    (forall (t : byte) (p : bytes), crcf P t p < 2 ^ 32) ->
    L_GC P = false ->
    L_IO P = false ->
    forall (pol0 : policy) (st0 : state) (h1 : list hop) (q : bytes) (p : N) (hint : list bytes)
    (tick : bool) (h2 : list hop) (st1 : state) (outs1 : list outcome) (st : state)
    (e n : N) (outs2 : list outcome),
    open P [] None pol0 [] = OpenOk st0 ->
    hist_ok P st0 (h1 ++ HCall (OTruncate q p hint) tick :: h2) ->
    hrun P st0 h1 = Some (st1, outs1) ->
    hrun P st1 (HCall (OTruncate q p hint) tick :: h2) = Some (st, OutTruncate e n :: outs2) ->
    log_never_deleted q (hcalls_t h2) outs2 ->
    hrun P st0 (h1 ++ HCall (OTruncate q p hint) tick :: h2) =
    Some (st, outs1 ++ OutTruncate e n :: outs2) /\
    incr_between (p + 1) (log_next st q) (log_lasts q (hcalls_t h2) outs2) /\
    (forall l : N, In l (log_lasts q (hcalls_t h2) outs2) -> p < l).
Proof. exact after_truncate_with_restarts. Qed.
Print Assumptions C04_after_truncate_with_restarts.

(* a restart never changes a next position, also for a queue that was emptied and whose WAL files were all deleted *)
Theorem C04_restart_keeps_next :
    forall P : params,
    7 < BS P ->
    BS P <= 65542 ->
    1 <= NB P ->
    (forall (t : byte) (p : bytes), crcf P t p < 2 ^ 32) ->
    L_GC P = false ->
    L_IO P = false ->
    forall (st : state) (G : ghost) (pol : policy) (hint : list bytes) (st' : state),
    Inv P st G ->
    restart_bound P st ->
    restart P st pol hint = OpenOk st' ->
    (forall q : bytes, log_next st' q = log_next st q) /\
    (forall q : bytes, log_last_position st' q = log_last_position st q).
Proof. exact restart_keeps_next. Qed.
Print Assumptions C04_restart_keeps_next.

(* the next append gets the same position before and after the restart *)
Theorem C04_next_position_survives_restart :
    forall P : params,
    7 < BS P ->
    BS P <= 65542 ->
    1 <= NB P ->
    (forall (t : byte) (p : bytes), crcf P t p < 2 ^ 32) ->
    L_GC P = false ->
    L_IO P = false ->
    forall (pol0 : policy) (st0 : state) (h : list hop) (st : state) (outs : list outcome)
    (pol : policy) (hint : list bytes) (st' : state),
    open P [] None pol0 [] = OpenOk st0 ->
    hrun P st0 h = Some (st, outs) ->
    hist_ok P st0 h ->
    restart_bound P st ->
    restart P st pol hint = OpenOk st' ->
    (forall q : bytes, log_last_position st' q = log_last_position st q) /\
    (forall (q : bytes) (pos : option N) (pl : list bytes) (tick tick' : bool)
    (s1 : state) (l : option N) (n : N) (s1' : state) (out' : outcome),
    step P st (OAppend q pos pl) tick = (s1, OutAppend l n) ->
    step P st' (OAppend q pos pl) tick' = (s1', out') ->
    WriterProofs.is_io out' = false -> exists n' : N, out' = OutAppend l n').
Proof. exact next_position_survives_restart. Qed.
Print Assumptions C04_next_position_survives_restart.

(* crash half, any policy: after recovery from any crash image the next position of every queue is the specification's after some prefix of the history, and for a queue not deleted it is never below the next position at the persist point *)
Theorem C04_crash_next_positions :
    forall P : params,
    7 < BS P ->
    BS P <= 65542 ->
    1 <= NB P ->
    (forall (t : byte) (p : bytes), crcf P t p < 2 ^ 32) ->
    L_GC P = false ->
    L_IO P = false ->
    L_SHORT P = false ->
    TornProofs.no_zero_collision P ->
    forall (st0 : state) (G0 : ghost),
    Inv P st0 G0 ->
    w_pending (s_wr st0) = [] ->
    forall h : list (op * bool),
    GhostLog.hist_wf P st0 h ->
    RestartWrite.stream_bound P G0 (map snd (GhostLog.run_log P st0 h)) ->
    CB P st0 h ->
    forall evs : list event,
    c_ev (w_ctx (s_wr (fst (run P st0 h)))) = rev evs ++ c_ev (w_ctx (s_wr st0)) ->
    forall (cut k : N) (pol : policy) (hint : list bytes),
    exists (m : nat) (st_r : state),
    (m <= length h)%nat /\
    open P (fold_left Driver.apply_event (Driver.crash_events evs cut k) (c_fs (w_ctx (s_wr st0)))) None
    pol hint = OpenOk st_r /\
    (forall q : bytes,
    log_next st_r q = next_or0 (s_get (fst (s_run (abs_qs (s_qs st0)) (firstn m (sops h)))) q) /\
    log_last_position st_r q = s_last_position (fst (s_run (abs_qs (s_qs st0)) (firstn m (sops h)))) q) /\
    (forall q : bytes,
    log_next st_r q = log_next (fst (run P st0 (firstn m h))) q /\
    log_last_position st_r q = log_last_position (fst (run P st0 (firstn m h))) q) /\
    (forall q : bytes,
    log_never_deleted q h (snd (run P st0 h)) ->
    log_next st0 q <= log_next st_r q /\ (qs_get (s_qs st0) q <> None -> qs_get (s_qs st_r) q <> None)).
Proof. exact crash_next_positions. Qed.
Print Assumptions C04_crash_next_positions.

(* if call i persisted and the crash came after it returned, recovered next positions are at least those after call i *)
Theorem C04_crash_next_after_persist :
    forall P : params,
    7 < BS P ->
    BS P <= 65542 ->
    1 <= NB P ->
    (forall (t : byte) (p : bytes), crcf P t p < 2 ^ 32) ->
    L_GC P = false ->
    L_IO P = false ->
    L_SHORT P = false ->
    TornProofs.no_zero_collision P ->
    forall (st0 : state) (G0 : ghost),
    Inv P st0 G0 ->
    w_pending (s_wr st0) = [] ->
    forall h : list (op * bool),
    GhostLog.hist_wf P st0 h ->
    RestartWrite.stream_bound P G0 (map snd (GhostLog.run_log P st0 h)) ->
    CB P st0 h ->
    forall evs : list event,
    c_ev (w_ctx (s_wr (fst (run P st0 h)))) = rev evs ++ c_ev (w_ctx (s_wr st0)) ->
    forall (i : nat) (evs_i : list event),
    (i <= length h)%nat ->
    let st_i := fst (run P st0 (firstn i h)) in
    w_pending (s_wr st_i) = [] ->
    c_ev (w_ctx (s_wr st_i)) = rev evs_i ++ c_ev (w_ctx (s_wr st0)) ->
    forall (cut k : N) (pol : policy) (hint : list bytes),
    lenN evs_i <= cut ->
    exists (m : nat) (st_r : state),
    (i <= m)%nat /\
    (m <= length h)%nat /\
    open P (fold_left Driver.apply_event (Driver.crash_events evs cut k) (c_fs (w_ctx (s_wr st0)))) None
    pol hint = OpenOk st_r /\
    (forall q : bytes,
    log_next st_r q = next_or0 (s_get (fst (s_run (abs_qs (s_qs st0)) (firstn m (sops h)))) q)) /\
    (forall q : bytes, log_next st_r q = log_next (fst (run P st0 (firstn m h))) q) /\
    (forall q : bytes,
    log_never_deleted q (skipn i h) (snd (run P st_i (skipn i h))) ->
    log_next st_i q <= log_next st_r q /\
    (qs_get (s_qs st_i) q <> None -> qs_get (s_qs st_r) q <> None)).
Proof. exact crash_next_after_persist. Qed.
Print Assumptions C04_crash_next_after_persist.

(* Always policies: recovered next positions are those of the state before or after the in-flight call *)
Theorem C04_crash_next_always :
    forall P : params,
    7 < BS P ->
    BS P <= 65542 ->
    1 <= NB P ->
    (forall (t : byte) (p : bytes), crcf P t p < 2 ^ 32) ->
    L_GC P = false ->
    L_IO P = false ->
    L_SHORT P = false ->
    TornProofs.no_zero_collision P ->
    forall (a : bool) (st0 : state) (h : list hop) (st : state) (outs : list outcome)
    (o : op) (tick : bool) (st' : state) (out : outcome),
    open P [] None (PAlways a) [] = OpenOk st0 ->
    hrun P st0 h = Some (st, outs) ->
    hist_ok P st0 h ->
    always_hist a h ->
    GhostLog.op_wf_strict (s_qs st) o ->
    crash_phys_bound P (s_wr st) (map snd (GhostLog.step_log P st o)) (abs_qs (s_qs st)) ->
    crash_phys_bound P (s_wr st) (map snd (GhostLog.step_log P st o)) (abs_qs (s_qs st')) ->
    step P st o tick = (st', out) ->
    exists evs : list event,
    c_ev (w_ctx (s_wr st')) = rev evs ++ c_ev (w_ctx (s_wr st)) /\
    (forall (cut k : N) (pol : policy) (hint : list bytes),
    exists st_r : state,
    open P (fold_left Driver.apply_event (Driver.crash_events evs cut k) (c_fs (w_ctx (s_wr st))))
    None pol hint = OpenOk st_r /\
    ((forall q : bytes,
    log_next st_r q = log_next st q /\ log_last_position st_r q = log_last_position st q) \/
    (forall q : bytes,
    log_next st_r q = log_next st' q /\ log_last_position st_r q = log_last_position st' q)) /\
    (forall q : bytes, l_deleted q (o, tick) out = false -> log_next st q <= log_next st_r q)).
Proof. exact crash_next_always. Qed.
Print Assumptions C04_crash_next_always.

(* power loss (unsynced writes lost), any policy: the same as C04_crash_next_positions for every power-loss image *)
Theorem C04_power_next_positions :
    forall P : params,
    7 < BS P ->
    BS P <= 65542 ->
    1 <= NB P ->
    (forall (t : byte) (p : bytes), crcf P t p < 2 ^ 32) ->
    L_GC P = false ->
    L_IO P = false ->
    L_SHORT P = false ->
    TornProofs.no_zero_collision P ->
    forall (st0 : state) (G0 : ghost),
    Inv P st0 G0 ->
    w_pending (s_wr st0) = [] ->
    forall h : list (op * bool),
    GhostLog.hist_wf P st0 h ->
    RestartWrite.stream_bound P G0 (map snd (GhostLog.run_log P st0 h)) ->
    forall evs : list event,
    c_ev (w_ctx (s_wr (fst (run P st0 h)))) = rev evs ++ c_ev (w_ctx (s_wr st0)) ->
    CB P st0 h ->
    forall (cut : N) (pol : policy) (hint : list bytes),
    exists (m : nat) (st_r : state),
    (m <= length h)%nat /\
    open P (fold_left Driver.apply_event (Driver.power_events evs cut) (c_fs (w_ctx (s_wr st0)))) None
    pol hint = OpenOk st_r /\
    (forall q : bytes,
    log_next st_r q = next_or0 (s_get (fst (s_run (abs_qs (s_qs st0)) (firstn m (sops h)))) q) /\
    log_last_position st_r q = s_last_position (fst (s_run (abs_qs (s_qs st0)) (firstn m (sops h)))) q) /\
    (forall q : bytes,
    log_next st_r q = log_next (fst (run P st0 (firstn m h))) q /\
    log_last_position st_r q = log_last_position (fst (run P st0 (firstn m h))) q) /\
    (forall q : bytes,
    log_never_deleted q h (snd (run P st0 h)) ->
    log_next st0 q <= log_next st_r q /\ (qs_get (s_qs st0) q <> None -> qs_get (s_qs st_r) q <> None)).
Proof. exact power_next_positions. Qed.
Print Assumptions C04_power_next_positions.

(* if call i left everything flushed and synced and the power failed after it returned, recovered next positions are at least those after call i *)
Theorem C04_power_next_after_persist :
    forall P : params,
    7 < BS P ->
    BS P <= 65542 ->
    1 <= NB P ->
    (forall (t : byte) (p : bytes), crcf P t p < 2 ^ 32) ->
    L_GC P = false ->
    L_IO P = false ->
    L_SHORT P = false ->
    TornProofs.no_zero_collision P ->
    forall (st0 : state) (G0 : ghost),
    Inv P st0 G0 ->
    w_pending (s_wr st0) = [] ->
    forall h : list (op * bool),
    GhostLog.hist_wf P st0 h ->
    RestartWrite.stream_bound P G0 (map snd (GhostLog.run_log P st0 h)) ->
    forall evs : list event,
    c_ev (w_ctx (s_wr (fst (run P st0 h)))) = rev evs ++ c_ev (w_ctx (s_wr st0)) ->
    CB P st0 h ->
    forall (i : nat) (evs_i : list event),
    (i <= length h)%nat ->
    let st_i := fst (run P st0 (firstn i h)) in
    w_pending (s_wr st_i) = [] ->
    PersistProofs.wr_all_synced (s_wr st_i) ->
    c_ev (w_ctx (s_wr st_i)) = rev evs_i ++ c_ev (w_ctx (s_wr st0)) ->
    forall (cut : N) (pol : policy) (hint : list bytes),
    lenN evs_i <= cut ->
    exists (m : nat) (st_r : state),
    (i <= m)%nat /\
    (m <= length h)%nat /\
    open P (fold_left Driver.apply_event (Driver.power_events evs cut) (c_fs (w_ctx (s_wr st0)))) None
    pol hint = OpenOk st_r /\
    (forall q : bytes,
    log_next st_r q = next_or0 (s_get (fst (s_run (abs_qs (s_qs st0)) (firstn m (sops h)))) q)) /\
    (forall q : bytes, log_next st_r q = log_next (fst (run P st0 (firstn m h))) q) /\
    (forall q : bytes,
    log_never_deleted q (skipn i h) (snd (run P st_i (skipn i h))) ->
    log_next st_i q <= log_next st_r q /\
    (qs_get (s_qs st_i) q <> None -> qs_get (s_qs st_r) q <> None)).
Proof. exact power_next_after_persist. Qed.
Print Assumptions C04_power_next_after_persist.

