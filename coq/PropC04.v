(* PropC04.v — C04: queue positions never regress or get reused (live part: any history of calls; restarts and crash recovery rest on C01/C02, see stated_not_proved).
   Statements only; each theorem is closed by `exact <lemma>`; proofs live in the imported files. *)
From Coq Require Import Lia NArith List.
From MRL Require Import Bytes Params Names Frame Record Mem Spec Rolling Log Hist SpecRefine QueueIso.

(* specification level: next position never decreases within an incarnation; last positions returned by appends strictly increase and lie in [old next, new next) *)
Theorem C04_spec_next_monotone :
    forall (h : list sop) (m : smap) (q : bytes) (recs : list (N * bytes)) (next : N),
    s_get m q = Some (recs, next) ->
    never_deleted q h (snd (s_run m h)) ->
    exists (recs' : list (N * bytes)) (next' : N),
    s_get (fst (s_run m h)) q = Some (recs', next') /\
    next <= next' /\
    Sorted.StronglySorted N.lt (lasts q h (snd (s_run m h))) /\
    (forall l : N, In l (lasts q h (snd (s_run m h))) -> next <= l < next').
Proof. exact s_run_next_monotone_some. Qed.
Print Assumptions C04_spec_next_monotone.

(* the log: along any history without I/O failure and without a successful delete of q, the last positions reported for q increase strictly between the old and new next position *)
Theorem C04_log_positions_fresh :
    forall (P : params) (h : list (op * bool)) (st st' : state) (outs : list outcome) (q : bytes),
    qs_inv (s_qs st) ->
    run P st h = (st', outs) ->
    forallb (fun o : outcome => negb (WriterProofs.is_io o)) outs = true ->
    log_never_deleted q h outs ->
    (qs_get (s_qs st) q <> None -> qs_get (s_qs st') q <> None) /\
    incr_between (log_next st q) (log_next st' q) (log_lasts q h outs).
Proof. exact log_positions_fresh. Qed.
Print Assumptions C04_log_positions_fresh.

(* spelled out *)
Theorem C04_log_lasts_increasing :
    forall (P : params) (h : list (op * bool)) (st st' : state) (outs : list outcome) (q : bytes),
    qs_inv (s_qs st) ->
    run P st h = (st', outs) ->
    forallb (fun o : outcome => negb (WriterProofs.is_io o)) outs = true ->
    log_never_deleted q h outs ->
    log_next st q <= log_next st' q /\
    Sorted.StronglySorted N.lt (log_lasts q h outs) /\
    (forall l : N, In l (log_lasts q h outs) -> log_next st q <= l < log_next st' q).
Proof. exact log_lasts_increasing. Qed.
Print Assumptions C04_log_lasts_increasing.

(* one append: its last position is >= the next position before the call and the next position becomes last+1 *)
Theorem C04_append_fresh :
    forall (P : params) (st : state) (q : bytes) (pos : option N) (pl : list bytes)
    (tick : bool) (st' : state) (l n : N),
    qs_inv (s_qs st) ->
    step P st (OAppend q pos pl) tick = (st', OutAppend (Some l) n) ->
    qs_get (s_qs st) q <> None /\
    log_next st q <= l /\ log_next st' q = l + 1 /\ log_last_position st' q = Some (Some l).
Proof. exact log_append_fresh. Qed.
Print Assumptions C04_append_fresh.

(* truncate(..=p): afterwards next >= p+1 and every retained record is above p (automatic positions continue from the position truncated-to) *)
Theorem C04_truncate_next :
    forall (P : params) (st : state) (q : bytes) (p : N) (hint : list bytes) (tick : bool)
    (st' : state) (e n : N),
    qs_inv (s_qs st) ->
    step P st (OTruncate q p hint) tick = (st', OutTruncate e n) ->
    qs_get (s_qs st') q <> None /\
    p + 1 <= log_next st' q /\
    (forall recs : list (N * bytes),
    log_range st' q Unb Unb = Some recs -> forall x : N * bytes, In x recs -> p < fst x).
Proof. exact log_truncate_next. Qed.
Print Assumptions C04_truncate_next.

(* every later position of the incarnation is above p *)
Theorem C04_after_truncate :
    forall (P : params) (st : state) (q : bytes) (p : N) (hint : list bytes) (tick : bool)
    (st1 : state) (e n : N) (h : list (op * bool)) (st' : state) (outs : list outcome),
    qs_inv (s_qs st) ->
    step P st (OTruncate q p hint) tick = (st1, OutTruncate e n) ->
    run P st1 h = (st', outs) ->
    forallb (fun o : outcome => negb (WriterProofs.is_io o)) outs = true ->
    log_never_deleted q h outs -> forall l : N, In l (log_lasts q h outs) -> p < l.
Proof. exact log_after_truncate. Qed.
Print Assumptions C04_after_truncate.

(* any call: next does not decrease; records are old ones or have fresh positions *)
Theorem C04_step_positions :
    forall (P : params) (st : state) (o : op) (tick : bool) (st' : state) (out : outcome)
    (q : bytes) (recs : list (N * bytes)) (next : N) (recs' : list (N * bytes))
    (next' : N),
    qs_inv (s_qs st) ->
    step P st o tick = (st', out) ->
    WriterProofs.is_io out = false ->
    s_get (abs_qs (s_qs st)) q = Some (recs, next) ->
    s_get (abs_qs (s_qs st')) q = Some (recs', next') ->
    next <= next' /\
    (forall x : N * bytes, In x recs' -> In x recs \/ next <= fst x) /\
    (forall x : N * bytes, In x recs' -> fst x < next').
Proof. exact log_step_positions. Qed.
Print Assumptions C04_step_positions.

