(* Extract.v — extraction of the executable model to OCaml. ExtrOcamlBasic only: bool, option,
   unit, prod, list, sumbool, sumor map to OCaml's; N, positive, byte stay Coq's datatypes. *)
Require Extraction.
Require Import ExtrOcamlBasic.
From MRL Require Import Bytes Crc Params Names Frame Record Mem Rolling Log Driver.
Extraction Language OCaml.
Extraction "model.ml" Bytes.takeN Bytes.write_at Bytes.zerosN
  Bytes.lenN Bytes.bytes_ltb Bytes.b2n Bytes.n2b
  Crc.crc32 Params.mkParams Names.filename Names.filename_to_position
  Record.entry_deser Record.entry_ser
  Mem.next_position Mem.last_position Mem.mq_range Mem.mq_last_record Mem.first_file
  Mem.records_of Mem.qs_get Mem.ring_get_range
  Log.log_range Log.log_last_position Log.log_last_record Log.log_memory_used Log.log_disk_used
  Log.step Log.open
  Driver.world_init Driver.world_step Driver.mem_roundtrip Driver.replay_events
  Driver.crash_events Driver.power_events Driver.world_digest.
