(* PowerCorollaries.v — the POWER-LOSS halves of C04 (positions never regress), C18 (queue
   isolation) and C12 (a batch append is all-or-nothing).
   PowerLoss.C03_power_image_is_crash_image: from a persist point, the image of a power loss at
   cut c IS the process-crash image at (cut', 0) for some cut' <= c.  Hence every statement of
   CrashCorollaries on process-crash images (crash_events evs cut k) holds for the power-loss
   images (power_events evs cut):
     power_next_positions (C04), power_projection (C18), batch_power (C12).
   For the "after a persist point" variants the cut' must not fall before the events of call i.
   Part 1 shows (on event lists alone) that a fully synced prefix evs_i of the trace survives a
   power loss at any cut >= |evs_i| as a whole, so that cut' can be taken >= |evs_i|
   (power_is_crash_ge); hence, when call i is a POWER persist point (nothing buffered, everything
   written so far synced):
     power_next_after_persist (C04), batch_power_persisted (C12): m >= i. *)
From Coq Require Import Lia ZArith ZifyN ZifyNat ZifyBool List Sorted.
From MRL Require Import Bytes BytesProofs Params Names NamesProofs Frame Record Mem Spec Rolling Log
  Driver Hist NoopProofs WriterProofs SpecRefine GhostLog ReplaySpec DeletionSim QueueIso
  RestartInv RestartWrite RestartGc RestartStep OpenReplay RestartFinal RestartCorollaries
  RecordProofs StreamProofs PolicyProofs GcProofs HandleProofs FileStream ResyncProofs
  TornProofs PersistProofs CrashTrace CrashAtomic PersistLogic PersistRecover PersistSurvive
  PersistShape PersistImage CrashCorollaries PowerLoss.
Import ListNotations.

Arguments N.add : simpl never.
Arguments N.sub : simpl never.
Arguments N.mul : simpl never.
Arguments N.eqb : simpl never.
Arguments N.ltb : simpl never.
Arguments N.leb : simpl never.
Arguments N.div : simpl never.
Arguments N.modulo : simpl never.
Arguments N.min : simpl never.
Arguments N.max : simpl never.

(* ====================================================================== *)
(* Part 1. a fully synced prefix of the trace survives as a whole           *)
(* ====================================================================== *)

(* the discipline of a trace is that of each of its suffixes *)
Lemma disc_app_r a : forall cur d b, disc cur d (a ++ b) -> exists cur' d', disc cur' d' b.
Proof.
  induction a as [|e a IH]; intros cur d b H.
  - exists cur, d. exact H.
  - cbn [app] in H. destruct e; cbn [disc] in H; try contradiction.
    + destruct H as [_ H]. exact (IH _ _ _ H).
    + destruct H as [_ H]. exact (IH _ _ _ H).
    + destruct H as [_ H]. exact (IH _ _ _ H).
    + exact (IH _ _ _ H).
    + destruct H as [_ H]. exact (IH _ _ _ H).
    + exact (IH _ _ _ H).
    + destruct H as [_ H]. exact (IH _ _ _ H).
Qed.

(* PowerLoss.power_is_crash when the cut is after a fully synced prefix a of the trace: the
   process-crash cut is after a too *)
Theorem power_is_crash_ge a b cur d cut :
  disc cur d (a ++ b) -> all_synced a -> lenN a <= cut ->
  exists cut', lenN a <= cut' /\ cut' <= cut /\
    (forall fs, fold_left apply_event (power_events (a ++ b) cut) fs =
                fold_left apply_event (crash_events (a ++ b) cut' 0) fs) /\
    ev_data (power_events (a ++ b) cut) = ev_data (crash_events (a ++ b) cut' 0) /\
    Forall (fun e => ~ meta_ev e) (dropN cut' (takeN cut (a ++ b))).
Proof.
  intros Hd Ha Hc. destruct (disc_app_r a cur d b Hd) as (cur' & d' & Hdb).
  destruct (power_is_crash b cur' d' (cut - lenN a) Hdb) as (c2 & Hc2 & I1 & I2 & I3).
  exists (lenN a + c2). split; [lia|]. split; [lia|].
  rewrite power_events_app_ge by assumption.
  rewrite crash_events_k0 in *.
  rewrite (takeN_app_ge (lenN a + c2)) by lia.
  replace (lenN a + c2 - lenN a) with c2 by lia.
  split; [intros fs; rewrite !fold_left_app; apply I1|].
  split; [rewrite !ev_data_app, I2; reflexivity|].
  rewrite (takeN_app_ge cut) by assumption.
  rewrite !dropN_skipn in *. rewrite skipn_app.
  replace (N.to_nat (lenN a + c2) - length a)%nat with (N.to_nat c2) by (rewrite lenN_length; lia).
  rewrite (skipn_all2 a) by (rewrite lenN_length; lia). exact I3.
Qed.

(* ====================================================================== *)
(* Part 2. histories                                                        *)
(* ====================================================================== *)
Section Main.
Variable P : params.
Hypothesis HBS_lo : 7 < BS P.
Hypothesis HBS_hi : BS P <= 65542.
Hypothesis HNB : 1 <= NB P.
Hypothesis Hcrc : forall t p, crcf P t p < 2 ^ 32.
Hypothesis HGC : L_GC P = false.
Hypothesis HIO : L_IO P = false.
Hypothesis HSHORT : L_SHORT P = false.
Hypothesis Hnc : no_zero_collision P.

Local Notation HW f := (f P HBS_lo HBS_hi HNB Hcrc) (only parsing).
Local Notation HG f := (f P HBS_lo HBS_hi HNB Hcrc HGC) (only parsing).
Local Notation HN f := (f P HBS_lo HBS_hi HNB) (only parsing).
Local Notation HA f := (f P HBS_lo HBS_hi HNB Hcrc HGC HIO HSHORT Hnc) (only parsing).
Local Notation Inv := (Inv P).
Local Notation stream_bound := (stream_bound P).
Local Notation absq st := (abs_qs (s_qs st)).
Local Notation stN st h m := (fst (run P st (firstn m h))).
Local Notation CB := (CB P).

Section Setting.
(* the setting of PowerLoss.C03_power_loss: a persist point (the restart invariant holds and
   nothing is buffered), any further history under any policy, the events it adds *)
Variables (st0 : state) (G0 : ghost).
Hypothesis HI0 : Inv st0 G0.
Hypothesis Hp0 : w_pending (s_wr st0) = [].
Variable h : list (op * bool).
Hypothesis Hwf : hist_wf P st0 h.
Hypothesis Hb : stream_bound G0 (map snd (run_log P st0 h)).
Variable evs : list event.
Hypothesis Hevs : c_ev (w_ctx (s_wr (fst (run P st0 h)))) = rev evs ++ c_ev (w_ctx (s_wr st0)).
Hypothesis Hcb : CB st0 h.

Local Notation fs0 := (c_fs (w_ctx (s_wr st0))).
Local Notation crash_dir cut k := (fold_left apply_event (crash_events evs cut k) fs0).
Local Notation power_dir cut := (fold_left apply_event (power_events evs cut) fs0).

(* the power-loss image at cut is a process-crash image *)
Lemma power_dir_crash cut : exists cut', cut' <= cut /\ power_dir cut = crash_dir cut' 0.
Proof.
  destruct (HG C03_power_image_is_crash_image st0 G0 HI0 Hp0 h Hwf Hb evs Hevs cut)
    as (cut' & Hc & E & _).
  exists cut'. split; [exact Hc|exact E].
Qed.

(* the same when the cut is after the events of a call boundary st_i at which everything written
   is synced: the process-crash cut is after these events too *)
Lemma power_dir_crash_ge i evs_i cut :
  (i <= length h)%nat ->
  let st_i := stN st0 h i in
  wr_all_synced (s_wr st_i) ->
  c_ev (w_ctx (s_wr st_i)) = rev evs_i ++ c_ev (w_ctx (s_wr st0)) ->
  lenN evs_i <= cut ->
  exists cut', lenN evs_i <= cut' /\ cut' <= cut /\ power_dir cut = crash_dir cut' 0.
Proof.
  intros Hi st_i Hsi Hevi Hcut.
  pose proof (boundary_synced _ _ _ Hevi Hsi) as Hall.
  pose proof (HG history_disc st0 G0 HI0 Hp0 h Hwf Hb evs Hevs) as Hd.
  assert (Eevs : exists evs2, evs = evs_i ++ evs2).
  { pose proof Hevs as Hevs'. rewrite <- (firstn_skipn i h), (run_app_fst P) in Hevs'.
    fold st_i in Hevs'.
    destruct (run_events P st_i (skipn i h)) as (evs2 & Hev2). exists evs2.
    rewrite Hev2, Hevi, app_assoc in Hevs'. apply app_inv_tail in Hevs'.
    apply rev_inj. rewrite rev_app_distr. now symmetry. }
  destruct Eevs as (evs2 & ->).
  destruct (power_is_crash_ge evs_i evs2 _ _ cut Hd Hall Hcut) as (cut' & H1 & H2 & E & _).
  exists cut'. split; [exact H1|]. split; [exact H2|apply E].
Qed.

(* ====================================================================== *)
(* C04, power-loss half                                                    *)
(* ====================================================================== *)

(* (1) Whatever the policy and wherever the power fails in h, recovery gives every queue the next
   position (hence the last position) the specification gives it after a prefix of the calls; if
   no call of h successfully deletes q, that is never below the next position q had at the
   persist point, and q is still there if it was there. *)
Theorem power_next_positions cut pol hint :
  exists m st_r,
    (m <= length h)%nat /\ open P (power_dir cut) None pol hint = OpenOk st_r /\
    (forall q, log_next st_r q = next_or0 (s_get (fst (s_run (absq st0) (firstn m (sops h)))) q) /\
               log_last_position st_r q =
                 s_last_position (fst (s_run (absq st0) (firstn m (sops h)))) q) /\
    (forall q, log_next st_r q = log_next (stN st0 h m) q /\
               log_last_position st_r q = log_last_position (stN st0 h m) q) /\
    (forall q, log_never_deleted q h (snd (run P st0 h)) ->
               log_next st0 q <= log_next st_r q /\
               (qs_get (s_qs st0) q <> None -> qs_get (s_qs st_r) q <> None)).
Proof.
  destruct (power_dir_crash cut) as (cut' & _ & ->).
  exact (HA crash_next_positions st0 G0 HI0 Hp0 h Hwf Hb Hcb evs Hevs cut' 0 pol hint).
Qed.

(* (4) If call number i is a POWER persist point (nothing buffered, everything written so far
   synced) and the power fails after it returned, the recovered state is that of a prefix of
   length m >= i, and every queue that is not deleted by the calls after i recovers a next
   position at or above the one it had after call i. *)
Theorem power_next_after_persist i evs_i :
  (i <= length h)%nat ->
  let st_i := stN st0 h i in
  w_pending (s_wr st_i) = [] -> wr_all_synced (s_wr st_i) ->
  c_ev (w_ctx (s_wr st_i)) = rev evs_i ++ c_ev (w_ctx (s_wr st0)) ->
  forall cut pol hint, lenN evs_i <= cut ->
  exists m st_r,
    (i <= m)%nat /\ (m <= length h)%nat /\
    open P (power_dir cut) None pol hint = OpenOk st_r /\
    (forall q, log_next st_r q = next_or0 (s_get (fst (s_run (absq st0) (firstn m (sops h)))) q)) /\
    (forall q, log_next st_r q = log_next (stN st0 h m) q) /\
    (forall q, log_never_deleted q (skipn i h) (snd (run P st_i (skipn i h))) ->
               log_next st_i q <= log_next st_r q /\
               (qs_get (s_qs st_i) q <> None -> qs_get (s_qs st_r) q <> None)).
Proof.
  intros Hi st_i Hpi Hsi Hevi cut pol hint Hcut.
  destruct (power_dir_crash_ge i evs_i cut Hi Hsi Hevi Hcut) as (cut' & Hc1 & _ & ->).
  exact (HA crash_next_after_persist st0 G0 HI0 Hp0 h Hwf Hb Hcb evs Hevs i evs_i Hi Hpi Hevi
           cut' 0 pol hint Hc1).
Qed.

(* ====================================================================== *)
(* C18, power-loss half                                                    *)
(* ====================================================================== *)

(* (2) After recovery from a power loss anywhere in h, under any policy, what a queue q holds —
   and so what range / last_position / last_record answer for q — is what the SPECIFICATION gives
   q when it runs only the calls addressed to q among the first m calls, from any map that agrees
   with the persist point on q. *)
Theorem power_projection cut pol hint :
  exists m st_r,
    (m <= length h)%nat /\ open P (power_dir cut) None pol hint = OpenOk st_r /\
    forall q m0, s_get m0 q = s_get (absq st0) q ->
      let mq := fst (s_run m0 (filter (addressed q) (firstn m (sops h)))) in
      s_get (absq st_r) q = s_get mq q /\
      (forall lo hi, log_range st_r q lo hi = s_range mq q lo hi) /\
      log_last_position st_r q = s_last_position mq q /\
      log_last_record st_r q = s_last_record mq q /\
      log_next st_r q = next_or0 (s_get mq q).
Proof.
  destruct (power_dir_crash cut) as (cut' & _ & ->).
  exact (HA crash_projection st0 G0 HI0 Hp0 h Hwf Hb Hcb evs Hevs cut' 0 pol hint).
Qed.

(* (2, persisted) the same with m >= i when call i is a power persist point and the power fails
   after it returned *)
Theorem power_projection_after_persist i evs_i :
  (i <= length h)%nat ->
  let st_i := stN st0 h i in
  w_pending (s_wr st_i) = [] -> wr_all_synced (s_wr st_i) ->
  c_ev (w_ctx (s_wr st_i)) = rev evs_i ++ c_ev (w_ctx (s_wr st0)) ->
  forall cut pol hint, lenN evs_i <= cut ->
  exists m st_r,
    (i <= m)%nat /\ (m <= length h)%nat /\
    open P (power_dir cut) None pol hint = OpenOk st_r /\
    forall q m0, s_get m0 q = s_get (absq st0) q ->
      let mq := fst (s_run m0 (filter (addressed q) (firstn m (sops h)))) in
      s_get (absq st_r) q = s_get mq q /\
      (forall lo hi, log_range st_r q lo hi = s_range mq q lo hi) /\
      log_last_position st_r q = s_last_position mq q /\
      log_last_record st_r q = s_last_record mq q /\
      log_next st_r q = next_or0 (s_get mq q).
Proof.
  intros Hi st_i Hpi Hsi Hevi cut pol hint Hcut.
  destruct (HA C03_fsynced_survives_power_loss st0 G0 h evs i evs_i HI0 Hp0 Hwf Hb Hcb Hevs Hi
              Hpi Hsi Hevi cut pol hint Hcut) as (m & st_r & Him & Hm & Ho & Hq).
  exists m, st_r. split; [exact Him|]. split; [exact Hm|]. split; [exact Ho|]. intros q m0 H0 mq.
  assert (Hg : s_get (absq st_r) q = s_get mq q).
  { rewrite Hq, <- (HG run_spec_prefix h st0 G0 m HI0 Hwf Hb).
    exact (proj1 (s_run_projection (firstn m (sops h)) (absq st0) m0 q (eq_sym H0))). }
  split; [exact Hg|].
  exact (reads_of_spec st_r mq q (open_inv P _ _ _ _ _ Ho) Hg).
Qed.

(* ====================================================================== *)
(* C12, power loss                                                         *)
(* ====================================================================== *)

(* (3) Wherever the power fails in h, under any policy, the recovered state is that of a prefix of
   h: the batch is recovered as nothing (prefix before the append), or as a suffix of itself
   (prefix containing the append). *)
Theorem batch_power h1 q pos pl t h2 last nb :
  h = h1 ++ (OAppend q pos pl, t) :: h2 ->
  let st1 := fst (run P st0 h1) in
  snd (step P st1 (OAppend q pos pl) t) = OutAppend (Some last) nb ->
  let st2 := fst (step P st1 (OAppend q pos pl) t) in
  forall cut pol hint,
  exists m st_r,
    (m <= length h)%nat /\ open P (power_dir cut) None pol hint = OpenOk st_r /\
    (forall q', s_get (absq st_r) q' = s_get (absq (stN st0 h m)) q') /\
    batch_at P st0 h1 q pl h2 st2 last m (s_get (absq st_r) q).
Proof.
  intros Eh st1 Hout st2 cut pol hint.
  destruct (power_dir_crash cut) as (cut' & _ & ->).
  exact (HA batch_crash st0 G0 HI0 Hp0 h Hwf Hb Hcb evs Hevs h1 q pos pl t h2 last nb Eh Hout
           cut' 0 pol hint).
Qed.

(* (4) If the batch append left nothing buffered AND everything written so far synced (e.g.
   policy Always with fsync) and the power fails after it returned, the batch is never recovered
   as "nothing because too early": the recovered prefix contains the append, and q holds a suffix
   of the batch as long as q is not deleted by the later calls of that prefix. *)
Theorem batch_power_persisted h1 q pos pl t h2 last nb evs_i :
  h = h1 ++ (OAppend q pos pl, t) :: h2 ->
  let st1 := fst (run P st0 h1) in
  snd (step P st1 (OAppend q pos pl) t) = OutAppend (Some last) nb ->
  let st2 := fst (step P st1 (OAppend q pos pl) t) in
  let b := last + 1 - lenN pl in
  w_pending (s_wr st2) = [] -> wr_all_synced (s_wr st2) ->
  c_ev (w_ctx (s_wr st2)) = rev evs_i ++ c_ev (w_ctx (s_wr st0)) ->
  forall cut pol hint, lenN evs_i <= cut ->
  exists m st_r,
    (length h1 < m)%nat /\ (m <= length h)%nat /\
    open P (power_dir cut) None pol hint = OpenOk st_r /\
    let k2 := (m - S (length h1))%nat in
    (log_never_deleted q (firstn k2 h2) (snd (run P st2 (firstn k2 h2))) ->
     exists recs next j,
       s_get (absq st_r) q = Some (recs, next) /\ last < next /\
       filter (in_span b (last + 1)) recs = skipn j (s_number b pl)).
Proof.
  intros Eh st1 Hout st2 b Hp2 Hs2 Hev2 cut pol hint Hcut.
  assert (Hi : (S (length h1) <= length h)%nat).
  { rewrite Eh, app_length. cbn [length]. lia. }
  assert (Esti : stN st0 h (S (length h1)) = st2).
  { rewrite Eh. replace (S (length h1)) with (length h1 + 1)%nat by lia.
    rewrite (HN stN_app_ge). cbn [firstn run]. unfold st2, st1.
    now destruct (step P (fst (run P st0 h1)) (OAppend q pos pl) t). }
  destruct (power_dir_crash_ge (S (length h1)) evs_i cut Hi) as (cut' & Hc1 & _ & ->);
    try (rewrite Esti; assumption); [exact Hcut|].
  exact (HA batch_crash_persisted st0 G0 HI0 Hp0 h Hwf Hb Hcb evs Hevs h1 q pos pl t h2 last nb
           evs_i Eh Hout Hp2 Hev2 cut' 0 pol hint Hc1).
Qed.

End Setting.
End Main.

Print Assumptions power_is_crash_ge.
Print Assumptions power_next_positions.
Print Assumptions power_next_after_persist.
Print Assumptions power_projection.
Print Assumptions power_projection_after_persist.
Print Assumptions batch_power.
Print Assumptions batch_power_persisted.

Check power_is_crash_ge.
Check power_next_positions.
Check power_next_after_persist.
Check power_projection.
Check power_projection_after_persist.
Check batch_power.
Check batch_power_persisted.
