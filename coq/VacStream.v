(* VacStream.v — vacuity audit, part 4: the stream-level theorems (in-memory record log) of
   PropC02 (torn writes), PropC07, PropC08, PropC09, PropC12.
   Parameters: BS = 16, the real CRC-32.  Entries: entry_ser of small WAL entries; the torn /
   damaged entry spans several frames and blocks. *)
From Coq Require Import Lia ZArith ZifyN ZifyNat ZifyBool List.
From MRL Require Import Bytes BytesProofs Params Names Frame Record Mem Spec Rolling Log Driver Hist
  RecordProofs StreamProofs TornProofs DamageProofs ResyncProofs DamageFile Crc VacBase.
From MRL Require PropC02 PropC07 PropC08 PropC09 PropC12.
Import ListNotations.

Arguments N.add : simpl never.
Arguments N.sub : simpl never.
Arguments N.mul : simpl never.
Arguments N.eqb : simpl never.
Arguments N.ltb : simpl never.
Arguments N.leb : simpl never.
Arguments N.div : simpl never.
Arguments N.modulo : simpl never.

Definition Ps : params := mkParams 16 2 Crc.crc32 24 false false false.
Lemma Ps_BS_lo : 7 < BS Ps. Proof. reflexivity. Qed.
Lemma Ps_BS_hi : BS Ps <= 65542. Proof. intros H; discriminate H. Qed.
Lemma Ps_NB : 1 <= NB Ps. Proof. intros H; discriminate H. Qed.
Lemma Ps_crc : forall t p, crcf Ps t p < 2 ^ 32.
Proof.
  intros t p. cbn [Ps crcf]. unfold Crc.crc32. change 4294967295 with (N.ones 32).
  rewrite N.land_ones. apply N.mod_lt. discriminate.
Qed.

Definition qa : bytes := ["a"%byte].
Definition qb : bytes := ["b"%byte].
Definition es1 : list bytes :=
  map entry_ser [EPosition qa 0; EAppend qa 0 [(0, ["x"; "y"; "z"]%byte)]].
Definition x_t : bytes := entry_ser (EAppend qa 1 [(1, ["p"; "q"; "r"; "s"; "t"; "u"; "v"; "w"]%byte)]).
Definition es2 : list bytes := map entry_ser [EPosition qb 3; ETruncate qa 0].

Definition t1 : bytes := Eval vm_compute in encs_of Ps 0 es1.
Lemma t1_eq : encs_of Ps 0 es1 = t1. Proof. vm_compute. reflexivity. Qed.
Lemma t1_rel : encs_rel Ps 0 es1 t1.
Proof. rewrite <- t1_eq. apply (encs_of_rel Ps Ps_BS_lo Ps_BS_hi Ps_crc). Qed.
Definition ex : bytes := Eval vm_compute in enc_of Ps (lenN t1) x_t.
Lemma ex_eq : enc_of Ps (lenN t1) x_t = ex. Proof. vm_compute. reflexivity. Qed.

Example stream_shape : lenN t1 = 80 /\ lenN ex = 60 /\ lenN x_t = 32.
Proof. vm_compute. repeat split; reflexivity. Qed.

Lemma ex_rel : exists k, enc_rel Ps (lenN t1) true x_t ex k.
Proof. rewrite <- ex_eq. apply (enc_of_rel Ps Ps_BS_lo Ps_BS_hi Ps_crc). Qed.

(* ====================================================================== *)
(* PropC02: torn writes (the theorems without no_zero_collision)           *)
(* ====================================================================== *)
(* the entry x_t is cut after j = 30 of its 60 stream bytes (in its third frame) *)
Definition j_t : N := 30.
Definition S0 : bytes := Eval vm_compute in mem_stream Ps (t1 ++ takeN j_t ex).
Lemma S0_eq : S0 = mem_stream Ps (t1 ++ takeN j_t ex). Proof. vm_compute. reflexivity. Qed.

Lemma C02_torn_read_premises_satisfiable :
  exists k, encs_rel Ps 0 es1 t1 /\ enc_rel Ps (lenN t1) true x_t ex k /\ j_t < lenN ex /\
            S0 = mem_stream Ps (t1 ++ takeN j_t ex) /\ (length es1 + 3 <= 5)%nat /\
            lenN S0 <= 7 * N.of_nat 20.
Proof.
  destruct ex_rel as [k Hk]. exists k. split; [exact t1_rel|]. split; [exact Hk|].
  split; [reflexivity|]. split; [exact S0_eq|]. split; [cbn; lia|]. vm_compute. intros H; discriminate H.
Qed.

Example C02_torn_read_inst :
  exists tail, mem_read_all Ps 5 20 (rr_start Ps S0) = map MrEntry es1 ++ tail /\
    (tail = [MrEnd] \/ tail = [MrCorrupt; MrEnd] \/
     tail = [MrEntry x_t; MrEnd] /\ all_zero (dropN j_t ex) = true \/
     (exists y, tail = [MrEntry y; MrEnd] /\ y <> x_t /\ crc_collision Ps)).
Proof.
  destruct C02_torn_read_premises_satisfiable as (k & H1 & H2 & H3 & H4 & H5 & H6).
  exact (PropC02.C02_torn_read Ps Ps_BS_lo Ps_BS_hi Ps_crc es1 t1 x_t ex k j_t 5 20 S0 H1 H2 H3 H4 H5 H6).
Qed.
(* C02_torn_read_nocoll and C12_torn_entry_all_or_nothing have the same premises plus
   no_zero_collision (inconsistent with Ps_crc: known). *)

Example C02_torn_read_computed :
  mem_read_all Ps 5 20 (rr_start Ps S0) = map MrEntry es1 ++ [MrEnd].
Proof. vm_compute. reflexivity. Qed.

Example C02_torn_read_written_inst :
  let w := fst (mem_write_all Ps (mkVecW 0 []) es1) in
  let w' := fst (write_record Ps vecw vw_write (vw_rem Ps) w x_t) in
  let S := mem_stream Ps (takeN (lenN (vw_buf w) + j_t) (vw_buf w')) in
  let fuel := N.to_nat (lenN S / HEADER_LEN + lenN S / BS Ps + 4) in
  exists tail, mem_read_all Ps fuel fuel (rr_start Ps S) = map MrEntry es1 ++ tail.
Proof.
  cbv zeta.
  destruct (PropC02.C02_torn_read_written Ps Ps_BS_lo Ps_BS_hi Ps_crc es1 x_t j_t _ _ _ _
              eq_refl eq_refl ltac:(vm_compute; reflexivity) eq_refl eq_refl) as (tail & H & _).
  exists tail. exact H.
Qed.

Example C02_torn_resume_inst :
  exists r, at_pos Ps S0 (rr_fr (snd (mem_read_fin Ps 5 20 (rr_start Ps S0)))) r /\
            lenN t1 <= r /\ all_zero (dropN r S0) = true /\ r + BS Ps <= lenN S0.
Proof.
  destruct C02_torn_read_premises_satisfiable as (k & H1 & H2 & H3 & H4 & H5 & H6).
  destruct (PropC02.C02_torn_resume Ps Ps_BS_lo Ps_BS_hi Ps_crc es1 t1 x_t ex k j_t 5 20 S0
              H1 H2 H3 H4 H5 H6) as (r & Ha & Hb & Hc & _ & _ & Hd).
  exists r. auto.
Qed.

(* C02_torn_then_append: the resume position r comes from C02_torn_resume; the entries es2 are
   written from there; the fuels are chosen from the stream *)
Example C02_torn_then_append_inst :
  exists r S' fuel' gofuel' corr,
    at_pos Ps S0 (rr_fr (snd (mem_read_fin Ps 5 20 (rr_start Ps S0)))) r /\
    S' = mem_stream Ps (takeN r S0 ++ encs_of Ps r es2) /\
    mem_read_all Ps fuel' gofuel' (rr_start Ps S') =
      map MrEntry es1 ++ corr ++ map MrEntry es2 ++ [MrEnd] /\
    corr_ok Ps x_t ex j_t corr.
Proof.
  destruct C02_torn_read_premises_satisfiable as (k & H1 & H2 & H3 & H4 & H5 & H6).
  destruct (PropC02.C02_torn_resume Ps Ps_BS_lo Ps_BS_hi Ps_crc es1 t1 x_t ex k j_t 5 20 S0
              H1 H2 H3 H4 H5 H6) as (r & Ha & _).
  set (t2 := encs_of Ps r es2). set (S' := mem_stream Ps (takeN r S0 ++ t2)).
  destruct (PropC02.C02_torn_then_append Ps Ps_BS_lo Ps_BS_hi Ps_crc es1 t1 x_t ex k j_t 5 20 S0
              H1 H2 H3 H4 H5 H6 r Ha es2 t2 S' (length es1 + length es2 + 3)%nat
              (N.to_nat (lenN S'))) as (corr & Hr & Hc).
  - apply (encs_of_rel Ps Ps_BS_lo Ps_BS_hi Ps_crc).
  - reflexivity.
  - lia.
  - lia.
  - exists r, S', (length es1 + length es2 + 3)%nat, (N.to_nat (lenN S')), corr. auto.
Qed.

(* ====================================================================== *)
(* PropC07                                                                *)
(* ====================================================================== *)
Example C07_roundtrip_mem_inst :
  exists ns written,
    mem_roundtrip Ps (es1 ++ [x_t] ++ es2) = (ns, written, map MrEntry (es1 ++ [x_t] ++ es2) ++ [MrEnd]).
Proof.
  destruct (PropC07.C07_roundtrip_mem Ps Ps_BS_lo Ps_BS_hi Ps_crc (es1 ++ [x_t] ++ es2))
    as (ns & wr & H & _). now exists ns, wr.
Qed.

Example C07_write_count_inst :
  exists w' n, write_record Ps vecw vw_write (vw_rem Ps) (mkVecW 80 t1) x_t = (w', Ok n) /\
               vw_cursor w' = 80 + n.
Proof.
  destruct (PropC07.C07_write_never_fails Ps Ps_BS_lo Ps_BS_hi Ps_crc (mkVecW 80 t1) x_t) as (w' & n & H).
  exists w', n. split; [exact H|].
  exact (proj1 (PropC07.C07_write_count Ps Ps_BS_lo Ps_BS_hi Ps_crc _ _ _ _ H)).
Qed.

(* wf_entry / wf_rec *)
Definition e_wf : entry := EAppend qa 7 [(7, ["x"]%byte); (9, []); (2 ^ 64 - 1, ["y"; "z"]%byte)].
Lemma e_wf_ok : wf_entry e_wf.
Proof.
  unfold e_wf, wf_entry. cbn [entry_queue entry_pos].
  split; [vm_compute; reflexivity|]. split; [vm_compute; reflexivity|].
  split; [vm_compute; reflexivity|].
  constructor; [split; vm_compute; reflexivity|].
  constructor; [split; vm_compute; reflexivity|].
  constructor; [split; vm_compute; reflexivity|constructor].
Qed.

Example C07_entry_codec_inst : entry_deser (entry_ser e_wf) = Some e_wf.
Proof. exact (PropC07.C07_entry_codec e_wf e_wf_ok). Qed.

Example C07_batch_codec_inst :
  let recs := [(7, ["x"]%byte); (9, []); (2 ^ 64 - 1, ["y"; "z"]%byte)] in
  multi_parse (multi_fuel (multi_ser recs)) (multi_ser recs) = Some recs.
Proof.
  apply PropC07.C07_batch_codec.
  constructor; [split; vm_compute; reflexivity|].
  constructor; [split; vm_compute; reflexivity|].
  constructor; [split; vm_compute; reflexivity|constructor].
Qed.

(* ====================================================================== *)
(* PropC08 / PropC12: the codec                                            *)
(* ====================================================================== *)
Example C08_entry_deser_sound_inst :
  exists extra, entry_ser (ETruncate qa 4) ++ ["j"; "k"]%byte = entry_ser (ETruncate qa 4) ++ extra.
Proof.
  destruct (PropC08.C08_entry_deser_sound (entry_ser (ETruncate qa 4) ++ ["j"; "k"]%byte)
              (ETruncate qa 4) ltac:(vm_compute; reflexivity)) as (extra & H & _).
  now exists extra.
Qed.

Example C08_append_deser_exact_inst : wf_entry e_wf.
Proof.
  exact (proj2 (PropC08.C08_append_deser_exact (entry_ser e_wf) qa 7 _ C07_entry_codec_inst)).
Qed.

Example C12_batch_decodes_whole_inst : wf_entry e_wf.
Proof.
  exact (proj2 (PropC12.C12_batch_decodes_whole (entry_ser e_wf) qa 7 _ C07_entry_codec_inst)).
Qed.

Example C12_multi_parse_sound_inst :
  Forall wf_rec [(7, ["x"]%byte); (9, []); (2 ^ 64 - 1, ["y"; "z"]%byte)].
Proof.
  exact (proj2 (PropC12.C12_multi_parse_sound _ _ _ C07_batch_codec_inst)).
Qed.

Example C12_append_entry_roundtrip_inst :
  entry_deser (entry_ser (EAppend qa 5 (number_from 5 [["x"]%byte; []; ["y"; "z"]%byte]))) =
  Some (EAppend qa 5 (number_from 5 [["x"]%byte; []; ["y"; "z"]%byte])).
Proof.
  apply PropC12.C12_append_entry_roundtrip.
  - vm_compute; reflexivity.
  - vm_compute; reflexivity.
  - vm_compute; intros H; discriminate H.
  - vm_compute; reflexivity.
  - constructor; [vm_compute; reflexivity|]. constructor; [vm_compute; reflexivity|].
    constructor; [vm_compute; reflexivity|constructor].
Qed.

(* ====================================================================== *)
(* PropC09 (stream level) / PropC08 / PropC12: CRC-detected damage          *)
(* ====================================================================== *)
(* C09_one_damaged_entry / C12_damaged_entry_dropped_whole: the premise is the run of the writer *)
Example C09_one_damaged_entry_inst :
  exists t1' ex0 k t2',
    vw_buf (fst (mem_write_all Ps (mkVecW 0 []) (es1 ++ [x_t] ++ es2))) = t1' ++ ex0 ++ t2' /\
    enc_rel Ps (lenN t1') true x_t ex0 k /\
    exists ed, enc_dmg Ps (lenN t1') true x_t ex0 ed k /\
      mem_read_stream Ps (mem_stream Ps (t1' ++ ed ++ t2')) =
      map MrEntry es1 ++ [MrCorrupt] ++ map MrEntry es2 ++ [MrEnd].
Proof.
  destruct (mem_write_all Ps (mkVecW 0 []) (es1 ++ [x_t] ++ es2)) as [w ns] eqn:Ew.
  destruct (PropC09.C09_one_damaged_entry Ps Ps_BS_lo Ps_BS_hi Ps_crc es1 x_t es2 w ns Ew)
    as (t1' & ex0 & k & t2' & Hb & Hr & Hall).
  (* C09_damage_exists: a damaged version exists *)
  destruct (PropC09.C09_damage_exists Ps Ps_BS_lo Ps_BS_hi Ps_crc _ _ _ _ _ Hr) as (ed & Hd).
  exists t1', ex0, k, t2'. cbn [fst]. split; [exact Hb|]. split; [exact Hr|].
  exists ed. split; [exact Hd|]. exact (proj2 (Hall ed Hd)).
Qed.

Example C12_damaged_entry_dropped_whole_inst :
  exists t1' ex0 k t2',
    vw_buf (fst (mem_write_all Ps (mkVecW 0 []) (es1 ++ [x_t] ++ es2))) = t1' ++ ex0 ++ t2' /\
    enc_rel Ps (lenN t1') true x_t ex0 k.
Proof.
  destruct (mem_write_all Ps (mkVecW 0 []) (es1 ++ [x_t] ++ es2)) as [w ns] eqn:Ew.
  destruct (PropC12.C12_damaged_entry_dropped_whole Ps Ps_BS_lo Ps_BS_hi Ps_crc es1 x_t es2 w ns Ew)
    as (t1' & ex0 & k & t2' & Hb & Hr & _).
  exists t1', ex0, k, t2'. auto.
Qed.

(* C09_general / C08_detected_damage_subsequence: encs_any with a REALLY damaged entry:
   es1 intact, x_t with one frame damaged (from C09_damage_exists), es2 intact *)
Lemma encs_any_damaged_exists :
  exists pxs t, encs_any Ps 0 pxs t /\ map fst pxs = es1 ++ [x_t] ++ es2 /\
                map (intact Ps) pxs = [true; true; false; true; true].
Proof.
  destruct (encs_rel_any Ps Ps_BS_lo Ps_BS_hi Ps_crc 0 es1 t1 t1_rel) as (pxs1 & Ha1 & Hm1 & Hi1).
  destruct ex_rel as [k Hk].
  destruct (PropC09.C09_damage_exists Ps Ps_BS_lo Ps_BS_hi Ps_crc _ _ _ _ _ Hk) as (ed & Hd).
  destruct (enc_dmg_any Ps Ps_BS_lo Ps_BS_hi Ps_crc _ _ _ _ _ _ Hd) as (xs & Hx & Hbad & _).
  pose proof (encs_of_rel Ps Ps_BS_lo Ps_BS_hi Ps_crc es2 (0 + lenN t1 + lenN ed)) as Hr2.
  destruct (encs_rel_any Ps Ps_BS_lo Ps_BS_hi Ps_crc _ es2 _ Hr2) as (pxs2 & Ha2 & Hm2 & Hi2).
  exists (pxs1 ++ (x_t, xs) :: pxs2), (t1 ++ ed ++ encs_of Ps (0 + lenN t1 + lenN ed) es2).
  split.
  - apply (encs_any_app Ps Ps_BS_lo Ps_BS_hi Ps_crc 0 pxs1 t1 Ha1).
    econstructor; [exact Hx|exact Ha2].
  - split; [rewrite map_app; cbn [map fst]; now rewrite Hm1, Hm2|].
    assert (L1 : length pxs1 = 2%nat) by (rewrite <- (map_length fst), Hm1; reflexivity).
    assert (L2 : length pxs2 = 2%nat) by (rewrite <- (map_length fst), Hm2; reflexivity).
    destruct pxs1 as [|a1 [|a2 [|]]]; try discriminate L1.
    destruct pxs2 as [|b1 [|b2 [|]]]; try discriminate L2.
    cbn [forallb] in Hi1, Hi2. apply andb_true_iff in Hi1 as [I1 I2]. apply andb_true_iff in I2 as [I2 _].
    apply andb_true_iff in Hi2 as [J1 J2]. apply andb_true_iff in J2 as [J2 _].
    cbn [app map]. rewrite I1, I2, J1, J2. unfold intact at 1. cbn [snd]. rewrite Hbad. reflexivity.
Qed.

Example C09_general_inst :
  exists pxs t,
    encs_any Ps 0 pxs t /\
    delivered (mem_read_stream Ps (mem_stream Ps t)) = es1 ++ es2.
Proof.
  destruct encs_any_damaged_exists as (pxs & t & Ha & Hm & Hi).
  destruct (PropC09.C09_general Ps Ps_BS_lo Ps_BS_hi Ps_crc pxs t Ha) as (t0 & _ & _ & Hout & Hdel & _).
  exists pxs, t. split; [exact Ha|]. rewrite Hdel.
  destruct pxs as [|p1 [|p2 [|p3 [|p4 [|p5 [|]]]]]]; try discriminate Hi.
  cbn [map] in Hi. injection Hi as I1 I2 I3 I4 I5. cbn [filter]. rewrite I1, I2, I3, I4, I5.
  cbn [map fst app] in *. injection Hm as -> -> _ -> ->. reflexivity.
Qed.

Example C08_detected_damage_subsequence_inst :
  exists pxs t,
    encs_any Ps 0 pxs t /\ map (intact Ps) pxs = [true; true; false; true; true] /\
    DamageProofs.sublist (delivered (mem_read_stream Ps (mem_stream Ps t))) (map fst pxs).
Proof.
  destruct encs_any_damaged_exists as (pxs & t & Ha & Hm & Hi).
  destruct (PropC08.C08_detected_damage_subsequence Ps Ps_BS_lo Ps_BS_hi Ps_crc pxs t Ha)
    as (t0 & _ & _ & _ & _ & Hsub & _).
  exists pxs, t. auto.
Qed.

(* C09_bad_crc_frame: a stream starting with one Full frame whose checksum field is wrong *)
Definition pl_bad : bytes := ["h"; "e"; "l"; "l"; "o"]%byte.
Definition c4_bad : bytes :=
  Eval vm_compute in le_enc 4 ((Crc.crc32 (n2b (ft_code Full)) pl_bad + 1) mod 2 ^ 32).
Definition S_bad : bytes := Eval vm_compute in dframe c4_bad Full pl_bad ++ zerosN 20.

Example C09_bad_crc_frame_inst :
  exists fr', read_frame Ps vecr (vr_next Ps) vr_block (rr_fr (rr_start Ps S_bad)) = (fr', FCorrupt) /\
              fr_corrupt fr' = false /\ at_pos Ps S_bad fr' (0 + lenN (pad_of Ps 0) + 7 + lenN pl_bad).
Proof.
  apply (PropC09.C09_bad_crc_frame Ps Ps_BS_lo Ps_BS_hi Ps_crc S_bad (rr_fr (rr_start Ps S_bad)) 0 []
           c4_bad Full pl_bad (zerosN 20)).
  - exists 2. vm_compute. reflexivity.
  - apply (rr_start_at Ps Ps_BS_lo Ps_BS_hi Ps_crc). vm_compute. intros H; discriminate H.
  - vm_compute. reflexivity.
  - reflexivity.
  - vm_compute. reflexivity.
  - vm_compute. intros H; discriminate H.
  - vm_compute. intros H; discriminate H.
Qed.
