(* EffectsProofs.v — property C17 at the level of effects: every call that reaches the OS names a
   file `wal-<20 digits>` (or is the directory listing / directory sync), the file system changes
   only at names that occur in the event trace, hence entries with a foreign name are left exactly
   as they were; only regular files whose name parses are listed as log data, in strictly
   increasing order of their number. *)
From Coq Require Import Lia ZArith ZifyN ZifyNat ZifyBool Sorted.
From MRL Require Import Bytes BytesProofs Params Names NamesProofs Frame Record Mem Rolling Log Hist.

Arguments N.add : simpl never.
Arguments N.sub : simpl never.
Arguments N.mul : simpl never.
Arguments N.eqb : simpl never.
Arguments N.ltb : simpl never.
Arguments N.leb : simpl never.
Arguments N.div : simpl never.
Arguments N.modulo : simpl never.

(* ================================================================ (1) definitions *)
(* the file an event names; None for the directory-level calls *)
Definition ev_name (e : event) : option bytes :=
  match e with
  | EvReadDir | EvSyncDir => None
  | EvCreate s | EvOpenRw s | EvSetLen s _ | EvWrite s _ _ | EvRead s _ _ _
  | EvFlush s | EvSyncData s | EvUnlink s => Some s
  end.

Definition wal_named (e : event) : Prop :=
  match ev_name e with Some s => exists n, s = filename n | None => True end.

(* a name that is not the name of any WAL file *)
Definition foreign (s : bytes) : Prop := forall n, s <> filename n.

Lemma wal_named_intro e n : ev_name e = Some (filename n) -> wal_named e.
Proof. intros H. unfold wal_named. rewrite H. now exists n. Qed.

Lemma wal_named_dir e : ev_name e = None -> wal_named e.
Proof. intros H. unfold wal_named. now rewrite H. Qed.

(* ================================================================ the file-system model *)
Lemma fs_get_put_other fs name e s :
  s <> name -> fs_get (fs_put fs name e) s = fs_get fs s.
Proof.
  intros Hne. induction fs as [|[n0 e0] r IH]; cbn [fs_put fs_get].
  - destruct (bytes_eqb name s) eqn:E; [|reflexivity].
    apply bytes_eqb_eq in E. congruence.
  - destruct (bytes_eqb n0 name) eqn:E1; cbn [fs_get].
    + apply bytes_eqb_eq in E1. subst n0.
      destruct (bytes_eqb name s) eqn:E2; [|reflexivity].
      apply bytes_eqb_eq in E2. congruence.
    + destruct (bytes_eqb n0 s); [reflexivity|exact IH].
Qed.

Lemma fs_get_remove_other fs name s :
  s <> name -> fs_get (fs_remove fs name) s = fs_get fs s.
Proof.
  intros Hne. induction fs as [|[n0 e0] r IH]; cbn [fs_remove fs_get]; [reflexivity|].
  destruct (bytes_eqb n0 name) eqn:E1; cbn [fs_get].
  - apply bytes_eqb_eq in E1. subst n0.
    destruct (bytes_eqb name s) eqn:E2; [|exact IH].
    apply bytes_eqb_eq in E2. congruence.
  - destruct (bytes_eqb n0 s); [reflexivity|exact IH].
Qed.

(* ================================================================ context extension *)
(* fs' differs from fs at most at the names occurring in evs *)
Definition touched_only (evs : list event) (fs fs' : fsT) : Prop :=
  forall s, (forall e, In e evs -> ev_name e <> Some s) -> fs_get fs' s = fs_get fs s.

(* c' is c after some more calls: the trace grew by events that all name WAL files, and the file
   system changed only at names occurring in those new events *)
Definition cext (c c' : ioctx) : Prop :=
  exists evs, c_ev c' = evs ++ c_ev c /\ Forall wal_named evs /\ touched_only evs (c_fs c) (c_fs c').

Lemma cext_refl c : cext c c.
Proof. exists []. split; [reflexivity|]. split; [constructor|]. intros s _. reflexivity. Qed.

Lemma cext_trans c1 c2 c3 : cext c1 c2 -> cext c2 c3 -> cext c1 c3.
Proof.
  intros [ev1 [E1 [F1 T1]]] [ev2 [E2 [F2 T2]]]. exists (ev2 ++ ev1).
  split; [rewrite E2, E1; apply app_assoc|]. split; [apply Forall_app; now split|].
  intros s Hs. rewrite T2, T1; [reflexivity| |]; intros e He; apply Hs, in_or_app; tauto.
Qed.

Lemma cext_same c c' : c_ev c' = c_ev c -> c_fs c' = c_fs c -> cext c c'.
Proof.
  intros He Hf. exists []. split; [exact He|]. split; [constructor|]. intros s _. now rewrite Hf.
Qed.

Lemma cext_ev c e : wal_named e -> cext c (ctx_ev c e).
Proof.
  intros Hw. exists [e]. split; [reflexivity|]. split; [now constructor|]. intros s _. reflexivity.
Qed.

Lemma cext_put c n fe e :
  ev_name e = Some (filename n) ->
  cext c (ctx_ev (ctx_fs c (fs_put (c_fs c) (filename n) fe)) e).
Proof.
  intros Hn. exists [e]. split; [reflexivity|]. split.
  - constructor; [eapply wal_named_intro; eassumption|constructor].
  - intros s Hs. cbn [ctx_ev ctx_fs c_fs]. apply fs_get_put_other.
    intros ->. apply (Hs e); [now left|exact Hn].
Qed.

Lemma cext_rm c n e :
  ev_name e = Some (filename n) ->
  cext c (ctx_ev (ctx_fs c (fs_remove (c_fs c) (filename n))) e).
Proof.
  intros Hn. exists [e]. split; [reflexivity|]. split.
  - constructor; [eapply wal_named_intro; eassumption|constructor].
  - intros s Hs. cbn [ctx_ev ctx_fs c_fs]. apply fs_get_remove_other.
    intros ->. apply (Hs e); [now left|exact Hn].
Qed.

(* the two consequences used in the final statements *)
Lemma cext_events c c' : cext c c' -> Forall wal_named (c_ev c) -> Forall wal_named (c_ev c').
Proof. intros [evs [E [F _]]] H. rewrite E. apply Forall_app. now split. Qed.

Lemma cext_foreign c c' s : cext c c' -> foreign s -> fs_get (c_fs c') s = fs_get (c_fs c) s.
Proof.
  intros [evs [_ [F T]]] Hs. apply T. intros e He Hn.
  rewrite Forall_forall in F. specialize (F e He). unfold wal_named in F. rewrite Hn in F.
  destruct F as [n F]. exact (Hs n F).
Qed.

(* ================================================================ Rolling.v, calls on the context *)
Section Effects.
Variable P : params.

Lemma fault_point_cext c s : cext c (fst (fault_point c s)).
Proof.
  apply cext_same; unfold fault_point; destruct (c_plan c) as [p|]; destruct s; cbn [fst];
    try match goal with |- context [if ?b then _ else _] => destruct b end; reflexivity.
Qed.

Lemma create_file_cext c n : cext c (fst (create_file P c n)).
Proof.
  unfold create_file. destruct (fs_get (c_fs c) (filename n)); cbn [fst]; [apply cext_refl|].
  eapply cext_trans; [|apply cext_put; reflexivity]. apply cext_put; reflexivity.
Qed.

Lemma open_file_cext c n : cext c (fst (open_file c n)).
Proof.
  unfold open_file. pose proof (fault_point_cext c SOpen) as Hf.
  destruct (fault_point c SOpen) as [c1 [e|]]; cbn [fst] in *; [exact Hf|].
  destruct (fs_get (c_fs c1) (filename n)) as [[b| |]|]; cbn [fst]; try exact Hf.
  eapply cext_trans; [exact Hf|]. apply cext_ev. now apply (wal_named_intro _ n).
Qed.

Lemma read_block_cext c n pos : cext c (fst (fst (read_block P c n pos))).
Proof.
  unfold read_block. pose proof (fault_point_cext c SRead) as Hf.
  destruct (fault_point c SRead) as [c1 [e|]]; cbn [fst] in *.
  - eapply cext_trans; [exact Hf|]. apply cext_ev. now apply (wal_named_intro _ n).
  - destruct (pos + BS P <=? lenN (file_content c1 n)); cbn [fst];
      (eapply cext_trans; [exact Hf|]; apply cext_ev; now apply (wal_named_intro _ n)).
Qed.

Lemma next_file_loop_cext cands : forall c rd,
  cext c (rd_ctx (fst (next_file_loop P c cands rd))).
Proof.
  induction cands as [|n rest IH]; intros c rd; cbn [next_file_loop].
  - cbn [fst rd_ctx]. apply cext_refl.
  - pose proof (open_file_cext c n) as Ho.
    destruct (open_file c n) as [c1 [[]|e]]; cbn [fst] in *; [|exact Ho].
    pose proof (read_block_cext c1 n 0) as Hr.
    destruct (read_block P c1 n 0) as [[c2 pos'] [[blk|]|e]]; cbn [fst rd_ctx] in *.
    + eapply cext_trans; eassumption.
    + eapply cext_trans; [eapply cext_trans; eassumption|apply IH].
    + eapply cext_trans; eassumption.
Qed.

Lemma rd_next_cext rd : cext (rd_ctx rd) (rd_ctx (fst (rd_next P rd))).
Proof.
  unfold rd_next. pose proof (read_block_cext (rd_ctx rd) (rd_file rd) (rd_pos rd)) as Hr.
  destruct (read_block P (rd_ctx rd) (rd_file rd) (rd_pos rd)) as [[c1 pos'] [[blk|]|e]];
    cbn [fst rd_ctx] in *; try exact Hr.
  eapply cext_trans; [exact Hr|apply next_file_loop_cext].
Qed.

Lemma ensure_last_full_cext c files : cext c (fst (ensure_last_full P c files)).
Proof.
  unfold ensure_last_full. destruct (last_opt files) as [n|]; [|apply cext_refl].
  destruct (lenN (file_content c n) <? FILE_BYTES P); [|apply cext_refl].
  pose proof (open_file_cext c n) as Ho.
  destruct (open_file c n) as [c1 [[]|e]]; cbn [fst] in *; [|exact Ho].
  eapply cext_trans; [exact Ho|]. apply cext_put. reflexivity.
Qed.

Lemma rd_open_cext c0 :
  cext c0 (fst (rd_open P c0)) /\
  (forall rd, snd (rd_open P c0) = Ok rd -> rd_ctx rd = fst (rd_open P c0)).
Proof.
  unfold rd_open.
  assert (H0 : cext c0 (ctx_ev c0 EvReadDir)) by (apply cext_ev; now apply wal_named_dir).
  pose proof (fault_point_cext (ctx_ev c0 EvReadDir) SReadDir) as Hf.
  destruct (fault_point (ctx_ev c0 EvReadDir) SReadDir) as [c1 [e|]]; cbn [fst snd] in *.
  { split; [eapply cext_trans; eassumption|discriminate]. }
  assert (H1 : cext c0 c1) by (eapply cext_trans; eassumption). clear H0 Hf.
  assert (Tail : forall c2 files, cext c0 c2 ->
    let r := match (if L_SHORT P then (c2, Ok tt) else ensure_last_full P c2 files) with
             | (c2', Err e) => (c2', Err e)
             | (c2, Ok _) =>
               let first := match files with f :: _ => f | [] => 0 end in
               match open_file c2 first with
               | (c3, Err e) => (c3, Err e)
               | (c3, Ok _) =>
                   match read_block P c3 first 0 with
                   | (c4, _, Err e) => (c4, Err e)
                   | (c4, _, Ok None) => (c4, Err IoUnexpectedEof)
                   | (c4, pos', Ok (Some blk)) => (c4, Ok (mkRd c4 files first 0 pos' blk))
                   end
               end
             end in
    cext c0 (fst r) /\ (forall rd, snd r = Ok rd -> rd_ctx rd = fst r)).
  { intros c2 files H2.
    assert (H3 : cext c0 (fst (if L_SHORT P then (c2, Ok tt) else ensure_last_full P c2 files))).
    { destruct (L_SHORT P); [exact H2|]. eapply cext_trans; [exact H2|apply ensure_last_full_cext]. }
    destruct (if L_SHORT P then (c2, Ok tt) else ensure_last_full P c2 files) as [c2' [[]|e]];
      cbn [fst snd] in *; [|split; [exact H3|discriminate]].
    set (first := match files with f :: _ => f | [] => 0 end).
    pose proof (open_file_cext c2' first) as Ho.
    destruct (open_file c2' first) as [c3 [[]|e]]; cbn [fst snd] in *;
      [|split; [eapply cext_trans; eassumption|discriminate]].
    pose proof (read_block_cext c3 first 0) as Hr.
    assert (H4 : cext c0 c3) by (eapply cext_trans; eassumption).
    destruct (read_block P c3 first 0) as [[c4 pos'] [[blk|]|e]]; cbn [fst snd] in *;
      (split; [eapply cext_trans; eassumption|]); try discriminate.
    intros rd Hrd. inversion Hrd; subst. reflexivity. }
  destruct (list_wal_numbers (c_fs c1)) as [|x l].
  - pose proof (create_file_cext c1 0) as Hc.
    destruct (create_file P c1 0) as [c' [[]|e]]; cbn [fst] in *.
    + apply Tail. eapply cext_trans; eassumption.
    + cbn [fst snd]. split; [eapply cext_trans; eassumption|discriminate].
  - apply Tail. exact H1.
Qed.

(* ---------- the writer *)
Lemma os_write_cext c n off data : cext c (os_write c n off data).
Proof. unfold os_write. apply cext_put. reflexivity. Qed.

Lemma flush_buf_cext w : cext (w_ctx w) (w_ctx (flush_buf w)).
Proof.
  unfold flush_buf. destruct (w_pending w) as [|b r]; [apply cext_refl|].
  cbn [w_ctx]. apply os_write_cext.
Qed.

Lemma bw_flush_cext w : cext (w_ctx w) (w_ctx (bw_flush w)).
Proof.
  unfold bw_flush, wr_ctx. cbn [w_ctx]. eapply cext_trans; [apply flush_buf_cext|].
  apply cext_ev. now apply (wal_named_intro _ (w_file (flush_buf w))).
Qed.

Lemma sync_data_cext w : cext (w_ctx w) (w_ctx (sync_data w)).
Proof.
  unfold sync_data, wr_ctx. cbn [w_ctx]. apply cext_ev. now apply (wal_named_intro _ (w_file w)).
Qed.

Lemma sync_dir_cext w : cext (w_ctx w) (w_ctx (sync_dir w)).
Proof. unfold sync_dir, wr_ctx. cbn [w_ctx]. apply cext_ev. now apply wal_named_dir. Qed.

Lemma roll_sync_cext w : cext (w_ctx w) (w_ctx (sync_dir (sync_data (bw_flush w)))).
Proof.
  eapply cext_trans; [apply bw_flush_cext|]. eapply cext_trans; [apply sync_data_cext|].
  apply sync_dir_cext.
Qed.

Lemma wr_persist_cext w a : cext (w_ctx w) (w_ctx (wr_persist w a)).
Proof. unfold wr_persist. destruct a; [apply roll_sync_cext|apply bw_flush_cext]. Qed.

Lemma bw_write_all_cext w d : cext (w_ctx w) (w_ctx (bw_write_all P w d)).
Proof.
  unfold bw_write_all, bw_write_all0. cbn [w_ctx].
  destruct (lenN d <? BS P - lenN (w_pending w)); [cbn [w_ctx]; apply cext_refl|].
  set (w1 := if BS P - lenN (w_pending w) <? lenN d then flush_buf w else w).
  assert (Hw1 : cext (w_ctx w) (w_ctx w1)).
  { unfold w1. destruct (_ <? _); [apply flush_buf_cext|apply cext_refl]. }
  destruct (BS P <=? lenN d); cbn [w_ctx]; [|exact Hw1].
  eapply cext_trans; [exact Hw1|apply os_write_cext].
Qed.

Lemma wr_write_cext w d : cext (w_ctx w) (w_ctx (fst (wr_write P w d))).
Proof.
  unfold wr_write. destruct d as [|b d'] eqn:Ed; [apply cext_refl|]. rewrite <- Ed. clear Ed.
  destruct (FILE_BYTES P <? w_off w + lenN d); [|cbn [fst]; apply bw_write_all_cext].
  pose proof (roll_sync_cext w) as H1.
  set (w1 := sync_dir (sync_data (bw_flush w))) in *.
  destruct (tracker_next (w_files w1) (w_file w1)) as [nxt|].
  - pose proof (open_file_cext (w_ctx w1) nxt) as Ho.
    destruct (open_file (w_ctx w1) nxt) as [c [[]|e]]; cbn [fst] in *.
    + eapply cext_trans; [exact H1|]. eapply cext_trans; [exact Ho|].
      apply (bw_write_all_cext (mkWr c (w_files w1) nxt 0 []) d).
    + unfold wr_ctx. cbn [w_ctx]. eapply cext_trans; eassumption.
  - pose proof (create_file_cext (w_ctx w1) (w_file w1 + 1)) as Hc.
    destruct (create_file P (w_ctx w1) (w_file w1 + 1)) as [c [[]|e]]; cbn [fst] in *.
    + eapply cext_trans; [exact H1|]. eapply cext_trans; [exact Hc|].
      apply (bw_write_all_cext (mkWr c (insert_sorted (w_file w1 + 1) (w_files w1)) (w_file w1 + 1) 0 []) d).
    + cbn [w_ctx]. eapply cext_trans; eassumption.
Qed.

Lemma gc_loop_cext files : forall c refd, cext c (fst (fst (gc_loop c files refd))).
Proof.
  induction files as [|f rest IH]; intros c refd; cbn [gc_loop]; [apply cext_refl|].
  destruct rest as [|g rest']; [apply cext_refl|].
  destruct (refd f); [apply cext_refl|].
  destruct (fs_get (c_fs c) (filename f)) as [[b| |]|]; cbn [fst]; try apply cext_refl;
    (eapply cext_trans; [|apply IH]; apply cext_rm; reflexivity).
Qed.

End Effects.

(* ================================================================ Frame.v, generic invariants *)
(* if every call of the block writer preserves I (whatever its result), so does write_record *)
Section GenericWriterInv.
Variable P : params.
Variable W : Type.
Variable wwrite : W -> bytes -> W * res unit.
Variable wrem : W -> N.
Variable I : W -> Prop.
Hypothesis wwrite_inv : forall w d, I w -> I (fst (wwrite w d)).

Lemma write_frame_inv w t p : I w -> I (fst (write_frame P W wwrite wrem w t p)).
Proof.
  intros Hw. unfold write_frame.
  destruct (wrem w <? HEADER_LEN).
  - pose proof (wwrite_inv w (zerosN (wrem w)) Hw) as H1.
    destruct (wwrite w (zerosN (wrem w))) as [w1 [[]|e]]; cbn [fst] in *; [|exact H1].
    pose proof (wwrite_inv w1 (frame_bytes P t p) H1) as H2.
    destruct (wwrite w1 (frame_bytes P t p)) as [w2 [[]|e]]; cbn [fst] in *; exact H2.
  - pose proof (wwrite_inv w (frame_bytes P t p) Hw) as H2.
    destruct (wwrite w (frame_bytes P t p)) as [w2 [[]|e]]; cbn [fst] in *; exact H2.
Qed.

Lemma write_record_loop_inv fuel : forall w isf payload acc,
  I w -> I (fst (write_record_loop P W wwrite wrem fuel w isf payload acc)).
Proof.
  induction fuel as [|fuel IH]; intros w isf payload acc Hw; cbn [write_record_loop]; [exact Hw|].
  match goal with |- context [write_frame P W wwrite wrem w ?t ?p] =>
    pose proof (write_frame_inv w t p Hw) as Hf;
    destruct (write_frame P W wwrite wrem w t p) as [w1 [k|e]] end; cbn [fst] in *; [|exact Hf].
  destruct (isnil (dropN _ payload)); cbn [fst]; [exact Hf|]. now apply IH.
Qed.

Theorem write_record_inv w payload :
  I w -> I (fst (write_record P W wwrite wrem w payload)).
Proof. unfold write_record. apply write_record_loop_inv. Qed.
End GenericWriterInv.

(* if every next_block preserves I (whatever its result), so do read_frame and go_next *)
Section GenericReaderInv.
Variable P : params.
Variable R : Type.
Variable rnext : R -> R * res bool.
Variable rblock : R -> bytes.
Variable I : R -> Prop.
Hypothesis rnext_inv : forall r, I r -> I (fst (rnext r)).

Lemma read_frame_inv fr :
  I (fr_rd fr) -> I (fr_rd (fst (read_frame P R rnext rblock fr))).
Proof.
  intros Hr. unfold read_frame.
  set (step1 := if fr_corrupt fr || (BS P - fr_cursor fr <? HEADER_LEN)
                then match rnext (fr_rd fr) with
                     | (r', Err e) => (mkFR r' (fr_cursor fr) (fr_corrupt fr), Some (FIo e))
                     | (r', Ok false) => (mkFR r' (fr_cursor fr) (fr_corrupt fr), Some FNotAvail)
                     | (r', Ok true) => (mkFR r' 0 false, None)
                     end
                else (fr, None)).
  assert (H1 : I (fr_rd (fst step1))).
  { unfold step1. destruct (_ || _); [|exact Hr].
    pose proof (rnext_inv _ Hr) as Hn.
    destruct (rnext (fr_rd fr)) as [r' [[|]|e]]; cbn [fst fr_rd] in *; exact Hn. }
  destruct step1 as [fr1 [e|]]; cbn [fst] in *; [exact H1|].
  destruct (all_zero _); cbn [fst]; [exact H1|].
  destruct (ft_of_code _) as [t|]; cbn [fst fr_rd]; [|exact H1].
  destruct (BS P <? _); cbn [fst fr_rd]; [exact H1|].
  destruct (_ =? _); cbn [fst fr_rd]; exact H1.
Qed.

Lemma go_next_inv fuel : forall rr,
  I (fr_rd (rr_fr rr)) -> I (fr_rd (rr_fr (fst (go_next P R rnext rblock fuel rr)))).
Proof.
  induction fuel as [|fuel IH]; intros rr Hr; cbn [go_next]; [exact Hr|].
  pose proof (read_frame_inv (rr_fr rr) Hr) as Hf.
  destruct (read_frame P R rnext rblock (rr_fr rr)) as [fr' [t payload|e| |]];
    cbn [fst rr_fr] in *; try exact Hf.
  destruct (if is_first_frame t then true else rr_within rr).
  - destruct (is_last_frame t); cbn [fst rr_fr]; [exact Hf|]. apply IH. exact Hf.
  - apply IH. exact Hf.
Qed.
End GenericReaderInv.

(* ================================================================ Log.v *)
Section EffectsLog.
Variable P : params.

(* the context of the state after a call extends the one before *)
Definition sext (st st' : state) : Prop := cext (w_ctx (s_wr st)) (w_ctx (s_wr st')).

Lemma sext_refl st : sext st st.
Proof. apply cext_refl. Qed.

Lemma sext_trans a b c : sext a b -> sext b c -> sext a c.
Proof. apply cext_trans. Qed.

Lemma write_entry_sext st e : sext st (fst (write_entry P st e)).
Proof.
  unfold write_entry, sext.
  pose proof (write_record_inv P rwriter (wr_write P) (wr_rem P)
                (fun w => cext (w_ctx (s_wr st)) (w_ctx w))) as H.
  specialize (H (fun w d Hw => cext_trans _ _ _ Hw (wr_write_cext P w d))).
  specialize (H (s_wr st) (entry_ser e) (cext_refl _)).
  destruct (write_record P rwriter (wr_write P) (wr_rem P) (s_wr st) (entry_ser e)) as [w r].
  cbn [fst set_wr s_wr] in *. exact H.
Qed.

Lemma persist_sext st a : sext st (persist st a).
Proof. unfold persist, sext. cbn [set_wr s_wr]. apply wr_persist_cext. Qed.

Lemma persist_on_policy_sext st tick : sext st (persist_on_policy st tick).
Proof.
  unfold persist_on_policy. destruct (s_pol st) as [|a|a]; [apply sext_refl| |apply persist_sext].
  destruct tick; [apply persist_sext|apply sext_refl].
Qed.

Lemma record_positions_sext names : forall st acc, sext st (fst (record_positions P st names acc)).
Proof.
  induction names as [|nm r IH]; intros st acc; cbn [record_positions]; [apply sext_refl|].
  destruct (qs_get (s_qs st) nm) as [q|]; [|apply IH].
  pose proof (write_entry_sext st (EPosition nm (next_position q))) as H.
  destruct (write_entry P st (EPosition nm (next_position q))) as [st1 [k|e]]; cbn [fst] in *;
    [|exact H].
  eapply sext_trans; [exact H|apply IH].
Qed.

Lemma record_empty_queues_position_sext st hint :
  sext st (fst (record_empty_queues_position P st hint)).
Proof.
  unfold record_empty_queues_position.
  pose proof (record_positions_sext (pick_order hint (empty_names (s_qs st))) st 0) as H.
  destruct (record_positions P st _ 0) as [st1 [n|e]]; cbn [fst] in *; [|exact H].
  destruct (L_GC P && (n =? 0)); cbn [fst]; [exact H|].
  eapply sext_trans; [exact H|apply persist_sext].
Qed.

Lemma run_gc_sext st hint : sext st (fst (run_gc_if_necessary P st hint)).
Proof.
  unfold run_gc_if_necessary. destruct (has_deletable st); [|apply sext_refl].
  pose proof (record_empty_queues_position_sext st hint) as H.
  destruct (record_empty_queues_position P st hint) as [st1 [n|e]]; cbn [fst] in *; [|exact H].
  cbv zeta.
  pose proof (gc_loop_cext (w_files (s_wr st1)) (w_ctx (s_wr st1))
                (referenced st1 (w_file (s_wr st)))) as G.
  destruct (gc_loop (w_ctx (s_wr st1)) (w_files (s_wr st1)) (referenced st1 (w_file (s_wr st))))
    as [[c files] [[]|e]]; cbn [fst] in *; unfold sext in *; cbn [set_wr s_wr w_ctx];
    eapply cext_trans; eassumption.
Qed.

Lemma create_queue_sext st q : sext st (fst (create_queue P st q)).
Proof.
  unfold create_queue. destruct (qs_contains (s_qs st) q); [apply sext_refl|].
  pose proof (write_entry_sext st (EPosition q 0)) as H.
  destruct (write_entry P st (EPosition q 0)) as [st1 [k|e]]; cbn [fst] in *; [|exact H].
  unfold sext in *. cbn [set_qs s_wr]. eapply cext_trans; [exact H|apply persist_sext].
Qed.

Lemma delete_queue_sext st q hint : sext st (fst (delete_queue P st q hint)).
Proof.
  unfold delete_queue. destruct (qs_get (s_qs st) q) as [m|]; [|apply sext_refl].
  pose proof (write_entry_sext st (EDelete q (next_position m))) as H.
  destruct (write_entry P st (EDelete q (next_position m))) as [st1 [k|e]]; cbn [fst] in *;
    [|exact H].
  pose proof (run_gc_sext (set_qs st1 (qs_remove (s_qs st1) q)) hint) as G.
  destruct (run_gc_if_necessary P (set_qs st1 (qs_remove (s_qs st1) q)) hint) as [st3 [k2|e]];
    cbn [fst] in *; unfold sext in *; cbn [set_qs s_wr] in G.
  - eapply cext_trans; [exact H|]. eapply cext_trans; [exact G|apply persist_sext].
  - eapply cext_trans; eassumption.
Qed.

Lemma append_records_sext st q pos payloads tick :
  sext st (fst (append_records P st q pos payloads tick)).
Proof.
  unfold append_records. destruct (qs_get (s_qs st) q) as [m|]; [|apply sext_refl].
  destruct (match pos with Some p => _ | None => None end) as [early|]; [apply sext_refl|].
  destruct (number_from _ payloads) as [|r0 rs]; [apply sext_refl|].
  match goal with |- context [write_entry P st ?e] =>
    pose proof (write_entry_sext st e) as H;
    destruct (write_entry P st e) as [st1 [k|err]] end; cbn [fst] in *; [|exact H].
  destruct (append_all m _ _) as [m'|]; cbn [fst]; unfold sext in *; cbn [set_qs s_wr];
    (eapply cext_trans; [exact H|apply persist_on_policy_sext]).
Qed.

Lemma truncate_sext st q p hint tick : sext st (fst (truncate P st q p hint tick)).
Proof.
  unfold truncate. destruct (qs_get (s_qs st) q) as [m|]; [|apply sext_refl].
  pose proof (write_entry_sext st (ETruncate q p)) as H.
  destruct (write_entry P st (ETruncate q p)) as [st1 [k|e]]; cbn [fst] in *; [|exact H].
  destruct (truncate_head m p) as [m' ev].
  pose proof (run_gc_sext (set_qs st1 (qs_put (s_qs st1) q m')) hint) as G.
  destruct (run_gc_if_necessary P (set_qs st1 (qs_put (s_qs st1) q m')) hint) as [st3 [k2|e]];
    cbn [fst] in *; unfold sext in *; cbn [set_qs s_wr] in G.
  - eapply cext_trans; [exact H|]. eapply cext_trans; [exact G|apply persist_on_policy_sext].
  - eapply cext_trans; eassumption.
Qed.

(* every API call extends the context *)
Theorem step_cext st o tick :
  cext (w_ctx (s_wr st)) (w_ctx (s_wr (fst (step P st o tick)))).
Proof.
  destruct o as [q|q hint|q pos payloads|q p hint|a]; cbn [step].
  - apply create_queue_sext.
  - apply delete_queue_sext.
  - apply append_records_sext.
  - apply truncate_sext.
  - cbn [fst]. apply persist_sext.
Qed.

Theorem drop_cext st : cext (w_ctx (s_wr st)) (drop_log st).
Proof. unfold drop_log. apply flush_buf_cext. Qed.

(* ---------- (1) *)
Theorem step_events_wal_named : forall st o tick,
  Forall wal_named (c_ev (w_ctx (s_wr st))) ->
  Forall wal_named (c_ev (w_ctx (s_wr (fst (step P st o tick))))).
Proof. intros st o tick. apply cext_events, step_cext. Qed.

Theorem drop_events_wal_named : forall st,
  Forall wal_named (c_ev (w_ctx (s_wr st))) -> Forall wal_named (c_ev (drop_log st)).
Proof. intros st. apply cext_events, drop_cext. Qed.

(* ---------- (2) *)
Theorem step_foreign_untouched : forall st o tick s,
  (forall n, s <> filename n) ->
  fs_get (c_fs (w_ctx (s_wr (fst (step P st o tick))))) s = fs_get (c_fs (w_ctx (s_wr st))) s.
Proof. intros st o tick s Hs. apply cext_foreign; [apply step_cext|exact Hs]. Qed.

Theorem drop_foreign_untouched : forall st s,
  (forall n, s <> filename n) ->
  fs_get (c_fs (drop_log st)) s = fs_get (c_fs (w_ctx (s_wr st))) s.
Proof. intros st s Hs. apply cext_foreign; [apply drop_cext|exact Hs]. Qed.

(* ---------- open *)
Lemma replay_loop_cext c0 fuel gofuel : forall rr qs,
  cext c0 (reader_ctx rr) -> cext c0 (reader_ctx (fst (replay_loop P fuel gofuel rr qs))).
Proof.
  induction fuel as [|fuel IH]; intros rr qs Hr; cbn [replay_loop]; [exact Hr|].
  pose proof (go_next_inv P rreaderS (rd_next P) rd_block (fun r => cext c0 (rd_ctx r))
                (fun r Hx => cext_trans _ _ _ Hx (rd_next_cext P r)) gofuel rr Hr) as Hg.
  destruct (go_next P rreaderS (rd_next P) rd_block gofuel rr) as [rr' [| | |e|]];
    cbn [fst] in Hg; fold (reader_ctx rr') in Hg.
  - destruct (entry_deser (rr_buf rr')) as [e|]; [|now apply IH].
    destruct (apply_entry qs _ e) as [qs'|]; [now apply IH|exact Hg].
  - exact Hg.
  - now apply IH.
  - destruct (L_IO P); [now apply IH|exact Hg].
  - exact Hg.
Qed.

Definition open_ctx (r : open_result) : ioctx :=
  match r with
  | OpenOk st => w_ctx (s_wr st)
  | OpenIo _ c | OpenCorruption c | OpenFuel c => c
  end.

Lemma open_with_cext fuel fs plan pol hint :
  cext (ctx_init fs plan) (open_ctx (open_with P fuel fs plan pol hint)).
Proof.
  unfold open_with. destruct (rd_open_cext P (ctx_init fs plan)) as [H1 H2].
  destruct (rd_open P (ctx_init fs plan)) as [c [rd|e]]; cbn [fst snd open_ctx] in *; [|exact H1].
  specialize (H2 rd eq_refl).
  assert (H0 : cext (ctx_init fs plan) (reader_ctx (rr_open rreaderS rd))).
  { unfold reader_ctx, rr_open, fr_open. cbn [rr_fr fr_rd]. rewrite H2. exact H1. }
  pose proof (replay_loop_cext (ctx_init fs plan) fuel fuel (rr_open rreaderS rd) [] H0) as Hr.
  destruct (replay_loop P fuel fuel (rr_open rreaderS rd) []) as [rr [qs| |e|]];
    cbn [fst open_ctx] in *; try exact Hr.
  cbv zeta.
  match goal with |- context [run_gc_if_necessary P ?st0 hint] =>
    pose proof (run_gc_sext st0 hint) as G;
    destruct (run_gc_if_necessary P st0 hint) as [st1 [k|e]] end;
    cbn [fst open_ctx] in *; unfold sext in G; cbn [s_wr rd_into_writer w_ctx] in G;
    (eapply cext_trans; [exact Hr|exact G]).
Qed.

Theorem open_cext fs plan pol hint :
  cext (ctx_init fs plan) (open_ctx (open P fs plan pol hint)).
Proof. unfold open. apply open_with_cext. Qed.

Theorem open_events_wal_named : forall fs plan pol hint,
  Forall wal_named (c_ev (open_ctx (open P fs plan pol hint))).
Proof.
  intros fs plan pol hint. apply (cext_events _ _ (open_cext fs plan pol hint)). constructor.
Qed.

Theorem open_foreign_untouched : forall fs plan pol hint s,
  (forall n, s <> filename n) ->
  fs_get (c_fs (open_ctx (open P fs plan pol hint))) s = fs_get fs s.
Proof.
  intros fs plan pol hint s Hs.
  apply (cext_foreign _ _ s (open_cext fs plan pol hint) Hs).
Qed.
End EffectsLog.

(* the same, spelled out per result constructor of `open` *)
Corollary open_effects_cases P fs plan pol hint s :
  (forall n, s <> filename n) ->
  match open P fs plan pol hint with
  | OpenOk st => Forall wal_named (c_ev (w_ctx (s_wr st))) /\
                 fs_get (c_fs (w_ctx (s_wr st))) s = fs_get fs s
  | OpenIo _ c | OpenCorruption c | OpenFuel c =>
      Forall wal_named (c_ev c) /\ fs_get (c_fs c) s = fs_get fs s
  end.
Proof.
  intros Hs. pose proof (open_events_wal_named P fs plan pol hint) as H1.
  pose proof (open_foreign_untouched P fs plan pol hint s Hs) as H2.
  destruct (open P fs plan pol hint); cbn [open_ctx] in *; now split.
Qed.

(* whole histories *)
Theorem run_cext P : forall h st,
  cext (w_ctx (s_wr st)) (w_ctx (s_wr (fst (run P st h)))).
Proof.
  induction h as [|[o tick] h IH]; intros st; cbn [run]; [apply cext_refl|].
  pose proof (step_cext P st o tick) as Hs. destruct (step P st o tick) as [st1 out].
  cbn [fst] in Hs. specialize (IH st1). destruct (run P st1 h) as [st2 outs].
  cbn [fst] in *. eapply cext_trans; eassumption.
Qed.

Corollary run_events_wal_named P h st :
  Forall wal_named (c_ev (w_ctx (s_wr st))) ->
  Forall wal_named (c_ev (w_ctx (s_wr (fst (run P st h))))).
Proof. apply cext_events, run_cext. Qed.

Corollary run_foreign_untouched P h st s :
  (forall n, s <> filename n) ->
  fs_get (c_fs (w_ctx (s_wr (fst (run P st h))))) s = fs_get (c_fs (w_ctx (s_wr st))) s.
Proof. intros Hs. apply cext_foreign; [apply run_cext|exact Hs]. Qed.

(* ================================================================ (3) the directory listing *)
Lemma In_insert_sorted x n l : In x (insert_sorted n l) <-> x = n \/ In x l.
Proof.
  induction l as [|y r IH]; cbn [insert_sorted].
  - cbn [In]. intuition.
  - destruct (N.ltb_spec n y) as [Hlt|Hge].
    + cbn [In]. intuition.
    + destruct (N.eqb_spec n y) as [->|Hne]; cbn [In]; [intuition|].
      rewrite IH. intuition.
Qed.

Section Listing.

(* every listed number comes from an entry of fs that is a regular file whose name parses to it *)
Theorem list_wal_numbers_sound : forall fs n,
  In n (list_wal_numbers fs) ->
  exists s b, In (s, FFile b) fs /\ filename_to_position s = Some n.
Proof.
  induction fs as [|[s e] r IH]; intros n; cbn [list_wal_numbers fold_right]; [intros []|].
  fold (list_wal_numbers r). intros Hin.
  assert (Hr : In n (list_wal_numbers r) -> exists s0 b, In (s0, FFile b) ((s, e) :: r) /\
                                                       filename_to_position s0 = Some n).
  { intros H. destruct (IH n H) as [s0 [b [H1 H2]]]. exists s0, b. split; [now right|exact H2]. }
  destruct e as [b| |]; try (now apply Hr).
  destruct (filename_to_position s) as [m|] eqn:Ep; [|now apply Hr].
  apply In_insert_sorted in Hin. destruct Hin as [->|Hin]; [|now apply Hr].
  exists s, b. split; [now left|exact Ep].
Qed.

(* with the parser's exactness: the entry is named exactly filename n, and n is a u64 *)
Corollary list_wal_numbers_sound_exact : forall fs n,
  In n (list_wal_numbers fs) ->
  n <= U64_MAX /\ exists b, In (filename n, FFile b) fs.
Proof.
  intros fs n Hin. destruct (list_wal_numbers_sound fs n Hin) as [s [b [H1 H2]]].
  apply parse_exact in H2. destruct H2 as [-> Hn]. split; [exact Hn|]. now exists b.
Qed.

(* conversely every regular file whose name parses is listed *)
Theorem list_wal_numbers_complete : forall fs s b n,
  In (s, FFile b) fs -> filename_to_position s = Some n -> In n (list_wal_numbers fs).
Proof.
  induction fs as [|[s0 e0] r IH]; intros s b n; [intros []|].
  cbn [list_wal_numbers fold_right]. fold (list_wal_numbers r). intros [Heq|Hin] Hp.
  - inversion Heq; subst. rewrite Hp. apply In_insert_sorted. now left.
  - specialize (IH s b n Hin Hp).
    destruct e0 as [b0| |]; try exact IH.
    destruct (filename_to_position s0) as [m|]; [|exact IH].
    apply In_insert_sorted. now right.
Qed.

Lemma insert_sorted_sorted n l :
  StronglySorted N.lt l -> StronglySorted N.lt (insert_sorted n l).
Proof.
  induction l as [|x r IH]; intros Hs; cbn [insert_sorted].
  - constructor; constructor.
  - inversion Hs as [|x0 r0 Hr Hx]; subst.
    destruct (N.ltb_spec n x) as [Hlt|Hge].
    + constructor; [exact Hs|]. constructor; [exact Hlt|].
      rewrite Forall_forall in *. intros y Hy. specialize (Hx y Hy). lia.
    + destruct (N.eqb_spec n x) as [->|Hne]; [exact Hs|].
      constructor; [now apply IH|].
      rewrite Forall_forall in *. intros y Hy. apply In_insert_sorted in Hy.
      destruct Hy as [->|Hy]; [lia|now apply Hx].
Qed.

(* ordered by the number, strictly (no duplicates), gaps allowed *)
Theorem list_wal_numbers_sorted : forall fs, StronglySorted N.lt (list_wal_numbers fs).
Proof.
  induction fs as [|[s e] r IH]; cbn [list_wal_numbers fold_right]; [constructor|].
  fold (list_wal_numbers r).
  destruct e as [b| |]; try exact IH.
  destruct (filename_to_position s) as [m|]; [|exact IH].
  now apply insert_sorted_sorted.
Qed.

Corollary list_wal_numbers_NoDup : forall fs, NoDup (list_wal_numbers fs).
Proof.
  intros fs. pose proof (list_wal_numbers_sorted fs) as H.
  induction H as [|x l Hs IH Hx]; constructor; [|exact IH].
  intros Hin. rewrite Forall_forall in Hx. specialize (Hx x Hin). lia.
Qed.
End Listing.

(* ================================================================ (4) foreign names and the parser *)
Lemma filename_shape n :
  lenN (filename n) = 24 /\ takeN 4 (filename n) = wal_prefix /\
  forallb is_digit (dropN 4 (filename n)) = true.
Proof.
  split; [apply filename_length|]. unfold filename.
  pose proof (takeN_app_exact wal_prefix (dec_digits 20 n)) as Ht.
  pose proof (dropN_app_exact wal_prefix (dec_digits 20 n)) as Hd.
  rewrite lenN_wal_prefix in Ht, Hd. rewrite Ht, Hd. split; [reflexivity|].
  apply forallb_is_digit_dec_digits.
Qed.

(* a name of the wrong length, or without the prefix, or with a non-digit after the prefix, is not
   the name of any WAL file, whatever the number: the theorems of (2) apply to it *)
Theorem bad_shape_foreign : forall s,
  lenN s <> 24 \/ takeN 4 s <> wal_prefix \/ forallb is_digit (dropN 4 s) = false ->
  forall n, s <> filename n.
Proof.
  intros s H n ->. destruct (filename_shape n) as [H1 [H2 H3]].
  destruct H as [H|[H|H]]; [now apply H|now apply H|congruence].
Qed.

(* the statement as asked (the first premise is implied by the second) *)
Corollary unparsed_bad_shape_foreign : forall s,
  filename_to_position s = None ->
  lenN s <> 24 \/ takeN 4 s <> wal_prefix \/ forallb is_digit (dropN 4 s) = false ->
  forall n, s <> filename n.
Proof. intros s _. apply bad_shape_foreign. Qed.

(* a name that does not parse has a bad shape, or is wal-<20 digits> with a value above u64::MAX *)
Theorem parse_none_cases : forall s,
  filename_to_position s = None ->
  (lenN s <> 24 \/ takeN 4 s <> wal_prefix \/ forallb is_digit (dropN 4 s) = false) \/
  (exists v, U64_MAX < v /\ s = filename v).
Proof.
  intros s H. unfold filename_to_position in H.
  destruct (N.eqb_spec (lenN s) 24) as [Hlen|Hlen]; cbn [negb] in H; [|left; now left].
  destruct (bytes_eqb (takeN 4 s) wal_prefix) eqn:Hpre; cbn [negb] in H.
  2:{ left. right. left. now apply bytes_eqb_neq. }
  destruct (forallb is_digit (dropN 4 s)) eqn:Hdig; cbn [negb] in H; [|left; right; now right].
  destruct (N.leb_spec (parse_dec (dropN 4 s) 0) U64_MAX) as [Hle|Hgt]; [discriminate|].
  right. exists (parse_dec (dropN 4 s) 0). split; [exact Hgt|].
  apply bytes_eqb_eq in Hpre. unfold filename.
  assert (Hl : length (dropN 4 s) = 20%nat).
  { pose proof (lenN_dropN 4 s) as Hd. rewrite lenN_length in Hd. lia. }
  rewrite <- Hl, (dec_digits_parse_dec _ Hdig), <- Hpre. symmetry. apply takeN_dropN.
Qed.

(* names that do not parse and the calls of a run whose file numbers are all u64: the entry is
   untouched.  (For the model as written the bound cannot be dropped: file numbers are unbounded
   naturals, `filename (U64_MAX + 1)` is a name that does not parse, and a writer whose current
   file is number u64::MAX would create it where the implementation overflows.) *)
Definition wal_named_u64 (e : event) : Prop :=
  match ev_name e with Some s => exists n, n <= U64_MAX /\ s = filename n | None => True end.

Theorem cext_unparsed_untouched : forall c c' evs s,
  cext c c' -> c_ev c' = evs ++ c_ev c -> Forall wal_named_u64 evs ->
  filename_to_position s = None ->
  fs_get (c_fs c') s = fs_get (c_fs c) s.
Proof.
  intros c c' evs s [evs' [E [_ T]]] E' F Hs.
  assert (evs' = evs) by (eapply app_inv_tail; rewrite <- E, <- E'; reflexivity). subst evs'.
  apply T. intros e He Hn. rewrite Forall_forall in F. specialize (F e He).
  unfold wal_named_u64 in F. rewrite Hn in F. destruct F as [n [Hle F]].
  exact (parse_none_not_filename s Hs n Hle F).
Qed.

Corollary step_unparsed_untouched : forall P st o tick evs s,
  c_ev (w_ctx (s_wr (fst (step P st o tick)))) = evs ++ c_ev (w_ctx (s_wr st)) ->
  Forall wal_named_u64 evs -> filename_to_position s = None ->
  fs_get (c_fs (w_ctx (s_wr (fst (step P st o tick))))) s = fs_get (c_fs (w_ctx (s_wr st))) s.
Proof. intros P st o tick evs s. apply cext_unparsed_untouched, step_cext. Qed.

Corollary open_unparsed_untouched : forall P fs plan pol hint s,
  Forall wal_named_u64 (c_ev (open_ctx (open P fs plan pol hint))) ->
  filename_to_position s = None ->
  fs_get (c_fs (open_ctx (open P fs plan pol hint))) s = fs_get fs s.
Proof.
  intros P fs plan pol hint s F Hs.
  apply (cext_unparsed_untouched (ctx_init fs plan) _
           (c_ev (open_ctx (open P fs plan pol hint))) s (open_cext P fs plan pol hint));
    [cbn [ctx_init c_ev]; symmetry; apply app_nil_r|exact F|exact Hs].
Qed.

(* witness for the remark above (block size 16, two blocks per file, a directory holding the file
   number u64::MAX): four create_queue calls roll over and the model creates
   `wal-18446744073709551616`, a name that does not parse.  So in (2) the premise
   `forall n, s <> filename n` cannot be replaced by `filename_to_position s = None` without a
   bound on the file numbers in use. *)
Example unparsed_name_can_be_created :
  let P0 := mkParams 16 2 (fun _ _ => 0) 0 false false false in
  let fs0 : fsT := [(filename U64_MAX, FFile (zerosN 32))] in
  let s1 := filename (U64_MAX + 1) in
  filename_to_position s1 = None /\
  match open P0 fs0 None PNothing [] with
  | OpenOk st =>
      let h := map (fun q => (OCreate [q], false)) ["a"; "b"; "c"; "d"]%byte in
      let st' := fst (run P0 st h) in
      fs_get (c_fs (w_ctx (s_wr st))) s1 = None /\
      match fs_get (c_fs (w_ctx (s_wr st'))) s1 with Some (FFile _) => True | _ => False end
  | _ => False
  end.
Proof. vm_compute. repeat split. Qed.

(* ================================================================ assumptions *)
Print Assumptions step_events_wal_named.
Print Assumptions open_events_wal_named.
Print Assumptions drop_events_wal_named.
Print Assumptions step_foreign_untouched.
Print Assumptions drop_foreign_untouched.
Print Assumptions open_foreign_untouched.
Print Assumptions open_effects_cases.
Print Assumptions run_events_wal_named.
Print Assumptions run_foreign_untouched.
Print Assumptions list_wal_numbers_sound.
Print Assumptions list_wal_numbers_sound_exact.
Print Assumptions list_wal_numbers_complete.
Print Assumptions list_wal_numbers_sorted.
Print Assumptions list_wal_numbers_NoDup.
Print Assumptions bad_shape_foreign.
Print Assumptions unparsed_bad_shape_foreign.
Print Assumptions parse_none_cases.
Print Assumptions cext_unparsed_untouched.
Print Assumptions step_unparsed_untouched.
Print Assumptions open_unparsed_untouched.
Print Assumptions unparsed_name_can_be_created.
Print Assumptions step_cext.
Print Assumptions drop_cext.
Print Assumptions open_cext.
Print Assumptions run_cext.
