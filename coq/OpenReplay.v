(* OpenReplay.v — `open` on a directory that holds a suffix of the WAL stream replays exactly
   the entries whose first frame lies in the kept files: parts (B)+(D) of the plan for C01,
   at the level of the rolling files.

   Part 0: traced reading (generic in the block reader): the record reader delivers a list of
           records, each with the reader state it was read from, then End.
   Part 1: stream level (vecr), WITHOUT an extra zero block after the written bytes.
   Part 2: the replay loop is a fold of apply_entry over the trace.
   Part 3: the rolling files: open_replays_delivered.
   Part 4: sanity (lo = base). *)
From Coq Require Import Lia ZArith ZifyN ZifyNat ZifyBool Sorted.
From MRL Require Import Bytes BytesProofs Params Names NamesProofs Frame Record Mem Rolling Log
  Driver StreamProofs DamageProofs TornProofs PolicyProofs GcProofs FileStream ResyncProofs
  RecordProofs GhostLog OpenTerm.

Arguments N.add : simpl never.
Arguments N.sub : simpl never.
Arguments N.mul : simpl never.
Arguments N.eqb : simpl never.
Arguments N.ltb : simpl never.
Arguments N.leb : simpl never.
Arguments N.div : simpl never.
Arguments N.modulo : simpl never.
Arguments N.min : simpl never.
Arguments N.max : simpl never.

(* ====================================================================== *)
(* Part 0. Traced reading                                                  *)
(* ====================================================================== *)
Section Trace.
Variable P : params.
Variable R : Type.
Variable rnext : R -> R * res bool.
Variable rblock : R -> bytes.
Local Notation gonextR := (go_next P R rnext rblock).

(* from rr, go_next (with fuel g) delivers the records of l — each paired with the reader it
   was read FROM — and then End, leaving the reader rrf *)
Inductive reads_tr (g : nat) : rreader R -> list (rreader R * bytes) -> rreader R -> Prop :=
| RT_end rr rr' : gonextR g rr = (rr', REnd) -> reads_tr g rr [] rr'
| RT_rec rr rr' l rrf :
    gonextR g rr = (rr', RRecord) -> reads_tr g rr' l rrf ->
    reads_tr g rr ((rr, rr_buf rr') :: l) rrf.

Lemma reads_tr_app g rr l1 rr1 l2 rrf :
  (forall l' rrf', reads_tr g rr1 l' rrf' -> reads_tr g rr (l1 ++ l') rrf') ->
  reads_tr g rr1 l2 rrf -> reads_tr g rr (l1 ++ l2) rrf.
Proof. intros H H2. apply H. exact H2. Qed.
End Trace.

Arguments reads_tr P {R} rnext rblock g _ _ _.

Lemma map_snd_combine {A C} (l1 : list A) : forall (l2 : list C),
  length l1 = length l2 -> map snd (combine l1 l2) = l2.
Proof.
  induction l1 as [|x l1 IH]; intros [|y l2] H; cbn [length] in H; try discriminate; cbn [combine map snd].
  - reflexivity.
  - f_equal. apply IH. lia.
Qed.

Lemma map_fst_combine {A C} (l1 : list A) : forall (l2 : list C),
  length l1 = length l2 -> map fst (combine l1 l2) = l1.
Proof.
  induction l1 as [|x l1 IH]; intros [|y l2] H; cbn [length] in H; try discriminate; cbn [combine map fst].
  - reflexivity.
  - f_equal. apply IH. lia.
Qed.

(* ====================================================================== *)
(* Part 1. Stream level                                                    *)
(* ====================================================================== *)
Section Stream.
Variable P : params.
Hypothesis HBS_lo : 7 < BS P.
Hypothesis HBS_hi : BS P <= 65542.
Hypothesis Hcrc : forall t p, crcf P t p < 2 ^ 32.

Local Notation B := (BS P).
Local Notation rframe := (read_frame P vecr (vr_next P) vr_block).
Local Notation gonext := (go_next P vecr (vr_next P) vr_block).
Local Notation pad_of := (pad_of P).
Local Notation enc_rel := (enc_rel P).
Local Notation encs_rel := (encs_rel P).
Local Notation rd_at := (rd_at P).
Local Notation at_pos := (at_pos P).
Local Notation stream_ok := (stream_ok P).
Local Notation ffp := (first_frame_pos P).
Local Notation starts := (starts P).
Local Notation delivered_from := (delivered_from P).
Local Notation skipped_before := (skipped_before P).
Local Notation cursor_after := (cursor_after P).
Local Notation readsV := (reads_tr P (vr_next P) vr_block).
Local Notation H3 f := (f P HBS_lo HBS_hi Hcrc) (only parsing).
Local Notation H2 f := (f P HBS_lo HBS_hi) (only parsing).

(* stream position of the start of the reader's current block *)
Definition bpos (S : bytes) (r : vecr) : N := lenN S - lenN (vr_rest r) - B.

Lemma bpos_rd_at S k c : (k + 1) * B <= lenN S -> bpos S (fr_rd (rd_at S k c)) = k * B.
Proof.
  intros H. unfold bpos, StreamProofs.rd_at. cbn [fr_rd vr_rest]. rewrite lenN_dropN. lia.
Qed.

Lemma at_pos_bpos S fr a : at_pos S fr a -> bpos S (fr_rd fr) <= a.
Proof.
  intros (k & c & Ha & Hc & Hblk & ->). rewrite bpos_rd_at by exact Hblk. lia.
Qed.

(* ---------- the reader never goes back ---------- *)
Lemma vr_next_rest r : lenN (vr_rest (fst (vr_next P r))) <= lenN (vr_rest r).
Proof.
  unfold vr_next. destruct (N.ltb_spec (lenN (vr_rest r)) B) as [H|H]; cbn [fst vr_rest].
  - lia.
  - rewrite lenN_dropN. lia.
Qed.

Lemma read_here_rd x c k :
  fr_rd (fst (FileStream.read_here P vecr vr_block x c k)) = x.
Proof.
  unfold FileStream.read_here.
  destruct (all_zero _); [reflexivity|].
  destruct (ft_of_code _); [|reflexivity].
  destruct (N.ltb _ _); [reflexivity|].
  destruct (N.eqb _ _); reflexivity.
Qed.

Lemma read_frame_rest fr :
  lenN (vr_rest (fr_rd (fst (rframe fr)))) <= lenN (vr_rest (fr_rd fr)).
Proof.
  rewrite read_frame_unfold.
  destruct (fr_corrupt fr || (B - fr_cursor fr <? HEADER_LEN)).
  - pose proof (vr_next_rest (fr_rd fr)) as Hn.
    destruct (vr_next P (fr_rd fr)) as [r' [[|]|e]]; cbn [fst] in *.
    + rewrite read_here_rd. exact Hn.
    + exact Hn.
    + exact Hn.
  - rewrite read_here_rd. lia.
Qed.

Lemma go_next_rest fuel : forall rr,
  lenN (vr_rest (fr_rd (rr_fr (fst (gonext fuel rr))))) <= lenN (vr_rest (fr_rd (rr_fr rr))).
Proof.
  induction fuel as [|fuel IH]; intros rr.
  - cbn [go_next fst]. lia.
  - rewrite go_next_S. pose proof (read_frame_rest (rr_fr rr)) as Hrf.
    destruct (rframe (rr_fr rr)) as [fr' [t pl|e| |]]; cbn [fst] in Hrf; cbv zeta.
    + destruct (if is_first_frame t then true else rr_within rr).
      * destruct (is_last_frame t).
        -- cbn [fst rr_fr]. exact Hrf.
        -- etransitivity; [apply IH|]. cbn [rr_fr]. exact Hrf.
      * etransitivity; [apply IH|]. cbn [rr_fr]. exact Hrf.
    + cbn [fst rr_fr]. exact Hrf.
    + cbn [fst rr_fr]. exact Hrf.
    + cbn [fst rr_fr]. exact Hrf.
Qed.

Local Notation rest rr := (lenN (vr_rest (fr_rd (rr_fr rr)))).

(* along a trace the number of blocks still to come never increases *)
Lemma reads_tr_rest g rr l rrf :
  readsV g rr l rrf ->
  rest rrf <= rest rr /\
  Forall (fun x => rest (fst x) <= rest rr /\ rest rrf <= rest (fst x)) l /\
  StronglySorted (fun x y => rest (fst y) <= rest (fst x)) l.
Proof.
  induction 1 as [rr rr' Hgo | rr rr' l rrf Hgo Htr (IH1 & IH2 & IH3)].
  - pose proof (go_next_rest g rr) as H. rewrite Hgo in H. cbn [fst] in H.
    split; [exact H|]. split; constructor.
  - pose proof (go_next_rest g rr) as H. rewrite Hgo in H. cbn [fst] in H.
    split; [lia|]. split.
    + constructor; [cbn [fst]; lia|].
      eapply Forall_impl; [|exact IH2]. cbn beta. intros x [Hx1 Hx2]. lia.
    + constructor; [exact IH3|].
      eapply Forall_impl; [|exact IH2]. cbn beta. cbn [fst]. intros x [Hx1 Hx2]. lia.
Qed.

(* ---------- the end of the log, without a spare zero block ---------- *)
(* where the frame reader is left when it meets the end of the log at position e: at the
   normalised position first_frame_pos e when that position has a block in S, and otherwise
   (fewer than 7 bytes left in the LAST block of S) where it is *)
Definition at_end (S : bytes) (fr : freader vecr) (e : N) : Prop :=
  exists k c, fr = rd_at S k c /\ (k + 1) * B <= lenN S /\ c <= B /\
    ((k * B + c = ffp e /\ c + 7 <= B) \/
     (k * B + c = e /\ B < c + 7 /\ lenN S < (k + 2) * B)).

Lemma ffp_kc k c : c <= B -> ffp (k * B + c) = if B - c <? 7 then (k + 1) * B else k * B + c.
Proof.
  intros Hc. unfold first_frame_pos. rewrite (StreamProofs.lenN_pad_of P).
  destruct (N.eq_dec c B) as [->|Hne].
  - rewrite (H2 StreamProofs.mod_kB).
    destruct (N.ltb_spec (B - 0) 7) as [H|_]; [lia|].
    destruct (N.ltb_spec (B - B) 7) as [_|H]; lia.
  - rewrite (H2 StreamProofs.mod_kc) by lia.
    destruct (N.ltb_spec (B - c) 7) as [H|H]; lia.
Qed.

Lemma read_frame_end_gen S written z fr a :
  S = written ++ zerosN z -> lenN written <= a -> at_pos S fr a ->
  exists fr', rframe fr = (fr', FNotAvail) /\ at_end S fr' a.
Proof.
  intros HS Hw (k & c & Ha & Hc & Hblk & ->).
  assert (HaS : a <= lenN S) by lia.
  assert (Hsplit : S = takeN a S ++ zerosN (lenN S - a)).
  { rewrite <- (takeN_dropN a S) at 1. f_equal.
    rewrite HS, dropN_app_ge by exact Hw. rewrite dropN_zerosN. f_equal.
    rewrite lenN_app, lenN_zerosN. lia. }
  assert (Hlt : lenN (takeN a S) = k * B + c) by (rewrite lenN_takeN; lia).
  assert (Hnb : 1 <= 1) by lia.
  pose proof (@vec_read_end (mkParams (BS P) 1 (crcf P) (RMS P) (L_GC P) (L_IO P) (L_SHORT P)))
    as Hv. cbn [BS NB crcf] in Hv.
  specialize (Hv HBS_lo HBS_hi Hnb Hcrc [] [] ltac:(intros n []) S (takeN a S) (lenN S - a) k c
                 Hsplit Hlt Hc Hblk).
  change (read_frame _ vecr _ vr_block) with rframe in Hv.
  change (StreamProofs.rd_at _) with rd_at in Hv.
  pose proof (ffp_kc k c Hc) as Hf. rewrite <- Ha in Hf.
  rewrite Hv.
  destruct (N.ltb_spec (B - c) 7) as [Hc7|Hc7];
    [destruct (N.leb_spec ((k + 2) * B) (lenN S)) as [Hnext|Hnext]|]; cbn [andb].
  - eexists. split; [reflexivity|]. exists (k + 1), 0. repeat split; try lia.
  - eexists. split; [reflexivity|]. exists k, c. repeat split; try lia.
  - eexists. split; [reflexivity|]. exists k, c. repeat split; try lia.
Qed.

Lemma go_next_end_gen S written z rr a g :
  S = written ++ zerosN z -> lenN written <= a -> at_pos S (rr_fr rr) a ->
  exists fr', gonext (Datatypes.S g) rr = (mkRR fr' (rr_buf rr) (rr_within rr), REnd) /\
              at_end S fr' a.
Proof.
  intros HS Hw Hat.
  destruct (read_frame_end_gen S written z (rr_fr rr) a HS Hw Hat) as (fr' & Hrf & Hp).
  exists fr'. split; [|exact Hp]. cbn [go_next]. rewrite Hrf. reflexivity.
Qed.

(* ---------- a run of intact entries, traced ---------- *)
Definition tr_ok (S : bytes) (rrs : list (rreader vecr)) (sts : list (N * N)) : Prop :=
  Forall2 (fun rr s => bpos S (fr_rd (rr_fr rr)) <= snd s) rrs sts.

Lemma run_tr a es t :
  encs_rel a es t ->
  forall S pre post rr gofuel,
    stream_ok S -> at_pos S (rr_fr rr) a -> S = pre ++ t ++ post -> lenN pre = a ->
    lenN t <= 7 * N.of_nat gofuel ->
    exists rrs rr',
      length rrs = length es /\ at_pos S (rr_fr rr') (a + lenN t) /\
      tr_ok S rrs (starts a es) /\
      forall l' rrf, readsV gofuel rr' l' rrf -> readsV gofuel rr (combine rrs es ++ l') rrf.
Proof.
  induction 1 as [a | a p ps e k t He Hes IH]; intros S pre post rr gofuel Hok Hat HS Hpre Hgf.
  - exists [], rr. rewrite (@lenN_nil byte), N.add_0_r. cbn [length combine app starts].
    repeat split; try assumption; [constructor | intros l' rrf H; exact H].
  - destruct rr as [fr rbuf within]. cbn [rr_fr] in Hat.
    rewrite <- app_assoc in HS. rewrite lenN_app in Hgf.
    pose proof (H3 StreamProofs.enc_rel_frames _ _ _ _ _ He) as [Hk _].
    destruct (H3 StreamProofs.go_next_record a true p e k He S pre (t ++ post) fr rbuf within gofuel
                Hok Hat HS Hpre)
      as (fr' & Hgo & Hat'); [left; reflexivity | lia |].
    cbn [app] in Hgo.
    destruct (IH S (pre ++ e) post (mkRR fr' p false) gofuel Hok Hat')
      as (rrs & rr' & Hlen & Hat'' & Htr & Hcont).
    { rewrite HS, <- app_assoc. reflexivity. }
    { rewrite lenN_app. lia. }
    { lia. }
    exists (mkRR fr rbuf within :: rrs), rr'.
    split; [cbn [length]; now rewrite Hlen|].
    split; [rewrite lenN_app; replace (a + (lenN e + lenN t)) with (a + lenN e + lenN t) by lia;
            exact Hat''|].
    split.
    + rewrite (H3 starts_cons_rel a p ps e k He). constructor; [|exact Htr].
      cbn [rr_fr snd]. pose proof (at_pos_bpos S fr a Hat). pose proof (H2 ffp_ge a). lia.
    + intros l' rrf Hl'. cbn [combine app].
      change p with (rr_buf (mkRR fr' p false)) at 1.
      eapply RT_rec; [exact Hgo|]. apply Hcont. exact Hl'.
Qed.

(* a run of intact entries followed by the zero tail, when the first go_next behaves as a
   go_next (fuel g) of a reader rr1 positioned at the start r of the run *)
Lemma tail_tr S r es t pre z gofuel :
  encs_rel r es t -> S = pre ++ t ++ zerosN z -> lenN pre = r -> stream_ok S ->
  lenN t + 7 <= 7 * N.of_nat gofuel ->
  forall rr1 g rr,
    at_pos S (rr_fr rr1) r -> gonext gofuel rr = gonext g rr1 ->
    lenN t + 7 <= 7 * N.of_nat g ->
    (es <> [] -> bpos S (fr_rd (rr_fr rr)) <= ffp r) ->
    exists rrs rrf,
      length rrs = length es /\ readsV gofuel rr (combine rrs es) rrf /\
      tr_ok S rrs (starts r es) /\ at_end S (rr_fr rrf) (r + lenN t).
Proof.
  intros Hes HS Hpre Hok Hgf rr1 g rr Hat Hgo Hg Hb.
  destruct g as [|g]; [lia|].
  inversion Hes as [a0 Ha0 Hnil Ht | a0 p ps e k t' He Hps Ha0 Hcons Ht]; subst a0 es t.
  - cbn [app] in HS. rewrite (@lenN_nil byte), N.add_0_r in *.
    destruct (go_next_end_gen S pre z rr1 r g HS) as (fr' & Hend & Hp); [lia | exact Hat |].
    exists [], (mkRR fr' (rr_buf rr1) (rr_within rr1)).
    cbn [length combine starts rr_fr]. repeat split; try exact Hp.
    + apply RT_end. rewrite Hgo. exact Hend.
    + constructor.
  - destruct rr1 as [fr1 rbuf1 within1]. cbn [rr_fr] in Hat.
    rewrite <- !app_assoc in HS. rewrite lenN_app in *.
    pose proof (H3 StreamProofs.enc_rel_frames _ _ _ _ _ He) as [Hk Hk'].
    destruct (H3 StreamProofs.go_next_record r true p e k He S pre (t' ++ zerosN z) fr1 rbuf1 within1
                (Datatypes.S g) Hok Hat HS Hpre)
      as (fr' & Hgo' & Hat'); [left; reflexivity | lia |].
    cbn [app] in Hgo'.
    destruct (run_tr (r + lenN e) ps t' Hps S (pre ++ e) (zerosN z) (mkRR fr' p false) gofuel Hok Hat')
      as (rrs & rr' & Hlen & Hat'' & Htr & Hcont).
    { rewrite HS, <- app_assoc. reflexivity. }
    { rewrite lenN_app. lia. }
    { lia. }
    assert (Hgf1 : exists g1, gofuel = Datatypes.S g1) by (destruct gofuel; [lia | eauto]).
    destruct Hgf1 as [g1 ->].
    destruct (go_next_end_gen S (pre ++ e ++ t') z rr' (r + lenN e + lenN t') g1)
      as (fr'' & Hend & Hp).
    { rewrite HS, <- !app_assoc. reflexivity. }
    { rewrite !lenN_app. lia. }
    { exact Hat''. }
    exists (rr :: rrs), (mkRR fr'' (rr_buf rr') (rr_within rr')).
    split; [cbn [length]; now rewrite Hlen|]. split; [|split].
    + cbn [combine]. change p with (rr_buf (mkRR fr' p false)) at 1.
      eapply RT_rec; [rewrite Hgo; exact Hgo'|].
      rewrite <- (app_nil_r (combine rrs ps)). apply Hcont. apply RT_end. exact Hend.
    + rewrite (H3 starts_cons_rel r p ps e k He). constructor; [|exact Htr].
      cbn [snd]. apply Hb. discriminate.
    + cbn [rr_fr]. replace (r + (lenN e + lenN t')) with (r + lenN e + lenN t') by lia. exact Hp.
Qed.

(* ---------- reading from a block boundary ---------- *)
Theorem read_from_boundary_tr a es1 es2 t1 t2 S pre z kb buf0 gofuel :
  encs_rel a es1 t1 -> encs_rel (a + lenN t1) es2 t2 ->
  S = pre ++ (t1 ++ t2) ++ zerosN z -> lenN pre = a -> stream_ok S ->
  a <= kb * B -> (kb + 1) * B <= lenN S ->
  Forall (fun s => snd s < kb * B) (starts a es1) ->
  (es2 <> [] -> kb * B <= ffp (a + lenN t1)) ->
  lenN t1 + lenN t2 + 7 <= 7 * N.of_nat gofuel ->
  exists rrs rrf,
    length rrs = length es2 /\
    readsV gofuel (mkRR (rd_at S kb 0) buf0 false) (combine rrs es2) rrf /\
    tr_ok S rrs (starts (a + lenN t1) es2) /\
    at_end S (rr_fr rrf) (N.max (kb * B) (a + lenN t1 + lenN t2)).
Proof.
  intros Hes1 Hes2 HS Hpre Hok Ha Hblk Hall Hsuf Hgf.
  pose proof (H3 at_pos_boundary S kb Hblk) as Hat_b.
  assert (HlenS : lenN S = a + lenN t1 + lenN t2 + z).
  { rewrite HS, !lenN_app, lenN_zerosN. lia. }
  assert (Hbp : bpos S (fr_rd (rd_at S kb 0)) = kb * B) by (apply bpos_rd_at; exact Hblk).
  destruct (H3 boundary_cases a es1 t1 kb Hes1 Ha Hall)
    as [HA | (t1' & e1 & e2 & p2 & k2 & Ht1 & Hl & Hrel)].
  - destruct es2 as [|p ps].
    + inversion Hes2; subst t2. rewrite (@lenN_nil byte), N.add_0_r in *.
      destruct gofuel as [|g]; [lia|].
      destruct (go_next_end_gen S (pre ++ t1) z (mkRR (rd_at S kb 0) buf0 false) (kb * B) g)
        as (fr' & Hend & Hp).
      { rewrite HS, app_nil_r, <- app_assoc. reflexivity. }
      { rewrite lenN_app. lia. }
      { exact Hat_b. }
      exists [], (mkRR fr' buf0 false). cbn [length combine starts rr_fr].
      repeat split.
      * apply RT_end. exact Hend.
      * constructor.
      * replace (N.max (kb * B) (a + lenN t1)) with (kb * B) by lia. exact Hp.
    + set (a1 := a + lenN t1) in *.
      assert (Hb : kb * B = ffp a1) by (apply (H2 boundary_is_ffp); [exact HA | apply Hsuf; discriminate]).
      assert (Hlow : ffp a1 + 7 <= a1 + lenN t2).
      { inversion Hes2 as [|a0 p0 ps0 e k t' He Hrest]; subst.
        pose proof (H3 enc_rel_ffp_lt _ _ _ _ _ He). rewrite lenN_app. lia. }
      assert (Hat_a : at_pos S (rd_at S (a1 / B) (a1 mod B)) a1).
      { pose proof (N.div_mod a1 B) as Hdm. pose proof (H2 StreamProofs.mod_lt_B a1) as Hm.
        exists (a1 / B), (a1 mod B). repeat split; lia. }
      set (fr_a := rd_at S (a1 / B) (a1 mod B)) in *.
      assert (Hrf : rframe fr_a = rframe (rd_at S kb 0)).
      { apply (H3 at_pos_pad S fr_a a1 kb 0 Hok Hat_a);
          [unfold first_frame_pos in Hb; lia | lia | exact Hblk]. }
      destruct gofuel as [|g0]; [lia|].
      destruct (tail_tr S a1 (p :: ps) t2 (pre ++ t1) z (Datatypes.S g0) Hes2)
        with (rr1 := mkRR fr_a buf0 false) (g := Datatypes.S g0)
             (rr := mkRR (rd_at S kb 0) buf0 false) as (rrs & rrf & Hlen & Hrd & Htr & Hp).
      { rewrite HS, <- !app_assoc. reflexivity. }
      { rewrite lenN_app. lia. }
      { exact Hok. }
      { lia. }
      { exact Hat_a. }
      { apply (TornProofs.gonext_cong P). symmetry. exact Hrf. }
      { lia. }
      { intros _. cbn [rr_fr]. rewrite Hbp. lia. }
      exists rrs, rrf. repeat split; try assumption.
      replace (N.max (kb * B) (a1 + lenN t2)) with (a1 + lenN t2) by lia. exact Hp.
  - subst t1. rewrite !lenN_app in *.
    destruct (H3 go_next_skip (kb * B) false p2 e2 k2 Hrel eq_refl S (pre ++ t1' ++ e1)
                (t2 ++ zerosN z) (rd_at S kb 0) Hok Hat_b) as (fr' & Hat' & Hskip).
    { rewrite HS, <- !app_assoc. reflexivity. }
    { rewrite !lenN_app. lia. }
    pose proof (H3 StreamProofs.enc_rel_frames _ _ _ _ _ Hrel) as [Hk2 _].
    destruct (tail_tr S (a + (lenN t1' + (lenN e1 + lenN e2))) es2 t2 (pre ++ t1' ++ e1 ++ e2)
                z gofuel Hes2)
      with (rr1 := mkRR fr' buf0 false) (g := (gofuel - k2)%nat)
           (rr := mkRR (rd_at S kb 0) buf0 false) as (rrs & rrf & Hlen & Hrd & Htr & Hp).
    { rewrite HS, <- !app_assoc. reflexivity. }
    { rewrite !lenN_app. lia. }
    { exact Hok. }
    { lia. }
    { cbn [rr_fr]. replace (a + (lenN t1' + (lenN e1 + lenN e2))) with (kb * B + lenN e2) by lia.
      exact Hat'. }
    { replace gofuel with (k2 + (gofuel - k2))%nat at 1 by lia. apply Hskip. }
    { lia. }
    { intros _. cbn [rr_fr]. rewrite Hbp.
      pose proof (H2 ffp_ge (a + (lenN t1' + (lenN e1 + lenN e2)))). lia. }
    exists rrs, rrf. repeat split; try assumption.
    replace (N.max (kb * B) (a + (lenN t1' + (lenN e1 + lenN e2)) + lenN t2))
      with (a + (lenN t1' + (lenN e1 + lenN e2)) + lenN t2) by lia.
    exact Hp.
Qed.

(* (1) the entries delivered from block kb of S = pre ++ t ++ zeros, where S is any whole
   number of blocks (no spare zero block is required after t) *)
Theorem read_delivered_tr a es t S pre z kb buf0 gofuel :
  encs_rel a es t -> S = pre ++ t ++ zerosN z -> lenN pre = a -> stream_ok S ->
  a <= kb * B -> (kb + 1) * B <= lenN S ->
  lenN t + 7 <= 7 * N.of_nat gofuel ->
  exists rrs rrf,
    length rrs = length (delivered_from (kb * B) a es) /\
    readsV gofuel (mkRR (rd_at S kb 0) buf0 false)
           (combine rrs (delivered_from (kb * B) a es)) rrf /\
    tr_ok S rrs (starts (cursor_after a (skipped_before (kb * B) a es))
                        (delivered_from (kb * B) a es)) /\
    at_end S (rr_fr rrf) (N.max (kb * B) (a + lenN t)).
Proof.
  intros Hes HS Hpre Hok Ha Hblk Hgf.
  pose proof (skipped_delivered P (kb * B) es a) as Hsplit.
  set (es1 := skipped_before (kb * B) a es) in *.
  set (es2 := delivered_from (kb * B) a es) in *.
  rewrite Hsplit in Hes.
  destruct (H3 encs_rel_app_inv es1 a es2 t Hes) as (t1 & t2 & -> & Hes1 & Hes2).
  rewrite lenN_app in *.
  replace (a + (lenN t1 + lenN t2)) with (a + lenN t1 + lenN t2) by lia.
  rewrite (H3 cursor_after_rel _ _ _ Hes1).
  apply (read_from_boundary_tr a es1 es2 t1 t2 S pre z kb buf0 gofuel);
    try assumption; try lia.
  - apply skipped_starts.
  - intros Hne. rewrite <- (H3 cursor_after_rel _ _ _ Hes1). apply (H3 delivered_head). exact Hne.
Qed.

(* the same in the vocabulary of TornProofs.mem_read_fin / ResyncProofs.read_delivered_from_gen *)
Lemma reads_tr_mem_read_fin g rr l rrf :
  readsV g rr l rrf -> forall fuel, (length l < fuel)%nat ->
  mem_read_fin P fuel g rr = (map MrEntry (map snd l) ++ [MrEnd], rrf).
Proof.
  induction 1 as [rr rr' Hgo | rr rr' l rrf Hgo Htr IH]; intros fuel Hf;
    (destruct fuel as [|fuel]; [cbn [length] in Hf; lia|]); cbn [TornProofs.mem_read_fin].
  - rewrite Hgo. reflexivity.
  - rewrite Hgo. cbn [length] in Hf. rewrite IH by lia. reflexivity.
Qed.

Corollary read_delivered_fin a es t S pre z kb buf0 fuel gofuel :
  encs_rel a es t -> S = pre ++ t ++ zerosN z -> lenN pre = a -> stream_ok S ->
  a <= kb * B -> (kb + 1) * B <= lenN S ->
  lenN t + 7 <= 7 * N.of_nat gofuel -> (length es + 1 <= fuel)%nat ->
  exists rrf,
    mem_read_fin P fuel gofuel (mkRR (rd_at S kb 0) buf0 false) =
      (map MrEntry (delivered_from (kb * B) a es) ++ [MrEnd], rrf) /\
    at_end S (rr_fr rrf) (N.max (kb * B) (a + lenN t)) /\
    kb * B <= bpos S (fr_rd (rr_fr rrf)).
Proof.
  intros Hes HS Hpre Hok Ha Hblk Hgf Hfuel.
  destruct (read_delivered_tr a es t S pre z kb buf0 gofuel Hes HS Hpre Hok Ha Hblk Hgf)
    as (rrs & rrf & Hlen & Hrd & _ & Hend).
  exists rrf. split; [|split; [exact Hend|]].
  - rewrite (reads_tr_mem_read_fin _ _ _ _ Hrd fuel).
    + rewrite map_snd_combine by exact Hlen. reflexivity.
    + rewrite combine_length, Hlen, Nat.min_id.
      pose proof (skipped_delivered P (kb * B) es a) as Hs.
      apply (f_equal (@length bytes)) in Hs. rewrite app_length in Hs. lia.
  - destruct (reads_tr_rest _ _ _ _ Hrd) as (Hr & _ & _). cbn [rr_fr] in Hr.
    pose proof (bpos_rd_at S kb 0 Hblk) as Hb. unfold bpos in *. 
    destruct Hend as (k & c & Hfr & Hk & _). rewrite Hfr in *.
    unfold StreamProofs.rd_at in *. cbn [fr_rd vr_rest] in *. rewrite !lenN_dropN in *. lia.
Qed.

(* the (block index, cursor) of the final reader: what rd_into_writer needs *)
Lemma at_end_kc S fr e kb :
  at_end S fr e -> kb * B <= bpos S (fr_rd fr) -> 
  exists k c, fr = rd_at S k c /\ kb <= k /\ (k + 1) * B <= lenN S /\ c <= B /\
    ((k * B + c = ffp e /\ c + 7 <= B) \/
     (k * B + c = e /\ B < c + 7 /\ lenN S < (k + 2) * B)).
Proof.
  intros (k & c & Hfr & Hk & Hc & Hcase) Hb. exists k, c.
  rewrite Hfr in Hb. rewrite bpos_rd_at in Hb by exact Hk.
  repeat split; try assumption. apply (H2 TornProofs.mulB_le_inv). exact Hb.
Qed.

End Stream.

(* ====================================================================== *)
(* Part 2. The replay loop is a fold over the trace                        *)
(* ====================================================================== *)
Section Replay.
Variable P : params.
Local Notation readsF := (reads_tr P (rd_next P) rd_block).

(* the file the rolling reader is in: the `file` replay_loop passes to apply_entry *)
Definition tag_of (rr : rreader rreaderS) : N := rd_file (fr_rd (rr_fr rr)).

Definition tags_of (l : list (rreader rreaderS * bytes)) : list N :=
  map (fun x => tag_of (fst x)) l.

Lemma tags_of_length l : length (tags_of l) = length l.
Proof. apply map_length. Qed.

Theorem replay_loop_fold g rr l rrf :
  readsF g rr l rrf ->
  forall es, Forall2 (fun x e => entry_deser (snd x) = Some e) l es ->
  forall fuel qs, (length l < fuel)%nat ->
  match replay_entries qs (combine (tags_of l) es) with
  | Some qs' => replay_loop P fuel g rr qs = (rrf, RpDone qs')
  | None => exists rr', replay_loop P fuel g rr qs = (rr', RpCorruption)
  end.
Proof.
  induction 1 as [rr rr' Hgo | rr rr' l rrf Hgo Htr IH]; intros es Hes fuel qs Hf;
    (destruct fuel as [|fuel]; [cbn [length] in Hf; lia|]); rewrite replay_loop_S; cbv zeta;
    rewrite Hgo.
  - inversion Hes; subst. cbn [tags_of map combine replay_entries]. reflexivity.
  - inversion Hes as [|x e l0 es0 He Hes0]; subst. cbn [snd] in He. rewrite He.
    cbn [tags_of map combine replay_entries fst]. fold (tag_of rr).
    destruct (apply_entry qs (tag_of rr) e) as [qs1|].
    + cbn [length] in Hf. apply IH; [exact Hes0 | lia].
    + exists rr'. reflexivity.
Qed.

(* the iff form of the task statement *)
Corollary replay_loop_done_iff g rr l rrf es fuel qs qs' :
  readsF g rr l rrf -> Forall2 (fun x e => entry_deser (snd x) = Some e) l es ->
  (length l < fuel)%nat ->
  (replay_loop P fuel g rr qs = (rrf, RpDone qs') <->
   replay_entries qs (combine (tags_of l) es) = Some qs').
Proof.
  intros Htr Hes Hf. pose proof (replay_loop_fold g rr l rrf Htr es Hes fuel qs Hf) as H.
  destruct (replay_entries qs (combine (tags_of l) es)) as [qs1|].
  - rewrite H. split; intros E; inversion E; reflexivity.
  - destruct H as [rr' H]. rewrite H. split; intros E; discriminate.
Qed.
End Replay.

(* ====================================================================== *)
(* Part 3. The rolling files                                               *)
(* ====================================================================== *)

(* ---------- consecutive file numbers ---------- *)
Lemma iota_length m : forall lo, length (iota lo m) = m.
Proof. induction m as [|m IH]; intros lo; cbn [iota length]; [reflexivity | now rewrite IH]. Qed.

Lemma lenN_iota m lo : lenN (iota lo m) = N.of_nat m.
Proof. now rewrite lenN_length, iota_length. Qed.

Lemma iota_In m : forall lo x, In x (iota lo m) <-> lo <= x /\ x < lo + N.of_nat m.
Proof.
  induction m as [|m IH]; intros lo x; cbn [iota In].
  - lia.
  - rewrite IH. lia.
Qed.

Lemma iota_sorted m : forall lo, StronglySorted N.lt (iota lo m).
Proof.
  induction m as [|m IH]; intros lo; cbn [iota]; constructor.
  - apply IH.
  - apply Forall_forall. intros x Hx. apply iota_In in Hx. lia.
Qed.

Lemma iota_split m : forall lo pre f post,
  iota lo m = pre ++ f :: post -> f = lo + lenN pre /\ lenN pre + 1 + lenN post = N.of_nat m.
Proof.
  induction m as [|m IH]; intros lo pre f post H; cbn [iota] in H.
  - destruct pre; discriminate.
  - destruct pre as [|x pre]; cbn [app] in H; injection H as Hx Hr.
    + subst f. rewrite (@lenN_nil N). split; [lia|].
      rewrite <- Hr, lenN_iota. lia.
    + destruct (IH _ _ _ _ Hr) as [Hf Hl]. rewrite lenN_cons. lia.
Qed.

Lemma StronglySorted_Forall2 {A C} (R : A -> C -> Prop) (Q1 : A -> A -> Prop) (Q2 : C -> C -> Prop) :
  (forall a b a' b', R a b -> R a' b' -> Q2 b b' -> Q1 a a') ->
  forall l1 l2, Forall2 R l1 l2 -> StronglySorted Q2 l2 -> StronglySorted Q1 l1.
Proof.
  intros HR. induction 1 as [|a b l1 l2 Hab Hl IH]; intros Hs; [constructor|].
  inversion Hs as [|b0 l0 Hs' Hall]; subst. constructor; [apply IH; exact Hs'|].
  clear IH Hs Hs'. induction Hl as [|a' b' l1 l2 Hab' Hl IH]; [constructor|].
  inversion Hall; subst. constructor; [eapply HR; eauto | apply IH; assumption].
Qed.

Lemma StronglySorted_map {A C} (f : A -> C) (Q : C -> C -> Prop) l :
  StronglySorted (fun x y => Q (f x) (f y)) l -> StronglySorted Q (map f l).
Proof.
  induction 1 as [|x l Hs IH Hall]; cbn [map]; constructor; [exact IH|].
  apply Forall_map. exact Hall.
Qed.

Lemma Forall2_Forall_l {A C} (R : A -> C -> Prop) (Q1 : A -> Prop) (Q2 : C -> Prop) :
  (forall a b, R a b -> Q2 b -> Q1 a) ->
  forall l1 l2, Forall2 R l1 l2 -> Forall Q2 l2 -> Forall Q1 l1.
Proof.
  intros HR. induction 1 as [|a b l1 l2 Hab Hl IH]; intros Hall; [constructor|].
  inversion Hall; subst. constructor; [eapply HR; eauto | apply IH; assumption].
Qed.

Lemma Forall2_length' {A C} (R : A -> C -> Prop) l1 l2 : Forall2 R l1 l2 -> length l1 = length l2.
Proof. induction 1; cbn [length]; congruence. Qed.

Lemma Forall2_combine_l {A C D} (R : A -> D -> Prop) (l1 : list A) : forall (l2 : list C) (l3 : list D),
  length l1 = length l2 -> Forall2 R l1 l3 -> Forall2 (fun x d => R (fst x) d) (combine l1 l2) l3.
Proof.
  induction l1 as [|a l1 IH]; intros [|c l2] l3 Hlen H; cbn [length] in Hlen; try discriminate;
    inversion H; subst; cbn [combine]; constructor.
  - exact H2.
  - apply IH; [lia | assumption].
Qed.

(* composing Forall2 *)
Lemma Forall2_trans' {A C D} (R1 : A -> C -> Prop) (R2 : C -> D -> Prop) (R3 : A -> D -> Prop) :
  (forall a c d, R1 a c -> R2 c d -> R3 a d) ->
  forall l1 l2 l3, Forall2 R1 l1 l2 -> Forall2 R2 l2 l3 -> Forall2 R3 l1 l3.
Proof.
  intros HR l1 l2 l3 H. revert l3. induction H as [|a c l1 l2 Hac Hl IH]; intros l3 H23;
    inversion H23; subst; constructor; [eapply HR; eauto | apply IH; assumption].
Qed.

Lemma map_app_inv {A C} (f : A -> C) (l : list A) : forall l1 l2,
  map f l = l1 ++ l2 ->
  exists m1 m2, l = m1 ++ m2 /\ map f m1 = l1 /\ map f m2 = l2.
Proof.
  intros l1. revert l. induction l1 as [|x l1 IH]; intros l l2 H.
  - exists [], l. repeat split. exact H.
  - destruct l as [|a l]; cbn [map app] in H; [discriminate|]. injection H as Hx Hr.
    destruct (IH l l2 Hr) as (m1 & m2 & -> & H1 & H2).
    exists (a :: m1), m2. cbn [map app]. repeat split; congruence.
Qed.

Section Files.
Variable P : params.
Hypothesis HBS_lo : 7 < BS P.
Hypothesis HBS_hi : BS P <= 65542.
Hypothesis HNB : 1 <= NB P.
Hypothesis Hcrc : forall t p, crcf P t p < 2 ^ 32.
Local Notation B := (BS P).
Local Notation FB := (FILE_BYTES P).
Local Notation ffp := (first_frame_pos P).
Local Notation readsV := (reads_tr P (vr_next P) vr_block).
Local Notation readsF := (reads_tr P (rd_next P) rd_block).
Local Notation gonextF := (go_next P rreaderS (rd_next P) rd_block).
Local Notation gonextV := (go_next P vecr (vr_next P) vr_block).

Lemma FB_eq : FB = NB P * B.
Proof. unfold FILE_BYTES. lia. Qed.

(* the vecr reader over the tail of a stream from a block boundary IS the reader over the
   whole stream, further on *)
Lemma rd_at_drop (S : bytes) kb k c :
  rd_at P (dropN (kb * B) S) k c = rd_at P S (kb + k) c.
Proof.
  unfold rd_at. f_equal. f_equal.
  - rewrite dropN_dropN. f_equal. lia.
  - unfold sliceN. rewrite dropN_dropN. f_equal; [lia | f_equal; lia].
Qed.

(* ---------- the final offset in the writer's terms ---------- *)
Lemma mul_div_unique x D wo y F : x <= D -> x * F + wo = D * F + y -> wo < F -> x = D /\ wo = y.
Proof.
  intros Hx H Hwo. destruct (N.eq_dec x D) as [->|Hne]; [lia|]. exfalso.
  assert ((x + 1) * F <= D * F) by (apply N.mul_le_mono_r; lia). lia.
Qed.

(* if the end position is at offset woff of the last file, the writer made by open is in the last
   file at the normalised offset (FileStream.norm_off) *)
Lemma final_pos_norm base lo cur wf wo e woff :
  base <= lo -> lo <= wf -> wf <= cur -> e = (cur - base) * FB + woff -> woff <= FB ->
  (((wf - base) * FB + wo = ffp e /\ wo < FB) \/
   ((wf - base) * FB + wo = e /\ wf = cur /\ FB < wo + 7 /\ wo <= FB)) ->
  wf = cur /\ wo = norm_off P woff.
Proof.
  intros Hbase Hlo Hcur He Hwoff Hcase.
  pose proof (N.div_mod woff B ltac:(lia)) as Hdm.
  pose proof (N.mod_lt woff B ltac:(lia)) as Hm.
  set (q := woff / B) in *. set (m := woff mod B) in *.
  assert (He' : e = ((cur - base) * NB P + q) * B + m) by (rewrite He, FB_eq; lia).
  unfold norm_off. fold m.
  destruct Hcase as [(Hp & Hwo) | (Hp & Hwf & Hwo7 & Hwo)].
  - rewrite He', (ffp_kc P HBS_lo HBS_hi) in Hp by lia.
    destruct (N.ltb_spec (B - m) 7) as [Hpad|Hnopad]; cbn [andb].
    + assert (Hp' : (wf - base) * FB + wo = (cur - base) * FB + (q + 1) * B)
        by (rewrite Hp, FB_eq; lia).
      destruct (mul_div_unique (wf - base) (cur - base) wo _ FB ltac:(lia) Hp' Hwo) as [E1 E2].
      split; [lia|].
      destruct (N.ltb_spec (woff + (B - m)) FB) as [_|H]; lia.
    + assert (Hp' : (wf - base) * FB + wo = (cur - base) * FB + woff)
        by (rewrite Hp, FB_eq; lia).
      destruct (mul_div_unique (wf - base) (cur - base) wo _ FB ltac:(lia) Hp' Hwo) as [E1 E2].
      split; lia.
  - split; [exact Hwf|]. subst wf. assert (wo = woff) by lia. subst wo.
    destruct (N.ltb_spec (B - m) 7) as [Hpad|Hnopad]; cbn [andb]; [|reflexivity].
    destruct (N.ltb_spec (woff + (B - m)) FB) as [H|_]; [exfalso|reflexivity].
    assert (H1 : (q + 1) * B < NB P * B) by (rewrite <- FB_eq; lia).
    apply (TornProofs.mulB_lt_inv P HBS_lo HBS_hi) in H1.
    assert (H2 : (q + 2) * B <= NB P * B) by (apply N.mul_le_mono_r; lia).
    rewrite <- FB_eq in H2. lia.
Qed.

Section Dir.
Variable fs : fsT.
Variable lo : N.
Variable n : nat.
Local Notation files := (iota lo (Datatypes.S n)).
Hypothesis Hfull : forall f, In f files ->
  exists b, fs_get fs (filename f) = Some (FFile b) /\ lenN b = FB.

Local Notation St := (stream_of fs files).
Local Notation rsim := (rd_rel P fs files).
Local Notation rrsim := (rr_sim rreaderS vecr rsim).

Lemma Hsorted : StronglySorted N.lt files.
Proof. apply iota_sorted. Qed.

Lemma lenN_St : lenN St = (N.of_nat n + 1) * FB.
Proof. rewrite (lenN_S P fs files Hfull), lenN_iota. lia. Qed.

(* ---------- a vecr trace is a trace of the rolling reader ---------- *)
Lemma reads_tr_FV g rrV l rrfV :
  readsV g rrV l rrfV -> forall rrF, rrsim rrF rrV ->
  exists lF rrfF,
    readsF g rrF lF rrfF /\
    Forall2 (fun x y => rrsim (fst x) (fst y) /\ snd x = snd y) lF l /\
    rrsim rrfF rrfV.
Proof.
  induction 1 as [rrV rrV' Hgo | rrV rrV' l rrfV Hgo Htr IH]; intros rrF Hsim;
    destruct (go_next_FV P HBS_lo HBS_hi HNB fs files Hsorted Hfull g rrF rrV Hsim) as [Hres Hsim'];
    rewrite Hgo in Hres, Hsim'; cbn [fst snd] in Hres, Hsim';
    destruct (gonextF g rrF) as [rrF' r'] eqn:EgoF; cbn [fst snd] in Hres, Hsim'; subst r'.
  - exists [], rrF'. split; [apply RT_end; exact EgoF|]. split; [constructor | exact Hsim'].
  - destruct (IH rrF' Hsim') as (lF & rrfF & HtrF & Hall & Hfin).
    exists ((rrF, rr_buf rrF') :: lF), rrfF. split; [eapply RT_rec; eassumption|].
    split; [|exact Hfin]. constructor; [|exact Hall]. cbn [fst snd].
    split; [exact Hsim|]. destruct Hsim' as (_ & Hbuf & _). exact Hbuf.
Qed.

(* ---------- where the rolling reader is, in numbers ---------- *)
Lemma rd_rel_idx r v : rsim r v ->
  cok fs (rd_ctx r) /\ rd_files r = files /\
  exists i j, rd_file r = lo + i /\ i <= N.of_nat n /\ j < NB P /\ rd_block_id r = j /\
              lenN (vr_rest v) + (i * NB P + j + 1) * B = lenN St.
Proof.
  intros (Hcok & Hfl & pre & post & j & Hf & Hj & Hid & _ & Hv & _).
  split; [exact Hcok|]. split; [exact Hfl|].
  destruct (iota_split _ _ _ _ _ Hf) as [Hfile Hlen].
  exists (lenN pre), j. repeat split; try assumption; try lia.
  rewrite Hv. unfold vec_at. cbn [vr_rest]. rewrite lenN_dropN, lenN_St, FB_eq.
  assert ((lenN pre * NB P + j + 1) * B <= (lenN pre * NB P + NB P) * B)
    by (apply N.mul_le_mono_r; lia).
  nia.
Qed.

Local Notation rest rr := (lenN (vr_rest (fr_rd (rr_fr rr)))).

(* the rolling reader's file follows the number of blocks the vecr reader has left *)
Lemma sim_tag_le a b a' b' :
  rrsim a b -> rrsim a' b' -> rest b' <= rest b -> tag_of a <= tag_of a'.
Proof.
  intros ((Hr & _) & _) ((Hr' & _) & _) Hle. unfold tag_of.
  destruct (rd_rel_idx _ _ Hr) as (_ & _ & i & j & Hf & Hi & Hj & _ & Hl).
  destruct (rd_rel_idx _ _ Hr') as (_ & _ & i' & j' & Hf' & Hi' & Hj' & _ & Hl').
  rewrite Hf, Hf'.
  assert (H : (i * NB P + j + 1) * B <= (i' * NB P + j' + 1) * B) by lia.
  apply (TornProofs.mulB_le_inv P HBS_lo HBS_hi) in H. nia.
Qed.

Lemma sim_tag_lo a b : rrsim a b -> lo <= tag_of a /\ tag_of a <= lo + N.of_nat n.
Proof.
  intros ((Hr & _) & _). unfold tag_of.
  destruct (rd_rel_idx _ _ Hr) as (_ & _ & i & j & Hf & Hi & _). lia.
Qed.

(* ... and is never beyond the file holding the start of the vecr reader's block, when the
   files hold the tail of a longer stream S from block kb *)
Lemma sim_tag_bpos (S : bytes) base kb a b :
  rrsim a b -> base <= lo -> kb * B = (lo - base) * FB -> lenN St + kb * B = lenN S ->
  (tag_of a - base) * FB <= bpos P S (fr_rd (rr_fr b)).
Proof.
  intros ((Hr & _) & _) Hbase Hkb HlenS. unfold tag_of, bpos.
  destruct (rd_rel_idx _ _ Hr) as (_ & _ & i & j & Hf & Hi & Hj & _ & Hl).
  rewrite Hf. replace (lo + i - base) with ((lo - base) + i) by lia.
  rewrite N.mul_add_distr_r, <- Hkb, FB_eq. nia.
Qed.

(* ---------- getting rid of the fuel ---------- *)
Lemma open_fuel_elim F fs0 plan pol hint r :
  L_IO P = false -> open_with P F fs0 plan pol hint = r -> (forall c, r <> OpenFuel c) ->
  open P fs0 plan pol hint = r.
Proof.
  intros Hio HF Hr. unfold open.
  destruct (le_ge_dec F (open_fuel P fs0)) as [Hle|Hge].
  - apply (open_with_fuel_mono P F); assumption.
  - assert (Hnf : forall c, open_with P (open_fuel P fs0) fs0 plan pol hint <> OpenFuel c).
    { intros c. apply (open_never_out_of_fuel P HBS_lo fs0 plan pol hint c Hio). }
    rewrite <- HF. symmetry.
    apply (open_with_fuel_mono P (open_fuel P fs0) F); [reflexivity | exact Hnf | lia].
Qed.

Lemma Forall2_map_l' {A C D} (f : A -> C) (R : C -> D -> Prop) l l' :
  Forall2 (fun x d => R (f x) d) l l' -> Forall2 R (map f l) l'.
Proof. induction 1; cbn [map]; constructor; assumption. Qed.

Lemma Forall2_ser_combine {A} (rrs : list A) : forall (E : list entry),
  length rrs = length E -> Forall wf_entry E ->
  Forall2 (fun (y : A * bytes) e => snd y = entry_ser e /\ wf_entry e)
          (combine rrs (map entry_ser E)) E.
Proof.
  induction rrs as [|r rrs IH]; intros [|e E] H Hwf; cbn [length] in H; try discriminate;
    cbn [map combine]; constructor; inversion Hwf; subst.
  - split; [reflexivity | assumption].
  - apply IH; [lia | assumption].
Qed.

(* ---------- (3) open on the kept files ---------- *)
(* what `open` builds before its final run_gc_if_necessary: writer w0 and the replayed queues *)
Definition open_finish (w0 : rwriter) (qs : queues) (pol : policy) (hint : list bytes) : open_result :=
  match run_gc_if_necessary P (mkSt w0 qs pol) hint with
  | (st1, Err e) => OpenIo e (w_ctx (s_wr st1))
  | (st1, Ok _) => OpenOk st1
  end.

Lemma open_finish_not_fuel w0 qs pol hint c : open_finish w0 qs pol hint <> OpenFuel c.
Proof.
  unfold open_finish. destruct (run_gc_if_necessary P (mkSt w0 qs pol) hint) as [st1 [k|e]]; discriminate.
Qed.

(* The ghost setting: the WAL is one byte stream numbered from file `base`; T is the encoding
   of all entries ever written (from cursor 0); the directory holds the files lo..lo+n, which
   are the tail of T ++ zeros from the block boundary b = (lo - base) * FILE. *)
Section Kept.
Variables (base : N) (es_all : list bytes) (T : bytes) (z : N).
Hypothesis Hbase : base <= lo.
Hypothesis Hlist : list_wal_numbers fs = files.
Hypothesis Henc : encs_rel P 0 es_all T.
Hypothesis HSt : St = dropN ((lo - base) * FB) (T ++ zerosN z).
Hypothesis HlenS : lenN (T ++ zerosN z) = (lo + N.of_nat n - base + 1) * FB.

Local Notation b := ((lo - base) * FB).
Local Notation cur := (lo + N.of_nat n).
Local Notation e_end := (N.max b (lenN T)).
Local Notation es_pre := (skipped_before P b 0 es_all).
Local Notation es_suf := (delivered_from P b 0 es_all).

(* the specification of what open builds from the kept files: the files the delivered entries
   es_suf are attributed to (tags), and the writer w0 made of the final reader *)
Definition kept_spec (w0 : rwriter) (tags : list N) : Prop :=
  (* the files the delivered entries are attributed to *)
  length tags = length es_suf /\
  Forall2 (fun f s => (f - base) * FB <= snd s) tags (starts P (cursor_after P 0 es_pre) es_suf) /\
  StronglySorted N.le tags /\
  Forall (fun f => lo <= f /\ f <= w_file w0) tags /\
  (* the writer *)
  w_files w0 = files /\ lo <= w_file w0 /\ w_file w0 <= cur /\
  (((w_file w0 - base) * FB + w_off w0 = ffp e_end /\ w_off w0 < FB) \/
   ((w_file w0 - base) * FB + w_off w0 = e_end /\ w_file w0 = cur /\
    FB < w_off w0 + 7 /\ w_off w0 <= FB)) /\
  w_pending w0 = [] /\ c_fs (w_ctx w0) = fs /\ c_plan (w_ctx w0) = None.

Definition trace_ok (lF : list (rreader rreaderS * bytes)) (rrfF : rreader rreaderS) : Prop :=
  map snd lF = es_suf /\
  kept_spec (rd_into_writer P (fr_rd (rr_fr rrfF)) (fr_cursor (rr_fr rrfF))) (tags_of lF).

Lemma map_snd_Forall2 {A C} (Q : A -> C -> Prop) (l : list (A * bytes)) (l' : list (C * bytes)) :
  Forall2 (fun x y => Q (fst x) (fst y) /\ snd x = snd y) l l' -> map snd l = map snd l'.
Proof. induction 1 as [|x y l l' [_ H] _ IH]; cbn [map]; congruence. Qed.

Lemma kept_files_trace g :
  lenN T + 7 <= 7 * N.of_nat g ->
  exists c rd lF rrfF,
    rd_open P (ctx_init fs None) = (c, Ok rd) /\
    readsF g (rr_open rreaderS rd) lF rrfF /\
    trace_ok lF rrfF.
Proof.
  intros Hg.
  set (S := T ++ zerosN z) in *.
  set (kb := (lo - base) * NB P).
  assert (Hkb : kb * B = b) by (unfold kb; rewrite FB_eq; lia).
  assert (HlenSt : lenN St + kb * B = lenN S).
  { rewrite lenN_St, HlenS, Hkb.
    replace (lo + N.of_nat n - base + 1) with ((N.of_nat n + 1) + (lo - base)) by lia. lia. }
  assert (Hok : stream_ok P S).
  { exists ((lo + N.of_nat n - base + 1) * NB P). rewrite HlenS, FB_eq. lia. }
  assert (HFB : B <= FB) by (rewrite FB_eq; nia).
  assert (Hblk : (kb + 1) * B <= lenN S).
  { rewrite <- HlenSt, lenN_St. nia. }
  (* the trace at the level of the stream *)
  destruct (read_delivered_tr P HBS_lo HBS_hi Hcrc 0 es_all T S [] z kb [] g Henc)
    as (rrs & rrfV & Hlen & HrdV & Htr & Hend); try reflexivity; try assumption; try lia.
  rewrite Hkb in Hlen, HrdV, Htr, Hend.
  (* the rolling reader *)
  destruct (rd_open_sim P ltac:(lia) HNB fs files Hsorted Hfull (ctx_init fs None))
    as (c0 & rd & Hopen & Hrel); [split; reflexivity | exact Hlist | discriminate |].
  pose proof (rr_open_sim rreaderS vecr rsim rd _ Hrel) as Hsim0.
  assert (Hstart : rr_open vecr (vec_at P fs files 0) = mkRR (rd_at P S kb 0) [] false).
  { unfold rr_open, fr_open. f_equal.
    change (mkFR (vec_at P fs files 0) 0 false) with (rd_at P St 0 0).
    rewrite HSt. rewrite <- Hkb, rd_at_drop. f_equal. lia. }
  rewrite Hstart in Hsim0.
  destruct (reads_tr_FV g _ _ _ HrdV _ Hsim0) as (lF & rrfF & HrdF & Hall & Hfin).
  pose proof (Forall2_length' _ _ _ Hall) as HlenF.
  rewrite combine_length, Hlen, Nat.min_id in HlenF.
  exists c0, rd, lF, rrfF.
  split; [exact Hopen|]. split; [exact HrdF|].
  unfold trace_ok, kept_spec.
  set (w0 := rd_into_writer P (fr_rd (rr_fr rrfF)) (fr_cursor (rr_fr rrfF))).
  split.
  { rewrite <- (map_snd_combine rrs es_suf) by exact Hlen.
    apply (map_snd_Forall2 _ _ _ Hall). }
  destruct (reads_tr_rest P HBS_lo HBS_hi g _ _ _ HrdV) as (Hrest_fin & Hrest_all & Hrest_sorted).
  (* the final reader *)
  assert (Hbp : kb * B <= bpos P S (fr_rd (rr_fr rrfV))).
  { cbn [rr_fr] in Hrest_fin. pose proof (bpos_rd_at P HBS_lo HBS_hi Hcrc S kb 0 Hblk) as Hb0.
    unfold bpos in *. lia. }
  destruct (at_end_kc P HBS_lo HBS_hi Hcrc S _ _ kb Hend) as (k & c & Hfr & Hkk & Hkblk & Hc & Hcase);
    [exact Hbp|].
  pose proof Hfin as Hfin0.
  destruct Hfin as ((Hrfin & Hcur & _) & _ & _).
  destruct (rd_rel_idx _ _ Hrfin) as (Hcok & Hfl & i & j & Hfile & Hi & Hj & Hid & Hl).
  rewrite Hfr in Hl, Hcur. unfold rd_at in Hl, Hcur. cbn [fr_rd vr_rest fr_cursor] in Hl, Hcur.
  rewrite lenN_dropN in Hl.
  assert (Hk : k = kb + i * NB P + j).
  { assert (E : k * B = (kb + i * NB P + j) * B) by lia.
    apply N.mul_cancel_r in E; lia. }
  assert (Hwfile : w_file w0 = lo + i) by exact Hfile.
  assert (Hwoff : w_off w0 = j * B + c).
  { unfold w0, rd_into_writer. cbn [w_off]. rewrite Hid, Hcur. reflexivity. }
  assert (Hpos : (w_file w0 - base) * FB + w_off w0 = k * B + c).
  { rewrite Hwfile, Hwoff, Hk. replace (lo + i - base) with ((lo - base) + i) by lia.
    unfold kb. rewrite FB_eq. lia. }
  split; [rewrite tags_of_length; exact HlenF|].
  split.
  { (* the tags are not beyond the first frames *)
    apply Forall2_map_l'.
    eapply Forall2_trans'; [|exact Hall|apply Forall2_combine_l; [|exact Htr]].
    - cbn beta. intros x y s [Hxy _] Hys.
      pose proof (sim_tag_bpos S base kb _ _ Hxy Hbase Hkb HlenSt). lia.
    - exact Hlen. }
  split.
  { apply StronglySorted_map.
    eapply StronglySorted_Forall2; [|exact Hall|exact Hrest_sorted].
    cbn beta. intros x y x' y' [Hxy _] [Hxy' _] Hle. eapply sim_tag_le; eassumption. }
  split.
  { apply Forall_map.
    eapply Forall2_Forall_l; [|exact Hall|exact Hrest_all].
    cbn beta. intros x y [Hxy _] [_ Hle]. split.
    - apply (sim_tag_lo _ _ Hxy).
    - change (w_file w0) with (tag_of rrfF).
      eapply sim_tag_le; [exact Hxy|exact Hfin0|exact Hle]. }
  split; [exact Hfl|]. split; [lia|]. split; [lia|].
  rewrite N.add_0_l in Hcase.
  assert (HlenS' : lenN S = kb * B + (N.of_nat n + 1) * (NB P * B)).
  { rewrite <- HlenSt, lenN_St, FB_eq. lia. }
  split.
  { destruct Hcase as [(Hp & Hc7) | (Hp & Hc7 & Hlast)].
    - left. split; [lia|]. rewrite Hwoff, FB_eq.
      assert ((j + 1) * B <= NB P * B) by (apply N.mul_le_mono_r; lia). lia.
    - right.
      assert (Hin : i = N.of_nat n /\ j + 1 = NB P).
      { rewrite HlenS', Hk in Hlast.
        assert (E1 : (N.of_nat n + 1) * NB P < i * NB P + j + 2).
        { apply (TornProofs.mulB_lt_inv P HBS_lo HBS_hi). lia. }
        destruct (N.eq_dec i (N.of_nat n)) as [Ei|Ni].
        - subst i. split; [reflexivity|]. lia.
        - exfalso.
          assert (H : (i + 1) * NB P <= N.of_nat n * NB P) by (apply N.mul_le_mono_r; lia).
          lia. }
      destruct Hin as [-> Hj1].
      split; [lia|]. split; [lia|]. rewrite Hwoff, FB_eq.
      replace (NB P) with (j + 1) by exact Hj1. lia. }
  split; [reflexivity|]. destruct Hcok as [Hcfs Hcplan].
  split; [exact Hcfs | exact Hcplan].
Qed.

(* the writer in the terms of the writer that was dropped: when the log ends in the last file
   (always the case when a clean writer wrote it: its current file is the last one), at offset
   woff of it, open's writer is in the last file at FileStream.norm_off woff *)
Lemma kept_spec_last w0 tags woff :
  kept_spec w0 tags ->
  e_end = (cur - base) * FB + woff -> woff <= FB ->
  w_file w0 = cur /\ w_off w0 = norm_off P woff.
Proof.
  intros (_ & _ & _ & _ & _ & Hlo & Hcur & Hpos & _) He Hw.
  apply (final_pos_norm base lo cur (w_file w0) (w_off w0) e_end woff); assumption.
Qed.

(* the hypothesis of kept_spec_last from "T reaches into the last file, or there is one file" *)
Lemma reach_last :
  (cur - base) * FB <= lenN T \/ n = 0%nat ->
  exists woff, e_end = (cur - base) * FB + woff /\ woff <= FB.
Proof.
  intros Hreach. exists (e_end - (cur - base) * FB).
  assert (HT : lenN T <= (cur - base + 1) * FB).
  { pose proof HlenS as HL. rewrite lenN_app in HL. lia. }
  assert (Hb : b <= (cur - base) * FB) by (apply N.mul_le_mono_r; lia).
  assert (Hb1 : (cur - base + 1) * FB = (cur - base) * FB + FB) by lia.
  destruct Hreach as [H|H].
  - split; lia.
  - subst n. cbn [N.of_nat] in *. rewrite N.add_0_r in *. split; lia.
Qed.

(* the reading itself, in the vocabulary of FileStream.file_roundtrip: for any sufficient
   fuel, the rolling reader delivers the entries delivered from the boundary, then End *)
Lemma reads_tr_file_read_all g rr l rrf :
  readsF g rr l rrf -> forall fuel, (length l < fuel)%nat ->
  file_read_all P fuel g rr = (map FrEntry (map snd l) ++ [FrEnd], rrf).
Proof.
  induction 1 as [rr rr' Hgo | rr rr' l rrf Hgo Htr IH]; intros fuel Hf;
    (destruct fuel as [|fuel]; [cbn [length] in Hf; lia|]); cbn [file_read_all].
  - rewrite Hgo. reflexivity.
  - rewrite Hgo. cbn [length] in Hf. rewrite IH by lia. reflexivity.
Qed.

Lemma es_suf_length : (length es_suf <= length es_all)%nat.
Proof.
  pose proof (skipped_delivered P b es_all 0) as Hs.
  apply (f_equal (@length bytes)) in Hs. rewrite app_length in Hs. lia.
Qed.

Theorem file_read_delivered :
  exists c rd,
    rd_open P (ctx_init fs None) = (c, Ok rd) /\
    forall fuel gofuel,
      (length es_all < fuel)%nat -> lenN T + 7 <= 7 * N.of_nat gofuel ->
      exists rr tags,
        file_read_all P fuel gofuel (rr_open rreaderS rd) = (map FrEntry es_suf ++ [FrEnd], rr) /\
        kept_spec (rd_into_writer P (fr_rd (rr_fr rr)) (fr_cursor (rr_fr rr))) tags.
Proof.
  destruct (kept_files_trace (N.to_nat (lenN T + 8)) ltac:(lia))
    as (c0 & rd & _ & _ & Hopen & _).
  exists c0, rd. split; [exact Hopen|]. intros fuel gofuel Hfuel Hg.
  destruct (kept_files_trace gofuel Hg)
    as (c1 & rd1 & lF & rrfF & Hopen1 & HrdF & Hsnd & Hspec).
  rewrite Hopen in Hopen1. injection Hopen1 as _ <-.
  exists rrfF, (tags_of lF). split; [|exact Hspec].
  destruct Hspec as (HlenF & _).
  rewrite (reads_tr_file_read_all _ _ _ _ HrdF fuel).
  - rewrite Hsnd. reflexivity.
  - rewrite tags_of_length in HlenF. rewrite HlenF. pose proof es_suf_length. lia.
Qed.

(* the replay loop of open_with, for the fuel F, over the delivered entries when they are the
   serialisations of the entries E_suf *)
Lemma deser_of_map_snd (lF : list (rreader rreaderS * bytes)) : forall (E : list entry),
  map snd lF = map entry_ser E -> Forall wf_entry E ->
  Forall2 (fun x e0 => entry_deser (snd x) = Some e0) lF E.
Proof.
  induction lF as [|x lF IH]; intros [|e0 E] H Hw; cbn [map] in H; try discriminate; constructor.
  - injection H as Hx _. rewrite Hx. apply entry_roundtrip. inversion Hw; assumption.
  - injection H as _ Hr. apply IH; [exact Hr | inversion Hw; assumption].
Qed.

Lemma open_kept pol hint E_suf :
  L_IO P = false -> es_suf = map entry_ser E_suf -> Forall wf_entry E_suf ->
  exists w0 tags,
    kept_spec w0 tags /\
    match replay_entries [] (combine tags E_suf) with
    | Some qs => open P fs None pol hint = open_finish w0 qs pol hint
    | None => exists c, open P fs None pol hint = OpenCorruption c
    end.
Proof.
  intros Hio Hsuf Hwf.
  set (F := N.to_nat (lenN T + 8)).
  destruct (kept_files_trace F ltac:(unfold F; lia))
    as (c0 & rd & lF & rrfF & Hopen & HrdF & Hsnd & Hspec).
  set (w0 := rd_into_writer P (fr_rd (rr_fr rrfF)) (fr_cursor (rr_fr rrfF))) in *.
  exists w0, (tags_of lF). split; [exact Hspec|].
  destruct Hspec as (HlenF & _).
  assert (Hdeser : Forall2 (fun x e0 => entry_deser (snd x) = Some e0) lF E_suf).
  { apply deser_of_map_snd; [rewrite Hsnd; exact Hsuf | exact Hwf]. }
  assert (HF : (length lF < F)%nat).
  { pose proof (StreamProofs.encs_rel_len P HBS_lo HBS_hi Hcrc _ _ _ Henc) as Hcount.
    pose proof es_suf_length. rewrite tags_of_length in HlenF. unfold F. lia. }
  pose proof (replay_loop_fold P F _ _ _ HrdF E_suf Hdeser F [] HF) as Hfold.
  destruct (replay_entries [] (combine (tags_of lF) E_suf)) as [qs|].
  - apply (open_fuel_elim F); [exact Hio | | apply open_finish_not_fuel].
    unfold open_with. rewrite Hopen, Hfold. reflexivity.
  - destruct Hfold as [rr' Hfold]. exists (reader_ctx rr').
    apply (open_fuel_elim F); [exact Hio | | discriminate].
    unfold open_with. rewrite Hopen, Hfold. reflexivity.
Qed.

End Kept.

(* ---------- (3) in the terms of the plan: entries ---------- *)
Theorem open_replays_delivered base E_all T z pol hint :
  L_IO P = false ->
  base <= lo ->
  list_wal_numbers fs = files ->
  Forall wf_entry E_all ->
  encs_rel P 0 (map entry_ser E_all) T ->
  St = dropN ((lo - base) * FB) (T ++ zerosN z) ->
  lenN (T ++ zerosN z) = (lo + N.of_nat n - base + 1) * FB ->
  let b := (lo - base) * FB in
  exists w0 tags E_pre E_suf,
    E_all = E_pre ++ E_suf /\
    map entry_ser E_pre = skipped_before P b 0 (map entry_ser E_all) /\
    map entry_ser E_suf = delivered_from P b 0 (map entry_ser E_all) /\
    kept_spec base (map entry_ser E_all) T w0 tags /\
    match replay_entries [] (combine tags E_suf) with
    | Some qs => open P fs None pol hint = open_finish w0 qs pol hint
    | None => exists c, open P fs None pol hint = OpenCorruption c
    end.
Proof.
  intros Hio Hbase Hlist Hwf Henc HSt HlenS b.
  pose proof (skipped_delivered P b (map entry_ser E_all) 0) as Hsplit.
  destruct (map_app_inv entry_ser E_all _ _ Hsplit) as (E_pre & E_suf & HE & Hpre & Hsuf).
  assert (Hwf_suf : Forall wf_entry E_suf).
  { rewrite HE in Hwf. apply Forall_app in Hwf. apply Hwf. }
  destruct (open_kept base (map entry_ser E_all) T z Hbase Hlist Henc HSt HlenS pol hint E_suf
              Hio (eq_sym Hsuf) Hwf_suf) as (w0 & tags & Hspec & Hres).
  exists w0, tags, E_pre, E_suf.
  split; [exact HE|]. split; [exact Hpre|]. split; [exact Hsuf|]. split; [exact Hspec|exact Hres].
Qed.

(* ... with the writer in the last file, at the normalised offset, when the log reaches into
   the last file (or there is only one file) *)
Corollary open_replays_delivered_last base E_all T z pol hint :
  L_IO P = false ->
  base <= lo ->
  list_wal_numbers fs = files ->
  Forall wf_entry E_all ->
  encs_rel P 0 (map entry_ser E_all) T ->
  St = dropN ((lo - base) * FB) (T ++ zerosN z) ->
  lenN (T ++ zerosN z) = (lo + N.of_nat n - base + 1) * FB ->
  let b := (lo - base) * FB in
  let cur := lo + N.of_nat n in
  (cur - base) * FB <= lenN T \/ n = 0%nat ->
  exists w0 tags E_pre E_suf,
    E_all = E_pre ++ E_suf /\
    map entry_ser E_pre = skipped_before P b 0 (map entry_ser E_all) /\
    map entry_ser E_suf = delivered_from P b 0 (map entry_ser E_all) /\
    kept_spec base (map entry_ser E_all) T w0 tags /\
    w_file w0 = cur /\
    w_off w0 = norm_off P (N.max b (lenN T) - (cur - base) * FB) /\
    match replay_entries [] (combine tags E_suf) with
    | Some qs => open P fs None pol hint = open_finish w0 qs pol hint
    | None => exists c, open P fs None pol hint = OpenCorruption c
    end.
Proof.
  intros Hio Hbase Hlist Hwf Henc HSt HlenS b cur Hreach.
  destruct (open_replays_delivered base E_all T z pol hint Hio Hbase Hlist Hwf Henc HSt HlenS)
    as (w0 & tags & E_pre & E_suf & HE & Hpre & Hsuf & Hspec & Hres).
  destruct (reach_last base T z Hbase Hlist HSt HlenS Hreach) as (woff & He & Hw).
  destruct (kept_spec_last base _ T Hbase w0 tags woff Hspec He Hw) as [Hf Ho].
  exists w0, tags, E_pre, E_suf.
  split; [exact HE|]. split; [exact Hpre|]. split; [exact Hsuf|]. split; [exact Hspec|].
  split; [exact Hf|]. split; [|exact Hres].
  rewrite Ho. f_equal. fold b cur in He. fold b cur. lia.
Qed.

End Dir.

End Files.

(* ====================================================================== *)
(* Part 4. Sanity: the whole log (lo = base)                               *)
(* ====================================================================== *)
Section Whole.
Variable P : params.
Hypothesis HBS_lo : 7 < BS P.
Hypothesis HBS_hi : BS P <= 65542.
Hypothesis HNB : 1 <= NB P.
Hypothesis Hcrc : forall t p, crcf P t p < 2 ^ 32.
Local Notation B := (BS P).
Local Notation FB := (FILE_BYTES P).

(* from boundary 0 everything is delivered *)
Lemma delivered_from_0 es : forall a, delivered_from P 0 a es = es.
Proof.
  destruct es as [|p ps]; intros a; cbn [delivered_from]; [reflexivity|].
  destruct (N.leb_spec 0 (first_frame_pos P a)) as [_|H]; [reflexivity | lia].
Qed.

Lemma skipped_before_0 es : forall a, skipped_before P 0 a es = [].
Proof.
  destruct es as [|p ps]; intros a; cbn [skipped_before]; [reflexivity|].
  destruct (N.leb_spec 0 (first_frame_pos P a)) as [_|H]; [reflexivity | lia].
Qed.

Lemma iota_last m : forall lo, last_opt (iota lo (Datatypes.S m)) = Some (lo + N.of_nat m).
Proof.
  induction m as [|m IH]; intros lo.
  - cbn. f_equal. lia.
  - change (iota lo (Datatypes.S (Datatypes.S m))) with (lo :: iota (lo + 1) (Datatypes.S m)).
    rewrite last_opt_cons_ne by (cbn [iota]; discriminate). rewrite IH. f_equal. lia.
Qed.

(* FileStream.file_roundtrip follows from file_read_delivered with base = lo (the only
   difference: 7 more bytes of go_next fuel are asked for, the price of the general boundary) *)
Theorem file_roundtrip_via_kept pol st0 es :
  open P [] None pol [] = OpenOk st0 ->
  vw_cursor (fst (mem_write_all P (mkVecW 0 []) es)) <= MAXLEN P ->
  exists w',
    file_write_all P (s_wr st0) es = (w', Ok (snd (mem_write_all P (mkVecW 0 []) es))) /\
    forall qs pol',
      let fs' := c_fs (drop_log (mkSt w' qs pol')) in
      exists c rd,
        rd_open P (ctx_init fs' None) = (c, Ok rd) /\
        forall fuel gofuel,
          (length es < fuel)%nat -> lenN (w_files w') * FB + 7 <= 7 * N.of_nat gofuel ->
          exists rr,
            file_read_all P fuel gofuel (rr_open rreaderS rd) = (map FrEntry es ++ [FrEnd], rr) /\
            let wr := rd_into_writer P (fr_rd (rr_fr rr)) (fr_cursor (rr_fr rr)) in
            w_files wr = w_files w' /\ w_file wr = w_file w' /\
            w_off wr = norm_off P (w_off w') /\
            w_pending wr = [] /\ c_fs (w_ctx wr) = fs' /\ c_plan (w_ctx wr) = None.
Proof.
  intros Hopen HG.
  destruct (open_fresh P HBS_lo HBS_hi HNB pol) as (c0 & Hc0 & Hopen'). rewrite Hopen' in Hopen.
  injection Hopen as <-. cbn [s_wr].
  set (w0 := mkWr c0 [0] 0 (0 * B + 0) []) in *.
  destruct (file_write_all_sim P HBS_lo HBS_hi HNB Hcrc es w0 (mkVecW 0 [])
              (wsim_fresh P HBS_lo HBS_hi HNB c0 Hc0) HG) as (w' & Hw' & Hs').
  exists w'. split; [exact Hw'|].
  destruct (mem_write_all_spec P HBS_lo HBS_hi Hcrc es (mkVecW 0 [])) as (ns & t & Hmem & Hencs & _).
  rewrite Hmem in Hs'. cbn [fst vw_cursor vw_buf app] in Hs', Hencs.
  destruct Hs' as [(Hi & Hcur & _ & HS & _) Hoffpos]. cbn [vw_cursor vw_buf] in Hcur, HS.
  rewrite N.add_0_l in Hcur.
  destruct (fresh_dir_inv P HBS_lo HBS_hi HNB c0 Hc0) as [Hwd0 Hnd0]. fold w0 in Hwd0, Hnd0.
  assert (Hwd : wd_ok w').
  { apply (file_write_all_inv P wd_ok (wr_write_wd_ok P) es w0 w' _ Hw' Hwd0). }
  assert (Hnd : nd w').
  { apply (file_write_all_inv P nd (wr_write_nd P) es w0 w' _ Hw' Hnd0). }
  intros qs pol'. change (c_fs (drop_log (mkSt w' qs pol'))) with (vfs w').
  set (fs' := vfs w') in *.
  pose proof Hi as (Hok & _ & Hoff & _ & _ & Hfull & _). fold fs' in Hfull.
  assert (Hlist : list_wal_numbers fs' = w_files w') by (apply (listing_after P); assumption).
  destruct Hok as [Hcontig Hlast].
  destruct (proj1 (contiguous_iota _) Hcontig) as (lo & n & Hfiles).
  unfold wstream in HS. fold fs' in HS. unfold wpos in Hcur, HS.
  rewrite Hfiles in *. rewrite iota_last in Hlast. injection Hlast as Hwfile.
  rewrite lenN_iota in *.
  replace (N.of_nat (Datatypes.S n) - 1) with (N.of_nat n) in * by lia.
  set (z := N.of_nat (Datatypes.S n) * FB - (N.of_nat n * FB + w_off w')) in *.
  assert (HSt : stream_of fs' (iota lo (Datatypes.S n)) = dropN ((lo - lo) * FB) (t ++ zerosN z)).
  { rewrite N.sub_diag, N.mul_0_l, dropN_0. exact HS. }
  assert (HlenS : lenN (t ++ zerosN z) = (lo + N.of_nat n - lo + 1) * FB).
  { rewrite <- HS, (lenN_S P fs' _ Hfull), lenN_iota. f_equal. lia. }
  destruct (file_read_delivered P HBS_lo HBS_hi HNB Hcrc fs' lo n Hfull lo es t z
              (N.le_refl lo) Hlist Hencs HSt HlenS) as (c & rd & Hrd & Hread).
  exists c, rd. split; [exact Hrd|].
  intros fuel gofuel Hfuel Hgofuel.
  assert (HtS : lenN t <= N.of_nat (Datatypes.S n) * FB).
  { rewrite lenN_app in HlenS. lia. }
  destruct (Hread fuel gofuel Hfuel ltac:(lia)) as (rr & tags & Hfr & Hspec).
  exists rr. split.
  - rewrite Hfr, N.sub_diag, N.mul_0_l, delivered_from_0. reflexivity.
  - cbv zeta.
    destruct (kept_spec_last P HBS_lo HBS_hi HNB fs' lo n lo es t (N.le_refl lo) _ tags (w_off w') Hspec)
      as [Hf Ho].
    + rewrite N.sub_diag, N.mul_0_l. replace (lo + N.of_nat n - lo) with (N.of_nat n) by lia. lia.
    + exact Hoff.
    + destruct Hspec as (_ & _ & _ & _ & Hfl & _ & _ & _ & Hpend & Hcfs & Hcplan).
      repeat split; try assumption; congruence.
Qed.

(* the entries level with lo = base: every entry is replayed *)
Corollary open_replays_all fs lo n E_all T z pol hint :
  (forall f, In f (iota lo (Datatypes.S n)) ->
     exists b, fs_get fs (filename f) = Some (FFile b) /\ lenN b = FB) ->
  L_IO P = false ->
  list_wal_numbers fs = iota lo (Datatypes.S n) ->
  Forall wf_entry E_all ->
  encs_rel P 0 (map entry_ser E_all) T ->
  stream_of fs (iota lo (Datatypes.S n)) = T ++ zerosN z ->
  lenN (T ++ zerosN z) = (N.of_nat n + 1) * FB ->
  exists w0 tags,
    kept_spec P fs lo n lo (map entry_ser E_all) T w0 tags /\
    match replay_entries [] (combine tags E_all) with
    | Some qs => open P fs None pol hint = open_finish P w0 qs pol hint
    | None => exists c, open P fs None pol hint = OpenCorruption c
    end.
Proof.
  intros Hfull Hio Hlist Hwf Henc HSt HlenS.
  destruct (open_replays_delivered P HBS_lo HBS_hi HNB Hcrc fs lo n Hfull lo E_all T z pol hint
              Hio (N.le_refl lo) Hlist Hwf Henc)
    as (w0 & tags & E_pre & E_suf & HE & Hpre & _ & Hspec & Hres).
  - rewrite N.sub_diag, N.mul_0_l, dropN_0. exact HSt.
  - rewrite HlenS. f_equal. lia.
  - rewrite N.sub_diag, N.mul_0_l, skipped_before_0 in Hpre.
    apply map_eq_nil in Hpre. subst E_pre. cbn [app] in HE. subst E_suf.
    exists w0, tags. split; assumption.
Qed.

End Whole.

Print Assumptions read_delivered_tr.
Print Assumptions read_delivered_fin.
Print Assumptions replay_loop_fold.
Print Assumptions replay_loop_done_iff.
Print Assumptions kept_files_trace.
Print Assumptions file_read_delivered.
Print Assumptions open_kept.
Print Assumptions open_replays_delivered.
Print Assumptions open_replays_delivered_last.
Print Assumptions kept_spec_last.
Print Assumptions file_roundtrip_via_kept.
Print Assumptions open_replays_all.

(* ---------- a concrete instance of the ghost setting with lo > base ---------- *)
(* BS = 16, two blocks per file; six entries written from a fresh directory fill files 0..6;
   file 0 is then removed: the kept files 1..6 are the tail of the stream from byte 32, and
   the first entry (first frame at 0) is the only one not delivered. *)
Module Example.
Definition Px : params := mkParams 16 2 (fun _ _ => 5) 0 false false false.
Definition qa : bytes := ["a"%byte].
Definition qb : bytes := ["b"%byte].
Definition E_ex : list entry :=
  [EPosition qa 0; EAppend qa 0 [(0, ["x"%byte; "y"%byte])]; EPosition qb 3;
   EAppend qa 1 [(1, ["z"%byte])]; ETruncate qa 0; EPosition qb 7].
Definition es_ex := map entry_ser E_ex.
Definition T_ex := encs_of Px 0 es_ex.
Definition fs_full : fsT :=
  match open Px [] None PNothing [] with
  | OpenOk st0 => vfs (fst (file_write_all Px (s_wr st0) es_ex))
  | _ => []
  end.
Definition fs_kept := fs_remove fs_full (filename 0).

Example setting_ok :
  list_wal_numbers fs_kept = iota 1 6 /\
  bytes_eqb (stream_of fs_kept (iota 1 6))
            (dropN ((1 - 0) * FILE_BYTES Px) (T_ex ++ zerosN (7 * 32 - lenN T_ex))) = true /\
  map snd (starts Px 0 es_ex) = [0; 32; 80; 112; 160; 192] /\
  delivered_from Px ((1 - 0) * FILE_BYTES Px) 0 es_ex = tl es_ex.
Proof. vm_compute. repeat split; reflexivity. Qed.
End Example.
