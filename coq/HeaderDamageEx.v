(* HeaderDamageEx.v — instances for HeaderDamage.v, by computation with the real CRC-32
   (params Pc of DamageAtomic.Example: BS = 32):
   (A) finding F4: a payload embedding the byte image of a CRC-valid frame + ONE overwritten
       byte (the length field of the previous frame): the reader delivers an entry that was
       never written; this stream violates NoEmbedded / NoEmbeddedPath, all other premises
       of header_damage_sublist hold: the hypothesis is necessary.
   (B) non-vacuity: the same entries with another value of the same length byte: the premises
       of header_damage_local hold (NoEmbeddedPath does, although the all-offsets form
       NoEmbedded does not), damage is confined to block 0 and the entry of block 1 is delivered.
   (C) the claim "every entry lying entirely outside the damaged block is delivered" is FALSE
       in the model: a damaged length field makes the reader land on zero payload bytes,
       which read as the end of the log; the entry of block 1 is lost although NoEmbedded
       holds (even in its all-offsets form).  Hence the disjunct `tail = []`. *)
From Coq Require Import Lia ZArith ZifyN ZifyNat ZifyBool List.
From MRL Require Import Bytes BytesProofs Params Frame Driver StreamProofs DamageProofs TornProofs
  ResyncProofs HeaderDamageEv HeaderDamage.
From MRL Require DamageAtomic VacBase.
Import ListNotations.
Import DamageAtomic.Example.

Arguments N.add : simpl never.
Arguments N.sub : simpl never.
Arguments N.mul : simpl never.

Local Notation rframe := (read_frame Pc vecr (vr_next Pc) vr_block).
Local Notation K f := (f Pc Pc_BS_lo Pc_BS_hi Pc_crc) (only parsing).

(* ---------- a checker for the all-offsets form ---------- *)
Definition fspec_eqb (x y : fspec) : bool :=
  bytes_eqb (fs_c4 x) (fs_c4 y) && (ft_code (fs_ty x) =? ft_code (fs_ty y)) &&
  bytes_eqb (fs_pl x) (fs_pl y).

Lemma fspec_eqb_eq x y : fspec_eqb x y = true -> x = y.
Proof.
  destruct x as [c ty pl], y as [c' ty' pl']. unfold fspec_eqb. cbn [fs_c4 fs_ty fs_pl].
  intros H. apply andb_true_iff in H as [H H3]. apply andb_true_iff in H as [H1 H2].
  apply bytes_eqb_eq in H1, H3. subst.
  assert (ty = ty') by (destruct ty, ty'; try reflexivity; discriminate H2). subst. reflexivity.
Qed.

Definition acc_chk (D : bytes) (b : N) (xs : list fspec) : bool :=
  VacBase.all_lt (BS Pc - 6) (fun o =>
    match rframe (rd_at Pc D b o) with
    | (_, FOk t p) =>
        existsb (fun qx => (fst qx =? b * BS Pc + o) && fspec_eqb (snd qx) (good_fs Pc t p))
                (fpos Pc 0 xs)
    | _ => true
    end).

Lemma acc_chk_sound D b xs :
  (b + 1) * BS Pc <= lenN D -> acc_chk D b xs = true -> NoEmbeddedX Pc D b xs.
Proof.
  intros Hblk H. apply (K accepted_genuine_all); [exact Hblk|].
  intros o Ho fr' t p E.
  pose proof (VacBase.all_lt_spec _ _ H o ltac:(lia)) as Ho'. cbv beta in Ho'. rewrite E in Ho'.
  apply existsb_exists in Ho' as ([q x] & Hin & Hq). cbn [fst snd] in Hq.
  apply andb_true_iff in Hq as [Hq1 Hq2]. apply N.eqb_eq in Hq1. apply fspec_eqb_eq in Hq2.
  subst. exact Hin.
Qed.

Definition evil : bytes := ["e"; "v"; "i"; "l"]%byte.
Definition e1 : bytes := ["a"; "b"; "c"]%byte.
Definition e2 : bytes := ["x"; "y"]%byte ++ frame_bytes Pc Full evil.
Definition e3 : bytes := ["h"; "e"; "l"; "l"; "o"]%byte.

Lemma written_rel es t :
  vw_buf (fst (mem_write_all Pc (mkVecW 0 []) es)) = t -> encs_rel Pc 0 es t.
Proof.
  intros E. destruct (K mem_write_all_spec es (mkVecW 0 [])) as (ns & t' & Hall & Hes & _).
  rewrite Hall in E. cbn [fst vw_buf app] in E. subst t'. exact Hes.
Qed.

(* ====================== (A) finding F4 ====================== *)
Module A.
Definition es : list bytes := [e1; e2; e3].
Definition t : bytes := Eval vm_compute in vw_buf (fst (mem_write_all Pc (mkVecW 0 []) es)).
Definition S : bytes := Eval vm_compute in mem_stream Pc t.
(* one byte overwritten: the low byte of the length field of the first frame, 3 -> 12 *)
Definition D : bytes := Eval vm_compute in write_at S 4 ["012"%byte].

Definition xs : list fspec := [good_fs Pc Full e1; good_fs Pc Full e2; good_fs Pc Full e3].

Lemma rel : encs_rel Pc 0 es t.
Proof. apply written_rel. vm_compute. reflexivity. Qed.

Lemma dmg : damaged_in_block Pc D t 0.
Proof. unfold damaged_in_block. repeat split; vm_compute; congruence. Qed.

Lemma lay : layout Pc 0 xs t.
Proof.
  change t with (pad_of Pc 0 ++ fs_bytes (good_fs Pc Full e1) ++
                 pad_of Pc 10 ++ fs_bytes (good_fs Pc Full e2) ++
                 pad_of Pc 30 ++ fs_bytes (good_fs Pc Full e3) ++ []).
  apply LY_cons; [reflexivity|vm_compute; congruence|].
  change (0 + lenN (pad_of Pc 0) + 7 + lenN (fs_pl (good_fs Pc Full e1))) with 10.
  apply LY_cons; [reflexivity|vm_compute; congruence|].
  change (10 + lenN (pad_of Pc 10) + 7 + lenN (fs_pl (good_fs Pc Full e2))) with 30.
  apply LY_cons; [reflexivity|vm_compute; congruence|]. constructor.
Qed.

(* what the reader delivers: a Corruption, then an entry that was never written; the entry of
   block 1 is untouched *)
Lemma out : mem_read_stream Pc D = [MrCorrupt; MrEntry evil; MrEntry e3; MrEnd].
Proof. vm_compute. reflexivity. Qed.

Lemma not_sublist : ~ sublist (delivered (mem_read_stream Pc D)) es.
Proof.
  rewrite out. cbn [delivered flat_map app]. intros H.
  assert (Hin : forall (l1 l2 : list bytes), sublist l1 l2 -> forall x, In x l1 -> In x l2).
  { induction 1 as [|y l1 l2 Hs IH|y l1 l2 Hs IH]; intros x Hx; [exact Hx|right; auto|].
    destruct Hx as [->|Hx]; [left; reflexivity|right; auto]. }
  specialize (Hin _ _ H evil (or_introl eq_refl)).
  destruct Hin as [E|[E|[E|[]]]]; vm_compute in E; discriminate E.
Qed.

(* the stream violates the hypothesis, even in its weakest (path) form: offset 19 is on the
   reader's path and carries the image of a CRC-valid frame that the writer did not put there *)
Lemma reach19 : reach Pc D 0 19.
Proof.
  apply (reach_step Pc D 0 0 19 FCorrupt); [constructor|vm_compute; congruence|].
  vm_compute. reflexivity.
Qed.

Lemma violates_path : ~ NoEmbeddedPath Pc D 0 t.
Proof.
  intros H. specialize (H xs lay eq_refl 19 reach19 Full evil).
  assert (Hin : In (0 * BS Pc + 19, good_fs Pc Full evil) (fpos Pc 0 xs)).
  { apply H; [vm_compute; congruence|vm_compute; reflexivity]. }
  vm_compute in Hin. destruct Hin as [E|[E|[E|[]]]]; discriminate E.
Qed.

Lemma violates : ~ NoEmbedded Pc D 0 t.
Proof. intros H. exact (violates_path (NoEmbedded_path Pc D 0 t H)). Qed.

(* so the conclusion of header_damage_sublist fails while its other premises hold *)
Theorem NoEmbedded_necessary :
  encs_rel Pc 0 es t /\ damaged_in_block Pc D t 0 /\
  ~ sublist (delivered (mem_read_stream Pc D)) es /\ ~ NoEmbeddedPath Pc D 0 t.
Proof. exact (conj rel (conj dmg (conj not_sublist violates_path))). Qed.
End A.

(* ====================== (B) non-vacuity ====================== *)
Module B.
Definition es : list bytes := A.es.
Definition t : bytes := A.t.
Definition xs : list fspec := A.xs.
(* the length field of the SECOND frame: 13 -> 5; the reader then lands inside the embedded
   frame image (not at its start) *)
Definition D : bytes := Eval vm_compute in write_at A.S 14 ["005"%byte].

Lemma dmg : damaged_in_block Pc D t 0.
Proof. unfold damaged_in_block. repeat split; vm_compute; congruence. Qed.

Lemma reach_set o : reach Pc D 0 o -> o = 0 \/ o = 10 \/ o = 22.
Proof.
  induction 1 as [|c c' res Hr IH Hc E]; [left; reflexivity|].
  destruct IH as [->|[->| ->]]; vm_compute in E; inversion E; auto.
Qed.

Lemma path_ok : NoEmbeddedPath Pc D 0 t.
Proof.
  apply (K NoEmbeddedPath_of_X D 0 t xs A.lay).
  apply (K accepted_genuine_path); [vm_compute; congruence|].
  intros o Hr Ho fr' ty p E.
  destruct (reach_set o Hr) as [->|[->| ->]]; vm_compute in E; inversion E; subst.
  vm_compute. left. reflexivity.
Qed.

(* the all-offsets form does not hold here: the embedded image still stands at offset 19 *)
Lemma all_offsets_fails : ~ NoEmbedded Pc D 0 t.
Proof.
  intros H. specialize (H xs A.lay eq_refl 19 Full evil).
  assert (Hin : In (0 * BS Pc + 19, good_fs Pc Full evil) (fpos Pc 0 xs)).
  { apply H; [vm_compute; congruence|vm_compute; reflexivity]. }
  vm_compute in Hin. destruct Hin as [E|[E|[E|[]]]]; discriminate E.
Qed.

(* header_damage_local applied with ALL its premises discharged:
   es1 = [], esb = [e1; e2] (block 0), es3 = [e3] (block 1) *)
Definition tb : bytes := Eval vm_compute in encs_of Pc 0 [e1; e2].
Definition t3 : bytes := Eval vm_compute in encs_of Pc 30 [e3].

Lemma relb : encs_rel Pc (lenN (@nil byte)) [e1; e2] tb.
Proof. change tb with (encs_of Pc 0 [e1; e2]). apply (K encs_of_rel). Qed.
Lemma rel3 : encs_rel Pc (lenN (@nil byte) + lenN tb) [e3] t3.
Proof. change t3 with (encs_of Pc 30 [e3]). apply (K encs_of_rel). Qed.

Theorem instance :
  let out := mem_read_stream Pc D in
  ~ In MrFuel out /\ sublist (delivered out) ([] ++ [e1; e2] ++ [e3]) /\
  exists mid tail, delivered out = [] ++ mid ++ tail /\ sublist mid [e1; e2] /\
                   (tail = [e3] \/ (tail = [] /\ stopped_in Pc D 0)).
Proof.
  apply (K header_damage_local [] [e1; e2] [e3] [] tb t3 D 0 (ES_nil Pc 0) relb rel3).
  - exact dmg.
  - vm_compute. congruence.
  - right. vm_compute. congruence.
  - exact path_ok.
Qed.

Lemma out : mem_read_stream Pc D = [MrEntry e1; MrCorrupt; MrCorrupt; MrEntry e3; MrEnd].
Proof. vm_compute. reflexivity. Qed.
End B.

(* ====================== (C) a zero header inside the damaged block ends the log ========== *)
Module C.
Definition z12 : bytes := zerosN 12.
Definition es : list bytes := [e1; z12; e3].
Definition t : bytes := Eval vm_compute in vw_buf (fst (mem_write_all Pc (mkVecW 0 []) es)).
Definition S : bytes := Eval vm_compute in mem_stream Pc t.
(* the length field of the first frame: 3 -> 10; the reader lands on the zero payload of the
   second entry *)
Definition D : bytes := Eval vm_compute in write_at S 4 ["010"%byte].
Definition xs : list fspec := [good_fs Pc Full e1; good_fs Pc Full z12; good_fs Pc Full e3].

Lemma rel : encs_rel Pc 0 es t.
Proof. apply written_rel. vm_compute. reflexivity. Qed.

Lemma dmg : damaged_in_block Pc D t 0.
Proof. unfold damaged_in_block. repeat split; vm_compute; congruence. Qed.

Lemma lay : layout Pc 0 xs t.
Proof.
  change t with (pad_of Pc 0 ++ fs_bytes (good_fs Pc Full e1) ++
                 pad_of Pc 10 ++ fs_bytes (good_fs Pc Full z12) ++
                 pad_of Pc 29 ++ fs_bytes (good_fs Pc Full e3) ++ []).
  apply LY_cons; [reflexivity|vm_compute; congruence|].
  change (0 + lenN (pad_of Pc 0) + 7 + lenN (fs_pl (good_fs Pc Full e1))) with 10.
  apply LY_cons; [reflexivity|vm_compute; congruence|].
  change (10 + lenN (pad_of Pc 10) + 7 + lenN (fs_pl (good_fs Pc Full z12))) with 29.
  apply LY_cons; [reflexivity|vm_compute; congruence|]. constructor.
Qed.

(* NoEmbedded holds, in the all-offsets form *)
Lemma noemb : NoEmbedded Pc D 0 t.
Proof.
  apply (K NoEmbedded_of_X D 0 t xs lay).
  apply acc_chk_sound; [vm_compute; congruence|]. vm_compute. reflexivity.
Qed.

(* e3 lies entirely in block 1, the damage entirely in block 0, and e3 is NOT delivered *)
Lemma out : mem_read_stream Pc D = [MrCorrupt; MrEnd].
Proof. vm_compute. reflexivity. Qed.

Theorem later_entries_can_be_lost :
  encs_rel Pc 0 es t /\ damaged_in_block Pc D t 0 /\ NoEmbedded Pc D 0 t /\
  sliceN 32 64 D = sliceN 32 64 S /\
  sliceN 32 44 S = frame_bytes Pc Full e3 /\
  ~ In e3 (delivered (mem_read_stream Pc D)).
Proof.
  split; [exact rel|]. split; [exact dmg|]. split; [exact noemb|].
  split; [vm_compute; reflexivity|]. split; [vm_compute; reflexivity|].
  rewrite out. cbn. tauto.
Qed.
End C.

Print Assumptions A.NoEmbedded_necessary.
Print Assumptions A.violates.
Print Assumptions B.instance.
Print Assumptions B.all_offsets_fails.
Print Assumptions C.later_entries_can_be_lost.
