(* PropC01.v — C01: clean restart reproduces the exact logical state. Proved layers: (L) the live queues are exactly the replay of the entries the calls logged; (S) replaying a suffix of a legal log gives, per queue, the same next position and exactly the records appended by entries of the suffix - deleted queues never reappear; (E) if every retained record was appended in the suffix and every empty queue is mentioned there, suffix and full log replay to the same state; (M) the model's replay refines the spec-level replay. END TO END: C01_restart_identity / C01_history_spec below (RestartFinal.v): for every history of well-formed calls with clean restarts anywhere, from a fresh directory, every restart succeeds and is the identity on the abstract state; the whole run refines the specification with restarts as no-ops. hist_ok = arguments well-formed (UTF-8 names < 2^16 bytes, positions and batch ends <= 2^64, payloads < 2^32 bytes) and the stream stays below 2^64 files; no I/O hypothesis is needed (step_no_io).
   Statements only; each theorem is closed by `exact <lemma>`; proofs live in the imported files. *)
From Coq Require Import Lia NArith List.
From MRL Require Import Bytes Params Names Frame Record Mem Spec Rolling Log Hist SpecRefine RecordProofs GhostLog ReplaySpec RestartInv RestartStep OpenReplay RestartFinal.

(* THE PROPERTY: after any history with restarts anywhere, dropping the log and opening the directory again succeeds and yields the same queues, the same retained records (range, byte for byte, all bounds), the same last position and last record for every queue *)
Theorem C01_restart_identity :
    forall P : params,
    7 < BS P ->
    BS P <= 65542 ->
    1 <= NB P ->
    (forall (t : byte) (p : bytes), crcf P t p < 2 ^ 32) ->
    L_GC P = false ->
    L_IO P = false ->
    forall (pol0 : policy) (st0 : state) (h : list hop) (st : state) (outs : list outcome),
    open P [] None pol0 [] = OpenOk st0 ->
    hrun P st0 h = Some (st, outs) ->
    hist_ok P st0 h ->
    restart_bound P st ->
    forall (pol : policy) (hint : list bytes),
    exists st' : state,
    restart P st pol hint = OpenOk st' /\
    (forall q : bytes, s_get (abs_qs (s_qs st')) q = s_get (abs_qs (s_qs st)) q) /\
    (forall (q : bytes) (lo hi : bound), log_range st' q lo hi = log_range st q lo hi) /\
    (forall q : bytes, log_last_position st' q = log_last_position st q) /\
    (forall q : bytes, log_last_record st' q = log_last_record st q).
Proof. exact C01_restart_identity. Qed.
Print Assumptions C01_restart_identity.

(* the whole history (calls and restarts) refines the sequential specification run over the calls alone: restarts are no-ops; outcomes agree *)
Theorem C01_history_spec :
    forall P : params,
    7 < BS P ->
    BS P <= 65542 ->
    1 <= NB P ->
    (forall (t : byte) (p : bytes), crcf P t p < 2 ^ 32) ->
    L_GC P = false ->
    L_IO P = false ->
    forall (pol0 : policy) (st0 : state) (h : list hop),
    open P [] None pol0 [] = OpenOk st0 ->
    hist_ok P st0 h ->
    exists (st : state) (outs : list outcome) (m : smap) (souts : list sout),
    hrun P st0 h = Some (st, outs) /\
    s_run [] (map sop_of (hcalls h)) = (m, souts) /\
    (forall q : bytes, s_get m q = s_get (abs_qs (s_qs st)) q) /\ map out_logical outs = map Some souts.
Proof. exact C01_history_spec. Qed.
Print Assumptions C01_history_spec.

(* one restart from any state satisfying the global invariant: open succeeds, re-establishes the invariant, abstract state unchanged *)
Theorem C01_inv_reopen :
    forall P : params,
    7 < BS P ->
    BS P <= 65542 ->
    1 <= NB P ->
    (forall (t : byte) (p : bytes), crcf P t p < 2 ^ 32) ->
    L_GC P = false ->
    L_IO P = false ->
    forall (st : state) (G : ghost),
    Inv P st G ->
    reopen_bound P st G ->
    forall (pol : policy) (hint : list bytes),
    exists (st' : state) (G' : ghost),
    open P (c_fs (drop_log st)) None pol hint = OpenOk st' /\
    Inv P st' G' /\
    (forall q : bytes, s_get (abs_qs (s_qs st')) q = s_get (abs_qs (s_qs st)) q) /\
    gh_base G' = gh_base G /\
    s_pol st' = pol /\
    (exists extra : list entry, gh_ALL G' = gh_ALL G ++ extra /\ pos_extra (abs_qs (s_qs st)) extra).
Proof. exact inv_reopen. Qed.
Print Assumptions C01_inv_reopen.

(* under the invariant no call fails with an I/O error (the model's file system only fails on name clashes, excluded by the invariant) *)
Theorem C01_no_io_needed :
    forall P : params,
    7 < BS P ->
    BS P <= 65542 ->
    1 <= NB P ->
    (forall (t : byte) (p : bytes), crcf P t p < 2 ^ 32) ->
    L_GC P = false ->
    forall (st : state) (G : ghost) (o : op) (tick : bool),
    Inv P st G ->
    op_wf_strict (s_qs st) o ->
    RestartWrite.stream_bound P G (map snd (step_log P st o)) -> no_io (snd (step P st o tick)).
Proof. exact step_no_io. Qed.
Print Assumptions C01_no_io_needed.

(* the invariant is preserved by every call, garbage collection included *)
Theorem C01_inv_step :
    forall P : params,
    7 < BS P ->
    BS P <= 65542 ->
    1 <= NB P ->
    (forall (t : byte) (p : bytes), crcf P t p < 2 ^ 32) ->
    L_GC P = false ->
    forall (st : state) (G : ghost) (o : op) (tick : bool) (st' : state) (out : outcome),
    Inv P st G ->
    op_wf_strict (s_qs st) o ->
    RestartWrite.stream_bound P G (map snd (step_log P st o)) ->
    step P st o tick = (st', out) ->
    (forall e : ioerr, out <> OutIo e) ->
    exists G' : ghost,
    Inv P st' G' /\
    gh_base G' = gh_base G /\ gh_dropped G' = gh_dropped G /\ gh_log G' = gh_log G ++ step_log P st o.
Proof. exact inv_step. Qed.
Print Assumptions C01_inv_step.

(* and holds for a fresh directory *)
Theorem C01_inv_fresh :
    forall P : params,
    7 < BS P ->
    BS P <= 65542 ->
    1 <= NB P ->
    forall (pol : policy) (st0 : state), open P [] None pol [] = OpenOk st0 -> Inv P st0 gh_fresh.
Proof. exact inv_fresh. Qed.
Print Assumptions C01_inv_fresh.

(* the ghost log does not change behaviour *)
Theorem C01_instrumentation_erases :
    forall (P : params) (st : state) (L : glog) (o : op) (tick : bool),
    fst (fst (gstep P (st, L) o tick)) = fst (step P st o tick) /\
    snd (gstep P (st, L) o tick) = snd (step P st o tick).
Proof. exact gstep_erase. Qed.
Print Assumptions C01_instrumentation_erases.

(* one call: the queues afterwards are exactly (same term) the replay of the entries it logged on the queues before *)
Theorem C01_live_is_replay :
    forall (P : params) (st : state) (L : glog) (o : op) (tick : bool) (st' : state)
    (L' : glog) (out : outcome),
    nodup_names (s_qs st) ->
    gstep P (st, L) o tick = (st', L', out) ->
    (forall e : ioerr, out <> OutIo e) ->
    exists es : list (N * entry), L' = L ++ es /\ replay_entries (s_qs st) es = Some (s_qs st').
Proof. exact live_is_replay. Qed.
Print Assumptions C01_live_is_replay.

(* any history from an empty log without I/O failure: the queues are the replay of the whole entry log *)
Theorem C01_history_is_replay :
    forall (P : params) (w : rwriter) (pol : policy) (h : list (op * bool)) (st' : state)
    (L' : glog) (outs : list outcome),
    grun P ({| s_wr := w; s_qs := []; s_pol := pol |}, []) h = (st', L', outs) ->
    (forall (out : outcome) (e : ioerr), In out outs -> out <> OutIo e) ->
    replay_entries [] L' = Some (s_qs st').
Proof. exact history_from_empty_is_replay. Qed.
Print Assumptions C01_history_is_replay.

(* every logged entry survives the codec *)
Theorem C01_logged_entries_roundtrip :
    forall (P : params) (st : state) (L : glog) (o : op) (tick : bool) (st' : state)
    (L' : glog) (out : outcome),
    qs_wf (s_qs st) ->
    op_wf (s_qs st) o ->
    gstep P (st, L) o tick = (st', L', out) ->
    exists es : list (N * entry),
    L' = L ++ es /\ Forall (fun fe : N * entry => entry_deser (entry_ser (snd fe)) = Some (snd fe)) es.
Proof. exact gstep_entries_roundtrip. Qed.
Print Assumptions C01_logged_entries_roundtrip.

(* the model's replay loop body refines the spec-level replay *)
Theorem C01_replay_refines_spec :
    forall (fes : list (N * entry)) (qs : queues) (i : nat) (tm : tmap),
    qs_inv qs ->
    untag tm = abs_qs qs ->
    match apply_entries qs fes with
    | Some qs' =>
    exists tm' : tmap, t_replay tm i (map snd fes) = Some tm' /\ untag tm' = abs_qs qs' /\ qs_inv qs'
    | None => t_replay tm i (map snd fes) = None
    end.
Proof. exact apply_entries_refines. Qed.
Print Assumptions C01_replay_refines_spec.

(* replaying a suffix of a legal log: each queue it knows exists in the full replay with the same next position and exactly the records appended by the suffix *)
Theorem C01_suffix_simulation :
    forall (pre suf : list entry) (F : tmap),
    legal_log [] 0 (pre ++ suf) ->
    t_replay [] 0 (pre ++ suf) = Some F ->
    forall S : tmap,
    t_replay [] (length pre) suf = Some S ->
    forall q : bytes,
    t_get S q = None \/
    (exists (rf : list trec) (n : N),
    t_get F q = Some (rf, n) /\
    t_get S q =
    Some (filter (fun r : nat * (N * bytes) => PeanoNat.Nat.leb (length pre) (fst r)) rf, n)).
Proof. exact suffix_simulation. Qed.
Print Assumptions C01_suffix_simulation.

(* the records lost are a prefix of the queue (the oldest ones) *)
Theorem C01_suffix_is_list_suffix :
    forall (pre suf : list entry) (F : tmap),
    legal_log [] 0 (pre ++ suf) ->
    t_replay [] 0 (pre ++ suf) = Some F ->
    forall S : tmap,
    t_replay [] (length pre) suf = Some S ->
    forall (q : bytes) (rs : list trec) (n : N),
    t_get S q = Some (rs, n) ->
    exists dropped : list trec,
    t_get F q = Some (dropped ++ rs, n) /\
    Forall (fun r : nat * (N * bytes) => (fst r < length pre)%nat) dropped /\
    Forall (fun r : nat * (N * bytes) => (length pre <= fst r)%nat) rs.
Proof. exact suffix_simulation_list_suffix. Qed.
Print Assumptions C01_suffix_is_list_suffix.

(* coverage implies the same observable state: no retained record, queue or position is lost to file deletion *)
Theorem C01_covered_suffix_equal :
    forall (pre suf : list entry) (F S : tmap),
    legal_log [] 0 (pre ++ suf) ->
    t_replay [] 0 (pre ++ suf) = Some F ->
    t_replay [] (length pre) suf = Some S ->
    (forall (q : bytes) (rf : list trec) (n : N),
    t_get F q = Some (rf, n) ->
    Forall (fun r : nat * (N * bytes) => (length pre <= fst r)%nat) rf /\
    (rf = [] -> existsb (fun e : entry => creates e q) suf = true)) ->
    forall q : bytes, s_get (untag S) q = s_get (untag F) q.
Proof. exact covered_suffix_equal. Qed.
Print Assumptions C01_covered_suffix_equal.

(* the same at the level of the model's queues, whatever files the replay attributes the records to *)
Theorem C01_model_covered_suffix_equal :
    forall (fpre fsuf fsuf' : list (N * entry)) (F : tmap),
    let pre := map snd fpre in
    let suf := map snd fsuf in
    map snd fsuf' = suf ->
    legal_log [] 0 (pre ++ suf) ->
    t_replay [] 0 (pre ++ suf) = Some F ->
    (forall (q : bytes) (rf : list trec) (n : N),
    t_get F q = Some (rf, n) ->
    Forall (fun r : nat * (N * bytes) => (length pre <= fst r)%nat) rf /\
    (rf = [] -> existsb (fun e : entry => creates e q) suf = true)) ->
    exists qF qS : queues,
    apply_entries [] (fpre ++ fsuf) = Some qF /\
    apply_entries [] fsuf' = Some qS /\
    qs_inv qF /\
    qs_inv qS /\ abs_qs qF = untag F /\ (forall q : bytes, s_get (abs_qs qS) q = s_get (abs_qs qF) q).
Proof. exact model_covered_suffix_equal. Qed.
Print Assumptions C01_model_covered_suffix_equal.

(* non-vacuity: a concrete log with append, truncate, delete and re-create *)
Theorem C01_example :
    exists qF qS : queues,
    apply_entries [] (map (pair 1) ex_pre ++ map (pair 2) ex_suf) = Some qF /\
    apply_entries [] (map (pair 7) ex_suf) = Some qS /\
    (forall q : bytes, s_get (abs_qs qS) q = s_get (abs_qs qF) q).
Proof. exact ex_equal. Qed.
Print Assumptions C01_example.

