(* PropC01.v — C01: clean restart reproduces the exact logical state. Proved layers: (L) the live queues are exactly the replay of the entries the calls logged; (S) replaying a suffix of a legal log gives, per queue, the same next position and exactly the records appended by entries of the suffix - deleted queues never reappear; (E) if every retained record was appended in the suffix and every empty queue is mentioned there, suffix and full log replay to the same state; (M) the model's replay refines the spec-level replay. The glue to files (FileStream) and the GC coverage invariant are stated_not_proved.
   Statements only; each theorem is closed by `exact <lemma>`; proofs live in the imported files. *)
From Coq Require Import Lia NArith List.
From MRL Require Import Bytes Params Names Frame Record Mem Spec Rolling Log Hist SpecRefine RecordProofs GhostLog ReplaySpec.

(* the ghost log does not change behaviour *)
Theorem C01_instrumentation_erases :
    forall (P : params) (st : state) (L : glog) (o : op) (tick : bool),
    fst (fst (gstep P (st, L) o tick)) = fst (step P st o tick) /\
    snd (gstep P (st, L) o tick) = snd (step P st o tick).
Proof. exact gstep_erase. Qed.
Print Assumptions C01_instrumentation_erases.

(* one call: the queues afterwards are exactly (same term) the replay of the entries it logged on the queues before *)
Theorem C01_live_is_replay :
    forall (P : params) (st : state) (L : glog) (o : op) (tick : bool) (st' : state)
    (L' : glog) (out : outcome),
    nodup_names (s_qs st) ->
    gstep P (st, L) o tick = (st', L', out) ->
    (forall e : ioerr, out <> OutIo e) ->
    exists es : list (N * entry), L' = L ++ es /\ replay_entries (s_qs st) es = Some (s_qs st').
Proof. exact live_is_replay. Qed.
Print Assumptions C01_live_is_replay.

(* any history from an empty log without I/O failure: the queues are the replay of the whole entry log *)
Theorem C01_history_is_replay :
    forall (P : params) (w : rwriter) (pol : policy) (h : list (op * bool)) (st' : state)
    (L' : glog) (outs : list outcome),
    grun P ({| s_wr := w; s_qs := []; s_pol := pol |}, []) h = (st', L', outs) ->
    (forall (out : outcome) (e : ioerr), In out outs -> out <> OutIo e) ->
    replay_entries [] L' = Some (s_qs st').
Proof. exact history_from_empty_is_replay. Qed.
Print Assumptions C01_history_is_replay.

(* every logged entry survives the codec *)
Theorem C01_logged_entries_roundtrip :
    forall (P : params) (st : state) (L : glog) (o : op) (tick : bool) (st' : state)
    (L' : glog) (out : outcome),
    qs_wf (s_qs st) ->
    op_wf (s_qs st) o ->
    gstep P (st, L) o tick = (st', L', out) ->
    exists es : list (N * entry),
    L' = L ++ es /\ Forall (fun fe : N * entry => entry_deser (entry_ser (snd fe)) = Some (snd fe)) es.
Proof. exact gstep_entries_roundtrip. Qed.
Print Assumptions C01_logged_entries_roundtrip.

(* the model's replay loop body refines the spec-level replay *)
Theorem C01_replay_refines_spec :
    forall (fes : list (N * entry)) (qs : queues) (i : nat) (tm : tmap),
    qs_inv qs ->
    untag tm = abs_qs qs ->
    match apply_entries qs fes with
    | Some qs' =>
    exists tm' : tmap, t_replay tm i (map snd fes) = Some tm' /\ untag tm' = abs_qs qs' /\ qs_inv qs'
    | None => t_replay tm i (map snd fes) = None
    end.
Proof. exact apply_entries_refines. Qed.
Print Assumptions C01_replay_refines_spec.

(* replaying a suffix of a legal log: each queue it knows exists in the full replay with the same next position and exactly the records appended by the suffix *)
Theorem C01_suffix_simulation :
    forall (pre suf : list entry) (F : tmap),
    legal_log [] 0 (pre ++ suf) ->
    t_replay [] 0 (pre ++ suf) = Some F ->
    forall S : tmap,
    t_replay [] (length pre) suf = Some S ->
    forall q : bytes,
    t_get S q = None \/
    (exists (rf : list trec) (n : N),
    t_get F q = Some (rf, n) /\
    t_get S q =
    Some (filter (fun r : nat * (N * bytes) => PeanoNat.Nat.leb (length pre) (fst r)) rf, n)).
Proof. exact suffix_simulation. Qed.
Print Assumptions C01_suffix_simulation.

(* the records lost are a prefix of the queue (the oldest ones) *)
Theorem C01_suffix_is_list_suffix :
    forall (pre suf : list entry) (F : tmap),
    legal_log [] 0 (pre ++ suf) ->
    t_replay [] 0 (pre ++ suf) = Some F ->
    forall S : tmap,
    t_replay [] (length pre) suf = Some S ->
    forall (q : bytes) (rs : list trec) (n : N),
    t_get S q = Some (rs, n) ->
    exists dropped : list trec,
    t_get F q = Some (dropped ++ rs, n) /\
    Forall (fun r : nat * (N * bytes) => (fst r < length pre)%nat) dropped /\
    Forall (fun r : nat * (N * bytes) => (length pre <= fst r)%nat) rs.
Proof. exact suffix_simulation_list_suffix. Qed.
Print Assumptions C01_suffix_is_list_suffix.

(* coverage implies the same observable state: no retained record, queue or position is lost to file deletion *)
Theorem C01_covered_suffix_equal :
    forall (pre suf : list entry) (F S : tmap),
    legal_log [] 0 (pre ++ suf) ->
    t_replay [] 0 (pre ++ suf) = Some F ->
    t_replay [] (length pre) suf = Some S ->
    (forall (q : bytes) (rf : list trec) (n : N),
    t_get F q = Some (rf, n) ->
    Forall (fun r : nat * (N * bytes) => (length pre <= fst r)%nat) rf /\
    (rf = [] -> existsb (fun e : entry => creates e q) suf = true)) ->
    forall q : bytes, s_get (untag S) q = s_get (untag F) q.
Proof. exact covered_suffix_equal. Qed.
Print Assumptions C01_covered_suffix_equal.

(* the same at the level of the model's queues, whatever files the replay attributes the records to *)
Theorem C01_model_covered_suffix_equal :
    forall (fpre fsuf fsuf' : list (N * entry)) (F : tmap),
    let pre := map snd fpre in
    let suf := map snd fsuf in
    map snd fsuf' = suf ->
    legal_log [] 0 (pre ++ suf) ->
    t_replay [] 0 (pre ++ suf) = Some F ->
    (forall (q : bytes) (rf : list trec) (n : N),
    t_get F q = Some (rf, n) ->
    Forall (fun r : nat * (N * bytes) => (length pre <= fst r)%nat) rf /\
    (rf = [] -> existsb (fun e : entry => creates e q) suf = true)) ->
    exists qF qS : queues,
    apply_entries [] (fpre ++ fsuf) = Some qF /\
    apply_entries [] fsuf' = Some qS /\
    qs_inv qF /\
    qs_inv qS /\ abs_qs qF = untag F /\ (forall q : bytes, s_get (abs_qs qS) q = s_get (abs_qs qF) q).
Proof. exact model_covered_suffix_equal. Qed.
Print Assumptions C01_model_covered_suffix_equal.

(* non-vacuity: a concrete log with append, truncate, delete and re-create *)
Theorem C01_example :
    exists qF qS : queues,
    apply_entries [] (map (pair 1) ex_pre ++ map (pair 2) ex_suf) = Some qF /\
    apply_entries [] (map (pair 7) ex_suf) = Some qS /\
    (forall q : bytes, s_get (abs_qs qS) q = s_get (abs_qs qF) q).
Proof. exact ex_equal. Qed.
Print Assumptions C01_example.

