(* JInv.v — TASK T14, stage 1: the junk-tolerant restart invariant InvJ.

   ==========================================================================
   DESIGN (stage 1)
   ==========================================================================
   Route (i) of the task, in the following form.

   The restart invariant Inv (RestartInv.v) says that the ghost stream is EXACTLY
   gh_T G = encs_of 0 (ser (gh_ALL G)).  After the recovery of a crash image this is false: the
   files hold   old entries ++ junk (valid leading frames of the torn entry, a partial frame,
   the zero gap up to the resume position) ++ whatever is written next.

   Generalisation: the invariant is parametrised by a FIXED PREFIX of the ghost stream
        PRE : bytes          everything in the stream up to the resume position of the
                             recovered writer (old encodings AND junk, any number of segments)
        OLD : list entry     the entries that a reader delivers out of PRE
        opos : list (N * N)  their (start cursor, first-frame position)
   and the ghost stream is
        jT G   = PRE ++ encs_of (lenN PRE) (ser NEW)      NEW = skipn (length OLD) (gh_ALL G)
        jpos G = opos ++ starts (lenN PRE) (ser NEW)      positions of ALL entries
   i.e. everything written after the recovery is a clean framed encoding starting at the cursor
   lenN PRE, and nothing at all is assumed about the bytes of PRE in the invariant itself.
   Clauses (F)(S)(W)(H) of PInv are kept verbatim with jT for gh_T; clauses (D) are stated on
   the explicit position list jpos (split at gh_k G) instead of `starts`/`delivered_from`.
   The logical half LInv is reused unchanged (it never mentions bytes), as are the ghost
   operations gh_snoc / gh_app / gh_move / gh_reopen.  Inv is the instance PRE = [], OLD = [].

   What the bytes of PRE must satisfy is needed only where the files are READ (a restart):
   the semantic premise  pre_reads  (JReopen.v): a reader started at an (admissible) block
   boundary kb of  PRE ++ t2 ++ zeros  (t2 a clean encoding from cursor lenN PRE) delivers
   exactly the entries of OLD ++ es2 whose first frame is at or after kb*B, reports at most
   cmax corruptions, and ends at the end of t2.  It is established
     - for a clean PRE by OpenReplay.read_delivered_tr,
     - for PRE = old stream ++ torn entry by TornProofs.torn_walk (JunkStream.v).
   Preservation by writes / GC / calls (JInv.v, JGc.v, JStep.v) is a port of
   RestartWrite/RestartGc/RestartStep on top of the existing writer simulation
   (FileStream.write_record_file_sim) and of the existing logical lemmas.
   ========================================================================== *)
From Coq Require Import Lia ZArith ZifyN ZifyNat ZifyBool List Sorted.
From MRL Require Import Bytes BytesProofs Params Names NamesProofs Frame Record Mem Spec Rolling Log
  Driver SpecRefine RecordProofs StreamProofs PolicyProofs GcProofs GhostLog ReplaySpec
  HandleProofs FileStream ResyncProofs RestartInv RestartWrite RestartGc.

Arguments N.add : simpl never.
Arguments N.sub : simpl never.
Arguments N.mul : simpl never.
Arguments N.eqb : simpl never.
Arguments N.ltb : simpl never.
Arguments N.leb : simpl never.
Arguments N.div : simpl never.
Arguments N.modulo : simpl never.
Arguments N.min : simpl never.
Arguments N.max : simpl never.

(* ---------- small list facts ---------- *)
Lemma firstn_app_le {A} (l1 l2 : list A) n : (n <= length l1)%nat -> firstn n (l1 ++ l2) = firstn n l1.
Proof.
  intros H. rewrite firstn_app. replace (n - length l1)%nat with 0%nat by lia.
  cbn [firstn]. apply app_nil_r.
Qed.

Lemma skipn_app_le {A} (l1 l2 : list A) n : (n <= length l1)%nat -> skipn n (l1 ++ l2) = skipn n l1 ++ l2.
Proof.
  intros H. rewrite skipn_app. replace (n - length l1)%nat with 0%nat by lia. reflexivity.
Qed.

Lemma firstn_skipn_eq {A} (l a : list A) : firstn (length a) l = a -> l = a ++ skipn (length a) l.
Proof. intros H. rewrite <- H at 1. symmetry. apply firstn_skipn. Qed.

(* a list sorted by the second component splits at any threshold *)
Lemma sorted_split_at (l : list (N * N)) b :
  StronglySorted (fun s s' : N * N => snd s < snd s') l ->
  exists m, (m <= length l)%nat /\
    Forall (fun s => snd s < b) (firstn m l) /\ Forall (fun s => b <= snd s) (skipn m l).
Proof.
  induction 1 as [|x l Hs IH Hx].
  - exists 0%nat. cbn. repeat split; constructor.
  - destruct (N.lt_ge_cases (snd x) b) as [Hlt|Hge].
    + destruct IH as (m & Hm & H1 & H2). exists (S m). cbn [length firstn skipn].
      split; [lia|]. split; [constructor; assumption|exact H2].
    + exists 0%nat. cbn [firstn skipn length]. split; [lia|]. split; [constructor|].
      constructor; [exact Hge|]. eapply Forall_impl; [|exact Hx]. cbn beta. intros s Hs'. lia.
Qed.

Lemma StronglySorted_app_lt {A} (R : A -> A -> Prop) l1 l2 :
  StronglySorted R l1 -> StronglySorted R l2 ->
  (forall x y, In x l1 -> In y l2 -> R x y) -> StronglySorted R (l1 ++ l2).
Proof.
  intros H1 H2 H. induction H1 as [|x l1 Hs IH Hx]; [exact H2|].
  cbn [app]. constructor.
  - apply IH. intros a b Ha Hb. apply H; [now right|exact Hb].
  - apply Forall_app. split; [exact Hx|]. apply Forall_forall. intros y Hy. apply H; [now left|exact Hy].
Qed.

Lemma StronglySorted_skipn {A} (R : A -> A -> Prop) : forall n l,
  StronglySorted R l -> StronglySorted R (skipn n l).
Proof.
  induction n as [|n IH]; intros l H; [exact H|].
  destruct H as [|x l Hs Hx]; [constructor|]. cbn [skipn]. now apply IH.
Qed.

Section JInv.
Variable P : params.
Hypothesis HBS_lo : 7 < BS P.
Hypothesis HBS_hi : BS P <= 65542.
Hypothesis HNB : 1 <= NB P.
Hypothesis Hcrc : forall t p, crcf P t p < 2 ^ 32.

Local Notation B := (BS P).
Local Notation FB := (FILE_BYTES P).
Local Notation ffp := (first_frame_pos P).
Local Notation enc_of := (enc_of P).
Local Notation encs_of := (encs_of P).
Local Notation cursor_after := (cursor_after P).
Local Notation starts := (starts P).
Local Notation H3 f := (f P HBS_lo HBS_hi Hcrc) (only parsing).
Local Notation H2 f := (f P HBS_lo HBS_hi) (only parsing).
Local Notation HW f := (f P HBS_lo HBS_hi HNB Hcrc) (only parsing).
Local Notation HN f := (f P HBS_lo HBS_hi HNB) (only parsing).

(* ====================================================================== *)
(* 0. the fixed prefix                                                    *)
(* ====================================================================== *)
Variable PRE : bytes.
Variable OLD : list entry.
Variable opos : list (N * N).

(* what the invariant needs to know about the positions of the old entries *)
Definition pre_ok : Prop :=
  length opos = length OLD /\
  Forall (fun s => snd s < lenN PRE) opos /\
  StronglySorted (fun s s' => snd s < snd s') opos.

Definition jNEW (G : ghost) : list entry := skipn (length OLD) (gh_ALL G).
Definition jser (G : ghost) : list bytes := map entry_ser (jNEW G).
Definition jT (G : ghost) : bytes := PRE ++ encs_of (lenN PRE) (jser G).
Definition jpos (G : ghost) : list (N * N) := opos ++ starts (lenN PRE) (jser G).

Definition PInvJ (w : rwriter) (G : ghost) : Prop :=
  winv P w /\ wd_ok w /\ nd w /\ gh_base G <= wlo w /\
  let dl := wlo w - gh_base G in
  let c := dl * FB + wpos P w in
  lenN (jT G) <= c /\ c <= ffp (lenN (jT G)) /\
  wstream w =
    dropN (dl * FB) (jT G ++ zerosN ((dl + lenN (w_files w)) * FB - lenN (jT G))) /\
  Forall wf_entry (gh_ALL G) /\
  firstn (length OLD) (gh_ALL G) = OLD /\
  Forall (fun s => snd s < dl * FB) (firstn (gh_k G) (jpos G)) /\
  Forall2 (fun fe s => dl * FB <= snd s /\ (fst fe - gh_base G) * FB <= snd s)
          (gh_E G) (skipn (gh_k G) (jpos G)) /\
  tags_mono (gh_base G) (gh_log G) (w_file w).

Definition InvJ (st : state) (G : ghost) : Prop :=
  PInvJ (s_wr st) G /\ LInv (s_qs st) (wlo (s_wr st)) G.

(* ---------- projections ---------- *)
Lemma InvJ_nodup st G : InvJ st G -> nodup_names (s_qs st).
Proof. intros (_ & HL). exact (LInv_nodup _ _ _ HL). Qed.

Lemma InvJ_qs_inv st G : InvJ st G -> qs_inv (s_qs st).
Proof. intros (_ & HL). exact (LInv_qs_inv _ _ _ HL). Qed.

Lemma InvJ_qs_wf st G : InvJ st G -> qs_wf (s_qs st).
Proof. intros (_ & HL). exact (LInv_qs_wf _ _ _ HL). Qed.

Lemma InvJ_winv st G : InvJ st G -> winv P (s_wr st) /\ wd_ok (s_wr st) /\ nd (s_wr st).
Proof. intros ((H1 & H2' & H3' & _) & _). auto. Qed.

Theorem invJ_restart_equal st G :
  InvJ st G ->
  forall tags', length tags' = length (gh_E G) ->
  exists qs',
    replay_entries [] (combine tags' (map snd (gh_E G))) = Some qs' /\
    qs_inv qs' /\ nodup_names qs' /\
    forall q, s_get (abs_qs qs') q = s_get (abs_qs (s_qs st)) q.
Proof. intros (_ & HL). exact (linv_restart_equal _ _ _ HL). Qed.

(* ---------- the ghost lists ---------- *)
Lemma jALL_split w G : PInvJ w G -> gh_ALL G = OLD ++ jNEW G.
Proof.
  intros (_ & _ & _ & _ & _ & _ & _ & _ & Ho & _). cbn zeta in Ho.
  unfold jNEW. now apply firstn_skipn_eq.
Qed.

Lemma jlen_le w G : PInvJ w G -> (length OLD <= length (gh_ALL G))%nat.
Proof. intros H. rewrite (jALL_split w G H), app_length. lia. Qed.

Lemma jpos_length w G : pre_ok -> PInvJ w G -> length (jpos G) = length (gh_ALL G).
Proof.
  intros (Hl & _) H. unfold jpos. rewrite app_length, (ResyncProofs.starts_length P), Hl.
  unfold jser. rewrite map_length.
  pose proof (f_equal (@length entry) (jALL_split w G H)) as E. rewrite app_length in E. lia.
Qed.

Lemma gh_k_le G : (gh_k G <= length (gh_ALL G))%nat.
Proof. rewrite gh_ALL_split, app_length, gh_before_length. lia. Qed.

(* the positions of all entries are strictly increasing *)
Lemma jpos_sorted G : pre_ok -> StronglySorted (fun s s' : N * N => snd s < snd s') (jpos G).
Proof.
  intros (_ & Hb & Hs). unfold jpos. apply StronglySorted_app_lt; [exact Hs|apply (H3 starts_sorted)|].
  intros x y Hx Hy. rewrite Forall_forall in Hb. specialize (Hb x Hx).
  pose proof (H3 starts_bounds (jser G) (lenN PRE)) as Hsb. rewrite Forall_forall in Hsb.
  destruct (Hsb y Hy) as (H1 & H2' & _). lia.
Qed.

(* the cursor at the end of NEW is the end of the ghost stream *)
Lemma jT_len G : lenN (jT G) = cursor_after (lenN PRE) (jser G).
Proof. unfold jT, ResyncProofs.cursor_after. now rewrite lenN_app. Qed.

(* ---------- the ghost extended by one entry ---------- *)
Lemma jNEW_snoc G f e :
  (length OLD <= length (gh_ALL G))%nat -> jNEW (gh_snoc G f e) = jNEW G ++ [e].
Proof. intros H. unfold jNEW. rewrite gh_snoc_ALL. now apply skipn_app_le. Qed.

Lemma jser_snoc G f e :
  (length OLD <= length (gh_ALL G))%nat -> jser (gh_snoc G f e) = jser G ++ [entry_ser e].
Proof. intros H. unfold jser. now rewrite (jNEW_snoc G f e H), map_app. Qed.

Lemma jT_snoc G f e :
  (length OLD <= length (gh_ALL G))%nat ->
  jT (gh_snoc G f e) = jT G ++ enc_of (lenN (jT G)) (entry_ser e).
Proof.
  intros H. unfold jT. rewrite (jser_snoc G f e H), (H3 encs_of_app), <- app_assoc.
  cbn [ResyncProofs.encs_of]. rewrite app_nil_r, lenN_app. reflexivity.
Qed.

Lemma jpos_snoc G f e :
  (length OLD <= length (gh_ALL G))%nat ->
  jpos (gh_snoc G f e) = jpos G ++ [(lenN (jT G), ffp (lenN (jT G)))].
Proof.
  intros H. unfold jpos. rewrite (jser_snoc G f e H), (H3 starts_app), <- app_assoc.
  cbn [ResyncProofs.starts]. now rewrite <- jT_len.
Qed.

(* the premise of a write: the stream stays below 2^64 files *)
Definition stream_boundJ (G : ghost) (extra : list entry) : Prop :=
  FB * gh_base G + cursor_after (lenN PRE) (map entry_ser (jNEW G ++ extra)) <= FB * (U64_MAX + 1).

Lemma stream_boundJ_prefix G x y : stream_boundJ G (x ++ y) -> stream_boundJ G x.
Proof.
  unfold stream_boundJ. rewrite app_assoc, map_app, (H3 cursor_after_app).
  pose proof (H3 cursor_after_ge (map entry_ser y)
                (cursor_after (lenN PRE) (map entry_ser (jNEW G ++ x)))).
  lia.
Qed.

Lemma stream_boundJ_snoc G f e x :
  (length OLD <= length (gh_ALL G))%nat ->
  stream_boundJ G (e :: x) -> stream_boundJ (gh_snoc G f e) x.
Proof.
  intros H. unfold stream_boundJ. rewrite (jNEW_snoc G f e H), <- app_assoc.
  cbn [app gh_snoc gh_base]. trivial.
Qed.

(* ====================================================================== *)
(* 1. the physical side of one write (port of RestartWrite.pinv_write)     *)
(* ====================================================================== *)
Lemma pinvJ_write w G e w' r :
  pre_ok -> PInvJ w G -> wf_entry e -> stream_boundJ G [e] ->
  write_record P rwriter (wr_write P) (wr_rem P) w (entry_ser e) = (w', r) ->
  (exists n, r = Ok n) /\ wlo w' = wlo w /\ w_file w <= w_file w' /\
  PInvJ w' (gh_snoc G (w_file w) e).
Proof.
  intros Hpre HPJ Hwf Hbound Hwr.
  pose proof (jlen_le w G HPJ) as Hjl.
  pose proof (jpos_length w G Hpre HPJ) as Hjpl.
  destruct HPJ as (Hw & Hwd & Hnd & Hbase & Hc1 & Hc2 & Hs & HWe & Hold & HD1 & HD2 & Htags).
  cbn zeta in *.
  set (p := entry_ser e) in *.
  set (dl := wlo w - gh_base G) in *.
  set (T := jT G) in *. set (a := lenN T) in *.
  set (n := lenN (w_files w)) in *.
  set (c := dl * FB + wpos P w) in *.
  pose proof Hw as (Hok & Hwf' & Hoff & _).
  destruct (wr_ok_len P (HN HB0) HNB w Hok) as (Hn & Hn1). fold n in Hn, Hn1.
  pose proof (lenN_wstream P w Hw) as HlenS. fold n in HlenS.
  assert (Hpos : wpos P w = (n - 1) * FB + w_off w) by reflexivity.
  assert (Hposn : wpos P w <= n * FB) by nia.
  assert (Hcn : c <= (dl + n) * FB) by (unfold c; nia).
  set (buf := takeN (wpos P w) (wstream w)).
  assert (Ebuf : buf = dropN (dl * FB) (T ++ zerosN (c - a))).
  { unfold buf. rewrite Hs.
    replace (wpos P w) with (dl * FB + wpos P w - dl * FB) by lia.
    rewrite <- dropN_takeN. f_equal. fold c.
    rewrite takeN_app_ge by (fold a; lia). fold a. f_equal.
    apply takeN_zerosN. lia. }
  assert (Eenc : enc_of (wpos P w) p = enc_of c p).
  { unfold c. symmetry. apply (HW enc_of_shift). apply (HN mulFB_mod). }
  set (enc := enc_of c p) in *.
  assert (Elen : c + lenN enc = a + lenN (enc_of a p)) by (apply (HW enc_of_between_len); assumption).
  assert (Ebound : FB * gh_base G + (a + lenN (enc_of a p)) <= FB * (U64_MAX + 1)).
  { unfold stream_boundJ in Hbound. rewrite map_app in Hbound. cbn [map] in Hbound.
    fold p in Hbound. fold (jser G) in Hbound.
    rewrite (H3 cursor_after_snoc), <- jT_len in Hbound. exact Hbound. }
  set (M := wpos P w + lenN enc).
  set (v := mkVecW (wpos P w) buf).
  assert (Hsim : wsim P M w v).
  { unfold v. split; [exact Hw|]. split; [reflexivity|]. split.
    { cbn [vw_buf vw_cursor]. unfold buf. rewrite lenN_takeN, HlenS. lia. }
    split.
    { cbn [vw_buf]. rewrite <- (takeN_dropN (wpos P w) (wstream w)) at 1. fold buf. f_equal.
      rewrite Hs, dropN_dropN. fold c. rewrite dropN_app_ge by (fold a; lia). fold a.
      rewrite dropN_zerosN. fold n. f_equal. lia. }
    unfold M. replace (wlo w) with (gh_base G + dl) by lia. unfold c in Elen. nia. }
  assert (HG : Gv M (fst (write_record P vecw vw_write (vw_rem P) v p))).
  { rewrite (H3 write_record_enc_of). unfold Gv, v. cbn [fst vw_cursor].
    rewrite Eenc. unfold M. lia. }
  destruct (write_record_file_sim P (HN HB0) HNB M w v p (HN HB7) Hsim HG) as (Er & Hsim').
  rewrite Hwr in Er, Hsim'. rewrite (H3 write_record_enc_of) in Er, Hsim'.
  unfold v in Er, Hsim'. cbn [fst snd vw_cursor vw_buf] in Er, Hsim'. rewrite Eenc in Er, Hsim'.
  destruct Hsim' as (Hw' & Hcur' & _ & Hs' & _). cbn [vw_cursor vw_buf] in Hcur', Hs'.
  pose proof (write_record_hd P (wlo w) w p w' r Hwr (conj Hok (HN wr_ok_hd w Hok))) as Hhd.
  pose proof (HN hd_inv_wlo _ _ Hhd) as Elo.
  destruct (write_record_wr_step P w p w' r Hwr Hok) as (Hok' & Hmono).
  destruct (wr_ok_len P (HN HB0) HNB w' Hok') as (Hn' & Hn1').
  set (n' := lenN (w_files w')) in *.
  split; [eexists; exact Er|]. split; [exact Elo|]. split; [exact Hmono|].
  unfold PInvJ. cbn zeta. rewrite Elo. fold dl.
  rewrite (jT_snoc G (w_file w) e Hjl). fold T. fold a. cbn [gh_snoc gh_base].
  assert (ET' : lenN (T ++ enc_of a p) = dl * FB + wpos P w').
  { rewrite lenN_app. fold a. unfold c in Elen. lia. }
  split; [exact Hw'|].
  split; [exact (write_record_inv P rwriter (wr_write P) (wr_rem P) wd_ok (wr_write_wd_ok P) w p w' r Hwr Hwd)|].
  split; [exact (write_record_inv P rwriter (wr_write P) (wr_rem P) (nd) (wr_write_nd P) w p w' r Hwr Hnd)|].
  split; [exact Hbase|].
  fold p. fold dl. fold n'. split; [rewrite ET'; lia|]. split; [rewrite ET'; apply (H2 ffp_ge)|].
  split.
  { rewrite Hs'. fold n'. rewrite dropN_app_le by lia. f_equal; [|f_equal; lia].
    rewrite Ebuf. rewrite <- (HW enc_of_between a c p Hc1 Hc2). fold enc.
    rewrite (app_assoc T). rewrite (dropN_app_le (dl * FB) (T ++ zerosN (c - a))); [reflexivity|].
    rewrite lenN_app, lenN_zerosN. fold a. unfold c. lia. }
  fold (gh_snoc G (w_file w) e).
  split; [rewrite gh_snoc_ALL; apply Forall_app; split; [exact HWe|constructor; [exact Hwf|constructor]]|].
  split.
  { rewrite gh_snoc_ALL, firstn_app_le by exact Hjl. exact Hold. }
  pose proof (gh_k_le G) as Hk.
  rewrite gh_snoc_k, (jpos_snoc G (w_file w) e Hjl). fold T. fold a.
  split.
  { rewrite firstn_app_le by lia. exact HD1. }
  split.
  { rewrite skipn_app_le by lia. cbn [gh_snoc gh_E].
    apply Forall2_app_one; [exact HD2|]. cbn [fst snd].
    split; [unfold c in Hc2; lia|].
    replace (w_file w - gh_base G) with (dl + (n - 1)) by lia.
    unfold c in Hc2. nia. }
  rewrite gh_snoc_log.
  eapply tags_mono_app; [exact Htags|]. cbn [tags_mono]. lia.
Qed.

(* ====================================================================== *)
(* 2. writing one entry (port of RestartWrite.inv_write_entry)             *)
(* ====================================================================== *)
Theorem invJ_write_entry st G e st1 r qs' :
  pre_ok -> InvJ st G -> wf_entry e -> stream_boundJ G [e] ->
  (forall F, t_replay [] 0 (gh_ALL G) = Some F -> legal F e) ->
  write_entry P st e = (st1, r) ->
  apply_entry (s_qs st) (w_file (s_wr st)) e = Some qs' -> qs_wf qs' ->
  (exists n, r = Ok n) /\ s_qs st1 = s_qs st /\ s_pol st1 = s_pol st /\
  wlo (s_wr st1) = wlo (s_wr st) /\ w_file (s_wr st) <= w_file (s_wr st1) /\
  InvJ (set_qs st1 qs') (gh_snoc G (w_file (s_wr st)) e).
Proof.
  intros Hpre (HP & HL) Hwf Hb Hleg Hwr Hap Hwf'. unfold write_entry in Hwr.
  destruct (write_record P rwriter (wr_write P) (wr_rem P) (s_wr st) (entry_ser e)) as [w1 r1] eqn:Ew.
  inversion Hwr; subst st1 r. clear Hwr.
  destruct (pinvJ_write _ _ _ _ _ Hpre HP Hwf Hb Ew) as (Hr & Elo & Hmono & HP').
  split; [exact Hr|]. split; [reflexivity|]. split; [reflexivity|].
  cbn [set_wr s_wr]. split; [exact Elo|]. split; [exact Hmono|].
  split; cbn [set_qs set_wr s_wr s_qs]; [exact HP'|]. rewrite Elo.
  apply (linv_apply _ _ _ _ _ _ HL Hwf' Hleg Hap).
  destruct HP as (Hw & _). now apply (HN winv_wlo_le).
Qed.

End JInv.

(* ====================================================================== *)
(* 3. Inv is the instance with the empty prefix                           *)
(* ====================================================================== *)
Section Instance.
Variable P : params.
Hypothesis HBS_lo : 7 < BS P.
Hypothesis HBS_hi : BS P <= 65542.
Hypothesis HNB : 1 <= NB P.
Hypothesis Hcrc : forall t p, crcf P t p < 2 ^ 32.

Lemma pre_ok_nil : pre_ok [] [] [].
Proof. split; [reflexivity|]. split; constructor. Qed.

Lemma jT_nil G : jT P [] [] G = gh_T P G.
Proof. unfold jT, jser, jNEW. cbn [length skipn app]. reflexivity. Qed.

Lemma jpos_nil G : jpos P [] [] [] G = starts P 0 (gh_ser G).
Proof. unfold jpos, jser, jNEW. cbn [length skipn app]. reflexivity. Qed.

Lemma starts_firstn_skipn es1 : forall es2 a,
  firstn (length es1) (starts P a (es1 ++ es2)) = starts P a es1 /\
  skipn (length es1) (starts P a (es1 ++ es2)) = starts P (cursor_after P a es1) es2.
Proof.
  intros es2 a. rewrite (starts_app P HBS_lo HBS_hi Hcrc).
  pose proof (starts_length P es1 a) as Hl. set (s1 := starts P a es1) in *. clearbody s1.
  rewrite <- Hl.
  split; [apply RestartGc.firstn_app_exact|apply RestartGc.skipn_app_exact].
Qed.

Theorem PInv_PInvJ w G : PInv P w G <-> PInvJ P [] [] [] w G.
Proof.
  unfold PInv, PInvJ. rewrite jT_nil, jpos_nil.
  assert (Ek : gh_k G = length (gh_ser_before G)).
  { unfold gh_ser_before. now rewrite map_length, gh_before_length. }
  destruct (starts_firstn_skipn (gh_ser_before G) (gh_ser_E G) 0) as [E1 E2].
  rewrite <- gh_ser_split, <- Ek in E1, E2. cbn zeta.
  rewrite E1, E2. fold (gh_a0 P G). cbn [length firstn].
  split.
  - intros (H1 & H2 & H3 & H4 & H5 & H6 & H7 & H8 & H9 & H10 & H11).
    repeat (split; [assumption|]). split; [reflexivity|]. repeat (split; [assumption|]). assumption.
  - intros (H1 & H2 & H3 & H4 & H5 & H6 & H7 & H8 & _ & H9 & H10 & H11).
    repeat (split; [assumption|]). assumption.
Qed.

Theorem Inv_InvJ st G : Inv P st G <-> InvJ P [] [] [] st G.
Proof. unfold Inv, InvJ. now rewrite PInv_PInvJ. Qed.

End Instance.

Print Assumptions pinvJ_write.
Print Assumptions invJ_write_entry.
Print Assumptions Inv_InvJ.
